package cqlgen

import (
	"encoding/hex"
	"fmt"
	"sync"

	"verif/internal/cqlref"
	"verif/internal/mon"
)

// Case is one (type tree, abstract value, Go representation, protocol version) quadruple.
type Case struct {
	Index   int    // position in the Plan (replay handle), -1 for derived cases
	Origin  string // scalar-table | random | golden | blame
	Type    *cqlref.Type
	Value   *cqlref.Value
	Repr    *Repr
	Version cqlref.Version
}

// Sig is the signature that makes two cases distinct: type, representation, version and value.
func (c Case) Sig() string {
	return c.Type.String() + "|" + c.Repr.String() + "|" + c.Version.String() + "|" + cqlref.Format(c.Type, c.Value)
}

// Describe returns the JSON-serialisable description used in violation details and samples.
func (c Case) Describe() map[string]interface{} {
	return map[string]interface{}{
		"index": c.Index, "origin": c.Origin, "type": c.Type.String(), "version": c.Version.String(),
		"representation": c.Repr.String(), "go_type": c.Repr.GoType().String(),
		"value": clip(cqlref.Format(c.Type, c.Value), 600), "class": Class(c.Type, c.Value, c.Version),
	}
}

func clip(s string, n int) string {
	if len(s) > n {
		return s[:n] + fmt.Sprintf("...(%d chars)", len(s))
	}
	return s
}

// Hex renders bytes for violation details: "NULL" for nil, at most 96 bytes in full, otherwise
// head, tail and length.
func Hex(b []byte) string {
	if b == nil {
		return "NULL"
	}
	if len(b) <= 96 {
		return hex.EncodeToString(b)
	}
	return fmt.Sprintf("%s..%s(%d bytes)", hex.EncodeToString(b[:48]), hex.EncodeToString(b[len(b)-16:]), len(b))
}

// Plan is a deterministic case list: a fixed, seed-independent part (the scalar table: every
// scalar kind x every documented representation, plain and through a pointer x every pool value
// the representation holds exactly, plus NULL for nillable representations) followed by
// pseudo-random container cases that are pure functions of (Seed, index).
type Plan struct {
	Seed     int64
	MaxDepth int // container nesting depth of random cases (3 quick, 4 thorough)
	Group    int // number of consecutive random cases sharing one shape
	fixed    []Case
	mu       sync.Mutex
	shapes   map[int]*shape // cache of recently used group shapes
}

// NewPlan builds the plan. With allVersions every scalar-table triple is repeated for every
// protocol version in which the type exists; otherwise versions are assigned round-robin.
func NewPlan(seed int64, maxDepth int, allVersions bool) *Plan {
	p := &Plan{Seed: seed, MaxDepth: maxDepth, Group: GroupSize}
	if allVersions {
		p.Group = ThoroughGroupSize
	}
	rr := 0
	for _, k := range cqlref.ScalarKinds() {
		t := cqlref.Scalar(k)
		var vers []cqlref.Version
		for _, v := range cqlref.AllVersions {
			if k.ExistsIn(v) {
				vers = append(vers, v)
			}
		}
		for _, base := range ScalarReprs(k) {
			reprs := []*Repr{base}
			if q := Ptr(base); q != base {
				reprs = append(reprs, q)
			}
			for _, r := range reprs {
				r.Freeze()
				vals := Pool(k)
				if r.CarriesNull(k) {
					vals = append(append([]*cqlref.Value{}, vals...), cqlref.NullValue())
				}
				for _, v := range vals {
					if !Fits(r, t, v) {
						continue
					}
					if allVersions {
						for _, ver := range vers {
							p.fixed = append(p.fixed, Case{Origin: "scalar-table", Type: t, Value: v, Repr: r, Version: ver})
						}
					} else {
						p.fixed = append(p.fixed, Case{Origin: "scalar-table", Type: t, Value: v, Repr: r, Version: vers[rr%len(vers)]})
						rr++
					}
				}
			}
		}
	}
	p.fixed = append(p.fixed, LargeCollectionCases(allVersions)...)
	for i := range p.fixed {
		p.fixed[i].Index = i
	}
	return p
}

// LargeCounts are the element counts around the limits of the protocol-v2 [short] count (a signed
// or truncated reading of the count shows at 32768 and 65535; 65536 exists from v3 only).
var LargeCounts = []int{32767, 32768, 65535, 65536}

// LargeCollection builds the (type, value, representation) of one large collection with small
// elements: kind "list" = list<int> as []int32, "set" = set<varchar> as []string, "map" =
// map<int,boolean> as map[int32]bool, with n distinct elements / keys.
func LargeCollection(kind string, n int) (*cqlref.Type, *cqlref.Value, *Repr) {
	v := cqlref.SeqValue()
	switch kind {
	case "list":
		for i := 0; i < n; i++ {
			v.Elems = append(v.Elems, cqlref.Int64Value(int64(i)*7-100000))
		}
		return cqlref.NewList(cqlref.Scalar(cqlref.Int)), v, (&Repr{K: RSlice, Sub: []*Repr{Leaf(RInt32)}}).Freeze()
	case "set":
		for i := 0; i < n; i++ {
			v.Elems = append(v.Elems, cqlref.BytesValue([]byte(fmt.Sprintf("e%d", i))))
		}
		return cqlref.NewSet(cqlref.Scalar(cqlref.Text)), v, (&Repr{K: RSlice, Sub: []*Repr{Leaf(RString)}}).Freeze()
	default:
		for i := 0; i < n; i++ {
			v.Elems = append(v.Elems, cqlref.Int64Value(int64(i)-40000), cqlref.BoolValue(i%3 == 0))
		}
		return cqlref.NewMap(cqlref.Scalar(cqlref.Int), cqlref.Scalar(cqlref.Boolean)), v, (&Repr{K: RMap, Sub: []*Repr{Leaf(RInt32), Leaf(RBool)}}).Freeze()
	}
}

// LargeCollectionCases is the seed-independent list of large-collection cases: list<int>,
// set<varchar>, map<int,boolean> with 32767, 32768 and 65535 elements in protocol v2 and v4 (every
// version with allVersions), and 65536 elements where the count is an [int] (v3+). The v2 case
// with 65536 elements cannot be expressed; see LargeCollection for building it by hand.
func LargeCollectionCases(allVersions bool) []Case {
	vers := []cqlref.Version{cqlref.V2, cqlref.V4}
	if allVersions {
		vers = cqlref.AllVersions
	}
	var out []Case
	for _, kind := range []string{"list", "set", "map"} {
		for _, n := range LargeCounts {
			t, v, rep := LargeCollection(kind, n)
			for _, ver := range vers {
				if ver.ShortCollections() && n > 0xFFFF {
					continue
				}
				out = append(out, Case{Origin: "large-collection", Type: t, Value: v, Repr: rep, Version: ver})
			}
		}
	}
	return out
}

// Refill derives from v a DIFFERENT value of the same type that representation rep also holds:
// every NULL is replaced by a non-NULL value where one that fits can be drawn, scalars are
// redrawn half of the time, collection lengths are kept (a list/set held in a slice sometimes
// gets one more element), map keys are kept (so that a Go map filled with the result and then
// decoded into again ends with the keys of v). It is used to pre-fill a destination before the
// "re-used destination" decode.
func Refill(r *mon.Rand, rep *Repr, t *cqlref.Type, v *cqlref.Value, ver cqlref.Version) *cqlref.Value {
	if v.Null || v.Empty {
		for try := 0; try < 6; try++ {
			c := GenValue(r, t, ver, false)
			if _, err := cqlref.Serialize(t, c, ver); err == nil && !c.Null && Fits(rep, t, c) {
				return c
			}
		}
		return v
	}
	inner := rep
	for inner.K == RPtr || inner.K == RIface {
		inner = inner.Sub[0]
	}
	sub := func(i int) *Repr {
		if (inner.K == RSlice || inner.K == RArray) && !inner.PerField {
			return inner.Sub[0]
		}
		if i < len(inner.Sub) {
			return inner.Sub[i]
		}
		return inner.Sub[0]
	}
	switch t.Kind {
	case cqlref.List, cqlref.Set:
		out := cqlref.SeqValue()
		for _, e := range v.Elems {
			out.Elems = append(out.Elems, Refill(r, sub(0), t.Elems[0], e, ver))
		}
		if inner.K == RSlice && len(out.Elems) > 0 && len(out.Elems) < 16 && r.Intn(3) == 0 {
			out.Elems = append(out.Elems, out.Elems[0])
		}
		return out
	case cqlref.Map:
		out := cqlref.SeqValue()
		for i := 0; i+1 < len(v.Elems); i += 2 {
			out.Elems = append(out.Elems, v.Elems[i], Refill(r, inner.Sub[1], t.Elems[1], v.Elems[i+1], ver))
		}
		return out
	case cqlref.Tuple, cqlref.UDT:
		out := cqlref.SeqValue()
		for i := range t.Elems {
			out.Elems = append(out.Elems, Refill(r, sub(i), t.Elems[i], field(v, i), ver))
		}
		return out
	}
	if r.Bool() {
		for try := 0; try < 4; try++ {
			if c := RandomScalar(r, t.Kind, false); Fits(rep, t, c) {
				return c
			}
		}
	}
	return v
}

// NumFixed is the length of the seed-independent part.
func (p *Plan) NumFixed() int { return len(p.fixed) }

// GroupSize is the number of consecutive random cases that share one shape (type tree, protocol
// version and, where the values allow it, Go representation tree). Creating Go types at run time
// (reflect.StructOf/MapOf/PtrTo...) is slow and never freed, so a shape is reused for several
// values instead of being drawn anew for each case.
const GroupSize = 8

// ThoroughGroupSize is the group size used by plans of depth >= 4 (thorough tier: 10^7 cases).
const ThoroughGroupSize = 64

type shape struct {
	t    *cqlref.Type
	ver  cqlref.Version
	lead *cqlref.Value
	rep  *Repr
}

// Case returns case i: a scalar-table case for i < NumFixed(), else the random case (Seed, i).
// Random cases come in groups of GroupSize: the group's shape and its first value are a function
// of (Seed, group); the other members draw their own value (function of (Seed, i)) until one is
// found that the group's representation holds exactly, and fall back to a representation of
// their own otherwise.
func (p *Plan) Case(i int) Case {
	if i < len(p.fixed) {
		return p.fixed[i]
	}
	g, j := (i-len(p.fixed))/p.Group, (i-len(p.fixed))%p.Group
	sh := p.shape(g)
	if j == 0 {
		return Case{Index: i, Origin: "random", Type: sh.t, Value: sh.lead, Repr: sh.rep, Version: sh.ver}
	}
	r := mon.NewRand(p.Seed, uint64(i)<<1|1)
	var v *cqlref.Value
	for attempt := 0; attempt < 12; attempt++ {
		v = GenValue(r, sh.t, sh.ver, true)
		if _, err := cqlref.Serialize(sh.t, v, sh.ver); err != nil {
			continue
		}
		if Fits(sh.rep, sh.t, v) {
			return Case{Index: i, Origin: "random", Type: sh.t, Value: v, Repr: sh.rep, Version: sh.ver}
		}
	}
	if _, err := cqlref.Serialize(sh.t, v, sh.ver); err == nil {
		if rep := ChooseRepr(r, sh.t, v); Fits(rep, sh.t, v) {
			return Case{Index: i, Origin: "random-own-representation", Type: sh.t, Value: v, Repr: rep, Version: sh.ver}
		}
	}
	return Case{Index: i, Origin: "random-repeat", Type: sh.t, Value: sh.lead, Repr: sh.rep, Version: sh.ver}
}

func (p *Plan) shape(g int) *shape {
	p.mu.Lock()
	sh := p.shapes[g]
	p.mu.Unlock()
	if sh != nil {
		return sh
	}
	for attempt := 0; sh == nil; attempt++ {
		r := mon.NewRand(p.Seed, uint64(g)<<8|uint64(attempt&0x7F)<<1)
		if c, ok := randomCase(r, p.MaxDepth); ok {
			sh = &shape{t: c.Type, ver: c.Version, lead: c.Value, rep: c.Repr.Freeze()}
		} else if attempt > 64 { // cannot happen in practice; keeps the index space total
			t := cqlref.NewList(cqlref.Scalar(cqlref.Int))
			sh = &shape{t: t, ver: cqlref.V4, lead: cqlref.SeqValue(cqlref.Int64Value(int64(g))), rep: Preferred(t).Freeze()}
		}
	}
	p.mu.Lock()
	if p.shapes == nil || len(p.shapes) > 8192 {
		p.shapes = map[int]*shape{}
	}
	p.shapes[g] = sh
	p.mu.Unlock()
	return sh
}

// randomCase draws a complete case; ok is false when the draw left the domain of the
// specification for the drawn version (the caller retries with another stream).
func randomCase(r *mon.Rand, maxDepth int) (Case, bool) {
	ver := cqlref.AllVersions[r.Intn(len(cqlref.AllVersions))]
	depth := 0
	if r.Intn(12) != 0 {
		depth = 1 + r.Intn(maxDepth)
	}
	t := GenType(r, depth, ver)
	v := GenValue(r, t, ver, true)
	if _, err := cqlref.Serialize(t, v, ver); err != nil {
		return Case{}, false
	}
	rep := ChooseRepr(r, t, v)
	if _, err := Build(rep, t, v); err != nil {
		return Case{}, false
	}
	return Case{Type: t, Value: v, Repr: rep, Version: ver}, true
}

var udtNames = []string{"alpha", "Beta", "gamma_1", "d", "e2", "Field", "x", "yY"}

// GenType draws a type tree of exactly the given nesting depth (0 = scalar) using only kinds
// that exist in the protocol version; tuples and udts have 1..4 fields.
func GenType(r *mon.Rand, depth int, ver cqlref.Version) *cqlref.Type {
	if depth <= 0 {
		var ks []cqlref.Kind
		for _, k := range cqlref.ScalarKinds() {
			if k.ExistsIn(ver) {
				ks = append(ks, k)
			}
		}
		return cqlref.Scalar(ks[r.Intn(len(ks))])
	}
	kinds := []cqlref.Kind{cqlref.List, cqlref.Set, cqlref.Map}
	if cqlref.Tuple.ExistsIn(ver) {
		kinds = append(kinds, cqlref.Tuple, cqlref.UDT, cqlref.Tuple, cqlref.UDT)
	}
	sub := func() int { // depth of a child that need not be the deepest
		if r.Intn(3) != 0 {
			return 0
		}
		return r.Intn(depth)
	}
	switch k := kinds[r.Intn(len(kinds))]; k {
	case cqlref.List:
		return cqlref.NewList(GenType(r, depth-1, ver))
	case cqlref.Set:
		return cqlref.NewSet(GenType(r, depth-1, ver))
	case cqlref.Map:
		if r.Intn(12) == 0 {
			return cqlref.NewMap(GenType(r, depth-1, ver), GenType(r, sub(), ver))
		}
		key := GenType(r, 0, ver)
		// blob/custom/inet keys have no hashable preferred Go type (no untyped decoding): keep a few
		for try := 0; try < 3 && !nillable(Preferred(key)).Hashable() && r.Intn(4) != 0; try++ {
			key = GenType(r, 0, ver)
		}
		return cqlref.NewMap(key, GenType(r, depth-1, ver))
	default:
		n := 1 + r.Intn(4)
		deep := r.Intn(n)
		fields := make([]*cqlref.Type, n)
		for i := range fields {
			d := sub()
			if i == deep {
				d = depth - 1
			}
			fields[i] = GenType(r, d, ver)
		}
		if k == cqlref.Tuple {
			return cqlref.NewTuple(fields...)
		}
		names := make([]string, n)
		off := r.Intn(len(udtNames))
		for i := range names {
			names[i] = udtNames[(off+i)%len(udtNames)]
		}
		return cqlref.NewUDT("ks", fmt.Sprintf("udt%d", n), names, fields)
	}
}

// keyIdentity is the identity of a map key / set element under Go equality of its
// representations: the canonical format, with -0 identified with +0.
func keyIdentity(t *cqlref.Type, v *cqlref.Value) string {
	if !v.Null {
		switch t.Kind {
		case cqlref.Float:
			if uint32(v.Bits)<<1 == 0 {
				return "fzero"
			}
		case cqlref.Double:
			if v.Bits<<1 == 0 {
				return "dzero"
			}
		}
	}
	return cqlref.Format(t, v)
}

func containsNaN(t *cqlref.Type, v *cqlref.Value) bool {
	nan := false
	cqlref.Walk(t, v, func(tt *cqlref.Type, x *cqlref.Value) {
		if x != nil && !x.Null && x.IsNaN(tt) {
			nan = true
		}
	})
	return nan
}

// GenValue draws a value of type t for protocol version ver: collections of 0..4 elements (sets
// and map keys distinct), a few NULL elements / fields (none inside protocol-v2 collections,
// whose [short bytes] cannot be NULL), 65535+-byte strings only rarely and never inside v2
// collections. top marks the outermost value (which is NULL once in 64 draws).
func GenValue(r *mon.Rand, t *cqlref.Type, ver cqlref.Version, top bool) *cqlref.Value {
	if top && r.Intn(64) == 0 {
		return cqlref.NullValue()
	}
	v2 := ver.ShortCollections()
	maybeNull := func(oneIn int) bool { return !v2 && r.Intn(oneIn) == 0 }
	switch t.Kind {
	case cqlref.List, cqlref.Set:
		n := r.Intn(5)
		out := cqlref.SeqValue()
		seen := map[string]bool{}
		for i := 0; i < n; i++ {
			var e *cqlref.Value
			if maybeNull(16) {
				e = cqlref.NullValue()
			} else {
				e = GenValue(r, t.Elems[0], ver, false)
			}
			if t.Kind == cqlref.Set {
				id := keyIdentity(t.Elems[0], e)
				if seen[id] {
					continue
				}
				seen[id] = true
			}
			out.Elems = append(out.Elems, e)
		}
		return out
	case cqlref.Map:
		n := r.Intn(5)
		out := cqlref.SeqValue()
		seen := map[string]bool{}
		for i := 0; i < n; i++ {
			var k *cqlref.Value
			if maybeNull(40) {
				k = cqlref.NullValue()
			} else {
				k = GenValue(r, t.Elems[0], ver, false)
			}
			id := keyIdentity(t.Elems[0], k)
			if seen[id] || containsNaN(t.Elems[0], k) {
				continue // CQL map keys are distinct; NaN keys cannot be looked up in a Go map
			}
			seen[id] = true
			var e *cqlref.Value
			if maybeNull(12) {
				e = cqlref.NullValue()
			} else {
				e = GenValue(r, t.Elems[1], ver, false)
			}
			out.Elems = append(out.Elems, k, e)
		}
		return out
	case cqlref.Tuple, cqlref.UDT:
		out := cqlref.SeqValue()
		for _, ft := range t.Elems {
			if r.Intn(10) == 0 {
				out.Elems = append(out.Elems, cqlref.NullValue())
			} else {
				out.Elems = append(out.Elems, GenValue(r, ft, ver, false))
			}
		}
		return out
	}
	return RandomScalar(r, t.Kind, !v2 || top)
}

// ChooseRepr draws a Go representation tree for type t that holds v exactly, covering the shapes
// doc.go documents: every scalar Go type of the table, pointers to them, interface{} slots,
// slices and arrays for lists/sets/tuples/udts, maps for maps, map[string]T and structs (by
// field name or `cassandra` tag) for udts, structs for tuples. The result is never an interface
// at the top (Codec.Encode takes an interface{} anyway).
func ChooseRepr(r *mon.Rand, t *cqlref.Type, v *cqlref.Value) *Repr {
	rep := choose(r, t, []*cqlref.Value{v}, false)
	for rep.K == RIface {
		rep = rep.Sub[0]
	}
	if _, err := Build(rep, t, v); err != nil {
		return Universal(t)
	}
	return rep
}

// Universal returns a representation that can hold every value of type t, NULLs included
// (pointers to the preferred scalar types, slices, maps with pointer keys, structs).
func Universal(t *cqlref.Type) *Repr {
	switch t.Kind {
	case cqlref.List, cqlref.Set:
		return &Repr{K: RSlice, Sub: []*Repr{Universal(t.Elems[0])}}
	case cqlref.Map:
		k := Universal(t.Elems[0])
		if !k.Hashable() {
			k = Ptr(k)
		}
		return &Repr{K: RMap, Sub: []*Repr{k, Universal(t.Elems[1])}}
	case cqlref.Tuple, cqlref.UDT:
		s := &Repr{K: RStruct, Names: t.Names}
		for _, e := range t.Elems {
			s.Sub = append(s.Sub, Universal(e))
		}
		return Ptr(s)
	}
	return nullCapable(ScalarReprs(t.Kind)[0], t.Kind)
}

func fitsAll(rep *Repr, t *cqlref.Type, vals []*cqlref.Value) bool {
	for _, v := range vals {
		if !v.Null && !Fits(rep, t, v) {
			return false
		}
	}
	return true
}

// choose picks a representation for a slot of type t that must hold every value of vals.
func choose(r *mon.Rand, t *cqlref.Type, vals []*cqlref.Value, key bool) *Repr {
	anyNull := false
	var nonNull []*cqlref.Value
	for _, v := range vals {
		if v.Null {
			anyNull = true
		} else {
			nonNull = append(nonNull, v)
		}
	}
	var base *Repr
	if t.Kind.IsScalar() {
		cands := ScalarReprs(t.Kind)
		// the preferred representation half of the time, any documented one otherwise
		start := 0
		if r.Bool() {
			start = r.Intn(len(cands))
		}
		for i := range cands {
			if c := cands[(start+i)%len(cands)]; fitsAll(c, t, nonNull) {
				base = c
				break
			}
		}
		if base == nil {
			base = cands[0]
		}
	} else {
		base = chooseContainer(r, t, nonNull)
	}
	ifaceOK := !PreferredKeyUnhashable(t) && (!key || (base.HashableFor(t) && Preferred(t).Hashable()))
	if key && !base.HashableFor(t) {
		base = Ptr(base)
	}
	switch {
	case anyNull && !base.CarriesNull(t.Kind):
		if ifaceOK && r.Intn(3) == 0 {
			return Iface(base)
		}
		return Ptr(base)
	default:
		switch r.Intn(8) {
		case 0:
			if base.K == RPtr {
				return base // the library accepts *T, never **T
			}
			return Ptr(base)
		case 1:
			if ifaceOK {
				return Iface(base)
			}
		}
	}
	return base
}

func chooseContainer(r *mon.Rand, t *cqlref.Type, vals []*cqlref.Value) *Repr {
	fieldVals := func(i int) []*cqlref.Value {
		out := make([]*cqlref.Value, 0, len(vals))
		for _, v := range vals {
			out = append(out, field(v, i))
		}
		return out
	}
	switch t.Kind {
	case cqlref.List, cqlref.Set:
		var elems []*cqlref.Value
		sameLen := len(vals) > 0
		for _, v := range vals {
			elems = append(elems, v.Elems...)
			if len(v.Elems) != len(vals[0].Elems) {
				sameLen = false
			}
		}
		er := choose(r, t.Elems[0], elems, false)
		if sameLen && r.Intn(4) == 0 {
			return &Repr{K: RArray, N: len(vals[0].Elems), Sub: []*Repr{er}}
		}
		return &Repr{K: RSlice, Sub: []*Repr{er}}
	case cqlref.Map:
		var ks, vs []*cqlref.Value
		for _, v := range vals {
			for i := 0; i+1 < len(v.Elems); i += 2 {
				ks = append(ks, v.Elems[i])
				vs = append(vs, v.Elems[i+1])
			}
		}
		return &Repr{K: RMap, Sub: []*Repr{choose(r, t.Elems[0], ks, true), choose(r, t.Elems[1], vs, false)}}
	}
	// tuple / udt
	n := len(t.Elems)
	noIface := PreferredKeyUnhashable(t)
	uniform := true
	for _, e := range t.Elems {
		if !e.Kind.IsScalar() || e.Kind != t.Elems[0].Kind {
			uniform = false
		}
	}
	perField := func() []*Repr { // interface{} slots, one per field
		out := make([]*Repr, n)
		for i := range out {
			x := choose(r, t.Elems[i], fieldVals(i), false)
			if x.K != RIface {
				x = Iface(x)
			}
			out[i] = x
		}
		return out
	}
	typed := func() []*Repr { // the same typed slot for every field
		var all []*cqlref.Value
		for i := 0; i < n; i++ {
			all = append(all, fieldVals(i)...)
		}
		x := choose(r, t.Elems[0], all, false)
		out := make([]*Repr, n)
		for i := range out {
			out[i] = x
		}
		return out
	}
	structOf := func(tagged bool) *Repr {
		s := &Repr{K: RStruct, Names: t.Names, Tagged: tagged}
		for i := 0; i < n; i++ {
			s.Sub = append(s.Sub, choose(r, t.Elems[i], fieldVals(i), false))
		}
		return s
	}
	slots := func() []*Repr {
		if uniform && (noIface || r.Intn(3) == 0) {
			return typed()
		}
		return perField()
	}
	shape := r.Intn(20)
	if noIface && !uniform {
		shape = 0 // only structs avoid interface{} slots
	}
	if t.Kind == cqlref.Tuple {
		switch {
		case shape < 7:
			return structOf(false)
		case shape < 16:
			return &Repr{K: RSlice, PerField: true, Sub: slots()}
		default:
			return &Repr{K: RArray, N: n, PerField: true, Sub: slots()}
		}
	}
	switch {
	case shape < 5:
		return structOf(false)
	case shape < 8:
		return structOf(true)
	case shape < 14:
		return &Repr{K: RStrMap, Names: t.Names, Sub: slots()}
	case shape < 17:
		return &Repr{K: RSlice, PerField: true, Sub: slots()}
	default:
		return &Repr{K: RArray, N: n, PerField: true, Sub: slots()}
	}
}

// Children returns the direct sub-cases of a container case (one per non-omitted element, map
// keys and values included), each with the representation of its slot (interface{} slots
// unwrapped to what they hold), as stand-alone top-level cases.
func Children(c Case) []Case {
	rep := c.Repr
	for rep.K == RPtr || rep.K == RIface {
		rep = rep.Sub[0]
	}
	t, v := c.Type, c.Value
	if t.Kind.IsScalar() || v.Null || v.Empty {
		return nil
	}
	var out []Case
	add := func(st *cqlref.Type, sr *Repr, sv *cqlref.Value) {
		for sr.K == RIface {
			sr = sr.Sub[0]
		}
		if sv.Null {
			sr = nullCapable(sr, st.Kind)
		}
		out = append(out, Case{Index: -1, Origin: "blame", Type: st, Value: sv, Repr: sr, Version: c.Version})
	}
	switch t.Kind {
	case cqlref.List, cqlref.Set:
		for _, e := range v.Elems {
			add(t.Elems[0], rep.Sub[0], e)
		}
	case cqlref.Map:
		for i, e := range v.Elems {
			add(t.Elems[i%2], rep.Sub[i%2], e)
		}
	case cqlref.Tuple, cqlref.UDT:
		for i := range t.Elems {
			if i < len(rep.Sub) {
				add(t.Elems[i], rep.Sub[i], field(v, i))
			}
		}
	}
	return out
}

// Failure is what a check's probe reports for a failing case.
type Failure struct {
	Stage string // check-specific: encode | decode | roundtrip | untyped | ...
	// Key, when not empty, is the complete violation key: the probe has already identified the
	// finding class and Blame must not refine it.
	Key    string
	Msg    string
	LibHex string // bytes produced / consumed by the library
	RefHex string // bytes of the reference serializer, when relevant
}

// Blame localises a failure: it descends into the first direct sub-case that fails on its own
// (so that a defect of an element codec is keyed by that codec whatever the nesting), and for a
// scalar case re-runs the probe with the preferred representation: when that fails too, the
// failure does not depend on the representation and is keyed by the preferred one.
func Blame(c Case, f *Failure, probe func(Case) *Failure) (Case, *Failure) {
	if f.Key != "" {
		return c, f
	}
	for _, ch := range Children(c) {
		if cf := probe(ch); cf != nil {
			return Blame(ch, cf, probe)
		}
	}
	if c.Type.Kind.IsScalar() {
		pref := ScalarReprs(c.Type.Kind)[0]
		if c.Value.Null {
			pref = nullCapable(pref, c.Type.Kind)
		}
		if pref.String() != c.Repr.String() && Fits(pref, c.Type, c.Value) {
			pc := c
			pc.Repr, pc.Origin = pref, "blame"
			if pf := probe(pc); pf != nil {
				return pc, pf
			}
		}
	}
	return c, f
}

// Key builds the stable violation key <codec>/<stage>/<value class>/<representation class>.
// codec is the scalar kind or, for containers, the type to depth 1 (list<int>, map<varchar,list>).
func Key(c Case, f *Failure) string {
	if f.Key != "" {
		return f.Key
	}
	return fmt.Sprintf("%s/%s/%s/%s", c.Type.Shallow(), f.Stage, Class(c.Type, c.Value, c.Version), c.Repr.Class())
}

// Detail builds the violation detail: the blamed case, the originally failing case and the bytes.
func Detail(seed int64, orig, blamed Case, f *Failure) map[string]interface{} {
	d := blamed.Describe()
	d["seed"] = seed
	d["stage"] = f.Stage
	d["message"] = clip(f.Msg, 800)
	d["library_bytes_hex"] = f.LibHex
	d["reference_bytes_hex"] = f.RefHex
	if orig.Index != blamed.Index || orig.Type != blamed.Type {
		d["found_in"] = orig.Describe()
	}
	d["index"] = orig.Index
	return d
}
