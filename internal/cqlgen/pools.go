package cqlgen

import (
	"fmt"
	"math"
	"math/big"
	"sync"

	"verif/internal/cqlref"
	"verif/internal/mon"
)

// BigLen is the size from which a string/blob value counts as "big" (does not fit a [short bytes]).
const BigLen = 65536

var (
	poolOnce sync.Once
	pools    map[cqlref.Kind][]*cqlref.Value
)

// Pool returns the deterministic boundary-value pool of a scalar kind: 0, +-1, every 2^k and
// 2^k+-1 (k up to 200 for varint/decimal, up to the width otherwise), min/max of every width,
// NaN/+-Inf/+-0/subnormals, empty and 65535+-byte strings/blobs, the spec's own examples, ...
// The slice is shared: do not modify it or its values.
func Pool(k cqlref.Kind) []*cqlref.Value {
	poolOnce.Do(buildPools)
	return pools[k]
}

// intPool: 0, 2^k, 2^k-1, 2^k+1 and their negations for k < maxK, clipped to `bits`-bit signed
// range when bits > 0 (then min and max are included).
func intPool(bits int, maxK int) []*big.Int {
	one := big.NewInt(1)
	var lo, hi *big.Int
	if bits > 0 {
		hi = new(big.Int).Sub(new(big.Int).Lsh(one, uint(bits-1)), one)
		lo = new(big.Int).Neg(new(big.Int).Lsh(one, uint(bits-1)))
	}
	seen := map[string]bool{}
	var out []*big.Int
	add := func(x *big.Int) {
		if lo != nil && (x.Cmp(lo) < 0 || x.Cmp(hi) > 0) {
			return
		}
		if s := x.String(); !seen[s] {
			seen[s] = true
			out = append(out, new(big.Int).Set(x))
		}
	}
	add(big.NewInt(0))
	for k := 0; k <= maxK; k++ {
		p := new(big.Int).Lsh(one, uint(k))
		for _, x := range []*big.Int{p, new(big.Int).Sub(p, one), new(big.Int).Add(p, one)} {
			add(x)
			add(new(big.Int).Neg(x))
		}
	}
	if lo != nil {
		add(lo)
		add(hi)
	}
	// a few ordinary numbers
	for _, x := range []int64{10, 100, 1000, 12345, -12345, 99, -99, 42} {
		add(big.NewInt(x))
	}
	return out
}

func fill(n int, f func(i int) byte) []byte {
	b := make([]byte, n)
	for i := range b {
		b[i] = f(i)
	}
	return b
}

func buildPools() {
	pools = map[cqlref.Kind][]*cqlref.Value{}
	ints := func(k cqlref.Kind, bits, maxK int) {
		for _, x := range intPool(bits, maxK) {
			pools[k] = append(pools[k], cqlref.IntValue(x))
		}
	}
	ints(cqlref.Bigint, 64, 63)
	ints(cqlref.Counter, 64, 63)
	ints(cqlref.Int, 32, 31)
	ints(cqlref.Smallint, 16, 15)
	ints(cqlref.Tinyint, 8, 7)
	ints(cqlref.Varint, 0, 200)

	scales := []int32{0, 1, -1, 2, 9, 38, math.MaxInt32, math.MinInt32, 100, -100, 127, 128, 255, 256, -128, -129}
	for i, x := range intPool(0, 200) {
		pools[cqlref.Decimal] = append(pools[cqlref.Decimal], cqlref.DecimalValue(x, scales[i%len(scales)]))
	}
	for _, s := range scales {
		pools[cqlref.Decimal] = append(pools[cqlref.Decimal], cqlref.DecimalValue(big.NewInt(0), s), cqlref.DecimalValue(big.NewInt(-1), s), cqlref.DecimalValue(big.NewInt(128), s))
	}

	pools[cqlref.Boolean] = []*cqlref.Value{cqlref.BoolValue(false), cqlref.BoolValue(true)}

	f32 := []uint32{0, 0x80000000, 1, 0x80000001, 0x007FFFFF, 0x00800000, 0x7F7FFFFF, 0xFF7FFFFF,
		0x7F800000, 0xFF800000, 0x7FC00000, 0xFFC00000, 0x7FC00001, 0x7FFFFFFF,
		math.Float32bits(1), math.Float32bits(-1), math.Float32bits(0.1), math.Float32bits(3.1415927),
		math.Float32bits(16777216), math.Float32bits(16777217), math.Float32bits(1e-38), math.Float32bits(-2.5)}
	for _, b := range f32 {
		pools[cqlref.Float] = append(pools[cqlref.Float], cqlref.FloatValue(b))
	}
	f64 := []uint64{0, 1 << 63, 1, 1<<63 | 1, 0x000FFFFFFFFFFFFF, 0x0010000000000000, 0x7FEFFFFFFFFFFFFF, 0xFFEFFFFFFFFFFFFF,
		0x7FF0000000000000, 0xFFF0000000000000, 0x7FF8000000000000, 0xFFF8000000000000, 0x7FF8000000000001, 0x7FFFFFFFFFFFFFFF,
		math.Float64bits(1), math.Float64bits(-1), math.Float64bits(0.1), math.Float64bits(math.Pi),
		math.Float64bits(9007199254740992), math.Float64bits(9007199254740993), math.Float64bits(1e-310), math.Float64bits(-2.5),
		math.Float64bits(float64(math.MaxFloat32)), math.Float64bits(float64(math.SmallestNonzeroFloat32)), math.Float64bits(float64(float32(0.1))),
		math.Float64bits(1e39), math.Float64bits(16777217)}
	for _, b := range f64 {
		pools[cqlref.Double] = append(pools[cqlref.Double], cqlref.DoubleValue(b))
	}

	// date: wire values around the ends and the centre, days at integer-width bounds, and the
	// first/last days that the default string layout can express (years 0000 and 9999)
	dateSeen := map[uint32]bool{}
	addDate := func(days int64) {
		if days < math.MinInt32 || days > math.MaxInt32 {
			return
		}
		w := uint32(days + 1<<31)
		if !dateSeen[w] {
			dateSeen[w] = true
			pools[cqlref.Date] = append(pools[cqlref.Date], cqlref.DateValue(w))
		}
	}
	for _, d := range []int64{math.MinInt32, math.MinInt32 + 1, math.MaxInt32, math.MaxInt32 - 1, -719528, -719529, -719163, -719162, 2932896, 2932897, 18000, 19999, -1, 0, 1} {
		addDate(d)
	}
	for k := uint(0); k <= 31; k++ {
		for _, d := range []int64{1 << k, 1<<k - 1, 1<<k + 1} {
			addDate(d)
			addDate(-d)
		}
	}

	timeSeen := map[int64]bool{}
	addTime := func(ns int64) {
		if ns >= 0 && ns <= 86399999999999 && !timeSeen[ns] {
			timeSeen[ns] = true
			pools[cqlref.Time] = append(pools[cqlref.Time], cqlref.TimeValue(ns))
		}
	}
	for _, ns := range []int64{0, 1, 999, 1000, 999999, 1e6, 1e9 - 1, 1e9, 60e9, 3600e9, 43200e9, 86399999999999, 86399999999998, 86399e9, 45296789012345} {
		addTime(ns)
	}
	for k := uint(0); k < 47; k++ {
		addTime(1 << k)
		addTime(1<<k - 1)
		addTime(1<<k + 1)
	}

	for _, x := range intPool(64, 63) {
		pools[cqlref.Timestamp] = append(pools[cqlref.Timestamp], cqlref.TimestampValue(x.Int64()))
	}
	for _, ms := range []int64{-62167219200000, -62167219200001, -62135596800000, 253402300799999, 253402300800000, 1600000000123, -999, -1000, -1001, 999, 1001, 86400000, -86400000} {
		pools[cqlref.Timestamp] = append(pools[cqlref.Timestamp], cqlref.TimestampValue(ms))
	}

	durs := [][3]int64{{0, 0, 0}, {1, 2, 3}, {-1, -2, -3}, {1, 0, 0}, {0, 1, 0}, {0, 0, 1}, {-1, 0, 0}, {0, -1, 0}, {0, 0, -1},
		{math.MaxInt32, math.MaxInt32, math.MaxInt64}, {math.MinInt32, math.MinInt32, math.MinInt64},
		{0, 0, 128000}, {12, 30, 86400e9}, {0, 0, math.MaxInt64}, {0, 0, math.MinInt64}, {math.MaxInt32, 0, 0}, {0, math.MinInt32, 0},
		{63, 64, 65}, {-64, -65, -66}, {8191, 8192, 1 << 55}, {0, 0, 1<<56 - 1}, {0, 0, 1 << 56}, {0, 0, -(1 << 56)}, {0, 0, -(1 << 62)}, {0, 0, 1 << 62}}
	for _, d := range durs {
		pools[cqlref.Duration] = append(pools[cqlref.Duration], cqlref.DurationValue(d[0], d[1], d[2]))
	}
	for k := uint(0); k < 63; k++ {
		pools[cqlref.Duration] = append(pools[cqlref.Duration], cqlref.DurationValue(0, 0, 1<<k), cqlref.DurationValue(0, 0, -(1<<k)-1))
		if k < 31 {
			pools[cqlref.Duration] = append(pools[cqlref.Duration], cqlref.DurationValue(1<<k, 1<<k-1, 0), cqlref.DurationValue(-(1<<k), -(1<<k)+1, 0))
		}
	}

	texts := [][]byte{[]byte(""), []byte("a"), []byte("ab"), []byte("A\x00B"), []byte("é"), []byte("日本語"), []byte("😀!"), []byte("hello, world"),
		fill(255, func(i int) byte { return 'x' }), fill(256, func(i int) byte { return 'y' }),
		fill(65535, func(i int) byte { return byte('a' + i%26) }), fill(65536, func(i int) byte { return byte('A' + i%26) })}
	bigText := []byte{}
	for len(bigText) < 70000 {
		bigText = append(bigText, "日本é-z"...)
	}
	texts = append(texts, bigText)
	for _, b := range texts {
		pools[cqlref.Text] = append(pools[cqlref.Text], cqlref.BytesValue(b))
	}
	asciis := [][]byte{[]byte(""), []byte("a"), []byte("\x00"), []byte("\x7f"), []byte("The quick brown fox"),
		fill(255, func(i int) byte { return byte(i % 128) }), fill(256, func(i int) byte { return byte(i % 128) }),
		fill(65535, func(i int) byte { return byte(32 + i%90) }), fill(65536, func(i int) byte { return byte(32 + i%90) }), fill(70001, func(i int) byte { return byte(33 + i%7) })}
	for _, b := range asciis {
		pools[cqlref.Ascii] = append(pools[cqlref.Ascii], cqlref.BytesValue(b))
	}
	rb := func(n int) []byte { return fill(n, func(i int) byte { return byte(i*131 + i>>8*7 + n) }) }
	blobs := [][]byte{{}, {0}, {0xFF}, {0x80, 0x00}, {0xC3, 0x28}, []byte("text"), rb(255), rb(256), rb(65535), rb(65536), rb(70000)}
	for _, b := range blobs {
		pools[cqlref.Blob] = append(pools[cqlref.Blob], cqlref.BytesValue(b))
		pools[cqlref.Custom] = append(pools[cqlref.Custom], cqlref.BytesValue(b))
	}

	uuids := [][]byte{fill(16, func(int) byte { return 0 }), fill(16, func(int) byte { return 0xFF }),
		{0x12, 0x3e, 0x45, 0x67, 0xe8, 0x9b, 0x12, 0xd3, 0xa4, 0x56, 0x42, 0x66, 0x14, 0x17, 0x40, 0x00},
		{0xfe, 0x2b, 0x46, 0x60, 0x28, 0xd5, 0x11, 0xe2, 0x81, 0xc1, 0x08, 0x00, 0x20, 0x0c, 0x9a, 0x66},
		fill(16, func(i int) byte { return byte(i) }), fill(16, func(i int) byte { return byte(0xF0 + i) })}
	for _, b := range uuids {
		pools[cqlref.Uuid] = append(pools[cqlref.Uuid], cqlref.BytesValue(b))
		pools[cqlref.Timeuuid] = append(pools[cqlref.Timeuuid], cqlref.BytesValue(b))
	}

	inets := [][]byte{{0, 0, 0, 0}, {127, 0, 0, 1}, {255, 255, 255, 255}, {10, 1, 2, 3}, {192, 168, 0, 255},
		fill(16, func(int) byte { return 0 }), fill(16, func(i int) byte { return map[bool]byte{true: 1}[i == 15] }), fill(16, func(int) byte { return 0xFF }),
		{0xfe, 0x80, 0, 0, 0, 0, 0, 0, 0, 0, 0, 0, 0, 0, 0, 1}, {0x20, 0x01, 0x0d, 0xb8, 0, 0, 0, 0, 0, 0, 0, 0, 0, 0, 0, 1},
		{0x20, 0x01, 0x0d, 0xb8, 0x85, 0xa3, 0x08, 0xd3, 0x13, 0x19, 0x8a, 0x2e, 0x03, 0x70, 0x73, 0x44},
		{0, 0, 0, 0, 0, 0, 0, 0, 0, 0, 0xff, 0xfe, 1, 2, 3, 4}}
	for _, b := range inets {
		pools[cqlref.Inet] = append(pools[cqlref.Inet], cqlref.BytesValue(b))
	}
}

// IsBig reports whether the value is (or contains) a string/blob of 65536 bytes or more.
func IsBig(t *cqlref.Type, v *cqlref.Value) bool {
	big := false
	cqlref.Walk(t, v, func(_ *cqlref.Type, x *cqlref.Value) {
		if x != nil && len(x.Bytes) >= BigLen {
			big = true
		}
	})
	return big
}

// RandomScalar draws a value of scalar kind k: from Pool(k) three times out of four (never a
// "big" one unless allowBig), otherwise a pseudo-random value of the domain.
func RandomScalar(r *mon.Rand, k cqlref.Kind, allowBig bool) *cqlref.Value {
	p := Pool(k)
	if r.Intn(4) != 0 {
		for try := 0; try < 8; try++ {
			v := p[r.Intn(len(p))]
			if len(v.Bytes) >= 4096 && !(allowBig && r.Intn(48) == 0) {
				continue // 65535+-byte values only now and then: they dominate the run time
			}
			return v
		}
	}
	randBig := func(maxBits int) *big.Int {
		bits := 1 + r.Intn(maxBits)
		x := new(big.Int).SetBytes(r.Bytes((bits + 7) / 8))
		x.And(x, new(big.Int).Sub(new(big.Int).Lsh(big.NewInt(1), uint(bits)), big.NewInt(1)))
		if r.Bool() {
			x.Neg(x)
		}
		return x
	}
	randI64 := func() int64 { return int64(r.Uint64()) >> uint(r.Intn(64)) }
	switch k {
	case cqlref.Bigint, cqlref.Counter:
		return cqlref.Int64Value(randI64())
	case cqlref.Int:
		return cqlref.Int64Value(int64(int32(r.Uint64()) >> uint(r.Intn(32))))
	case cqlref.Smallint:
		return cqlref.Int64Value(int64(int16(r.Uint64()) >> uint(r.Intn(16))))
	case cqlref.Tinyint:
		return cqlref.Int64Value(int64(int8(r.Uint64())))
	case cqlref.Varint:
		return cqlref.IntValue(randBig(200))
	case cqlref.Decimal:
		return cqlref.DecimalValue(randBig(200), int32(int64(int32(r.Uint64()))>>uint(r.Intn(32))))
	case cqlref.Boolean:
		return cqlref.BoolValue(r.Bool())
	case cqlref.Float:
		return cqlref.FloatValue(uint32(r.Uint64()))
	case cqlref.Double:
		if r.Bool() {
			return cqlref.DoubleValue(math.Float64bits(float64(math.Float32frombits(uint32(r.Uint64()))))) // float32-representable
		}
		return cqlref.DoubleValue(r.Uint64())
	case cqlref.Date:
		return cqlref.DateValue(uint32(1<<31 + int64(int32(r.Uint64()))>>uint(r.Intn(32))))
	case cqlref.Time:
		return cqlref.TimeValue(int64(r.Uint64() % 86400000000000))
	case cqlref.Timestamp:
		return cqlref.TimestampValue(randI64())
	case cqlref.Duration:
		mo, d, ns := int64(int32(r.Uint64())>>uint(r.Intn(32))), int64(int32(r.Uint64())>>uint(r.Intn(32))), randI64()
		abs := func(x int64) int64 {
			if x < 0 && x != math.MinInt64 {
				return -x
			}
			if x == math.MinInt64 {
				return math.MaxInt64
			}
			return x
		}
		mo, d, ns = abs(mo), abs(d), abs(ns)
		if r.Bool() {
			mo, d, ns = -mo, -d, -ns
		}
		return cqlref.DurationValue(mo, d, ns)
	case cqlref.Uuid, cqlref.Timeuuid:
		return cqlref.BytesValue(r.Bytes(16))
	case cqlref.Inet:
		if r.Bool() {
			return cqlref.BytesValue(r.Bytes(4))
		}
		b := r.Bytes(16)
		b[0] |= 0x20 // never IPv4-mapped
		return cqlref.BytesValue(b)
	case cqlref.Ascii:
		return cqlref.BytesValue(fill(r.Intn(24), func(int) byte { return byte(r.Intn(128)) }))
	case cqlref.Text:
		alphabet := []rune("abcXYZ 09é日本語😀\x00ß߿ࠀ￿")
		n := r.Intn(16)
		rs := make([]rune, n)
		for i := range rs {
			rs[i] = alphabet[r.Intn(len(alphabet))]
		}
		return cqlref.BytesValue([]byte(string(rs)))
	default: // blob, custom
		return cqlref.BytesValue(r.Bytes(r.Intn(40)))
	}
}

// Class names the value class of v for violation keys (bounded vocabulary, no raw values):
//
//	null
//	integers: zero | negative | topbit (positive, top bit of the leading magnitude byte set) | positive
//	decimal: the class of the unscaled value
//	float/double: nan | inf | zero | subnormal | normal
//	strings/blobs: empty | short | long (>= 65536 bytes)
//	date: epoch | before-epoch | after-epoch; time/timestamp/duration: zero | negative | positive
//	boolean: true | false; inet: ipv4 | ipv6; uuid: uuid
//	containers: "<v2|v3+>,len=<n>[,null]" (null: at least one direct element is NULL)
func Class(t *cqlref.Type, v *cqlref.Value, ver cqlref.Version) string {
	if v.Null {
		return "null"
	}
	if v.Empty {
		return "empty-value"
	}
	sign := func(x int64) string {
		switch {
		case x == 0:
			return "zero"
		case x < 0:
			return "negative"
		}
		return "positive"
	}
	switch t.Kind {
	case cqlref.Bigint, cqlref.Counter, cqlref.Int, cqlref.Smallint, cqlref.Tinyint, cqlref.Varint, cqlref.Decimal:
		switch {
		case v.Int.Sign() == 0:
			return "zero"
		case v.Int.Sign() < 0:
			return "negative"
		case v.Int.BitLen()%8 == 0:
			return "topbit"
		}
		return "positive"
	case cqlref.Float:
		e, m := uint32(v.Bits)>>23&0xFF, uint32(v.Bits)&0x7FFFFF
		return floatClass(e == 0xFF, e == 0, m == 0)
	case cqlref.Double:
		e, m := v.Bits>>52&0x7FF, v.Bits&0xFFFFFFFFFFFFF
		return floatClass(e == 0x7FF, e == 0, m == 0)
	case cqlref.Boolean:
		return fmt.Sprint(v.Bool)
	case cqlref.Date:
		switch d := v.EpochDays(); {
		case d == 0:
			return "epoch"
		case d < 0:
			return "before-epoch"
		}
		return "after-epoch"
	case cqlref.Time, cqlref.Timestamp:
		return sign(v.I64)
	case cqlref.Duration:
		if v.Months < 0 || v.Days < 0 || v.Nanos < 0 {
			return "negative"
		}
		if v.Months == 0 && v.Days == 0 && v.Nanos == 0 {
			return "zero"
		}
		return "positive"
	case cqlref.Inet:
		if len(v.Bytes) == 4 {
			return "ipv4"
		}
		return "ipv6"
	case cqlref.Uuid, cqlref.Timeuuid:
		return "uuid"
	case cqlref.Ascii, cqlref.Text, cqlref.Blob, cqlref.Custom:
		switch {
		case len(v.Bytes) == 0:
			return "empty"
		case len(v.Bytes) >= BigLen:
			return "long"
		}
		return "short"
	}
	s := "v3+"
	if ver.ShortCollections() {
		s = "v2"
	}
	s += fmt.Sprintf(",len=%d", v.Len(t))
	for _, e := range v.Elems {
		if e.Null {
			return s + ",null"
		}
	}
	return s
}

func floatClass(expAllOnes, expZero, mantZero bool) string {
	switch {
	case expAllOnes && !mantZero:
		return "nan"
	case expAllOnes:
		return "inf"
	case expZero && mantZero:
		return "zero"
	case expZero:
		return "subnormal"
	}
	return "normal"
}
