package cqlgen

import (
	"fmt"
	"hash/fnv"
	"sort"
	"sync"
	"sync/atomic"

	"verif/internal/cqlref"
	"verif/internal/mon"
)

// Coverage tallies what a run of cases exercised (lock-free on the hot path) and writes the
// tables into the evidence: cases per top-level kind, per kind anywhere in the tree, per scalar
// representation kind, per container shape, per version, per nesting depth, NULLs, big values.
type Coverage struct {
	topKind  [64]int64
	anyKind  [64]int64
	reprKind [64]int64
	depth    [16]int64
	mu       sync.Mutex
	version  map[string]int64
	origin   map[string]int64
	Nulls    int64 // cases containing at least one NULL
	Big      int64 // cases containing a 65536+-byte string/blob
	MaxLeafs int64
}

var rkNames = map[RK]string{RPtr: "pointer", RIface: "interface{}", RSlice: "slice", RArray: "array", RMap: "map", RStrMap: "map[string]T", RStruct: "struct"}

// Observe records one case.
func (cv *Coverage) Observe(c Case) {
	atomic.AddInt64(&cv.topKind[c.Type.Kind], 1)
	d := c.Type.Depth()
	if d >= len(cv.depth) {
		d = len(cv.depth) - 1
	}
	atomic.AddInt64(&cv.depth[d], 1)
	null, big := false, false
	var leafs int64
	seen := [64]bool{}
	cqlref.Walk(c.Type, c.Value, func(t *cqlref.Type, v *cqlref.Value) {
		seen[t.Kind] = true
		if v == nil {
			return
		}
		if v.Null {
			null = true
		}
		if len(v.Bytes) >= BigLen {
			big = true
		}
		if t.Kind.IsScalar() {
			leafs++
		}
	})
	for k, s := range seen {
		if s {
			atomic.AddInt64(&cv.anyKind[k], 1)
		}
	}
	if null {
		atomic.AddInt64(&cv.Nulls, 1)
	}
	if big {
		atomic.AddInt64(&cv.Big, 1)
	}
	for {
		old := atomic.LoadInt64(&cv.MaxLeafs)
		if leafs <= old || atomic.CompareAndSwapInt64(&cv.MaxLeafs, old, leafs) {
			break
		}
	}
	rseen := [64]bool{}
	var walk func(r *Repr)
	walk = func(r *Repr) {
		rseen[r.K] = true
		for _, s := range r.Sub {
			walk(s)
		}
	}
	walk(c.Repr)
	for k, s := range rseen {
		if s {
			atomic.AddInt64(&cv.reprKind[k], 1)
		}
	}
	cv.mu.Lock()
	if cv.version == nil {
		cv.version, cv.origin = map[string]int64{}, map[string]int64{}
	}
	cv.version[c.Version.String()]++
	cv.origin[c.Origin]++
	cv.mu.Unlock()
}

// Flush writes the tables into the evidence (coverage.* members).
func (cv *Coverage) Flush(c *mon.Ctx) {
	top, anyk := map[string]int64{}, map[string]int64{}
	for k := cqlref.Ascii; k <= cqlref.UDT; k++ {
		top[k.String()] = cv.topKind[k]
		anyk[k.String()] = cv.anyKind[k]
	}
	reprs := map[string]int64{}
	for k := RInt; k <= RStruct; k++ {
		name, ok := rkNames[k]
		if !ok {
			name = Leaf(k).String()
		}
		reprs[name] = cv.reprKind[k]
	}
	depth := map[string]int64{}
	for d, n := range cv.depth {
		if n > 0 {
			depth[fmt.Sprint(d)] = n
		}
	}
	c.Set("cases_by_top_level_kind", top)
	c.Set("cases_containing_kind", anyk)
	c.Set("cases_containing_go_representation", reprs)
	c.Set("cases_by_type_depth", depth)
	cv.mu.Lock()
	c.Set("cases_by_version", cv.version)
	c.Set("cases_by_origin", cv.origin)
	cv.mu.Unlock()
	c.Count("cases_with_null", cv.Nulls)
	c.Count("cases_with_65536+_byte_value", cv.Big)
	c.Max("max_scalar_leafs_in_one_value", cv.MaxLeafs)
	var missing []string
	for k, n := range anyk {
		if n == 0 {
			missing = append(missing, k)
		}
	}
	sort.Strings(missing)
	if len(missing) > 0 {
		c.Inconclusive("kinds never exercised: " + fmt.Sprint(missing))
	}
}

// DistinctSet collects case signatures with little lock contention (64 shards) and hands them to
// the Ctx at the end of the run (mon.Ctx.Distinct takes one global lock per call).
type DistinctSet struct {
	shards [64]struct {
		mu sync.Mutex
		m  map[uint64]struct{}
	}
}

// Add records a signature.
func (d *DistinctSet) Add(sig string) {
	h := fnv.New64a()
	h.Write([]byte(sig))
	k := h.Sum64()
	s := &d.shards[k>>58]
	s.mu.Lock()
	if s.m == nil {
		s.m = map[uint64]struct{}{}
	}
	s.m[k] = struct{}{}
	s.mu.Unlock()
}

// Flush moves the signatures into the Ctx (same hash as mon.Ctx.Distinct uses).
func (d *DistinctSet) Flush(c *mon.Ctx) {
	for i := range d.shards {
		for k := range d.shards[i].m {
			c.DistinctHash(k)
		}
		d.shards[i].m = nil
	}
}
