package cqlgen

import (
	"fmt"
	"reflect"

	"github.com/datastax/go-cassandra-native-protocol/datacodec"
	"github.com/datastax/go-cassandra-native-protocol/datatype"
	"github.com/datastax/go-cassandra-native-protocol/primitive"

	"verif/internal/cqlref"
)

// LibVersion converts a cqlref.Version to the library's ProtocolVersion.
func LibVersion(v cqlref.Version) primitive.ProtocolVersion { return primitive.ProtocolVersion(v) }

// LibType converts an abstract type tree to the library's datatype.DataType.
func LibType(t *cqlref.Type) (datatype.DataType, error) {
	switch t.Kind {
	case cqlref.Ascii:
		return datatype.Ascii, nil
	case cqlref.Bigint:
		return datatype.Bigint, nil
	case cqlref.Blob:
		return datatype.Blob, nil
	case cqlref.Boolean:
		return datatype.Boolean, nil
	case cqlref.Counter:
		return datatype.Counter, nil
	case cqlref.Date:
		return datatype.Date, nil
	case cqlref.Decimal:
		return datatype.Decimal, nil
	case cqlref.Double:
		return datatype.Double, nil
	case cqlref.Duration:
		return datatype.Duration, nil
	case cqlref.Float:
		return datatype.Float, nil
	case cqlref.Inet:
		return datatype.Inet, nil
	case cqlref.Int:
		return datatype.Int, nil
	case cqlref.Smallint:
		return datatype.Smallint, nil
	case cqlref.Text:
		return datatype.Varchar, nil
	case cqlref.Time:
		return datatype.Time, nil
	case cqlref.Timestamp:
		return datatype.Timestamp, nil
	case cqlref.Timeuuid:
		return datatype.Timeuuid, nil
	case cqlref.Tinyint:
		return datatype.Tinyint, nil
	case cqlref.Uuid:
		return datatype.Uuid, nil
	case cqlref.Varint:
		return datatype.Varint, nil
	case cqlref.Custom:
		return datatype.NewCustom(t.Class), nil
	}
	subs := make([]datatype.DataType, len(t.Elems))
	for i, e := range t.Elems {
		s, err := LibType(e)
		if err != nil {
			return nil, err
		}
		subs[i] = s
	}
	switch t.Kind {
	case cqlref.List:
		return datatype.NewList(subs[0]), nil
	case cqlref.Set:
		return datatype.NewSet(subs[0]), nil
	case cqlref.Map:
		return datatype.NewMap(subs[0], subs[1]), nil
	case cqlref.Tuple:
		return datatype.NewTuple(subs...), nil
	case cqlref.UDT:
		return datatype.NewUserDefined(t.Keyspace, t.Name, t.Names, subs)
	}
	return nil, fmt.Errorf("cqlgen: unknown kind %d", t.Kind)
}

// Codec returns the library codec for the abstract type (datacodec.NewCodec).
func Codec(t *cqlref.Type) (datacodec.Codec, datatype.DataType, error) {
	dt, err := LibType(t)
	if err != nil {
		return nil, nil, err
	}
	c, err := datacodec.NewCodec(dt)
	return c, dt, err
}

// SafeEncode calls codec.Encode and converts a panic into a non-empty panicked string.
func SafeEncode(codec datacodec.Codec, src interface{}, ver cqlref.Version) (b []byte, err error, panicked string) {
	defer func() {
		if r := recover(); r != nil {
			panicked = fmt.Sprint(r)
		}
	}()
	b, err = codec.Encode(src, LibVersion(ver))
	return
}

// SafeDecode calls codec.Decode and converts a panic into a non-empty panicked string.
func SafeDecode(codec datacodec.Codec, b []byte, dest interface{}, ver cqlref.Version) (wasNull bool, err error, panicked string) {
	defer func() {
		if r := recover(); r != nil {
			panicked = fmt.Sprint(r)
		}
	}()
	wasNull, err = codec.Decode(b, dest, LibVersion(ver))
	return
}

// SafePreferredGoType calls datacodec.PreferredGoType and converts a panic into a non-empty
// panicked string.
func SafePreferredGoType(dt datatype.DataType) (t reflect.Type, err error, panicked string) {
	defer func() {
		if r := recover(); r != nil {
			panicked = fmt.Sprint(r)
		}
	}()
	t, err = datacodec.PreferredGoType(dt)
	return
}
