package cqlgen

import (
	"encoding/hex"
	"errors"
	"fmt"
	"math"
	"math/big"
	"net"
	"reflect"
	"time"
	"unicode/utf8"

	"github.com/datastax/go-cassandra-native-protocol/datacodec"
	"github.com/datastax/go-cassandra-native-protocol/primitive"

	"verif/internal/cqlref"
)

// ErrNoFit is returned (wrapped) by Build when the representation cannot hold the value exactly.
var ErrNoFit = errors.New("representation cannot hold the value exactly")

func noFit(format string, a ...interface{}) error {
	return fmt.Errorf("%w: %s", ErrNoFit, fmt.Sprintf(format, a...))
}

// Layouts used by the library's default date / time / timestamp codecs for strings (doc.go).
const (
	DateLayout      = "2006-01-02"
	TimeLayout      = "15:04:05.999999999"
	TimestampLayout = "2006-01-02T15:04:05.999999999-07:00"
)

// Fits reports whether representation r can hold value v of type t exactly.
func Fits(r *Repr, t *cqlref.Type, v *cqlref.Value) bool {
	_, err := Build(r, t, v)
	return err == nil
}

// Build returns the Go value of representation r that denotes v (a reflect.Value of type
// r.GoType(); use .Interface() to pass it to Codec.Encode). NULL becomes the nil of a nillable
// representation. A udt value with trailing fields omitted is built as if they were NULL.
func Build(r *Repr, t *cqlref.Type, v *cqlref.Value) (reflect.Value, error) {
	gt := r.GoType()
	if v.Empty {
		return reflect.Value{}, noFit("legacy empty value")
	}
	if v.Null {
		if !r.CarriesNull(t.Kind) {
			return reflect.Value{}, noFit("the codec does not encode the zero value of %s as NULL", r)
		}
		return reflect.Zero(gt), nil
	}
	switch r.K {
	case RPtr:
		x, err := Build(r.Sub[0], t, v)
		if err != nil {
			return x, err
		}
		p := reflect.New(r.Sub[0].GoType())
		p.Elem().Set(x)
		return p, nil
	case RIface:
		x, err := Build(r.Sub[0], t, v)
		if err != nil {
			return x, err
		}
		iv := reflect.New(ifaceType).Elem()
		iv.Set(x)
		return iv, nil
	case RSlice, RArray:
		return buildSeq(r, t, v)
	case RMap:
		if t.Kind != cqlref.Map {
			return reflect.Value{}, noFit("%s for %s", r, t.Kind)
		}
		n := len(v.Elems) / 2
		if !r.Sub[0].Hashable() {
			return reflect.Value{}, noFit("unhashable key %s", r.Sub[0])
		}
		m := reflect.MakeMapWithSize(gt, n)
		for i := 0; i < n; i++ {
			k, err := Build(r.Sub[0], t.Elems[0], v.Elems[2*i])
			if err != nil {
				return k, err
			}
			x, err := Build(r.Sub[1], t.Elems[1], v.Elems[2*i+1])
			if err != nil {
				return x, err
			}
			m.SetMapIndex(k, x)
		}
		if m.Len() != n {
			return reflect.Value{}, noFit("distinct CQL keys collide as Go keys of type %s", r.Sub[0])
		}
		return m, nil
	case RStrMap:
		if t.Kind != cqlref.UDT {
			return reflect.Value{}, noFit("%s for %s", r, t.Kind)
		}
		m := reflect.MakeMapWithSize(gt, len(t.Elems))
		for i := range t.Elems {
			x, err := Build(r.Sub[i], t.Elems[i], field(v, i))
			if err != nil {
				return x, err
			}
			m.SetMapIndex(reflect.ValueOf(t.Names[i]), x)
		}
		return m, nil
	case RStruct:
		if t.Kind != cqlref.Tuple && t.Kind != cqlref.UDT {
			return reflect.Value{}, noFit("%s for %s", r, t.Kind)
		}
		s := reflect.New(gt).Elem()
		for i := range t.Elems {
			x, err := Build(r.Sub[i], t.Elems[i], field(v, i))
			if err != nil {
				return x, err
			}
			s.Field(i).Set(x)
		}
		return s, nil
	}
	x, err := buildScalar(r, t, v)
	if err != nil {
		return reflect.Value{}, err
	}
	if tm, ok := x.(time.Time); ok && r.K == RTime && r.Zone > 0 {
		x = tm.In(Zones[r.Zone-1]) // same instant, other location
	}
	return reflect.ValueOf(x), nil
}

// field returns element i of a tuple/udt value, NULL when the udt value omits it.
func field(v *cqlref.Value, i int) *cqlref.Value {
	if i < len(v.Elems) {
		return v.Elems[i]
	}
	return cqlref.NullValue()
}

func buildSeq(r *Repr, t *cqlref.Type, v *cqlref.Value) (reflect.Value, error) {
	gt := r.GoType()
	var n int
	elemT := func(i int) *cqlref.Type { return t.Elems[0] }
	elemR := func(i int) *Repr { return r.Sub[0] }
	elemV := func(i int) *cqlref.Value { return v.Elems[i] }
	switch t.Kind {
	case cqlref.List, cqlref.Set:
		if r.PerField {
			return reflect.Value{}, noFit("per-field %s for %s", r, t.Kind)
		}
		n = len(v.Elems)
	case cqlref.Tuple, cqlref.UDT:
		if !r.PerField || len(r.Sub) != len(t.Elems) {
			return reflect.Value{}, noFit("%s for %s", r, t.Kind)
		}
		n = len(t.Elems)
		elemT = func(i int) *cqlref.Type { return t.Elems[i] }
		elemR = func(i int) *Repr { return r.Sub[i] }
		elemV = func(i int) *cqlref.Value { return field(v, i) }
	default:
		return reflect.Value{}, noFit("%s for %s", r, t.Kind)
	}
	var s reflect.Value
	if r.K == RArray {
		if r.N != n {
			return reflect.Value{}, noFit("array of %d for %d elements", r.N, n)
		}
		s = reflect.New(gt).Elem()
	} else {
		s = reflect.MakeSlice(gt, n, n)
	}
	for i := 0; i < n; i++ {
		x, err := Build(elemR(i), elemT(i), elemV(i))
		if err != nil {
			return x, err
		}
		s.Index(i).Set(x)
	}
	return s, nil
}

func intRange(k RK) (lo, hi *big.Int) {
	u := func(x uint64) *big.Int { return new(big.Int).SetUint64(x) }
	switch k {
	case RInt, RInt64:
		return big.NewInt(math.MinInt64), big.NewInt(math.MaxInt64)
	case RInt32:
		return big.NewInt(math.MinInt32), big.NewInt(math.MaxInt32)
	case RInt16:
		return big.NewInt(math.MinInt16), big.NewInt(math.MaxInt16)
	case RInt8:
		return big.NewInt(math.MinInt8), big.NewInt(math.MaxInt8)
	case RUint, RUint64:
		return u(0), u(math.MaxUint64)
	case RUint32:
		return u(0), u(math.MaxUint32)
	case RUint16:
		return u(0), u(math.MaxUint16)
	case RUint8:
		return u(0), u(math.MaxUint8)
	}
	return nil, nil
}

// goInt builds the Go integer of kind k holding x, or fails if out of range.
func goInt(k RK, x *big.Int) (interface{}, error) {
	lo, hi := intRange(k)
	if lo == nil {
		return nil, noFit("not an integer kind")
	}
	if x.Cmp(lo) < 0 || x.Cmp(hi) > 0 {
		return nil, noFit("%s out of range of %s", x, scalarGoTypes[k])
	}
	switch k {
	case RInt:
		return int(x.Int64()), nil
	case RInt64:
		return x.Int64(), nil
	case RInt32:
		return int32(x.Int64()), nil
	case RInt16:
		return int16(x.Int64()), nil
	case RInt8:
		return int8(x.Int64()), nil
	case RUint:
		return uint(x.Uint64()), nil
	case RUint64:
		return x.Uint64(), nil
	case RUint32:
		return uint32(x.Uint64()), nil
	case RUint16:
		return uint16(x.Uint64()), nil
	default:
		return uint8(x.Uint64()), nil
	}
}

// FloorDiv / FloorMod: division rounding toward negative infinity.
func floorDiv(x, y int64) int64 {
	q := x / y
	if (x%y != 0) && ((x < 0) != (y < 0)) {
		q--
	}
	return q
}

// MillisToTime converts milliseconds since the epoch to the UTC instant.
func MillisToTime(ms int64) time.Time {
	s := floorDiv(ms, 1000)
	return time.Unix(s, (ms-s*1000)*int64(time.Millisecond)).UTC()
}

// DaysToTime converts days since the epoch to midnight UTC of that day.
func DaysToTime(days int64) time.Time { return time.Unix(days*86400, 0).UTC() }

// UUIDString renders 16 bytes in the 8-4-4-4-12 form. RFC 4122 §3: "The hexadecimal values "a" through "f" are
// output as lower case characters and are case insensitive on input" — the strings given to the library as
// *input* therefore mix cases, as a pure function of the value: about a third of the letter digits are upper
// case, at even and odd digit positions alike.
func UUIDString(b []byte) string {
	h := []byte(hex.EncodeToString(b))
	if len(b) == 16 {
		for i, ch := range h {
			if ch >= 'a' && ch <= 'f' && (i*7+int(b[15])+int(b[0]))%3 == 1 {
				h[i] = ch - 'a' + 'A'
			}
		}
	}
	return string(h[0:8]) + "-" + string(h[8:12]) + "-" + string(h[12:16]) + "-" + string(h[16:20]) + "-" + string(h[20:32])
}

func buildScalar(r *Repr, t *cqlref.Type, v *cqlref.Value) (interface{}, error) {
	k := r.K
	isInt := k <= RUint8
	switch t.Kind {
	case cqlref.Bigint, cqlref.Counter, cqlref.Int, cqlref.Smallint, cqlref.Tinyint, cqlref.Varint:
		switch {
		case isInt:
			return goInt(k, v.Int)
		case k == RBigInt && (t.Kind == cqlref.Varint || t.Kind == cqlref.Bigint || t.Kind == cqlref.Counter):
			return new(big.Int).Set(v.Int), nil
		case k == RString:
			return v.Int.String(), nil
		}
	case cqlref.Boolean:
		switch {
		case k == RBool:
			return v.Bool, nil
		case isInt:
			// "zero=false, other=true": only 0 and 1 come back unchanged
			if v.Bool {
				return goInt(k, big.NewInt(1))
			}
			return goInt(k, big.NewInt(0))
		}
	case cqlref.Date:
		days := v.EpochDays()
		switch {
		case k == RTime:
			return DaysToTime(days), nil
		case isInt:
			return goInt(k, big.NewInt(days)) // "days since Unix epoch"
		case k == RString:
			tm := DaysToTime(days)
			if y := tm.Year(); y < 0 || y > 9999 {
				return nil, noFit("year %d cannot be written with layout %q", y, DateLayout)
			}
			return tm.Format(DateLayout), nil
		}
	case cqlref.Time:
		ns := v.I64
		if ns < 0 || ns > 86399999999999 {
			return nil, noFit("time outside the valid range")
		}
		switch {
		case k == RDur:
			return time.Duration(ns), nil
		case isInt:
			return goInt(k, big.NewInt(ns)) // "nanoseconds since start of day"
		case k == RTime:
			return time.Date(2001, time.February, 3, 0, 0, 0, 0, time.UTC).Add(time.Duration(ns)), nil
		case k == RString:
			return time.Date(0, 1, 1, 0, 0, 0, 0, time.UTC).Add(time.Duration(ns)).Format(TimeLayout), nil
		}
	case cqlref.Timestamp:
		switch {
		case k == RTime:
			return MillisToTime(v.I64), nil
		case isInt:
			return goInt(k, big.NewInt(v.I64)) // "milliseconds since Unix epoch"
		case k == RString:
			tm := MillisToTime(v.I64)
			if y := tm.Year(); y < 0 || y > 9999 {
				return nil, noFit("year %d cannot be written with layout %q", y, TimestampLayout)
			}
			return tm.Format(TimestampLayout), nil
		}
	case cqlref.Decimal:
		if k == RDecimal {
			return datacodec.CqlDecimal{Unscaled: new(big.Int).Set(v.Int), Scale: v.Scale}, nil
		}
	case cqlref.Duration:
		if k == RCqlDuration {
			if v.Months != int64(int32(v.Months)) || v.Days != int64(int32(v.Days)) {
				return nil, noFit("months/days beyond 32 bits")
			}
			return datacodec.CqlDuration{Months: int32(v.Months), Days: int32(v.Days), Nanos: time.Duration(v.Nanos)}, nil
		}
	case cqlref.Float:
		f := math.Float32frombits(uint32(v.Bits))
		switch k {
		case RFloat32:
			return f, nil
		case RFloat64:
			if v.IsNaN(t) {
				return nil, noFit("NaN across float widths")
			}
			return float64(f), nil
		}
	case cqlref.Double:
		f := math.Float64frombits(v.Bits)
		switch k {
		case RFloat64:
			return f, nil
		case RFloat32:
			if v.IsNaN(t) {
				return nil, noFit("NaN across float widths")
			}
			if g := float32(f); float64(g) == f && math.Signbit(float64(g)) == math.Signbit(f) {
				return g, nil
			}
			return nil, noFit("not a float32")
		case RBigFloat:
			if v.IsNaN(t) {
				return nil, noFit("big.Float has no NaN")
			}
			return new(big.Float).SetFloat64(f), nil
		}
	case cqlref.Inet:
		if len(v.Bytes) != 4 && len(v.Bytes) != 16 {
			return nil, noFit("inet of %d bytes", len(v.Bytes))
		}
		if len(v.Bytes) == 16 && net.IP(v.Bytes).To4() != nil {
			return nil, noFit("IPv4-mapped IPv6 address: Go's net.IP identifies it with the IPv4 address")
		}
		ip := make(net.IP, len(v.Bytes))
		copy(ip, v.Bytes)
		if r.IP16 {
			if len(ip) != 4 {
				return nil, noFit("16-byte form is for IPv4 addresses")
			}
			ip = ip.To16()
		}
		switch k {
		case RIP:
			return ip, nil
		case RBytes:
			return []byte(ip), nil
		case RString:
			return ip.String(), nil
		}
	case cqlref.Uuid, cqlref.Timeuuid:
		if len(v.Bytes) != 16 {
			return nil, noFit("uuid of %d bytes", len(v.Bytes))
		}
		switch k {
		case RUUID:
			var u primitive.UUID
			copy(u[:], v.Bytes)
			return u, nil
		case RByte16:
			var u [16]byte
			copy(u[:], v.Bytes)
			return u, nil
		case RBytes:
			return append([]byte{}, v.Bytes...), nil
		case RString:
			return UUIDString(v.Bytes), nil
		}
	case cqlref.Text, cqlref.Ascii:
		switch k {
		case RString:
			return string(v.Bytes), nil
		case RBytes:
			return append([]byte{}, v.Bytes...), nil
		case RRunes:
			if !utf8.Valid(v.Bytes) {
				return nil, noFit("[]rune cannot hold invalid UTF-8")
			}
			return append([]rune{}, []rune(string(v.Bytes))...), nil
		}
	case cqlref.Blob, cqlref.Custom:
		switch k {
		case RBytes:
			return append([]byte{}, v.Bytes...), nil
		case RString:
			return string(v.Bytes), nil
		}
	}
	return nil, noFit("%s is not a documented representation of %s", r, t.Kind)
}

// TopDest returns a fresh destination for Codec.Decode for a value that was encoded from
// representation r: dest is the pointer to pass, eff the representation of what it points to, and
// val the reflect.Value to hand to Match afterwards. For pointer representations (*T) the
// destination is a *T pointing at a zero T (the library does not accept **T), eff is T.
func TopDest(r *Repr) (dest interface{}, eff *Repr, val reflect.Value) {
	switch r.K {
	case RPtr:
		return TopDest(r.Sub[0])
	case RBigInt:
		p := reflect.ValueOf(new(big.Int))
		return p.Interface(), r, p
	case RBigFloat:
		p := reflect.ValueOf(new(big.Float))
		return p.Interface(), r, p
	}
	p := reflect.New(r.GoType())
	return p.Interface(), r, p.Elem()
}
