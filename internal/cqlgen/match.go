package cqlgen

import (
	"encoding/hex"
	"fmt"
	"math"
	"math/big"
	"net"
	"reflect"
	"strings"
	"sync/atomic"
	"time"

	"github.com/datastax/go-cassandra-native-protocol/datacodec"
	"github.com/datastax/go-cassandra-native-protocol/primitive"

	"verif/internal/cqlref"
)

// Match decides whether the decoded Go value `got` (of type r.GoType(), e.g. the val returned by
// TopDest after Codec.Decode) denotes the abstract value v of type t. It returns nil when it
// does, and a description of the first difference otherwise.
//
// Equality: big numbers by Cmp, floats by bits with NaN == NaN, times by instant, IP addresses
// by address (4- or 16-byte form). NULL must come back as the nil / zero value of the slot. An
// empty list/set/map may come back as a nil or an empty Go slice/map where the slot is a plain
// slice/map (the Go value cannot carry more), but where the slot is a pointer or an interface an
// empty collection must be non-nil. Interface slots must hold exactly the Go type of
// Preferred(t) (doc.go: "the codec will use the preferred type to decode").
func Match(r *Repr, t *cqlref.Type, v *cqlref.Value, got reflect.Value) error {
	return match(r, t, v, got, "")
}

// NilForEmpty counts (atomically) how often a non-NULL empty value (empty list, set, map, blob,
// string as []byte) was found decoded as a nil Go slice/map in a plain slice/map slot. Match
// tolerates this (a Go nil slice and an empty slice are both "no elements"), the checks report
// the count in their evidence.
var NilForEmpty int64

// MatchTop is Match for the value returned by TopDest: a top-level NULL must have left the
// destination at its zero value (doc.go: "the passed dest variable is set to its zero value").
func MatchTop(eff *Repr, t *cqlref.Type, v *cqlref.Value, val reflect.Value) error {
	if v.Null {
		switch eff.K {
		case RBigInt:
			if p := val.Interface().(*big.Int); p == nil || p.Sign() != 0 {
				return fmt.Errorf("NULL left %v in *big.Int destination", p)
			}
			return nil
		case RBigFloat:
			if p := val.Interface().(*big.Float); p == nil || p.Sign() != 0 {
				return fmt.Errorf("NULL left %v in *big.Float destination", p)
			}
			return nil
		}
	}
	return Match(eff, t, v, val)
}

func match(r *Repr, t *cqlref.Type, v *cqlref.Value, got reflect.Value, path string) error {
	bad := func(format string, a ...interface{}) error {
		p := path
		if p == "" {
			p = "."
		}
		return fmt.Errorf("at %s (%s as %s): %s", p, t.Kind, r, fmt.Sprintf(format, a...))
	}
	if !got.IsValid() {
		return bad("invalid reflect.Value")
	}
	if v.Null {
		if !got.IsZero() {
			return bad("want NULL (zero value), got %s", show(got))
		}
		return nil
	}
	switch got.Kind() {
	case reflect.Slice, reflect.Map:
		if got.IsNil() {
			atomic.AddInt64(&NilForEmpty, 1)
		}
	}
	switch r.K {
	case RPtr:
		if got.Kind() != reflect.Ptr {
			return bad("got kind %s, want pointer", got.Kind())
		}
		if got.IsNil() {
			return bad("got nil pointer, want %s", cqlref.Format(t, v))
		}
		return match(r.Sub[0], t, v, got.Elem(), path)
	case RIface:
		if got.Kind() != reflect.Interface {
			return bad("got kind %s, want interface", got.Kind())
		}
		if got.IsNil() {
			return bad("got nil interface, want %s", cqlref.Format(t, v))
		}
		if PreferredKeyUnhashable(t) {
			return bad("preferred Go type does not exist (unhashable map key)")
		}
		pref := Preferred(t)
		dyn := got.Elem()
		if dyn.Type() != pref.GoType() {
			return bad("dynamic type %s, want preferred type %s", dyn.Type(), pref.GoType())
		}
		return match(pref, t, v, dyn, path)
	case RSlice, RArray:
		return matchSeq(r, t, v, got, path, bad)
	case RMap:
		if t.Kind != cqlref.Map || got.Kind() != reflect.Map {
			return bad("got kind %s for %s", got.Kind(), t.Kind)
		}
		n := len(v.Elems) / 2
		if got.Len() != n {
			return bad("got %d entries, want %d", got.Len(), n)
		}
		if n > 8 {
			return matchBigMap(r, t, v, got, path, bad)
		}
		// bipartite matching with backtracking (n <= 4 in generated cases): a greedy assignment
		// can pair a lenient match (nil slice for an empty value) with the wrong entry
		ok := make([][]bool, n)
		var firstErr error
		it := got.MapRange()
		for gi := 0; it.Next() && gi < n; gi++ {
			ok[gi] = make([]bool, n)
			k, val := it.Key(), it.Value()
			for i := 0; i < n; i++ {
				err := match(r.Sub[0], t.Elems[0], v.Elems[2*i], k, path+"{key}")
				if err == nil {
					if err = match(r.Sub[1], t.Elems[1], v.Elems[2*i+1], val, path+"{value}"); err != nil && firstErr == nil {
						firstErr = err
					}
				}
				ok[gi][i] = err == nil
			}
		}
		used := make([]bool, n)
		var assign func(gi int) bool
		assign = func(gi int) bool {
			if gi == n {
				return true
			}
			for i := 0; i < n; i++ {
				if ok[gi][i] && !used[i] {
					used[i] = true
					if assign(gi + 1) {
						return true
					}
					used[i] = false
				}
			}
			return false
		}
		if !assign(0) {
			if firstErr != nil {
				return firstErr
			}
			return bad("decoded map %s does not denote %s", show(got), cqlref.Format(t, v))
		}
		return nil
	case RStrMap:
		if t.Kind != cqlref.UDT || got.Kind() != reflect.Map {
			return bad("got kind %s for %s", got.Kind(), t.Kind)
		}
		if got.Len() > len(t.Elems) {
			return bad("got %d entries for %d fields", got.Len(), len(t.Elems))
		}
		for i, name := range t.Names {
			e := got.MapIndex(reflect.ValueOf(name))
			fv := field(v, i)
			if !e.IsValid() {
				// the library injects every declared field, NULL ones as the zero value (nil)
				return bad("field %q missing from the decoded map (want %s)", name, cqlref.Format(t.Elems[i], fv))
			}
			if err := match(r.Sub[i], t.Elems[i], fv, e, path+"."+name); err != nil {
				return err
			}
		}
		return nil
	case RStruct:
		if got.Kind() != reflect.Struct || got.NumField() != len(t.Elems) {
			return bad("got kind %s", got.Kind())
		}
		for i := range t.Elems {
			if err := match(r.Sub[i], t.Elems[i], field(v, i), got.Field(i), fmt.Sprintf("%s.%d", path, i)); err != nil {
				return err
			}
		}
		return nil
	}
	back, err := FromGo(r, t, got)
	if err != nil {
		return bad("%v", err)
	}
	if !cqlref.Equal(t, v, back) {
		return bad("got %s (%s), want %s", cqlref.Format(t, back), show(got), cqlref.Format(t, v))
	}
	return nil
}

// matchBigMap matches maps with many entries in linear time: the decoded keys are converted
// back to abstract values (scalar key representations, possibly behind pointers) and looked up by
// their canonical format.
func matchBigMap(r *Repr, t *cqlref.Type, v *cqlref.Value, got reflect.Value, path string, bad func(string, ...interface{}) error) error {
	kr := r.Sub[0]
	want := make(map[string]int, len(v.Elems)/2)
	for i := 0; i+1 < len(v.Elems); i += 2 {
		want[cqlref.Format(t.Elems[0], v.Elems[i])] = i
	}
	it := got.MapRange()
	for it.Next() {
		k, rr := it.Key(), kr
		for rr.K == RPtr && k.Kind() == reflect.Ptr && !k.IsNil() {
			k, rr = k.Elem(), rr.Sub[0]
		}
		if !rr.IsScalar() {
			return bad("map of %d entries with key representation %s: not supported by the matcher", got.Len(), kr)
		}
		ak, err := FromGo(rr, t.Elems[0], k)
		if err != nil {
			return bad("key %s: %v", show(k), err)
		}
		i, ok := want[cqlref.Format(t.Elems[0], ak)]
		if !ok {
			return bad("decoded key %s has no counterpart (or appears twice)", show(k))
		}
		delete(want, cqlref.Format(t.Elems[0], ak))
		if err := match(r.Sub[1], t.Elems[1], v.Elems[i+1], it.Value(), path+"{value}"); err != nil {
			return err
		}
	}
	if len(want) != 0 {
		return bad("%d entries missing", len(want))
	}
	return nil
}

// ReusedMapKeptOldEntries counts (atomically) decodes into an already populated Go map that left
// entries of the previous content in place. doc.go does not say that a map destination is
// cleared (the library only allocates a map when the destination is nil), so this is counted and
// not judged.
var ReusedMapKeptOldEntries int64

// MatchReused is MatchTop for a destination that held another value before the decode: the same
// equality is required, except that a top-level Go map that kept entries of its previous
// content is counted (ReusedMapKeptOldEntries) and not judged.
func MatchReused(eff *Repr, t *cqlref.Type, v *cqlref.Value, val reflect.Value) error {
	if !v.Null && (eff.K == RMap || eff.K == RStrMap) && val.Kind() == reflect.Map && val.Len() > v.Len(t) {
		atomic.AddInt64(&ReusedMapKeptOldEntries, 1)
		return nil
	}
	return MatchTop(eff, t, v, val)
}

func matchSeq(r *Repr, t *cqlref.Type, v *cqlref.Value, got reflect.Value, path string, bad func(string, ...interface{}) error) error {
	if got.Kind() != reflect.Slice && got.Kind() != reflect.Array {
		return bad("got kind %s, want slice or array", got.Kind())
	}
	switch t.Kind {
	case cqlref.List, cqlref.Set:
		if got.Len() != len(v.Elems) {
			return bad("got %d elements, want %d", got.Len(), len(v.Elems))
		}
		for i, e := range v.Elems {
			if err := match(r.Sub[0], t.Elems[0], e, got.Index(i), fmt.Sprintf("%s[%d]", path, i)); err != nil {
				return err
			}
		}
		return nil
	case cqlref.Tuple, cqlref.UDT:
		if got.Len() != len(t.Elems) || len(r.Sub) != len(t.Elems) {
			return bad("got %d elements, want %d", got.Len(), len(t.Elems))
		}
		for i := range t.Elems {
			if err := match(r.Sub[i], t.Elems[i], field(v, i), got.Index(i), fmt.Sprintf("%s.%d", path, i)); err != nil {
				return err
			}
		}
		return nil
	}
	return bad("sequence representation for %s", t.Kind)
}

func show(v reflect.Value) string {
	if !v.IsValid() {
		return "<invalid>"
	}
	s := fmt.Sprintf("%T(%v)", v.Interface(), v.Interface())
	if len(s) > 160 {
		s = s[:160] + "..."
	}
	return s
}

// FromGo converts a decoded scalar Go value of representation r back to the abstract value of
// CQL type t that it denotes. It fails when the Go value denotes no value of the type (an
// unparsable string, a date whose clock part is not zero, ...).
func FromGo(r *Repr, t *cqlref.Type, got reflect.Value) (*cqlref.Value, error) {
	if !r.IsScalar() {
		return nil, fmt.Errorf("FromGo: %s is not a scalar representation", r)
	}
	if got.Type() != r.GoType() {
		return nil, fmt.Errorf("Go type %s, want %s", got.Type(), r.GoType())
	}
	x := got.Interface()
	k := r.K
	var asInt *big.Int
	switch {
	case k <= RInt8:
		asInt = big.NewInt(got.Int())
	case k <= RUint8:
		asInt = new(big.Int).SetUint64(got.Uint())
	}
	parseInt := func(s string) (*big.Int, error) {
		n, ok := new(big.Int).SetString(s, 10)
		if !ok {
			return nil, fmt.Errorf("string %q is not a base-10 integer", s)
		}
		return n, nil
	}
	switch t.Kind {
	case cqlref.Bigint, cqlref.Counter, cqlref.Int, cqlref.Smallint, cqlref.Tinyint, cqlref.Varint:
		switch {
		case asInt != nil:
			return cqlref.IntValue(asInt), nil
		case k == RBigInt:
			p := x.(*big.Int)
			if p == nil {
				return nil, fmt.Errorf("nil *big.Int")
			}
			return cqlref.IntValue(p), nil
		case k == RString:
			n, err := parseInt(x.(string))
			if err != nil {
				return nil, err
			}
			return cqlref.IntValue(n), nil
		}
	case cqlref.Boolean:
		switch {
		case k == RBool:
			return cqlref.BoolValue(x.(bool)), nil
		case asInt != nil:
			if asInt.Sign() != 0 && asInt.Cmp(big.NewInt(1)) != 0 {
				return nil, fmt.Errorf("boolean decoded as integer %s (want 0 or 1)", asInt)
			}
			return cqlref.BoolValue(asInt.Sign() != 0), nil
		}
	case cqlref.Date:
		var tm time.Time
		switch {
		case asInt != nil:
			if !asInt.IsInt64() || asInt.Int64() < math.MinInt32 || asInt.Int64() > math.MaxInt32 {
				return nil, fmt.Errorf("days %s outside the date range", asInt)
			}
			return cqlref.DateFromEpochDays(int32(asInt.Int64())), nil
		case k == RTime:
			tm = x.(time.Time)
		case k == RString:
			var err error
			if tm, err = time.Parse(DateLayout, x.(string)); err != nil {
				return nil, err
			}
		default:
			return nil, fmt.Errorf("%s for date", r)
		}
		sec := tm.Unix()
		if tm.Nanosecond() != 0 || sec-floorDiv(sec, 86400)*86400 != 0 {
			return nil, fmt.Errorf("date decoded as %s: clock part not zero in UTC", tm.UTC())
		}
		days := floorDiv(sec, 86400)
		if days < math.MinInt32 || days > math.MaxInt32 {
			return nil, fmt.Errorf("days %d outside the date range", days)
		}
		return cqlref.DateFromEpochDays(int32(days)), nil
	case cqlref.Time:
		clock := func(tm time.Time) int64 {
			tm = tm.UTC()
			return int64(tm.Hour())*3600e9 + int64(tm.Minute())*60e9 + int64(tm.Second())*1e9 + int64(tm.Nanosecond())
		}
		switch {
		case asInt != nil:
			if !asInt.IsInt64() {
				return nil, fmt.Errorf("nanoseconds %s out of range", asInt)
			}
			return cqlref.TimeValue(asInt.Int64()), nil
		case k == RDur:
			return cqlref.TimeValue(int64(x.(time.Duration))), nil
		case k == RTime:
			return cqlref.TimeValue(clock(x.(time.Time))), nil
		case k == RString:
			tm, err := time.Parse(TimeLayout, x.(string))
			if err != nil {
				return nil, err
			}
			return cqlref.TimeValue(clock(tm)), nil
		}
	case cqlref.Timestamp:
		var tm time.Time
		switch {
		case asInt != nil:
			if !asInt.IsInt64() {
				return nil, fmt.Errorf("milliseconds %s out of range", asInt)
			}
			return cqlref.TimestampValue(asInt.Int64()), nil
		case k == RTime:
			tm = x.(time.Time)
		case k == RString:
			var err error
			if tm, err = time.Parse(TimestampLayout, x.(string)); err != nil {
				return nil, err
			}
		default:
			return nil, fmt.Errorf("%s for timestamp", r)
		}
		if tm.Nanosecond()%1e6 != 0 {
			return nil, fmt.Errorf("timestamp decoded with sub-millisecond part: %s", tm)
		}
		ms := new(big.Int).Mul(big.NewInt(tm.Unix()), big.NewInt(1000))
		ms.Add(ms, big.NewInt(int64(tm.Nanosecond()/1e6)))
		if !ms.IsInt64() {
			return nil, fmt.Errorf("timestamp %s beyond 64-bit milliseconds", tm)
		}
		return cqlref.TimestampValue(ms.Int64()), nil
	case cqlref.Decimal:
		if k == RDecimal {
			d := x.(datacodec.CqlDecimal)
			if d.Unscaled == nil {
				return nil, fmt.Errorf("CqlDecimal with nil Unscaled")
			}
			return cqlref.DecimalValue(d.Unscaled, d.Scale), nil
		}
	case cqlref.Duration:
		if k == RCqlDuration {
			d := x.(datacodec.CqlDuration)
			return cqlref.DurationValue(int64(d.Months), int64(d.Days), int64(d.Nanos)), nil
		}
	case cqlref.Float:
		switch k {
		case RFloat32:
			return cqlref.FloatValue(math.Float32bits(x.(float32))), nil
		case RFloat64:
			f := x.(float64)
			g := float32(f)
			if !(f != f) && (float64(g) != f || math.Signbit(float64(g)) != math.Signbit(f)) {
				return nil, fmt.Errorf("float64 %v is not a float32", f)
			}
			return cqlref.FloatValue(math.Float32bits(g)), nil
		}
	case cqlref.Double:
		switch k {
		case RFloat64:
			return cqlref.DoubleValue(math.Float64bits(x.(float64))), nil
		case RFloat32:
			return cqlref.DoubleValue(math.Float64bits(float64(x.(float32)))), nil
		case RBigFloat:
			p := x.(*big.Float)
			if p == nil {
				return nil, fmt.Errorf("nil *big.Float")
			}
			f, acc := p.Float64()
			if acc != big.Exact {
				return nil, fmt.Errorf("big.Float %s is not a float64", p.String())
			}
			return cqlref.DoubleValue(math.Float64bits(f)), nil
		}
	case cqlref.Inet:
		var ip net.IP
		switch k {
		case RIP:
			ip = x.(net.IP)
		case RBytes:
			ip = net.IP(x.([]byte))
		case RString:
			if ip = net.ParseIP(x.(string)); ip == nil {
				return nil, fmt.Errorf("string %q is not an IP address", x)
			}
		default:
			return nil, fmt.Errorf("%s for inet", r)
		}
		if len(ip) != 4 && len(ip) != 16 {
			return nil, fmt.Errorf("IP of %d bytes", len(ip))
		}
		if v4 := ip.To4(); v4 != nil {
			ip = v4
		}
		return cqlref.BytesValue(ip), nil
	case cqlref.Uuid, cqlref.Timeuuid:
		switch k {
		case RUUID:
			u := x.(primitive.UUID)
			return cqlref.BytesValue(u[:]), nil
		case RByte16:
			u := x.([16]byte)
			return cqlref.BytesValue(u[:]), nil
		case RBytes:
			return cqlref.BytesValue(x.([]byte)), nil
		case RString:
			b, err := hex.DecodeString(strings.ReplaceAll(x.(string), "-", ""))
			if err != nil || len(b) != 16 {
				return nil, fmt.Errorf("string %q is not a uuid", x)
			}
			return cqlref.BytesValue(b), nil
		}
	case cqlref.Text, cqlref.Ascii, cqlref.Blob, cqlref.Custom:
		switch k {
		case RString:
			return cqlref.BytesValue([]byte(x.(string))), nil
		case RBytes:
			return cqlref.BytesValue(x.([]byte)), nil
		case RRunes:
			if t.Kind == cqlref.Text || t.Kind == cqlref.Ascii {
				return cqlref.BytesValue([]byte(string(x.([]rune)))), nil
			}
		}
	}
	return nil, fmt.Errorf("%s is not a documented representation of %s", r, t.Kind)
}
