// Package cqlgen generates (CQL type tree, abstract value, Go representation, protocol version)
// cases for the datacodec checks (C11..C14) and converts between cqlref's abstract values and the
// Go representations that the library documents as accepted (datacodec/doc.go, "Using a codec").
//
// The table of doc.go is turned into data here (ScalarReprs); containers are described by Repr
// trees from which the concrete Go type is built with package reflect (SliceOf, ArrayOf, MapOf,
// StructOf, PtrTo), so that every documented shape can be produced for every type tree:
//
//	Build(r, t, v)  abstract value -> Go value of representation r (error: r cannot hold v exactly)
//	TopDest(r)      a fresh destination for Codec.Decode
//	Match(r, t, v, got)  does the decoded Go value denote v?
//	Preferred(t)    the documented preferred representation (what *interface{} destinations receive)
package cqlgen

import (
	"fmt"
	"math/big"
	"net"
	"reflect"
	"strings"
	"sync"
	"time"

	"github.com/datastax/go-cassandra-native-protocol/datacodec"
	"github.com/datastax/go-cassandra-native-protocol/primitive"

	"verif/internal/cqlref"
)

// RK is the kind of a Go representation node.
type RK int

const (
	RInt RK = iota
	RInt64
	RInt32
	RInt16
	RInt8
	RUint
	RUint64
	RUint32
	RUint16
	RUint8
	RBigInt   // *big.Int (the library never accepts big.Int by value)
	RBigFloat // *big.Float
	RFloat32
	RFloat64
	RBool
	RString
	RBytes  // []byte
	RRunes  // []rune
	RTime   // time.Time
	RDur    // time.Duration
	RIP     // net.IP
	RUUID   // primitive.UUID
	RByte16 // [16]byte
	RDecimal
	RCqlDuration
	// composite
	RPtr    // pointer to Sub[0]
	RIface  // interface{} holding Sub[0] when encoding; receives Preferred(t) when decoding
	RSlice  // list/set: []Sub[0]; tuple/udt: one Sub per field, all of the same Go type
	RArray  // like RSlice with a fixed length N
	RMap    // map[Sub[0]]Sub[1]
	RStrMap // udt only: map[string]T, one Sub per field, all of the same Go type T
	RStruct // tuple (fields by position) or udt (fields by name or `cassandra` tag): one Sub per field
)

var intKinds = []RK{RInt, RInt64, RInt32, RInt16, RInt8, RUint, RUint64, RUint32, RUint16, RUint8}

var scalarGoTypes = map[RK]reflect.Type{
	RInt: reflect.TypeOf(int(0)), RInt64: reflect.TypeOf(int64(0)), RInt32: reflect.TypeOf(int32(0)),
	RInt16: reflect.TypeOf(int16(0)), RInt8: reflect.TypeOf(int8(0)),
	RUint: reflect.TypeOf(uint(0)), RUint64: reflect.TypeOf(uint64(0)), RUint32: reflect.TypeOf(uint32(0)),
	RUint16: reflect.TypeOf(uint16(0)), RUint8: reflect.TypeOf(uint8(0)),
	RBigInt: reflect.TypeOf((*big.Int)(nil)), RBigFloat: reflect.TypeOf((*big.Float)(nil)),
	RFloat32: reflect.TypeOf(float32(0)), RFloat64: reflect.TypeOf(float64(0)),
	RBool: reflect.TypeOf(false), RString: reflect.TypeOf(""),
	RBytes: reflect.TypeOf([]byte(nil)), RRunes: reflect.TypeOf([]rune(nil)),
	RTime: reflect.TypeOf(time.Time{}), RDur: reflect.TypeOf(time.Duration(0)),
	RIP: reflect.TypeOf(net.IP(nil)), RUUID: reflect.TypeOf(primitive.UUID{}), RByte16: reflect.TypeOf([16]byte{}),
	RDecimal: reflect.TypeOf(datacodec.CqlDecimal{}), RCqlDuration: reflect.TypeOf(datacodec.CqlDuration{}),
}

// Zones are the fixed non-UTC locations in which time.Time sources are also built: a half-hour
// offset east, a large offset west, and +14:00 (for most clock times the local date differs from
// the UTC date).
var Zones = []*time.Location{time.FixedZone("+05:30", 19800), time.FixedZone("-11:00", -39600), time.FixedZone("+14:00", 50400)}

var ifaceType = reflect.TypeOf((*interface{})(nil)).Elem()
var stringType = reflect.TypeOf("")

// Repr is a Go representation of a CQL type tree: a tree parallel to the cqlref.Type.
type Repr struct {
	K   RK
	Sub []*Repr
	// N: array length (RArray).
	N int
	// PerField: RSlice/RArray used for a tuple or udt (one Sub per field) rather than a list/set.
	PerField bool
	// Tagged: RStruct for a udt whose fields are located through `cassandra:"name"` tags instead
	// of the case-insensitive field name.
	Tagged bool
	// IP16: RIP/RBytes holding an IPv4 address in net.IP's 16-byte form.
	IP16 bool
	// Zone: RTime only: 0 = the time.Time is in UTC, 1..len(Zones) = the same instant in
	// Zones[Zone-1] (the codecs document that time.Time values are normalized to UTC before
	// encoding: the location must not change what is encoded).
	Zone int
	// Names: udt field names (RStruct, RStrMap), copied from the type at construction.
	Names []string

	goType reflect.Type
}

// Leaf returns a scalar representation node.
func Leaf(k RK) *Repr { return &Repr{K: k} }

// Ptr wraps r in a pointer. *big.Int / *big.Float are already pointers and are returned as is.
func Ptr(r *Repr) *Repr {
	if r.K == RBigInt || r.K == RBigFloat {
		return r
	}
	return &Repr{K: RPtr, Sub: []*Repr{r}}
}

// Iface wraps r in an interface{}.
func Iface(r *Repr) *Repr { return &Repr{K: RIface, Sub: []*Repr{r}} }

// IsScalar reports whether the node is one of the scalar Go types.
func (r *Repr) IsScalar() bool { return r.K < RPtr }

// Nillable reports whether the Go type has a nil value (Go-level property; see CarriesNull for
// whether the codec of a given CQL type encodes that nil as NULL).
func (r *Repr) Nillable() bool {
	switch r.K {
	case RPtr, RIface, RSlice, RMap, RStrMap, RBytes, RRunes, RIP, RBigInt, RBigFloat:
		return true
	}
	return false
}

// CarriesNull reports whether the nil value of representation r is a Go value that the codec of
// CQL kind k must encode as NULL (doc.go: "Nils are encoded as CQL NULLs"): every nillable Go
// type of the table. (Two arms of the originally pinned tree did not - a nil []rune for
// ascii/varchar was encoded as the empty string and a nil []byte for uuid/timeuuid was refused -
// both were repaired in /repo, commits ea8608f and 5cd25b9, so there is no exception left.)
func (r *Repr) CarriesNull(k cqlref.Kind) bool {
	return r.Nillable()
}

// Hashable reports whether values of the Go type can be used as Go map keys without panicking.
// Interfaces are hashable only if what they hold is (when encoding) and if the preferred type of
// the CQL type is (when decoding); the caller checks the latter.
func (r *Repr) Hashable() bool {
	switch r.K {
	case RBytes, RRunes, RIP, RSlice, RMap, RStrMap:
		return false
	case RArray, RStruct:
		for _, s := range r.Sub {
			if !s.Hashable() {
				return false
			}
		}
		return true
	case RIface:
		return r.Sub[0].Hashable()
	}
	return true // scalars, pointers
}

// HashableFor reports whether r can be the key type of a Go map that the library fills when
// decoding a CQL value of type t: r must be hashable and every interface{} slot in it must
// receive a hashable preferred type (an interface{} slot of a blob, inet, list, set, map, tuple
// or udt receives a slice or a map, and inserting such a key panics in package reflect).
func (r *Repr) HashableFor(t *cqlref.Type) bool {
	switch r.K {
	case RPtr:
		return true
	case RIface:
		return r.Sub[0].HashableFor(t) && Preferred(t).Hashable()
	case RArray, RStruct:
		for i, s := range r.Sub {
			et := t.Elems[0]
			if r.PerField || r.K == RStruct {
				if i >= len(t.Elems) {
					return false
				}
				et = t.Elems[i]
			}
			if !s.HashableFor(et) {
				return false
			}
		}
		return true
	}
	return r.Hashable()
}

// Freeze computes and caches the Go type of every node of the tree, after which the tree may be
// shared between goroutines (GoType caches lazily and is not safe for concurrent first use).
func (r *Repr) Freeze() *Repr {
	for _, s := range r.Sub {
		s.Freeze()
	}
	r.GoType()
	return r
}

// GoType returns the concrete Go type of the representation.
func (r *Repr) GoType() reflect.Type {
	if r.goType != nil {
		return r.goType
	}
	var t reflect.Type
	switch r.K {
	case RPtr:
		t = reflect.PtrTo(r.Sub[0].GoType())
	case RIface:
		t = ifaceType
	case RSlice:
		t = reflect.SliceOf(r.Sub[0].GoType())
	case RArray:
		et := ifaceType // [0]interface{} for an empty per-field array cannot happen (width >= 1)
		if len(r.Sub) > 0 {
			et = r.Sub[0].GoType()
		}
		t = reflect.ArrayOf(r.N, et)
	case RMap:
		t = reflect.MapOf(r.Sub[0].GoType(), r.Sub[1].GoType())
	case RStrMap:
		t = reflect.MapOf(stringType, r.Sub[0].GoType())
	case RStruct:
		t = r.structType()
	default:
		t = scalarGoTypes[r.K]
	}
	r.goType = t
	return t
}

// structKey identifies a struct type built by structType. reflect.StructOf is expensive even when
// the type already exists (it registers every field name again under a global lock), so the
// types are cached here.
type structKey struct {
	n     int
	names [4]string
	tags  [4]string
	types [4]reflect.Type
}

var structCache sync.Map // structKey -> reflect.Type

func (r *Repr) structType() reflect.Type {
	fs := make([]reflect.StructField, len(r.Sub))
	key := structKey{n: len(r.Sub)}
	for i, s := range r.Sub {
		fs[i] = reflect.StructField{Name: r.fieldName(i), Type: s.GoType()}
		if r.Tagged {
			fs[i].Tag = reflect.StructTag(`cassandra:"` + r.Names[i] + `"`)
		}
		if i < 4 {
			key.names[i], key.tags[i], key.types[i] = fs[i].Name, string(fs[i].Tag), fs[i].Type
		}
	}
	if len(fs) > 4 {
		return reflect.StructOf(fs)
	}
	if t, ok := structCache.Load(key); ok {
		return t.(reflect.Type)
	}
	t, _ := structCache.LoadOrStore(key, reflect.StructOf(fs))
	return t.(reflect.Type)
}

// fieldName is the exported Go name of struct field i: for untagged udt structs the udt field
// name with its first letter upper-cased (the library matches names case-insensitively), otherwise
// a positional name.
func (r *Repr) fieldName(i int) string {
	if r.Names != nil && !r.Tagged {
		n := r.Names[i]
		return strings.ToUpper(n[:1]) + n[1:]
	}
	return fmt.Sprintf("X%d", i)
}

// String is a compact, space-free rendering of the Go type, e.g. *int64, []*int32,
// map[string]any, struct{int32;string}.
func (r *Repr) String() string {
	switch r.K {
	case RPtr:
		return "*" + r.Sub[0].String()
	case RIface:
		return "any(" + r.Sub[0].String() + ")"
	case RSlice:
		if r.PerField {
			return "[]{" + joinReprs(r.Sub) + "}"
		}
		return "[]" + r.Sub[0].String()
	case RArray:
		if r.PerField {
			return fmt.Sprintf("[%d]{%s}", r.N, joinReprs(r.Sub))
		}
		return fmt.Sprintf("[%d]%s", r.N, r.Sub[0].String())
	case RMap:
		return "map[" + r.Sub[0].String() + "]" + r.Sub[1].String()
	case RStrMap:
		return "map[string]{" + joinReprs(r.Sub) + "}"
	case RStruct:
		if r.Tagged {
			return "struct`tag`{" + joinReprs(r.Sub) + "}"
		}
		return "struct{" + joinReprs(r.Sub) + "}"
	case RIP:
		if r.IP16 {
			return "net.IP(16)"
		}
		return "net.IP"
	case RBytes:
		if r.IP16 {
			return "[]byte(16)"
		}
		return "[]byte"
	case RRunes:
		return "[]rune"
	case RTime:
		if r.Zone > 0 {
			return "time.Time(" + Zones[r.Zone-1].String() + ")"
		}
	}
	return strings.ReplaceAll(scalarGoTypes[r.K].String(), " ", "")
}

func joinReprs(rs []*Repr) string {
	parts := make([]string, len(rs))
	for i, s := range rs {
		parts[i] = s.String()
	}
	return strings.Join(parts, ";")
}

// Class is the bounded-vocabulary rendering used in violation keys: the full Go type for scalar
// representations (with pointer / interface wrappers), the shape only for containers
// (slice, array, map, strmap, struct, struct-tagged).
func (r *Repr) Class() string {
	switch r.K {
	case RPtr:
		return "*" + r.Sub[0].Class()
	case RIface:
		return "any(" + r.Sub[0].Class() + ")"
	case RSlice:
		if r.PerField {
			return "slice-per-field"
		}
		return "slice"
	case RArray:
		if r.PerField {
			return "array-per-field"
		}
		return "array"
	case RMap:
		return "map"
	case RStrMap:
		return "strmap"
	case RStruct:
		if r.Tagged {
			return "struct-tagged"
		}
		return "struct"
	}
	return r.String()
}

// ScalarReprs is the doc.go table as data: for a scalar CQL kind, the non-pointer Go types the
// codec accepts as encoding source, preferred type first. Every entry is also accepted through a
// pointer (Ptr(entry)) as source, and a pointer to it is the decoding destination. The returned
// slice and its nodes are shared and immutable.
func ScalarReprs(k cqlref.Kind) []*Repr {
	scalarReprsOnce.Do(func() {
		for _, kk := range cqlref.ScalarKinds() {
			rs := scalarReprs(kk)
			for _, r := range rs {
				r.GoType() // the shared nodes are immutable from here on
			}
			scalarReprsTable[kk] = rs
		}
	})
	if k < 0 || int(k) >= len(scalarReprsTable) {
		return nil
	}
	return scalarReprsTable[k]
}

var (
	scalarReprsOnce  sync.Once
	scalarReprsTable [64][]*Repr
)

// zoned returns the time.Time representations in the non-UTC Zones.
func zoned() []*Repr {
	out := make([]*Repr, len(Zones))
	for i := range Zones {
		out[i] = &Repr{K: RTime, Zone: i + 1}
	}
	return out
}

func scalarReprs(k cqlref.Kind) []*Repr {
	leafs := func(first RK, more ...[]RK) []*Repr {
		out := []*Repr{Leaf(first)}
		for _, ks := range more {
			for _, x := range ks {
				if x != first {
					out = append(out, Leaf(x))
				}
			}
		}
		return out
	}
	switch k {
	case cqlref.Bigint, cqlref.Counter:
		return leafs(RInt64, intKinds, []RK{RBigInt, RString})
	case cqlref.Int:
		return leafs(RInt32, intKinds, []RK{RString})
	case cqlref.Smallint:
		return leafs(RInt16, intKinds, []RK{RString})
	case cqlref.Tinyint:
		return leafs(RInt8, intKinds, []RK{RString})
	case cqlref.Varint:
		return leafs(RBigInt, intKinds, []RK{RString})
	case cqlref.Blob, cqlref.Custom:
		return leafs(RBytes, []RK{RString})
	case cqlref.Boolean:
		return leafs(RBool, intKinds)
	case cqlref.Date:
		return append(leafs(RTime, intKinds, []RK{RString}), zoned()...)
	case cqlref.Decimal:
		return leafs(RDecimal)
	case cqlref.Double:
		return leafs(RFloat64, []RK{RFloat32, RBigFloat})
	case cqlref.Duration:
		return leafs(RCqlDuration)
	case cqlref.Float:
		return leafs(RFloat32, []RK{RFloat64})
	case cqlref.Inet:
		return append(leafs(RIP, []RK{RBytes, RString}), &Repr{K: RIP, IP16: true}, &Repr{K: RBytes, IP16: true})
	case cqlref.Time:
		return append(leafs(RDur, intKinds, []RK{RTime, RString}), zoned()...)
	case cqlref.Timestamp:
		return append(leafs(RTime, intKinds, []RK{RString}), zoned()...)
	case cqlref.Uuid, cqlref.Timeuuid:
		return leafs(RUUID, []RK{RByte16, RBytes, RString})
	case cqlref.Text, cqlref.Ascii:
		return leafs(RString, []RK{RBytes, RRunes})
	}
	return nil
}

// nillable returns r if its Go type has a nil value, else a pointer to it (the library's
// "ensureNillable" rule for elements of preferred collection types, documented in codec.go).
func nillable(r *Repr) *Repr {
	if r.Nillable() {
		return r
	}
	return Ptr(r)
}

// nullCapable returns r if the codec of kind k encodes r's nil as NULL, else a pointer to r.
func nullCapable(r *Repr, k cqlref.Kind) *Repr {
	if r.CarriesNull(k) {
		return r
	}
	return Ptr(r)
}

// Preferred is this harness' model of the documented preferred Go representation of a CQL type:
// first line of each row of the doc.go table; []T / map[K]V of nillable preferred element types
// for collections; []interface{} for tuples and map[string]interface{} for udts (codec.go,
// PreferredGoType). Its GoType() panics (reflect.MapOf) for maps whose preferred key type is not
// hashable; see PreferredKeyUnhashable.
func Preferred(t *cqlref.Type) *Repr {
	switch t.Kind {
	case cqlref.List, cqlref.Set:
		return &Repr{K: RSlice, Sub: []*Repr{nillable(Preferred(t.Elems[0]))}}
	case cqlref.Map:
		return &Repr{K: RMap, Sub: []*Repr{nillable(Preferred(t.Elems[0])), nillable(Preferred(t.Elems[1]))}}
	case cqlref.Tuple:
		r := &Repr{K: RSlice, PerField: true}
		for _, e := range t.Elems {
			r.Sub = append(r.Sub, Iface(Preferred(e)))
		}
		return r
	case cqlref.UDT:
		r := &Repr{K: RStrMap, Names: t.Names}
		for _, e := range t.Elems {
			r.Sub = append(r.Sub, Iface(Preferred(e)))
		}
		return r
	}
	return ScalarReprs(t.Kind)[0]
}

// PreferredKeyUnhashable reports whether the type tree contains a map whose key type has an
// unhashable preferred Go type (blob, custom, inet, list, set, map, tuple, udt keys): Go cannot
// express the preferred type of such a map.
func PreferredKeyUnhashable(t *cqlref.Type) bool {
	if t.Kind == cqlref.Map && !nillable(Preferred(t.Elems[0])).Hashable() {
		return true
	}
	for _, e := range t.Elems {
		if PreferredKeyUnhashable(e) {
			return true
		}
	}
	return false
}
