package bridge

import (
	"fmt"
	"net"
	"reflect"
	"sort"

	"github.com/datastax/go-cassandra-native-protocol/datatype"
	"github.com/datastax/go-cassandra-native-protocol/frame"
	"github.com/datastax/go-cassandra-native-protocol/message"
	"github.com/datastax/go-cassandra-native-protocol/primitive"

	"verif/internal/ref"
)

// FromLib reads a library frame into the abstract normal form (ref.Norm applied) and returns the raw
// header flags. The presence of the optional body parts is taken from the header flags, as the wire
// format does; body fields whose flag is clear are not part of the frame's meaning.
//
// The complete list of distinctions FromLib erases (DESIGN.md M3):
//
//	N1 nil vs empty slice/map where both are written as a count of 0 ([string list], [short bytes],
//	   maps, rows, children, columns, values) — but NOT for [bytes], where nil is NULL (-1);
//	N2 net.IP in 4 or 16 bytes;
//	N3 Header.BodyLength (computed);
//	N4 nil *QueryOptions / *RowsMetadata / *VariablesMetadata = their zero value;
//	N5 ColumnMetadata.Index (never on the wire);
//	N8 PageSize <= 0 = no page size; ContinuousPageNumber <= 0 = no continuous paging;
//	   PageSizeInBytes / LastContinuousPage are only meaningful with their number;
//	N9 Value{Regular, nil contents} = NULL (primitive.NewValue documents it).
func FromLib(f *frame.Frame) (*ref.Frame, byte, error) {
	if f == nil || f.Header == nil || f.Body == nil || f.Body.Message == nil {
		return nil, 0, fmt.Errorf("incomplete frame %v", f)
	}
	h := f.Header
	if h.OpCode != f.Body.Message.GetOpCode() {
		return nil, 0, fmt.Errorf("header opcode %v != message opcode %v", h.OpCode, f.Body.Message.GetOpCode())
	}
	if h.IsResponse != f.Body.Message.IsResponse() {
		return nil, 0, fmt.Errorf("header direction %v != message direction", h.IsResponse)
	}
	a := &ref.Frame{Version: ref.Version(h.Version), Response: h.IsResponse, Stream: h.StreamId}
	if h.Flags.Contains(primitive.HeaderFlagTracing) {
		if h.IsResponse {
			if f.Body.TracingId == nil {
				return nil, 0, fmt.Errorf("TRACING flag on a response without tracing id")
			}
			id := [16]byte(*f.Body.TracingId)
			a.TracingID = &id
		} else {
			a.TraceRequested = true
		}
	}
	if h.Flags.Contains(primitive.HeaderFlagWarning) {
		w := append([]string{}, f.Body.Warnings...)
		a.Warnings = &w
	}
	if h.Flags.Contains(primitive.HeaderFlagCustomPayload) {
		p := []ref.KBytes{}
		for k, v := range f.Body.CustomPayload {
			p = append(p, ref.KBytes{K: k, V: bytesFrom(v)})
		}
		a.Payload = &p
	}
	m, err := MsgFromLib(a.Version, f.Body.Message)
	if err != nil {
		return nil, 0, err
	}
	a.Msg = m
	return ref.Norm(a), byte(h.Flags), nil
}

func bytesFrom(b []byte) ref.Bytes {
	if b == nil {
		return ref.NullBytes
	}
	return ref.B(append([]byte{}, b...))
}

func ipFrom(ip net.IP) []byte {
	if v4 := ip.To4(); v4 != nil {
		return append([]byte{}, v4...)
	}
	return append([]byte{}, ip...)
}

func valueFrom(v *primitive.Value) (ref.Value, error) {
	if v == nil {
		return ref.Value{}, fmt.Errorf("nil *Value")
	}
	switch v.Type {
	case primitive.ValueTypeNull:
		return ref.Value{Kind: -1}, nil
	case primitive.ValueTypeUnset:
		return ref.Value{Kind: -2}, nil
	case primitive.ValueTypeRegular:
		if v.Contents == nil {
			return ref.Value{Kind: -1}, nil
		}
		return ref.Value{Kind: 0, B: append([]byte{}, v.Contents...)}, nil
	}
	return ref.Value{}, fmt.Errorf("value type %d", v.Type)
}

func clFrom(p *primitive.ConsistencyLevel) *uint16 {
	if p == nil {
		return nil
	}
	c := uint16(*p)
	return &c
}

func queryOptionsFrom(ver ref.Version, o *message.QueryOptions) (ref.QueryOptions, error) {
	var q ref.QueryOptions
	if o == nil {
		return q, nil
	}
	q.Consistency = uint16(o.Consistency)
	if o.PositionalValues != nil {
		q.HasValues = true
		for _, v := range o.PositionalValues {
			x, err := valueFrom(v)
			if err != nil {
				return q, err
			}
			q.Positional = append(q.Positional, x)
		}
	} else if o.NamedValues != nil {
		q.HasValues, q.Named = true, true
		for k, v := range o.NamedValues {
			x, err := valueFrom(v)
			if err != nil {
				return q, err
			}
			q.NamedValues = append(q.NamedValues, ref.NamedValue{Name: k, Value: x})
		}
	}
	q.SkipMetadata = o.SkipMetadata
	if o.PageSize > 0 {
		p := o.PageSize
		q.PageSize = &p
		q.PageSizeInBytes = o.PageSizeInBytes
	}
	if o.PagingState != nil {
		b := ref.B(append([]byte{}, o.PagingState...))
		q.PagingState = &b
	}
	q.SerialConsistency = clFrom(o.SerialConsistency)
	if o.DefaultTimestamp != nil {
		t := *o.DefaultTimestamp
		q.Timestamp = &t
	}
	if o.Keyspace != "" {
		k := o.Keyspace
		q.Keyspace = &k
	}
	if o.NowInSeconds != nil {
		n := *o.NowInSeconds
		q.NowInSeconds = &n
	}
	if c := o.ContinuousPagingOptions; c != nil {
		q.ContinuousPaging = &ref.ContinuousPaging{MaxPages: c.MaxPages, PagesPerSecond: c.PagesPerSecond}
		if ver.HasNextPages() {
			q.ContinuousPaging.NextPages = c.NextPages
		}
	}
	return q, nil
}

func TypeFromLib(t datatype.DataType) (ref.Type, error) {
	if t == nil {
		return ref.Type{}, fmt.Errorf("nil DataType")
	}
	out := ref.Type{Code: uint16(t.Code())}
	sub := func(ts ...datatype.DataType) error {
		for _, e := range ts {
			x, err := TypeFromLib(e)
			if err != nil {
				return err
			}
			out.Elems = append(out.Elems, x)
		}
		return nil
	}
	switch t := t.(type) {
	case *datatype.PrimitiveType:
	case *datatype.Custom:
		out.Custom = t.ClassName
	case *datatype.List:
		return out, sub(t.ElementType)
	case *datatype.Set:
		return out, sub(t.ElementType)
	case *datatype.Map:
		return out, sub(t.KeyType, t.ValueType)
	case *datatype.Tuple:
		return out, sub(t.FieldTypes...)
	case *datatype.UserDefined:
		out.Keyspace, out.Name = t.Keyspace, t.Name
		out.Fields = append([]string{}, t.FieldNames...)
		return out, sub(t.FieldTypes...)
	default:
		return out, fmt.Errorf("unknown DataType %T", t)
	}
	return out, nil
}

func columnsFrom(cols []*message.ColumnMetadata) ([]ref.ColumnSpec, error) {
	var out []ref.ColumnSpec
	for _, c := range cols {
		if c == nil {
			return nil, fmt.Errorf("nil *ColumnMetadata")
		}
		t, err := TypeFromLib(c.Type)
		if err != nil {
			return nil, err
		}
		out = append(out, ref.ColumnSpec{Keyspace: c.Keyspace, Table: c.Table, Name: c.Name, Type: t})
	}
	return out, nil
}

func rowsMetadataFrom(m *message.RowsMetadata) (ref.RowsMetadata, error) {
	var o ref.RowsMetadata
	if m == nil {
		return o, nil
	}
	o.ColumnCount = m.ColumnCount
	if m.PagingState != nil {
		b := ref.B(append([]byte{}, m.PagingState...))
		o.PagingState = &b
	}
	if m.NewResultMetadataId != nil {
		b := append([]byte{}, m.NewResultMetadataId...)
		o.NewMetadataID = &b
	}
	if m.ContinuousPageNumber > 0 {
		p := m.ContinuousPageNumber
		o.ContinuousPage = &p
		o.LastPage = m.LastContinuousPage
	}
	var err error
	o.Columns, err = columnsFrom(m.Columns)
	return o, err
}

func inetFrom(i *primitive.Inet) (ref.Inet, error) {
	if i == nil {
		return ref.Inet{}, fmt.Errorf("nil *Inet")
	}
	return ref.Inet{IP: ipFrom(i.Addr), Port: i.Port}, nil
}

func reasonsFrom(ver ref.Version, n int32, rs []*primitive.FailureReason) (int32, []ref.Reason, error) {
	if !ver.HasReasonMap() {
		return n, nil, nil
	}
	var out []ref.Reason
	for _, r := range rs {
		if r == nil {
			return 0, nil, fmt.Errorf("nil *FailureReason")
		}
		out = append(out, ref.Reason{IP: ipFrom(r.Endpoint), Code: uint16(r.Code)})
	}
	return 0, out, nil
}

// MsgFromLib reads a library message into the abstract form. Fields the library documents as not
// applicable to a version (NumFailures where a reason map is used and vice versa, Contentions unless
// v5+CAS, NextPages before DSE v2, Arguments unless FUNCTION/AGGREGATE, Object for KEYSPACE targets) are
// read as empty, as the wire cannot carry them.
func MsgFromLib(ver ref.Version, m message.Message) (ref.Msg, error) {
	switch m := m.(type) {
	case *message.Startup:
		o := &ref.Startup{}
		for k, v := range m.Options {
			o.Options = append(o.Options, ref.KV{K: k, V: v})
		}
		return o, nil
	case *message.Options:
		return &ref.Options{}, nil
	case *message.Ready:
		return &ref.Ready{}, nil
	case *message.Authenticate:
		return &ref.Authenticate{Authenticator: m.Authenticator}, nil
	case *message.AuthResponse:
		return &ref.AuthResponse{Token: bytesFrom(m.Token)}, nil
	case *message.AuthChallenge:
		return &ref.AuthChallenge{Token: bytesFrom(m.Token)}, nil
	case *message.AuthSuccess:
		return &ref.AuthSuccess{Token: bytesFrom(m.Token)}, nil
	case *message.Supported:
		o := &ref.Supported{}
		for k, v := range m.Options {
			o.Options = append(o.Options, ref.KList{K: k, V: append([]string{}, v...)})
		}
		return o, nil
	case *message.Register:
		o := &ref.Register{}
		for _, e := range m.EventTypes {
			o.Events = append(o.Events, string(e))
		}
		return o, nil
	case *message.Query:
		q, err := queryOptionsFrom(ver, m.Options)
		return &ref.Query{Query: m.Query, Opts: q}, err
	case *message.Prepare:
		o := &ref.Prepare{Query: m.Query}
		if m.Keyspace != "" {
			k := m.Keyspace
			o.Keyspace = &k
		}
		return o, nil
	case *message.Execute:
		q, err := queryOptionsFrom(ver, m.Options)
		return &ref.Execute{ID: append([]byte{}, m.QueryId...), ResultMetadataID: append([]byte{}, m.ResultMetadataId...), Opts: q}, err
	case *message.Batch:
		o := &ref.Batch{Type: byte(m.Type), Consistency: uint16(m.Consistency), SerialConsistency: clFrom(m.SerialConsistency)}
		for _, c := range m.Children {
			if c == nil {
				return nil, fmt.Errorf("nil *BatchChild")
			}
			var ac ref.BatchChild
			if c.Query != "" {
				ac.Query = c.Query
			} else {
				ac.IsID = true
				ac.ID = append([]byte{}, c.Id...)
			}
			for _, v := range c.Values {
				x, err := valueFrom(v)
				if err != nil {
					return nil, err
				}
				ac.Values = append(ac.Values, x)
			}
			o.Children = append(o.Children, ac)
		}
		if m.DefaultTimestamp != nil {
			t := *m.DefaultTimestamp
			o.Timestamp = &t
		}
		if m.Keyspace != "" {
			k := m.Keyspace
			o.Keyspace = &k
		}
		if m.NowInSeconds != nil {
			n := *m.NowInSeconds
			o.NowInSeconds = &n
		}
		return o, nil
	case *message.Revise:
		o := &ref.Revise{Type: int32(m.RevisionType), Target: m.TargetStreamId}
		if o.Type == 2 {
			o.NextPages = m.NextPages
		}
		return o, nil
	case *message.VoidResult:
		return &ref.ResultVoid{}, nil
	case *message.RowsResult:
		meta, err := rowsMetadataFrom(m.Metadata)
		if err != nil {
			return nil, err
		}
		o := &ref.ResultRows{Meta: meta}
		for _, row := range m.Data {
			ar := []ref.Bytes{}
			for _, c := range row {
				ar = append(ar, bytesFrom(c))
			}
			o.Rows = append(o.Rows, ar)
		}
		return o, nil
	case *message.SetKeyspaceResult:
		return &ref.ResultSetKeyspace{Keyspace: m.Keyspace}, nil
	case *message.PreparedResult:
		o := &ref.ResultPrepared{ID: append([]byte{}, m.PreparedQueryId...)}
		if ver.HasResultMetadataID() {
			o.ResultMetadataID = append([]byte{}, m.ResultMetadataId...)
		}
		if vm := m.VariablesMetadata; vm != nil {
			if ver.HasPkIndices() {
				o.Vars.PkIndices = append([]uint16{}, vm.PkIndices...)
			}
			var err error
			if o.Vars.Columns, err = columnsFrom(vm.Columns); err != nil {
				return nil, err
			}
		}
		var err error
		o.Result, err = rowsMetadataFrom(m.ResultMetadata)
		return o, err
	case *message.SchemaChangeResult:
		return schemaChangeFrom(ver, false, string(m.ChangeType), string(m.Target), m.Keyspace, m.Object, m.Arguments), nil
	case *message.SchemaChangeEvent:
		return schemaChangeFrom(ver, true, string(m.ChangeType), string(m.Target), m.Keyspace, m.Object, m.Arguments), nil
	case *message.StatusChangeEvent:
		a, err := inetFrom(m.Address)
		return &ref.StatusChange{ChangeType: string(m.ChangeType), Addr: a}, err
	case *message.TopologyChangeEvent:
		a, err := inetFrom(m.Address)
		return &ref.TopologyChange{ChangeType: string(m.ChangeType), Addr: a}, err
	case message.Error:
		return errorFrom(ver, m)
	}
	return nil, fmt.Errorf("unknown library message %T", m)
}

func schemaChangeFrom(ver ref.Version, event bool, ct, target, ks, obj string, args []string) *ref.SchemaChange {
	o := &ref.SchemaChange{Event: event, ChangeType: ct, Target: target, Keyspace: ks}
	switch target {
	case "KEYSPACE":
	case "FUNCTION", "AGGREGATE":
		o.Object = obj
		o.Args = append([]string{}, args...)
	default:
		o.Object = obj
	}
	return o
}

func errorFrom(ver ref.Version, e message.Error) (ref.Msg, error) {
	o := &ref.Error{Code: int32(e.GetErrorCode()), Message: e.GetErrorMessage()}
	var err error
	switch m := e.(type) {
	case *message.ServerError, *message.ProtocolError, *message.AuthenticationError, *message.Overloaded, *message.IsBootstrapping,
		*message.TruncateError, *message.SyntaxError, *message.Unauthorized, *message.Invalid, *message.ConfigError:
	case *message.Unavailable:
		o.Consistency, o.Required, o.Alive = uint16(m.Consistency), m.Required, m.Alive
	case *message.ReadTimeout:
		o.Consistency, o.Received, o.BlockFor, o.DataPresent = uint16(m.Consistency), m.Received, m.BlockFor, m.DataPresent
	case *message.WriteTimeout:
		o.Consistency, o.Received, o.BlockFor, o.WriteType = uint16(m.Consistency), m.Received, m.BlockFor, string(m.WriteType)
		if ver.HasContentions() && o.WriteType == "CAS" {
			o.Contentions = m.Contentions
		}
	case *message.ReadFailure:
		o.Consistency, o.Received, o.BlockFor, o.DataPresent = uint16(m.Consistency), m.Received, m.BlockFor, m.DataPresent
		o.NumFailures, o.Reasons, err = reasonsFrom(ver, m.NumFailures, m.FailureReasons)
	case *message.WriteFailure:
		o.Consistency, o.Received, o.BlockFor, o.WriteType = uint16(m.Consistency), m.Received, m.BlockFor, string(m.WriteType)
		o.NumFailures, o.Reasons, err = reasonsFrom(ver, m.NumFailures, m.FailureReasons)
	case *message.FunctionFailure:
		o.Keyspace, o.Function, o.Args = m.Keyspace, m.Function, append([]string{}, m.Arguments...)
	case *message.AlreadyExists:
		o.Keyspace, o.Table = m.Keyspace, m.Table
	case *message.Unprepared:
		o.ID = append([]byte{}, m.Id...)
	default:
		return nil, fmt.Errorf("unknown library error %T", e)
	}
	return o, err
}

// knownFields is what FromLib reads of each library struct. FieldGuard compares it with the
// struct definitions compiled in, so that a field added to the library later is reported (as an
// observation the comparator is blind to) instead of being silently ignored.
var knownFields = map[reflect.Type][]string{
	reflect.TypeOf(frame.Frame{}):                     {"Header", "Body"},
	reflect.TypeOf(frame.Header{}):                    {"IsResponse", "Version", "Flags", "StreamId", "OpCode", "BodyLength"},
	reflect.TypeOf(frame.Body{}):                      {"TracingId", "CustomPayload", "Warnings", "Message"},
	reflect.TypeOf(message.Startup{}):                 {"Options"},
	reflect.TypeOf(message.Authenticate{}):            {"Authenticator"},
	reflect.TypeOf(message.AuthResponse{}):            {"Token"},
	reflect.TypeOf(message.AuthChallenge{}):           {"Token"},
	reflect.TypeOf(message.AuthSuccess{}):             {"Token"},
	reflect.TypeOf(message.Supported{}):               {"Options"},
	reflect.TypeOf(message.Register{}):                {"EventTypes"},
	reflect.TypeOf(message.Query{}):                   {"Query", "Options"},
	reflect.TypeOf(message.QueryOptions{}):            {"Consistency", "PositionalValues", "NamedValues", "SkipMetadata", "PageSize", "PageSizeInBytes", "PagingState", "SerialConsistency", "DefaultTimestamp", "Keyspace", "NowInSeconds", "ContinuousPagingOptions"},
	reflect.TypeOf(message.ContinuousPagingOptions{}): {"MaxPages", "PagesPerSecond", "NextPages"},
	reflect.TypeOf(message.Prepare{}):                 {"Query", "Keyspace"},
	reflect.TypeOf(message.Execute{}):                 {"QueryId", "ResultMetadataId", "Options"},
	reflect.TypeOf(message.Batch{}):                   {"Type", "Children", "Consistency", "SerialConsistency", "DefaultTimestamp", "Keyspace", "NowInSeconds"},
	reflect.TypeOf(message.BatchChild{}):              {"Query", "Id", "Values"},
	reflect.TypeOf(message.Revise{}):                  {"RevisionType", "TargetStreamId", "NextPages"},
	reflect.TypeOf(message.RowsResult{}):              {"Metadata", "Data"},
	reflect.TypeOf(message.RowsMetadata{}):            {"ColumnCount", "PagingState", "NewResultMetadataId", "ContinuousPageNumber", "LastContinuousPage", "Columns"},
	reflect.TypeOf(message.VariablesMetadata{}):       {"PkIndices", "Columns"},
	reflect.TypeOf(message.ColumnMetadata{}):          {"Keyspace", "Table", "Name", "Index", "Type"},
	reflect.TypeOf(message.SetKeyspaceResult{}):       {"Keyspace"},
	reflect.TypeOf(message.PreparedResult{}):          {"PreparedQueryId", "ResultMetadataId", "VariablesMetadata", "ResultMetadata"},
	reflect.TypeOf(message.SchemaChangeResult{}):      {"ChangeType", "Target", "Keyspace", "Object", "Arguments"},
	reflect.TypeOf(message.SchemaChangeEvent{}):       {"ChangeType", "Target", "Keyspace", "Object", "Arguments"},
	reflect.TypeOf(message.StatusChangeEvent{}):       {"ChangeType", "Address"},
	reflect.TypeOf(message.TopologyChangeEvent{}):     {"ChangeType", "Address"},
	reflect.TypeOf(message.Unavailable{}):             {"ErrorMessage", "Consistency", "Required", "Alive"},
	reflect.TypeOf(message.ReadTimeout{}):             {"ErrorMessage", "Consistency", "Received", "BlockFor", "DataPresent"},
	reflect.TypeOf(message.WriteTimeout{}):            {"ErrorMessage", "Consistency", "Received", "BlockFor", "WriteType", "Contentions"},
	reflect.TypeOf(message.ReadFailure{}):             {"ErrorMessage", "Consistency", "Received", "BlockFor", "NumFailures", "FailureReasons", "DataPresent"},
	reflect.TypeOf(message.WriteFailure{}):            {"ErrorMessage", "Consistency", "Received", "BlockFor", "NumFailures", "FailureReasons", "WriteType"},
	reflect.TypeOf(message.FunctionFailure{}):         {"ErrorMessage", "Keyspace", "Function", "Arguments"},
	reflect.TypeOf(message.AlreadyExists{}):           {"ErrorMessage", "Keyspace", "Table"},
	reflect.TypeOf(message.Unprepared{}):              {"ErrorMessage", "Id"},
	reflect.TypeOf(primitive.Value{}):                 {"Type", "Contents"},
	reflect.TypeOf(primitive.Inet{}):                  {"Addr", "Port"},
	reflect.TypeOf(primitive.FailureReason{}):         {"Endpoint", "Code"},
	reflect.TypeOf(datatype.List{}):                   {"ElementType"},
	reflect.TypeOf(datatype.Set{}):                    {"ElementType"},
	reflect.TypeOf(datatype.Map{}):                    {"KeyType", "ValueType"},
	reflect.TypeOf(datatype.Tuple{}):                  {"FieldTypes"},
	reflect.TypeOf(datatype.UserDefined{}):            {"Keyspace", "Name", "FieldNames", "FieldTypes"},
	reflect.TypeOf(datatype.Custom{}):                 {"ClassName"},
}

// FieldGuard returns a description of every library struct whose field set differs from what
// FromLib reads.
func FieldGuard() []string {
	var out []string
	for t, want := range knownFields {
		var have []string
		for i := 0; i < t.NumField(); i++ {
			have = append(have, t.Field(i).Name)
		}
		w := append([]string{}, want...)
		sort.Strings(w)
		sort.Strings(have)
		if !reflect.DeepEqual(w, have) {
			out = append(out, fmt.Sprintf("%v: comparator reads %v, library declares %v", t, w, have))
		}
	}
	sort.Strings(out)
	return out
}
