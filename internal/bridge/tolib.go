// Package bridge converts between abstract frames (internal/ref) and the library's objects.
// ToLib builds the library object that denotes an abstract frame, optionally exercising the
// wire-indistinguishable variants (nil vs empty collections, IPv4 in 4 or 16 bytes, nil options
// pointers, garbage in computed fields); FromLib reads a library object back into the abstract
// normal form. FromLib is this harness's statement of what a library object *means*; it never calls
// the library's own Flags()/EncodedLength helpers.
package bridge

import (
	"net"

	"github.com/datastax/go-cassandra-native-protocol/datatype"
	"github.com/datastax/go-cassandra-native-protocol/frame"
	"github.com/datastax/go-cassandra-native-protocol/message"
	"github.com/datastax/go-cassandra-native-protocol/primitive"

	"verif/internal/mon"
	"verif/internal/ref"
)

// Variant chooses among wire-indistinguishable library representations. nil = canonical.
type Variant struct{ r *mon.Rand }

func NewVariant(r *mon.Rand) *Variant { return &Variant{r: r} }

func (v *Variant) flip() bool { return v != nil && v.r != nil && v.r.Bool() }
func (v *Variant) intn(n int) int {
	if v == nil || v.r == nil {
		return 0
	}
	return v.r.Intn(n)
}

func (v *Variant) strs(l []string) []string {
	if len(l) == 0 {
		if v.flip() {
			return []string{}
		}
		return nil
	}
	return append([]string(nil), l...)
}

// bytesNE: a []byte whose nil-ness is not carried by the wire ([short bytes]).
func (v *Variant) bytesNE(b []byte) []byte {
	if len(b) == 0 {
		if v.flip() {
			return []byte{}
		}
		return nil
	}
	return append([]byte(nil), b...)
}

func bytesOf(b ref.Bytes) []byte {
	if b.Null {
		return nil
	}
	if b.B == nil {
		return []byte{}
	}
	return append([]byte{}, b.B...)
}

func (v *Variant) ip(b []byte) net.IP {
	if len(b) == 4 && v.flip() {
		return net.IPv4(b[0], b[1], b[2], b[3]) // 16-byte form of an IPv4 address
	}
	return net.IP(append([]byte(nil), b...))
}

func (v *Variant) value(x ref.Value) *primitive.Value {
	switch x.Kind {
	case -1:
		if v.flip() {
			return &primitive.Value{Type: primitive.ValueTypeRegular, Contents: nil} // documented: nil contents = NULL
		}
		return primitive.NewNullValue()
	case -2:
		return primitive.NewUnsetValue()
	}
	c := x.B
	if c == nil {
		c = []byte{}
	}
	return primitive.NewValue(append([]byte{}, c...))
}

// ToLib builds the library frame for f. compressed adds the COMPRESSED header flag.
func ToLib(f *ref.Frame, compressed bool, v *Variant) *frame.Frame {
	h := &frame.Header{
		IsResponse: f.Response,
		Version:    primitive.ProtocolVersion(f.Version),
		Flags:      primitive.HeaderFlag(f.Flags()),
		StreamId:   f.Stream,
		OpCode:     primitive.OpCode(f.Msg.Opcode()),
	}
	if compressed {
		h.Flags |= primitive.HeaderFlagCompressed
	}
	if v.flip() {
		h.BodyLength = int32(v.intn(1 << 20)) // "this field is not read when encoding"
	}
	b := &frame.Body{Message: MsgToLib(f.Version, f.Msg, v)}
	if f.TracingID != nil {
		id := primitive.UUID(*f.TracingID)
		b.TracingId = &id
	}
	if f.Payload != nil {
		b.CustomPayload = map[string][]byte{}
		for _, kv := range *f.Payload {
			b.CustomPayload[kv.K] = bytesOf(kv.V)
		}
	} else if v.flip() {
		b.CustomPayload = map[string][]byte{}
	}
	if f.Warnings != nil {
		b.Warnings = append([]string{}, (*f.Warnings)...)
		if len(b.Warnings) == 0 && v.flip() {
			b.Warnings = nil
		}
	}
	return &frame.Frame{Header: h, Body: b}
}

func cl(p *uint16) *primitive.ConsistencyLevel {
	if p == nil {
		return nil
	}
	c := primitive.ConsistencyLevel(*p)
	return &c
}

func (v *Variant) queryOptions(ver ref.Version, q *ref.QueryOptions) *message.QueryOptions {
	if q.Consistency == 0 && !q.HasValues && !q.SkipMetadata && q.PageSize == nil && q.PagingState == nil &&
		q.SerialConsistency == nil && q.Timestamp == nil && q.Keyspace == nil && q.NowInSeconds == nil &&
		q.ContinuousPaging == nil && v.flip() {
		return nil // nil options = defaults
	}
	o := &message.QueryOptions{Consistency: primitive.ConsistencyLevel(q.Consistency), SkipMetadata: q.SkipMetadata}
	if q.HasValues {
		if q.Named {
			o.NamedValues = map[string]*primitive.Value{}
			for _, nv := range q.NamedValues {
				o.NamedValues[nv.Name] = v.value(nv.Value)
			}
		} else {
			o.PositionalValues = []*primitive.Value{}
			for _, pv := range q.Positional {
				o.PositionalValues = append(o.PositionalValues, v.value(pv))
			}
		}
	}
	if q.PageSize != nil {
		o.PageSize = *q.PageSize
		o.PageSizeInBytes = q.PageSizeInBytes
	} else {
		switch v.intn(3) {
		case 1:
			o.PageSize = -int32(v.intn(1000)) - 1 // "no paging"
		case 2:
			o.PageSizeInBytes = true // meaningless without a page size
		}
	}
	if q.PagingState != nil {
		o.PagingState = bytesOf(*q.PagingState)
		if o.PagingState == nil {
			o.PagingState = []byte{}
		}
	}
	o.SerialConsistency = cl(q.SerialConsistency)
	if q.Timestamp != nil {
		t := *q.Timestamp
		o.DefaultTimestamp = &t
	}
	if q.Keyspace != nil {
		o.Keyspace = *q.Keyspace
	}
	if q.NowInSeconds != nil {
		n := *q.NowInSeconds
		o.NowInSeconds = &n
	}
	if q.ContinuousPaging != nil {
		o.ContinuousPagingOptions = &message.ContinuousPagingOptions{
			MaxPages: q.ContinuousPaging.MaxPages, PagesPerSecond: q.ContinuousPaging.PagesPerSecond, NextPages: q.ContinuousPaging.NextPages}
		if !ver.HasNextPages() {
			o.ContinuousPagingOptions.NextPages = 0
		}
	}
	return o
}

func TypeToLib(t *ref.Type) datatype.DataType {
	switch t.Code {
	case ref.TCustom:
		return datatype.NewCustom(t.Custom)
	case ref.TList:
		return datatype.NewList(TypeToLib(&t.Elems[0]))
	case ref.TSet:
		return datatype.NewSet(TypeToLib(&t.Elems[0]))
	case ref.TMap:
		return datatype.NewMap(TypeToLib(&t.Elems[0]), TypeToLib(&t.Elems[1]))
	case ref.TTuple:
		fs := make([]datatype.DataType, len(t.Elems))
		for i := range t.Elems {
			fs[i] = TypeToLib(&t.Elems[i])
		}
		return datatype.NewTuple(fs...)
	case ref.TUDT:
		fs := make([]datatype.DataType, len(t.Elems))
		for i := range t.Elems {
			fs[i] = TypeToLib(&t.Elems[i])
		}
		names := append([]string{}, t.Fields...)
		u, err := datatype.NewUserDefined(t.Keyspace, t.Name, names, fs)
		if err != nil {
			panic(err)
		}
		return u
	}
	if p := primitiveType(primitive.DataTypeCode(t.Code)); p != nil {
		return p
	}
	panic("bridge: no library type for code")
}

func primitiveType(c primitive.DataTypeCode) datatype.DataType {
	for _, p := range []*datatype.PrimitiveType{datatype.Ascii, datatype.Bigint, datatype.Blob, datatype.Boolean, datatype.Counter,
		datatype.Date, datatype.Decimal, datatype.Double, datatype.Duration, datatype.Float, datatype.Inet, datatype.Int,
		datatype.Smallint, datatype.Time, datatype.Timestamp, datatype.Timeuuid, datatype.Tinyint, datatype.Uuid,
		datatype.Varchar, datatype.Varint} {
		if p.Code() == c {
			return p
		}
	}
	return nil
}

func (v *Variant) columns(cols []ref.ColumnSpec) []*message.ColumnMetadata {
	if len(cols) == 0 {
		if v.flip() {
			return []*message.ColumnMetadata{}
		}
		return nil
	}
	out := make([]*message.ColumnMetadata, len(cols))
	for i := range cols {
		out[i] = &message.ColumnMetadata{Keyspace: cols[i].Keyspace, Table: cols[i].Table, Name: cols[i].Name,
			Index: int32(v.intn(7)), Type: TypeToLib(&cols[i].Type)}
	}
	return out
}

func (v *Variant) rowsMetadata(m *ref.RowsMetadata, allowNil bool) *message.RowsMetadata {
	if allowNil && m.ColumnCount == 0 && m.PagingState == nil && m.NewMetadataID == nil && m.ContinuousPage == nil &&
		len(m.Columns) == 0 && v.flip() {
		return nil
	}
	o := &message.RowsMetadata{ColumnCount: m.ColumnCount, Columns: v.columns(m.Columns)}
	if m.PagingState != nil {
		o.PagingState = bytesOf(*m.PagingState)
		if o.PagingState == nil {
			o.PagingState = []byte{}
		}
	}
	if m.NewMetadataID != nil {
		o.NewResultMetadataId = append([]byte{}, (*m.NewMetadataID)...)
	}
	if m.ContinuousPage != nil {
		o.ContinuousPageNumber = *m.ContinuousPage
		o.LastContinuousPage = m.LastPage
	} else {
		switch v.intn(3) {
		case 1:
			o.ContinuousPageNumber = -int32(v.intn(9)) - 1
		case 2:
			o.LastContinuousPage = true // meaningless without a page number
		}
	}
	return o
}

func (v *Variant) inet(a ref.Inet) *primitive.Inet {
	return &primitive.Inet{Addr: v.ip(a.IP), Port: a.Port}
}

// MsgToLib builds the library message for m.
func MsgToLib(ver ref.Version, m ref.Msg, v *Variant) message.Message {
	switch m := m.(type) {
	case *ref.Startup:
		o := map[string]string{}
		for _, kv := range m.Options {
			o[kv.K] = kv.V
		}
		if len(o) == 0 && v.flip() {
			o = nil
		}
		return &message.Startup{Options: o}
	case *ref.Options:
		return &message.Options{}
	case *ref.Ready:
		return &message.Ready{}
	case *ref.Authenticate:
		return &message.Authenticate{Authenticator: m.Authenticator}
	case *ref.AuthResponse:
		return &message.AuthResponse{Token: bytesOf(m.Token)}
	case *ref.AuthChallenge:
		return &message.AuthChallenge{Token: bytesOf(m.Token)}
	case *ref.AuthSuccess:
		return &message.AuthSuccess{Token: bytesOf(m.Token)}
	case *ref.Supported:
		o := map[string][]string{}
		for _, kl := range m.Options {
			o[kl.K] = v.strs(kl.V)
		}
		if len(o) == 0 && v.flip() {
			o = nil
		}
		return &message.Supported{Options: o}
	case *ref.Register:
		ev := make([]primitive.EventType, len(m.Events))
		for i, e := range m.Events {
			ev[i] = primitive.EventType(e)
		}
		return &message.Register{EventTypes: ev}
	case *ref.Query:
		return &message.Query{Query: m.Query, Options: v.queryOptions(ver, &m.Opts)}
	case *ref.Prepare:
		p := &message.Prepare{Query: m.Query}
		if m.Keyspace != nil {
			p.Keyspace = *m.Keyspace
		}
		return p
	case *ref.Execute:
		return &message.Execute{QueryId: v.bytesNE(m.ID), ResultMetadataId: v.bytesNE(m.ResultMetadataID), Options: v.queryOptions(ver, &m.Opts)}
	case *ref.Batch:
		b := &message.Batch{Type: primitive.BatchType(m.Type), Consistency: primitive.ConsistencyLevel(m.Consistency),
			SerialConsistency: cl(m.SerialConsistency)}
		if len(m.Children) > 0 || v.flip() {
			b.Children = []*message.BatchChild{}
		}
		for _, c := range m.Children {
			lc := &message.BatchChild{}
			if c.IsID {
				lc.Id = append([]byte{}, c.ID...)
			} else {
				lc.Query = c.Query
			}
			if len(c.Values) > 0 || v.flip() {
				lc.Values = []*primitive.Value{}
			}
			for _, pv := range c.Values {
				lc.Values = append(lc.Values, v.value(pv))
			}
			b.Children = append(b.Children, lc)
		}
		if m.Timestamp != nil {
			t := *m.Timestamp
			b.DefaultTimestamp = &t
		}
		if m.Keyspace != nil {
			b.Keyspace = *m.Keyspace
		}
		if m.NowInSeconds != nil {
			n := *m.NowInSeconds
			b.NowInSeconds = &n
		}
		return b
	case *ref.Revise:
		return &message.Revise{RevisionType: primitive.DseRevisionType(m.Type), TargetStreamId: m.Target, NextPages: m.NextPages}
	case *ref.ResultVoid:
		return &message.VoidResult{}
	case *ref.ResultRows:
		r := &message.RowsResult{Metadata: v.rowsMetadata(&m.Meta, false)}
		if len(m.Rows) > 0 || v.flip() {
			r.Data = message.RowSet{}
		}
		for _, row := range m.Rows {
			lr := make(message.Row, len(row))
			for j, c := range row {
				lr[j] = bytesOf(c)
			}
			r.Data = append(r.Data, lr)
		}
		return r
	case *ref.ResultSetKeyspace:
		return &message.SetKeyspaceResult{Keyspace: m.Keyspace}
	case *ref.ResultPrepared:
		p := &message.PreparedResult{PreparedQueryId: v.bytesNE(m.ID), ResultMetadataId: v.bytesNE(m.ResultMetadataID),
			ResultMetadata: v.rowsMetadata(&m.Result, true)}
		if len(m.Vars.PkIndices) == 0 && len(m.Vars.Columns) == 0 && v.flip() {
			p.VariablesMetadata = nil
		} else {
			vm := &message.VariablesMetadata{Columns: v.columns(m.Vars.Columns)}
			if len(m.Vars.PkIndices) > 0 {
				vm.PkIndices = append([]uint16{}, m.Vars.PkIndices...)
			} else if v.flip() {
				vm.PkIndices = []uint16{}
			}
			p.VariablesMetadata = vm
		}
		return p
	case *ref.SchemaChange:
		if m.Event {
			return &message.SchemaChangeEvent{ChangeType: primitive.SchemaChangeType(m.ChangeType), Target: primitive.SchemaChangeTarget(m.Target),
				Keyspace: m.Keyspace, Object: m.Object, Arguments: v.strs(m.Args)}
		}
		return &message.SchemaChangeResult{ChangeType: primitive.SchemaChangeType(m.ChangeType), Target: primitive.SchemaChangeTarget(m.Target),
			Keyspace: m.Keyspace, Object: m.Object, Arguments: v.strs(m.Args)}
	case *ref.StatusChange:
		return &message.StatusChangeEvent{ChangeType: primitive.StatusChangeType(m.ChangeType), Address: v.inet(m.Addr)}
	case *ref.TopologyChange:
		return &message.TopologyChangeEvent{ChangeType: primitive.TopologyChangeType(m.ChangeType), Address: v.inet(m.Addr)}
	case *ref.Error:
		return v.errorToLib(ver, m)
	}
	panic("bridge: unknown abstract message")
}

func (v *Variant) reasons(ver ref.Version, m *ref.Error) (int32, []*primitive.FailureReason) {
	if !ver.HasReasonMap() {
		return m.NumFailures, nil
	}
	var rs []*primitive.FailureReason
	if len(m.Reasons) > 0 || v.flip() {
		rs = []*primitive.FailureReason{}
	}
	for _, r := range m.Reasons {
		rs = append(rs, &primitive.FailureReason{Endpoint: v.ip(r.IP), Code: primitive.FailureCode(r.Code)})
	}
	return 0, rs
}

func (v *Variant) errorToLib(ver ref.Version, m *ref.Error) message.Message {
	c := primitive.ConsistencyLevel(m.Consistency)
	switch m.Code {
	case ref.ErrServer:
		return &message.ServerError{ErrorMessage: m.Message}
	case ref.ErrProtocol:
		return &message.ProtocolError{ErrorMessage: m.Message}
	case ref.ErrAuth:
		return &message.AuthenticationError{ErrorMessage: m.Message}
	case ref.ErrOverloaded:
		return &message.Overloaded{ErrorMessage: m.Message}
	case ref.ErrBootstrapping:
		return &message.IsBootstrapping{ErrorMessage: m.Message}
	case ref.ErrTruncate:
		return &message.TruncateError{ErrorMessage: m.Message}
	case ref.ErrSyntax:
		return &message.SyntaxError{ErrorMessage: m.Message}
	case ref.ErrUnauthorized:
		return &message.Unauthorized{ErrorMessage: m.Message}
	case ref.ErrInvalid:
		return &message.Invalid{ErrorMessage: m.Message}
	case ref.ErrConfig:
		return &message.ConfigError{ErrorMessage: m.Message}
	case ref.ErrUnavailable:
		return &message.Unavailable{ErrorMessage: m.Message, Consistency: c, Required: m.Required, Alive: m.Alive}
	case ref.ErrReadTimeout:
		return &message.ReadTimeout{ErrorMessage: m.Message, Consistency: c, Received: m.Received, BlockFor: m.BlockFor, DataPresent: m.DataPresent}
	case ref.ErrWriteTimeout:
		return &message.WriteTimeout{ErrorMessage: m.Message, Consistency: c, Received: m.Received, BlockFor: m.BlockFor,
			WriteType: primitive.WriteType(m.WriteType), Contentions: m.Contentions}
	case ref.ErrReadFailure:
		n, rs := v.reasons(ver, m)
		return &message.ReadFailure{ErrorMessage: m.Message, Consistency: c, Received: m.Received, BlockFor: m.BlockFor,
			NumFailures: n, FailureReasons: rs, DataPresent: m.DataPresent}
	case ref.ErrWriteFailure:
		n, rs := v.reasons(ver, m)
		return &message.WriteFailure{ErrorMessage: m.Message, Consistency: c, Received: m.Received, BlockFor: m.BlockFor,
			NumFailures: n, FailureReasons: rs, WriteType: primitive.WriteType(m.WriteType)}
	case ref.ErrFunctionFailure:
		return &message.FunctionFailure{ErrorMessage: m.Message, Keyspace: m.Keyspace, Function: m.Function, Arguments: v.strs(m.Args)}
	case ref.ErrAlreadyExists:
		return &message.AlreadyExists{ErrorMessage: m.Message, Keyspace: m.Keyspace, Table: m.Table}
	case ref.ErrUnprepared:
		return &message.Unprepared{ErrorMessage: m.Message, Id: v.bytesNE(m.ID)}
	}
	panic("bridge: unknown error code")
}
