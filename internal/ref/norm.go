package ref

import (
	"encoding/json"
	"reflect"
	"sort"
)

// Norm puts an abstract frame into its normal form, in place: empty slices become nil and the
// entries of wire maps ([string map], [string multimap], [bytes map], named values) are sorted by
// key, because a map has no order on the wire that a Go map could preserve.
func Norm(f *Frame) *Frame {
	if f == nil {
		return nil
	}
	norm(reflect.ValueOf(f).Elem())
	return f
}

func NormMsg(m Msg) Msg {
	if m == nil {
		return nil
	}
	norm(reflect.ValueOf(m).Elem())
	return m
}

func norm(v reflect.Value) {
	switch v.Kind() {
	case reflect.Ptr, reflect.Interface:
		if !v.IsNil() {
			norm(v.Elem())
		}
	case reflect.Struct:
		for i := 0; i < v.NumField(); i++ {
			norm(v.Field(i))
		}
	case reflect.Slice:
		if v.Len() == 0 {
			if v.CanSet() {
				v.Set(reflect.Zero(v.Type()))
			}
			return
		}
		if v.Type().Elem().Kind() == reflect.Uint8 {
			return
		}
		for i := 0; i < v.Len(); i++ {
			norm(v.Index(i))
		}
		switch s := v.Interface().(type) {
		case []KV:
			sort.SliceStable(s, func(i, j int) bool { return s[i].K < s[j].K })
		case []KBytes:
			sort.SliceStable(s, func(i, j int) bool { return s[i].K < s[j].K })
		case []KList:
			sort.SliceStable(s, func(i, j int) bool { return s[i].K < s[j].K })
		case []NamedValue:
			sort.SliceStable(s, func(i, j int) bool { return s[i].Name < s[j].Name })
		}
	case reflect.Array:
		// [16]byte: nothing
	}
}

// Equal compares two frames in normal form.
func Equal(a, b *Frame) bool { return reflect.DeepEqual(a, b) }

// JSON renders a frame for replay files and samples.
func JSON(f *Frame) json.RawMessage {
	type wrap struct {
		Kind string `json:"kind"`
		*Frame
	}
	k := ""
	if f != nil && f.Msg != nil {
		k = f.Msg.Kind()
	}
	b, err := json.Marshal(wrap{Kind: k, Frame: f})
	if err != nil {
		b, _ = json.Marshal(err.Error())
	}
	return b
}

// Diff returns a short description of the first difference between two normal-form frames.
func Diff(a, b *Frame) string {
	ja, jb := string(JSON(a)), string(JSON(b))
	if ja == jb {
		if reflect.DeepEqual(a, b) {
			return ""
		}
		return "differ only in nil-ness not visible in JSON"
	}
	i := 0
	for i < len(ja) && i < len(jb) && ja[i] == jb[i] {
		i++
	}
	lo := i - 60
	if lo < 0 {
		lo = 0
	}
	ha, hb := i+80, i+80
	if ha > len(ja) {
		ha = len(ja)
	}
	if hb > len(jb) {
		hb = len(jb)
	}
	return "want …" + ja[lo:ha] + "… got …" + jb[lo:hb] + "…"
}
