package ref

import (
	"encoding/binary"
	"errors"
	"fmt"
)

// Strict decoder: every byte must be accounted for, every flag bit must be defined for the version,
// every count must be non-negative and backed by bytes.

type r struct {
	b       []byte
	pos     int
	err     error
	lenient bool // structure only: undefined flag bits, enum values and trailing bytes are tolerated
}

// invalid reports a value that is well-formed structurally but not defined by the specification.
func (r *r) invalid(format string, a ...interface{}) {
	if !r.lenient {
		r.fail(format, a...)
	}
}

func (r *r) fail(format string, a ...interface{}) {
	if r.err == nil {
		r.err = fmt.Errorf("at offset %d: %s", r.pos, fmt.Sprintf(format, a...))
	}
}
func (r *r) take(n int) []byte {
	if r.err != nil {
		return nil
	}
	if n < 0 || r.pos+n > len(r.b) {
		r.fail("need %d bytes, have %d", n, len(r.b)-r.pos)
		return nil
	}
	s := r.b[r.pos : r.pos+n]
	r.pos += n
	return s
}
func (r *r) byte() byte {
	s := r.take(1)
	if s == nil {
		return 0
	}
	return s[0]
}
func (r *r) short() uint16 {
	s := r.take(2)
	if s == nil {
		return 0
	}
	return binary.BigEndian.Uint16(s)
}
func (r *r) int() int32 {
	s := r.take(4)
	if s == nil {
		return 0
	}
	return int32(binary.BigEndian.Uint32(s))
}
func (r *r) long() int64 {
	s := r.take(8)
	if s == nil {
		return 0
	}
	return int64(binary.BigEndian.Uint64(s))
}
func (r *r) str() string { return string(r.take(int(r.short()))) }
func (r *r) lstr() string {
	n := r.int()
	if n < 0 {
		r.fail("negative [long string] length %d", n)
		return ""
	}
	return string(r.take(int(n)))
}
func (r *r) sbytes() []byte { return clone(r.take(int(r.short()))) }
func (r *r) strlist() []string {
	n := int(r.short())
	var l []string
	for i := 0; i < n && r.err == nil; i++ {
		l = append(l, r.str())
	}
	return l
}
func (r *r) bytes() Bytes {
	n := r.int()
	if n < 0 {
		if n != -1 {
			r.fail("[bytes] length %d", n)
		}
		return NullBytes
	}
	return B(clone(r.take(int(n))))
}
func (r *r) value(v Version) Value {
	n := r.int()
	switch {
	case n >= 0:
		return Value{Kind: 0, B: clone(r.take(int(n)))}
	case n == -1:
		return Value{Kind: -1}
	case n == -2:
		if !v.HasUnset() {
			r.invalid("unset [value] not defined for %v", v)
		}
		return Value{Kind: -2}
	}
	r.fail("[value] length %d", n)
	return Value{}
}
func (r *r) inetaddr() []byte {
	n := r.byte()
	if n != 4 && n != 16 {
		r.fail("[inetaddr] size %d", n)
		return nil
	}
	return clone(r.take(int(n)))
}
func (r *r) inet() Inet { return Inet{IP: r.inetaddr(), Port: r.int()} }

func clone(b []byte) []byte {
	if b == nil {
		return nil
	}
	c := make([]byte, len(b))
	copy(c, b)
	return c
}

// Header is a decoded frame header.
type Header struct {
	Version  Version
	Response bool
	Flags    byte
	Stream   int16
	Opcode   byte
	Length   int32
}

// DecodeHeader parses and validates a header per §2: supported version, opcode defined for the
// version, direction bit consistent with the opcode.
func DecodeHeader(b []byte) (Header, int, error) {
	var h Header
	if len(b) < 1 {
		return h, 0, errors.New("empty input")
	}
	h.Response = b[0]&0x80 != 0
	h.Version = Version(b[0] & 0x7f)
	if !h.Version.Supported() {
		return h, 0, fmt.Errorf("unsupported version %#x", b[0]&0x7f)
	}
	n := h.Version.HeaderLen()
	if len(b) < n {
		return h, 0, fmt.Errorf("short header: %d < %d", len(b), n)
	}
	h.Flags = b[1]
	if h.Version == V2 {
		h.Stream = int16(int8(b[2]))
		h.Opcode = b[3]
		h.Length = int32(binary.BigEndian.Uint32(b[4:8]))
	} else {
		h.Stream = int16(binary.BigEndian.Uint16(b[2:4]))
		h.Opcode = b[4]
		h.Length = int32(binary.BigEndian.Uint32(b[5:9]))
	}
	dir := OpcodeDirection(h.Version, h.Opcode)
	if dir < 0 {
		return h, n, fmt.Errorf("opcode %#x not defined for %v", h.Opcode, h.Version)
	}
	if (dir == 1) != h.Response {
		return h, n, fmt.Errorf("opcode %#x with direction bit %v", h.Opcode, h.Response)
	}
	if h.Length < 0 {
		return h, n, fmt.Errorf("negative body length %d", h.Length)
	}
	return h, n, nil
}

// DecodeFrame parses exactly one uncompressed frame occupying all of b. decompress is used when the
// COMPRESSED flag is set (nil: an error). It returns the abstract frame, the raw header, and the
// number of body bytes before decompression.
func DecodeFrame(b []byte, decompress func([]byte) ([]byte, error)) (*Frame, Header, error) {
	h, n, err := DecodeHeader(b)
	if err != nil {
		return nil, h, err
	}
	if len(b)-n != int(h.Length) {
		return nil, h, fmt.Errorf("declared body length %d, actual %d", h.Length, len(b)-n)
	}
	body := b[n:]
	if h.Flags&FlagCompressed != 0 {
		if decompress == nil {
			return nil, h, errors.New("COMPRESSED flag set, no decompressor")
		}
		if body, err = decompress(body); err != nil {
			return nil, h, fmt.Errorf("decompress: %w", err)
		}
	}
	f, err := DecodeBody(h, body)
	return f, h, err
}

// DecodeBody parses an uncompressed body strictly.
func DecodeBody(h Header, body []byte) (*Frame, error) { return decodeBody(h, body, false) }

// WellStructured reports whether b is one uncompressed frame whose lengths and counts are all
// consistent with the bytes present, tolerating undefined flag bits and enum values and trailing
// bytes. It never allocates more than the input size; checks use it to discard mutants whose
// length fields were damaged before handing them to the library.
func WellStructured(b []byte) bool {
	h, n, err := DecodeHeader(b)
	if err != nil || h.Flags&FlagCompressed != 0 || len(b)-n < int(h.Length) {
		return false
	}
	_, err = decodeBody(h, b[n:n+int(h.Length)], true)
	return err == nil
}

func decodeBody(h Header, body []byte, lenient bool) (*Frame, error) {
	v := h.Version
	f := &Frame{Version: v, Response: h.Response, Stream: h.Stream}
	x := &r{b: body, lenient: lenient}
	if !lenient && h.Flags&^(FlagCompressed|FlagTracing|FlagCustomPayload|FlagWarning) != 0 {
		return nil, fmt.Errorf("header flags %#x: bits not defined (no beta version exists)", h.Flags)
	}
	if !lenient && h.Flags&(FlagCustomPayload|FlagWarning) != 0 && !v.HasPayloadAndWarnings() {
		return nil, fmt.Errorf("header flags %#x not defined for %v", h.Flags, v)
	}
	if h.Flags&FlagTracing != 0 {
		if h.Response {
			var id [16]byte
			copy(id[:], x.take(16))
			f.TracingID = &id
		} else {
			f.TraceRequested = true
		}
	}
	if h.Flags&FlagWarning != 0 {
		if !h.Response {
			if !lenient {
				return nil, errors.New("WARNING flag on a request")
			}
		} else {
			l := x.strlist()
			f.Warnings = &l
		}
	}
	if h.Flags&FlagCustomPayload != 0 {
		n := int(x.short())
		l := []KBytes{}
		for i := 0; i < n && x.err == nil; i++ {
			l = append(l, KBytes{K: x.str(), V: x.bytes()})
		}
		f.Payload = &l
	}
	if x.err == nil {
		f.Msg = decodeMsg(x, v, h.Opcode)
	}
	if x.err == nil && x.pos != len(body) {
		x.invalid("%d trailing bytes after the message", len(body)-x.pos)
	}
	if x.err != nil {
		return nil, x.err
	}
	return f, nil
}

func decodeMsg(x *r, v Version, op byte) Msg {
	switch op {
	case OpStartup:
		n := int(x.short())
		m := &Startup{}
		for i := 0; i < n && x.err == nil; i++ {
			m.Options = append(m.Options, KV{K: x.str(), V: x.str()})
		}
		return m
	case OpOptions:
		return &Options{}
	case OpReady:
		return &Ready{}
	case OpAuthenticate:
		return &Authenticate{Authenticator: x.str()}
	case OpAuthResponse:
		return &AuthResponse{Token: x.bytes()}
	case OpAuthChallenge:
		return &AuthChallenge{Token: x.bytes()}
	case OpAuthSuccess:
		return &AuthSuccess{Token: x.bytes()}
	case OpSupported:
		n := int(x.short())
		m := &Supported{}
		for i := 0; i < n && x.err == nil; i++ {
			m.Options = append(m.Options, KList{K: x.str(), V: x.strlist()})
		}
		return m
	case OpRegister:
		return &Register{Events: x.strlist()}
	case OpQuery:
		m := &Query{Query: x.lstr()}
		decodeQueryOptions(x, v, &m.Opts)
		return m
	case OpPrepare:
		m := &Prepare{Query: x.lstr()}
		if v.HasPrepareFlags() {
			fl := uint32(x.int())
			if fl&^0x01 != 0 {
				x.invalid("PREPARE flags %#x", fl)
			}
			if fl&0x01 != 0 {
				s := x.str()
				m.Keyspace = &s
			}
		}
		return m
	case OpExecute:
		m := &Execute{ID: x.sbytes()}
		if v.HasResultMetadataID() {
			m.ResultMetadataID = x.sbytes()
		}
		decodeQueryOptions(x, v, &m.Opts)
		return m
	case OpBatch:
		return decodeBatch(x, v)
	case OpRevise:
		m := &Revise{Type: x.int(), Target: x.int()}
		switch m.Type {
		case 1:
		case 2:
			if v != DSE2 {
				x.invalid("revision type 2 not defined for %v", v)
			}
			m.NextPages = x.int()
		default:
			x.fail("revision type %d", m.Type)
		}
		return m
	case OpResult:
		kind := x.int()
		switch kind {
		case 1:
			return &ResultVoid{}
		case 2:
			m := &ResultRows{}
			decodeRowsMetadata(x, v, &m.Meta)
			n := x.int()
			if n < 0 {
				x.fail("rows count %d", n)
				return m
			}
			if m.Meta.ColumnCount < 0 {
				x.fail("column count %d", m.Meta.ColumnCount)
				return m
			}
			if m.Meta.ColumnCount == 0 && n > 1<<16 {
				x.fail("%d rows of zero columns: not materialised by this decoder", n)
				return m
			}
			if rem := int64(len(x.b) - x.pos); int64(n)*int64(m.Meta.ColumnCount)*4 > rem {
				x.fail("%d rows x %d columns cannot fit in the remaining %d bytes", n, m.Meta.ColumnCount, rem)
				return m
			}
			for i := 0; i < int(n) && x.err == nil; i++ {
				row := make([]Bytes, 0, m.Meta.ColumnCount)
				for j := 0; j < int(m.Meta.ColumnCount) && x.err == nil; j++ {
					row = append(row, x.bytes())
				}
				m.Rows = append(m.Rows, row)
			}
			return m
		case 3:
			return &ResultSetKeyspace{Keyspace: x.str()}
		case 4:
			m := &ResultPrepared{ID: x.sbytes()}
			if v.HasResultMetadataID() {
				m.ResultMetadataID = x.sbytes()
			}
			fl := uint32(x.int())
			if fl&^0x01 != 0 {
				x.invalid("prepared metadata flags %#x", fl)
			}
			cc := x.int()
			if cc < 0 {
				x.fail("column count %d", cc)
				return m
			}
			if v.HasPkIndices() {
				pk := x.int()
				if pk < 0 {
					x.fail("pk count %d", pk)
					return m
				}
				for i := 0; i < int(pk) && x.err == nil; i++ {
					m.Vars.PkIndices = append(m.Vars.PkIndices, x.short())
				}
			}
			if fl&0x01 != 0 && cc == 0 {
				// a global table spec with no column: two strings follow (the spec does not forbid it; no
				// server sends it: Cassandra sets the flag only for a non-empty column list). The library used to
				// read nothing here (fixed in /repo, see known_findings.txt)
				x.str()
				x.str()
			} else {
				m.Vars.Columns = decodeColumns(x, v, int(cc), fl&0x01 != 0)
			}
			decodeRowsMetadata(x, v, &m.Result)
			return m
		case 5:
			return decodeSchemaChange(x, v, false)
		}
		x.fail("result kind %d", kind)
	case OpEvent:
		t := x.str()
		switch t {
		case "SCHEMA_CHANGE":
			return decodeSchemaChange(x, v, true)
		case "STATUS_CHANGE":
			m := &StatusChange{ChangeType: x.str(), Addr: x.inet()}
			if m.ChangeType != "UP" && m.ChangeType != "DOWN" {
				x.invalid("status change %q", m.ChangeType)
			}
			return m
		case "TOPOLOGY_CHANGE":
			m := &TopologyChange{ChangeType: x.str(), Addr: x.inet()}
			switch m.ChangeType {
			case "NEW_NODE", "REMOVED_NODE":
			case "MOVED_NODE":
				if !v.HasV3Types() {
					x.invalid("MOVED_NODE not defined for %v", v)
				}
			default:
				x.invalid("topology change %q", m.ChangeType)
			}
			return m
		}
		x.fail("event type %q", t)
	case OpError:
		return decodeError(x, v)
	}
	x.fail("opcode %#x", op)
	return nil
}

func decodeQueryOptions(x *r, v Version, q *QueryOptions) {
	q.Consistency = x.short()
	var fl uint32
	if v.IntQueryFlags() {
		fl = uint32(x.int())
	} else {
		fl = uint32(x.byte())
	}
	allowed := uint32(0x01 | 0x02 | 0x04 | 0x08 | 0x10)
	if v.HasTimestampAndNames() {
		allowed |= 0x20 | 0x40
	}
	if v.HasKeyspace() {
		allowed |= 0x80
	}
	if v.HasNowInSeconds() {
		allowed |= 0x100
	}
	if v.HasContinuousPaging() {
		allowed |= 0x40000000 | 0x80000000
	}
	if fl&^allowed != 0 {
		x.invalid("query flags %#x not defined for %v", fl&^allowed, v)
		if x.err != nil {
			return
		}
	}
	if fl&0x01 != 0 {
		q.HasValues = true
		n := int(x.short())
		if fl&0x40 != 0 {
			q.Named = true
			for i := 0; i < n && x.err == nil; i++ {
				q.NamedValues = append(q.NamedValues, NamedValue{Name: x.str(), Value: x.value(v)})
			}
		} else {
			for i := 0; i < n && x.err == nil; i++ {
				q.Positional = append(q.Positional, x.value(v))
			}
		}
	} else if fl&0x40 != 0 {
		x.invalid("VALUE_NAMES flag without VALUES")
	}
	q.SkipMetadata = fl&0x02 != 0
	if fl&0x04 != 0 {
		p := x.int()
		q.PageSize = &p
		q.PageSizeInBytes = fl&0x40000000 != 0
	} else if fl&0x40000000 != 0 {
		x.invalid("PAGE_SIZE_BYTES flag without PAGE_SIZE")
	}
	if fl&0x08 != 0 {
		b := x.bytes()
		q.PagingState = &b
	}
	if fl&0x10 != 0 {
		c := x.short()
		q.SerialConsistency = &c
	}
	if fl&0x20 != 0 {
		t := x.long()
		q.Timestamp = &t
	}
	if fl&0x80 != 0 {
		s := x.str()
		q.Keyspace = &s
	}
	if fl&0x100 != 0 {
		n := x.int()
		q.NowInSeconds = &n
	}
	if fl&0x80000000 != 0 {
		c := &ContinuousPaging{MaxPages: x.int(), PagesPerSecond: x.int()}
		if v.HasNextPages() {
			c.NextPages = x.int()
		}
		q.ContinuousPaging = c
	}
}

func decodeBatch(x *r, v Version) *Batch {
	m := &Batch{Type: x.byte()}
	n := int(x.short())
	for i := 0; i < n && x.err == nil; i++ {
		var c BatchChild
		switch k := x.byte(); k {
		case 0:
			c.Query = x.lstr()
		case 1:
			c.IsID = true
			c.ID = x.sbytes()
		default:
			x.fail("batch child kind %d", k)
		}
		nv := int(x.short())
		for j := 0; j < nv && x.err == nil; j++ {
			c.Values = append(c.Values, x.value(v))
		}
		m.Children = append(m.Children, c)
	}
	m.Consistency = x.short()
	if !v.HasBatchFlags() {
		return m
	}
	var fl uint32
	if v.IntQueryFlags() {
		fl = uint32(x.int())
	} else {
		fl = uint32(x.byte())
	}
	allowed := uint32(0x10 | 0x20)
	if v.HasKeyspace() {
		allowed |= 0x80
	}
	if v.HasNowInSeconds() {
		allowed |= 0x100
	}
	if fl&^allowed != 0 {
		x.invalid("batch flags %#x not defined for %v", fl&^allowed, v)
		if x.err != nil {
			return m
		}
	}
	if fl&0x10 != 0 {
		c := x.short()
		m.SerialConsistency = &c
	}
	if fl&0x20 != 0 {
		t := x.long()
		m.Timestamp = &t
	}
	if fl&0x80 != 0 {
		s := x.str()
		m.Keyspace = &s
	}
	if fl&0x100 != 0 {
		s := x.int()
		m.NowInSeconds = &s
	}
	return m
}

func decodeRowsMetadata(x *r, v Version, m *RowsMetadata) {
	fl := uint32(x.int())
	allowed := uint32(0x01 | 0x02 | 0x04)
	if v.HasResultMetadataID() {
		allowed |= 0x08
	}
	if v.HasContinuousPaging() {
		allowed |= 0x40000000 | 0x80000000
	}
	if fl&^allowed != 0 {
		x.invalid("rows flags %#x not defined for %v", fl&^allowed, v)
		if x.err != nil {
			return
		}
	}
	m.ColumnCount = x.int()
	if m.ColumnCount < 0 {
		x.fail("column count %d", m.ColumnCount)
		return
	}
	if fl&0x02 != 0 {
		b := x.bytes()
		m.PagingState = &b
	}
	if fl&0x08 != 0 {
		b := x.sbytes()
		if b == nil {
			b = []byte{}
		}
		m.NewMetadataID = &b
	}
	if fl&0x40000000 != 0 {
		p := x.int()
		m.ContinuousPage = &p
		m.LastPage = fl&0x80000000 != 0
	} else if fl&0x80000000 != 0 {
		x.invalid("LAST_CONTINUOUS_PAGE without CONTINUOUS_PAGING")
	}
	if fl&0x04 == 0 {
		m.Columns = decodeColumns(x, v, int(m.ColumnCount), fl&0x01 != 0)
	}
}

func decodeColumns(x *r, v Version, n int, global bool) []ColumnSpec {
	var gks, gt string
	if global {
		gks, gt = x.str(), x.str()
	}
	var cols []ColumnSpec
	for i := 0; i < n && x.err == nil; i++ {
		var c ColumnSpec
		if global {
			c.Keyspace, c.Table = gks, gt
		} else {
			c.Keyspace, c.Table = x.str(), x.str()
		}
		c.Name = x.str()
		c.Type = decodeType(x, v, 0)
		cols = append(cols, c)
	}
	return cols
}

// DecodeType parses an [option] type descriptor occupying all of b.
func DecodeType(v Version, b []byte) (Type, error) {
	x := &r{b: b}
	t := decodeType(x, v, 0)
	if x.err == nil && x.pos != len(b) {
		x.fail("trailing bytes")
	}
	return t, x.err
}

func decodeType(x *r, v Version, depth int) Type {
	t := Type{Code: x.short()}
	if x.err != nil {
		return t
	}
	switch {
	case t.Code == TCustom:
		t.Custom = x.str()
	case t.Code >= 0x0001 && t.Code <= 0x0010 && t.Code != 0x000A:
	case t.Code >= 0x0011 && t.Code <= 0x0014: // date, time, smallint, tinyint: v4+
		if !v.HasV4Errors() {
			x.invalid("type %#x not defined for %v", t.Code, v)
		}
	case t.Code == 0x0015:
		if !v.HasDuration() {
			x.invalid("duration type not defined for %v", v)
		}
	case t.Code == TList || t.Code == TSet:
		t.Elems = []Type{decodeType(x, v, depth+1)}
	case t.Code == TMap:
		k := decodeType(x, v, depth+1)
		t.Elems = []Type{k, decodeType(x, v, depth+1)}
	case t.Code == TUDT:
		if !v.HasV3Types() {
			x.invalid("UDT not defined for %v", v)
		}
		t.Keyspace, t.Name = x.str(), x.str()
		n := int(x.short())
		for i := 0; i < n && x.err == nil; i++ {
			t.Fields = append(t.Fields, x.str())
			t.Elems = append(t.Elems, decodeType(x, v, depth+1))
		}
	case t.Code == TTuple:
		if !v.HasV3Types() {
			x.invalid("tuple not defined for %v", v)
		}
		n := int(x.short())
		for i := 0; i < n && x.err == nil; i++ {
			t.Elems = append(t.Elems, decodeType(x, v, depth+1))
		}
	default:
		x.fail("type code %#x", t.Code)
	}
	return t
}

func decodeSchemaChange(x *r, v Version, event bool) *SchemaChange {
	m := &SchemaChange{Event: event, ChangeType: x.str()}
	switch m.ChangeType {
	case "CREATED", "UPDATED", "DROPPED":
	default:
		x.invalid("schema change type %q", m.ChangeType)
		if x.err != nil {
			return m
		}
	}
	if !v.HasSchemaChangeTarget() {
		m.Keyspace, m.Object = x.str(), x.str()
		if m.Object == "" {
			m.Target = "KEYSPACE"
		} else {
			m.Target = "TABLE"
		}
		return m
	}
	m.Target = x.str()
	m.Keyspace = x.str()
	switch m.Target {
	case "KEYSPACE":
	case "TABLE", "TYPE":
		m.Object = x.str()
	case "FUNCTION", "AGGREGATE":
		if !v.HasFunctionTargets() {
			x.invalid("target %s not defined for %v", m.Target, v)
		}
		m.Object = x.str()
		m.Args = x.strlist()
	default:
		x.fail("schema change target %q", m.Target)
	}
	return m
}

func decodeError(x *r, v Version) *Error {
	m := &Error{Code: x.int(), Message: x.str()}
	switch m.Code {
	case ErrServer, ErrProtocol, ErrAuth, ErrOverloaded, ErrBootstrapping, ErrTruncate, ErrSyntax, ErrUnauthorized, ErrInvalid, ErrConfig:
	case ErrUnavailable:
		m.Consistency, m.Required, m.Alive = x.short(), x.int(), x.int()
	case ErrWriteTimeout:
		m.Consistency, m.Received, m.BlockFor, m.WriteType = x.short(), x.int(), x.int(), x.str()
		if v.HasContentions() && m.WriteType == "CAS" {
			m.Contentions = x.short()
		}
	case ErrReadTimeout:
		m.Consistency, m.Received, m.BlockFor = x.short(), x.int(), x.int()
		m.DataPresent = x.byte() != 0
	case ErrReadFailure, ErrWriteFailure:
		if !v.HasV4Errors() {
			x.fail("error code %#x not defined for %v", m.Code, v)
			return m
		}
		m.Consistency, m.Received, m.BlockFor = x.short(), x.int(), x.int()
		if v.HasReasonMap() {
			n := x.int()
			if n < 0 {
				x.fail("reason map size %d", n)
				return m
			}
			for i := 0; i < int(n) && x.err == nil; i++ {
				m.Reasons = append(m.Reasons, Reason{IP: x.inetaddr(), Code: x.short()})
			}
		} else {
			m.NumFailures = x.int()
		}
		if m.Code == ErrReadFailure {
			m.DataPresent = x.byte() != 0
		} else {
			m.WriteType = x.str()
		}
	case ErrFunctionFailure:
		if !v.HasV4Errors() {
			x.fail("error code %#x not defined for %v", m.Code, v)
			return m
		}
		m.Keyspace, m.Function, m.Args = x.str(), x.str(), x.strlist()
	case ErrAlreadyExists:
		m.Keyspace, m.Table = x.str(), x.str()
	case ErrUnprepared:
		m.ID = x.sbytes()
	default:
		x.fail("error code %#x", m.Code)
	}
	return m
}
