// Package ref is the independent reference codec (DESIGN.md M2): abstract frames (plain structs,
// no library types), an encoder and a strict decoder written from /repo/specs/*.spec only.
// Nothing in this package imports the library under test.
package ref

// Version is the protocol version number as it appears in the low 7 bits of the first header byte.
type Version byte

const (
	V2   Version = 2
	V3   Version = 3
	V4   Version = 4
	V5   Version = 5
	DSE1 Version = 0x41
	DSE2 Version = 0x42
)

var Versions = []Version{V2, V3, V4, V5, DSE1, DSE2}

func (v Version) String() string {
	switch v {
	case V2:
		return "v2"
	case V3:
		return "v3"
	case V4:
		return "v4"
	case V5:
		return "v5"
	case DSE1:
		return "dse1"
	case DSE2:
		return "dse2"
	}
	return "v?"
}

func (v Version) Supported() bool {
	for _, x := range Versions {
		if x == v {
			return true
		}
	}
	return false
}

func (v Version) IsDSE() bool { return v == DSE1 || v == DSE2 }

// ---- feature gates, each with the spec sentence it comes from -------------------------------

// v1/v2 §2.3: "stream: A frame has a stream id (one signed byte)"; v3 §2.3 "[short]"; header 8 / 9 bytes.
func (v Version) HeaderLen() int {
	if v == V2 {
		return 8
	}
	return 9
}

// v5 §4.1.4 / DSE v1 §4.1.4: "<flags> is a [int]"; v2-v4: "<flags> is a [byte]".
func (v Version) IntQueryFlags() bool { return v == V5 || v.IsDSE() }

// v3 §10: "QUERY, EXECUTE and BATCH messages can now optionally provide the default timestamp";
// "can now optionally provide the names for the values".
func (v Version) HasTimestampAndNames() bool { return v != V2 }

// v3 §10: BATCH gains <flags> (serial consistency, timestamp); v2 BATCH ends after <consistency>.
func (v Version) HasBatchFlags() bool { return v != V2 }

// v5 §10 "keyspace in QUERY, PREPARE, and BATCH"; DSE v2 §4.1.4 flag 0x80; DSE v1 §10 "Does _not_ have keyspace field".
func (v Version) HasKeyspace() bool { return v == V5 || v == DSE2 }

// v5 §4.1.4 flag 0x0100 now_in_seconds; not in either DSE spec.
func (v Version) HasNowInSeconds() bool { return v == V5 }

// v5 §4.1.5 "<query><flags>[<keyspace>]"; DSE v2 §4.1.5 same; DSE v1 §10 "Does _not_ have [int] flags field in PREPARE".
func (v Version) HasPrepareFlags() bool { return v == V5 || v == DSE2 }

// v5 §4.1.6 "<id><result_metadata_id><query_parameters>"; DSE v2 same; others "<id><query_parameters>".
func (v Version) HasResultMetadataID() bool { return v == V5 || v == DSE2 }

// DSE v1/v2 §4.1.4 flags 0x40000000 / 0x80000000, rows flags 0x40000000 / 0x80000000.
func (v Version) HasContinuousPaging() bool { return v.IsDSE() }

// DSE v2 §4.1.4: "<next_pages>" in continuous paging options; DSE v1 has only max_pages, pages_per_second.
func (v Version) HasNextPages() bool { return v == DSE2 }

// v4 §2.2 flags 0x04 custom payload, 0x08 warning ("v4 §10: custom payload / warnings added").
func (v Version) HasPayloadAndWarnings() bool { return v != V2 && v != V3 }

// v4 §4.1.4 [value] "-2 ... not set"; v4 §10 "unset".
func (v Version) HasUnset() bool { return v != V2 && v != V3 }

// v4 §4.2.5.4: Prepared metadata gains <pk_count>[<pk_index>...].
func (v Version) HasPkIndices() bool { return v != V2 && v != V3 }

// v3 §4.2.5.5: "<change_type><target><options>"; v2: "<change><keyspace><table>".
func (v Version) HasSchemaChangeTarget() bool { return v != V2 }

// v4 §10: FUNCTION and AGGREGATE targets.
func (v Version) HasFunctionTargets() bool { return v != V2 && v != V3 }

// v3 §10: MOVED_NODE; UDT and tuple types.
func (v Version) HasV3Types() bool { return v != V2 }

// v4 §10: Read_failure, Write_failure, Function_failure error codes; date/time/smallint/tinyint.
func (v Version) HasV4Errors() bool { return v != V2 && v != V3 }

// v5 §9 / DSE v1 §9: "<cl><received><blockfor><reasonmap>…"; v4: <numfailures>.
func (v Version) HasReasonMap() bool { return v == V5 || v.IsDSE() }

// v5 §9 0x1100: "<contentions> ... only presents when the <writeType> is CAS"; not in DSE specs.
func (v Version) HasContentions() bool { return v == V5 }

// v5 §6.? duration type 0x0015; DSE v1.
func (v Version) HasDuration() bool { return v == V5 || v.IsDSE() }

// 0xFF REVISE_REQUEST: DSE only. DSE v2 adds revision type 2 (more pages).
func (v Version) HasRevise() bool { return v.IsDSE() }

// v5 §2: modern framing (segments); not DSE.
func (v Version) ModernFraming() bool { return v == V5 }

// Stream id bounds.
func (v Version) StreamBounds() (lo, hi int) {
	if v == V2 {
		return -128, 127
	}
	return -32768, 32767
}

// ---- header flags and opcodes (§2.2, §2.4) ---------------------------------------------------

const (
	FlagCompressed    = 0x01
	FlagTracing       = 0x02
	FlagCustomPayload = 0x04
	FlagWarning       = 0x08
	FlagUseBeta       = 0x10
)

const (
	OpError         = 0x00
	OpStartup       = 0x01
	OpReady         = 0x02
	OpAuthenticate  = 0x03
	OpOptions       = 0x05
	OpSupported     = 0x06
	OpQuery         = 0x07
	OpResult        = 0x08
	OpPrepare       = 0x09
	OpExecute       = 0x0A
	OpRegister      = 0x0B
	OpEvent         = 0x0C
	OpBatch         = 0x0D
	OpAuthChallenge = 0x0E
	OpAuthResponse  = 0x0F
	OpAuthSuccess   = 0x10
	OpRevise        = 0xFF
)

// OpcodeDirection: 0 = request, 1 = response, -1 = not an opcode of that version.
func OpcodeDirection(v Version, op byte) int {
	switch op {
	case OpStartup, OpOptions, OpQuery, OpPrepare, OpExecute, OpRegister, OpBatch, OpAuthResponse:
		return 0
	case OpError, OpReady, OpAuthenticate, OpSupported, OpResult, OpEvent, OpAuthChallenge, OpAuthSuccess:
		return 1
	case OpRevise:
		if v.IsDSE() {
			return 0
		}
	}
	return -1
}

// ---- abstract frames ---------------------------------------------------------------------------

// Bytes is a [bytes]: Null distinguishes length -1 from length 0.
type Bytes struct {
	Null bool   `json:"null,omitempty"`
	B    []byte `json:"b,omitempty"`
}

func B(b []byte) Bytes {
	if b == nil {
		b = []byte{}
	}
	return Bytes{B: b}
}

var NullBytes = Bytes{Null: true}

type KV struct {
	K string `json:"k"`
	V string `json:"v"`
}

type KBytes struct {
	K string `json:"k"`
	V Bytes  `json:"v"`
}

type KList struct {
	K string   `json:"k"`
	V []string `json:"v"`
}

// Frame is an abstract envelope. Presence of optional body parts is explicit: the header flags
// are derived from it (TRACING: TracingID != nil for responses, TraceRequested for requests).
type Frame struct {
	Version        Version   `json:"version"`
	Response       bool      `json:"response"`
	Stream         int16     `json:"stream"`
	TraceRequested bool      `json:"trace_requested,omitempty"` // requests only
	TracingID      *[16]byte `json:"tracing_id,omitempty"`      // responses only
	Warnings       *[]string `json:"warnings,omitempty"`        // responses, v4+; non-nil = WARNING flag set
	Payload        *[]KBytes `json:"payload,omitempty"`         // v4+; non-nil = CUSTOM_PAYLOAD flag set
	Msg            Msg       `json:"msg"`
}

// Flags returns the header flags this frame must carry (without COMPRESSED).
func (f *Frame) Flags() byte {
	var fl byte
	if f.TraceRequested || f.TracingID != nil {
		fl |= FlagTracing
	}
	if f.Payload != nil {
		fl |= FlagCustomPayload
	}
	if f.Warnings != nil {
		fl |= FlagWarning
	}
	return fl
}

// Msg is one of the message structs below.
type Msg interface {
	Opcode() byte
	Kind() string
}

type Startup struct {
	Options []KV `json:"options"`
}
type Options struct{}
type Ready struct{}
type Authenticate struct {
	Authenticator string `json:"authenticator"`
}
type AuthResponse struct {
	Token Bytes `json:"token"`
}
type AuthChallenge struct {
	Token Bytes `json:"token"`
}
type AuthSuccess struct {
	Token Bytes `json:"token"`
}
type Supported struct {
	Options []KList `json:"options"`
}
type Register struct {
	Events []string `json:"events"`
}

// Value is a [value]: Kind 0 regular (B), -1 null, -2 not set.
type Value struct {
	Kind int32  `json:"kind"`
	B    []byte `json:"b,omitempty"`
}

type NamedValue struct {
	Name string `json:"name"`
	Value
}

type ContinuousPaging struct {
	MaxPages       int32 `json:"max_pages"`
	PagesPerSecond int32 `json:"pages_per_second"`
	NextPages      int32 `json:"next_pages"` // DSE v2 only
}

type QueryOptions struct {
	Consistency       uint16            `json:"consistency"`
	HasValues         bool              `json:"has_values,omitempty"` // VALUES flag
	Named             bool              `json:"named,omitempty"`      // VALUE_NAMES flag (with HasValues)
	Positional        []Value           `json:"positional,omitempty"`
	NamedValues       []NamedValue      `json:"named_values,omitempty"`
	SkipMetadata      bool              `json:"skip_metadata,omitempty"`
	PageSize          *int32            `json:"page_size,omitempty"`
	PageSizeInBytes   bool              `json:"page_size_in_bytes,omitempty"` // DSE, with PageSize
	PagingState       *Bytes            `json:"paging_state,omitempty"`
	SerialConsistency *uint16           `json:"serial_consistency,omitempty"`
	Timestamp         *int64            `json:"timestamp,omitempty"`
	Keyspace          *string           `json:"keyspace,omitempty"`
	NowInSeconds      *int32            `json:"now_in_seconds,omitempty"`
	ContinuousPaging  *ContinuousPaging `json:"continuous_paging,omitempty"`
}

type Query struct {
	Query string       `json:"query"`
	Opts  QueryOptions `json:"opts"`
}
type Prepare struct {
	Query    string  `json:"query"`
	Keyspace *string `json:"keyspace,omitempty"`
}
type Execute struct {
	ID               []byte       `json:"id"`
	ResultMetadataID []byte       `json:"result_metadata_id,omitempty"`
	Opts             QueryOptions `json:"opts"`
}
type BatchChild struct {
	IsID   bool    `json:"is_id,omitempty"`
	Query  string  `json:"query,omitempty"`
	ID     []byte  `json:"id,omitempty"`
	Values []Value `json:"values,omitempty"`
}
type Batch struct {
	Type              byte         `json:"type"`
	Children          []BatchChild `json:"children,omitempty"`
	Consistency       uint16       `json:"consistency"`
	SerialConsistency *uint16      `json:"serial_consistency,omitempty"`
	Timestamp         *int64       `json:"timestamp,omitempty"`
	Keyspace          *string      `json:"keyspace,omitempty"`
	NowInSeconds      *int32       `json:"now_in_seconds,omitempty"`
}
type Revise struct {
	Type      int32 `json:"type"`
	Target    int32 `json:"target"`
	NextPages int32 `json:"next_pages,omitempty"` // type 2 only
}

// Type is an [option] type descriptor.
type Type struct {
	Code     uint16   `json:"code"`
	Custom   string   `json:"custom,omitempty"`
	Elems    []Type   `json:"elems,omitempty"` // list/set: 1; map: 2 (key, value); tuple: n; udt: n
	Keyspace string   `json:"keyspace,omitempty"`
	Name     string   `json:"name,omitempty"`
	Fields   []string `json:"fields,omitempty"` // udt field names
}

const (
	TCustom = 0x0000
	TList   = 0x0020
	TMap    = 0x0021
	TSet    = 0x0022
	TUDT    = 0x0030
	TTuple  = 0x0031
)

type ColumnSpec struct {
	Keyspace string `json:"ks"`
	Table    string `json:"table"`
	Name     string `json:"name"`
	Type     Type   `json:"type"`
}

type RowsMetadata struct {
	ColumnCount    int32        `json:"column_count"`
	PagingState    *Bytes       `json:"paging_state,omitempty"`    // HAS_MORE_PAGES
	NewMetadataID  *[]byte      `json:"new_metadata_id,omitempty"` // METADATA_CHANGED (v5, DSE v2)
	ContinuousPage *int32       `json:"continuous_page,omitempty"` // DSE
	LastPage       bool         `json:"last_page,omitempty"`       // DSE, with ContinuousPage
	Columns        []ColumnSpec `json:"columns,omitempty"`         // empty = NO_METADATA
}

type VariablesMetadata struct {
	PkIndices []uint16     `json:"pk_indices,omitempty"`
	Columns   []ColumnSpec `json:"columns,omitempty"`
}

type ResultVoid struct{}
type ResultRows struct {
	Meta RowsMetadata `json:"meta"`
	Rows [][]Bytes    `json:"rows,omitempty"`
}
type ResultSetKeyspace struct {
	Keyspace string `json:"keyspace"`
}
type ResultPrepared struct {
	ID               []byte            `json:"id"`
	ResultMetadataID []byte            `json:"result_metadata_id,omitempty"`
	Vars             VariablesMetadata `json:"vars"`
	Result           RowsMetadata      `json:"result"`
}

// SchemaChange serves RESULT Schema_change and EVENT SCHEMA_CHANGE.
type SchemaChange struct {
	Event      bool     `json:"event,omitempty"`
	ChangeType string   `json:"change_type"`
	Target     string   `json:"target"` // v2: derived (KEYSPACE iff Object == "")
	Keyspace   string   `json:"keyspace"`
	Object     string   `json:"object,omitempty"`
	Args       []string `json:"args,omitempty"` // FUNCTION / AGGREGATE
}

type Inet struct {
	IP   []byte `json:"ip"` // 4 or 16 bytes
	Port int32  `json:"port"`
}
type StatusChange struct {
	ChangeType string `json:"change_type"`
	Addr       Inet   `json:"addr"`
}
type TopologyChange struct {
	ChangeType string `json:"change_type"`
	Addr       Inet   `json:"addr"`
}

type Reason struct {
	IP   []byte `json:"ip"`
	Code uint16 `json:"code"`
}

// Error covers all ERROR codes; only the fields of its code are meaningful.
type Error struct {
	Code        int32    `json:"code"`
	Message     string   `json:"message"`
	Consistency uint16   `json:"consistency,omitempty"`
	Required    int32    `json:"required,omitempty"`
	Alive       int32    `json:"alive,omitempty"`
	Received    int32    `json:"received,omitempty"`
	BlockFor    int32    `json:"block_for,omitempty"`
	DataPresent bool     `json:"data_present,omitempty"`
	WriteType   string   `json:"write_type,omitempty"`
	Contentions uint16   `json:"contentions,omitempty"`
	NumFailures int32    `json:"num_failures,omitempty"`
	Reasons     []Reason `json:"reasons,omitempty"`
	Keyspace    string   `json:"keyspace,omitempty"`
	Table       string   `json:"table,omitempty"`
	Function    string   `json:"function,omitempty"`
	Args        []string `json:"args,omitempty"`
	ID          []byte   `json:"id,omitempty"`
}

const (
	ErrServer          = 0x0000
	ErrProtocol        = 0x000A
	ErrAuth            = 0x0100
	ErrUnavailable     = 0x1000
	ErrOverloaded      = 0x1001
	ErrBootstrapping   = 0x1002
	ErrTruncate        = 0x1003
	ErrWriteTimeout    = 0x1100
	ErrReadTimeout     = 0x1200
	ErrReadFailure     = 0x1300
	ErrFunctionFailure = 0x1400
	ErrWriteFailure    = 0x1500
	ErrSyntax          = 0x2000
	ErrUnauthorized    = 0x2100
	ErrInvalid         = 0x2200
	ErrConfig          = 0x2300
	ErrAlreadyExists   = 0x2400
	ErrUnprepared      = 0x2500
)

func (*Startup) Opcode() byte           { return OpStartup }
func (*Options) Opcode() byte           { return OpOptions }
func (*Ready) Opcode() byte             { return OpReady }
func (*Authenticate) Opcode() byte      { return OpAuthenticate }
func (*AuthResponse) Opcode() byte      { return OpAuthResponse }
func (*AuthChallenge) Opcode() byte     { return OpAuthChallenge }
func (*AuthSuccess) Opcode() byte       { return OpAuthSuccess }
func (*Supported) Opcode() byte         { return OpSupported }
func (*Register) Opcode() byte          { return OpRegister }
func (*Query) Opcode() byte             { return OpQuery }
func (*Prepare) Opcode() byte           { return OpPrepare }
func (*Execute) Opcode() byte           { return OpExecute }
func (*Batch) Opcode() byte             { return OpBatch }
func (*Revise) Opcode() byte            { return OpRevise }
func (*ResultVoid) Opcode() byte        { return OpResult }
func (*ResultRows) Opcode() byte        { return OpResult }
func (*ResultSetKeyspace) Opcode() byte { return OpResult }
func (*ResultPrepared) Opcode() byte    { return OpResult }
func (m *SchemaChange) Opcode() byte {
	if m.Event {
		return OpEvent
	}
	return OpResult
}
func (*StatusChange) Opcode() byte   { return OpEvent }
func (*TopologyChange) Opcode() byte { return OpEvent }
func (*Error) Opcode() byte          { return OpError }

func (*Startup) Kind() string           { return "STARTUP" }
func (*Options) Kind() string           { return "OPTIONS" }
func (*Ready) Kind() string             { return "READY" }
func (*Authenticate) Kind() string      { return "AUTHENTICATE" }
func (*AuthResponse) Kind() string      { return "AUTH_RESPONSE" }
func (*AuthChallenge) Kind() string     { return "AUTH_CHALLENGE" }
func (*AuthSuccess) Kind() string       { return "AUTH_SUCCESS" }
func (*Supported) Kind() string         { return "SUPPORTED" }
func (*Register) Kind() string          { return "REGISTER" }
func (*Query) Kind() string             { return "QUERY" }
func (*Prepare) Kind() string           { return "PREPARE" }
func (*Execute) Kind() string           { return "EXECUTE" }
func (*Batch) Kind() string             { return "BATCH" }
func (*Revise) Kind() string            { return "REVISE" }
func (*ResultVoid) Kind() string        { return "RESULT.Void" }
func (*ResultRows) Kind() string        { return "RESULT.Rows" }
func (*ResultSetKeyspace) Kind() string { return "RESULT.SetKeyspace" }
func (*ResultPrepared) Kind() string    { return "RESULT.Prepared" }
func (m *SchemaChange) Kind() string {
	if m.Event {
		return "EVENT.SchemaChange"
	}
	return "RESULT.SchemaChange"
}
func (*StatusChange) Kind() string   { return "EVENT.StatusChange" }
func (*TopologyChange) Kind() string { return "EVENT.TopologyChange" }
func (m *Error) Kind() string        { return "ERROR." + ErrorName(m.Code) }

func ErrorName(code int32) string {
	switch code {
	case ErrServer:
		return "ServerError"
	case ErrProtocol:
		return "ProtocolError"
	case ErrAuth:
		return "AuthenticationError"
	case ErrUnavailable:
		return "Unavailable"
	case ErrOverloaded:
		return "Overloaded"
	case ErrBootstrapping:
		return "IsBootstrapping"
	case ErrTruncate:
		return "TruncateError"
	case ErrWriteTimeout:
		return "WriteTimeout"
	case ErrReadTimeout:
		return "ReadTimeout"
	case ErrReadFailure:
		return "ReadFailure"
	case ErrFunctionFailure:
		return "FunctionFailure"
	case ErrWriteFailure:
		return "WriteFailure"
	case ErrSyntax:
		return "SyntaxError"
	case ErrUnauthorized:
		return "Unauthorized"
	case ErrInvalid:
		return "Invalid"
	case ErrConfig:
		return "ConfigError"
	case ErrAlreadyExists:
		return "AlreadyExists"
	case ErrUnprepared:
		return "Unprepared"
	}
	return "?"
}

var ErrorCodes = []int32{ErrServer, ErrProtocol, ErrAuth, ErrUnavailable, ErrOverloaded, ErrBootstrapping, ErrTruncate,
	ErrWriteTimeout, ErrReadTimeout, ErrReadFailure, ErrFunctionFailure, ErrWriteFailure, ErrSyntax, ErrUnauthorized,
	ErrInvalid, ErrConfig, ErrAlreadyExists, ErrUnprepared}
