package ref

import (
	"encoding/binary"
	"fmt"
)

// EncOpts are the places where the specification leaves the encoder a choice.
type EncOpts struct {
	// NoGlobalSpec: never use Global_tables_spec (spec: the flag merely says how table names are laid out).
	NoGlobalSpec bool
	// GlobalWithNoMetadata: set the Global_tables_spec bit together with No_metadata. §4.2.5.2: with No_metadata
	// "the <metadata> is only composed of these <flags>, the <column_count> and optionally the <paging_state>
	// ... (so no <global_table_spec> nor <col_spec_i>)" - whatever the other bits say, nothing follows.
	GlobalWithNoMetadata bool
}

type w struct{ b []byte }

func (w *w) byte(v byte)     { w.b = append(w.b, v) }
func (w *w) short(v uint16)  { w.b = binary.BigEndian.AppendUint16(w.b, v) }
func (w *w) int(v int32)     { w.b = binary.BigEndian.AppendUint32(w.b, uint32(v)) }
func (w *w) long(v int64)    { w.b = binary.BigEndian.AppendUint64(w.b, uint64(v)) }
func (w *w) raw(v []byte)    { w.b = append(w.b, v...) }
func (w *w) str(s string)    { w.short(uint16(len(s))); w.b = append(w.b, s...) } // [string]
func (w *w) lstr(s string)   { w.int(int32(len(s))); w.b = append(w.b, s...) }    // [long string]
func (w *w) sbytes(v []byte) { w.short(uint16(len(v))); w.b = append(w.b, v...) } // [short bytes]
func (w *w) strlist(l []string) { // [string list]
	w.short(uint16(len(l)))
	for _, s := range l {
		w.str(s)
	}
}
func (w *w) bytes(v Bytes) { // [bytes]
	if v.Null {
		w.int(-1)
		return
	}
	w.int(int32(len(v.B)))
	w.raw(v.B)
}
func (w *w) value(v Value) { // [value]
	switch v.Kind {
	case 0:
		w.int(int32(len(v.B)))
		w.raw(v.B)
	default:
		w.int(v.Kind)
	}
}
func (w *w) inetaddr(ip []byte) { w.byte(byte(len(ip))); w.raw(ip) } // [inetaddr]
func (w *w) inet(a Inet)        { w.inetaddr(a.IP); w.int(a.Port) }  // [inet]

// EncodeHeader writes the 8- or 9-byte header (§2).
func EncodeHeader(v Version, response bool, flags byte, stream int16, opcode byte, length int32) []byte {
	var x w
	vb := byte(v)
	if response {
		vb |= 0x80
	}
	x.byte(vb)
	x.byte(flags)
	if v == V2 {
		x.byte(byte(int8(stream)))
	} else {
		x.short(uint16(stream))
	}
	x.byte(opcode)
	x.int(length)
	return x.b
}

// EncodeBody returns the uncompressed body: tracing id, warnings, custom payload (in that order:
// v4 §2.2 "warnings ... will be the first value in the frame body if the tracing flag is not set, or
// directly after the tracing ID if it is"; v5 §2.4.1.2 "If either or both of the tracing and warning
// flags are set, the custom payload will follow those indicated elements"), then the message.
func EncodeBody(f *Frame, o EncOpts) ([]byte, error) {
	var x w
	if f.Response && f.TracingID != nil {
		x.raw(f.TracingID[:])
	}
	if f.Warnings != nil {
		x.strlist(*f.Warnings)
	}
	if f.Payload != nil {
		x.short(uint16(len(*f.Payload)))
		for _, kv := range *f.Payload {
			x.str(kv.K)
			x.bytes(kv.V)
		}
	}
	if err := encodeMsg(&x, f.Version, f.Msg, o); err != nil {
		return nil, err
	}
	return x.b, nil
}

// EncodeFrame returns header + uncompressed body.
func EncodeFrame(f *Frame, o EncOpts) ([]byte, error) {
	body, err := EncodeBody(f, o)
	if err != nil {
		return nil, err
	}
	h := EncodeHeader(f.Version, f.Response, f.Flags(), f.Stream, f.Msg.Opcode(), int32(len(body)))
	return append(h, body...), nil
}

// EncodeFrameCompressed returns header (COMPRESSED flag set) + compress(body).
func EncodeFrameCompressed(f *Frame, o EncOpts, compress func([]byte) []byte) ([]byte, error) {
	body, err := EncodeBody(f, o)
	if err != nil {
		return nil, err
	}
	cb := compress(body)
	h := EncodeHeader(f.Version, f.Response, f.Flags()|FlagCompressed, f.Stream, f.Msg.Opcode(), int32(len(cb)))
	return append(h, cb...), nil
}

func encodeMsg(x *w, v Version, m Msg, o EncOpts) error {
	switch m := m.(type) {
	case *Startup: // §4.1.1 [string map]
		x.short(uint16(len(m.Options)))
		for _, kv := range m.Options {
			x.str(kv.K)
			x.str(kv.V)
		}
	case *Options, *Ready:
	case *Authenticate:
		x.str(m.Authenticator)
	case *AuthResponse:
		x.bytes(m.Token)
	case *AuthChallenge:
		x.bytes(m.Token)
	case *AuthSuccess:
		x.bytes(m.Token)
	case *Supported: // [string multimap]
		x.short(uint16(len(m.Options)))
		for _, kl := range m.Options {
			x.str(kl.K)
			x.strlist(kl.V)
		}
	case *Register:
		x.strlist(m.Events)
	case *Query:
		x.lstr(m.Query)
		return encodeQueryOptions(x, v, &m.Opts)
	case *Prepare:
		x.lstr(m.Query)
		if v.HasPrepareFlags() {
			if m.Keyspace != nil {
				x.int(0x01)
				x.str(*m.Keyspace)
			} else {
				x.int(0)
			}
		} else if m.Keyspace != nil {
			return fmt.Errorf("PREPARE keyspace not defined for %v", v)
		}
	case *Execute:
		x.sbytes(m.ID)
		if v.HasResultMetadataID() {
			x.sbytes(m.ResultMetadataID)
		} else if len(m.ResultMetadataID) > 0 {
			return fmt.Errorf("EXECUTE result metadata id not defined for %v", v)
		}
		return encodeQueryOptions(x, v, &m.Opts)
	case *Batch:
		return encodeBatch(x, v, m)
	case *Revise:
		if !v.HasRevise() {
			return fmt.Errorf("REVISE not defined for %v", v)
		}
		x.int(m.Type)
		x.int(m.Target)
		if m.Type == 2 {
			x.int(m.NextPages)
		}
	case *ResultVoid:
		x.int(1)
	case *ResultRows:
		x.int(2)
		if err := encodeRowsMetadata(x, v, &m.Meta, o); err != nil {
			return err
		}
		x.int(int32(len(m.Rows)))
		for _, row := range m.Rows {
			for _, c := range row {
				x.bytes(c)
			}
		}
	case *ResultSetKeyspace:
		x.int(3)
		x.str(m.Keyspace)
	case *ResultPrepared:
		x.int(4)
		x.sbytes(m.ID)
		if v.HasResultMetadataID() {
			x.sbytes(m.ResultMetadataID)
		}
		// <flags><columns_count>[<pk_count>[<pk_index>...]][<global_table_spec>?<col_spec>...]
		global := !o.NoGlobalSpec && sameTable(m.Vars.Columns)
		if global {
			x.int(0x0001)
		} else {
			x.int(0)
		}
		x.int(int32(len(m.Vars.Columns)))
		if v.HasPkIndices() {
			x.int(int32(len(m.Vars.PkIndices)))
			for _, i := range m.Vars.PkIndices {
				x.short(i)
			}
		} else if len(m.Vars.PkIndices) > 0 {
			return fmt.Errorf("pk indices not defined for %v", v)
		}
		if err := encodeColumns(x, v, m.Vars.Columns, global); err != nil {
			return err
		}
		return encodeRowsMetadata(x, v, &m.Result, o)
	case *SchemaChange:
		if m.Event {
			x.str("SCHEMA_CHANGE")
		} else {
			x.int(5)
		}
		return encodeSchemaChange(x, v, m)
	case *StatusChange:
		x.str("STATUS_CHANGE")
		x.str(m.ChangeType)
		x.inet(m.Addr)
	case *TopologyChange:
		x.str("TOPOLOGY_CHANGE")
		x.str(m.ChangeType)
		x.inet(m.Addr)
	case *Error:
		return encodeError(x, v, m)
	default:
		return fmt.Errorf("unknown message %T", m)
	}
	return nil
}

func encodeQueryOptions(x *w, v Version, q *QueryOptions) error {
	x.short(q.Consistency)
	var fl uint32
	if q.HasValues {
		fl |= 0x01
		if q.Named {
			if !v.HasTimestampAndNames() {
				return fmt.Errorf("named values not defined for %v", v)
			}
			fl |= 0x40
		}
	}
	if q.SkipMetadata {
		fl |= 0x02
	}
	if q.PageSize != nil {
		fl |= 0x04
		if q.PageSizeInBytes {
			if !v.HasContinuousPaging() {
				return fmt.Errorf("page size in bytes not defined for %v", v)
			}
			fl |= 0x40000000
		}
	}
	if q.PagingState != nil {
		fl |= 0x08
	}
	if q.SerialConsistency != nil {
		fl |= 0x10
	}
	if q.Timestamp != nil {
		if !v.HasTimestampAndNames() {
			return fmt.Errorf("default timestamp not defined for %v", v)
		}
		fl |= 0x20
	}
	if q.Keyspace != nil {
		if !v.HasKeyspace() {
			return fmt.Errorf("keyspace not defined for %v", v)
		}
		fl |= 0x80
	}
	if q.NowInSeconds != nil {
		if !v.HasNowInSeconds() {
			return fmt.Errorf("now_in_seconds not defined for %v", v)
		}
		fl |= 0x100
	}
	if q.ContinuousPaging != nil {
		if !v.HasContinuousPaging() {
			return fmt.Errorf("continuous paging not defined for %v", v)
		}
		fl |= 0x80000000
	}
	if v.IntQueryFlags() {
		x.int(int32(fl))
	} else {
		x.byte(byte(fl))
	}
	if q.HasValues {
		if q.Named {
			x.short(uint16(len(q.NamedValues)))
			for _, nv := range q.NamedValues {
				x.str(nv.Name)
				x.value(nv.Value)
			}
		} else {
			x.short(uint16(len(q.Positional)))
			for _, pv := range q.Positional {
				x.value(pv)
			}
		}
	}
	if q.PageSize != nil {
		x.int(*q.PageSize)
	}
	if q.PagingState != nil {
		x.bytes(*q.PagingState)
	}
	if q.SerialConsistency != nil {
		x.short(*q.SerialConsistency)
	}
	if q.Timestamp != nil {
		x.long(*q.Timestamp)
	}
	if q.Keyspace != nil {
		x.str(*q.Keyspace)
	}
	if q.NowInSeconds != nil {
		x.int(*q.NowInSeconds)
	}
	if q.ContinuousPaging != nil {
		x.int(q.ContinuousPaging.MaxPages)
		x.int(q.ContinuousPaging.PagesPerSecond)
		if v.HasNextPages() {
			x.int(q.ContinuousPaging.NextPages)
		}
	}
	return nil
}

func encodeBatch(x *w, v Version, m *Batch) error {
	// <type><n><query_1>...<query_n><consistency>[<flags>[<serial_consistency>][<timestamp>][<keyspace>][<now_in_seconds>]]
	x.byte(m.Type)
	x.short(uint16(len(m.Children)))
	for _, c := range m.Children {
		if c.IsID {
			x.byte(1)
			x.sbytes(c.ID)
		} else {
			x.byte(0)
			x.lstr(c.Query)
		}
		x.short(uint16(len(c.Values)))
		for _, pv := range c.Values {
			x.value(pv)
		}
	}
	x.short(m.Consistency)
	if !v.HasBatchFlags() {
		if m.SerialConsistency != nil || m.Timestamp != nil || m.Keyspace != nil || m.NowInSeconds != nil {
			return fmt.Errorf("batch options not defined for %v", v)
		}
		return nil
	}
	var fl uint32
	if m.SerialConsistency != nil {
		fl |= 0x10
	}
	if m.Timestamp != nil {
		fl |= 0x20
	}
	if m.Keyspace != nil {
		if !v.HasKeyspace() {
			return fmt.Errorf("keyspace not defined for %v", v)
		}
		fl |= 0x80
	}
	if m.NowInSeconds != nil {
		if !v.HasNowInSeconds() {
			return fmt.Errorf("now_in_seconds not defined for %v", v)
		}
		fl |= 0x100
	}
	if v.IntQueryFlags() {
		x.int(int32(fl))
	} else {
		x.byte(byte(fl))
	}
	if m.SerialConsistency != nil {
		x.short(*m.SerialConsistency)
	}
	if m.Timestamp != nil {
		x.long(*m.Timestamp)
	}
	if m.Keyspace != nil {
		x.str(*m.Keyspace)
	}
	if m.NowInSeconds != nil {
		x.int(*m.NowInSeconds)
	}
	return nil
}

func sameTable(cols []ColumnSpec) bool {
	if len(cols) == 0 {
		return false
	}
	for _, c := range cols[1:] {
		if c.Keyspace != cols[0].Keyspace || c.Table != cols[0].Table {
			return false
		}
	}
	return true
}

func encodeRowsMetadata(x *w, v Version, m *RowsMetadata, o EncOpts) error {
	// <flags><columns_count>[<paging_state>][<new_metadata_id>][<continuous_page_no>][<global_table_spec>?<col_spec_1>...]
	var fl uint32
	noMeta := len(m.Columns) == 0
	global := !noMeta && !o.NoGlobalSpec && sameTable(m.Columns)
	if global {
		fl |= 0x0001
	}
	if m.PagingState != nil {
		fl |= 0x0002
	}
	if noMeta {
		fl |= 0x0004
		if o.GlobalWithNoMetadata {
			fl |= 0x0001
		}
	}
	if m.NewMetadataID != nil {
		if !v.HasResultMetadataID() {
			return fmt.Errorf("new metadata id not defined for %v", v)
		}
		fl |= 0x0008
	}
	if m.ContinuousPage != nil {
		if !v.HasContinuousPaging() {
			return fmt.Errorf("continuous paging not defined for %v", v)
		}
		fl |= 0x40000000
		if m.LastPage {
			fl |= 0x80000000
		}
	}
	x.int(int32(fl))
	x.int(m.ColumnCount)
	if m.PagingState != nil {
		x.bytes(*m.PagingState)
	}
	if m.NewMetadataID != nil {
		x.sbytes(*m.NewMetadataID)
	}
	if m.ContinuousPage != nil {
		x.int(*m.ContinuousPage)
	}
	if !noMeta {
		if int(m.ColumnCount) != len(m.Columns) {
			return fmt.Errorf("column count %d != %d specs", m.ColumnCount, len(m.Columns))
		}
		return encodeColumns(x, v, m.Columns, global)
	}
	return nil
}

func encodeColumns(x *w, v Version, cols []ColumnSpec, global bool) error {
	if global {
		x.str(cols[0].Keyspace)
		x.str(cols[0].Table)
	}
	for _, c := range cols {
		if !global {
			x.str(c.Keyspace)
			x.str(c.Table)
		}
		x.str(c.Name)
		if err := encodeType(x, v, &c.Type); err != nil {
			return err
		}
	}
	return nil
}

// EncodeType writes an [option] type descriptor (§4.2.5.2).
func EncodeType(v Version, t *Type) ([]byte, error) {
	var x w
	err := encodeType(&x, v, t)
	return x.b, err
}

func encodeType(x *w, v Version, t *Type) error {
	x.short(t.Code)
	switch t.Code {
	case TCustom:
		x.str(t.Custom)
	case TList, TSet:
		if len(t.Elems) != 1 {
			return fmt.Errorf("list/set needs 1 element type")
		}
		return encodeType(x, v, &t.Elems[0])
	case TMap:
		if len(t.Elems) != 2 {
			return fmt.Errorf("map needs 2 element types")
		}
		if err := encodeType(x, v, &t.Elems[0]); err != nil {
			return err
		}
		return encodeType(x, v, &t.Elems[1])
	case TUDT:
		// <ks><udt_name><n><name_1><type_1>...<name_n><type_n>
		x.str(t.Keyspace)
		x.str(t.Name)
		x.short(uint16(len(t.Elems)))
		for i := range t.Elems {
			x.str(t.Fields[i])
			if err := encodeType(x, v, &t.Elems[i]); err != nil {
				return err
			}
		}
	case TTuple:
		x.short(uint16(len(t.Elems)))
		for i := range t.Elems {
			if err := encodeType(x, v, &t.Elems[i]); err != nil {
				return err
			}
		}
	}
	return nil
}

func encodeSchemaChange(x *w, v Version, m *SchemaChange) error {
	x.str(m.ChangeType)
	if !v.HasSchemaChangeTarget() {
		// v2: <change><keyspace><table>; "<table> ... will be empty (i.e. the empty string "") if the change was affecting a keyspace"
		x.str(m.Keyspace)
		x.str(m.Object)
		return nil
	}
	x.str(m.Target)
	x.str(m.Keyspace)
	switch m.Target {
	case "KEYSPACE":
	case "TABLE", "TYPE":
		x.str(m.Object)
	case "FUNCTION", "AGGREGATE":
		x.str(m.Object)
		x.strlist(m.Args)
	default:
		return fmt.Errorf("unknown schema change target %q", m.Target)
	}
	return nil
}

func encodeError(x *w, v Version, m *Error) error {
	x.int(m.Code)
	x.str(m.Message)
	switch m.Code {
	case ErrUnavailable:
		x.short(m.Consistency)
		x.int(m.Required)
		x.int(m.Alive)
	case ErrWriteTimeout:
		x.short(m.Consistency)
		x.int(m.Received)
		x.int(m.BlockFor)
		x.str(m.WriteType)
		if v.HasContentions() && m.WriteType == "CAS" {
			x.short(m.Contentions)
		}
	case ErrReadTimeout:
		x.short(m.Consistency)
		x.int(m.Received)
		x.int(m.BlockFor)
		x.byte(b2b(m.DataPresent))
	case ErrReadFailure:
		x.short(m.Consistency)
		x.int(m.Received)
		x.int(m.BlockFor)
		encodeFailures(x, v, m)
		x.byte(b2b(m.DataPresent))
	case ErrWriteFailure:
		x.short(m.Consistency)
		x.int(m.Received)
		x.int(m.BlockFor)
		encodeFailures(x, v, m)
		x.str(m.WriteType)
	case ErrFunctionFailure:
		x.str(m.Keyspace)
		x.str(m.Function)
		x.strlist(m.Args)
	case ErrAlreadyExists:
		x.str(m.Keyspace)
		x.str(m.Table)
	case ErrUnprepared:
		x.sbytes(m.ID)
	}
	return nil
}

func encodeFailures(x *w, v Version, m *Error) {
	if v.HasReasonMap() {
		// <reasonmap>: [int] n followed by n pairs of <endpoint><failurecode>: [inetaddr], [short]
		x.int(int32(len(m.Reasons)))
		for _, r := range m.Reasons {
			x.inetaddr(r.IP)
			x.short(r.Code)
		}
	} else {
		x.int(m.NumFailures)
	}
}

func b2b(b bool) byte {
	if b {
		return 1
	}
	return 0
}
