// Package cases is the shared case list of C01, C02, C03, C05 (and others that need version-valid
// frames): (1) the exhaustive, seed-independent enumeration of optional-field shapes for every
// (message kind, version), each with `Draws` PRNG value draws; (2) every frame-level flag
// combination for every (kind, version); (3) `Random` PRNG frames.
package cases

import (
	"fmt"
	"sync/atomic"

	"verif/internal/gen"
	"verif/internal/mon"
	"verif/internal/ref"
)

type Plan struct {
	Seed   int64
	Draws  int  // value draws per enumerated shape
	Random int  // number of PRNG frames
	Big    bool // thorough value pools
}

type Stats struct {
	Shapes  int64 // enumerated shapes (kind, version, chooser path)
	Flagged int64
	Random  int64
	Pairs   int
}

// ForEach calls fn for every case of the plan, in parallel. fn must be safe for concurrent use.
func ForEach(p Plan, fn func(cs gen.Case, id string)) Stats {
	type pair struct {
		k *gen.Kind
		v ref.Version
	}
	var pairs []pair
	for i := range gen.Kinds {
		for _, v := range ref.Versions {
			if gen.Kinds[i].Defined(v) {
				pairs = append(pairs, pair{&gen.Kinds[i], v})
			}
		}
	}
	var st Stats
	st.Pairs = len(pairs)
	// (1) + (2): one task per (kind, version)
	mon.Parallel(len(pairs), func(pi int) {
		k, v := pairs[pi].k, pairs[pi].v
		c := gen.NewEnumChooser()
		shape := 0
		for {
			for d := 0; d < p.Draws; d++ {
				c.Reset()
				r := mon.NewRand(p.Seed, uint64(pi)<<40|uint64(shape)<<8|uint64(d))
				cs := gen.Frame(k, v, c, r, p.Big, -1)
				fn(cs, fmt.Sprintf("shape/%s/%v/%s/%d", k.Name, v, cs.Shape, d))
			}
			atomic.AddInt64(&st.Shapes, 1)
			shape++
			if !c.Next() {
				break
			}
		}
		for fl := 0; fl < 8; fl++ {
			r := mon.NewRand(p.Seed, 1<<62|uint64(pi)<<8|uint64(fl))
			cs := gen.Frame(k, v, gen.NewRandChooser(r), r, p.Big, fl)
			fn(cs, fmt.Sprintf("flags/%s/%v/%d", k.Name, v, fl))
			atomic.AddInt64(&st.Flagged, 1)
		}
	})
	// (3) PRNG frames
	mon.Parallel(p.Random, func(i int) {
		cs := RandomCase(p.Seed, i, p.Big)
		fn(cs, fmt.Sprintf("random/%d", i))
		atomic.AddInt64(&st.Random, 1)
	})
	return st
}

// RandomCase is the i-th PRNG frame of a seed.
func RandomCase(seed int64, i int, big bool) gen.Case {
	r := mon.NewRand(seed, 1<<63|uint64(i))
	for {
		k := &gen.Kinds[r.Intn(len(gen.Kinds))]
		v := ref.Versions[r.Intn(len(ref.Versions))]
		if !k.Defined(v) {
			continue
		}
		return gen.Frame(k, v, gen.NewRandChooser(r), r, big, -1)
	}
}

// ByID regenerates one case from its id ("shape/<kind>/<version>/<path>/<draw>", "flags/<kind>/<version>/<fl>",
// "random/<i>") for the same seed and tier.
func ByID(seed int64, id string, big bool) (gen.Case, bool) {
	var found gen.Case
	ok := false
	var i int
	if n, _ := fmt.Sscanf(id, "random/%d", &i); n == 1 {
		return RandomCase(seed, i, big), true
	}
	// shapes and flags: re-run the (cheap) enumeration of that pair and pick the matching id
	p := Plan{Seed: seed, Draws: 6, Random: 0, Big: big}
	done := int32(0)
	ForEach(p, func(cs gen.Case, cid string) {
		if cid == id && atomic.CompareAndSwapInt32(&done, 0, 1) {
			found, ok = cs, true
		}
	})
	return found, ok
}
