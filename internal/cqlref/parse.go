package cqlref

import (
	"errors"
	"fmt"
	"math/big"
	"unicode/utf8"
)

// Parse is the strict inverse of Serialize: b is the body of a [bytes] (nil = NULL). It fails on
// trailing bytes, wrong fixed widths, truncated elements, negative counts, invalid UTF-8 / ASCII,
// out-of-range time values. A zero-length body of a non-string type parses to the legacy
// "empty value" (Value.Empty), which no generator of this harness produces on purpose.
// Deliberately lenient where the specification is: any non-zero byte is boolean true, a varint
// need not be minimal, a [vint] need not be the shortest form, a udt may have fewer values than
// fields (missing trailing fields are left out of Elems).
func Parse(t *Type, b []byte, ver Version) (*Value, error) {
	if b == nil {
		return NullValue(), nil
	}
	switch t.Kind {
	case Ascii, Text, Blob, Custom:
	default:
		if len(b) == 0 && t.Kind != UDT {
			return &Value{Empty: true}, nil
		}
	}
	width := func(n int) error {
		if len(b) != n {
			return fmt.Errorf("cqlref: %s of %d bytes, want %d", t.Kind, len(b), n)
		}
		return nil
	}
	switch t.Kind {
	case Bigint, Counter:
		return parseFixed(b, 8, t)
	case Int:
		return parseFixed(b, 4, t)
	case Smallint:
		return parseFixed(b, 2, t)
	case Tinyint:
		return parseFixed(b, 1, t)
	case Varint:
		x, err := ParseVarint2c(b)
		if err != nil {
			return nil, err
		}
		return &Value{Int: x}, nil
	case Decimal:
		if len(b) < 5 {
			return nil, fmt.Errorf("cqlref: decimal of %d bytes, want at least 5", len(b))
		}
		x, err := ParseVarint2c(b[4:])
		if err != nil {
			return nil, err
		}
		return &Value{Int: x, Scale: int32(uint32(ube(b[:4])))}, nil
	case Float:
		if err := width(4); err != nil {
			return nil, err
		}
		return &Value{Bits: ube(b)}, nil
	case Double:
		if err := width(8); err != nil {
			return nil, err
		}
		return &Value{Bits: ube(b)}, nil
	case Boolean:
		if err := width(1); err != nil {
			return nil, err
		}
		return &Value{Bool: b[0] != 0}, nil
	case Date:
		if err := width(4); err != nil {
			return nil, err
		}
		return &Value{U32: uint32(ube(b))}, nil
	case Time:
		if err := width(8); err != nil {
			return nil, err
		}
		ns := int64(ube(b))
		if ns < 0 || ns > 86399999999999 {
			return nil, fmt.Errorf("cqlref: time %d outside 0..86399999999999", ns)
		}
		return &Value{I64: ns}, nil
	case Timestamp:
		if err := width(8); err != nil {
			return nil, err
		}
		return &Value{I64: int64(ube(b))}, nil
	case Duration:
		mo, rest, err := ReadVint(b)
		if err != nil {
			return nil, err
		}
		d, rest, err := ReadVint(rest)
		if err != nil {
			return nil, err
		}
		ns, rest, err := ReadVint(rest)
		if err != nil {
			return nil, err
		}
		if len(rest) != 0 {
			return nil, fmt.Errorf("cqlref: duration: %d trailing bytes", len(rest))
		}
		if mo != int64(int32(mo)) || d != int64(int32(d)) {
			return nil, errors.New("cqlref: duration months/days beyond 32 bits")
		}
		return &Value{Months: mo, Days: d, Nanos: ns}, nil
	case Ascii:
		for _, c := range b {
			if c > 127 {
				return nil, errors.New("cqlref: ascii byte outside [0,127]")
			}
		}
		return BytesValue(b), nil
	case Text:
		if !utf8.Valid(b) {
			return nil, errors.New("cqlref: text is not valid UTF-8")
		}
		return BytesValue(b), nil
	case Blob, Custom:
		return BytesValue(b), nil
	case Uuid, Timeuuid:
		if err := width(16); err != nil {
			return nil, err
		}
		return BytesValue(b), nil
	case Inet:
		if len(b) != 4 && len(b) != 16 {
			return nil, fmt.Errorf("cqlref: inet of %d bytes", len(b))
		}
		return BytesValue(b), nil
	case List, Set:
		return parseCollection(t.Elems[:1], b, ver)
	case Map:
		return parseCollection(t.Elems, b, ver)
	case Tuple, UDT:
		out := SeqValue()
		rest := b
		for i, ft := range t.Elems {
			if len(rest) == 0 && t.Kind == UDT {
				break // §6: fewer values than fields
			}
			var eb []byte
			var err error
			if eb, rest, err = readBytes(rest); err != nil {
				return nil, fmt.Errorf("cqlref: %s field %d: %w", t.Kind, i, err)
			}
			e, err := Parse(ft, eb, ver)
			if err != nil {
				return nil, fmt.Errorf("cqlref: %s field %d: %w", t.Kind, i, err)
			}
			out.Elems = append(out.Elems, e)
		}
		if len(rest) != 0 {
			return nil, fmt.Errorf("cqlref: %s: %d trailing bytes", t.Kind, len(rest))
		}
		return out, nil
	}
	return nil, fmt.Errorf("cqlref: unknown kind %d", t.Kind)
}

func parseCollection(ts []*Type, b []byte, ver Version) (*Value, error) {
	var n int
	rest := b
	if ver.ShortCollections() {
		if len(rest) < 2 {
			return nil, errors.New("cqlref: collection: truncated [short] count")
		}
		n, rest = int(ube(rest[:2])), rest[2:]
	} else {
		if len(rest) < 4 {
			return nil, errors.New("cqlref: collection: truncated [int] count")
		}
		n, rest = int(int32(uint32(ube(rest[:4])))), rest[4:]
		if n < 0 {
			return nil, fmt.Errorf("cqlref: collection: negative count %d", n)
		}
	}
	out := SeqValue()
	for i := 0; i < n*len(ts); i++ {
		var eb []byte
		var err error
		if ver.ShortCollections() {
			if len(rest) < 2 {
				return nil, fmt.Errorf("cqlref: collection element %d: truncated [short bytes] length", i)
			}
			l := int(ube(rest[:2]))
			if len(rest) < 2+l {
				return nil, fmt.Errorf("cqlref: collection element %d: truncated [short bytes]", i)
			}
			eb, rest = nonNil(rest[2:2+l]), rest[2+l:]
		} else if eb, rest, err = readBytes(rest); err != nil {
			return nil, fmt.Errorf("cqlref: collection element %d: %w", i, err)
		}
		e, err := Parse(ts[i%len(ts)], eb, ver)
		if err != nil {
			return nil, fmt.Errorf("cqlref: collection element %d: %w", i, err)
		}
		out.Elems = append(out.Elems, e)
	}
	if len(rest) != 0 {
		return nil, fmt.Errorf("cqlref: collection: %d trailing bytes", len(rest))
	}
	return out, nil
}

// readBytes reads a [bytes]: [int] n then n bytes; n < 0 is NULL (nil result).
func readBytes(b []byte) (val, rest []byte, err error) {
	if len(b) < 4 {
		return nil, nil, errors.New("truncated [bytes] length")
	}
	n := int(int32(uint32(ube(b[:4]))))
	if n < 0 {
		return nil, b[4:], nil
	}
	if len(b) < 4+n {
		return nil, nil, errors.New("truncated [bytes]")
	}
	return nonNil(b[4 : 4+n]), b[4+n:], nil
}

func nonNil(b []byte) []byte {
	if b == nil {
		return []byte{}
	}
	return b
}

func ube(b []byte) uint64 {
	var x uint64
	for _, c := range b {
		x = x<<8 | uint64(c)
	}
	return x
}

func parseFixed(b []byte, width int, t *Type) (*Value, error) {
	if len(b) != width {
		return nil, fmt.Errorf("cqlref: %s of %d bytes, want %d", t.Kind, len(b), width)
	}
	x, _ := ParseVarint2c(b)
	return &Value{Int: new(big.Int).Set(x)}, nil
}
