package cqlref

import (
	"encoding/hex"
	"math"
	"math/big"
	"testing"
)

func hx(b []byte) string { return hex.EncodeToString(b) }

// The examples printed in the specification itself.
func TestSpecExamples(t *testing.T) {
	for _, c := range []struct {
		v    int64
		want string
	}{{0, "00"}, {1, "01"}, {127, "7f"}, {128, "0080"}, {129, "0081"}, {-1, "ff"}, {-128, "80"}, {-129, "ff7f"}} {
		got, err := Serialize(Scalar(Varint), Int64Value(c.v), V5)
		if err != nil || hx(got) != c.want {
			t.Errorf("varint %d: got %s %v want %s", c.v, hx(got), err, c.want)
		}
		back, err := Parse(Scalar(Varint), got, V5)
		if err != nil || back.Int.Int64() != c.v {
			t.Errorf("varint %d: parsed %v %v", c.v, back, err)
		}
	}
	// §3 [unsigned vint]: 256000 is [110]00011 11101000 00000000
	if got := hx(AppendUnsignedVint(nil, 256000)); got != "c3e800" {
		t.Errorf("unsigned vint 256000: %s", got)
	}
	// §3 [vint] zig-zag: 0 = 0, -1 = 1, 1 = 2, -2 = 3, 2 = 4, -3 = 5, 3 = 6
	for i, n := range []int64{0, -1, 1, -2, 2, -3, 3} {
		if got := AppendVint(nil, n); len(got) != 1 || int(got[0]) != i {
			t.Errorf("vint %d: %s", n, hx(got))
		}
	}
	// §5.5 date: 0 -> -5877641-06-23 ; 2^31 -> 1970-1-1
	if got, _ := Serialize(Scalar(Date), DateFromEpochDays(0), V5); hx(got) != "80000000" {
		t.Errorf("date epoch: %s", hx(got))
	}
	if got, _ := Serialize(Scalar(Date), DateFromEpochDays(math.MinInt32), V5); hx(got) != "00000000" {
		t.Errorf("date min: %s", hx(got))
	}
}

func TestVintRoundTrip(t *testing.T) {
	vals := []int64{0, 1, -1, 63, 64, -64, -65, math.MaxInt64, math.MinInt64, math.MaxInt32, math.MinInt32}
	for k := uint(0); k < 63; k++ {
		vals = append(vals, 1<<k, 1<<k-1, 1<<k+1, -(1 << k), -(1<<k)-1, -(1<<k)+1)
	}
	for _, n := range vals {
		b := AppendVint(nil, n)
		got, rest, err := ReadVint(b)
		if err != nil || len(rest) != 0 || got != n {
			t.Fatalf("vint %d: %s -> %d %v", n, hx(b), got, err)
		}
		// shortest form: 7 value bits per byte up to 8 bytes, 9 bytes beyond 2^56
		u := uint64(n>>63) ^ uint64(n)<<1
		want := 9
		for l := 1; l <= 8; l++ {
			if l == 8 && u>>56 == 0 || l < 8 && u>>(7*uint(l)) == 0 {
				want = l
				break
			}
		}
		if len(b) != want {
			t.Fatalf("vint %d (zigzag %d): %d bytes, want %d", n, u, len(b), want)
		}
	}
}

func TestVarintRoundTrip(t *testing.T) {
	one := big.NewInt(1)
	for k := uint(0); k <= 200; k++ {
		p := new(big.Int).Lsh(one, k)
		for _, x := range []*big.Int{p, new(big.Int).Sub(p, one), new(big.Int).Add(p, one),
			new(big.Int).Neg(p), new(big.Int).Neg(new(big.Int).Sub(p, one)), new(big.Int).Neg(new(big.Int).Add(p, one))} {
			b := Varint2c(x)
			y, err := ParseVarint2c(b)
			if err != nil || y.Cmp(x) != 0 {
				t.Fatalf("varint %s: %s -> %s", x, hx(b), y)
			}
			// minimality: dropping the first byte must change the value (or be impossible)
			if len(b) > 1 {
				if z, _ := ParseVarint2c(b[1:]); z.Cmp(x) == 0 {
					t.Fatalf("varint %s: %s is not minimal", x, hx(b))
				}
			}
		}
	}
}

func TestCollections(t *testing.T) {
	lt := NewList(Scalar(Int))
	v := SeqValue(Int64Value(1), Int64Value(-2))
	b3, _ := Serialize(lt, v, V3)
	if hx(b3) != "00000002"+"00000004"+"00000001"+"00000004"+"fffffffe" {
		t.Errorf("v3 list: %s", hx(b3))
	}
	b2, _ := Serialize(lt, v, V2)
	if hx(b2) != "0002"+"0004"+"00000001"+"0004"+"fffffffe" {
		t.Errorf("v2 list: %s", hx(b2))
	}
	for _, c := range []struct {
		b   []byte
		ver Version
	}{{b3, V3}, {b2, V2}} {
		back, err := Parse(lt, c.b, c.ver)
		if err != nil || !Equal(lt, back, v) {
			t.Errorf("parse %s: %v %v", c.ver, back, err)
		}
		if _, err := Parse(lt, append(append([]byte{}, c.b...), 0), c.ver); err == nil {
			t.Errorf("trailing byte accepted (%s)", c.ver)
		}
	}
	if _, err := Serialize(lt, SeqValue(NullValue()), V2); err == nil {
		t.Errorf("null element in v2 collection accepted")
	}
	tt := NewTuple(Scalar(Int), Scalar(Text))
	b, _ := Serialize(tt, SeqValue(NullValue(), BytesValue([]byte("a"))), V4)
	if hx(b) != "ffffffff"+"00000001"+"61" {
		t.Errorf("tuple: %s", hx(b))
	}
	ut := NewUDT("ks", "u", []string{"a", "b"}, []*Type{Scalar(Int), Scalar(Text)})
	short, err := Parse(ut, []byte{0, 0, 0, 4, 0, 0, 0, 7}, V4)
	if err != nil || len(short.Elems) != 1 || !Equal(ut, short, SeqValue(Int64Value(7), NullValue())) {
		t.Errorf("short udt: %v %v", short, err)
	}
	mt := NewMap(Scalar(Int), Scalar(Int))
	if !Equal(mt, MapValue(Int64Value(1), Int64Value(2), Int64Value(3), Int64Value(4)), MapValue(Int64Value(3), Int64Value(4), Int64Value(1), Int64Value(2))) {
		t.Errorf("map multiset equality")
	}
	d, _ := Serialize(Scalar(Decimal), DecimalValue(big.NewInt(-129), 3), V4)
	if hx(d) != "00000003ff7f" {
		t.Errorf("decimal: %s", hx(d))
	}
}

func TestNestedMapEquality(t *testing.T) {
	inner := NewMap(Scalar(Int), Scalar(Int))
	outer := NewMap(Scalar(Int), inner)
	a := MapValue(Int64Value(1), MapValue(Int64Value(1), Int64Value(2), Int64Value(3), Int64Value(4)))
	b := MapValue(Int64Value(1), MapValue(Int64Value(3), Int64Value(4), Int64Value(1), Int64Value(2)))
	if !Equal(outer, a, b) || Format(outer, a) != Format(outer, b) {
		t.Errorf("nested maps in different entry order must be equal")
	}
}
