package cqlref

import (
	"errors"
	"fmt"
	"math/big"
	"unicode/utf8"
)

// Serialize returns the serialized form of value v of type t for the given protocol version: the
// body of the [bytes] that carries the value, without its length prefix (§5: "the serialization
// formats described here will not include a length component"). NULL serializes to a nil slice,
// every other value to a non-nil (possibly empty) slice.
//
// An error means that (t, v, version) is outside the domain of the specification: an integer that
// does not fit its width, a uuid that is not 16 bytes, a NULL element or an element longer than
// 65535 bytes in a protocol-v2 collection, months/days of a duration beyond 32 bits, ...
func Serialize(t *Type, v *Value, ver Version) ([]byte, error) {
	if v == nil {
		return nil, errors.New("cqlref: nil *Value")
	}
	if v.Null {
		return nil, nil
	}
	if v.Empty {
		return []byte{}, nil
	}
	switch t.Kind {
	case Bigint, Counter:
		return fixedInt(v.Int, 8, t)
	case Int:
		return fixedInt(v.Int, 4, t)
	case Smallint:
		return fixedInt(v.Int, 2, t)
	case Tinyint:
		return fixedInt(v.Int, 1, t)
	case Varint:
		if v.Int == nil {
			return nil, errors.New("cqlref: varint without Int")
		}
		return Varint2c(v.Int), nil
	case Decimal:
		// §5.6: an [int] scale followed by a varint encoding of the unscaled value.
		if v.Int == nil {
			return nil, errors.New("cqlref: decimal without Int")
		}
		out := be(uint64(uint32(v.Scale)), 4)
		return append(out, Varint2c(v.Int)...), nil
	case Float:
		return be(v.Bits&0xFFFFFFFF, 4), nil
	case Double:
		return be(v.Bits, 8), nil
	case Boolean:
		// §5.4: 0 denotes false; "it is recommended that a value of 1 be used to represent true".
		if v.Bool {
			return []byte{1}, nil
		}
		return []byte{0}, nil
	case Date:
		// §5.5: an unsigned integer representing days with epoch centered at 2^31.
		return be(uint64(v.U32), 4), nil
	case Time:
		// §5.17: an 8 byte two's complement long, nanoseconds since midnight, 0..86399999999999.
		if v.I64 < 0 || v.I64 > 86399999999999 {
			return nil, fmt.Errorf("cqlref: time %d outside 0..86399999999999", v.I64)
		}
		return be(uint64(v.I64), 8), nil
	case Timestamp:
		return be(uint64(v.I64), 8), nil
	case Duration:
		// §5.8: three [vint]s: months, days (32-bit), nanoseconds (64-bit), all of the same sign.
		if v.Months != int64(int32(v.Months)) || v.Days != int64(int32(v.Days)) {
			return nil, fmt.Errorf("cqlref: duration months/days beyond 32 bits")
		}
		neg := v.Months < 0 || v.Days < 0 || v.Nanos < 0
		pos := v.Months > 0 || v.Days > 0 || v.Nanos > 0
		if neg && pos {
			return nil, fmt.Errorf("cqlref: duration with mixed signs")
		}
		out := AppendVint(nil, v.Months)
		out = AppendVint(out, v.Days)
		return AppendVint(out, v.Nanos), nil
	case Ascii:
		for _, c := range v.Bytes {
			if c > 127 {
				return nil, errors.New("cqlref: ascii byte outside [0,127]")
			}
		}
		return cloneBytes(v.Bytes), nil
	case Text:
		if !utf8.Valid(v.Bytes) {
			return nil, errors.New("cqlref: text is not valid UTF-8")
		}
		return cloneBytes(v.Bytes), nil
	case Blob, Custom:
		return cloneBytes(v.Bytes), nil
	case Uuid, Timeuuid:
		if len(v.Bytes) != 16 {
			return nil, fmt.Errorf("cqlref: uuid of %d bytes", len(v.Bytes))
		}
		return cloneBytes(v.Bytes), nil
	case Inet:
		if len(v.Bytes) != 4 && len(v.Bytes) != 16 {
			return nil, fmt.Errorf("cqlref: inet of %d bytes", len(v.Bytes))
		}
		return cloneBytes(v.Bytes), nil
	case List, Set:
		return collection(t.Elems[:1], v.Elems, ver)
	case Map:
		if len(v.Elems)%2 != 0 {
			return nil, errors.New("cqlref: map with odd element count")
		}
		return collection(t.Elems, v.Elems, ver)
	case Tuple:
		// §5.21: a sequence of [bytes], one per position; NULL as length -1.
		if len(v.Elems) != len(t.Elems) {
			return nil, fmt.Errorf("cqlref: tuple value with %d items for %d positions", len(v.Elems), len(t.Elems))
		}
		return fields(t, v, ver)
	case UDT:
		// §6: successive [bytes], one per field in type order; fewer values than fields is allowed.
		if len(v.Elems) > len(t.Elems) {
			return nil, fmt.Errorf("cqlref: udt value with %d items for %d fields", len(v.Elems), len(t.Elems))
		}
		return fields(t, v, ver)
	}
	return nil, fmt.Errorf("cqlref: unknown kind %d", t.Kind)
}

// collection writes the count and the elements. v3+: [int] n, each element a [bytes] (§5.12-5.14);
// v1/v2: [short] n, each element a [short bytes] (v2 spec §6). For maps ts = [key, value] and the
// count is the number of entries.
func collection(ts []*Type, elems []*Value, ver Version) ([]byte, error) {
	n := len(elems) / len(ts)
	var out []byte
	if ver.ShortCollections() {
		if n > 0xFFFF {
			return nil, errors.New("cqlref: more than 65535 elements in a protocol v2 collection")
		}
		out = be(uint64(n), 2)
	} else {
		if n > 0x7FFFFFFF {
			return nil, errors.New("cqlref: more than 2^31-1 elements")
		}
		out = be(uint64(n), 4)
	}
	for i, e := range elems {
		b, err := Serialize(ts[i%len(ts)], e, ver)
		if err != nil {
			return nil, err
		}
		if ver.ShortCollections() {
			if b == nil {
				return nil, errors.New("cqlref: NULL element in a protocol v2 collection ([short bytes] cannot be null)")
			}
			if len(b) > 0xFFFF {
				return nil, errors.New("cqlref: element longer than 65535 bytes in a protocol v2 collection")
			}
			out = append(out, be(uint64(len(b)), 2)...)
			out = append(out, b...)
		} else {
			out = appendBytes(out, b)
		}
	}
	return out, nil
}

func fields(t *Type, v *Value, ver Version) ([]byte, error) {
	out := []byte{}
	for i, e := range v.Elems {
		b, err := Serialize(t.Elems[i], e, ver)
		if err != nil {
			return nil, err
		}
		out = appendBytes(out, b)
	}
	return out, nil
}

// appendBytes appends a [bytes]: an [int] length n followed by n bytes, or -1 for NULL.
func appendBytes(out, b []byte) []byte {
	if b == nil {
		return append(out, 0xFF, 0xFF, 0xFF, 0xFF)
	}
	out = append(out, be(uint64(len(b)), 4)...)
	return append(out, b...)
}

func cloneBytes(b []byte) []byte {
	out := make([]byte, len(b))
	copy(out, b)
	return out
}

// be returns the low `width` bytes of x, most significant first.
func be(x uint64, width int) []byte {
	out := make([]byte, width)
	for i := width - 1; i >= 0; i-- {
		out[i] = byte(x)
		x >>= 8
	}
	return out
}

// fixedInt is a two's-complement big-endian integer of exactly `width` bytes.
func fixedInt(x *big.Int, width int, t *Type) ([]byte, error) {
	if x == nil {
		return nil, fmt.Errorf("cqlref: %s without Int", t.Kind)
	}
	lim := new(big.Int).Lsh(big.NewInt(1), uint(8*width-1))
	if x.Cmp(lim) >= 0 || x.Cmp(new(big.Int).Neg(lim)) < 0 {
		return nil, fmt.Errorf("cqlref: %s does not fit %s", x, t.Kind)
	}
	return twosComplement(x, width), nil
}

// twosComplement renders x on exactly n bytes (the caller guarantees that it fits).
func twosComplement(x *big.Int, n int) []byte {
	out := make([]byte, n)
	if x.Sign() >= 0 {
		x.FillBytes(out)
		return out
	}
	// -x-1 is the bitwise complement of x: write it and invert every byte.
	m := new(big.Int).Not(x)
	m.FillBytes(out)
	for i := range out {
		out[i] = ^out[i]
	}
	return out
}

// Varint2c is the CQL varint format (§5.24): the shortest two's-complement big-endian encoding,
// at least one byte; positive numbers whose leading byte would be >= 0x80 get a leading 0x00.
func Varint2c(x *big.Int) []byte {
	var bits int
	if x.Sign() >= 0 {
		bits = x.BitLen()
	} else {
		bits = new(big.Int).Not(x).BitLen()
	}
	// bits value bits plus one sign bit
	return twosComplement(x, bits/8+1)
}

// ParseVarint2c is the inverse of Varint2c; it accepts non-minimal encodings.
func ParseVarint2c(b []byte) (*big.Int, error) {
	if len(b) == 0 {
		return nil, errors.New("cqlref: varint of zero bytes")
	}
	if b[0]&0x80 == 0 {
		return new(big.Int).SetBytes(b), nil
	}
	inv := make([]byte, len(b))
	for i := range b {
		inv[i] = ^b[i]
	}
	m := new(big.Int).SetBytes(inv)
	return m.Not(m), nil
}

// AppendUnsignedVint appends an [unsigned vint] (v5 spec §3): most significant byte first; the
// number of extra bytes is the number of leading 1 bits of the first byte; 9 bytes with a first
// byte of 0xFF when the integer needs all 8 bytes. The shortest form is produced.
func AppendUnsignedVint(out []byte, x uint64) []byte {
	extra := 0
	for extra < 8 && x>>(uint(7+7*extra)) != 0 {
		extra++
	}
	if extra == 8 {
		out = append(out, 0xFF)
		return append(out, be(x, 8)...)
	}
	body := be(x, extra+1)
	body[0] |= byte((uint(0xFF00) >> uint(extra)) & 0xFF) // `extra` leading one bits
	return append(out, body...)
}

// AppendVint appends a [vint]: zig-zag ("(n >> 63) ^ (n << 1)") then [unsigned vint].
func AppendVint(out []byte, n int64) []byte {
	return AppendUnsignedVint(out, uint64(n>>63)^uint64(n)<<1)
}

// ReadUnsignedVint reads one [unsigned vint] from the front of b and returns the rest.
func ReadUnsignedVint(b []byte) (x uint64, rest []byte, err error) {
	if len(b) == 0 {
		return 0, nil, errors.New("cqlref: vint: no bytes")
	}
	extra := 0
	for extra < 8 && b[0]&(0x80>>uint(extra)) != 0 {
		extra++
	}
	if len(b) < 1+extra {
		return 0, nil, errors.New("cqlref: vint: truncated")
	}
	if extra < 8 {
		x = uint64(b[0] & (0xFF >> uint(extra+1)))
	}
	for i := 1; i <= extra; i++ {
		x = x<<8 | uint64(b[i])
	}
	return x, b[1+extra:], nil
}

// ReadVint reads one [vint] ("decode with (n >> 1) ^ -(n & 1)").
func ReadVint(b []byte) (int64, []byte, error) {
	u, rest, err := ReadUnsignedVint(b)
	return int64(u>>1) ^ -int64(u&1), rest, err
}
