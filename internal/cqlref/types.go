// Package cqlref is an INDEPENDENT serializer / parser of CQL values, written from the text of
// /repo/specs/native_protocol_v5.spec sections 5 and 6 ("Data Type Serialization Formats", "User
// Defined Types") and section 6 of native_protocol_v2.spec (collection format of protocol v1/v2).
// It imports nothing from the library under test: it is the oracle of C12 (serialization format)
// and supplies the abstract value model used by C11..C14.
//
// Model:
//   - Type  : a CQL type tree (20 scalar kinds, custom, list, set, map, tuple, udt).
//   - Value : an abstract CQL value of such a type (see Value).
//   - Serialize(t, v, version) produces the body of the [bytes] that carries v (nil for NULL).
//   - Parse(t, b, version) is the strict inverse.
package cqlref

import (
	"fmt"
	"strings"
)

// Version is a native-protocol version byte (without the direction bit).
type Version uint8

const (
	V2   Version = 2
	V3   Version = 3
	V4   Version = 4
	V5   Version = 5
	DSE1 Version = 0x41
	DSE2 Version = 0x42
)

// AllVersions lists the versions the checks iterate over.
var AllVersions = []Version{V2, V3, V4, V5, DSE2}

// ShortCollections reports whether collections use the protocol v1/v2 format ([short] count,
// [short bytes] elements, no NULL elements) instead of the v3+ format ([int] count, [bytes]
// elements).
func (v Version) ShortCollections() bool { return v <= 2 }

func (v Version) String() string {
	switch v {
	case DSE1:
		return "dse1"
	case DSE2:
		return "dse2"
	}
	return fmt.Sprintf("v%d", uint8(v))
}

// Kind enumerates the CQL types.
type Kind int

const (
	Ascii Kind = iota
	Bigint
	Blob
	Boolean
	Counter
	Date
	Decimal
	Double
	Duration
	Float
	Inet
	Int
	Smallint
	Text // varchar / text
	Time
	Timestamp
	Timeuuid
	Tinyint
	Uuid
	Varint
	Custom
	List
	Set
	Map
	Tuple
	UDT
	numKinds
)

var kindNames = [...]string{"ascii", "bigint", "blob", "boolean", "counter", "date", "decimal", "double",
	"duration", "float", "inet", "int", "smallint", "varchar", "time", "timestamp", "timeuuid", "tinyint",
	"uuid", "varint", "custom", "list", "set", "map", "tuple", "udt"}

func (k Kind) String() string {
	if k < 0 || int(k) >= len(kindNames) {
		return "?"
	}
	return kindNames[k]
}

// IsScalar is true for the 20 primitive kinds and custom.
func (k Kind) IsScalar() bool { return k <= Custom }

// ScalarKinds lists the 20 primitive kinds followed by Custom.
func ScalarKinds() []Kind {
	out := make([]Kind, 0, int(Custom)+1)
	for k := Ascii; k <= Custom; k++ {
		out = append(out, k)
	}
	return out
}

// MinVersion returns the first OSS protocol version whose specification defines the type
// ("Changes from" sections: tuple/udt v3, date/time/smallint/tinyint v4, duration v5). DSE2 is
// v4 plus duration.
func (k Kind) MinVersion() Version {
	switch k {
	case Tuple, UDT:
		return V3
	case Date, Time, Smallint, Tinyint:
		return V4
	case Duration:
		return V5
	}
	return V2
}

// ExistsIn reports whether the kind is defined for the given protocol version.
func (k Kind) ExistsIn(v Version) bool {
	if v == DSE1 || v == DSE2 {
		return true
	}
	return v >= k.MinVersion()
}

// Type is a CQL type tree.
type Type struct {
	Kind Kind
	// Elems: list/set: [element]; map: [key, value]; tuple/udt: one per field.
	Elems []*Type
	// Names: udt field names (len == len(Elems)).
	Names []string
	// Keyspace, Name: udt. Class: custom.
	Keyspace, Name, Class string
}

// Scalar returns the (shared, immutable) type of a scalar kind other than custom.
func Scalar(k Kind) *Type { return scalarTypes[k] }

var scalarTypes = func() []*Type {
	out := make([]*Type, Custom+1)
	for k := Ascii; k <= Custom; k++ {
		out[k] = &Type{Kind: k}
	}
	out[Custom].Class = "org.example.Custom"
	return out
}()

// NewCustom returns a custom type with the given class name.
func NewCustom(class string) *Type { return &Type{Kind: Custom, Class: class} }

// NewList returns list<elem>.
func NewList(elem *Type) *Type { return &Type{Kind: List, Elems: []*Type{elem}} }

// NewSet returns set<elem>.
func NewSet(elem *Type) *Type { return &Type{Kind: Set, Elems: []*Type{elem}} }

// NewMap returns map<key,value>.
func NewMap(key, value *Type) *Type { return &Type{Kind: Map, Elems: []*Type{key, value}} }

// NewTuple returns tuple<fields...>.
func NewTuple(fields ...*Type) *Type { return &Type{Kind: Tuple, Elems: fields} }

// NewUDT returns a user-defined type.
func NewUDT(keyspace, name string, names []string, fields []*Type) *Type {
	return &Type{Kind: UDT, Keyspace: keyspace, Name: name, Names: names, Elems: fields}
}

// String renders the type as a CQL-like string, e.g. map<int,list<varint>>, ks.name<f0:int,f1:text>.
func (t *Type) String() string {
	var sb strings.Builder
	t.write(&sb)
	return sb.String()
}

func (t *Type) write(sb *strings.Builder) {
	switch t.Kind {
	case Custom:
		sb.WriteString("custom(" + t.Class + ")")
	case List, Set, Map, Tuple:
		sb.WriteString(t.Kind.String())
		sb.WriteByte('<')
		for i, e := range t.Elems {
			if i > 0 {
				sb.WriteByte(',')
			}
			e.write(sb)
		}
		sb.WriteByte('>')
	case UDT:
		sb.WriteString(t.Keyspace + "." + t.Name + "<")
		for i, e := range t.Elems {
			if i > 0 {
				sb.WriteByte(',')
			}
			sb.WriteString(t.Names[i] + ":")
			e.write(sb)
		}
		sb.WriteByte('>')
	default:
		sb.WriteString(t.Kind.String())
	}
}

// Shallow renders the type to depth 1 only (children as bare kind names): stable, bounded
// vocabulary for violation keys, e.g. list<int>, map<varchar,list>, tuple<int,udt>.
func (t *Type) Shallow() string {
	if t.Kind.IsScalar() {
		return t.Kind.String()
	}
	parts := make([]string, len(t.Elems))
	for i, e := range t.Elems {
		parts[i] = e.Kind.String()
	}
	return t.Kind.String() + "<" + strings.Join(parts, ",") + ">"
}

// Depth is 0 for scalars, 1 + max child depth for containers.
func (t *Type) Depth() int {
	d := 0
	for _, e := range t.Elems {
		if x := e.Depth() + 1; x > d {
			d = x
		}
	}
	return d
}

// ExistsIn reports whether every kind in the tree is defined for the version.
func (t *Type) ExistsIn(v Version) bool {
	if !t.Kind.ExistsIn(v) {
		return false
	}
	for _, e := range t.Elems {
		if !e.ExistsIn(v) {
			return false
		}
	}
	return true
}
