package cqlref

import (
	"encoding/hex"
	"fmt"
	"math"
	"math/big"
	"sort"
	"strings"
)

// Value is an abstract CQL value. Which members are meaningful depends on the Type it is used
// with:
//
//	bigint counter int smallint tinyint varint   Int (exact, any magnitude; range is checked by Serialize)
//	decimal                                      Int = unscaled value, Scale
//	float                                        Bits = IEEE 754 binary32 pattern in the low 32 bits
//	double                                       Bits = IEEE 754 binary64 pattern
//	boolean                                      Bool
//	date                                         U32 = days, epoch (1970-01-01) at 2^31
//	time                                         I64 = nanoseconds since midnight
//	timestamp                                    I64 = milliseconds since the unix epoch
//	duration                                     Months, Days, Nanos (the spec restricts months/days to 32 bits)
//	ascii text blob custom uuid timeuuid inet    Bytes (uuid: 16 bytes, inet: 4 or 16 bytes)
//	list set tuple udt                           Elems in order (udt: may be SHORTER than the type: §6
//	                                             "allowed to have less values than the type has fields")
//	map                                          Elems = k0, v0, k1, v1, ...
//
// Null marks the CQL NULL ([bytes] of negative length). Empty marks the legacy zero-length
// "empty value" of a non-string type (§5: "distinct from NULL").
type Value struct {
	Null, Empty         bool
	Int                 *big.Int
	Scale               int32
	Bits                uint64
	Bool                bool
	U32                 uint32
	I64                 int64
	Months, Days, Nanos int64
	Bytes               []byte
	Elems               []*Value
}

// NullValue returns the NULL marker.
func NullValue() *Value { return &Value{Null: true} }

// IntValue returns an integer value (bigint, counter, int, smallint, tinyint, varint).
func IntValue(x *big.Int) *Value { return &Value{Int: new(big.Int).Set(x)} }

// Int64Value is IntValue(big.NewInt(x)).
func Int64Value(x int64) *Value { return &Value{Int: big.NewInt(x)} }

// DecimalValue returns unscaled * 10^-scale.
func DecimalValue(unscaled *big.Int, scale int32) *Value {
	return &Value{Int: new(big.Int).Set(unscaled), Scale: scale}
}

// FloatValue returns a float value from its binary32 pattern.
func FloatValue(bits uint32) *Value { return &Value{Bits: uint64(bits)} }

// DoubleValue returns a double value from its binary64 pattern.
func DoubleValue(bits uint64) *Value { return &Value{Bits: bits} }

// BoolValue returns a boolean value.
func BoolValue(b bool) *Value { return &Value{Bool: b} }

// DateValue returns a date from its wire value (days, epoch at 2^31).
func DateValue(wire uint32) *Value { return &Value{U32: wire} }

// DateFromEpochDays returns a date from signed days since 1970-01-01.
func DateFromEpochDays(days int32) *Value { return &Value{U32: uint32(int64(days) + 1<<31)} }

// EpochDays returns the signed number of days since 1970-01-01 of a date value.
func (v *Value) EpochDays() int64 { return int64(v.U32) - 1<<31 }

// TimeValue returns a time value (nanoseconds since midnight).
func TimeValue(ns int64) *Value { return &Value{I64: ns} }

// TimestampValue returns a timestamp value (milliseconds since the epoch).
func TimestampValue(ms int64) *Value { return &Value{I64: ms} }

// DurationValue returns a duration value.
func DurationValue(months, days, nanos int64) *Value {
	return &Value{Months: months, Days: days, Nanos: nanos}
}

// BytesValue returns a value of a byte-string kind (ascii, text, blob, custom, uuid, timeuuid, inet).
func BytesValue(b []byte) *Value {
	c := make([]byte, len(b))
	copy(c, b)
	return &Value{Bytes: c}
}

// SeqValue returns a list, set, tuple or udt value.
func SeqValue(elems ...*Value) *Value {
	if elems == nil {
		elems = []*Value{}
	}
	return &Value{Elems: elems}
}

// MapValue returns a map value from alternating keys and values.
func MapValue(kv ...*Value) *Value {
	if len(kv)%2 != 0 {
		panic("cqlref.MapValue: odd number of arguments")
	}
	return SeqValue(kv...)
}

// Len is the number of elements (list, set, tuple, udt) or entries (map).
func (v *Value) Len(t *Type) int {
	if t.Kind == Map {
		return len(v.Elems) / 2
	}
	return len(v.Elems)
}

// IsNaN reports whether a float/double value of type t is a NaN.
func (v *Value) IsNaN(t *Type) bool {
	switch t.Kind {
	case Float:
		return uint32(v.Bits)&0x7F800000 == 0x7F800000 && uint32(v.Bits)&0x007FFFFF != 0
	case Double:
		return v.Bits&0x7FF0000000000000 == 0x7FF0000000000000 && v.Bits&0x000FFFFFFFFFFFFF != 0
	}
	return false
}

// Equal compares two values of type t. Floats are compared by bit pattern except that every NaN
// equals every NaN; maps are compared as multisets of entries (the wire carries an order, CQL
// does not); sets and lists as sequences; a udt value with trailing fields omitted equals the
// same value with those fields NULL.
func Equal(t *Type, a, b *Value) bool { return equal(t, a, b, false) }

// EqualUnordered is Equal except that sets, like maps, are compared as multisets: the
// specification gives set elements a position on the wire but no meaning to it.
func EqualUnordered(t *Type, a, b *Value) bool { return equal(t, a, b, true) }

func equal(t *Type, a, b *Value, setsUnordered bool) bool {
	if a == nil || b == nil {
		return a == b
	}
	if a.Null || b.Null {
		return a.Null == b.Null
	}
	if a.Empty || b.Empty {
		return a.Empty == b.Empty
	}
	switch t.Kind {
	case Bigint, Counter, Int, Smallint, Tinyint, Varint:
		return a.Int != nil && b.Int != nil && a.Int.Cmp(b.Int) == 0
	case Decimal:
		return a.Int != nil && b.Int != nil && a.Int.Cmp(b.Int) == 0 && a.Scale == b.Scale
	case Float:
		return uint32(a.Bits) == uint32(b.Bits) || (a.IsNaN(t) && b.IsNaN(t))
	case Double:
		return a.Bits == b.Bits || (a.IsNaN(t) && b.IsNaN(t))
	case Boolean:
		return a.Bool == b.Bool
	case Date:
		return a.U32 == b.U32
	case Time, Timestamp:
		return a.I64 == b.I64
	case Duration:
		return a.Months == b.Months && a.Days == b.Days && a.Nanos == b.Nanos
	case Ascii, Text, Blob, Custom, Uuid, Timeuuid, Inet:
		return string(a.Bytes) == string(b.Bytes)
	case List, Set:
		if len(a.Elems) != len(b.Elems) {
			return false
		}
		if t.Kind == Set && setsUnordered {
			return FormatUnordered(t, a) == FormatUnordered(t, b)
		}
		for i := range a.Elems {
			if !equal(t.Elems[0], a.Elems[i], b.Elems[i], setsUnordered) {
				return false
			}
		}
		return true
	case Tuple:
		if len(a.Elems) != len(b.Elems) || len(a.Elems) != len(t.Elems) {
			return false
		}
		for i := range a.Elems {
			if !equal(t.Elems[i], a.Elems[i], b.Elems[i], setsUnordered) {
				return false
			}
		}
		return true
	case UDT:
		for i := range t.Elems {
			var x, y *Value = NullValue(), NullValue()
			if i < len(a.Elems) {
				x = a.Elems[i]
			}
			if i < len(b.Elems) {
				y = b.Elems[i]
			}
			if !equal(t.Elems[i], x, y, setsUnordered) {
				return false
			}
		}
		return len(a.Elems) <= len(t.Elems) && len(b.Elems) <= len(t.Elems)
	case Map:
		if len(a.Elems) != len(b.Elems) {
			return false
		}
		if setsUnordered {
			return FormatUnordered(t, a) == FormatUnordered(t, b)
		}
		ka, kb := entryKeys(t, a), entryKeys(t, b)
		for i := range ka {
			if ka[i] != kb[i] {
				return false
			}
		}
		return true
	}
	return false
}

func entryKeys(t *Type, v *Value) []string {
	out := make([]string, 0, len(v.Elems)/2)
	for i := 0; i+1 < len(v.Elems); i += 2 {
		out = append(out, Format(t.Elems[0], v.Elems[i])+"\x00"+Format(t.Elems[1], v.Elems[i+1]))
	}
	sort.Strings(out)
	return out
}

// Format renders a value canonically: values that are Equal render equally (NaNs as "NaN", map
// entries sorted, omitted udt fields as NULL). Long byte strings are abbreviated to their head,
// length and an FNV-1a hash, so the result is suitable for violation details and for
// de-duplication of map keys / set elements.
func Format(t *Type, v *Value) string {
	var sb strings.Builder
	format(&sb, t, v, false)
	return sb.String()
}

// FormatUnordered is Format with the elements of every set sorted as well: values that are
// EqualUnordered render equally.
func FormatUnordered(t *Type, v *Value) string {
	var sb strings.Builder
	format(&sb, t, v, true)
	return sb.String()
}

func format(sb *strings.Builder, t *Type, v *Value, sortSets bool) {
	if v == nil {
		sb.WriteString("<nil>")
		return
	}
	if v.Null {
		sb.WriteString("NULL")
		return
	}
	if v.Empty {
		sb.WriteString("EMPTY")
		return
	}
	switch t.Kind {
	case Bigint, Counter, Int, Smallint, Tinyint, Varint:
		sb.WriteString(bigString(v.Int))
	case Decimal:
		sb.WriteString(bigString(v.Int) + "E" + fmt.Sprint(-int64(v.Scale)))
	case Float:
		if v.IsNaN(t) {
			sb.WriteString("NaN")
		} else {
			fmt.Fprintf(sb, "f32:%08x(%g)", uint32(v.Bits), math.Float32frombits(uint32(v.Bits)))
		}
	case Double:
		if v.IsNaN(t) {
			sb.WriteString("NaN")
		} else {
			fmt.Fprintf(sb, "f64:%016x(%g)", v.Bits, math.Float64frombits(v.Bits))
		}
	case Boolean:
		fmt.Fprint(sb, v.Bool)
	case Date:
		fmt.Fprintf(sb, "date:%d", v.EpochDays())
	case Time:
		fmt.Fprintf(sb, "time:%dns", v.I64)
	case Timestamp:
		fmt.Fprintf(sb, "ts:%dms", v.I64)
	case Duration:
		fmt.Fprintf(sb, "%dmo%dd%dns", v.Months, v.Days, v.Nanos)
	case Ascii, Text, Blob, Custom, Uuid, Timeuuid, Inet:
		if len(v.Bytes) <= 48 {
			sb.WriteString("0x" + hex.EncodeToString(v.Bytes))
		} else {
			h := uint64(14695981039346656037)
			for _, c := range v.Bytes {
				h = (h ^ uint64(c)) * 1099511628211
			}
			fmt.Fprintf(sb, "0x%s..(%d bytes,fnv=%016x)", hex.EncodeToString(v.Bytes[:16]), len(v.Bytes), h)
		}
	case List, Set:
		parts := make([]string, len(v.Elems))
		for i, e := range v.Elems {
			var eb strings.Builder
			format(&eb, t.Elems[0], e, sortSets)
			parts[i] = eb.String()
		}
		if t.Kind == Set && sortSets {
			sort.Strings(parts)
		}
		sb.WriteString("[" + strings.Join(parts, ",") + "]")
	case Tuple, UDT:
		sb.WriteByte('(')
		for i, e := range v.Elems {
			if i > 0 {
				sb.WriteByte(',')
			}
			if i < len(t.Elems) {
				format(sb, t.Elems[i], e, sortSets)
			} else {
				sb.WriteString("<extra>")
			}
		}
		for i := len(v.Elems); t.Kind == UDT && i < len(t.Elems); i++ {
			if i > 0 {
				sb.WriteByte(',')
			}
			sb.WriteString("NULL") // omitted trailing udt field
		}
		sb.WriteByte(')')
	case Map:
		// entries in sorted order: a map has no order
		entries := make([]string, 0, len(v.Elems)/2)
		for i := 0; i+1 < len(v.Elems); i += 2 {
			var eb strings.Builder
			format(&eb, t.Elems[0], v.Elems[i], sortSets)
			eb.WriteByte(':')
			format(&eb, t.Elems[1], v.Elems[i+1], sortSets)
			entries = append(entries, eb.String())
		}
		sort.Strings(entries)
		sb.WriteString("{" + strings.Join(entries, ",") + "}")
	}
}

func bigString(x *big.Int) string {
	if x == nil {
		return "<nil-int>"
	}
	return x.String()
}

// Walk calls f for the value and, recursively, for every element with its type.
func Walk(t *Type, v *Value, f func(t *Type, v *Value)) {
	f(t, v)
	if v == nil || v.Null || v.Empty {
		return
	}
	switch t.Kind {
	case List, Set:
		for _, e := range v.Elems {
			Walk(t.Elems[0], e, f)
		}
	case Map:
		for i, e := range v.Elems {
			Walk(t.Elems[i%2], e, f)
		}
	case Tuple, UDT:
		for i, e := range v.Elems {
			if i < len(t.Elems) {
				Walk(t.Elems[i], e, f)
			}
		}
	}
}
