// Package mon is the shared verdict / evidence / known-findings machinery (DESIGN.md M7).
//
// Every check is a function Run(*Ctx). The Ctx collects, thread-safely:
//   - evaluations            how many executions the monitor observed
//   - distinct signatures    what makes two executions different (per-check rule)
//   - samples                a few actual cases, written to the evidence file
//   - violations             keyed by a stable per-finding key, each with a replay file
//   - inconclusive outcomes  never folded into "held" or "violated"
//
// Finish() prints VIOLATION / KNOWN-FINDING lines, writes evidence/<id>.json and exits:
// 0 = held on everything observed, 1 = violation not listed in known_findings.txt,
// 2 = the harness itself failed (never a verdict).
package mon

import (
	"bufio"
	"crypto/sha256"
	"encoding/hex"
	"encoding/json"
	"fmt"
	"hash/fnv"
	"os"
	"path/filepath"
	"sort"
	"strconv"
	"strings"
	"sync"
	"sync/atomic"
	"time"
)

// Root is the /verif directory (the working directory of every registered command).
func Root() string {
	if r := os.Getenv("VERIF_ROOT"); r != "" {
		return r
	}
	wd, _ := os.Getwd()
	return wd
}

// RepoDir is the tree under test: /repo unless VERIF_REPO points at a scratch worktree
// (used only to validate checks against seeded breaks; the driver builds against the same dir).
func RepoDir() string {
	if r := os.Getenv("VERIF_REPO"); r != "" {
		return r
	}
	return "/repo"
}

type Violation struct {
	Key    string      `json:"key"`
	Detail interface{} `json:"detail"`
	Count  int         `json:"count"`
	Replay string      `json:"replay,omitempty"`
	Known  bool        `json:"known,omitempty"`
}

type Ctx struct {
	ID     string
	Tier   string // quick | thorough
	Seed   int64
	Replay string   // --replay <file>, "" otherwise
	Args   []string // remaining arguments (worker modes)
	Level  string   // evidence level, default "exploration"
	Rule   string   // how cases are generated and what makes one distinct / non-trivial

	start time.Time

	evals       int64
	occurrences int64 // violation occurrences (all keys)

	mu           sync.Mutex
	distinct     map[uint64]struct{}
	samples      []interface{}
	maxSamples   int
	violations   map[string]*Violation
	vorder       []string
	inconclusive map[string]int
	extra        map[string]interface{}
	counters     map[string]int64
	assumptions  []string
	notes        []string
	workerOut    string
	postmortem   bool
}

func New(id string) *Ctx {
	c := &Ctx{
		ID: id, Tier: "quick", Seed: 1, Level: "exploration",
		start:        time.Now(),
		distinct:     map[uint64]struct{}{},
		maxSamples:   8,
		violations:   map[string]*Violation{},
		inconclusive: map[string]int{},
		extra:        map[string]interface{}{},
		counters:     map[string]int64{},
	}
	if s := os.Getenv("VERIF_SEED"); s != "" {
		if v, err := strconv.ParseInt(s, 10, 64); err == nil {
			c.Seed = v
		}
	}
	if t := os.Getenv("VERIF_TIER"); t == "quick" || t == "thorough" {
		c.Tier = t
	}
	return c
}

func (c *Ctx) Thorough() bool { return c.Tier == "thorough" }

// Pick returns q for the quick tier and t for the thorough tier.
func (c *Ctx) Pick(q, t int) int {
	if c.Thorough() {
		return t
	}
	return q
}

func (c *Ctx) Eval(n int) { atomic.AddInt64(&c.evals, int64(n)) }

func (c *Ctx) Evals() int64 { return atomic.LoadInt64(&c.evals) }

// Distinct records the signature of a non-trivial case; distinct_nontrivial = number of
// different signatures seen in this run.
func (c *Ctx) Distinct(sig string) {
	h := fnv.New64a()
	h.Write([]byte(sig))
	k := h.Sum64()
	c.mu.Lock()
	c.distinct[k] = struct{}{}
	c.mu.Unlock()
}

func (c *Ctx) DistinctHash(k uint64) {
	c.mu.Lock()
	c.distinct[k] = struct{}{}
	c.mu.Unlock()
}

func (c *Ctx) DistinctCount() int {
	c.mu.Lock()
	defer c.mu.Unlock()
	return len(c.distinct)
}

func (c *Ctx) Sample(v interface{}) {
	c.mu.Lock()
	if len(c.samples) < c.maxSamples {
		c.samples = append(c.samples, v)
	}
	c.mu.Unlock()
}

func (c *Ctx) WantSample() bool {
	c.mu.Lock()
	defer c.mu.Unlock()
	return len(c.samples) < c.maxSamples
}

func (c *Ctx) Count(name string, n int64) {
	c.mu.Lock()
	c.counters[name] += n
	c.mu.Unlock()
}

func (c *Ctx) Counter(name string) int64 {
	c.mu.Lock()
	defer c.mu.Unlock()
	return c.counters[name]
}

func (c *Ctx) Max(name string, v int64) {
	c.mu.Lock()
	if v > c.counters[name] {
		c.counters[name] = v
	}
	c.mu.Unlock()
}

func (c *Ctx) Set(key string, v interface{}) {
	c.mu.Lock()
	c.extra[key] = v
	c.mu.Unlock()
}

func (c *Ctx) Assume(s string) {
	c.mu.Lock()
	c.assumptions = append(c.assumptions, s)
	c.mu.Unlock()
}

func (c *Ctx) Note(format string, a ...interface{}) {
	s := fmt.Sprintf(format, a...)
	c.mu.Lock()
	c.notes = append(c.notes, s)
	c.mu.Unlock()
	fmt.Fprintln(os.Stderr, "note:", s)
}

// Inconclusive records an outcome that is neither "held" nor "violated" (watchdog, resource
// exhaustion, checker timeout, hook not reached).
func (c *Ctx) Inconclusive(what string) {
	c.mu.Lock()
	c.inconclusive[what]++
	c.mu.Unlock()
}

// Violation records a refuting observation. key identifies the failing input / call site /
// history in a stable way (it is what known_findings.txt lists); detail must be JSON-serialisable
// and sufficient to replay the case.
func (c *Ctx) Violation(key string, detail interface{}) {
	atomic.AddInt64(&c.occurrences, 1)
	c.mu.Lock()
	defer c.mu.Unlock()
	if v, ok := c.violations[key]; ok {
		v.Count++
		return
	}
	c.violations[key] = &Violation{Key: key, Detail: detail, Count: 1}
	c.vorder = append(c.vorder, key)
	c.journal(key, detail)
}

// journal appends the first occurrence of every violation key to the file named by VERIF_JOURNAL, so
// that a verdict survives the death of the process (a library panic in a foreign goroutine, the OOM
// killer): the driver then runs the binary in --postmortem mode, which reports what was journalled.
func (c *Ctx) journal(key string, detail interface{}) {
	p := os.Getenv("VERIF_JOURNAL")
	if p == "" || c.postmortem {
		return
	}
	b, err := json.Marshal(map[string]interface{}{"key": key, "detail": detail})
	if err != nil {
		b, _ = json.Marshal(map[string]interface{}{"key": key, "detail": fmt.Sprint(detail)})
	}
	if len(b) > 1<<20 {
		b, _ = json.Marshal(map[string]interface{}{"key": key, "detail": "detail too large for the journal"})
	}
	if f, err := os.OpenFile(p, os.O_APPEND|os.O_CREATE|os.O_WRONLY, 0o644); err == nil {
		f.Write(append(b, '\n'))
		f.Close()
	}
}

// Postmortem loads the journal of a run that died and reports it: violations stay violations, the death
// itself is an inconclusive outcome.
func (c *Ctx) Postmortem(exitStatus string) {
	c.postmortem = true
	if f, err := os.Open(os.Getenv("VERIF_JOURNAL")); err == nil {
		sc := bufio.NewScanner(f)
		sc.Buffer(make([]byte, 4<<20), 4<<20)
		for sc.Scan() {
			var rec struct {
				Key    string      `json:"key"`
				Detail interface{} `json:"detail"`
			}
			if json.Unmarshal(sc.Bytes(), &rec) == nil && rec.Key != "" {
				c.Violation(rec.Key, rec.Detail)
			}
		}
		f.Close()
	}
	c.Inconclusive("check-process-died(" + exitStatus + ")-verdict-from-journal")
	c.Set("postmortem", "the check process died ("+exitStatus+"); this evidence lists only what had been journalled before")
}

// Saturated reports that so many violating executions were already observed (120) that
// exploring further adds nothing: case loops may stop early. A tree that is broken systematically can
// make every remaining case slow (a mis-parsed length becomes a giant allocation), and the verdict is
// already decided.
func (c *Ctx) Saturated() bool { return atomic.LoadInt64(&c.occurrences) >= 120 }

func (c *Ctx) ViolationCount() int {
	c.mu.Lock()
	defer c.mu.Unlock()
	return len(c.violations)
}

// Fatal is for harness failures: exit 2, never a verdict.
func (c *Ctx) Fatal(format string, a ...interface{}) {
	fmt.Fprintf(os.Stderr, "HARNESS-ERROR %s: %s\n", c.ID, fmt.Sprintf(format, a...))
	os.Exit(2)
}

// ---------------------------------------------------------------------------------------------
// known findings

type Known struct {
	Property string
	Key      string
	Text     string
}

func LoadKnown(root string) []Known {
	f, err := os.Open(filepath.Join(root, "known_findings.txt"))
	if err != nil {
		return nil
	}
	defer f.Close()
	var out []Known
	sc := bufio.NewScanner(f)
	sc.Buffer(make([]byte, 1<<20), 1<<20)
	for sc.Scan() {
		line := strings.TrimSpace(sc.Text())
		if !strings.HasPrefix(line, "finding:") {
			continue // "fixed:" lines and comments suppress nothing
		}
		rest := strings.TrimSpace(strings.TrimPrefix(line, "finding:"))
		k := Known{Text: rest}
		for _, f := range strings.Fields(rest) {
			if strings.HasPrefix(f, "property=") {
				k.Property = strings.TrimPrefix(f, "property=")
			} else if strings.HasPrefix(f, "key=") {
				k.Key = strings.TrimPrefix(f, "key=")
			}
		}
		if k.Property != "" && k.Key != "" {
			out = append(out, k)
		}
	}
	return out
}

// ---------------------------------------------------------------------------------------------
// worker result exchange: a child process run with VERIF_WORKER_OUT=<file> writes its Ctx
// there instead of evidence; the parent merges it.

type workerResult struct {
	Evals        int64                  `json:"evals"`
	Distinct     []uint64               `json:"distinct"`
	Samples      []interface{}          `json:"samples"`
	Violations   []*Violation           `json:"violations"`
	Inconclusive map[string]int         `json:"inconclusive"`
	Counters     map[string]int64       `json:"counters"`
	Extra        map[string]interface{} `json:"extra"`
}

func (c *Ctx) writeWorker(path string) {
	c.mu.Lock()
	r := workerResult{Evals: c.Evals(), Samples: c.samples, Inconclusive: c.inconclusive, Counters: c.counters, Extra: c.extra}
	for k := range c.distinct {
		r.Distinct = append(r.Distinct, k)
	}
	for _, k := range c.vorder {
		r.Violations = append(r.Violations, c.violations[k])
	}
	c.mu.Unlock()
	b, err := json.Marshal(r)
	if err != nil {
		c.Fatal("worker result: %v", err)
	}
	if err := os.WriteFile(path+".tmp", b, 0o644); err != nil {
		c.Fatal("worker result: %v", err)
	}
	os.Rename(path+".tmp", path)
}

// Merge folds a worker result file into c. Returns false if the file is missing/unreadable
// (the worker died before finishing).
func (c *Ctx) Merge(path string) bool {
	b, err := os.ReadFile(path)
	if err != nil {
		return false
	}
	var r workerResult
	if err := json.Unmarshal(b, &r); err != nil {
		return false
	}
	c.Eval(int(r.Evals))
	c.mu.Lock()
	for _, k := range r.Distinct {
		c.distinct[k] = struct{}{}
	}
	for _, s := range r.Samples {
		if len(c.samples) < c.maxSamples {
			c.samples = append(c.samples, s)
		}
	}
	for k, n := range r.Inconclusive {
		c.inconclusive[k] += n
	}
	for k, n := range r.Counters {
		if strings.HasPrefix(k, "max_") {
			if n > c.counters[k] {
				c.counters[k] = n
			}
		} else {
			c.counters[k] += n
		}
	}
	for k, v := range r.Extra {
		if _, ok := c.extra[k]; !ok {
			c.extra[k] = v
		}
	}
	for _, v := range r.Violations {
		if old, ok := c.violations[v.Key]; ok {
			old.Count += v.Count
		} else {
			c.violations[v.Key] = v
			c.vorder = append(c.vorder, v.Key)
		}
	}
	c.mu.Unlock()
	return true
}

// ---------------------------------------------------------------------------------------------
// finishing

type evidence struct {
	PropertyID  string                 `json:"property_id"`
	Tier        string                 `json:"tier"`
	Seed        int64                  `json:"seed"`
	Level       string                 `json:"level"`
	Coverage    map[string]interface{} `json:"coverage"`
	Assumptions []string               `json:"assumptions,omitempty"`
	WallS       float64                `json:"wall_s"`
	Violations  int                    `json:"violations"`
}

const maxPrinted = 25

// Finish writes evidence, prints verdict lines and exits.
func (c *Ctx) Finish() {
	if c.workerOut != "" {
		c.writeWorker(c.workerOut)
		os.Exit(0)
	}
	root := Root()
	known := LoadKnown(root)
	isKnown := func(key string) *Known {
		for i := range known {
			if known[i].Property == c.ID && known[i].Key == key {
				return &known[i]
			}
		}
		return nil
	}
	c.mu.Lock()
	defer c.mu.Unlock()

	replayDir := filepath.Join(root, "replays", c.ID)
	unknown := 0
	knownSeen := 0
	var vlist []map[string]interface{}
	for i, key := range c.vorder {
		v := c.violations[key]
		if k := isKnown(key); k != nil {
			v.Known = true
			knownSeen++
			fmt.Printf("KNOWN-FINDING: property=%s key=%s (%d occurrence(s)) %s\n", c.ID, key, v.Count, k.Text)
		} else {
			unknown++
			if i < maxPrinted || unknown <= maxPrinted {
				os.MkdirAll(replayDir, 0o755)
				sum := sha256.Sum256([]byte(key))
				p := filepath.Join(replayDir, hex.EncodeToString(sum[:8])+".json")
				b, _ := json.MarshalIndent(map[string]interface{}{
					"property": c.ID, "key": key, "seed": c.Seed, "tier": c.Tier, "detail": v.Detail, "count": v.Count,
				}, "", " ")
				os.WriteFile(p, b, 0o644)
				v.Replay = p
				fmt.Printf("VIOLATION property=%s replay=%s key=%s\n", c.ID, p, key)
			}
		}
		if len(vlist) < maxPrinted {
			vlist = append(vlist, map[string]interface{}{"key": key, "count": v.Count, "known": v.Known, "replay": v.Replay})
		}
	}

	cov := map[string]interface{}{}
	for k, v := range c.extra {
		cov[k] = v
	}
	if len(c.counters) > 0 {
		cov["counters"] = c.counters
	}
	cov["evaluations"] = c.Evals()
	cov["distinct_nontrivial"] = len(c.distinct)
	cov["rule"] = c.Rule
	samples := c.samples
	if samples == nil {
		samples = []interface{}{}
	}
	cov["samples"] = samples
	inc := 0
	for _, n := range c.inconclusive {
		inc += n
	}
	cov["inconclusive"] = c.inconclusive
	cov["inconclusive_total"] = inc
	cov["violation_keys"] = vlist
	cov["known_findings_seen"] = knownSeen
	if len(c.notes) > 0 {
		cov["notes"] = c.notes
	}
	ev := evidence{
		PropertyID: c.ID, Tier: c.Tier, Seed: c.Seed, Level: c.Level, Coverage: cov,
		Assumptions: c.assumptions, WallS: time.Since(c.start).Seconds(), Violations: unknown,
	}
	b, err := json.MarshalIndent(ev, "", " ")
	if err != nil {
		fmt.Fprintf(os.Stderr, "HARNESS-ERROR %s: evidence: %v\n", c.ID, err)
		os.Exit(2)
	}
	os.MkdirAll(filepath.Join(root, "evidence"), 0o755)
	if c.Replay == "" && !c.postmortem {
		if err := os.WriteFile(filepath.Join(root, "evidence", c.ID+".json"), b, 0o644); err != nil {
			fmt.Fprintf(os.Stderr, "HARNESS-ERROR %s: evidence: %v\n", c.ID, err)
			os.Exit(2)
		}
	}
	keys := make([]string, 0, len(c.inconclusive))
	for k := range c.inconclusive {
		keys = append(keys, k)
	}
	sort.Strings(keys)
	for _, k := range keys {
		fmt.Printf("INCONCLUSIVE property=%s %s x%d\n", c.ID, k, c.inconclusive[k])
	}
	fmt.Printf("SUMMARY property=%s tier=%s seed=%d evaluations=%d distinct=%d violations=%d known=%d inconclusive=%d wall=%.1fs\n",
		c.ID, c.Tier, c.Seed, c.Evals(), len(c.distinct), unknown, knownSeen, inc, time.Since(c.start).Seconds())
	if unknown > 0 {
		os.Exit(1)
	}
	if c.Replay == "" && !c.postmortem && (c.Evals() == 0 || len(c.distinct) < 2) {
		fmt.Fprintf(os.Stderr, "HARNESS-ERROR %s: the monitors observed nothing (evaluations=%d distinct=%d)\n", c.ID, c.Evals(), len(c.distinct))
		os.Exit(2)
	}
	os.Exit(0)
}

// ParseArgs fills Tier/Seed/Replay/Args from the command line that follows the property id.
func (c *Ctx) ParseArgs(args []string) {
	for i := 0; i < len(args); i++ {
		switch args[i] {
		case "--tier":
			i++
			if i < len(args) {
				c.Tier = args[i]
			}
		case "quick", "thorough":
			c.Tier = args[i]
		case "--seed":
			i++
			if i < len(args) {
				if v, err := strconv.ParseInt(args[i], 10, 64); err == nil {
					c.Seed = v
				}
			}
		case "--replay":
			i++
			if i < len(args) {
				c.Replay = args[i]
			}
		default:
			c.Args = append(c.Args, args[i])
		}
	}
	c.workerOut = os.Getenv("VERIF_WORKER_OUT")
	if c.Replay != "" {
		// a replay re-runs the recorded case: seed and tier come from the replay file
		if b, err := os.ReadFile(c.Replay); err == nil {
			var w struct {
				Seed *int64 `json:"seed"`
				Tier string `json:"tier"`
			}
			if json.Unmarshal(b, &w) == nil {
				if w.Seed != nil {
					c.Seed = *w.Seed
				}
				if w.Tier == "quick" || w.Tier == "thorough" {
					c.Tier = w.Tier
				}
			}
		}
	}
}

// ReplayDetail loads the "detail" member of a replay file into v.
func (c *Ctx) ReplayDetail(v interface{}) error {
	b, err := os.ReadFile(c.Replay)
	if err != nil {
		return err
	}
	var w struct {
		Detail json.RawMessage `json:"detail"`
	}
	if err := json.Unmarshal(b, &w); err != nil {
		return err
	}
	return json.Unmarshal(w.Detail, v)
}
