package mon

import (
	"fmt"
	"os"
	"os/exec"
	"runtime"
	"runtime/debug"
	"strings"
	"sync"
	"sync/atomic"
	"time"
)

// Main is the entry point of every per-property binary (cmd/cNN): parse the command line, run
// the check, write evidence, exit with the verdict.
func Main(id string, run func(*Ctx)) {
	c := New(id)
	c.ParseArgs(os.Args[1:])
	for i, a := range c.Args {
		if a == "--postmortem" {
			st := "unknown status"
			if i+1 < len(c.Args) {
				st = c.Args[i+1]
			}
			c.Postmortem(st)
			c.Finish()
		}
	}
	// A generous wall-clock watchdog around the whole run. It decides nothing: when it fires, whatever was
	// observed so far is reported (violations already recorded stay violations) and the truncation itself is
	// an inconclusive outcome.
	limit := 20 * time.Minute
	if c.Thorough() {
		limit = 4 * time.Hour
	}
	if s := os.Getenv("VERIF_MAX_WALL"); s != "" {
		if d, err := time.ParseDuration(s); err == nil {
			limit = d
		}
	}
	go func() {
		time.Sleep(limit)
		c.Note("wall-clock watchdog fired after %v: reporting what was observed so far", limit)
		c.Inconclusive("run-truncated-by-wall-clock-watchdog")
		c.Finish()
	}()
	OnPanic = func(i int, val interface{}, stack []byte) {
		st := string(stack)
		if len(st) > 3000 {
			st = st[:3000]
		}
		c.Violation(panicKey(val, stack), map[string]interface{}{"case_index": i, "panic": fmt.Sprint(val), "stack": st, "seed": c.Seed})
	}
	run(c)
	c.Finish()
}

// Rand is a small deterministic PRNG (splitmix64); every case list is a pure function of
// (seed, index) so that a replay can regenerate exactly one case.
type Rand struct{ s uint64 }

func NewRand(seed int64, stream uint64) *Rand {
	r := &Rand{s: uint64(seed)*0x9E3779B97F4A7C15 ^ (stream+1)*0xBF58476D1CE4E5B9}
	r.Uint64()
	return r
}

func (r *Rand) Uint64() uint64 {
	r.s += 0x9E3779B97F4A7C15
	z := r.s
	z = (z ^ (z >> 30)) * 0xBF58476D1CE4E5B9
	z = (z ^ (z >> 27)) * 0x94D049BB133111EB
	return z ^ (z >> 31)
}

func (r *Rand) Intn(n int) int {
	if n <= 0 {
		return 0
	}
	return int(r.Uint64() % uint64(n))
}

func (r *Rand) Bool() bool { return r.Uint64()&1 == 1 }

func (r *Rand) Bytes(n int) []byte {
	b := make([]byte, n)
	for i := 0; i < n; i += 8 {
		v := r.Uint64()
		for j := 0; j < 8 && i+j < n; j++ {
			b[i+j] = byte(v >> (8 * j))
		}
	}
	return b
}

// Parallel runs f(i) for i in [0,n) on GOMAXPROCS goroutines (dynamic scheduling).
func Parallel(n int, f func(i int)) {
	ParallelN(runtime.GOMAXPROCS(0), n, f)
}

func ParallelN(workers, n int, f func(i int)) {
	if workers < 1 {
		workers = 1
	}
	var next int64 = -1
	var wg sync.WaitGroup
	for w := 0; w < workers; w++ {
		wg.Add(1)
		go func() {
			defer wg.Done()
			for {
				i := int(atomic.AddInt64(&next, 1))
				if i >= n {
					return
				}
				guarded(i, f)
			}
		}()
	}
	wg.Wait()
}

// OnPanic, when set (mon.Main sets it), receives panics that escape a case run by Parallel: in an
// in-process check a panic inside the library must become a reported violation, not a crash of the check.
var OnPanic func(index int, val interface{}, stack []byte)

func guarded(i int, f func(int)) {
	if OnPanic == nil {
		f(i)
		return
	}
	defer func() {
		if r := recover(); r != nil {
			OnPanic(i, r, debug.Stack())
		}
	}()
	f(i)
}

// panicKey builds "panic/<innermost function of the library under test>/<message class>".
func panicKey(val interface{}, stack []byte) string {
	fn := "unknown"
	for _, line := range strings.Split(string(stack), "\n") {
		if strings.Contains(line, "go-cassandra-native-protocol/") && strings.Contains(line, "(") && !strings.HasPrefix(line, "\t") {
			fn = line[strings.LastIndex(line, "go-cassandra-native-protocol/")+len("go-cassandra-native-protocol/"):]
			if j := strings.Index(fn, "("); j > 0 && !strings.HasPrefix(fn[j:], "(*") {
				fn = fn[:j]
			} else if j := strings.LastIndex(fn, "("); j > 0 {
				fn = fn[:j]
			}
			break
		}
	}
	msg := fmt.Sprint(val)
	out := make([]byte, 0, 50)
	for i := 0; i < len(msg) && len(out) < 50; i++ {
		ch := msg[i]
		switch {
		case ch >= '0' && ch <= '9':
			if len(out) == 0 || out[len(out)-1] != '#' {
				out = append(out, '#')
			}
		case ch == ' ':
			out = append(out, '_')
		case ch > 0x20 && ch < 0x7f:
			out = append(out, ch)
		}
	}
	return "panic/" + fn + "/" + string(out)
}

// Self returns the path of the running binary (for spawning workers).
func Self() string {
	p, err := os.Executable()
	if err != nil {
		return os.Args[0]
	}
	return p
}

// RaceSelf returns the path of the -race flavour of the check binary, built next to the normal
// one by the ./check driver when the property needs it.
func RaceSelf() string {
	if p := os.Getenv("VERIF_RACE_BIN"); p != "" {
		return p
	}
	return Self() + "-race"
}

// Guard runs f and converts a panic into (recovered value, stack-free string).
func Guard(f func()) (panicked bool, val string) {
	defer func() {
		if r := recover(); r != nil {
			panicked = true
			val = fmt.Sprint(r)
		}
	}()
	f()
	return
}

// Command builds an exec.Cmd for a worker of the same binary.
func WorkerCmd(bin string, out string, args ...string) *exec.Cmd {
	cmd := exec.Command(bin, args...)
	cmd.Env = append(os.Environ(), "VERIF_WORKER_OUT="+out)
	return cmd
}
