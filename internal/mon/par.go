package mon

import (
	"fmt"
	"os"
	"os/exec"
	"runtime"
	"sync"
	"sync/atomic"
)

// Main is the entry point of every per-property binary (cmd/cNN): parse the command line, run
// the check, write evidence, exit with the verdict.
func Main(id string, run func(*Ctx)) {
	c := New(id)
	c.ParseArgs(os.Args[1:])
	run(c)
	c.Finish()
}

// Rand is a small deterministic PRNG (splitmix64); every case list is a pure function of
// (seed, index) so that a replay can regenerate exactly one case.
type Rand struct{ s uint64 }

func NewRand(seed int64, stream uint64) *Rand {
	r := &Rand{s: uint64(seed)*0x9E3779B97F4A7C15 ^ (stream+1)*0xBF58476D1CE4E5B9}
	r.Uint64()
	return r
}

func (r *Rand) Uint64() uint64 {
	r.s += 0x9E3779B97F4A7C15
	z := r.s
	z = (z ^ (z >> 30)) * 0xBF58476D1CE4E5B9
	z = (z ^ (z >> 27)) * 0x94D049BB133111EB
	return z ^ (z >> 31)
}

func (r *Rand) Intn(n int) int {
	if n <= 0 {
		return 0
	}
	return int(r.Uint64() % uint64(n))
}

func (r *Rand) Bool() bool { return r.Uint64()&1 == 1 }

func (r *Rand) Bytes(n int) []byte {
	b := make([]byte, n)
	for i := 0; i < n; i += 8 {
		v := r.Uint64()
		for j := 0; j < 8 && i+j < n; j++ {
			b[i+j] = byte(v >> (8 * j))
		}
	}
	return b
}

// Parallel runs f(i) for i in [0,n) on GOMAXPROCS goroutines (dynamic scheduling).
func Parallel(n int, f func(i int)) {
	ParallelN(runtime.GOMAXPROCS(0), n, f)
}

func ParallelN(workers, n int, f func(i int)) {
	if workers < 1 {
		workers = 1
	}
	var next int64 = -1
	var wg sync.WaitGroup
	for w := 0; w < workers; w++ {
		wg.Add(1)
		go func() {
			defer wg.Done()
			for {
				i := int(atomic.AddInt64(&next, 1))
				if i >= n {
					return
				}
				f(i)
			}
		}()
	}
	wg.Wait()
}

// Self returns the path of the running binary (for spawning workers).
func Self() string {
	p, err := os.Executable()
	if err != nil {
		return os.Args[0]
	}
	return p
}

// RaceSelf returns the path of the -race flavour of the check binary, built next to the normal
// one by the ./check driver when the property needs it.
func RaceSelf() string {
	if p := os.Getenv("VERIF_RACE_BIN"); p != "" {
		return p
	}
	return Self() + "-race"
}

// Guard runs f and converts a panic into (recovered value, stack-free string).
func Guard(f func()) (panicked bool, val string) {
	defer func() {
		if r := recover(); r != nil {
			panicked = true
			val = fmt.Sprint(r)
		}
	}()
	f()
	return
}

// Command builds an exec.Cmd for a worker of the same binary.
func WorkerCmd(bin string, out string, args ...string) *exec.Cmd {
	cmd := exec.Command(bin, args...)
	cmd.Env = append(os.Environ(), "VERIF_WORKER_OUT="+out)
	return cmd
}
