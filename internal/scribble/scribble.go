// Package scribble overwrites, in place, everything a caller owns in a value it got back from the library.
//
// A decoded frame (message, value, data type) belongs to whoever decoded it: a proxy edits it, a driver fills in
// parameters, a test harness recycles it. If the library hands out objects that it keeps using itself — shared
// NULL/UNSET singletons, interned type definitions, pooled buffers — such an edit changes what the NEXT call
// returns. Scribbling over every object a check is done with turns that dependency into an ordinary mismatch
// of a later case. It never replaces a pointer, slice header or map (shared objects stay shared, so the damage
// shows where the sharing is), and it cannot touch unexported fields (the library's own immutable singletons,
// e.g. datatype.Int, have only those).
package scribble

import (
	"math/big"
	"reflect"
)

// Over scribbles over everything reachable from v (normally a pointer). It returns the number of locations written.
func Over(v interface{}) int {
	w := &walker{seen: map[uintptr]bool{}}
	w.walk(reflect.ValueOf(v), 0)
	return w.n
}

type walker struct {
	seen map[uintptr]bool
	n    int
}

func (w *walker) walk(v reflect.Value, depth int) {
	if !v.IsValid() || depth > 64 {
		return
	}
	switch v.Kind() {
	case reflect.Ptr:
		if v.IsNil() || w.seen[v.Pointer()] {
			return
		}
		w.seen[v.Pointer()] = true
		if v.CanInterface() { // math/big values have unexported fields only: edit them through their own methods
			switch b := v.Interface().(type) {
			case *big.Int:
				b.Add(b, big.NewInt(977))
				w.n++
				return
			case *big.Float:
				if !b.IsInf() {
					b.Add(b, big.NewFloat(977.5))
				}
				w.n++
				return
			}
		}
		w.walk(v.Elem(), depth+1)
	case reflect.Interface:
		if v.IsNil() {
			return
		}
		if e := v.Elem(); e.Kind() == reflect.Ptr || e.Kind() == reflect.Slice || e.Kind() == reflect.Map {
			w.walk(e, depth+1)
		}
	case reflect.Struct:
		for i := 0; i < v.NumField(); i++ {
			if f := v.Field(i); f.CanSet() || f.Kind() == reflect.Ptr || f.Kind() == reflect.Slice || f.Kind() == reflect.Map || f.Kind() == reflect.Interface {
				if f.CanInterface() {
					w.walk(f, depth+1)
				}
			}
		}
	case reflect.Slice:
		if v.IsNil() {
			return
		}
		if v.Type().Elem().Kind() == reflect.Uint8 {
			b := v.Bytes()
			for i := range b {
				b[i] += 0x55
			}
			w.n += len(b)
			return
		}
		if v.Len() > 0 {
			if p := v.Pointer(); w.seen[p] {
				return
			} else {
				w.seen[p] = true
			}
		}
		for i := 0; i < v.Len(); i++ {
			w.walk(v.Index(i), depth+1)
		}
	case reflect.Array:
		if v.CanAddr() {
			for i := 0; i < v.Len(); i++ {
				w.walk(v.Index(i), depth+1)
			}
		}
	case reflect.Map:
		if v.IsNil() {
			return
		}
		for _, k := range v.MapKeys() {
			e := v.MapIndex(k)
			switch e.Kind() {
			case reflect.Ptr, reflect.Slice, reflect.Map, reflect.Interface:
				w.walk(e, depth+1)
			case reflect.String:
				v.SetMapIndex(k, reflect.ValueOf("scribbled").Convert(e.Type()))
				w.n++
			}
		}
	case reflect.Bool:
		if v.CanSet() {
			v.SetBool(!v.Bool())
			w.n++
		}
	case reflect.Int, reflect.Int8, reflect.Int16, reflect.Int32, reflect.Int64:
		if v.CanSet() {
			v.SetInt(reflect.Zero(v.Type()).Int() + (v.Int()^0x55)<<(64-uint(v.Type().Bits()))>>(64-uint(v.Type().Bits())))
			w.n++
		}
	case reflect.Uint, reflect.Uint8, reflect.Uint16, reflect.Uint32, reflect.Uint64:
		if v.CanSet() {
			v.SetUint((v.Uint() ^ 0x55) << (64 - uint(v.Type().Bits())) >> (64 - uint(v.Type().Bits())))
			w.n++
		}
	case reflect.Float32, reflect.Float64:
		if v.CanSet() {
			v.SetFloat(-v.Float() - 1)
			w.n++
		}
	case reflect.String:
		if v.CanSet() {
			v.SetString("scribbled")
			w.n++
		}
	}
}
