package segref

import (
	"errors"
	"fmt"
)

// LZ4 block format (lz4_Block_format.md). A block is a series of sequences:
//
//	token (hi nibble: literal length, lo nibble: match length - 4)
//	[literal length extension bytes: add each, stop after a byte != 255]   if hi nibble == 15
//	literals
//	offset, 2 bytes little-endian, 1..65535, not beyond the output produced so far
//	[match length extension bytes]                                         if lo nibble == 15
//
// The last sequence stops after its literals. Matches may overlap their own output (offset <
// match length), which is how long runs are expressed. Encoder-side rules (a decoder must not
// rely on them, an encoder must obey them): the last 5 bytes of the input are literals, and the
// last match starts at least 12 bytes before the end of the input.

// LZ4Stats describes a decoded block.
type LZ4Stats struct {
	Sequences      int  // sequences with a match
	MaxMatchLen    int  // longest match
	MaxOverlap     int  // largest matchLen/offset (how often a match re-reads its own output)
	LastLiterals   int  // literals of the final sequence
	LastMatchStart int  // output position where the last match started (-1: none)
	EndRulesOK     bool // the two encoder-side end-of-block rules hold
	TrailingNibble bool // final token had a non-zero match-length nibble (ignored by decoders)
}

// FormatError is what the block decoders return: Kind is a short stable class of the deviation
// (usable inside violation keys), Text the particulars.
type FormatError struct {
	Kind string
	Text string
}

func (e *FormatError) Error() string { return "segref: " + e.Kind + ": " + e.Text }

// ErrKind returns the Kind of a FormatError, "other" for foreign errors, "" for nil.
func ErrKind(err error) string {
	if err == nil {
		return ""
	}
	var fe *FormatError
	if errors.As(err, &fe) {
		return fe.Kind
	}
	return "other"
}

func lz4err(kind, format string, a ...interface{}) error {
	return &FormatError{Kind: kind, Text: "lz4: " + fmt.Sprintf(format, a...)}
}

var (
	// ErrLZ4NoToken: the input ends where a token is expected. An empty input is the simplest case:
	// the shortest LZ4 block is the single token 0x00 (no literals, no match).
	ErrLZ4NoToken error = &FormatError{Kind: "no-token", Text: "lz4: input ends where a token is expected"}
	ErrLZ4TooLong error = &FormatError{Kind: "too-long", Text: "lz4: block expands beyond the allowed size"}
)

// LZ4DecodeBlock expands one LZ4 block. limit < 0 means "no limit" (a hard ceiling of 1 GiB still
// applies); otherwise expanding beyond limit bytes is an error.
func LZ4DecodeBlock(src []byte, limit int) ([]byte, LZ4Stats, error) {
	st := LZ4Stats{LastMatchStart: -1}
	if limit < 0 {
		limit = 1 << 30
	}
	capHint := limit // callers usually know the exact size; do not trust huge limits
	if capHint > 64<<20 && capHint > 4*len(src)+64 {
		capHint = 4*len(src) + 64
	}
	out := make([]byte, 0, capHint)
	i := 0
	readExt := func(base int) (int, error) {
		v := base
		for {
			if i >= len(src) {
				return 0, lz4err("truncated", "input ends inside a length extension")
			}
			b := src[i]
			i++
			v += int(b)
			if v > 1<<30 {
				return 0, ErrLZ4TooLong
			}
			if b != 255 {
				return v, nil
			}
		}
	}
	for {
		if i >= len(src) {
			return out, st, ErrLZ4NoToken
		}
		token := src[i]
		i++
		lit := int(token >> 4)
		if lit == 15 {
			var err error
			if lit, err = readExt(15); err != nil {
				return out, st, err
			}
		}
		if lit > len(src)-i {
			return out, st, lz4err("truncated", "%d literals announced, %d input bytes left", lit, len(src)-i)
		}
		if len(out)+lit > limit {
			return out, st, ErrLZ4TooLong
		}
		out = append(out, src[i:i+lit]...)
		i += lit
		if i == len(src) {
			st.LastLiterals = lit
			st.TrailingNibble = token&15 != 0
			break
		}
		if len(src)-i < 2 {
			return out, st, lz4err("truncated", "input ends inside a match offset")
		}
		off := int(src[i]) | int(src[i+1])<<8
		i += 2
		if off == 0 {
			return out, st, lz4err("offset-zero", "match offset 0 after %d output bytes", len(out))
		}
		if off > len(out) {
			return out, st, lz4err("offset-range", "match offset %d reaches before the start of the output (%d bytes so far)", off, len(out))
		}
		ml := int(token & 15)
		if ml == 15 {
			var err error
			if ml, err = readExt(15); err != nil {
				return out, st, err
			}
		}
		ml += 4
		if len(out)+ml > limit {
			return out, st, ErrLZ4TooLong
		}
		st.Sequences++
		st.LastMatchStart = len(out)
		if ml > st.MaxMatchLen {
			st.MaxMatchLen = ml
		}
		if ov := ml / off; ov > st.MaxOverlap {
			st.MaxOverlap = ov
		}
		from := len(out) - off
		for k := 0; k < ml; k++ { // byte by byte: the source may be output written by this very copy
			out = append(out, out[from+k])
		}
	}
	n := len(out)
	st.EndRulesOK = st.Sequences == 0 || (st.LastLiterals >= 5 && st.LastMatchStart <= n-12)
	return out, st, nil
}

func appendLZ4Len(dst []byte, v int) []byte {
	for v >= 255 {
		dst = append(dst, 255)
		v -= 255
	}
	return append(dst, byte(v))
}

// appendLZ4Sequence emits literals followed by a match (matchLen >= 4) or, when matchLen == 0,
// the final literal-only sequence.
func appendLZ4Sequence(dst, literals []byte, offset, matchLen int) []byte {
	var token byte
	ll := len(literals)
	if ll >= 15 {
		token = 0xF0
	} else {
		token = byte(ll) << 4
	}
	ml := 0
	if matchLen > 0 {
		ml = matchLen - 4
		if ml >= 15 {
			token |= 0x0F
		} else {
			token |= byte(ml)
		}
	}
	dst = append(dst, token)
	if ll >= 15 {
		dst = appendLZ4Len(dst, ll-15)
	}
	dst = append(dst, literals...)
	if matchLen > 0 {
		dst = append(dst, byte(offset), byte(offset>>8))
		if ml >= 15 {
			dst = appendLZ4Len(dst, ml-15)
		}
	}
	return dst
}

func le32(b []byte) uint32 {
	return uint32(b[0]) | uint32(b[1])<<8 | uint32(b[2])<<16 | uint32(b[3])<<24
}

// LZ4EncodeBlock is a small greedy LZ4 block encoder (one hash probe per position, matches extended
// as far as the end-of-block rules allow). It is not meant to compress well in general; its purpose
// is to produce spec-valid blocks that another encoder did not produce, in particular a literal
// run followed by ONE long self-overlapping match for periodic input: 131071 equal bytes become
// 525 bytes (ratio ~250:1, the format's limit being 255:1).
func LZ4EncodeBlock(src []byte) []byte {
	n := len(src)
	dst := make([]byte, 0, n/200+32)
	anchor := 0
	if n >= 13 {
		const hashBits = 15
		var table [1 << hashBits]int32 // position+1 of the last occurrence of a 4-byte group
		matchEnd := n - 5              // matches must leave 5 literal bytes
		lastStart := n - 12            // a match must not start after this position
		for i := 0; i <= lastStart; {
			v := le32(src[i:])
			h := (v * 2654435761) >> (32 - hashBits)
			cand := int(table[h]) - 1
			table[h] = int32(i + 1)
			if cand >= 0 && i-cand <= 65535 && le32(src[cand:]) == v {
				m := 4
				for i+m < matchEnd && src[cand+m] == src[i+m] {
					m++
				}
				dst = appendLZ4Sequence(dst, src[anchor:i], i-cand, m)
				i += m
				anchor = i
				continue
			}
			i++
		}
	}
	return appendLZ4Sequence(dst, src[anchor:], 0, 0)
}

// LZ4EncodeLiteral emits src as a single literal-only sequence (always valid, never smaller than
// the input).
func LZ4EncodeLiteral(src []byte) []byte {
	return appendLZ4Sequence(make([]byte, 0, len(src)+len(src)/255+2), src, 0, 0)
}

// LZ4EncodeRun emits: `period` literal bytes, then one match of offset `period` covering the rest of
// src but the last 5 bytes, then 5 literals. src must be periodic with that period and at least
// period+4+5 (and 13) bytes long; ok is false otherwise.
func LZ4EncodeRun(src []byte, period int) (block []byte, ok bool) {
	n := len(src)
	if period < 1 || period > 65535 || n < 13 || n < period+4+5 || period > n-12 {
		return nil, false
	}
	for i := period; i < n; i++ {
		if src[i] != src[i-period] {
			return nil, false
		}
	}
	dst := appendLZ4Sequence(nil, src[:period], period, n-5-period)
	return appendLZ4Sequence(dst, src[n-5:], 0, 0), true
}

// LZ4Diagnose classifies why block is not an LZ4 encoding of want. It returns "" when the block
// expands to want, otherwise a short stable class:
//
//	offset-wrapped-64k  the first bad match has an offset field o (possibly 0) that does not
//	                    reproduce the input, while o+65536 does: a distance >= 65536 was emitted
//	                    modulo 2^16 (the offset field is 16 bits wide, distances are limited to 65535)
//	wrong-bytes         well-formed, but expands to something else
//	<FormatError.Kind>  ill-formed (no-token, truncated, offset-zero, offset-range, too-long)
func LZ4Diagnose(block, want []byte) string {
	out, _, err := LZ4DecodeBlock(block, len(want))
	if err == nil && len(out) == len(want) {
		same := true
		for i := range out {
			if out[i] != want[i] {
				same = false
				break
			}
		}
		if same {
			return ""
		}
	}
	kind := ErrKind(err)
	if err == nil {
		kind = "wrong-bytes"
	}
	// walk the sequences again, comparing every match with the input
	i, pos := 0, 0
	readExt := func(v int) (int, bool) {
		for {
			if i >= len(block) {
				return 0, false
			}
			b := block[i]
			i++
			v += int(b)
			if b != 255 {
				return v, true
			}
		}
	}
	for i < len(block) {
		token := block[i]
		i++
		lit := int(token >> 4)
		ok := true
		if lit == 15 {
			if lit, ok = readExt(15); !ok {
				return kind
			}
		}
		if lit > len(block)-i || pos+lit > len(want) {
			return kind
		}
		for k := 0; k < lit; k++ {
			if block[i+k] != want[pos+k] {
				return kind // a literal is already wrong: not an offset problem
			}
		}
		i += lit
		pos += lit
		if i == len(block) {
			return kind
		}
		if len(block)-i < 2 {
			return kind
		}
		off := int(block[i]) | int(block[i+1])<<8
		i += 2
		ml := int(token & 15)
		if ml == 15 {
			if ml, ok = readExt(15); !ok {
				return kind
			}
		}
		ml += 4
		if pos+ml > len(want) {
			return kind
		}
		reproduces := func(o int) bool {
			if o <= 0 || o > pos {
				return false
			}
			for k := 0; k < ml; k++ {
				if want[pos+k] != want[pos-o+k] {
					return false
				}
			}
			return true
		}
		if !reproduces(off) {
			if reproduces(off + 1<<16) {
				return "offset-wrapped-64k"
			}
			return kind
		}
		pos += ml
	}
	return kind
}
