package segref

import (
	"errors"
	"fmt"
)

// v5 framing (native_protocol_v5.spec §2). The header is a little-endian bit string: bit k of
// the header lives in byte k/8 at bit position k%8 (Cassandra writes the header integer with the
// least significant byte first).
//
//	uncompressed (§2.1): bits 0..16 payload length, bit 17 self-contained, bits 18..23 padding (0)
//	LZ4          (§2.2): bits 0..16 compressed length, bits 17..33 uncompressed length,
//	                     bit 34 self-contained, bits 35..39 padding (0)
//
// followed by the CRC-24 of those 3 / 5 bytes in 3 little-endian bytes, the payload as
// transmitted, and the seeded CRC-32 of the transmitted payload in 4 little-endian bytes.
//
// "Not compressed" inside the LZ4 format: Cassandra's FrameEncoderLZ4 / FrameDecoderLZ4 put the
// payload length in the first field and 0 in the uncompressed-length field (DESIGN.md §C06).

const (
	MaxPayload = 1<<17 - 1 // 131071

	PlainHeaderLen = 3
	LZ4HeaderLen   = 5
	CRC24Len       = 3
	CRC32Len       = 4
)

// Format selects the header variant.
type Format int

const (
	Plain Format = iota // §2.1, 3-byte header
	LZ4                 // §2.2, 5-byte header
)

func (f Format) String() string {
	if f == LZ4 {
		return "lz4"
	}
	return "plain"
}

func (f Format) HeaderLen() int {
	if f == LZ4 {
		return LZ4HeaderLen
	}
	return PlainHeaderLen
}

// Header is the decoded content of a segment header, field by field as transmitted.
type Header struct {
	Format Format
	// Length is the first 17-bit field: the payload length (Plain) or the "compressed length",
	// i.e. the number of payload bytes that follow the header (LZ4).
	Length uint32
	// UncompressedLength is the second 17-bit field (LZ4 only): length of the payload once
	// decompressed, or 0 when the payload is transmitted verbatim.
	UncompressedLength uint32
	SelfContained      bool
	// Padding holds the unused high bits (6 for Plain, 5 for LZ4); must be 0.
	Padding uint8
}

func setBits(buf []byte, from, width int, v uint64) {
	for i := 0; i < width; i++ {
		if (v>>uint(i))&1 == 1 {
			k := from + i
			buf[k/8] |= 1 << uint(k%8)
		}
	}
}

func getBits(buf []byte, from, width int) uint64 {
	var v uint64
	for i := 0; i < width; i++ {
		k := from + i
		if (buf[k/8]>>uint(k%8))&1 == 1 {
			v |= 1 << uint(i)
		}
	}
	return v
}

// PackHeader emits the 3 or 5 header bytes (without the CRC-24). Fields wider than 17 bits are an
// error.
func PackHeader(h Header) ([]byte, error) {
	if h.Length > MaxPayload || h.UncompressedLength > MaxPayload {
		return nil, fmt.Errorf("segref: length field does not fit 17 bits: %d / %d", h.Length, h.UncompressedLength)
	}
	flag := uint64(0)
	if h.SelfContained {
		flag = 1
	}
	switch h.Format {
	case Plain:
		if h.UncompressedLength != 0 {
			return nil, errors.New("segref: plain header has no uncompressed-length field")
		}
		if h.Padding >= 1<<6 {
			return nil, errors.New("segref: padding wider than 6 bits")
		}
		b := make([]byte, PlainHeaderLen)
		setBits(b, 0, 17, uint64(h.Length))
		setBits(b, 17, 1, flag)
		setBits(b, 18, 6, uint64(h.Padding))
		return b, nil
	case LZ4:
		if h.Padding >= 1<<5 {
			return nil, errors.New("segref: padding wider than 5 bits")
		}
		b := make([]byte, LZ4HeaderLen)
		setBits(b, 0, 17, uint64(h.Length))
		setBits(b, 17, 17, uint64(h.UncompressedLength))
		setBits(b, 34, 1, flag)
		setBits(b, 35, 5, uint64(h.Padding))
		return b, nil
	}
	return nil, errors.New("segref: unknown format")
}

// UnpackHeader is the inverse of PackHeader on exactly 3 / 5 bytes. It does not judge the padding.
func UnpackHeader(f Format, b []byte) (Header, error) {
	if len(b) != f.HeaderLen() {
		return Header{}, fmt.Errorf("segref: header must be %d bytes, got %d", f.HeaderLen(), len(b))
	}
	h := Header{Format: f}
	switch f {
	case Plain:
		h.Length = uint32(getBits(b, 0, 17))
		h.SelfContained = getBits(b, 17, 1) == 1
		h.Padding = uint8(getBits(b, 18, 6))
	case LZ4:
		h.Length = uint32(getBits(b, 0, 17))
		h.UncompressedLength = uint32(getBits(b, 17, 17))
		h.SelfContained = getBits(b, 34, 1) == 1
		h.Padding = uint8(getBits(b, 35, 5))
	default:
		return Header{}, errors.New("segref: unknown format")
	}
	return h, nil
}

func putLE(dst []byte, v uint32, n int) {
	for i := 0; i < n; i++ {
		dst[i] = byte(v >> (8 * uint(i)))
	}
}

func getLE(src []byte, n int) uint32 {
	var v uint32
	for i := 0; i < n; i++ {
		v |= uint32(src[i]) << (8 * uint(i))
	}
	return v
}

// WriteSegment emits a complete segment: header, CRC-24, the given bytes as transmitted payload,
// CRC-32. h.Length must equal len(transmitted).
func WriteSegment(h Header, transmitted []byte) ([]byte, error) {
	if int(h.Length) != len(transmitted) {
		return nil, fmt.Errorf("segref: header length %d != %d transmitted bytes", h.Length, len(transmitted))
	}
	hb, err := PackHeader(h)
	if err != nil {
		return nil, err
	}
	out := make([]byte, 0, len(hb)+CRC24Len+len(transmitted)+CRC32Len)
	out = append(out, hb...)
	var c3 [3]byte
	putLE(c3[:], CRC24(hb), 3)
	out = append(out, c3[:]...)
	out = append(out, transmitted...)
	var c4 [4]byte
	putLE(c4[:], CRC32Bulk(transmitted), 4)
	out = append(out, c4[:]...)
	return out, nil
}

// WritePlain builds a §2.1 segment carrying payload.
func WritePlain(payload []byte, selfContained bool) ([]byte, error) {
	return WriteSegment(Header{Format: Plain, Length: uint32(len(payload)), SelfContained: selfContained}, payload)
}

// WriteLZ4Compressed builds a §2.2 segment whose transmitted payload is the given LZ4 block and
// whose uncompressed-length field is uncompressedLen (> 0).
func WriteLZ4Compressed(block []byte, uncompressedLen int, selfContained bool) ([]byte, error) {
	if uncompressedLen <= 0 {
		return nil, errors.New("segref: a compressed segment needs a non-zero uncompressed length")
	}
	return WriteSegment(Header{Format: LZ4, Length: uint32(len(block)), UncompressedLength: uint32(uncompressedLen), SelfContained: selfContained}, block)
}

// WriteLZ4Fallback builds a §2.2 segment that carries payload verbatim (uncompressed length 0).
func WriteLZ4Fallback(payload []byte, selfContained bool) ([]byte, error) {
	return WriteSegment(Header{Format: LZ4, Length: uint32(len(payload)), SelfContained: selfContained}, payload)
}

// Parsed is what the strict parser saw.
type Parsed struct {
	Header        Header
	HeaderBytes   []byte
	StoredCRC24   uint32
	ComputedCRC24 uint32
	Transmitted   []byte // the payload bytes exactly as on the wire
	StoredCRC32   uint32
	ComputedCRC32 uint32
	Total         int // bytes consumed == len(input) when err == nil
}

// Problem is one deviation from the layout found by ParseStrict; Field names the part of the
// layout that is wrong so that callers can key violations by it.
type Problem struct {
	Field string // truncated | padding | crc24 | crc32 | trailing | length
	Text  string
}

func (p Problem) Error() string { return "segref: " + p.Field + ": " + p.Text }

// ParseStrict parses exactly one segment out of b and reports every deviation from the layout:
// truncation, non-zero padding, CRC mismatches, bytes left over. The returned Parsed is filled as
// far as the input allows even when problems are reported.
func ParseStrict(f Format, b []byte) (Parsed, []Problem) {
	var p Parsed
	var probs []Problem
	hl := f.HeaderLen()
	if len(b) < hl+CRC24Len {
		return p, []Problem{{"truncated", fmt.Sprintf("%d bytes cannot hold a %d-byte header and its CRC-24", len(b), hl)}}
	}
	p.HeaderBytes = b[:hl]
	h, err := UnpackHeader(f, p.HeaderBytes)
	if err != nil {
		return p, []Problem{{"length", err.Error()}}
	}
	p.Header = h
	if h.Padding != 0 {
		probs = append(probs, Problem{"padding", fmt.Sprintf("padding bits are %#x, must be 0", h.Padding)})
	}
	p.StoredCRC24 = getLE(b[hl:], CRC24Len)
	p.ComputedCRC24 = CRC24(p.HeaderBytes)
	if p.StoredCRC24 != p.ComputedCRC24 {
		probs = append(probs, Problem{"crc24", fmt.Sprintf("stored %06x, computed %06x over % x", p.StoredCRC24, p.ComputedCRC24, p.HeaderBytes)})
	}
	off := hl + CRC24Len
	n := int(h.Length)
	if len(b) < off+n+CRC32Len {
		probs = append(probs, Problem{"truncated", fmt.Sprintf("header announces %d payload bytes, %d bytes remain for payload and CRC-32", n, len(b)-off)})
		return p, probs
	}
	p.Transmitted = b[off : off+n]
	p.StoredCRC32 = getLE(b[off+n:], CRC32Len)
	p.ComputedCRC32 = CRC32Bulk(p.Transmitted)
	if p.StoredCRC32 != p.ComputedCRC32 {
		probs = append(probs, Problem{"crc32", fmt.Sprintf("stored %08x, computed %08x", p.StoredCRC32, p.ComputedCRC32)})
	}
	p.Total = off + n + CRC32Len
	if p.Total != len(b) {
		probs = append(probs, Problem{"trailing", fmt.Sprintf("segment is %d bytes, input has %d", p.Total, len(b))})
	}
	return p, probs
}

// Payload returns the application payload of a parsed segment: the transmitted bytes (Plain, or
// LZ4 with uncompressed length 0) or their LZ4 expansion, which must have exactly the announced
// uncompressed length.
func (p Parsed) Payload() ([]byte, error) {
	if p.Header.Format == Plain || p.Header.UncompressedLength == 0 {
		return p.Transmitted, nil
	}
	out, _, err := LZ4DecodeBlock(p.Transmitted, int(p.Header.UncompressedLength))
	if err != nil {
		return nil, err
	}
	if len(out) != int(p.Header.UncompressedLength) {
		return nil, fmt.Errorf("segref: block expands to %d bytes, header announces %d", len(out), p.Header.UncompressedLength)
	}
	return out, nil
}
