// Package segref holds the independent oracles for the v5 framing layer and the compression
// formats (DESIGN.md M2, the part used by C06, C07 and C08).
//
// Hard rule: this package imports NOTHING from the library under test, nor hash/crc32, nor the
// lz4 / snappy modules. Everything is written from the format descriptions:
//
//   - /repo/specs/native_protocol_v5.spec §2 (framing),
//   - Cassandra's org.apache.cassandra.net.Crc (CRC-24: polynomial 0x1974F0B, initial value
//     0x875060, header bytes fed least-significant byte first, each byte most-significant bit
//     first; CRC-32: the standard reflected IEEE 802.3 CRC computed over the four bytes
//     FA 2D 55 CA followed by the data),
//   - the LZ4 block format description (lz4_Block_format.md),
//   - the Snappy format description (format_description.txt).
package segref

// CRC24 is the checksum of the v5 segment header: polynomial division over GF(2), one message bit
// at a time, of the header bytes in transmission order. The register is 24 bits wide, starts at
// 0x875060, the generator is x^24 + (0x974F0B) i.e. 0x1974F0B with the implicit top bit.
func CRC24(header []byte) uint32 {
	const gen = 0x974F0B // 0x1974F0B without the x^24 term
	reg := uint32(0x875060)
	for _, b := range header {
		for bit := 7; bit >= 0; bit-- {
			in := uint32(b>>uint(bit)) & 1
			top := (reg >> 23) & 1
			reg = (reg << 1) & 0xFFFFFF
			if top^in == 1 {
				reg ^= gen
			}
		}
	}
	return reg
}

// CRC24OfInt feeds the n low bytes of v, least significant first (what Cassandra's
// Crc.crc24(long bytes, int len) does).
func CRC24OfInt(v uint64, n int) uint32 {
	b := make([]byte, n)
	for i := 0; i < n; i++ {
		b[i] = byte(v >> (8 * uint(i)))
	}
	return CRC24(b)
}

const crc32PolyReflected = 0xEDB88320

func crc32Step(reg uint32, b byte) uint32 {
	reg ^= uint32(b)
	for k := 0; k < 8; k++ {
		mask := -(reg & 1) // all ones when the low bit is set
		reg = (reg >> 1) ^ (crc32PolyReflected & mask)
	}
	return reg
}

// CRC32 is the payload checksum: reflected IEEE CRC-32 (init 0xFFFFFFFF, final complement) of
// FA 2D 55 CA || data, computed bit by bit.
func CRC32(data []byte) uint32 {
	reg := uint32(0xFFFFFFFF)
	for _, b := range [4]byte{0xFA, 0x2D, 0x55, 0xCA} {
		reg = crc32Step(reg, b)
	}
	for _, b := range data {
		reg = crc32Step(reg, b)
	}
	return ^reg
}

// crc32Table[b] is the register after feeding byte b to an all-zero register: 8 steps of the very
// same bit-by-bit division as crc32Step. It only serves to go through bulk data a byte at a time
// (CRC32Bulk); the bit-by-bit CRC32 stays the reference and the two are cross-checked by the package
// tests and at the start of every C06 run.
var crc32Table = func() (t [256]uint32) {
	for b := 0; b < 256; b++ {
		t[b] = crc32Step(0, byte(b))
	}
	return
}()

// CRC32Bulk computes the same value as CRC32, one table lookup per byte.
func CRC32Bulk(data []byte) uint32 {
	reg := uint32(0xFFFFFFFF)
	for _, b := range [4]byte{0xFA, 0x2D, 0x55, 0xCA} {
		reg = crc32Table[byte(reg)^b] ^ (reg >> 8)
	}
	for _, b := range data {
		reg = crc32Table[byte(reg)^b] ^ (reg >> 8)
	}
	return ^reg
}

// CRC32Plain is the unseeded IEEE CRC-32 (used only by the self tests: check value of
// "123456789" is 0xCBF43926).
func CRC32Plain(data []byte) uint32 {
	reg := uint32(0xFFFFFFFF)
	for _, b := range data {
		reg = crc32Step(reg, b)
	}
	return ^reg
}
