package segref

import "fmt"

// Snappy block format (format_description.txt): a preamble holding the uncompressed length as a
// little-endian base-128 varint (at most 32 bits), then elements. The low two bits of an element's
// tag byte select its kind:
//
//	00 literal: length-1 in the upper six bits; 60..63 mean that length-1 follows in 1..4
//	   little-endian bytes
//	01 copy, 1-byte offset: length = 4 + bits 2..4, offset = bits 5..7 << 8 | next byte
//	10 copy, 2-byte offset: length = 1 + upper six bits, offset = next two bytes, little-endian
//	11 copy, 4-byte offset: length = 1 + upper six bits, offset = next four bytes, little-endian
//
// Offsets are >= 1 and never reach before the start of the output; copies may overlap their own
// output. The elements must produce exactly the announced number of bytes.

// SnappyStats describes a decoded block.
type SnappyStats struct {
	DeclaredLen int
	Literals    int
	Copies      int
	MaxOverlap  int // largest copyLen/offset
}

// SnappyDecodeBlock expands one Snappy block; expanding beyond limit bytes (limit >= 0) is an error.
func SnappyDecodeBlock(src []byte, limit int) ([]byte, SnappyStats, error) {
	var st SnappyStats
	if limit < 0 {
		limit = 1 << 30
	}
	// preamble
	var n uint64
	i := 0
	for shift := uint(0); ; shift += 7 {
		if i >= len(src) {
			return nil, st, snerr("input ends inside the length preamble")
		}
		if shift >= 35 {
			return nil, st, snerr("length preamble longer than 5 bytes")
		}
		b := src[i]
		i++
		n |= uint64(b&0x7F) << shift
		if b&0x80 == 0 {
			break
		}
	}
	if n > 0xFFFFFFFF {
		return nil, st, snerr("announced length does not fit 32 bits")
	}
	st.DeclaredLen = int(n)
	if int(n) > limit {
		return nil, st, snerr("announced length %d beyond the allowed size %d", n, limit)
	}
	out := make([]byte, 0, int(n))
	need := func(k int) error {
		if len(src)-i < k {
			return snerr("element needs %d more bytes, %d left", k, len(src)-i)
		}
		return nil
	}
	for i < len(src) {
		tag := src[i]
		i++
		var length, offset int
		switch tag & 3 {
		case 0:
			l := int(tag >> 2)
			if l >= 60 {
				k := l - 59
				if err := need(k); err != nil {
					return out, st, err
				}
				l = 0
				for j := 0; j < k; j++ {
					l |= int(src[i+j]) << (8 * uint(j))
				}
				i += k
			}
			length = l + 1
			if length <= 0 {
				return out, st, snerr("literal length overflow")
			}
			if err := need(length); err != nil {
				return out, st, err
			}
			if len(out)+length > int(n) {
				return out, st, snerr("elements produce more than the announced %d bytes", n)
			}
			out = append(out, src[i:i+length]...)
			i += length
			st.Literals++
			continue
		case 1:
			if err := need(1); err != nil {
				return out, st, err
			}
			length = 4 + int(tag>>2)&7
			offset = int(tag>>5)<<8 | int(src[i])
			i++
		case 2:
			if err := need(2); err != nil {
				return out, st, err
			}
			length = 1 + int(tag>>2)
			offset = int(src[i]) | int(src[i+1])<<8
			i += 2
		case 3:
			if err := need(4); err != nil {
				return out, st, err
			}
			length = 1 + int(tag>>2)
			offset = int(src[i]) | int(src[i+1])<<8 | int(src[i+2])<<16 | int(src[i+3])<<24
			i += 4
		}
		if offset <= 0 {
			return out, st, snerr("copy offset 0")
		}
		if offset > len(out) {
			return out, st, snerr("copy offset %d reaches before the start of the output (%d bytes so far)", offset, len(out))
		}
		if len(out)+length > int(n) {
			return out, st, snerr("elements produce more than the announced %d bytes", n)
		}
		st.Copies++
		if ov := length / offset; ov > st.MaxOverlap {
			st.MaxOverlap = ov
		}
		from := len(out) - offset
		for k := 0; k < length; k++ {
			out = append(out, out[from+k])
		}
	}
	if len(out) != int(n) {
		return out, st, snerr("elements produce %d bytes, %d announced", len(out), n)
	}
	return out, st, nil
}

func snerr(format string, a ...interface{}) error {
	return &FormatError{Kind: "snappy-format", Text: "snappy: " + fmt.Sprintf(format, a...)}
}
