package segref

import (
	"bytes"
	"testing"
)

// Vectors below are external: the CRC-32 check value of the CRC catalogue, and snapshots of
// Cassandra / the DataStax Java driver (same numbers the repository quotes from those sources).

func TestCRC32(t *testing.T) {
	if got := CRC32Plain([]byte("123456789")); got != 0xCBF43926 {
		t.Fatalf("plain crc32 check value: %08x", got)
	}
	q := []byte{6, 16, 0, 0, 7, 0, 0, 0, 47, 0, 0, 0, 37, 83, 69, 76, 69, 67, 84, 32, 99, 108, 117, 115, 116, 101, 114,
		95, 110, 97, 109, 101, 32, 70, 82, 79, 77, 32, 115, 121, 115, 116, 101, 109, 46, 108, 111, 99, 97, 108,
		0, 1, 0, 0, 0, 0}
	if got := CRC32(q); got != 37932456 {
		t.Fatalf("seeded crc32 of java-driver payload: %d", got)
	}
	if CRC32(nil) != CRC32Plain([]byte{0xFA, 0x2D, 0x55, 0xCA}) {
		t.Fatal("seed")
	}
	for n := 0; n < 2000; n += 1 + n/7 {
		b := pat(n, 251)
		if CRC32(b) != CRC32Bulk(b) {
			t.Fatalf("bulk crc differs at %d", n)
		}
	}
}

func TestCRC24(t *testing.T) {
	for _, v := range []struct {
		data uint64
		n    int
		want uint32
	}{
		{0, 0, 8867936}, {0, 1, 59277}, {0, 3, 8251255}, {0, 5, 11185162}, {0, 8, 9640737},
		{9223372036854775807, 1, 1294145}, {9223372036854775807, 3, 8029951}, {9223372036854775807, 5, 9326200},
		{9223372036854775807, 8, 5032370}, {131077, 3, 10131737}, {17181442053, 5, 3672222}, {34359607301, 5, 14445742},
	} {
		if got := CRC24OfInt(v.data, v.n); got != v.want {
			t.Errorf("crc24(%d,%d) = %d want %d", v.data, v.n, got, v.want)
		}
	}
}

func TestHeader(t *testing.T) {
	// 1-byte payload, self contained, plain: 01 00 02 (payload length bit 16 = 0, flag = bit 1 of byte 2)
	b, _ := PackHeader(Header{Format: Plain, Length: 1, SelfContained: true})
	if !bytes.Equal(b, []byte{1, 0, 2}) {
		t.Fatalf("% x", b)
	}
	b, _ = PackHeader(Header{Format: Plain, Length: MaxPayload, SelfContained: true})
	if !bytes.Equal(b, []byte{0xFF, 0xFF, 0x03}) {
		t.Fatalf("% x", b)
	}
	// compressed 26, uncompressed 100, self contained: 1a 00 c8 00 04
	b, _ = PackHeader(Header{Format: LZ4, Length: 26, UncompressedLength: 100, SelfContained: true})
	if !bytes.Equal(b, []byte{0x1a, 0x00, 0xc8, 0x00, 0x04}) {
		t.Fatalf("% x", b)
	}
	b, _ = PackHeader(Header{Format: LZ4, Length: MaxPayload, UncompressedLength: MaxPayload, SelfContained: true})
	if !bytes.Equal(b, []byte{0xFF, 0xFF, 0xFF, 0xFF, 0x07}) {
		t.Fatalf("% x", b)
	}
	for _, f := range []Format{Plain, LZ4} {
		for _, l := range []uint32{0, 1, 255, 256, 65535, 65536, MaxPayload} {
			for _, s := range []bool{false, true} {
				h := Header{Format: f, Length: l, SelfContained: s}
				if f == LZ4 {
					h.UncompressedLength = MaxPayload - l
				}
				b, err := PackHeader(h)
				if err != nil {
					t.Fatal(err)
				}
				g, err := UnpackHeader(f, b)
				if err != nil || g != h {
					t.Fatalf("%+v -> % x -> %+v", h, b, g)
				}
			}
		}
	}
	if _, err := PackHeader(Header{Format: Plain, Length: MaxPayload + 1}); err == nil {
		t.Fatal("18-bit length accepted")
	}
}

func TestSegment(t *testing.T) {
	// golden bytes of a 1-byte self-contained plain segment (Cassandra layout):
	// 01 00 02 | 72 56 ac | 01 | 0b 2b 9b ba
	seg, err := WritePlain([]byte{1}, true)
	if err != nil {
		t.Fatal(err)
	}
	want := []byte{1, 0, 2, 0x72, 0x56, 0xac, 1, 0x0b, 0x2b, 0x9b, 0xba}
	if !bytes.Equal(seg, want) {
		t.Fatalf("% x", seg)
	}
	p, probs := ParseStrict(Plain, seg)
	if len(probs) != 0 || p.Total != len(seg) || !p.Header.SelfContained || p.Header.Length != 1 {
		t.Fatalf("%+v %v", p, probs)
	}
	for i := range seg {
		for bit := 0; bit < 8; bit++ {
			bad := append([]byte(nil), seg...)
			bad[i] ^= 1 << uint(bit)
			if _, probs := ParseStrict(Plain, bad); len(probs) == 0 {
				t.Fatalf("flip byte %d bit %d not noticed", i, bit)
			}
		}
	}
	if _, probs := ParseStrict(Plain, append(seg, 0)); len(probs) != 1 || probs[0].Field != "trailing" {
		t.Fatalf("%v", probs)
	}
	if _, probs := ParseStrict(Plain, seg[:len(seg)-1]); len(probs) != 1 || probs[0].Field != "truncated" {
		t.Fatalf("%v", probs)
	}
}

func pat(n, period int) []byte {
	b := make([]byte, n)
	for i := range b {
		b[i] = byte(i%period*37 + 1)
	}
	return b
}

func TestLZ4(t *testing.T) {
	// known block (from the lz4 documentation style): 100 zero bytes... use the encoder both ways
	for _, n := range []int{0, 1, 4, 5, 12, 13, 14, 17, 18, 19, 20, 64, 255, 270, 271, 272, 300, 4096, 65535, 65536, 70000, MaxPayload} {
		for _, period := range []int{1, 2, 3, 7, 255, 1 << 20} {
			x := pat(n, period)
			blk := LZ4EncodeBlock(x)
			out, st, err := LZ4DecodeBlock(blk, n)
			if err != nil || !bytes.Equal(out, x) {
				t.Fatalf("n=%d period=%d: %v", n, period, err)
			}
			if !st.EndRulesOK {
				t.Fatalf("n=%d period=%d: end rules violated %+v", n, period, st)
			}
			if _, _, err := LZ4DecodeBlock(blk, n-1); n > 0 && err == nil {
				t.Fatalf("limit not enforced")
			}
			if run, ok := LZ4EncodeRun(x, period); ok {
				out, st, err := LZ4DecodeBlock(run, n)
				if err != nil || !bytes.Equal(out, x) || !st.EndRulesOK || st.Sequences != 1 {
					t.Fatalf("run n=%d period=%d: %v %+v", n, period, err, st)
				}
			}
			lit := LZ4EncodeLiteral(x)
			if out, _, err := LZ4DecodeBlock(lit, n); err != nil || !bytes.Equal(out, x) {
				t.Fatalf("literal n=%d: %v", n, err)
			}
		}
	}
	z := make([]byte, MaxPayload)
	blk := LZ4EncodeBlock(z)
	if r := len(z) / len(blk); r < 245 {
		t.Fatalf("ratio %d (%d bytes)", r, len(blk))
	}
	// hand-assembled block: "abc" literal, match offset 3 length 9, then 5 literals "abcab"
	hand := []byte{0x35, 'a', 'b', 'c', 3, 0, 0x50, 'a', 'b', 'c', 'a', 'b'}
	out, _, err := LZ4DecodeBlock(hand, -1)
	if err != nil || string(out) != "abcabcabcabcabcab" {
		t.Fatalf("%q %v", out, err)
	}
	if _, _, err := LZ4DecodeBlock(nil, -1); err != ErrLZ4NoToken {
		t.Fatalf("empty block: %v", err)
	}
	if out, _, err := LZ4DecodeBlock([]byte{0}, 0); err != nil || len(out) != 0 {
		t.Fatalf("single token: %v", err)
	}
	for _, bad := range [][]byte{{0x10}, {0x01, 0, 0}, {0x10, 'a', 0, 0, 0}, {0x10, 'a', 2, 0, 0}, {0xF0}, {0x1F, 'a', 1, 0}} {
		if _, _, err := LZ4DecodeBlock(bad, -1); err == nil {
			t.Fatalf("accepted % x", bad)
		}
	}
}

func TestSnappy(t *testing.T) {
	// hand-assembled: length 17; literal "abc" (tag (3-1)<<2 = 08); copy-1 offset 3 len 9 (tag 01 | (9-4)<<2 = 0x15, 03);
	// copy-2 offset 3 len 5 (tag 10 | (5-1)<<2 = 0x12, 03 00)
	blk := []byte{17, 0x08, 'a', 'b', 'c', 0x15, 3, 0x12, 3, 0}
	out, st, err := SnappyDecodeBlock(blk, -1)
	if err != nil || string(out) != "abcabcabcabcabcab" || st.Copies != 2 || st.Literals != 1 {
		t.Fatalf("%q %v %+v", out, err, st)
	}
	if out, _, err := SnappyDecodeBlock([]byte{0}, -1); err != nil || len(out) != 0 {
		t.Fatalf("empty: %v", err)
	}
	// long literal with a 2-byte length: 300 bytes -> tag 61<<2, 0x2b 0x01
	x := pat(300, 1<<20)
	blk = append([]byte{0xAC, 0x02, 61 << 2, 0x2B, 0x01}, x...)
	if out, _, err := SnappyDecodeBlock(blk, -1); err != nil || !bytes.Equal(out, x) {
		t.Fatalf("long literal: %v", err)
	}
	for _, bad := range [][]byte{{}, {1}, {2, 0x00, 'a'}, {1, 0x04, 'a', 'b'}, {5, 0x00, 'a', 0x01, 0}, {5, 0x00, 'a', 0x01, 2}, {0x80, 0x80, 0x80, 0x80, 0x80, 0x01}} {
		if _, _, err := SnappyDecodeBlock(bad, -1); err == nil {
			t.Fatalf("accepted % x", bad)
		}
	}
}
