package segref

import (
	"bytes"
	"compress/flate"
)

// Content classes for payload / body generation. Every generator is a pure function of
// (class, n, the PRNG handed in).

type Source interface{ Uint64() uint64 }

type Class int

const (
	AllEqual      Class = iota // n copies of one byte (0 for the first draw of every 4, else random)
	Period2                    // 2-byte pattern repeated
	Period3                    // 3-byte pattern repeated
	Period7                    // 7-byte pattern repeated
	Period255                  // 255-byte pattern repeated
	Text                       // words of a small vocabulary, separators, numbers (ratio ~2..4)
	Random                     // PRNG bytes (incompressible)
	RandomRepeats              // PRNG bytes interleaved with long copies of earlier parts and long runs
	Precompressed              // DEFLATE output of text-like data (high entropy, some structure)
	Window64K                  // 12-byte records (6 PRNG bytes + a fixed tag) with period 65536: every byte
	//                            equals the one exactly 64 KiB earlier, the edge of LZ4's match window
	NumClasses
)

var classNames = [...]string{"all-equal", "period2", "period3", "period7", "period255", "text", "random", "random+repeats", "precompressed", "window64k"}

func (c Class) String() string {
	if c >= 0 && int(c) < len(classNames) {
		return classNames[c]
	}
	return "class?"
}

func fill(r Source, b []byte) {
	for i := 0; i < len(b); i += 8 {
		v := r.Uint64()
		for j := 0; j < 8 && i+j < len(b); j++ {
			b[i+j] = byte(v >> (8 * uint(j)))
		}
	}
}

func periodic(r Source, n, p int) []byte {
	pat := make([]byte, p)
	fill(r, pat)
	// make sure the pattern really has period p (first byte differs from all others is enough
	// for a prime p; for 255 it keeps the pattern from degenerating)
	for i := 1; i < p; i++ {
		if pat[i] == pat[0] {
			pat[i] ^= 0x55
		}
	}
	b := make([]byte, n)
	for i := range b {
		b[i] = pat[i%p]
	}
	return b
}

var vocabulary = []string{
	"SELECT", "FROM", "WHERE", "INSERT", "INTO", "VALUES", "UPDATE", "SET", "AND", "keyspace", "table", "system",
	"local", "peers", "cluster_name", "data_center", "rack", "tokens", "host_id", "release_version", "rpc_address",
	"schema_version", "native_transport_port", "user", "name", "value", "timestamp", "uuid", "varchar", "bigint",
	"the", "quick", "brown", "fox", "jumps", "over", "lazy", "dog", "cassandra", "protocol", "frame", "segment",
}

func text(r Source, n int) []byte {
	var b bytes.Buffer
	b.Grow(n + 32)
	for b.Len() < n {
		v := r.Uint64()
		switch v % 11 {
		case 0:
			b.WriteString(", ")
		case 1:
			b.WriteString(" = ")
		case 2:
			// a number
			x := (v >> 8) % 100000
			var d [8]byte
			k := len(d)
			for {
				k--
				d[k] = byte('0' + x%10)
				x /= 10
				if x == 0 {
					break
				}
			}
			b.Write(d[k:])
		case 3:
			b.WriteString(";\n")
		default:
			b.WriteString(vocabulary[(v>>8)%uint64(len(vocabulary))])
			b.WriteByte(' ')
		}
	}
	return b.Bytes()[:n]
}

func randomRepeats(r Source, n int) []byte {
	b := make([]byte, 0, n)
	for len(b) < n {
		v := r.Uint64()
		room := n - len(b)
		switch {
		case len(b) == 0 || v%4 == 0: // fresh random bytes
			k := 1 + int((v>>8)%200)
			if k > room {
				k = room
			}
			t := make([]byte, k)
			fill(r, t)
			b = append(b, t...)
		case v%4 == 1: // long run of one byte
			k := 20 + int((v>>8)%5000)
			if k > room {
				k = room
			}
			c := byte(v >> 40)
			for j := 0; j < k; j++ {
				b = append(b, c)
			}
		default: // copy of an earlier part, possibly overlapping its own output, up to 64 KiB back and far back
			dist := 1 + int((v>>8)%uint64(len(b)))
			k := 4 + int((v>>32)%3000)
			if k > room {
				k = room
			}
			from := len(b) - dist
			for j := 0; j < k; j++ {
				b = append(b, b[from+j])
			}
		}
	}
	return b
}

func precompressed(r Source, n int) []byte {
	var out bytes.Buffer
	for out.Len() < n {
		w, _ := flate.NewWriter(&out, flate.BestSpeed)
		chunk := 3*n + 64
		if chunk > 1<<20 {
			chunk = 1 << 20
		}
		w.Write(text(r, chunk))
		w.Close()
	}
	return out.Bytes()[:n]
}

func window64k(r Source, n int) []byte {
	const w = 1 << 16
	b := make([]byte, n)
	for i := 0; i < n && i < w; i += 12 {
		v := r.Uint64()
		rec := [12]byte{byte(v), byte(v >> 8), byte(v >> 16), byte(v >> 24), byte(v >> 32), byte(v >> 40), 'c', 'e', 'l', 'l', '=', 0}
		copy(b[i:], rec[:])
	}
	for i := w; i < n; i++ {
		b[i] = b[i-w]
	}
	return b
}

// Content returns n bytes of the given class.
func Content(c Class, n int, r Source) []byte {
	if n == 0 {
		return []byte{}
	}
	switch c {
	case AllEqual:
		v := r.Uint64()
		var fillByte byte
		if v%4 != 0 {
			fillByte = byte(v >> 8)
		}
		b := make([]byte, n)
		for i := range b {
			b[i] = fillByte
		}
		return b
	case Period2:
		return periodic(r, n, 2)
	case Period3:
		return periodic(r, n, 3)
	case Period7:
		return periodic(r, n, 7)
	case Period255:
		return periodic(r, n, 255)
	case Text:
		return text(r, n)
	case Random:
		b := make([]byte, n)
		fill(r, b)
		return b
	case RandomRepeats:
		return randomRepeats(r, n)
	case Precompressed:
		return precompressed(r, n)
	case Window64K:
		return window64k(r, n)
	}
	panic("segref: unknown content class")
}
