// Package gen is the version-valid generator (DESIGN.md M1): abstract frames whose message uses
// only features defined for the frame's version, written from the spec files' feature lists
// (internal/ref feature gates). Shapes (which optional fields are present, which variant of a
// union) come from a Chooser — exhaustively enumerable — and values from a PRNG.
package gen

import "verif/internal/mon"

// Chooser yields shape decisions. In enumeration mode it replays a path of choices and extends it
// with zeros; Next advances the path like an odometer, so that looping until Next returns false
// visits every reachable combination of choices exactly once. In random mode it draws from a PRNG.
type Chooser struct {
	path  []int
	arity []int
	pos   int
	rnd   *mon.Rand
}

func NewEnumChooser() *Chooser            { return &Chooser{} }
func NewRandChooser(r *mon.Rand) *Chooser { return &Chooser{rnd: r} }

// Choose returns a value in [0, n).
func (c *Chooser) Choose(n int) int {
	if n <= 1 {
		return 0
	}
	if c.rnd != nil {
		return c.rnd.Intn(n)
	}
	if c.pos < len(c.path) {
		v := c.path[c.pos]
		c.arity[c.pos] = n
		c.pos++
		if v >= n {
			v = n - 1
		}
		return v
	}
	c.path = append(c.path, 0)
	c.arity = append(c.arity, n)
	c.pos++
	return 0
}

func (c *Chooser) Bool() bool { return c.Choose(2) == 1 }

// Next moves to the next combination; false when the space is exhausted (enumeration mode only).
func (c *Chooser) Next() bool {
	if c.rnd != nil {
		return true
	}
	// only the positions actually consulted in the last run count
	c.path = c.path[:c.pos]
	c.arity = c.arity[:c.pos]
	for i := len(c.path) - 1; i >= 0; i-- {
		if c.path[i]+1 < c.arity[i] {
			c.path[i]++
			c.path = c.path[:i+1]
			c.arity = c.arity[:i+1]
			c.pos = 0
			return true
		}
	}
	return false
}

// Reset rewinds for the next generation run with the same path.
func (c *Chooser) Reset() { c.pos = 0 }

// Signature renders the current path (the shape) compactly.
func (c *Chooser) Signature() string {
	b := make([]byte, 0, len(c.path))
	for i := 0; i < c.pos && i < len(c.path); i++ {
		b = append(b, byte('0'+c.path[i]%36))
	}
	return string(b)
}
