package gen

import (
	"strings"

	"verif/internal/mon"
	"verif/internal/ref"
)

// Gen draws values. Size limits keep the quick tier fast; Big raises them.
type Gen struct {
	R   *mon.Rand
	C   *Chooser
	V   ref.Version
	Big bool // thorough tier: longer strings, deeper types, more rows
	// value-class vector of the frame being generated (part of its distinctness signature)
	classes []byte
}

func (g *Gen) class(c byte) { g.classes = append(g.classes, c) }

func (g *Gen) Classes() string { return string(g.classes) }

var words = []string{"ks", "tbl", "col", "SELECT * FROM t WHERE k = ?", "système", "日本語", "a\x00b", "x", "org.apache.cassandra.db.marshal.Foo"}

// Str returns a [string] payload (length <= 65535).
func (g *Gen) Str(nonEmpty bool) string {
	switch k := g.R.Intn(40); {
	case k == 0 && !nonEmpty:
		g.class('e')
		return ""
	case k == 1:
		g.class('1')
		return string(rune('a' + g.R.Intn(26)))
	case k == 2:
		g.class('2')
		return strings.Repeat("é", 1) // two bytes
	case k == 3:
		g.class('f')
		return strings.Repeat("x", 255)
	case k == 4:
		g.class('g')
		return strings.Repeat("y", 256)
	case k == 5 && (g.Big || g.R.Intn(8) == 0):
		g.class('M')
		return strings.Repeat("z", 65535)
	case k == 6:
		g.class('r')
		return string(g.R.Bytes(1 + g.R.Intn(40))) // arbitrary bytes (not necessarily UTF-8)
	}
	g.class('w')
	return words[g.R.Intn(len(words))]
}

// LongStr returns a [long string] payload.
func (g *Gen) LongStr(nonEmpty bool) string {
	switch k := g.R.Intn(60); {
	case k == 0 && !nonEmpty:
		g.class('e')
		return ""
	case k == 1:
		g.class('L') // > 65535, highly compressible
		n := 65536 + g.R.Intn(1<<16)
		if g.Big {
			n = 1<<20 + g.R.Intn(1<<22)
		}
		return strings.Repeat("a", n)
	case k == 2:
		g.class('R') // incompressible
		n := 4096 + g.R.Intn(1<<15)
		return string(g.R.Bytes(n))
	case k == 3:
		g.class('P') // periodic text
		return strings.Repeat("INSERT INTO ks.t (a,b,c) VALUES (?,?,?); ", 50+g.R.Intn(2000))
	case k == 4:
		g.class('W') // content that repeats with a period of exactly 64 KiB (the LZ4 window size)
		return string(g.window64k())
	}
	return g.Str(nonEmpty)
}

// window64k: 64 KiB of 12-byte records followed by the beginning of the same bytes again.
func (g *Gen) window64k() []byte {
	blk := make([]byte, 0, 65536+4096)
	for len(blk) < 65536 {
		blk = append(blk, g.R.Bytes(6)...)
		blk = append(blk, "cell=\x00"...)
	}
	blk = blk[:65536]
	return append(blk, blk[:1024+g.R.Intn(3000)]...)
}

// Blob returns bytes of a length class.
func (g *Gen) Blob(nonEmpty bool) []byte {
	switch k := g.R.Intn(30); {
	case k == 0 && !nonEmpty:
		g.class('e')
		return []byte{}
	case k == 1:
		g.class('1')
		return []byte{byte(g.R.Intn(256))}
	case k == 2:
		g.class('B')
		n := 70000
		if g.Big {
			n = 1 << 20
		}
		b := make([]byte, n) // zeros: maximally compressible
		return b
	case k == 3:
		g.class('R')
		return g.R.Bytes(1000 + g.R.Intn(60000))
	case k == 4 && g.R.Intn(3) == 0:
		g.class('W')
		return g.window64k()
	}
	g.class('s')
	return g.R.Bytes(1 + g.R.Intn(24))
}

// ShortBlob: [short bytes] payload (<= 65535).
func (g *Gen) ShortBlob(nonEmpty bool) []byte {
	switch k := g.R.Intn(30); {
	case k == 0 && !nonEmpty:
		g.class('e')
		return nil
	case k == 1:
		g.class('M')
		return g.R.Bytes(65535)
	}
	g.class('s')
	return g.R.Bytes(1 + g.R.Intn(20))
}

func (g *Gen) Bytes() ref.Bytes {
	if g.R.Intn(3) == 0 {
		g.class('n')
		return ref.NullBytes
	}
	return ref.B(g.Blob(false))
}

var int32Pool = []int32{0, 1, -1, 2, 127, 128, 255, 256, 32767, 32768, 65535, 65536, 1<<31 - 1, -1 << 31, -2, 1 << 24, -(1 << 24), 1000}

func (g *Gen) Int32() int32 {
	if g.R.Intn(4) == 0 {
		return int32(g.R.Uint64())
	}
	return int32Pool[g.R.Intn(len(int32Pool))]
}

func (g *Gen) PosInt32() int32 {
	pool := []int32{1, 2, 127, 128, 255, 256, 5000, 65535, 65536, 1<<31 - 1}
	if g.R.Intn(4) == 0 {
		return int32(g.R.Uint64()&0x7fffffff) | 1
	}
	return pool[g.R.Intn(len(pool))]
}

func (g *Gen) Int64() int64 {
	pool := []int64{0, 1, -1, 1<<63 - 1, -1 << 63, 1 << 32, -(1 << 32), 1 << 31, 1<<31 - 1, 1577836800000000}
	if g.R.Intn(3) == 0 {
		return int64(g.R.Uint64())
	}
	return pool[g.R.Intn(len(pool))]
}

func (g *Gen) Uint16() uint16 {
	pool := []uint16{0, 1, 2, 127, 128, 255, 256, 32767, 32768, 65535}
	if g.R.Intn(3) == 0 {
		return uint16(g.R.Uint64())
	}
	return pool[g.R.Intn(len(pool))]
}

// Consistency: every declared [consistency] value 0x0000..0x000A (§3).
func (g *Gen) Consistency() uint16 { return uint16(g.R.Intn(11)) }

// SerialConsistency: SERIAL (8) or LOCAL_SERIAL (9) ("can only be either SERIAL or LOCAL_SERIAL").
func (g *Gen) SerialConsistency() *uint16 { c := uint16(8 + g.R.Intn(2)); return &c }

func (g *Gen) StrList(max int) []string {
	n := g.R.Intn(3) // 0, 1, several
	if n == 2 {
		n = 2 + g.R.Intn(max)
	}
	var l []string
	for i := 0; i < n; i++ {
		l = append(l, g.Str(false))
	}
	return l
}

func (g *Gen) IP() []byte {
	if g.R.Bool() {
		g.class('6')
		b := g.R.Bytes(16)
		if b[0] == 0 && b[10] == 0xff && b[11] == 0xff { // avoid v4-mapped look-alikes: they ARE IPv4 to net.IP
			b[0] = 0x20
		}
		// an IPv6 address whose first 12 bytes are the v4-in-v6 prefix is an IPv4 address to net.IP
		isMapped := true
		for i := 0; i < 10; i++ {
			if b[i] != 0 {
				isMapped = false
			}
		}
		if isMapped {
			b[0] = 0x20
		}
		return b
	}
	g.class('4')
	return g.R.Bytes(4)
}

func (g *Gen) Inet() ref.Inet { return ref.Inet{IP: g.IP(), Port: g.Int32()} }

func (g *Gen) Value() ref.Value {
	n := 2
	if g.V.HasUnset() {
		n = 3
	}
	switch g.R.Intn(n) {
	case 1:
		g.class('n')
		return ref.Value{Kind: -1}
	case 2:
		g.class('u')
		return ref.Value{Kind: -2}
	}
	return ref.Value{Kind: 0, B: g.Blob(false)}
}

func (g *Gen) Values(max int) []ref.Value {
	n := g.R.Intn(3)
	if n == 2 {
		n = 2 + g.R.Intn(max)
	}
	var l []ref.Value
	for i := 0; i < n; i++ {
		l = append(l, g.Value())
	}
	return l
}

// scalar type codes by version (§4.2.5.2 option ids; 0x000A "text" has no library object: DESIGN §5 D13).
func (g *Gen) scalarCodes() []uint16 {
	c := []uint16{1, 2, 3, 4, 5, 6, 7, 8, 9, 0x0B, 0x0C, 0x0D, 0x0E, 0x0F, 0x10}
	if g.V.HasV4Errors() { // v4+: date, time, smallint, tinyint
		c = append(c, 0x11, 0x12, 0x13, 0x14)
	}
	if g.V.HasDuration() {
		c = append(c, 0x15)
	}
	return c
}

// Type draws a type descriptor nested up to depth.
func (g *Gen) Type(depth int) ref.Type {
	kinds := 3 // scalar, custom, list/set/map
	if g.V.HasV3Types() {
		kinds = 5 // + tuple, udt
	}
	k := 0
	if depth > 0 {
		k = g.R.Intn(kinds + 2) // scalars a little more likely at the top
		if k >= kinds {
			k = 0
		}
	}
	switch k {
	case 1:
		g.class('c')
		return ref.Type{Code: ref.TCustom, Custom: g.Str(false)}
	case 2:
		switch g.R.Intn(3) {
		case 0:
			g.class('l')
			return ref.Type{Code: ref.TList, Elems: []ref.Type{g.Type(depth - 1)}}
		case 1:
			g.class('s')
			return ref.Type{Code: ref.TSet, Elems: []ref.Type{g.Type(depth - 1)}}
		}
		g.class('m')
		return ref.Type{Code: ref.TMap, Elems: []ref.Type{g.Type(depth - 1), g.Type(depth - 1)}}
	case 3:
		g.class('t')
		n := g.R.Intn(4) // tuples with 0 fields are expressible
		t := ref.Type{Code: ref.TTuple}
		for i := 0; i < n; i++ {
			t.Elems = append(t.Elems, g.Type(depth-1))
		}
		return t
	case 4:
		g.class('U')
		n := g.R.Intn(4)
		t := ref.Type{Code: ref.TUDT, Keyspace: g.Str(false), Name: g.Str(false)}
		for i := 0; i < n; i++ {
			t.Fields = append(t.Fields, g.Str(false))
			t.Elems = append(t.Elems, g.Type(depth-1))
		}
		return t
	}
	codes := g.scalarCodes()
	return ref.Type{Code: codes[g.R.Intn(len(codes))]}
}

func (g *Gen) typeDepth() int {
	if g.Big {
		return 6
	}
	return 4
}

// Columns draws n column specs; sameTable decides whether they share (keyspace, table).
func (g *Gen) Columns(n int, sameTable bool) []ref.ColumnSpec {
	ks, tb := g.Str(false), g.Str(false)
	var cols []ref.ColumnSpec
	for i := 0; i < n; i++ {
		c := ref.ColumnSpec{Keyspace: ks, Table: tb, Name: g.Str(false), Type: g.Type(g.typeDepth())}
		if !sameTable && i > 0 {
			c.Keyspace, c.Table = g.Str(false)+"_"+string(rune('a'+i%26)), g.Str(false)
			if len(c.Keyspace) > 65535 {
				c.Keyspace = c.Keyspace[2:]
			}
		}
		cols = append(cols, c)
	}
	return cols
}
