package gen

import (
	"fmt"

	"verif/internal/mon"
	"verif/internal/ref"
)

// Kind identifies a message kind the generator can build.
type Kind struct {
	Name     string
	Response bool
	Defined  func(v ref.Version) bool
	Build    func(g *Gen) ref.Msg
}

func always(ref.Version) bool { return true }

func errKind(code int32, defined func(ref.Version) bool) Kind {
	return Kind{Name: "ERROR." + ref.ErrorName(code), Response: true, Defined: defined, Build: func(g *Gen) ref.Msg { return g.errorMsg(code) }}
}

// Kinds is every message kind the library models (17 opcodes; every RESULT, EVENT and ERROR variant).
var Kinds = []Kind{
	{"STARTUP", false, always, (*Gen).startup},
	{"OPTIONS", false, always, func(*Gen) ref.Msg { return &ref.Options{} }},
	{"QUERY", false, always, (*Gen).query},
	{"PREPARE", false, always, (*Gen).prepare},
	{"EXECUTE", false, always, (*Gen).execute},
	{"REGISTER", false, always, (*Gen).register},
	{"BATCH", false, always, (*Gen).batch},
	{"AUTH_RESPONSE", false, always, func(g *Gen) ref.Msg { return &ref.AuthResponse{Token: g.Bytes()} }},
	{"REVISE", false, ref.Version.HasRevise, (*Gen).revise},
	{"READY", true, always, func(*Gen) ref.Msg { return &ref.Ready{} }},
	{"AUTHENTICATE", true, always, func(g *Gen) ref.Msg { return &ref.Authenticate{Authenticator: g.Str(true)} }},
	{"SUPPORTED", true, always, (*Gen).supported},
	{"AUTH_CHALLENGE", true, always, func(g *Gen) ref.Msg { return &ref.AuthChallenge{Token: g.Bytes()} }},
	{"AUTH_SUCCESS", true, always, func(g *Gen) ref.Msg { return &ref.AuthSuccess{Token: g.Bytes()} }},
	{"RESULT.Void", true, always, func(*Gen) ref.Msg { return &ref.ResultVoid{} }},
	{"RESULT.Rows", true, always, (*Gen).rows},
	{"RESULT.SetKeyspace", true, always, func(g *Gen) ref.Msg { return &ref.ResultSetKeyspace{Keyspace: g.Str(true)} }},
	{"RESULT.Prepared", true, always, (*Gen).prepared},
	{"RESULT.SchemaChange", true, always, func(g *Gen) ref.Msg { return g.schemaChange(false) }},
	{"EVENT.SchemaChange", true, always, func(g *Gen) ref.Msg { return g.schemaChange(true) }},
	{"EVENT.StatusChange", true, always, (*Gen).statusChange},
	{"EVENT.TopologyChange", true, always, (*Gen).topologyChange},
	errKind(ref.ErrServer, always), errKind(ref.ErrProtocol, always), errKind(ref.ErrAuth, always),
	errKind(ref.ErrUnavailable, always), errKind(ref.ErrOverloaded, always), errKind(ref.ErrBootstrapping, always),
	errKind(ref.ErrTruncate, always), errKind(ref.ErrWriteTimeout, always), errKind(ref.ErrReadTimeout, always),
	errKind(ref.ErrReadFailure, ref.Version.HasV4Errors), errKind(ref.ErrFunctionFailure, ref.Version.HasV4Errors),
	errKind(ref.ErrWriteFailure, ref.Version.HasV4Errors),
	errKind(ref.ErrSyntax, always), errKind(ref.ErrUnauthorized, always), errKind(ref.ErrInvalid, always),
	errKind(ref.ErrConfig, always), errKind(ref.ErrAlreadyExists, always), errKind(ref.ErrUnprepared, always),
}

func KindByName(n string) *Kind {
	for i := range Kinds {
		if Kinds[i].Name == n {
			return &Kinds[i]
		}
	}
	return nil
}

// Case is one generated frame with its provenance.
type Case struct {
	Frame *ref.Frame
	Kind  string
	Shape string // chooser path
	Sig   string // distinctness signature: kind, version, shape, flags, value classes
}

// Frame builds one frame of kind k for version v. Shape decisions come from c, values from r.
// fixedFlags >= 0 forces the frame-level flag combination (bit0 tracing, bit1 warnings, bit2 payload).
func Frame(k *Kind, v ref.Version, c *Chooser, r *mon.Rand, big bool, fixedFlags int) Case {
	g := &Gen{R: r, C: c, V: v, Big: big}
	f := &ref.Frame{Version: v, Response: k.Response}
	lo, hi := v.StreamBounds()
	switch r.Intn(6) {
	case 0:
		f.Stream = int16(lo)
	case 1:
		f.Stream = int16(hi)
	case 2:
		f.Stream = -1
	case 3:
		f.Stream = 0
	default:
		f.Stream = int16(lo + r.Intn(hi-lo+1))
	}
	fl := fixedFlags
	if fl < 0 {
		fl = r.Intn(8)
		if r.Intn(2) == 0 {
			fl = 0
		}
	}
	if fl&1 != 0 {
		if k.Response {
			var id [16]byte
			copy(id[:], r.Bytes(16))
			f.TracingID = &id
		} else {
			f.TraceRequested = true
		}
	}
	if v.HasPayloadAndWarnings() {
		if fl&2 != 0 && k.Response {
			w := g.StrListR(3)
			f.Warnings = &w
		}
		if fl&4 != 0 {
			n := r.Intn(4)
			p := []ref.KBytes{}
			for i := 0; i < n; i++ {
				kb := ref.KBytes{K: fmt.Sprintf("k%d-%s", i, g.Str(false))}
				if len(kb.K) > 65535 {
					kb.K = kb.K[:65535]
				}
				if r.Intn(4) == 0 {
					kb.V = ref.NullBytes
				} else {
					kb.V = ref.B(g.Blob(false))
				}
				p = append(p, kb)
			}
			f.Payload = &p
		}
	}
	f.Msg = k.Build(g)
	ref.Norm(f)
	shape := c.Signature()
	return Case{Frame: f, Kind: k.Name, Shape: shape,
		Sig: fmt.Sprintf("%s|%v|%s|%d|%s", k.Name, v, shape, f.Flags(), g.Classes())}
}

// StrListR draws a list whose length comes from the PRNG, not the chooser (frame-level parts).
func (g *Gen) StrListR(max int) []string {
	n := g.R.Intn(max + 1)
	l := []string{}
	for i := 0; i < n; i++ {
		l = append(l, g.Str(false))
	}
	return l
}

func (g *Gen) startup() ref.Msg {
	m := &ref.Startup{}
	keys := []string{"CQL_VERSION", "COMPRESSION", "DRIVER_NAME", "DRIVER_VERSION", "THROW_ON_OVERLOAD", "CLIENT_ID"}
	n := g.C.Choose(3)
	if n == 2 {
		n = 2 + g.R.Intn(4)
	}
	for i := 0; i < n; i++ {
		m.Options = append(m.Options, ref.KV{K: keys[i], V: g.Str(false)})
	}
	return m
}

func (g *Gen) supported() ref.Msg {
	m := &ref.Supported{}
	n := g.C.Choose(3)
	if n == 2 {
		n = 2 + g.R.Intn(3)
	}
	for i := 0; i < n; i++ {
		m.Options = append(m.Options, ref.KList{K: fmt.Sprintf("OPT%d", i), V: g.StrList(3)})
	}
	return m
}

var eventTypes = []string{"TOPOLOGY_CHANGE", "STATUS_CHANGE", "SCHEMA_CHANGE"}

func (g *Gen) register() ref.Msg {
	n := 1 + g.C.Choose(4) // 4: one event type is listed twice (a [string list] may repeat itself)
	m := &ref.Register{}
	off := g.R.Intn(3)
	for i := 0; i < n; i++ {
		m.Events = append(m.Events, eventTypes[(off+i)%3])
	}
	return m
}

func (g *Gen) queryOptions() ref.QueryOptions {
	v := g.V
	q := ref.QueryOptions{Consistency: g.Consistency()}
	nv := 2
	if v.HasTimestampAndNames() {
		nv = 3
	}
	switch g.C.Choose(nv) {
	case 1:
		q.HasValues = true
		q.Positional = g.Values(4)
	case 2:
		q.HasValues, q.Named = true, true
		n := g.C.Choose(3)
		if n == 2 {
			n = 2 + g.R.Intn(3)
		}
		for i := 0; i < n; i++ {
			name := fmt.Sprintf("n%d%s", i, g.Str(false))
			if len(name) > 65535 {
				name = name[:65535]
			}
			q.NamedValues = append(q.NamedValues, ref.NamedValue{Name: name, Value: g.Value()})
		}
	}
	q.SkipMetadata = g.C.Bool()
	if g.C.Bool() {
		p := g.PosInt32()
		q.PageSize = &p
		if v.HasContinuousPaging() {
			q.PageSizeInBytes = g.C.Bool()
		}
	}
	if g.C.Bool() {
		b := ref.B(g.Blob(false))
		q.PagingState = &b
	}
	if g.C.Bool() {
		q.SerialConsistency = g.SerialConsistency()
	}
	if v.HasTimestampAndNames() && g.C.Bool() {
		t := g.Int64()
		q.Timestamp = &t
	}
	if v.HasKeyspace() && g.C.Bool() {
		k := g.Str(true)
		q.Keyspace = &k
	}
	if v.HasNowInSeconds() && g.C.Bool() {
		n := g.Int32()
		q.NowInSeconds = &n
	}
	if v.HasContinuousPaging() && g.C.Bool() {
		q.ContinuousPaging = &ref.ContinuousPaging{MaxPages: g.Int32(), PagesPerSecond: g.Int32()}
		if v.HasNextPages() {
			q.ContinuousPaging.NextPages = g.Int32()
		}
	}
	return q
}

func (g *Gen) query() ref.Msg { return &ref.Query{Query: g.LongStr(false), Opts: g.queryOptions()} }

func (g *Gen) prepare() ref.Msg {
	m := &ref.Prepare{Query: g.LongStr(true)}
	if g.V.HasPrepareFlags() && g.C.Bool() {
		k := g.Str(true)
		m.Keyspace = &k
	}
	return m
}

func (g *Gen) execute() ref.Msg {
	m := &ref.Execute{ID: g.ShortBlob(true)}
	if g.V.HasResultMetadataID() {
		m.ResultMetadataID = g.ShortBlob(true)
	}
	m.Opts = g.queryOptions()
	return m
}

func (g *Gen) batch() ref.Msg {
	v := g.V
	m := &ref.Batch{Type: byte(g.R.Intn(3)), Consistency: g.Consistency()}
	n := g.C.Choose(3)
	if n == 2 {
		n = 2 + g.R.Intn(5)
		if g.R.Intn(50) == 0 {
			n = 300
			if g.Big && g.R.Intn(4) == 0 {
				n = 65535
			}
		}
	}
	for i := 0; i < n; i++ {
		var c ref.BatchChild
		if (i == 0 && g.C.Bool()) || (i > 0 && g.R.Bool()) {
			c.IsID = true
			c.ID = g.ShortBlob(true)
		} else {
			if n > 100 {
				c.Query = "INSERT"
			} else {
				c.Query = g.LongStr(true)
			}
		}
		if n <= 100 {
			if i == 0 {
				c.Values = g.Values(3)
			} else {
				for j := g.R.Intn(3); j > 0; j-- {
					c.Values = append(c.Values, ref.Value{Kind: 0, B: g.R.Bytes(g.R.Intn(9))})
				}
			}
		}
		m.Children = append(m.Children, c)
	}
	if v.HasBatchFlags() {
		if g.C.Bool() {
			m.SerialConsistency = g.SerialConsistency()
		}
		if g.C.Bool() {
			t := g.Int64()
			m.Timestamp = &t
		}
		if v.HasKeyspace() && g.C.Bool() {
			k := g.Str(true)
			m.Keyspace = &k
		}
		if v.HasNowInSeconds() && g.C.Bool() {
			s := g.Int32()
			m.NowInSeconds = &s
		}
	}
	return m
}

func (g *Gen) revise() ref.Msg {
	m := &ref.Revise{Type: 1, Target: g.Int32()}
	if g.V == ref.DSE2 && g.C.Bool() {
		m.Type = 2
		m.NextPages = g.Int32()
	}
	return m
}

func (g *Gen) rowsMetadata(forRows bool) ref.RowsMetadata {
	v := g.V
	var m ref.RowsMetadata
	// columns: none (NO_METADATA), one, several sharing a table, several not sharing
	switch g.C.Choose(4) {
	case 0:
		if forRows {
			m.ColumnCount = int32(g.R.Intn(4)) // NO_METADATA still carries the column count
		} else if g.R.Bool() {
			m.ColumnCount = int32(g.R.Intn(4))
		}
	case 1:
		m.Columns = g.Columns(1, true)
	case 2:
		m.Columns = g.Columns(2+g.R.Intn(3), true)
	case 3:
		m.Columns = g.Columns(2+g.R.Intn(3), false)
	}
	if len(m.Columns) > 0 {
		m.ColumnCount = int32(len(m.Columns))
	}
	if g.C.Bool() {
		b := ref.B(g.Blob(false))
		m.PagingState = &b
	}
	if v.HasResultMetadataID() && len(m.Columns) > 0 && g.C.Bool() {
		// "Metadata_changed: if set, the No_metadata flag has to be unset"
		b := g.ShortBlob(false)
		if b == nil {
			b = []byte{}
		}
		m.NewMetadataID = &b
	}
	if v.HasContinuousPaging() && g.C.Bool() {
		p := g.PosInt32()
		m.ContinuousPage = &p
		m.LastPage = g.C.Bool()
	}
	return m
}

func (g *Gen) rows() ref.Msg {
	m := &ref.ResultRows{Meta: g.rowsMetadata(true)}
	n := g.C.Choose(3)
	if n == 2 {
		n = 2 + g.R.Intn(6)
		if g.R.Intn(40) == 0 {
			n = 2000
		}
	}
	cc := int(m.Meta.ColumnCount)
	for i := 0; i < n; i++ {
		row := make([]ref.Bytes, 0, cc)
		for j := 0; j < cc; j++ {
			if n > 100 {
				row = append(row, ref.B(g.R.Bytes(g.R.Intn(12))))
			} else if i == 0 && j == 0 {
				row = append(row, g.Bytes())
			} else if g.R.Intn(5) == 0 {
				row = append(row, ref.NullBytes)
			} else {
				row = append(row, ref.B(g.Blob(false)))
			}
		}
		m.Rows = append(m.Rows, row)
	}
	return m
}

func (g *Gen) prepared() ref.Msg {
	v := g.V
	m := &ref.ResultPrepared{ID: g.ShortBlob(true)}
	if v.HasResultMetadataID() {
		m.ResultMetadataID = g.ShortBlob(true)
	}
	switch g.C.Choose(4) {
	case 1:
		m.Vars.Columns = g.Columns(1, true)
	case 2:
		m.Vars.Columns = g.Columns(2+g.R.Intn(3), true)
	case 3:
		m.Vars.Columns = g.Columns(2+g.R.Intn(3), false)
	}
	if v.HasPkIndices() {
		n := g.C.Choose(3)
		if n == 2 {
			n = 2 + g.R.Intn(3)
		}
		for i := 0; i < n; i++ {
			m.Vars.PkIndices = append(m.Vars.PkIndices, g.Uint16())
		}
	}
	m.Result = g.rowsMetadata(false)
	return m
}

var changeTypes = []string{"CREATED", "UPDATED", "DROPPED"}

func (g *Gen) schemaChange(event bool) ref.Msg {
	v := g.V
	m := &ref.SchemaChange{Event: event, ChangeType: changeTypes[g.R.Intn(3)], Keyspace: g.Str(true)}
	targets := []string{"KEYSPACE", "TABLE"}
	if v.HasV3Types() {
		targets = append(targets, "TYPE")
	}
	if v.HasFunctionTargets() {
		targets = append(targets, "FUNCTION", "AGGREGATE")
	}
	m.Target = targets[g.C.Choose(len(targets))]
	switch m.Target {
	case "KEYSPACE":
	case "FUNCTION", "AGGREGATE":
		m.Object = g.Str(true)
		m.Args = g.StrList(3)
	default:
		m.Object = g.Str(true)
	}
	return m
}

func (g *Gen) statusChange() ref.Msg {
	return &ref.StatusChange{ChangeType: []string{"UP", "DOWN"}[g.C.Choose(2)], Addr: g.Inet()}
}

func (g *Gen) topologyChange() ref.Msg {
	t := []string{"NEW_NODE", "REMOVED_NODE"}
	if g.V.HasV3Types() {
		t = append(t, "MOVED_NODE")
	}
	return &ref.TopologyChange{ChangeType: t[g.C.Choose(len(t))], Addr: g.Inet()}
}

// every declared write type (§9 0x1100): the library declares these eight.
var writeTypes = []string{"SIMPLE", "BATCH", "UNLOGGED_BATCH", "COUNTER", "BATCH_LOG", "CAS", "VIEW", "CDC"}

func (g *Gen) errorMsg(code int32) ref.Msg {
	v := g.V
	m := &ref.Error{Code: code, Message: g.Str(false)}
	switch code {
	case ref.ErrUnavailable:
		m.Consistency, m.Required, m.Alive = g.Consistency(), g.Int32(), g.Int32()
	case ref.ErrWriteTimeout:
		m.Consistency, m.Received, m.BlockFor = g.Consistency(), g.Int32(), g.Int32()
		m.WriteType = writeTypes[g.C.Choose(len(writeTypes))]
		if v.HasContentions() && m.WriteType == "CAS" {
			m.Contentions = g.Uint16()
		}
	case ref.ErrReadTimeout:
		m.Consistency, m.Received, m.BlockFor, m.DataPresent = g.Consistency(), g.Int32(), g.Int32(), g.C.Bool()
	case ref.ErrReadFailure, ref.ErrWriteFailure:
		m.Consistency, m.Received, m.BlockFor = g.Consistency(), g.Int32(), g.Int32()
		if v.HasReasonMap() {
			n := g.C.Choose(3)
			if n == 2 {
				n = 2 + g.R.Intn(3)
			}
			for i := 0; i < n; i++ {
				m.Reasons = append(m.Reasons, ref.Reason{IP: g.IP(), Code: uint16(g.R.Intn(7))}) // declared failure codes 0..6
			}
		} else {
			m.NumFailures = g.Int32()
		}
		if code == ref.ErrReadFailure {
			m.DataPresent = g.C.Bool()
		} else {
			m.WriteType = writeTypes[g.C.Choose(len(writeTypes))]
		}
	case ref.ErrFunctionFailure:
		m.Keyspace, m.Function, m.Args = g.Str(false), g.Str(false), g.StrList(3)
	case ref.ErrAlreadyExists:
		m.Keyspace, m.Table = g.Str(false), g.Str(false)
	case ref.ErrUnprepared:
		m.ID = g.ShortBlob(false)
	}
	return m
}
