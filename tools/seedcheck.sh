#!/bin/bash
# tools/seedcheck.sh <name> <patch.diff> <CNN> [<CNN>...]
# Applies a seeded break to a scratch worktree of /repo HEAD, runs the repository's own suite and the
# given checks against it (VERIF_REPO), prints one line per step, removes the worktree.
set -u
name="$1"; patch="$2"; shift; shift
export GOFLAGS=-mod=mod GOPROXY=off GOSUMDB=off GOTOOLCHAIN=local
wt="/tmp/sc-$name"
git -C /repo worktree remove --force "$wt" >/dev/null 2>&1
git -C /repo worktree add --detach "$wt" HEAD >/dev/null 2>&1 || { echo "cannot create worktree"; exit 2; }
if ! git -C "$wt" apply "$patch"; then echo "PATCH-DOES-NOT-APPLY $name"; git -C /repo worktree remove --force "$wt"; exit 2; fi
( cd "$wt" && go build ./... ) || { echo "BUILD-FAILS $name"; git -C /repo worktree remove --force "$wt"; exit 2; }
suite=FAIL
for try in 1 2 3 4; do
  # a private network namespace: the repository's client tests bind the fixed port 9043
  out=$( cd "$wt" && unshare -n sh -c 'ip link set lo up && go test -vet=off -count=1 ./...' 2>&1 )
  if echo "$out" | grep -q "^FAIL\|--- FAIL"; then
    if echo "$out" | grep -q "address already in use"; then sleep 7; continue; fi
    suite=FAIL; break
  else suite=PASS; break; fi
done
echo "SUITE $suite $name"
[ "$suite" = FAIL ] && echo "$out" | grep -E "^(--- FAIL|FAIL|panic)" | head -5
cd /verif
for id in "$@"; do
  res=$(VERIF_REPO="$wt" ./check "$id" quick 2>&1); rc=$?
  nv=$(echo "$res" | grep -c "^VIOLATION")
  echo "CHECK $id exit=$rc violations=$nv $name :: $(echo "$res" | grep "^VIOLATION" | head -3 | sed 's/.*key=//' | tr '\n' ' ')"
done
git -C /repo worktree remove --force "$wt" >/dev/null 2>&1
rm -f /verif/.build/*."$(echo -n "$wt" | sha1sum | cut -c1-10)"* 2>/dev/null
