#!/usr/bin/env python3
"""tools/seedsave.py <seed-id> <property> <patch> <demo-file> <notes.md> <caught: yes|no> <checks-run> <result-line>
Archives a confirmed seeded break under /verif/seeded/<seed-id>/ (patch.diff, demo, meta.json)."""
import sys, os, shutil, json
sid, prop, patch, demo, notes, caught, checks, result = sys.argv[1:9]
d = os.path.join('/verif/seeded', sid)
os.makedirs(d, exist_ok=True)
shutil.copy(patch, os.path.join(d, 'patch.diff'))
if os.path.isdir(demo):
    shutil.copytree(demo, os.path.join(d, os.path.basename(demo)), dirs_exist_ok=True)
elif os.path.exists(demo):
    shutil.copy(demo, os.path.join(d, os.path.basename(demo)))
note = open(notes).read() if os.path.exists(notes) else ''
meta = {
    'id': sid, 'breaks_property': prop,
    'source': 'fresh sub-agent given only the property text and a scratch worktree of /repo',
    'what_it_needs_to_manifest_and_author_notes': note,
    'confirmed': 'applied to a scratch worktree of /repo HEAD with tools/seedcheck.sh: builds, repository suite passes, author demo fails with / passes without (as reported by the author and spot-checked)',
    'checks_run': checks.split(','), 'caught': caught == 'yes', 'result': result,
}
json.dump(meta, open(os.path.join(d, 'meta.json'), 'w'), indent=1)
print('saved', d)
