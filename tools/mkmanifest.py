#!/usr/bin/env python3
"""Regenerates MANIFEST.json from the table below (kept here so the file stays valid at all times)."""
import json, subprocess, sys, os

ROOT = os.path.dirname(os.path.dirname(os.path.abspath(__file__)))

# id -> (category, technique, level text, level note, design ref) ; only properties whose check is built
TB = "the Go toolchain and runtime; internal/mon (verdict bookkeeping); the ./check driver building /repo's working tree with -tags verif"
CHECKS = {
 "C01": ("exploration", "runtime round-trip monitor over generated frames (exhaustive shape enumeration + PRNG values)",
  "Every optional-field shape of every (message kind, version) is enumerated exhaustively and each is encoded and decoded by the real codec under {none, LZ4, Snappy}; the decoded object is read back into an abstract normal form and compared with the generated frame. Holds on the executions observed; values are sampled, shapes are complete.",
  "Trusts internal/bridge (what a library object denotes, normal form N1-N9) and the generator's version gates (internal/ref, from the spec files). " + TB, "DESIGN.md §4 C01"),
 "C02": ("exploration", "differential monitor against an independent codec written from the spec files; exhaustive 2^16 header table",
  "The library's bytes for every generated frame are parsed by an independent strict decoder written from /repo/specs, and bytes produced by an independent encoder are fed to the library; all 65536 (version byte, opcode) headers are tried and must be accepted iff the specs define them. Catches symmetric deviations a round trip cannot see.",
  "Trusted base: my reading of the six spec files (internal/ref), quoted next to each feature gate. " + TB, "DESIGN.md §4 C02"),
 "C03": ("exploration", "runtime length monitors at frame, message, notation and stream level",
  "Four monitors over the real encoders/decoders: declared vs emitted body length for every generated frame and compression (incl. tracing requested on requests); EncodedLength vs bytes written for every message codec; every LengthOf*/Write* notation pair by value class (all 65 vint magnitude classes); PRNG streams of 1..16 back-to-back frames walked with DecodeFrame, DecodeRawFrame and DecodeHeader+DiscardBody through a counting reader.",
  "Frames come from the shared generator; stream sequences and vint fill-ins are sampled. " + TB, "DESIGN.md §4 C03"),
 "C04": ("exploration", "hostile-input monitor: structure-aware mutations of valid encodings fed to every decoding entry point in isolated, memory-capped worker processes; panics recovered per call, worker deaths classified by a supervisor",
  "Every decoding entry point (9 frame-level paths x 6 versions x {none, LZ4, Snappy}, DecodeSegment with and without LZ4, 17 message codecs x 6 versions, ReadDataType, all 23 primitive.Read* [table compared with the source tree at run time], 3 decompressors, 27 CQL value codecs x generated / untyped / universal / preferred / pre-filled destinations) receives mutants of valid encodings: every offset x width {1,2,4} set to -1, -2, 0, boundary values, truncation at every offset, bit flips, splices, random bytes, hostile length prefixes and blocks, CRC-corrected segment mutants, bytes of type A through the codec of type B; inputs up to 64 KiB (quick) / 1 MiB (thorough). A recovered panic, a fatal error that reproduces alone, or a call that does not return while burning CPU is a violation keyed by entry point, innermost library function and class. Holds on the executions observed (about 8e5 quick, 9e6 thorough).",
  "Memory exhaustion under the address-space cap and calls that do not return while resident memory grows are a separate resource class (reported with inputs, inconclusive, not violations): the statement lists panic, nil dereference, stack overflow and non-termination. Mutants that would turn a length field into 2^17..2^31 are thinned (counted in evidence) because the library allocates what the wire says. " + TB, "DESIGN.md §4 C04"),
 "C05": ("exploration", "differential monitor across the seven partial/raw/full codec paths + re-encode fixpoint on mutated wire inputs",
  "The same bytes (plus sentinel bytes) go through DecodeFrame, DecodeRawFrame+Convert, DecodeHeader+DecodeBody/DecodeRawBody/DiscardBody (seekable and not), ConvertToRawFrame+EncodeRawFrame and EncodeHeader+EncodeBody; all results must agree and consume exactly header+declared length. Mutated wire inputs (flags byte and body bytes) that still decode must re-encode to a fixpoint.",
  "Mutants whose length fields were damaged are discarded by an allocation-free structural pre-parse (absurd lengths belong to C04); an encode refusal of a decoded mutant is counted, not judged. " + TB, "DESIGN.md §4 C05"),
 "C06": ("exploration", "segment round trip + independent strict parser of the v5 framing layout (own CRC-24/CRC-32/LZ4 implementations)",
  "Every boundary length (thorough: every length 0..131071) x flag x {plain, LZ4} x content classes is encoded by the library, parsed bit-exactly by an independent strict parser (header packing, padding, CRC-24, CRC-32, LZ4 block validity, fallback form) and decoded again; segments built by the independent writer (incl. 250:1 blocks and 64 KiB-period content) must decode; lengths above 131071 must be refused.",
  "internal/segref is written from the spec text and Cassandra's CRC parameters and pinned by external test vectors; the not-compressed signal is uncompressed-length = 0 (what Cassandra and the library do; the v5 spec sentence says 'compressed length', see DESIGN.md). " + TB, "DESIGN.md §4 C06"),
 "C07": ("fault_enumeration", "exhaustive/ sampled bit-error injection into valid segments; DecodeSegment must reject",
  "All error patterns of weight 1..5 (thorough: 1..7, 7.9e8 patterns) over the 48/64 header+CRC-24 bits, and single flips, pairs and bursts up to 32 bits over payload+CRC-32 for 8 size classes, are applied to library-encoded segments; any accepted corrupted segment is a violation. A CRC-24 affinity monitor over all 2^24 three-byte headers lets a few base headers speak for all.",
  "The 131071-byte class is thinned in the quick tier; bursts are numbered LSB-first (the reflected CRC's transmission order). " + TB, "DESIGN.md §4 C07"),
 "C08": ("exploration", "compress/decompress round trip monitor with independent LZ4 and Snappy decoders",
  "Sizes 0..4 MiB (thorough 16 MiB) x 10 content classes (ratios up to 254:1, 64 KiB-period content) x {LZ4 raw, LZ4 length-prefixed, Snappy} through buffers and plain readers: the round trip must return the input, the compressed form must expand to the input under independent decoders, and compressed frames/segments must decode to the same content as uncompressed ones.",
  "Independent decoders in internal/segref. " + TB, "DESIGN.md §4 C08"),
 "C09": ("exploration", "invariant monitors over exhaustive/PRNG sequential histories + porcupine linearizability of concurrent histories under the race detector",
  "Through the export shim: all histories to depth 5 (N<=2) / 4 (N=3) and sampled deeper, 1e4 PRNG histories up to N=32767, with invariants I1-I6 (range, uniqueness, refusal at N, duplicate refusal, full recycling, pool conservation); 2000 concurrent histories with log-hook delay injection checked by porcupine against a 10-line id-pool specification; a raw TCP peer asserting uniqueness of unanswered ids for v2/v4.",
  "Concurrent interleavings are sampled (distinct event-order signatures reported); race-detector reports are evidence only. Hook: client/verif_hooks.go. " + TB, "DESIGN.md §4 C09"),
 "C10": ("exploration", "offline checker over a delivery log with unique ids (exactly-once, right recipient, page order, events)",
  "Every request/response/event carries a unique id; the checker compares what the emitter put on the wire with what each request's channel, the event channel and handlers received: all k! answer orders for k<=6, PRNG orders up to 1024 outstanding, multi-page interleavings, spurious ids; socket sessions for all versions and compressions incl. v5 segments with several envelopes per segment and split envelopes, concurrent senders.",
  "Timing-free by construction (barrier events, judge drains channels itself); late duplicates for recycled ids are counted, not judged. " + TB, "DESIGN.md §4 C10"),
 "C11": ("exploration", "runtime round-trip monitor over (CQL type tree, Go representation, value) triples",
  "Every scalar type x every Go representation of the doc.go table x every pool value the representation holds exactly (fixed, seed-independent table), plus PRNG container types (depth <=3/4, width <=4) in slice/array/map/struct/pointer/interface representations: Encode then Decode into the same representation must return an equal value, and Decode into *interface{} must yield PreferredGoType holding the same value.",
  "internal/cqlgen (representation table transcribed from doc.go); only values a representation holds exactly are paired with it. " + TB, "DESIGN.md §4 C11"),
 "C12": ("exploration", "differential monitor against an independent CQL value serializer/parser written from spec section 5/6",
  "The library's bytes for every C11 triple are compared byte-for-byte with an independent serializer (map/set order and NaN payloads through the strict reference parser), reference bytes must decode to the value, and 78 literal golden vectors (the spec's varint table, date offset, vints, v2 vs v3+ collections, tuple/UDT framing, UDTs with omitted trailing fields) are cross-checked on every run.",
  "Trusted base: internal/cqlref, my reading of spec section 5/6, pinned by the golden vectors. " + TB, "DESIGN.md §4 C12"),
 "C13": ("exploration", "runtime monitor with an arbitrary-precision (math/big) judge over all (CQL numeric type, Go type) pairs",
  "Every (CQL numeric type, Go numeric/string type) pair in both directions is driven with every type boundary +-1 and PRNG values of all magnitudes through the real codecs; a result is accepted only if it is an error or exactly the mathematical value.",
  "Reference (de)serializers of the fixed-width/varint/vint formats written from spec section 5/6 in cmd/c13; value pools are sampled, pairs are complete. " + TB, "DESIGN.md §4 C13"),
 "C14": ("exploration", "runtime monitor of nil/NULL handling over every codec x accepted representation x element position",
  "Every codec is driven with every nil-able source and null input into every accepted destination (acceptance decided by observation), and containers with a null at every element position are round-tripped and inspected with an own wire walker; v2 collections must refuse nulls.",
  "Acceptance of a representation is observed, not assumed; nesting depth and width are bounded. " + TB, "DESIGN.md §4 C14"),
 "C15": ("exploration", "end-to-end monitor: library client/server vs an independent raw TCP peer judging wire bytes (child processes)",
  "Library client <-> library server over TCP, and each library end against a raw peer built on the independent frame codec and segment writer, for 6 versions x {none, LZ4, Snappy} x auth on/off: frames delivered must equal frames sent (in order, exactly once, decided by barrier frames, not clocks); the peer checks the wire bytes (handshake unframed, CRC-valid segments, envelopes inside segments not compressed, legacy body compression formats) and chooses segmentations (1..21 envelopes per segment, every split point >= 9 of small envelopes, boundary/PRNG splits of envelopes up to 528 KB).",
  "The library runs in child processes (a death is attributed to a case and confirmed by re-running it alone). Split points inside the 9-byte envelope header are run but not judged. " + TB, "DESIGN.md §4 C15"),
 "C16": ("fault_enumeration", "fault injection at every step boundary of scripted sessions + rendezvous/perturbation via log hook; post-fault obligations judged on stable goroutine snapshots",
  "A close/reset/silence/ctx-cancel/IO-error fault is injected at each step boundary of scripted sessions from the client side, the server side and the network (TCP, raw peer, net.Pipe behind a fault-injecting conn), also concurrently with senders and blocked receivers and with rendezvous orderings forced through the zerolog hook; afterwards every pending request must be closed with a non-nil error, receivers returned, sends refused, Close returned, no client-package goroutine alive, child process alive. Timeout clauses are judged on the monitor's own timestamps with inconclusive escapes.",
  "Interleavings are sampled (rendezvous + hunts of ~6e3 attempts in quick); data-race reports are evidence only. Hook: client/verif_hooks.go. " + TB, "DESIGN.md §4 C16"),
 "C17": ("exploration", "runtime heap-aliasing monitor: reflective disjointness of reachable mutable memory + mutate-and-observe",
  "Every type with a deep-copy operation (enumerated from source at run time and cross-checked with a static registry) is populated in every field, copied through every copy method, and the copy is checked for equality, for disjointness of all reachable mutable memory, and by mutating every reachable location and re-dumping the other side. A canary (identity and shallow copies) must be flagged on every run.",
  "Populated instances are PRNG-drawn; a type missing from the registry is reported inconclusive. " + TB, "DESIGN.md §4 C17"),
 "C18": ("exploration", "Go race detector + concurrent-vs-sequential result comparison on shared codec instances",
  "53 shared codec/compressor instances are hammered by 4/16/64 goroutines with private inputs in a normal and a -race child; every concurrent result must equal the sequential one and no race report may involve a library codec frame. Overlap actually achieved is measured (XADD counter) and a deliberate canary race must be reported by the detector.",
  "Interleavings are sampled by stress; the -race budget is ~1.7e5 calls in quick. " + TB, "DESIGN.md §4 C18"),
 "C19": ("exploration", "runtime enumeration of constants parsed from source vs the library's predicates over whole code domains",
  "Constants are parsed from primitive/constants.go at run time; declared values must be accepted and named, every undeclared value of the 8/16-bit domains (exhaustively) and of the 32-bit domains (stratified in quick, all 2^32 for IsValid in thorough) must be rejected; opcode classification, codec arms and a capability table transcribed from the specs are compared for every (version, argument) pair.",
  "Capability table transcribed by hand from the spec texts (6 ambiguous cells unjudged). Check* functions are not swept exhaustively over 2^32 (too slow), IsValid is. " + TB, "DESIGN.md §4 C19"),
 "C20": ("exploration", "runtime invariant monitor over exhaustive and PRNG mutator / accessor call sequences",
  "Every sequence up to depth 3 (thorough 4) of the frame mutators (custom payload nil/empty/1/3, warnings, tracing, compression) on a frame of every (message kind, version), plus PRNG sequences up to 50 calls: after every step the header flags must reflect exactly the optional parts held, at the end the frame must encode, declare the right length and round-trip. STARTUP accessors: every sequence up to depth 3/4 over 7 setter/getter pairs plus 1e5 PRNG ones against the getters and the Options-map diff.",
  "Accessor ownership of option keys is observed from the map diff, not assumed from key names. " + TB, "DESIGN.md §4 C20"),
}

PENDING_REASON = "check not built yet in this session (see DESIGN.md section 4); not claimed until its quick command exists and is silent on the unchanged tree"

def main():
    props = [json.loads(l)["id"] for l in open(os.path.join(ROOT, "properties.jsonl"))]
    try:
        hook_commits = subprocess.check_output(
            ["git", "-C", "/repo", "log", "--format=%H", "--grep=^verif:"], text=True).split()
    except Exception:
        hook_commits = []
    m = {
        "version": 1,
        "setup_cmd": "./setup.sh",
        "hooks": {
            "guard": "verif",
            "enable": "Go build tag: every check binary is built with `go build -tags verif` (the ./check driver does it); the only hook is the add-only file client/verif_hooks.go",
            "baseline_off_cmd": "cd /repo && GOFLAGS=-mod=mod GOPROXY=off GOSUMDB=off GOTOOLCHAIN=local go test -json -vet=off -count=1 -timeout 25m ./...",
            "source_commits": hook_commits,
            "add_only": True,
        },
        "engines": [
            {"name": "vcheck", "path": "cmd", "serves_properties": sorted(CHECKS.keys()),
             "kind_free_text": "one Go binary per property (cmd/cNN, shared packages under internal/), built by ./check from /repo's working tree with -tags verif on every run (plus a -race flavour for C09 C10 C16 C18); runtime monitors (oracles over observed executions), independent reference codecs written from the spec files, the Go race detector, porcupine linearizability checking, child-process isolation"},
        ],
        "checks": [],
        "not_applicable": [],
        "notes": "Technique family: runtime monitoring and sanitizers. See DESIGN.md. known_findings.txt lists recorded/fixed defects.",
    }
    for pid in props:
        if pid in CHECKS:
            cat, tech, text, note, ref = CHECKS[pid]
            m["checks"].append({
                "property_id": pid,
                "quick_cmd": "./check %s quick" % pid,
                "thorough_cmd": "./check %s thorough" % pid,
                "evidence_file": "/verif/evidence/%s.json" % pid,
                "replay_cmd_template": "./check %s quick --replay {path}" % pid,
                "engine": "vcheck",
                "level_claimed": {"category": cat, "text": text, "design_ref": ref},
                "level_note": note,
                "technique": tech,
            })
        else:
            m["not_applicable"].append({"property_id": pid, "reason": PENDING_REASON})
    with open(os.path.join(ROOT, "MANIFEST.json"), "w") as f:
        json.dump(m, f, indent=1)
        f.write("\n")
    try:
        import jsonschema
        jsonschema.validate(m, json.load(open("/root/.vp/MANIFEST.schema.json")))
        print("MANIFEST.json valid:", len(m["checks"]), "checks,", len(m["not_applicable"]), "not claimed")
    except ImportError:
        print("jsonschema not available; MANIFEST.json written")

if __name__ == "__main__":
    main()
