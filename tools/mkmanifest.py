#!/usr/bin/env python3
"""Regenerates MANIFEST.json from the table below (kept here so the file stays valid at all times)."""
import json, subprocess, sys, os

ROOT = os.path.dirname(os.path.dirname(os.path.abspath(__file__)))

# id -> (category, technique, level text, level note, design ref) ; only properties whose check is built
CHECKS = {
}

PENDING_REASON = "check not built yet in this session (see DESIGN.md section 4); not claimed until its quick command exists and is silent on the unchanged tree"

def main():
    props = [json.loads(l)["id"] for l in open(os.path.join(ROOT, "properties.jsonl"))]
    try:
        hook_commits = subprocess.check_output(
            ["git", "-C", "/repo", "log", "--format=%H", "--grep=^verif:"], text=True).split()
    except Exception:
        hook_commits = []
    m = {
        "version": 1,
        "setup_cmd": "./setup.sh",
        "hooks": {
            "guard": "verif",
            "enable": "Go build tag: every check binary is built with `go build -tags verif` (the ./check driver does it); the only hook is the add-only file client/verif_hooks.go",
            "baseline_off_cmd": "cd /repo && GOFLAGS=-mod=mod GOPROXY=off GOSUMDB=off GOTOOLCHAIN=local go test -json -vet=off -count=1 -timeout 25m ./...",
            "source_commits": hook_commits,
            "add_only": True,
        },
        "engines": [
            {"name": "vcheck", "path": "cmd/vcheck", "serves_properties": sorted(CHECKS.keys()),
             "kind_free_text": "Go binary built from /repo's working tree on every run; runtime monitors (oracles over observed executions), independent reference codec, race detector, porcupine"},
        ],
        "checks": [],
        "not_applicable": [],
        "notes": "Technique family: runtime monitoring and sanitizers. See DESIGN.md. known_findings.txt lists recorded/fixed defects.",
    }
    for pid in props:
        if pid in CHECKS:
            cat, tech, text, note, ref = CHECKS[pid]
            m["checks"].append({
                "property_id": pid,
                "quick_cmd": "./check %s quick" % pid,
                "thorough_cmd": "./check %s thorough" % pid,
                "evidence_file": "/verif/evidence/%s.json" % pid,
                "replay_cmd_template": "./check %s quick --replay {path}" % pid,
                "engine": "vcheck",
                "level_claimed": {"category": cat, "text": text, "design_ref": ref},
                "level_note": note,
                "technique": tech,
            })
        else:
            m["not_applicable"].append({"property_id": pid, "reason": PENDING_REASON})
    with open(os.path.join(ROOT, "MANIFEST.json"), "w") as f:
        json.dump(m, f, indent=1)
        f.write("\n")
    try:
        import jsonschema
        jsonschema.validate(m, json.load(open("/root/.vp/MANIFEST.schema.json")))
        print("MANIFEST.json valid:", len(m["checks"]), "checks,", len(m["not_applicable"]), "not claimed")
    except ImportError:
        print("jsonschema not available; MANIFEST.json written")

if __name__ == "__main__":
    main()
