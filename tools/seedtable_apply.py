#!/usr/bin/env python3
"""Replaces the seeded-break table of DESIGN.md section 10 with the output of tools/seedtable.py."""
import subprocess, re
out = subprocess.check_output(['python3', '/verif/tools/seedtable.py'], text=True).rstrip('\n')
s = open('/verif/DESIGN.md').read()
a = s.index("| seeded break | property |")
m = re.search(r'^\d+ seeded breaks, \d+ caught\.$', s[a:], re.M)
b = a + m.end()
open('/verif/DESIGN.md', 'w').write(s[:a] + out + s[b:])
print(out.splitlines()[-1])
