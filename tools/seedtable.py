#!/usr/bin/env python3
"""Prints the markdown table of /verif/seeded/*/meta.json for DESIGN.md section 10."""
import json, glob, os, re
rows = []
for f in sorted(glob.glob('/verif/seeded/*/meta.json')):
    m = json.load(open(f))
    note = m.get('what_it_needs_to_manifest_and_author_notes', '')
    first = ''
    for line in note.splitlines():
        line = line.strip().lstrip('#').strip()
        if len(line) > 20 and not line.lower().startswith(('command', '```', 'export')):
            first = line
            break
    first = re.sub(r'\s+', ' ', first)[:160].replace('|', '/')
    rows.append((m['id'], m['breaks_property'], first, 'yes' if m['caught'] else 'NO', m['result'].replace('|', '/')))
print('| seeded break | property | what it is (author\'s first line) | caught | by / remarks |')
print('|---|---|---|---|---|')
for r in rows:
    print('| %s | %s | %s | %s | %s |' % r)
print()
print('%d seeded breaks, %d caught.' % (len(rows), sum(1 for r in rows if r[3] == 'yes')))
