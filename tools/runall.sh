#!/bin/bash
# tools/runall.sh quick|thorough [CNN ...]   — runs the checks one after the other, one summary line each.
# With KEEP=<dir> a copy of each evidence file is kept there (e.g. the thorough runs next to the quick ones).
tier="${1:-quick}"; shift
ids=("$@"); [ ${#ids[@]} -eq 0 ] && ids=(C01 C02 C03 C04 C05 C06 C07 C08 C09 C10 C11 C12 C13 C14 C15 C16 C17 C18 C19 C20)
cd "$(dirname "$0")/.."
export GOFLAGS=-mod=mod GOPROXY=off GOSUMDB=off GOTOOLCHAIN=local
rc_all=0
for c in "${ids[@]}"; do
  t0=$(date +%s)
  out=$(./check "$c" "$tier" 2>&1); rc=$?
  [ $rc -ne 0 ] && rc_all=1
  echo "$c $tier rc=$rc wall=$(( $(date +%s) - t0 ))s $(echo "$out" | grep -E '^(VIOLATION|KNOWN-FINDING|HARNESS|INCONCLUSIVE)' | head -4 | tr '\n' ' ') $(echo "$out" | grep '^SUMMARY' | sed 's/.*evaluations/evaluations/')"
  if [ -n "${KEEP:-}" ]; then mkdir -p "$KEEP"; cp "evidence/$c.json" "$KEEP/$c.json" 2>/dev/null; fi
done
exit $rc_all
