package main

import (
	"bytes"
	"encoding/binary"
	"io"

	"github.com/datastax/go-cassandra-native-protocol/datatype"
	"github.com/datastax/go-cassandra-native-protocol/primitive"

	"verif/internal/gen"
	"verif/internal/mon"
	"verif/internal/ref"
)

// every exported primitive.Read* (grep '^func Read' /repo/primitive/*.go; primReadersComplete in
// main.go compares this table with the source tree at run time)
type primReader struct {
	name  string
	ep    int
	fn    func(rd io.Reader, v primitive.ProtocolVersion) error
	bases func() [][]byte
}

func e0(err error) error { return err }

type bw struct{ b []byte }

func (w *bw) u8(v byte) *bw     { w.b = append(w.b, v); return w }
func (w *bw) u16(v uint16) *bw  { w.b = binary.BigEndian.AppendUint16(w.b, v); return w }
func (w *bw) i32(v int32) *bw   { w.b = binary.BigEndian.AppendUint32(w.b, uint32(v)); return w }
func (w *bw) i64(v int64) *bw   { w.b = binary.BigEndian.AppendUint64(w.b, uint64(v)); return w }
func (w *bw) raw(v []byte) *bw  { w.b = append(w.b, v...); return w }
func (w *bw) str(s string) *bw  { w.u16(uint16(len(s))); w.b = append(w.b, s...); return w }
func (w *bw) lstr(s string) *bw { w.i32(int32(len(s))); w.b = append(w.b, s...); return w }
func (w *bw) byt(v []byte) *bw  { w.i32(int32(len(v))); w.b = append(w.b, v...); return w }
func nw() *bw                   { return &bw{} }

// contents are small bytes on purpose (see soften.go): a shifted read must not see a huge length
var ip4 = []byte{0, 0, 0, 1}
var ip6 = []byte{0, 0, 0, 1, 0, 0, 0, 0, 0, 0, 0, 0, 0, 0, 0, 1}

var primReaders []primReader

func init() {
	add := func(name string, fn func(rd io.Reader, v primitive.ProtocolVersion) error, bases func() [][]byte) {
		primReaders = append(primReaders, primReader{name: name, ep: epOf("primitive." + name), fn: fn, bases: bases})
	}
	add("ReadByte", func(rd io.Reader, v primitive.ProtocolVersion) error { _, err := primitive.ReadByte(rd); return err },
		func() [][]byte { return [][]byte{{0}, {0xFF}} })
	add("ReadShort", func(rd io.Reader, v primitive.ProtocolVersion) error { _, err := primitive.ReadShort(rd); return err },
		func() [][]byte { return [][]byte{{0x00, 0x05}} })
	add("ReadInt", func(rd io.Reader, v primitive.ProtocolVersion) error { _, err := primitive.ReadInt(rd); return err },
		func() [][]byte { return [][]byte{{0, 0, 0, 5}} })
	add("ReadLong", func(rd io.Reader, v primitive.ProtocolVersion) error { _, err := primitive.ReadLong(rd); return err },
		func() [][]byte { return [][]byte{{0, 0, 0, 1, 0, 0, 0, 2}} })
	add("ReadStreamId", func(rd io.Reader, v primitive.ProtocolVersion) error {
		_, err := primitive.ReadStreamId(rd, v)
		return err
	}, func() [][]byte { return [][]byte{{0x00}, {0x00, 0x05}, {0x80, 0x00}} })
	add("ReadString", func(rd io.Reader, v primitive.ProtocolVersion) error { _, err := primitive.ReadString(rd); return err },
		func() [][]byte {
			return [][]byte{nw().str("").b, nw().str("\x00\x00\x01").b, nw().str("\x00\x01\x00\x00\x00\x00\x00\x02\x00\x00\x00\x03").b}
		})
	add("ReadLongString", func(rd io.Reader, v primitive.ProtocolVersion) error {
		_, err := primitive.ReadLongString(rd)
		return err
	},
		func() [][]byte {
			return [][]byte{nw().lstr("").b, nw().lstr("\x00\x00\x00\x01\x00\x00\x00\x00\x00\x02\x00\x00\x00\x00\x00\x03").b}
		})
	add("ReadBytes", func(rd io.Reader, v primitive.ProtocolVersion) error { _, err := primitive.ReadBytes(rd); return err },
		func() [][]byte {
			return [][]byte{nw().i32(-1).b, nw().byt([]byte{}).b, nw().byt([]byte{0, 0, 0, 1, 5}).b}
		})
	add("ReadShortBytes", func(rd io.Reader, v primitive.ProtocolVersion) error {
		_, err := primitive.ReadShortBytes(rd)
		return err
	},
		func() [][]byte { return [][]byte{nw().str("").b, nw().str("\x00\x00\x03").b} })
	add("ReadValue", func(rd io.Reader, v primitive.ProtocolVersion) error {
		_, err := primitive.ReadValue(rd, v)
		return err
	},
		func() [][]byte {
			return [][]byte{nw().i32(-1).b, nw().i32(-2).b, nw().byt([]byte{}).b, nw().byt([]byte{0, 0, 7}).b}
		})
	add("ReadPositionalValues", func(rd io.Reader, v primitive.ProtocolVersion) error {
		_, err := primitive.ReadPositionalValues(rd, v)
		return err
	}, func() [][]byte {
		return [][]byte{nw().u16(0).b, nw().u16(3).byt([]byte{1}).i32(-1).i32(-2).b, nw().u16(1).byt([]byte{0, 0, 0, 1, 0, 0, 0, 2}).b}
	})
	add("ReadNamedValues", func(rd io.Reader, v primitive.ProtocolVersion) error {
		_, err := primitive.ReadNamedValues(rd, v)
		return err
	}, func() [][]byte {
		return [][]byte{nw().u16(0).b, nw().u16(2).str("\x01").byt([]byte{1}).str("\x00\x02").i32(-1).b, nw().u16(1).str("").i32(-2).b}
	})
	add("ReadStringList", func(rd io.Reader, v primitive.ProtocolVersion) error {
		_, err := primitive.ReadStringList(rd)
		return err
	},
		func() [][]byte {
			return [][]byte{nw().u16(0).b, nw().u16(2).str("\x01").str("").b, nw().u16(3).str("\x01").str("\x00\x02").str("\x00\x00\x03").b}
		})
	add("ReadStringMap", func(rd io.Reader, v primitive.ProtocolVersion) error {
		_, err := primitive.ReadStringMap(rd)
		return err
	},
		func() [][]byte {
			return [][]byte{nw().u16(0).b, nw().u16(2).str("\x00\x00\x01").str("\x00\x01").str("\x00\x00\x02").str("\x00\x03").b}
		})
	add("ReadStringMultiMap", func(rd io.Reader, v primitive.ProtocolVersion) error {
		_, err := primitive.ReadStringMultiMap(rd)
		return err
	}, func() [][]byte {
		return [][]byte{nw().u16(0).b, nw().u16(2).str("\x00\x00\x01").u16(2).str("\x00\x01").str("\x00\x02").str("\x03").u16(0).b}
	})
	add("ReadBytesMap", func(rd io.Reader, v primitive.ProtocolVersion) error {
		_, err := primitive.ReadBytesMap(rd)
		return err
	},
		func() [][]byte {
			return [][]byte{nw().u16(0).b, nw().u16(2).str("\x00\x01").byt([]byte{0, 2}).str("\x00\x02").i32(-1).b}
		})
	add("ReadInetAddr", func(rd io.Reader, v primitive.ProtocolVersion) error {
		_, err := primitive.ReadInetAddr(rd)
		return err
	},
		func() [][]byte { return [][]byte{nw().u8(4).raw(ip4).b, nw().u8(16).raw(ip6).b} })
	add("ReadInet", func(rd io.Reader, v primitive.ProtocolVersion) error { _, err := primitive.ReadInet(rd); return err },
		func() [][]byte {
			return [][]byte{nw().u8(4).raw(ip4).i32(9042).b, nw().u8(16).raw(ip6).i32(-1).b}
		})
	add("ReadUuid", func(rd io.Reader, v primitive.ProtocolVersion) error { _, err := primitive.ReadUuid(rd); return err },
		func() [][]byte { return [][]byte{ip6} })
	add("ReadReasonMap", func(rd io.Reader, v primitive.ProtocolVersion) error {
		_, err := primitive.ReadReasonMap(rd)
		return err
	},
		func() [][]byte {
			return [][]byte{nw().i32(0).b, nw().i32(2).u8(4).raw(ip4).u16(0).u8(16).raw(ip6).u16(5).b, nw().i32(1).u8(4).raw(ip4).u16(0x0002).b}
		})
	add("ReadUnsignedVint", func(rd io.Reader, v primitive.ProtocolVersion) error {
		_, _, err := primitive.ReadUnsignedVint(rd)
		return err
	}, func() [][]byte {
		return [][]byte{{0}, {0x05}, {0x80, 0x80}, {0xC0, 0x00, 0x03}, {0xFF, 0, 0, 0, 1, 0, 0, 0, 2}, {0xFE, 0, 0, 0, 1, 0, 0, 2}}
	})
	add("ReadVint", func(rd io.Reader, v primitive.ProtocolVersion) error { _, _, err := primitive.ReadVint(rd); return err },
		func() [][]byte {
			return [][]byte{{0}, {1}, {0x05}, {0x80, 0x80}, {0xFF, 0xFF, 0xFF, 0xFF, 0xFF, 0xFF, 0xFF, 0xFF, 0xFF}, {0xF0, 0, 0, 0, 4}}
		})
}

var libVersions = []primitive.ProtocolVersion{primitive.ProtocolVersion2, primitive.ProtocolVersion3, primitive.ProtocolVersion4,
	primitive.ProtocolVersion5, primitive.ProtocolVersionDse1, primitive.ProtocolVersionDse2}

// versionSensitive readers take the protocol version; the others are run with one version.
func (p *primReader) versions() []primitive.ProtocolVersion {
	switch p.name {
	case "ReadStreamId", "ReadValue", "ReadPositionalValues", "ReadNamedValues":
		return libVersions
	}
	return libVersions[2:3]
}

func (wk *worker) primExec(p *primReader, base string, in []byte, m mut) {
	cl := call{ep: p.ep, base: base}
	for _, v := range p.versions() {
		pv := v
		cl.ver = byte(v)
		wk.exec(&cl, in, m, func(in []byte) bool { return p.fn(bytes.NewReader(in), pv) == nil })
	}
}

// primUnit: round 0 = the reader's own valid encodings, exhaustive sweep, and the valid encodings
// of every other notation (cross); further rounds = PRNG-grown valid encodings (longer lists /
// maps) with the exhaustive sweep, plus random bytes.
func (wk *worker) primUnit(i, round int) {
	p := &primReaders[i]
	r := mon.NewRand(wk.seed, utag(tagPrim, i, round))
	bases := p.bases()
	if round > 0 {
		// grow: repeat a valid encoding's tail elements by concatenating valid encodings of the same
		// notation behind a re-written count is notation specific; instead splice two valid encodings
		// and take random-length prefixes of random bytes behind a valid head
		var grown [][]byte
		for j := 0; j < 4; j++ {
			a := bases[r.Intn(len(bases))]
			b := bases[r.Intn(len(bases))]
			grown = append(grown, splice(a, b, r), append(append([]byte{}, a...), biasedBytes(r, r.Intn(24))...))
		}
		bases = grown
	}
	for bi, b := range bases {
		name := p.name + "#" + string(rune('0'+bi%10))
		cls := mcValid
		if round > 0 {
			cls = mcSplice
		}
		wk.primExec(p, name, b, mut{Class: cls})
		sweep(b, sweepSpec{Fields: true, Trunc: true, Flips: 64}, r, func(in []byte, m mut) { wk.primExec(p, name, in, m) })
		if round == 0 {
			big24Sample(b, 0, 1, r, func(in []byte, m mut) { wk.primExec(p, name, in, m) })
		}
	}
	if round == 0 {
		for oi := range primReaders {
			if oi == i {
				continue
			}
			for _, b := range primReaders[oi].bases() {
				wk.primExec(p, primReaders[oi].name, b, mut{Class: mcCross, O: oi})
			}
		}
	}
	for j := 0; j < 40; j++ {
		wk.primExec(p, "random-biased", biasedBytes(r, r.Intn(65)), mut{Class: mcRandom, O: j})
	}
	if round == 0 {
		wk.primExec(p, "random", r.Bytes(r.Intn(65)), mut{Class: mcRandom, O: 1000, W: 1})
	}
}

var epReadDataType = epOf("datatype.ReadDataType")

func (wk *worker) typeExec(base string, in []byte, m mut, vs []primitive.ProtocolVersion) {
	cl := call{ep: epReadDataType, base: base}
	for _, v := range vs {
		pv := v
		cl.ver = byte(v)
		wk.exec(&cl, in, m, func(in []byte) bool {
			dt, err := datatype.ReadDataType(bytes.NewReader(in), pv)
			if err == nil {
				// "returns either a decoded value or an error": a nil descriptor without an error is
				// neither, and a descriptor that cannot render itself is not a decoded value
				if dt == nil {
					panic("datatype.ReadDataType returned (nil, nil)")
				}
				_ = dt.AsCql()
			}
			return err == nil
		})
	}
}

// typeUnit: a generated type descriptor (depth <= 4, tuples/udts from v3) encoded by the
// reference encoder; exhaustive sweep with the version it was made for; the valid bytes and the
// bit flips also with every other version.
func (wk *worker) typeUnit(i int) {
	r := mon.NewRand(wk.seed, utag(tagType, i, 0))
	v := ref.Versions[i%len(ref.Versions)]
	var b []byte
	for attempt := 0; attempt < 16 && (b == nil || len(b) > 300); attempt++ {
		g := &gen.Gen{R: r, C: gen.NewRandChooser(r), V: v}
		t := g.Type(1 + i%4)
		if e, err := ref.EncodeType(v, &t); err == nil && (b == nil || len(e) < len(b)) {
			b = e
		}
	}
	if b == nil {
		return
	}
	own := []primitive.ProtocolVersion{primitive.ProtocolVersion(v)}
	base := "type/" + v.String()
	wk.typeExec(base, b, mut{Class: mcValid}, libVersions)
	sp := sweepSpec{Fields: true, Trunc: true}
	if len(b) > 400 {
		sp = sweepSpec{FieldSample: 4000, Trunc: len(b) <= 4096}
	}
	sweep(b, sp, r, func(in []byte, m mut) { wk.typeExec(base, in, m, own) })
	sweep(b, sweepSpec{Flips: 64}, r, func(in []byte, m mut) { wk.typeExec(base, in, m, libVersions) })
	for j := 0; j < 40; j++ {
		wk.typeExec("random", r.Bytes(r.Intn(65)), mut{Class: mcRandom, O: j}, libVersions)
		wk.typeExec("random-biased", biasedBytes(r, r.Intn(65)), mut{Class: mcRandom, O: j, W: 1}, libVersions)
	}
}
