package main

import (
	"bytes"
	"encoding/binary"
	"fmt"
	"io"

	"github.com/datastax/go-cassandra-native-protocol/compression/lz4"
	"github.com/datastax/go-cassandra-native-protocol/compression/snappy"
	"github.com/datastax/go-cassandra-native-protocol/frame"
	"github.com/datastax/go-cassandra-native-protocol/message"
	"github.com/datastax/go-cassandra-native-protocol/primitive"

	"verif/internal/gen"
	"verif/internal/mon"
	"verif/internal/ref"
	"verif/internal/segref"
)

var codecs = [3]frame.RawCodec{
	frame.NewRawCodec(),
	frame.NewRawCodecWithCompression(lz4.Compressor{}),
	frame.NewRawCodecWithCompression(snappy.Compressor{}),
}

var opNames = map[byte]string{
	ref.OpError: "ERROR", ref.OpStartup: "STARTUP", ref.OpReady: "READY", ref.OpAuthenticate: "AUTHENTICATE",
	ref.OpOptions: "OPTIONS", ref.OpSupported: "SUPPORTED", ref.OpQuery: "QUERY", ref.OpResult: "RESULT",
	ref.OpPrepare: "PREPARE", ref.OpExecute: "EXECUTE", ref.OpRegister: "REGISTER", ref.OpEvent: "EVENT",
	ref.OpBatch: "BATCH", ref.OpAuthChallenge: "AUTH_CHALLENGE", ref.OpAuthResponse: "AUTH_RESPONSE",
	ref.OpAuthSuccess: "AUTH_SUCCESS", ref.OpRevise: "REVISE",
}

type msgCodec struct {
	op   byte
	name string
	c    message.Codec
	ep   int
}

var msgCodecs []msgCodec
var msgCodecByOp = map[byte]*msgCodec{}

// entry point ids of the frame level
var (
	epDecodeFrame, epRawConvert, epHdrBody, epHdrRawBody, epHdrDiscard, epHdrDiscardNS int
	epHeader, epConvert, epDecodeBody                                                  int
	epLz4WithLen, epLz4Raw, epSnappyWithLen                                            int
)

func init() {
	epDecodeFrame = epOf("frame.DecodeFrame")
	epRawConvert = epOf("frame.DecodeRawFrame+ConvertFromRawFrame")
	epHdrBody = epOf("frame.DecodeHeader+DecodeBody")
	epHdrRawBody = epOf("frame.DecodeHeader+DecodeRawBody")
	epHdrDiscard = epOf("frame.DecodeHeader+DiscardBody")
	epHdrDiscardNS = epOf("frame.DecodeHeader+DiscardBody(non-seekable)")
	epHeader = epOf("frame.DecodeHeader")
	epConvert = epOf("frame.ConvertFromRawFrame")
	epDecodeBody = epOf("frame.DecodeBody")
	epLz4WithLen = epOf("lz4.DecompressWithLength")
	epLz4Raw = epOf("lz4.Decompress")
	epSnappyWithLen = epOf("snappy.DecompressWithLength")
	for _, c := range message.DefaultMessageCodecs {
		op := byte(c.GetOpCode())
		n := opNames[op]
		if n == "" {
			n = fmt.Sprintf("op%02x", op)
		}
		msgCodecs = append(msgCodecs, msgCodec{op: op, name: n, c: c, ep: epOf("message." + n + ".Decode")})
	}
	for i := range msgCodecs {
		msgCodecByOp[msgCodecs[i].op] = &msgCodecs[i]
	}
}

type onlyReader struct{ r io.Reader }

func (o onlyReader) Read(p []byte) (int, error) { return o.r.Read(p) }

// frameFns are the frame-level entry points fed with complete frame bytes, per compressor.
type frameFns struct {
	decodeFrame, rawConvert, hdrBody, hdrRawBody, hdrDiscard, hdrDiscardNS func([]byte) bool
}

var ffns [3]frameFns

func init() {
	for i := range codecs {
		c := codecs[i]
		ffns[i] = frameFns{
			decodeFrame: func(in []byte) bool {
				_, err := c.DecodeFrame(bytes.NewReader(in))
				return err == nil
			},
			rawConvert: func(in []byte) bool {
				rf, err := c.DecodeRawFrame(bytes.NewReader(in))
				if err != nil {
					return false
				}
				_, err = c.ConvertFromRawFrame(rf)
				return err == nil
			},
			hdrBody: func(in []byte) bool {
				rd := bytes.NewReader(in)
				h, err := c.DecodeHeader(rd)
				if err != nil {
					return false
				}
				_, err = c.DecodeBody(h, rd)
				return err == nil
			},
			hdrRawBody: func(in []byte) bool {
				rd := bytes.NewReader(in)
				h, err := c.DecodeHeader(rd)
				if err != nil {
					return false
				}
				_, err = c.DecodeRawBody(h, rd)
				return err == nil
			},
			hdrDiscard: func(in []byte) bool {
				rd := bytes.NewReader(in)
				h, err := c.DecodeHeader(rd)
				if err != nil {
					return false
				}
				return c.DiscardBody(h, rd) == nil
			},
			hdrDiscardNS: func(in []byte) bool {
				rd := onlyReader{bytes.NewReader(in)}
				h, err := c.DecodeHeader(rd)
				if err != nil {
					return false
				}
				return c.DiscardBody(h, rd) == nil
			},
		}
	}
}

// frameEPs feeds complete frame bytes to every frame-level entry point. Without the COMPRESSED
// flag bit in the (possibly mutated) input the three codecs run the same code, so only the codec
// without compressor is executed; with the bit set, the lz4 and snappy codecs run as well.
// comp > 0 forces that codec (compressed bases).
func (wk *worker) frameEPs(cl call, in []byte, m mut, comp int, full bool) {
	wk.frameEPsRot(cl, in, m, comp, full, -1)
}

// frameEPsRot: rot < 0 runs every frame-level entry point; rot >= 0 (mutations behind the header,
// where all paths hand the same body bytes to the same body decoder) runs DecodeFrame and one of
// the other paths, chosen by rot, so that every path sees every offset class without decoding the
// same damaged body six times.
func (wk *worker) frameEPsRot(cl call, in []byte, m mut, comp int, full bool, rot int) {
	lo, hi := 0, 0
	if comp > 0 {
		lo, hi = comp, comp
	} else if len(in) > 1 && in[1]&ref.FlagCompressed != 0 {
		hi = 2
	}
	for ci := lo; ci <= hi; ci++ {
		cl.comp = ci
		f := &ffns[ci]
		cl.ep = epDecodeFrame
		wk.exec(&cl, in, m, f.decodeFrame)
		if m.Class == mcBig24 && m.Val >= 1<<24 {
			// 2^24 makes every allocation it reaches cost milliseconds: two paths instead of six
			if full && ci == lo {
				cl.ep = epHdrRawBody
				wk.exec(&cl, in, m, f.hdrRawBody)
			}
			continue
		}
		if rot < 0 || rot%3 == 0 {
			cl.ep = epRawConvert
			wk.exec(&cl, in, m, f.rawConvert)
		}
		if rot < 0 || rot%3 == 1 {
			cl.ep = epHdrBody
			wk.exec(&cl, in, m, f.hdrBody)
		}
		if full && ci == lo && (rot < 0 || rot%3 == 2) {
			cl.ep = epHdrRawBody
			wk.exec(&cl, in, m, f.hdrRawBody)
			cl.ep = epHdrDiscard
			wk.exec(&cl, in, m, f.hdrDiscard)
			cl.ep = epHdrDiscardNS
			wk.exec(&cl, in, m, f.hdrDiscardNS)
		}
	}
}

// bodyFns: entry points fed with body bytes behind a valid header (the header is not part of the
// mutated input, so every body byte reaches the body decoder whatever BodyLength says).
type bodyFns struct {
	convert, decodeBody, msg func([]byte) bool
	msgEP                    int
}

func libHeader(f *ref.Frame, flags byte) frame.Header {
	return frame.Header{IsResponse: f.Response, Version: primitive.ProtocolVersion(f.Version), Flags: primitive.HeaderFlag(flags),
		StreamId: f.Stream, OpCode: primitive.OpCode(f.Msg.Opcode())}
}

func makeBodyFns(hdr frame.Header, comp int, withMsg bool) bodyFns {
	c := codecs[comp]
	b := bodyFns{
		convert: func(in []byte) bool {
			h := hdr
			h.BodyLength = int32(len(in))
			_, err := c.ConvertFromRawFrame(&frame.RawFrame{Header: &h, Body: in})
			return err == nil
		},
		decodeBody: func(in []byte) bool {
			h := hdr
			h.BodyLength = int32(len(in))
			_, err := c.DecodeBody(&h, bytes.NewReader(in))
			return err == nil
		},
	}
	if withMsg {
		if mc := msgCodecByOp[byte(hdr.OpCode)]; mc != nil {
			v := hdr.Version
			b.msgEP = mc.ep
			b.msg = func(in []byte) bool {
				_, err := mc.c.Decode(bytes.NewReader(in), v)
				return err == nil
			}
		}
	}
	return b
}

func (wk *worker) bodyEPs(cl call, body []byte, m mut, comp int, bf *bodyFns) {
	wk.bodyEPsRot(cl, body, m, comp, bf, -1)
}

func (wk *worker) bodyEPsRot(cl call, body []byte, m mut, comp int, bf *bodyFns, rot int) {
	cl.comp = comp
	if m.Class == mcBig24 && m.Val >= 1<<24 {
		rot = 2
	}
	if rot < 0 || rot%3 == 0 {
		cl.ep = epConvert
		wk.exec(&cl, body, m, bf.convert)
	}
	if rot < 0 || rot%3 == 1 {
		cl.ep = epDecodeBody
		wk.exec(&cl, body, m, bf.decodeBody)
	}
	if rot < 0 || rot%3 == 2 {
		if bf.msg != nil {
			cl.ep = bf.msgEP
			wk.exec(&cl, body, m, bf.msg)
		} else if rot >= 0 {
			cl.ep = epConvert
			wk.exec(&cl, body, m, bf.convert)
		}
	}
}

// smallFrame draws frames of the pair until one encodes to at most limit bytes (the smallest of 24
// attempts otherwise). newChooser must return the chooser to use for an attempt.
func smallFrame(seed int64, tag uint64, p pair, fixedFlags int, limit int, soft bool, newChooser func(r *mon.Rand) *gen.Chooser) (*ref.Frame, []byte) {
	var bestF *ref.Frame
	var best []byte
	for attempt := 0; attempt < 24; attempt++ {
		r := mon.NewRand(seed, tag<<8|uint64(attempt))
		cs := gen.Frame(p.k, p.v, newChooser(r), r, false, fixedFlags)
		if soft {
			softenFrame(cs.Frame, mon.NewRand(seed, tag<<8|uint64(attempt)|0x80))
		}
		b, err := ref.EncodeFrame(cs.Frame, ref.EncOpts{})
		if err != nil {
			continue
		}
		if best == nil || len(b) < len(best) {
			bestF, best = cs.Frame, b
		}
		if len(b) <= limit {
			break
		}
	}
	return bestF, best
}

func hasASCII(b []byte) bool {
	for _, c := range b {
		if c >= 0x21 && c <= 0x7E {
			return true
		}
	}
	return false
}

func randChooser(r *mon.Rand) *gen.Chooser { return gen.NewRandChooser(r) }

const (
	tagSweep  = 0x11
	tagShapes = 0x12
	tagComp   = 0x13
	tagCross  = 0x14
	tagType   = 0x15
	tagPrim   = 0x16
	tagSeg    = 0x17
	tagZ      = 0x18
	tagRandom = 0x19
	tagLarge  = 0x1A
	tagDC     = 0x1B
	tagMis    = 0x1C
	tagRes    = 0x1D
)

func utag(tag, a, b int) uint64 { return uint64(tag)<<48 | uint64(a)<<24 | uint64(b) }

var sweepFlags = []int{0, 7, -1, 2, 4, 1, -1, 6, 3, 5, -1}

func baseName(p pair, f *ref.Frame) string { return p.k.Name + "/" + p.v.String() }

// frameSweep: one small valid plain frame of the pair; (a) every offset x width x value, (b)
// truncation at every offset, (c) 64 bit flips, (d) splices with frames of two other pairs; each
// mutant to all frame-level entry points, and (for mutations behind the header) the body to the
// body-level entry points behind the valid header.
// The sweep of one base is split into sweepParts units (mutant number modulo sweepParts), so that the
// out-of-memory deaths a base provokes (each followed by a restart) do not all queue up in one worker.
const sweepParts = 4

func (wk *worker) frameSweep(pi, d, part int) {
	mutNo := 0
	take := func() bool { mutNo++; return mutNo%sweepParts == part }
	p := pairs[pi]
	fl := sweepFlags[d%len(sweepFlags)]
	f, b := smallFrame(wk.seed, utag(tagSweep, pi, d), p, fl, 300, true, randChooser)
	if b == nil {
		return
	}
	hl := p.v.HeaderLen()
	cl := call{ver: byte(p.v), base: baseName(p, f)}
	bf := makeBodyFns(libHeader(f, f.Flags()), 0, f.Flags() == 0)
	r := mon.NewRand(wk.seed, utag(tagSweep, pi, d)<<8|0xFF)
	if take() {
		wk.frameEPs(cl, b, mut{Class: mcValid}, 0, true)
		wk.bodyEPs(cl, b[hl:], mut{Class: mcValid}, 0, &bf)
	}
	// the same draw with its original (unsoftened) contents: as it is, and truncated at every offset
	if hf, hb := smallFrame(wk.seed, utag(tagSweep, pi, d), p, fl, 300, false, randChooser); hb != nil && len(hb) <= 8192 {
		hbf := makeBodyFns(libHeader(hf, hf.Flags()), 0, hf.Flags() == 0)
		if take() {
			wk.frameEPs(cl, hb, mut{Class: mcValid, W: 1}, 0, true)
			wk.bodyEPs(cl, hb[hl:], mut{Class: mcValid, W: 1}, 0, &hbf)
		}
		sweep(hb, sweepSpec{Trunc: true}, r, func(in []byte, m mut) {
			if !take() {
				return
			}
			wk.frameEPs(cl, in, m, 0, false)
			if len(in) >= hl {
				wk.bodyEPs(cl, in[hl:], m, 0, &hbf)
			}
		})
	}
	sp := sweepSpec{Fields: true, Trunc: true, Flips: 64}
	if len(b) > 400 {
		sp = sweepSpec{FieldSample: 6000, Trunc: len(b) <= 4096, Flips: 64}
	}
	if !wk.thorough {
		sp.Flips = 32
	}
	sweep(b, sp, r, func(in []byte, m mut) {
		if !take() {
			return
		}
		if m.O >= hl && len(in) >= hl {
			wk.frameEPsRot(cl, in, m, 0, true, m.O+m.W)
			wk.bodyEPsRot(cl, in[hl:], m, 0, &bf, m.O+m.W+1)
		} else {
			wk.frameEPs(cl, in, m, 0, true)
		}
	})
	big24Sample(b, 0, 1, r, func(in []byte, m mut) {
		if !take() {
			return
		}
		wk.frameEPs(cl, in, m, 0, true)
		if m.O >= hl {
			wk.bodyEPs(cl, in[hl:], m, 0, &bf)
		}
	})
	for i := 0; i < 2; i++ {
		// partner without protocol keywords (ASCII read as a length is a gigabyte)
		var ob []byte
		for try := 0; try < 8 && ob == nil; try++ {
			oi := (pi + 1 + r.Intn(len(pairs)-1)) % len(pairs)
			_, cand := smallFrame(wk.seed, utag(tagSweep, oi, 0), pairs[oi], 0, 300, true, randChooser)
			if cand != nil && !hasASCII(cand[pairs[oi].v.HeaderLen():]) {
				ob = cand
			}
		}
		if ob == nil {
			continue
		}
		oi := i
		nsp, rot := 8, -1
		if !wk.thorough {
			nsp = 3 // quick tier: 3 splices per partner, two paths each
		}
		for j := 0; j < nsp; j++ {
			s := splice(b, ob, r)
			m := mut{Class: mcSplice, O: oi, W: j}
			if !take() {
				continue
			}
			if !wk.thorough {
				rot = j
			}
			wk.frameEPsRot(cl, s, m, 0, false, rot)
			if len(s) >= hl {
				wk.bodyEPsRot(cl, s[hl:], m, 0, &bf, rot)
			}
		}
	}
}

// frameShapes: every optional-field shape of the pair (exhaustive chooser enumeration, as in the
// shared case list), each with sampled field mutants, every truncation (small frames) and 16 flips.
func (wk *worker) frameShapes(pi, sb int) {
	p := pairs[pi]
	pl := wk.plan()
	c := gen.NewEnumChooser()
	hl := p.v.HeaderLen()
	for shape := 0; ; shape++ {
		use := shape%pl.shapeBlocks == sb && (shape/pl.shapeBlocks)%pl.shapeEvery == 0
		var f *ref.Frame
		var b []byte
		if use {
			f, b = smallFrame(wk.seed, utag(tagShapes, pi, shape), p, -1, 300, true, func(*mon.Rand) *gen.Chooser { c.Reset(); return c })
		} else {
			c.Reset()
			gen.Frame(p.k, p.v, c, mon.NewRand(wk.seed, utag(tagShapes, pi, shape)<<8), false, -1)
		}
		if b != nil {
			cl := call{ver: byte(p.v), base: baseName(p, f)}
			bf := makeBodyFns(libHeader(f, f.Flags()), 0, f.Flags() == 0)
			r := mon.NewRand(wk.seed, utag(tagShapes, pi, shape)<<8|0xFF)
			wk.frameEPs(cl, b, mut{Class: mcValid}, 0, false)
			sweep(b, sweepSpec{FieldSample: pl.shapeFields, Trunc: len(b) <= 400, Flips: 16}, r, func(in []byte, m mut) {
				wk.frameEPs(cl, in, m, 0, false)
				if m.O >= hl && len(in) >= hl && m.Class != mcTrunc {
					wk.bodyEPs(cl, in[hl:], m, 0, &bf)
				}
			})
		}
		if !c.Next() {
			break
		}
	}
}

func be32(v uint32) []byte { return binary.BigEndian.AppendUint32(nil, v) }

func uvarint(v uint64) []byte { return binary.AppendUvarint(nil, v) }

// compressBody returns the compressed body as the frame format wants it for compressor comp
// (1 = lz4: 4-byte big-endian decompressed length + LZ4 block from the independent block encoder;
// 2 = snappy: the library's own Snappy encoder, whose output starts with the varint length).
func compressBody(body []byte, comp int) []byte {
	if comp == 1 {
		if len(body) == 0 {
			return []byte{0, 0, 0, 0, 0}
		}
		return append(be32(uint32(len(body))), segref.LZ4EncodeBlock(body)...)
	}
	var out bytes.Buffer
	if err := (snappy.Compressor{}).CompressWithLength(bytes.NewReader(body), &out); err != nil {
		return nil
	}
	return out.Bytes()
}

var lz4c = lz4.Compressor{}
var snapc = snappy.Compressor{}

func fnLz4WithLen(in []byte) bool {
	var out bytes.Buffer
	return lz4c.DecompressWithLength(bytes.NewReader(in), &out) == nil
}
func fnLz4Raw(in []byte) bool {
	var out bytes.Buffer
	return lz4c.Decompress(bytes.NewReader(in), &out) == nil
}
func fnSnappyWithLen(in []byte) bool {
	var out bytes.Buffer
	return snapc.DecompressWithLength(bytes.NewReader(in), &out) == nil
}

// hostile LZ4 blocks (block format: token, literal length extension, literals, 2-byte LE offset,
// match length extension)
var hostileLZ4 = [][]byte{
	{}, {0x00}, {0xF0}, {0x0F}, {0xFF}, {0xF0, 0xFF, 0xFF, 0xFF}, {0x10, 1, 0x00, 0x00}, {0x10, 1, 0xFF, 0xFF},
	{0x1F, 1, 0x01, 0x00, 0xFF, 0xFF, 0xFF, 0xFF, 0xFF}, {0x1F, 1, 0x01, 0x00}, {0x40, 1, 2},
	{0x10, 1, 0x02, 0x00, 0x00}, {0x00, 0x00, 0x00}, {0x0F, 0x00, 0x00, 0xFF, 0xFF, 0xFF, 0xFF, 0xFF, 0xFF, 0xFF, 0xFF, 0x00},
	bytes.Repeat([]byte{0xFF}, 300), bytes.Repeat([]byte{0x00}, 300), append([]byte{0xF0}, bytes.Repeat([]byte{0xFF}, 64)...),
}

// hostile Snappy element streams (behind a varint length): literal with missing bytes, copies with
// offset 0 / beyond what was produced, 4-byte literal lengths, copy-4 with huge offset
var hostileSnappy = [][]byte{
	{}, {0x00}, {0xFC}, {0xF0, 0xFF}, {0xF4, 0xFF, 0xFF}, {0xF8, 0xFF, 0xFF, 0xFF}, {0xFC, 0xFF, 0xFF, 0xFF, 0xFF},
	{0x01, 0x00}, {0x01, 0x05}, {0x00, 1, 0x01, 0x00}, {0x00, 1, 0x05, 0x01}, {0x00, 1, 0xFD, 0x01},
	{0x02, 0x00, 0x00}, {0x00, 1, 0x02, 0xFF, 0xFF}, {0x03, 0xFF, 0xFF, 0xFF, 0xFF}, {0x00, 1, 0x03, 0x01, 0x00, 0x00, 0x00},
	bytes.Repeat([]byte{0xFF}, 300), bytes.Repeat([]byte{0x00}, 300), {0x00, 1, 0xFE, 0x01, 0x00, 0xFE, 0x01, 0x00},
}

var snappyLens = []uint64{0, 1, 2, 64, 127, 128, 16383, 16384, 65535, 65536, 1 << 21, 1 << 24}

// frameComp: one small valid frame of the pair with a compressed body: sweep of the whole frame
// (header, length prefix, block); hostile length prefixes with the valid block; hostile blocks with
// plausible prefixes; each through the codec with that compressor and through the decompressor.
func (wk *worker) frameComp(pi, d, comp int) {
	p := pairs[pi]
	f, _ := smallFrame(wk.seed, utag(tagComp, pi, d), p, -1, 300, true, randChooser)
	if f == nil {
		return
	}
	body, err := ref.EncodeBody(f, ref.EncOpts{})
	if err != nil {
		return
	}
	cb := compressBody(body, comp)
	if cb == nil {
		return
	}
	flags := f.Flags() | ref.FlagCompressed
	hdr := func(n int) []byte {
		return ref.EncodeHeader(f.Version, f.Response, flags, f.Stream, f.Msg.Opcode(), int32(n))
	}
	frameOf := func(cbody []byte) []byte { return append(hdr(len(cbody)), cbody...) }
	b := frameOf(cb)
	hl := p.v.HeaderLen()
	cl := call{ver: byte(p.v), base: baseName(p, f)}
	bf := makeBodyFns(libHeader(f, flags), comp, false)
	dcEP, dcFn := epLz4WithLen, fnLz4WithLen
	if comp == 2 {
		dcEP, dcFn = epSnappyWithLen, fnSnappyWithLen
	}
	all := func(in []byte, m mut) {
		if len(in) > 1 && in[1]&ref.FlagCompressed == 0 {
			// the mutation cleared the COMPRESSED flag: compressed bytes parsed as a plain body are the
			// random-body class (randomUnit), and cost a huge allocation every other time
			wk.counters["compressed_frame_mutants_that_cleared_the_flag_not_run"]++
			return
		}
		wk.frameEPs(cl, in, m, comp, false)
		if m.O >= hl && len(in) >= hl {
			wk.bodyEPs(cl, in[hl:], m, comp, &bf)
			c2 := cl
			c2.comp, c2.ep = comp, dcEP
			wk.exec(&c2, in[hl:], m, dcFn)
		}
	}
	r := mon.NewRand(wk.seed, utag(tagComp, pi, d)<<8|0xFF)
	all(b, mut{Class: mcValid, O: hl})
	// exhaustive over the header and (LZ4) the 4-byte length prefix and the first bytes of the block;
	// the rest of the block is sampled: a damaged block that still decompresses hands arbitrary bytes
	// to the body decoder (the random-body class), and the decompressors get their own exhaustive
	// sweeps in compressUnit. The Snappy length varint is not swept byte-wise here (a continuation bit
	// turns the following bytes into a declared length of up to 4 GiB, which snappy.Decode allocates):
	// it takes the listed lengths below, and 2^28.. in the resource table.
	cut := hl + 12
	if comp == 2 {
		cut = hl
	}
	if cut > len(b) {
		cut = len(b)
	}
	sweep(b[:cut:cut], sweepSpec{Fields: true}, r, func(in []byte, m mut) {
		all(append(append(make([]byte, 0, len(b)), in...), b[cut:]...), m)
	})
	from := cut
	if comp == 2 && from+2 < len(b) {
		from += 2
	}
	sweep(b, sweepSpec{From: from, FieldSample: 100, Flips: 32}, r, all)
	if len(b) <= 4096 {
		sweep(b, sweepSpec{Trunc: true}, r, all)
	}
	if comp == 1 {
		block := cb[4:]
		old := uint32(len(body))
		n := uint32(len(block))
		for _, v := range []uint32{0, 1, old - 1, old + 1, 127, 128, 255, 256, 32767, 32768, 65535, 65536, 255 * n, 255*n + 1, 1 << 24,
			1 << 28, 1<<31 - 1, 1 << 31, 1<<32 - 1} {
			all(frameOf(append(be32(v), block...)), mut{Class: mcPrefix, O: hl, W: 4, Val: int64(v)})
		}
		for i, hb := range hostileLZ4 {
			for _, v := range []uint32{1, 64, uint32(len(hb)) * 255} {
				all(frameOf(append(be32(v), hb...)), mut{Class: mcBlock, O: hl, W: i, Val: int64(v)})
			}
		}
	} else {
		// the Snappy block starts with the varint decoded length; lengths of 2^28 and above go to the
		// resource table (snappy.Decode allocates the declared length before it looks at the elements)
		_, vn := binary.Uvarint(cb)
		if vn <= 0 {
			return
		}
		elems := cb[vn:]
		for _, v := range append([]uint64{uint64(len(body)) - 1, uint64(len(body)) + 1}, snappyLens...) {
			all(frameOf(append(uvarint(v), elems...)), mut{Class: mcPrefix, O: hl, W: vn, Val: int64(v)})
		}
		for i, hb := range hostileSnappy {
			for _, v := range []uint64{1, 64, 65536} {
				all(frameOf(append(uvarint(v), hb...)), mut{Class: mcBlock, O: hl, W: i, Val: int64(v)})
			}
		}
	}
}

// msgCross: the message bytes of one valid frame through its own codec in every version and through
// every other codec in its own version (the matching pair is the valid case), plus 32 bit flips through the own codec in every version.
func (wk *worker) msgCross(pi, d int) {
	p := pairs[pi]
	f, b := smallFrame(wk.seed, utag(tagCross, pi, d), p, 0, 2048, true, randChooser)
	if b == nil {
		return
	}
	body := b[p.v.HeaderLen():]
	cl := call{base: baseName(p, f)}
	own := f.Msg.Opcode()
	for i := range msgCodecs {
		mc := &msgCodecs[i]
		for _, v := range ref.Versions {
			// the own codec with every version, every other codec with the own version
			if mc.op != own && v != p.v {
				continue
			}
			pv := primitive.ProtocolVersion(v)
			cl.ep, cl.ver = mc.ep, byte(v)
			m := mut{Class: mcCross, O: int(mc.op), W: int(v)}
			if mc.op == own && v == p.v {
				m.Class = mcValid
			}
			wk.exec(&cl, body, m, func(in []byte) bool {
				_, err := mc.c.Decode(bytes.NewReader(in), pv)
				return err == nil
			})
		}
	}
	mc := msgCodecByOp[own]
	if mc == nil {
		return
	}
	r := mon.NewRand(wk.seed, utag(tagCross, pi, d)<<8|0xFF)
	sweep(body, sweepSpec{Flips: 32}, r, func(in []byte, m mut) {
		for _, v := range ref.Versions {
			pv := primitive.ProtocolVersion(v)
			cl.ep, cl.ver = mc.ep, byte(v)
			wk.exec(&cl, in, m, func(in []byte) bool {
				_, err := mc.c.Decode(bytes.NewReader(in), pv)
				return err == nil
			})
		}
	})
}
