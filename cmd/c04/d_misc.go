package main

import (
	"bytes"
	"strings"

	"github.com/datastax/go-cassandra-native-protocol/datacodec"
	"github.com/datastax/go-cassandra-native-protocol/primitive"

	"verif/internal/cqlgen"
	"verif/internal/cqlref"
	"verif/internal/mon"
	"verif/internal/ref"
	"verif/internal/segref"
)

// direction of an opcode: true = response
func opIsResponse(v ref.Version, op byte) bool { return ref.OpcodeDirection(v, op) > 0 }

var allOps = []byte{ref.OpError, ref.OpStartup, ref.OpReady, ref.OpAuthenticate, ref.OpOptions, ref.OpSupported, ref.OpQuery,
	ref.OpResult, ref.OpPrepare, ref.OpExecute, ref.OpRegister, ref.OpEvent, ref.OpBatch, ref.OpAuthChallenge,
	ref.OpAuthResponse, ref.OpAuthSuccess, ref.OpRevise}

func (wk *worker) msgExecAll(base string, in []byte, m mut) {
	cl := call{base: base}
	for i := range msgCodecs {
		mc := &msgCodecs[i]
		for _, v := range libVersions {
			pv := v
			cl.ep, cl.ver = mc.ep, byte(v)
			wk.exec(&cl, in, m, func(in []byte) bool {
				_, err := mc.c.Decode(bytes.NewReader(in), pv)
				return err == nil
			})
		}
	}
}

// randomUnit: (e) pure random bytes of lengths 0..64 to every entry point, and random bodies
// behind a valid header for every version x opcode.
func (wk *worker) randomUnit(i int) {
	r := mon.NewRand(wk.seed, utag(tagRandom, i, 0))
	for j := 0; j < 24; j++ {
		b := biasedBytes(r, r.Intn(65))
		m := mut{Class: mcRandom, O: j, W: 1}
		if j%6 == 5 {
			b = r.Bytes(r.Intn(65)) // uniform
			m.W = 0
		}
		wk.frameEPs(call{base: "random"}, b, m, 0, true)
		cl := call{ep: epHeader, base: "random"}
		wk.exec(&cl, b, m, func(in []byte) bool { _, err := codecs[0].DecodeHeader(bytes.NewReader(in)); return err == nil })
		wk.segExec("random", b, m, -1)
		if j < 4 {
			wk.msgExecAll("random", b, m)
		}
	}
	for _, v := range ref.Versions {
		for _, op := range allOps {
			if op == ref.OpRevise && !v.HasRevise() {
				continue
			}
			resp := opIsResponse(v, op)
			flags := byte(0)
			if r.Intn(3) == 0 {
				flags = byte(r.Intn(16)) &^ ref.FlagCompressed
				if !v.HasPayloadAndWarnings() {
					flags &= ref.FlagTracing
				}
			}
			body := biasedBytes(r, r.Intn(65))
			if uni := r.Intn(8) == 0; uni && wk.thorough {
				body = r.Bytes(r.Intn(65)) // uniform bodies (a gigabyte length every other time): thorough tier only
			}
			b := append(ref.EncodeHeader(v, resp, flags, int16(r.Intn(100)), op, int32(len(body))), body...)
			wk.frameEPs(call{ver: byte(v), base: "random-body/" + opNames[op]}, b, mut{Class: mcRandBody, O: int(op), Val: int64(flags)}, 0, false)
			// the same body declared compressed: random bytes as LZ4 length prefix + block / as Snappy
			// block with a declared length below 2^28
			cb := snappySafe(append([]byte{}, body...))
			bc := append(ref.EncodeHeader(v, resp, flags|ref.FlagCompressed, 1, op, int32(len(cb))), cb...)
			wk.frameEPs(call{ver: byte(v), base: "random-body/" + opNames[op]}, bc, mut{Class: mcRandBody, O: int(op), Val: int64(flags | 1)}, 0, false)
		}
	}
}

// ---------------------------------------------------------------------------------------------
// large specials

func rep(pattern []byte, total int) []byte {
	out := make([]byte, 0, total)
	for len(out)+len(pattern) <= total {
		out = append(out, pattern...)
	}
	return out
}

const MiB = 1 << 20

type special struct {
	name string
	mk   func(r *mon.Rand) []byte
}

var specials = []special{
	{"1MiB-0xFF", func(*mon.Rand) []byte { return bytes.Repeat([]byte{0xFF}, MiB) }},
	{"1MiB-0x00", func(*mon.Rand) []byte { return make([]byte, MiB) }},
	{"4KiB-nested-list-2048", func(*mon.Rand) []byte { return rep([]byte{0x00, 0x20}, MiB) }},
	{"1MiB-random-biased", func(r *mon.Rand) []byte { return biasedBytes(r, MiB) }},
	{"64KiB-random", func(r *mon.Rand) []byte { return r.Bytes(64 << 10) }},
	{"4KiB-nested-map-1024", func(*mon.Rand) []byte { return rep([]byte{0x00, 0x21, 0x00, 0x09}, MiB) }},
	{"4KiB-nested-tuple-1024", func(*mon.Rand) []byte { return rep([]byte{0x00, 0x31, 0x00, 0x01}, MiB) }},
	{"4KiB-nested-udt-409", func(*mon.Rand) []byte { return rep([]byte{0x00, 0x30, 0, 0, 0, 0, 0, 1, 0, 0}, MiB) }},
	{"4KiB-nested-set-2048", func(*mon.Rand) []byte { return rep([]byte{0x00, 0x22}, MiB) }},
	{"64KiB-0xFF", func(*mon.Rand) []byte { return bytes.Repeat([]byte{0xFF}, 64<<10) }},
	{"1MiB-rows-262000-empty-cells", func(*mon.Rand) []byte {
		// RESULT Rows: kind 2, flags NO_METADATA, 4 columns, 65500 rows, every cell an empty [bytes]
		w := nw().i32(2).i32(4).i32(4).i32(65500)
		return append(w.b, make([]byte, 4*4*65500)...)
	}},
	{"128KiB-string-list-65535-empties", func(*mon.Rand) []byte { return append([]byte{0xFF, 0xFF}, make([]byte, 2*65535)...) }},
	{"max-counts-no-data", nil}, // several tiny inputs, see largeUnit
}

var maxCountInputs = [][]byte{
	{0xFF, 0xFF}, {0x7F, 0xFF}, {0x00, 0x0F, 0xFF, 0xFF}, {0x00, 0x10, 0x00, 0x00}, {0x00, 0x00, 0xFF, 0xFF},
	nw().i32(2).i32(4).i32(0).i32(1 << 20).b, // RESULT Rows, no metadata, 0 columns, 2^20 rows
	nw().i32(2).i32(4).i32(1 << 20).i32(1).b, // RESULT Rows, no metadata, 2^20 columns, 1 row
	nw().i32(2).i32(0).i32(1 << 20).b,        // RESULT Rows, 2^20 column specs
	nw().u8(0).u16(0xFFFF).b,                 // BATCH with 65535 children
	// negative counts, deterministically (the sweeps find them too, base permitting)
	nw().i32(2).i32(4).i32(-1).i32(1).b,                                               // RESULT Rows, NO_METADATA, column count -1, 1 row
	nw().i32(2).i32(4).i32(1).i32(-1).b,                                               // RESULT Rows, NO_METADATA, 1 column, rows count -1
	nw().i32(2).i32(0).i32(-1).b,                                                      // RESULT Rows with metadata, column count -1
	nw().i32(2).i32(1).i32(-2).str("").str("").b,                                      // RESULT Rows, global spec, column count -2
	nw().i32(4).u16(1).u8(0).i32(0).i32(-1).i32(-1).b,                                 // RESULT Prepared (v4): variables column count -1, pk count -1
	nw().i32(4).u16(1).u8(0).i32(0).i32(0).i32(0).i32(4).i32(-1).b,                    // RESULT Prepared (v4): result metadata column count -1
	nw().i32(0x1300).str("").u16(1).i32(1).i32(1).i32(-1).b,                           // READ_FAILURE (v5/DSE): reason map length -1
	nw().i32(0x1500).str("").u16(1).i32(1).i32(1).i32(-3).b,                           // WRITE_FAILURE (v5/DSE): reason map length -3
	nw().i32(0x1300).str("").u16(1).i32(1).i32(1).i32(1).u8(4).raw(ip4).u16(7).b,      // READ_FAILURE: reason code 7 (unknown)
	nw().i32(0x1300).str("").u16(1).i32(1).i32(1).i32(1).u8(4).raw(ip4).u16(0xFFFF).b, // READ_FAILURE: reason code 0xFFFF
	nw().i32(-1).b, nw().i32(-2).b, nw().i32(-1).i32(-1).b, // [int] -1 / -2 at the start of anything
	nw().i32(0x1300).str("m").u16(1).i32(1).i32(1 << 20).b, // READ_FAILURE v5: reason map of 2^20 entries
}

// largePool: datacodec codecs the large inputs are decoded with
var largeTypes = []*cqlref.Type{
	cqlref.NewList(cqlref.Scalar(cqlref.Int)), cqlref.NewSet(cqlref.Scalar(cqlref.Text)),
	cqlref.NewMap(cqlref.Scalar(cqlref.Text), cqlref.Scalar(cqlref.Int)),
	cqlref.NewMap(cqlref.Scalar(cqlref.Int), cqlref.NewList(cqlref.Scalar(cqlref.Int))),
	cqlref.NewList(cqlref.NewList(cqlref.Scalar(cqlref.Int))),
	cqlref.NewTuple(cqlref.Scalar(cqlref.Int), cqlref.Scalar(cqlref.Text)),
	cqlref.NewUDT("ks", "u", []string{"a", "b"}, []*cqlref.Type{cqlref.Scalar(cqlref.Int), cqlref.Scalar(cqlref.Text)}),
	cqlref.Scalar(cqlref.Varint), cqlref.Scalar(cqlref.Decimal), cqlref.Scalar(cqlref.Duration), cqlref.Scalar(cqlref.Text),
	cqlref.Scalar(cqlref.Ascii), cqlref.Scalar(cqlref.Blob), cqlref.Scalar(cqlref.Inet), cqlref.Scalar(cqlref.Uuid),
	cqlref.Scalar(cqlref.Int), cqlref.Scalar(cqlref.Bigint), cqlref.Scalar(cqlref.Date), cqlref.Scalar(cqlref.Time),
	cqlref.Scalar(cqlref.Timestamp), cqlref.Scalar(cqlref.Boolean), cqlref.Scalar(cqlref.Double), cqlref.NewCustom("c.C"),
}

// uniform: the input is uniform random bytes; it is not fed to the message codecs, primitive readers
// and CQL codecs directly (a uniform random [int] length is a gigabyte every other time; they get the
// biased random special), only to the entry points that validate something first.
func (wk *worker) toEverything(name string, in []byte, m mut, frames bool, uniform bool) {
	// frames: a valid header for every version x opcode, the input as body (cut so that header + body <= 1 MiB)
	if frames {
		for vi, v := range ref.Versions {
			// quick tier: v5 and one other version (rotating with the seed), without the prefix-flags variant
			if !wk.thorough && v != ref.V5 && vi != int(wk.seed%int64(len(ref.Versions))+int64(len(ref.Versions)))%len(ref.Versions) {
				continue
			}
			hl := v.HeaderLen()
			body := in
			if len(body)+hl > MiB {
				body = body[:MiB-hl]
			}
			for _, op := range allOps {
				if op == ref.OpRevise && !v.HasRevise() {
					continue
				}
				resp := opIsResponse(v, op)
				for _, flags := range []byte{0, ref.FlagTracing | ref.FlagWarning | ref.FlagCustomPayload} {
					if flags != 0 && (!v.HasPayloadAndWarnings() || !wk.thorough) {
						continue
					}
					b := append(ref.EncodeHeader(v, resp, flags, 1, op, int32(len(body))), body...)
					wk.frameEPs(call{ver: byte(v), base: name + "/" + opNames[op]}, b, m, 0, op == ref.OpResult && flags == 0)
				}
			}
			// compressed: a benign declared length in front of the input
			for comp := 1; comp <= 2; comp++ {
				var cb []byte
				if comp == 1 {
					cb = append(be32(1<<20), body...)
				} else {
					cb = append(uvarint(1<<20), body...)
				}
				if len(cb)+hl > MiB {
					cb = cb[:MiB-hl]
				}
				b := append(ref.EncodeHeader(v, true, ref.FlagCompressed, 1, ref.OpResult, int32(len(cb))), cb...)
				wk.frameEPs(call{ver: byte(v), base: name + "/compressed"}, b, m, comp, false)
			}
		}
		cl := call{ep: epHeader, base: name}
		wk.exec(&cl, in, m, func(in []byte) bool { _, err := codecs[0].DecodeHeader(bytes.NewReader(in)); return err == nil })
	}
	wk.typeExec(name, in, m, libVersions)
	if !uniform {
		wk.msgExecAll(name, in, m)
		for pi := range primReaders {
			wk.primExec(&primReaders[pi], name, in, m)
		}
	}
	wk.segExec(name, in, m, -1)
	if len(in) >= segref.MaxPayload {
		p := in[:segref.MaxPayload]
		wk.segExec(name+"/valid-crc", buildSegment(segref.Header{Format: segref.Plain, Length: segref.MaxPayload}, p), m, 0)
		wk.segExec(name+"/valid-crc", buildSegment(segref.Header{Format: segref.LZ4, Length: segref.MaxPayload, UncompressedLength: segref.MaxPayload}, p), m, 1)
		wk.segExec(name+"/valid-crc", buildSegment(segref.Header{Format: segref.LZ4, Length: segref.MaxPayload}, p), m, 1)
	}
	for _, z := range []struct {
		ep, comp int
		fn       func([]byte) bool
		prefix   []byte
	}{{epLz4Raw, 1, fnLz4Raw, nil}, {epLz4WithLen, 1, fnLz4WithLen, nil}, {epLz4WithLen, 1, fnLz4WithLen, be32(1 << 20)},
		{epSnappyWithLen, 2, fnSnappyWithLen, uvarint(1 << 20)}, {epSnappyWithLen, 2, fnSnappyWithLen, uvarint(1 << 24)}} {
		if z.ep == epLz4Raw && len(in) > 64<<10 && name != "1MiB-0xFF" && name != "1MiB-rows-262000-empty-cells" {
			continue // lz4.Decompress allocates up to 510 x the input length before it fails: two 1 MiB inputs are enough
		}
		b := in
		if uniform && z.ep == epSnappyWithLen {
			b = snappySafe(b)
		}
		if z.prefix != nil {
			b = append(append([]byte{}, z.prefix...), in...)
			if len(b) > MiB {
				b = b[:MiB]
			}
		}
		cl := call{ep: z.ep, comp: z.comp, base: name}
		wk.exec(&cl, b, m, z.fn)
	}
	if uniform {
		return
	}
	for _, t := range largeTypes {
		var codec datacodec.Codec
		if !safely(func() {
			var err error
			if codec, _, err = cqlgen.Codec(t); err != nil {
				panic(err)
			}
		}) {
			continue
		}
		vs := dcVersions
		if !wk.thorough {
			vs = dcVersions[1:2] // quick tier: v4 (the v2 collection format gets its share in dcUnit)
		}
		wk.dcExec(codec, t, name+"->"+t.Shallow(), wk.destsFor(t, nil), in, m, vs)
	}
}

func (wk *worker) largeUnit(i int) {
	if i >= len(specials) {
		return
	}
	// deaths are expected here (a 1 MiB input makes lz4.Decompress try buffers up to 255 MiB, and
	// half a million nested type descriptors need a 128 MiB goroutine stack): snapshot often
	defer func(n int64) { wk.flushEvery = n }(wk.flushEvery)
	wk.flushEvery = 20
	sp := specials[i]
	r := mon.NewRand(wk.seed, utag(tagLarge, i, 0))
	if sp.mk == nil {
		for j, b := range maxCountInputs {
			wk.toEverything(sp.name, b, mut{Class: mcSpecial, O: j}, true, false)
		}
		return
	}
	in := sp.mk(r)
	if strings.Contains(sp.name, "nested") {
		// 4 KiB of the pattern (2048 levels for list / set). Deeper descriptors are resource-class
		// material: ReadDataType wraps the error of level n in the error of level n-1, so a descriptor
		// that ends early costs quadratic time and memory (32768 levels: minutes and gigabytes; 524288
		// levels: a 256 MiB stack first). They run in the resource table of the thorough tier.
		in = in[:4<<10]
		if !wk.thorough {
			in = in[:1<<10] // 512 levels: the wrapped error messages stay below 4 MiB
		}
	} else if !wk.thorough && len(in) > 64<<10 {
		in = in[:64<<10] // quick tier: the first 64 KiB of every special; the thorough tier feeds the full 1 MiB
	}
	if strings.Contains(sp.name, "nested") {
		// the descriptor goes to ReadDataType directly (every version), and inside a RESULT Rows body to
		// the frame-level entry points for one version
		m := mut{Class: mcSpecial}
		wk.typeExec(sp.name, in, m, libVersions)
		body := append(nw().i32(2).i32(1).i32(1).str("").str("").str("").b, in...) // Rows, global spec, 1 column whose type is the special
		if len(body) > MiB-9 {
			body = body[:MiB-9]
		}
		b := append(ref.EncodeHeader(ref.V4, true, 0, 1, ref.OpResult, int32(len(body))), body...)
		wk.frameEPs(call{ver: 4, base: sp.name + "/RESULT"}, b, m, 0, false)
		return
	}
	uniform := sp.name == "64KiB-random" || sp.name == "1MiB-random-biased"
	// random specials are not wrapped in valid headers (every opcode whose body starts with an [int]
	// or [long string] would ask for a gigabyte): they go to the entry points as they are
	wk.toEverything(sp.name, in, mut{Class: mcSpecial}, !uniform, uniform)
	if uniform {
		wk.frameEPs(call{base: sp.name}, in, mut{Class: mcSpecial}, 0, true)
	}
}

// ---------------------------------------------------------------------------------------------
// resource table: 2^28, 2^31-1, -2^31 on a PRNG sample of length/count-like fields, one execution
// per unit, run by the dedicated serialised worker.

// deepNested: thorough tier, resource table: type descriptors nested 32768 and 524288 deep (the 1 MiB
// special of the design). Expected outcome: memory exhaustion (256 MiB goroutine stack for the deep
// one; error messages wrapping each other, quadratic in the depth, when the descriptor ends early).
var deepNested = []struct {
	name string
	mk   func() []byte
}{
	{"64KiB-nested-list-32768", func() []byte { return rep([]byte{0x00, 0x20}, 64<<10) }},
	{"1MiB-nested-list-524288", func() []byte { return rep([]byte{0x00, 0x20}, MiB) }},
	{"64KiB-nested-map-16384", func() []byte { return rep([]byte{0x00, 0x21, 0x00, 0x09}, 64<<10) }},
}

func (wk *worker) resourceUnit(i int) {
	if wk.thorough && i < len(deepNested) {
		wk.typeExec(deepNested[i].name, deepNested[i].mk(), mut{Class: mcSpecial}, libVersions[2:3])
		return
	}
	r := mon.NewRand(wk.seed, utag(tagRes, i, 0))
	val := hugeValues[r.Intn(len(hugeValues))]
	apply := func(b []byte, from int) ([]byte, mut, bool) {
		cands := hugeCandidates(b, from)
		if len(cands) == 0 {
			return nil, mut{}, false
		}
		o := cands[r.Intn(len(cands))]
		out := append([]byte{}, b...)
		putBE(out[o:], 4, uint32(val))
		return out, mut{Class: mcHuge, O: o, W: 4, Val: val}, true
	}
	switch k := r.Intn(20); {
	case k < 7: // plain frame, one frame-level entry point
		p := pairs[r.Intn(len(pairs))]
		f, b := smallFrame(wk.seed, utag(tagRes, i, 1), p, -1, 300, true, randChooser)
		if b == nil {
			return
		}
		in, m, ok := apply(b, 0)
		if !ok {
			return
		}
		cl := call{ver: byte(p.v), base: baseName(p, f)}
		fns := &ffns[0]
		switch r.Intn(5) {
		case 0:
			cl.ep = epDecodeFrame
			wk.exec(&cl, in, m, fns.decodeFrame)
		case 1:
			cl.ep = epRawConvert
			wk.exec(&cl, in, m, fns.rawConvert)
		case 2:
			cl.ep = epHdrBody
			wk.exec(&cl, in, m, fns.hdrBody)
		case 3:
			cl.ep = epHdrRawBody
			wk.exec(&cl, in, m, fns.hdrRawBody)
		default:
			cl.ep = epHdrDiscardNS
			wk.exec(&cl, in, m, fns.hdrDiscardNS)
		}
	case k < 12: // body behind a valid header / message codec
		p := pairs[r.Intn(len(pairs))]
		f, b := smallFrame(wk.seed, utag(tagRes, i, 1), p, 0, 300, true, randChooser)
		if b == nil {
			return
		}
		body := b[p.v.HeaderLen():]
		in, m, ok := apply(body, 0)
		if !ok {
			return
		}
		bf := makeBodyFns(libHeader(f, f.Flags()), 0, true)
		cl := call{ver: byte(p.v), base: baseName(p, f)}
		if r.Bool() && bf.msg != nil {
			cl.ep = bf.msgEP
			wk.exec(&cl, in, m, bf.msg)
		} else {
			cl.ep = epConvert
			wk.exec(&cl, in, m, bf.convert)
		}
	case k < 14: // primitive notation
		p := &primReaders[r.Intn(len(primReaders))]
		bases := p.bases()
		b := bases[r.Intn(len(bases))]
		in, m, ok := apply(b, 0)
		if !ok {
			return
		}
		cl := call{ep: p.ep, ver: 4, base: p.name}
		wk.exec(&cl, in, m, func(in []byte) bool { return p.fn(bytes.NewReader(in), primitive.ProtocolVersion4) == nil })
	case k < 18: // datacodec
		pl := wk.dcplan()
		idx := pl.NumFixed() + (1<<21+i)*cqlgen.GroupSize
		cs, b, codec, ok := wk.dcCase(idx)
		if !ok || b == nil {
			return
		}
		in, m, ok := apply(b, 0)
		if !ok {
			return
		}
		dests := wk.destsFor(cs.Type, cs.Repr)
		d := &dests[r.Intn(len(dests))]
		pv := cqlgen.LibVersion(cs.Version)
		cl := call{ep: dcEP(cs.Type.Kind), ver: byte(pv), base: cs.Type.Shallow(), note: d.name}
		wk.exec(&cl, in, m, func(in []byte) bool {
			_, err := codec.Decode(in, d.mk(), pv)
			return err == nil
		})
	default: // Snappy declared length (snappy.Decode allocates it before reading the elements)
		lens := []uint64{1 << 28, 1<<31 - 1, 1<<32 - 1}
		v := lens[r.Intn(len(lens))]
		block := append(uvarint(v), 0x00, 1)
		m := mut{Class: mcHuge, W: 5, Val: int64(v)}
		if r.Bool() {
			cl := call{ep: epSnappyWithLen, comp: 2, base: "snappy-declared-length"}
			wk.exec(&cl, block, m, fnSnappyWithLen)
		} else {
			b := append(ref.EncodeHeader(ref.V4, true, ref.FlagCompressed, 1, ref.OpResult, int32(len(block))), block...)
			cl := call{ep: epDecodeFrame, ver: 4, comp: 2, base: "snappy-declared-length"}
			wk.exec(&cl, b, m, ffns[2].decodeFrame)
		}
	}
}
