package main

import (
	"bytes"
	"encoding/binary"

	"github.com/datastax/go-cassandra-native-protocol/segment"

	"verif/internal/mon"
	"verif/internal/segref"
)

var segCodecs = [2]segment.Codec{segment.NewCodec(), segment.NewCodecWithCompression(lz4c)}
var epSegment = epOf("segment.DecodeSegment")

var segFns = [2]func([]byte) bool{
	func(in []byte) bool { _, err := segCodecs[0].DecodeSegment(bytes.NewReader(in)); return err == nil },
	func(in []byte) bool { _, err := segCodecs[1].DecodeSegment(bytes.NewReader(in)); return err == nil },
}

func le(v uint32, n int) []byte {
	b := make([]byte, n)
	for i := 0; i < n; i++ {
		b[i] = byte(v >> (8 * uint(i)))
	}
	return b
}

// buildSegment writes header + CRC-24 + transmitted + CRC-32 with both CRCs computed over what is
// actually written, whatever the header declares (h.Length need not equal len(transmitted)).
func buildSegment(h segref.Header, transmitted []byte) []byte {
	hb, err := segref.PackHeader(h)
	if err != nil {
		return nil
	}
	out := append([]byte{}, hb...)
	out = append(out, le(segref.CRC24(hb), 3)...)
	out = append(out, transmitted...)
	return append(out, le(segref.CRC32Bulk(transmitted), 4)...)
}

var segLens = []uint32{0, 1, 2, 127, 128, 255, 256, 32767, 32768, 65535, 65536, 131070, 131071}

func (wk *worker) segExec(base string, in []byte, m mut, which int) {
	cl := call{ep: epSegment, ver: 5, base: base}
	for ci := 0; ci < 2; ci++ {
		if which >= 0 && which != ci {
			continue
		}
		cl.comp = ci
		wk.exec(&cl, in, m, segFns[ci])
	}
}

// fit returns exactly n bytes: t cut, or t followed by PRNG bytes.
func fit(t []byte, n int, r *mon.Rand) []byte {
	if n <= len(t) {
		return t[:n]
	}
	return append(append([]byte{}, t...), r.Bytes(n-len(t))...)
}

// segmentUnit: one valid segment (plain / lz4-compressed / lz4 verbatim) built by the independent
// writer. (1) raw sweep (CRCs not repaired: exercises the header and CRC paths, both header
// formats), (2) every header field set to hostile values with the CRC-24 RECOMPUTED, the payload
// either left as it is or cut/padded to the declared length with the CRC-32 recomputed, so that the
// decoder reaches the payload / decompression with hostile lengths, (3) the transmitted payload
// mutated (sweep, truncation, hostile LZ4 blocks) with the CRC-32 recomputed so that LZ4
// decompression sees hostile blocks.
func (wk *worker) segmentUnit(i int) {
	r := mon.NewRand(wk.seed, utag(tagSeg, i, 0))
	sizes := []int{0, 1, 2, 17, 64, 200, 300, 13, 40, 120}
	n := sizes[r.Intn(len(sizes))]
	if i%20 == 19 {
		n = 4000 + r.Intn(4000)
	}
	if i%60 == 59 {
		n = segref.MaxPayload
	}
	content := segref.Content(segref.Class(r.Intn(int(segref.NumClasses))), n, r)
	sc := r.Bool()
	format := i % 3
	var h segref.Header
	var tx []byte
	base := "segment/"
	switch format {
	case 0:
		h = segref.Header{Format: segref.Plain, Length: uint32(n), SelfContained: sc}
		tx = content
		base += "plain"
	case 1:
		if n == 0 {
			n = 1
			content = []byte{0x01}
		}
		tx = segref.LZ4EncodeBlock(content)
		h = segref.Header{Format: segref.LZ4, Length: uint32(len(tx)), UncompressedLength: uint32(n), SelfContained: sc}
		base += "lz4-compressed"
	default:
		h = segref.Header{Format: segref.LZ4, Length: uint32(n), SelfContained: sc}
		tx = content
		base += "lz4-verbatim"
	}
	own := 0
	if format > 0 {
		own = 1
	}
	valid := buildSegment(h, tx)
	if valid == nil {
		return
	}
	wk.segExec(base, valid, mut{Class: mcValid}, own)
	wk.segExec(base, valid, mut{Class: mcCross}, 1-own)
	// (1)
	sp := sweepSpec{Fields: true, Trunc: true, Flips: 64}
	if len(valid) > 400 {
		sp = sweepSpec{FieldSample: 3000, Trunc: len(valid) <= 4096, Flips: 64}
	}
	sweep(valid, sp, r, func(in []byte, m mut) { wk.segExec(base, in, m, own) })
	sweep(valid, sweepSpec{FieldSample: 200, Flips: 16}, r, func(in []byte, m mut) { wk.segExec(base, in, m, 1-own) })
	// (2)
	hdrMut := func(h2 segref.Header, o int, val int64) {
		m := mut{Class: mcCrcHeader, O: o, Val: val}
		if s := buildSegment(h2, tx); s != nil {
			wk.segExec(base, s, m, own) // payload as it was: the declared length runs short or long
		}
		if s := buildSegment(h2, fit(tx, int(h2.Length), r)); s != nil {
			wk.segExec(base, s, m, own) // payload cut / padded to the declared length, CRC-32 matching
		}
	}
	for _, l := range append([]uint32{h.Length - 1, h.Length + 1}, segLens...) {
		if l > segref.MaxPayload {
			continue
		}
		h2 := h
		h2.Length = l
		hdrMut(h2, 0, int64(l))
	}
	if h.Format == segref.LZ4 {
		for _, l := range append([]uint32{h.UncompressedLength - 1, h.UncompressedLength + 1}, segLens...) {
			if l > segref.MaxPayload {
				continue
			}
			h2 := h
			h2.UncompressedLength = l
			hdrMut(h2, 17, int64(l))
		}
	}
	h2 := h
	h2.SelfContained = !h.SelfContained
	hdrMut(h2, 34, 0)
	for _, pad := range []uint8{1, 0x10, 0x1F} {
		h2 = h
		h2.Padding = pad
		hdrMut(h2, 35, int64(pad))
	}
	// (3)
	if format == 1 {
		payloadMut := func(block []byte, m mut) {
			m.Class = mcCrcPayload
			h2 := h
			h2.Length = uint32(len(block))
			if len(block) == 0 {
				return // a zero compressed length means "verbatim": covered by (2)
			}
			if s := buildSegment(h2, block); s != nil {
				wk.segExec(base, s, m, 1)
			}
		}
		sp := sweepSpec{Fields: true, Trunc: true, Flips: 64}
		if len(tx) > 300 {
			sp = sweepSpec{FieldSample: 2000, Trunc: len(tx) <= 2048, Flips: 64}
		}
		if len(tx) > 2048 {
			// a failing decompression of a large block tries buffers up to 255 x its length (64 MiB in all)
			sp = sweepSpec{FieldSample: 40, Flips: 16}
		}
		sweep(tx, sp, r, func(in []byte, m mut) { payloadMut(append([]byte{}, in...), m) })
		for bi, hb := range hostileLZ4 {
			for _, ul := range []uint32{1, 64, segref.MaxPayload} {
				h2 := h
				h2.UncompressedLength = ul
				h2.Length = uint32(len(hb))
				if len(hb) == 0 {
					continue
				}
				if s := buildSegment(h2, hb); s != nil {
					wk.segExec(base, s, mut{Class: mcBlock, O: bi, Val: int64(ul)}, 1)
				}
			}
		}
	}
}

// compressUnit: the decompressors called directly. A valid block of one content class; sweep of
// the raw LZ4 block (Decompress), of length prefix + block (DecompressWithLength), of the Snappy
// block; hostile prefixes and hostile blocks; random bytes.
func (wk *worker) compressUnit(i int) {
	r := mon.NewRand(wk.seed, utag(tagZ, i, 0))
	sizes := []int{0, 1, 5, 13, 64, 200, 300, 32, 100, 1000}
	n := sizes[r.Intn(len(sizes))]
	cls := segref.Class(i % int(segref.NumClasses))
	content := segref.Content(cls, n, r)
	base := "content/" + cls.String()
	var block []byte
	if i%2 == 0 || n == 0 {
		block = segref.LZ4EncodeBlock(content)
	} else {
		var out bytes.Buffer
		if lz4c.Compress(bytes.NewReader(content), &out) != nil {
			return
		}
		block = out.Bytes()
	}
	run := func(ep, comp int, fn func([]byte) bool) func(in []byte, m mut) {
		cl := call{ep: ep, comp: comp, base: base}
		return func(in []byte, m mut) { wk.exec(&cl, in, m, fn) }
	}
	sp := func(b []byte) sweepSpec {
		if len(b) > 400 {
			return sweepSpec{FieldSample: 3000, Trunc: true, Flips: 64}
		}
		return sweepSpec{Fields: true, Trunc: true, Flips: 64}
	}
	raw := run(epLz4Raw, 1, fnLz4Raw)
	raw(block, mut{Class: mcValid})
	sweep(block, sp(block), r, raw)
	withLen := compressBody(content, 1)
	wl := run(epLz4WithLen, 1, fnLz4WithLen)
	wl(withLen, mut{Class: mcValid})
	sweep(withLen, sp(withLen), r, wl)
	sn := compressBody(content, 2)
	sf := run(epSnappyWithLen, 2, fnSnappyWithLen)
	if sn != nil {
		sf(sn, mut{Class: mcValid})
		// the declared-length varint is not swept byte-wise (a continuation bit makes the following
		// bytes a length of up to 4 GiB, which snappy.Decode allocates): it takes the listed lengths
		// below and 2^28.. in the resource table; the element stream behind it is swept exhaustively
		_, vn0 := binary.Uvarint(sn)
		if vn0 < 1 {
			vn0 = 1
		}
		ssp := sp(sn)
		ssp.From = vn0
		sweep(sn, ssp, r, sf)
		sweep(sn, sweepSpec{Trunc: true}, r, func(in []byte, m mut) {
			if m.O < vn0 {
				sf(in, m)
			}
		})
		if _, vn := binary.Uvarint(sn); vn > 0 {
			for _, v := range append([]uint64{uint64(n) + 1, uint64(n+255) % 256}, snappyLens...) {
				sf(append(uvarint(v), sn[vn:]...), mut{Class: mcPrefix, W: vn, Val: int64(v)})
			}
		}
	}
	nb := uint32(len(block))
	for _, v := range []uint32{0, 1, uint32(n) - 1, uint32(n) + 1, 127, 128, 255, 256, 65535, 65536, 255 * nb, 255*nb + 1, 1 << 24, 1 << 28, 1<<31 - 1, 1 << 31, 1<<32 - 1} {
		wl(append(be32(v), block...), mut{Class: mcPrefix, W: 4, Val: int64(v)})
	}
	for bi, hb := range hostileLZ4 {
		raw(hb, mut{Class: mcBlock, O: bi})
		for _, v := range []uint32{0, 1, 64, uint32(len(hb)) * 255} {
			wl(append(be32(v), hb...), mut{Class: mcBlock, O: bi, Val: int64(v)})
		}
	}
	for bi, hb := range hostileSnappy {
		for _, v := range []uint64{0, 1, 64, 65536} {
			sf(append(uvarint(v), hb...), mut{Class: mcBlock, O: bi, Val: int64(v)})
		}
	}
	for j := 0; j < 64; j++ {
		b := r.Bytes(r.Intn(65)) // the decompressors bound their output by the input length: uniform bytes are cheap
		raw(b, mut{Class: mcRandom, O: j})
		wl(b, mut{Class: mcRandom, O: j})
		// random bytes for Snappy: the declared length is kept below 2^21 (see snappySafe)
		sf(snappySafe(b), mut{Class: mcRandom, O: j})
	}
}

// snappySafe returns b with its leading varint (the declared decoded length, which snappy.Decode
// allocates before looking at anything else) limited to three bytes, i.e. below 2^21; larger declared
// lengths are the compression-prefix class (up to 2^24) and the resource table (2^28 and above).
func snappySafe(b []byte) []byte {
	if len(b) >= 3 && b[0]&b[1]&0x80 != 0 && b[2]&0x80 != 0 {
		b = append([]byte{}, b...)
		b[2] &= 0x7F
	}
	return b
}
