package main

import (
	"bytes"
	"reflect"

	"github.com/datastax/go-cassandra-native-protocol/datacodec"
	"github.com/datastax/go-cassandra-native-protocol/primitive"

	"verif/internal/cqlgen"
	"verif/internal/cqlref"
	"verif/internal/mon"
)

var dcPlan *cqlgen.Plan

func (wk *worker) dcplan() *cqlgen.Plan {
	if dcPlan == nil {
		dcPlan = cqlgen.NewPlan(wk.seed, wk.plan().dcDepth, false)
	}
	return dcPlan
}

var dcEPs = map[cqlref.Kind]int{}

func dcEP(k cqlref.Kind) int {
	if id, ok := dcEPs[k]; ok {
		return id
	}
	id := epOf("datacodec." + k.String() + ".Decode")
	dcEPs[k] = id
	return id
}

var dcVersions = []primitive.ProtocolVersion{primitive.ProtocolVersion2, primitive.ProtocolVersion4, primitive.ProtocolVersion5}

// dcDest is one destination representation: mk returns a fresh destination pointer.
type dcDest struct {
	name string
	mk   func() interface{}
}

// safely runs generator code (reflect type construction in cqlgen can refuse a shape); a failure
// there is counted, never judged.
func safely(f func()) (ok bool) {
	defer func() {
		if r := recover(); r != nil {
			ok = false
		}
	}()
	f()
	return true
}

// destsFor lists the destination representations for a case: the representation the value was
// generated for (slices, arrays, maps, structs, pointers, scalars of every documented Go type),
// *interface{}, the universal (NULL-capable) representation, the typed preferred representation
// where Go can express it, and non-empty pre-filled slices / maps (SetLen and overwrite paths).
func (wk *worker) destsFor(t *cqlref.Type, rep *cqlgen.Repr) []dcDest {
	var out []dcDest
	addRepr := func(tag string, r *cqlgen.Repr) {
		if r == nil {
			return
		}
		ok := safely(func() {
			d, _, _ := cqlgen.TopDest(r)
			_ = d
			out = append(out, dcDest{name: tag + ":" + r.String(), mk: func() interface{} { d, _, _ := cqlgen.TopDest(r); return d }})
			for r.K == cqlgen.RPtr {
				r = r.Sub[0]
			}
			gt := r.GoType()
			switch gt.Kind() {
			case reflect.Slice:
				if gt.Elem().Kind() != reflect.Uint8 && gt.Elem().Kind() != reflect.Int32 {
					out = append(out, dcDest{name: tag + "-prefilled:" + r.String(), mk: func() interface{} {
						p := reflect.New(gt)
						p.Elem().Set(reflect.MakeSlice(gt, 3, 8))
						return p.Interface()
					}})
				}
			case reflect.Map:
				out = append(out, dcDest{name: tag + "-prefilled:" + r.String(), mk: func() interface{} {
					p := reflect.New(gt)
					p.Elem().Set(reflect.MakeMap(gt))
					return p.Interface()
				}})
			}
		})
		if !ok {
			wk.counters["generator/destination-type-not-constructible"]++
		}
	}
	addRepr("generated", rep)
	out = append(out, dcDest{name: "*interface{}", mk: func() interface{} { return new(interface{}) }})
	addRepr("universal", cqlgen.Universal(t))
	if !cqlgen.PreferredKeyUnhashable(t) {
		addRepr("preferred", cqlgen.Preferred(t))
	}
	return out
}

func (wk *worker) dcExec(codec datacodec.Codec, t *cqlref.Type, base string, dests []dcDest, in []byte, m mut, vs []primitive.ProtocolVersion) {
	cl := call{ep: dcEP(t.Kind), base: base}
	for di := range dests {
		d := &dests[di]
		cl.note = d.name
		for _, v := range vs {
			pv := v
			cl.ver = byte(v)
			wk.exec(&cl, in, m, func(in []byte) bool {
				_, err := codec.Decode(in, d.mk(), pv)
				return err == nil
			})
		}
	}
}

func (wk *worker) dcCase(idx int) (cs cqlgen.Case, b []byte, codec datacodec.Codec, ok bool) {
	ok = safely(func() {
		cs = wk.dcplan().Case(idx)
		var err error
		if b, err = cqlref.Serialize(cs.Type, cs.Value, cs.Version); err != nil {
			panic(err)
		}
		if codec, _, err = cqlgen.Codec(cs.Type); err != nil {
			panic(err)
		}
	})
	if !ok {
		wk.counters["generator/case-not-constructible"]++
	}
	return
}

// dcIndex maps (block, j) to a plan index: even blocks walk the seed-independent scalar table with
// a stride, odd blocks take one group of random container cases (a group shares its type tree).
func (wk *worker) dcIndex(block, j int) int {
	pl := wk.plan()
	p := wk.dcplan()
	nf := p.NumFixed()
	if block%3 == 0 && nf > 0 {
		return ((block/3*pl.dcBlock + j) * 37) % nf
	}
	g := block - block/3 - 1
	return nf + g*cqlgen.GroupSize*((pl.dcBlock+cqlgen.GroupSize-1)/cqlgen.GroupSize) + j
}

// dcUnit: valid encodings (independent serializer) of generated (type, value) cases; the valid
// bytes and 64 bit flips decoded with versions {2,4,5}; exhaustive sweep and truncations decoded
// with the case's version; every mutant into every destination representation.
func (wk *worker) dcUnit(block int) {
	pl := wk.plan()
	for j := 0; j < pl.dcBlock; j++ {
		idx := wk.dcIndex(block, j)
		cs, b, codec, ok := wk.dcCase(idx)
		if !ok {
			continue
		}
		r := mon.NewRand(wk.seed, utag(tagDC, idx, 0))
		dests := wk.destsFor(cs.Type, cs.Repr)
		base := cs.Type.Shallow()
		own := []primitive.ProtocolVersion{cqlgen.LibVersion(cs.Version)}
		wk.dcExec(codec, cs.Type, base, dests, b, mut{Class: mcValid}, own)
		if b == nil {
			continue
		}
		// the generated value as it is: truncated at every offset; the exhaustive sweep runs on the
		// softened value (same shape, benign contents; see soften.go)
		if len(b) <= 1024 {
			sweep(b, sweepSpec{Trunc: true}, r, func(in []byte, m mut) { wk.dcExec(codec, cs.Type, base, dests, in, m, own) })
		}
		ctr := 0
		if sb, err := cqlref.Serialize(cs.Type, softenCQL(cs.Type, cs.Value, &ctr), cs.Version); err == nil && sb != nil {
			b = sb
			wk.dcExec(codec, cs.Type, base, dests, b, mut{Class: mcValid, W: 1}, dcVersions) // also the other collection formats
		} else {
			wk.counters["generator/softened-value-not-serializable"]++
		}
		// quick tier: a PRNG sample of (offset, width, value) triples instead of all of them: a CQL
		// value is lengths all the way down, and a changed length makes the decoder read the low byte
		// of a later length as the high byte of the next one (a 256 MiB request) about ten times per
		// value; each such request costs a second or a worker
		sp := sweepSpec{Fields: true, Trunc: true}
		if !wk.thorough {
			sp = sweepSpec{FieldSample: 120, Trunc: len(b) <= 1024}
		} else if len(b) > 48 {
			sp = sweepSpec{FieldSample: 1200, Trunc: len(b) <= 1024} // thorough: exhaustive for values up to 48 bytes
		}
		sweep(b, sp, r, func(in []byte, m mut) { wk.dcExec(codec, cs.Type, base, dests, in, m, own) })
		flips := 64
		if !wk.thorough {
			flips = 16
		}
		sweep(b, sweepSpec{Flips: flips}, r, func(in []byte, m mut) { wk.dcExec(codec, cs.Type, base, dests, in, m, dcVersions) })
		if j == 0 {
			big24Sample(b, 0, 1, r, func(in []byte, m mut) { wk.dcExec(codec, cs.Type, base, dests, in, m, own) })
		}
		// random bytes (biased towards zero) where the first bytes are not an element count: any
		// non-zero byte among the first four of a list/set/map value is a count of 2^16..2^31
		if cs.Type.Kind != cqlref.List && cs.Type.Kind != cqlref.Set && cs.Type.Kind != cqlref.Map {
			for k := 0; k < 16; k++ {
				wk.dcExec(codec, cs.Type, base, dests, biasedBytes(r, r.Intn(65)), mut{Class: mcRandom, O: k, W: 1}, own)
			}
		} else {
			for k := 0; k < 16; k++ {
				in := biasedBytes(r, 4+r.Intn(61))
				in[0], in[1], in[2] = 0, 0, 0 // count 0..255 (v3+) / 0, then whatever follows
				wk.dcExec(codec, cs.Type, base, dests, in, mut{Class: mcRandom, O: k, W: 2}, own)
			}
		}
		if j == 0 && cs.Type.Kind != cqlref.List && cs.Type.Kind != cqlref.Set && cs.Type.Kind != cqlref.Map {
			// uniform random bytes only where the first four bytes are not an element count
			wk.dcExec(codec, cs.Type, base, dests, r.Bytes(r.Intn(65)), mut{Class: mcRandom, O: 99}, own)
		}
	}
}

// dcMismatch: destination-type mismatch matrix: the valid bytes of case A decoded with the codec
// of case B (every ordered pair of a pool of random container cases and scalar-table cases) into
// *interface{} and B's universal representation.
// scalarMatrix: every scalar codec x every documented Go representation of the kind (plain and
// through a pointer) x short inputs of the natural lengths in five patterns (zeros, ones, NaN-like
// 7ff8..01, sign bit only, biased random).
func (wk *worker) scalarMatrix() {
	r := mon.NewRand(wk.seed, utag(tagMis, 0xFFFF, 0))
	var inputs [][]byte
	for _, n := range []int{0, 1, 2, 3, 4, 7, 8, 9, 12, 16, 17, 20} {
		z := make([]byte, n)
		f := bytes.Repeat([]byte{0xFF}, n)
		nan := make([]byte, n)
		sign := make([]byte, n)
		if n > 0 {
			nan[0], nan[n-1], sign[0] = 0x7F, 0x01, 0x80
		}
		if n > 1 {
			nan[1] = 0xF8
		}
		inputs = append(inputs, z, f, nan, sign, biasedBytes(r, n))
	}
	for _, k := range cqlref.ScalarKinds() {
		t := cqlref.Scalar(k)
		if k == cqlref.Custom {
			t = cqlref.NewCustom("c.C")
		}
		var codec datacodec.Codec
		if !safely(func() {
			var err error
			if codec, _, err = cqlgen.Codec(t); err != nil {
				panic(err)
			}
		}) {
			continue
		}
		var dests []dcDest
		for _, base := range cqlgen.ScalarReprs(k) {
			for _, rep := range []*cqlgen.Repr{base, cqlgen.Ptr(base)} {
				rep := rep
				if safely(func() { cqlgen.TopDest(rep) }) {
					dests = append(dests, dcDest{name: "scalar-table:" + rep.String(), mk: func() interface{} { d, _, _ := cqlgen.TopDest(rep); return d }})
				}
			}
		}
		dests = append(dests, dcDest{name: "*interface{}", mk: func() interface{} { return new(interface{}) }})
		for i, in := range inputs {
			wk.dcExec(codec, t, "scalar-matrix/"+k.String(), dests, in, mut{Class: mcSpecial, O: i}, dcVersions[1:2])
		}
	}
}

// keyMatrix: maps whose key type is each of the type families (every scalar kind, custom, list, set,
// map, tuple, udt), alone and as the element of a list / a set / the value of a map / a tuple field,
// decoded into the untyped destination *interface{} (where the codec has to find a Go type for the key
// by itself, or refuse) and into the universal representation: NULL, the empty map, one and two entries
// of zero-length keys and values, in every collection format.
func (wk *worker) keyMatrix() {
	var keys []*cqlref.Type
	for _, k := range cqlref.ScalarKinds() {
		if k == cqlref.Custom {
			keys = append(keys, cqlref.NewCustom("c.C"))
		} else {
			keys = append(keys, cqlref.Scalar(k))
		}
	}
	i32, txt := cqlref.Scalar(cqlref.Int), cqlref.Scalar(cqlref.Text)
	keys = append(keys, cqlref.NewList(i32), cqlref.NewSet(txt), cqlref.NewMap(i32, txt), cqlref.NewTuple(i32, txt),
		cqlref.NewUDT("ks", "u", []string{"a", "b"}, []*cqlref.Type{i32, txt}),
		cqlref.NewMap(cqlref.Scalar(cqlref.Blob), i32), cqlref.NewList(cqlref.NewMap(i32, i32)))
	inputs := [][]byte{nil, {}, {0, 0, 0, 0}, {0, 0}, {0, 0, 0, 1, 0, 0, 0, 0, 0, 0, 0, 0}, {0, 1, 0, 0, 0, 0},
		{0, 0, 0, 1, 0xFF, 0xFF, 0xFF, 0xFF, 0xFF, 0xFF, 0xFF, 0xFF}, {0, 0, 0, 2, 0, 0, 0, 0, 0, 0, 0, 0, 0, 0, 0, 0, 0, 0, 0, 0},
		{0, 0, 0, 1, 0, 0, 0, 4, 0, 0, 0, 0, 0, 0, 0, 4, 0, 0, 0, 0}, {0, 0, 0, 1, 0, 0, 0, 12, 0, 0, 0, 1, 0, 0, 0, 0, 0, 0, 0, 0}}
	for ki, key := range keys {
		m := cqlref.NewMap(key, i32)
		for wi, t := range []*cqlref.Type{m, cqlref.NewList(m), cqlref.NewSet(m), cqlref.NewMap(i32, m), cqlref.NewTuple(i32, m)} {
			t := t
			var codec datacodec.Codec
			if !safely(func() {
				var err error
				if codec, _, err = cqlgen.Codec(t); err != nil {
					panic(err)
				}
			}) {
				wk.counters["generator/case-not-constructible"]++
				continue
			}
			dests := []dcDest{{name: "*interface{}", mk: func() interface{} { return new(interface{}) }}}
			if safely(func() { cqlgen.TopDest(cqlgen.Universal(t)) }) {
				dests = append(dests, dcDest{name: "universal", mk: func() interface{} { d, _, _ := cqlgen.TopDest(cqlgen.Universal(t)); return d }})
			}
			for i, in := range inputs {
				wk.dcExec(codec, t, "key-matrix/"+key.Shallow(), dests, in, mut{Class: mcSpecial, O: ki*100 + wi*10 + i}, dcVersions)
			}
		}
	}
}

func (wk *worker) dcMismatch(block int) {
	if block == 0 {
		wk.scalarMatrix()
		wk.keyMatrix()
	}
	pl := wk.plan()
	p := wk.dcplan()
	type ent struct {
		cs    cqlgen.Case
		b     []byte
		codec datacodec.Codec
		dests []dcDest
	}
	var pool []ent
	nf := p.NumFixed()
	for j := 0; j < pl.mismatchPool; j++ {
		var idx int
		if j%4 == 3 && nf > 0 {
			idx = ((block*pl.mismatchPool + j) * 101) % nf
		} else {
			idx = nf + (1<<20+block*pl.mismatchPool+j)*cqlgen.GroupSize
		}
		cs, b, codec, ok := wk.dcCase(idx)
		if !ok || b == nil {
			continue
		}
		ctr := 0
		if sb, err := cqlref.Serialize(cs.Type, softenCQL(cs.Type, cs.Value, &ctr), cs.Version); err == nil && sb != nil {
			b = sb // softened contents: text read as a collection count must stay small
		}
		all := wk.destsFor(cs.Type, nil)
		pool = append(pool, ent{cs, b, codec, all})
	}
	for ai := range pool {
		for bi := range pool {
			a, b := &pool[ai], &pool[bi]
			cls := mcCross
			if ai == bi {
				cls = mcValid
			}
			wk.dcExec(b.codec, b.cs.Type, b.cs.Type.Shallow()+"<-"+a.cs.Type.Shallow(), b.dests, a.b,
				mut{Class: cls, O: ai, W: bi}, []primitive.ProtocolVersion{cqlgen.LibVersion(b.cs.Version)})
		}
	}
}
