package main

import (
	"math/big"
	"reflect"

	"verif/internal/cqlref"
	"verif/internal/mon"
	"verif/internal/ref"
)

// Softening. A mutated length shifts everything behind it, so the decoder goes on reading lengths
// and counts from bytes that were text or blob content: "SELE" read as an [int] is a 1.4 GiB
// allocation. Such reads are the resource class, not what the exhaustive sweep is after, and each
// costs seconds. The bases of the exhaustive sweeps are therefore "softened": same structure, same
// lengths and counts, every content byte (strings that are not protocol keywords, blobs, ids,
// uuids, addresses, 64-bit timestamps, free 32-bit values) replaced by a small byte, so that a
// misplaced read yields a small number. The unsoftened encodings are still decoded as they are
// and truncated at every offset (truncation shifts nothing).

var keywords = map[string]bool{
	"TOPOLOGY_CHANGE": true, "STATUS_CHANGE": true, "SCHEMA_CHANGE": true, "NEW_NODE": true, "REMOVED_NODE": true,
	"MOVED_NODE": true, "UP": true, "DOWN": true, "CREATED": true, "UPDATED": true, "DROPPED": true, "KEYSPACE": true,
	"TABLE": true, "TYPE": true, "FUNCTION": true, "AGGREGATE": true, "SIMPLE": true, "BATCH": true,
	"UNLOGGED_BATCH": true, "COUNTER": true, "BATCH_LOG": true, "CAS": true, "VIEW": true, "CDC": true,
}

var softInt32Fields = map[string]bool{"Port": true, "PageSize": true, "NowInSeconds": true, "MaxPages": true,
	"PagesPerSecond": true, "NextPages": true, "Required": true, "Alive": true, "Received": true, "BlockFor": true,
	"ContinuousPage": true}

// lowBytes: content is all zero bytes. Any non-zero content byte that a shifted 4-byte read finds in
// its most significant position is a count of 2^24 or more (measured: the main source of
// out-of-memory worker deaths when contents were merely "small").
func lowBytes(n int, r *mon.Rand) []byte { return make([]byte, n) }

func softenFrame(f *ref.Frame, r *mon.Rand) {
	if f.TracingID != nil {
		copy(f.TracingID[:], lowBytes(16, r))
	}
	if f.Warnings != nil {
		softenValue(reflect.ValueOf(f.Warnings), "", r)
	}
	if f.Payload != nil {
		softenValue(reflect.ValueOf(f.Payload), "", r)
	}
	softenValue(reflect.ValueOf(f.Msg), "", r)
}

func softenValue(v reflect.Value, field string, r *mon.Rand) {
	switch v.Kind() {
	case reflect.Ptr, reflect.Interface:
		if !v.IsNil() {
			softenValue(v.Elem(), field, r)
		}
	case reflect.Struct:
		for i := 0; i < v.NumField(); i++ {
			softenValue(v.Field(i), v.Type().Field(i).Name, r)
		}
	case reflect.String:
		if v.CanSet() && !keywords[v.String()] {
			v.SetString(string(lowBytes(v.Len(), r)))
		}
	case reflect.Slice:
		if v.Type().Elem().Kind() == reflect.Uint8 {
			if v.CanSet() && !v.IsNil() {
				v.SetBytes(lowBytes(v.Len(), r))
			}
			return
		}
		for i := 0; i < v.Len(); i++ {
			softenValue(v.Index(i), field, r)
		}
	case reflect.Array:
		for i := 0; i < v.Len(); i++ {
			softenValue(v.Index(i), field, r)
		}
	case reflect.Uint8:
		// single bytes are codes (batch type, ...): kept
	case reflect.Int64:
		if v.CanSet() {
			v.SetInt(0)
		}
	case reflect.Int32:
		if v.CanSet() && softInt32Fields[field] {
			v.SetInt(0)
		}
	}
}

// softenCQL returns a copy of v with benign scalar contents (small integers, small bit patterns,
// content bytes 0..2 with a distinguishing last byte), keeping NULLs, empties, lengths and counts.
func softenCQL(t *cqlref.Type, v *cqlref.Value, ctr *int) *cqlref.Value {
	if v == nil {
		return nil
	}
	if v.Null || v.Empty {
		c := *v
		return &c
	}
	*ctr++
	n := int64(0) // all scalar contents zero: see lowBytes
	out := &cqlref.Value{}
	switch t.Kind {
	case cqlref.List, cqlref.Set, cqlref.Map, cqlref.Tuple, cqlref.UDT:
		for i, e := range v.Elems {
			var et *cqlref.Type
			switch t.Kind {
			case cqlref.List, cqlref.Set:
				et = t.Elems[0]
			case cqlref.Map:
				et = t.Elems[i%2]
			default:
				if i >= len(t.Elems) {
					return v
				}
				et = t.Elems[i]
			}
			out.Elems = append(out.Elems, softenCQL(et, e, ctr))
		}
		if v.Elems != nil && out.Elems == nil {
			out.Elems = []*cqlref.Value{}
		}
	case cqlref.Bigint, cqlref.Counter, cqlref.Int, cqlref.Smallint, cqlref.Tinyint, cqlref.Varint:
		out.Int = big.NewInt(n)
	case cqlref.Decimal:
		out.Int = big.NewInt(n)
		out.Scale = int32(n % 3)
	case cqlref.Float, cqlref.Double:
		out.Bits = uint64(n)
	case cqlref.Boolean:
		out.Bool = v.Bool
	case cqlref.Date:
		out.U32 = uint32(n)
	case cqlref.Time, cqlref.Timestamp:
		out.I64 = n
	case cqlref.Duration:
		out.Months, out.Days, out.Nanos = n%3, n%5, n
	default: // ascii text blob custom uuid timeuuid inet
		b := make([]byte, len(v.Bytes))
		out.Bytes = b
		if v.Bytes == nil {
			out.Bytes = nil
		}
	}
	return out
}
