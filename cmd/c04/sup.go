package main

import (
	"encoding/json"
	"fmt"
	"os"
	"os/exec"
	"path/filepath"
	"regexp"
	"sort"
	"strconv"
	"strings"
	"sync"
	"syscall"
	"time"

	"verif/internal/mon"
)

// Supervisor side of M4: workers are the same binary re-executed under `ulimit -v`, stderr to a
// file; every worker exit is classified; the code under test never runs in this process.

type sup struct {
	c    *mon.Ctx
	dir  string
	self string

	mu        sync.Mutex
	deaths    map[string]int
	oomPerEP  map[string]int
	resources []map[string]interface{}
	bigAllocs []map[string]interface{}
	restarts  int
	truncated bool
	units     []unit
}

// Address-space caps (ulimit -v, KiB). A Go process maps about 1.2 GiB before it allocates anything;
// 2.5 GiB leaves room for single allocations up to roughly 1 GiB (less when the heap is fragmented); anything
// larger ends the worker at once with Go's "fatal error: out of memory" (the resource class). On this
// (virtualised, shared) box touching a fresh page was measured at 0.1..0.6 ms under load: one hostile
// 2 GiB length costs a minute if it is served, against about 2 s for a death, an exact resume and the
// warm-up of the new process. The task's upper bound of 8 GiB per worker is never approached.
var (
	mainCapKB = 5 << 19
	resCapKB  = 5 << 19
)

var (
	batchBudget = 60 * time.Second // watchdog: no progress of a worker for this long (p99 of a case is microseconds)
	soloFactor  = 5
)

func (s *sup) tierArgs() []string {
	return []string{"--tier", s.c.Tier, "--seed", strconv.FormatInt(s.c.Seed, 10), "worker"}
}

func (s *sup) command(capKB int, stderr string, args ...string) (*exec.Cmd, *os.File, error) {
	all := append([]string{"-c", fmt.Sprintf("ulimit -v %d; exec \"$0\" \"$@\"", capKB), s.self}, args...)
	cmd := exec.Command("bash", all...)
	env := []string{}
	for _, e := range os.Environ() {
		if strings.HasPrefix(e, "VERIF_WORKER_OUT=") || strings.HasPrefix(e, "GOMAXPROCS=") || strings.HasPrefix(e, "GOTRACEBACK=") {
			continue
		}
		env = append(env, e)
	}
	cmd.Env = append(env, "GOMAXPROCS=2", "GOTRACEBACK=all")
	f, err := os.Create(stderr)
	if err != nil {
		return nil, nil, err
	}
	cmd.Stderr = f
	cmd.Stdout = f
	return cmd, f, nil
}

func readProgress(path string) (unit int, k int64, ok bool) {
	unit, k, _, ok = readProgressEP(path)
	return
}

// inExec reports whether the worker is inside an execution of the code under test (last byte of the
// progress file).
func inExec(path string) bool {
	f, err := os.Open(path)
	if err != nil {
		return false
	}
	defer f.Close()
	var b [1]byte
	if n, _ := f.ReadAt(b[:], progLen-1); n != 1 {
		return false
	}
	return b[0] == 1
}

func readProgressEP(path string) (unit int, k int64, ep string, ok bool) {
	f, err := os.Open(path)
	if err != nil {
		return 0, 0, "", false
	}
	defer f.Close()
	var b [progLen]byte
	if n, _ := f.ReadAt(b[:], 0); n < 16 {
		return 0, 0, "", false
	}
	for i := 16; i < progLen-1 && b[i] != 0; i++ {
		ep += string(rune(b[i]))
	}
	u := uint64(0)
	kk := uint64(0)
	for i := 7; i >= 0; i-- {
		u = u<<8 | uint64(b[i])
		kk = kk<<8 | uint64(b[8+i])
	}
	return int(u), int64(kk), ep, true
}

// rssKB returns VmRSS of a process in KiB (-1 if unknown).
func rssKB(pid int) int64 {
	b, err := os.ReadFile(fmt.Sprintf("/proc/%d/status", pid))
	if err != nil {
		return -1
	}
	for _, l := range strings.Split(string(b), "\n") {
		if strings.HasPrefix(l, "VmRSS:") {
			f := strings.Fields(l)
			if len(f) >= 2 {
				v, _ := strconv.ParseInt(f[1], 10, 64)
				return v
			}
		}
	}
	return -1
}

// cpuTicks returns utime+stime of a process from /proc/<pid>/stat.
func cpuTicks(pid int) int64 {
	b, err := os.ReadFile(fmt.Sprintf("/proc/%d/stat", pid))
	if err != nil {
		return -1
	}
	s := string(b)
	i := strings.LastIndex(s, ")")
	if i < 0 {
		return -1
	}
	f := strings.Fields(s[i+1:])
	if len(f) < 13 {
		return -1
	}
	ut, _ := strconv.ParseInt(f[11], 10, 64)
	st, _ := strconv.ParseInt(f[12], 10, 64)
	return ut + st
}

type exitInfo struct {
	class    string // clean | oom | killed | watchdog | harness | fatal/<class>
	stderr   string // head of the stderr file
	cpuGrew  bool   // watchdog only: CPU time still accumulating during the last third of the budget
	memGrew  bool   // watchdog only: resident memory grew by more than 64 MiB during the last third of the budget
	blocked  bool   // watchdog only: the goroutine running the case was not runnable in the SIGQUIT dump
	exitCode int
}

var reFatal = regexp.MustCompile(`(?m)^(fatal error|panic): (.*)$`)

func classifyStderr(text string, ws syscall.WaitStatus, exited bool) string {
	oom := strings.Contains(text, "fatal error: out of memory") || strings.Contains(text, "cannot allocate memory") ||
		strings.Contains(text, "runtime: out of memory") || strings.Contains(text, "out of memory allocating") ||
		strings.Contains(text, "fatal error: runtime: cannot allocate") || strings.Contains(text, "errno=12")
	if strings.Contains(text, "HARNESS panic") {
		return "harness"
	}
	if oom {
		return "oom"
	}
	if strings.Contains(text, "stack overflow") || strings.Contains(text, "goroutine stack exceeds") {
		return "fatal/stack-overflow"
	}
	if m := reFatal.FindStringSubmatch(text); m != nil {
		return "fatal/" + panicClass(m[2])
	}
	if strings.Contains(text, "HARNESS") || strings.Contains(text, "worker: ") || strings.Contains(text, "snapshot:") {
		return "harness"
	}
	if !exited && ws.Signaled() {
		if ws.Signal() == syscall.SIGKILL {
			return "killed"
		}
		return "fatal/signal-" + ws.Signal().String()
	}
	if exited && (ws.ExitStatus() == 3 || ws.ExitStatus() == 4) {
		return "harness"
	}
	return "fatal/exit-" + strconv.Itoa(ws.ExitStatus())
}

func head(path string, n int) string {
	b, err := os.ReadFile(path)
	if err != nil {
		return ""
	}
	if len(b) > n {
		b = b[:n]
	}
	return string(b)
}

var reGoroutine = regexp.MustCompile(`(?m)^goroutine \d+ \[([^\]]*)\]:`)

// caseGoroutineBlocked looks at a SIGQUIT dump: the goroutine whose stack contains worker.guard.
func caseGoroutineBlocked(dump string) bool {
	parts := strings.Split(dump, "\n\n")
	for _, p := range parts {
		if !strings.Contains(p, "main.(*worker).guard") {
			continue
		}
		if m := reGoroutine.FindStringSubmatch(p); m != nil {
			st := m[1]
			return !(strings.HasPrefix(st, "running") || strings.HasPrefix(st, "runnable") || strings.HasPrefix(st, "syscall"))
		}
	}
	return false
}

// run starts a worker and waits for it under the watchdog.
func (s *sup) run(capKB int, stderr, progress string, budget time.Duration, args ...string) exitInfo {
	cmd, f, err := s.command(capKB, stderr, args...)
	if err != nil {
		return exitInfo{class: "harness", stderr: err.Error()}
	}
	defer f.Close()
	if err := cmd.Start(); err != nil {
		return exitInfo{class: "harness", stderr: err.Error()}
	}
	t0 := time.Now()
	done := make(chan error, 1)
	go func() { done <- cmd.Wait() }()
	tick := time.NewTicker(250 * time.Millisecond)
	defer tick.Stop()
	lastU, lastK := -1, int64(-1)
	lastChange := time.Now()
	outsideSince := time.Now()
	var cpuAtTwoThirds int64 = -2
	var rssAtTwoThirds int64 = -1
	for {
		select {
		case <-done:
			ws, _ := cmd.ProcessState.Sys().(syscall.WaitStatus)
			cpu := int64((cmd.ProcessState.UserTime() + cmd.ProcessState.SystemTime()) / time.Millisecond)
			kind := "worker"
			for _, a := range args {
				if a == "--solo" {
					kind = "solo"
				}
			}
			if cmd.ProcessState.Success() {
				s.c.Count("process_cpu_ms/"+kind+"/exited-cleanly", cpu)
				return exitInfo{class: "clean"}
			}
			s.c.Count("process_cpu_ms/"+kind+"/died", cpu)
			s.c.Count("process_wall_ms/"+kind+"/died", int64(time.Since(t0)/time.Millisecond))
			text := head(stderr, 1<<20)
			return exitInfo{class: classifyStderr(text, ws, ws.Exited()), stderr: clip(text, 6000), exitCode: ws.ExitStatus()}
		case <-tick.C:
			in := inExec(progress) // read before the position: a stale position with a fresh flag must not look stuck
			u, k, ok := readProgress(progress)
			if !in {
				// generating inputs (reference encoders, reflect type construction) or between executions,
				// not inside the code under test: the watchdog's clock does not run. A worker that stays
				// outside for 20 budgets is a harness problem.
				lastChange = time.Now()
				cpuAtTwoThirds = -2
				if ok && (u != lastU || k != lastK) {
					lastU, lastK = u, k
					outsideSince = time.Now()
				} else if time.Since(outsideSince) > 20*batchBudget {
					cmd.Process.Kill()
					<-done
					return exitInfo{class: "harness", stderr: "worker made no progress outside the code under test for " + (20 * batchBudget).String()}
				}
				continue
			}
			outsideSince = time.Now()
			if ok && (u != lastU || k != lastK) {
				lastU, lastK = u, k
				lastChange = time.Now()
				cpuAtTwoThirds = -2
				continue
			}
			idle := time.Since(lastChange)
			if idle > budget*2/3 && cpuAtTwoThirds == -2 {
				cpuAtTwoThirds = cpuTicks(cmd.Process.Pid)
				rssAtTwoThirds = rssKB(cmd.Process.Pid)
			}
			if idle > budget {
				cpuEnd := cpuTicks(cmd.Process.Pid)
				rssEnd := rssKB(cmd.Process.Pid)
				cmd.Process.Signal(syscall.SIGQUIT)
				select {
				case <-done:
				case <-time.After(10 * time.Second):
					cmd.Process.Kill()
					<-done
				}
				text := head(stderr, 4<<20)
				return exitInfo{class: "watchdog", stderr: clip(text, 6000), cpuGrew: cpuAtTwoThirds >= 0 && cpuEnd > cpuAtTwoThirds+20,
					memGrew: rssAtTwoThirds >= 0 && rssEnd > rssAtTwoThirds+64<<10,
					blocked: caseGoroutineBlocked(text)}
			}
		}
	}
}

func firstLines(s string, n int) string {
	l := strings.SplitN(s, "\n", n+1)
	if len(l) > n {
		l = l[:n]
	}
	return strings.Join(l, " | ")
}

func clip(s string, n int) string {
	if len(s) > n {
		return s[:n] + fmt.Sprintf("...(%d bytes)", len(s))
	}
	return s
}

// solo runs exactly one case alone in a fresh worker. The descriptor of the case (entry point,
// input) is written by the worker before it executes the case.
func (s *sup) solo(res bool, u int, k int64, noexec bool, budget time.Duration, tag string) (exitInfo, map[string]interface{}, string) {
	base := filepath.Join(s.dir, fmt.Sprintf("solo-%s-%d-%d", tag, u, k))
	args := append(s.tierArgs(), "--solo", fmt.Sprintf("%d:%d", u, k), "--desc", base+".desc", "--progress", base+".prog", "--out", base+".json")
	if res {
		args = append(args, "--res")
	}
	if noexec {
		args = append(args, "--noexec")
	}
	capKB := mainCapKB
	if res {
		capKB = resCapKB
	}
	ei := s.run(capKB, base+".err", base+".prog", budget, args...)
	var desc map[string]interface{}
	if b, err := os.ReadFile(base + ".desc"); err == nil {
		json.Unmarshal(b, &desc)
	}
	return ei, desc, base + ".json"
}

func epOfDesc(d map[string]interface{}) string {
	if d == nil {
		return "unknown-entry-point"
	}
	if s, ok := d["entry_point"].(string); ok {
		return s
	}
	return "unknown-entry-point"
}

func (s *sup) domainOf(res bool, u int) string {
	if res {
		return domNames[dResource]
	}
	if u >= 0 && u < len(s.units) {
		return domNames[s.units[u].dom]
	}
	return "?"
}

func (s *sup) noteDeath(class string) {
	s.mu.Lock()
	s.deaths[class]++
	s.mu.Unlock()
}

// handleDeath classifies the death of a worker at case (u, k) and returns true if the case must be
// skipped on restart.
func (s *sup) handleDeath(res bool, ei exitInfo, u int, k int64, ep string) {
	c := s.c
	switch {
	case ei.class == "oom" || ei.class == "killed":
		s.noteDeath("out-of-memory")
		if ep == "" {
			ep = "unknown-entry-point"
		}
		// the input is regenerated (not executed) for the first few deaths per entry point
		s.mu.Lock()
		s.oomPerEP[ep]++
		want := s.oomPerEP[ep] <= 3 && len(s.resources) < 120
		s.mu.Unlock()
		if want {
			_, desc, _ := s.solo(res, u, k, true, batchBudget, "describe")
			if desc == nil {
				desc = map[string]interface{}{"unit": u, "k": k, "entry_point": ep}
			}
			desc["outcome"] = "worker died: " + ei.class
			desc["stderr_head"] = clip(firstLines(ei.stderr, 2), 300)
			s.mu.Lock()
			s.resources = append(s.resources, desc)
			s.mu.Unlock()
		}
		c.Count("resource_class/out_of_memory/"+ep, 1)
		c.Count("resource_class/out_of_memory_by_domain/"+s.domainOf(res, u), 1)
		c.Inconclusive("resource/out-of-memory-under-address-space-cap")
	case ei.class == "watchdog":
		s.noteDeath("watchdog")
		e2, desc, out := s.solo(res, u, k, false, time.Duration(soloFactor)*batchBudget, "watchdog")
		switch {
		case e2.class == "clean":
			c.Merge(out)
			c.Count("watchdog_then_completed_alone", 1)
		case e2.class == "watchdog" && e2.memGrew:
			// no return within the budget, but resident memory is still growing: the call is on its way
			// to memory exhaustion (e.g. error messages of 32768 nested type descriptors, each wrapping
			// the previous one: quadratic memory), which is the resource class, not non-termination
			if desc == nil {
				desc = map[string]interface{}{"unit": u, "k": k, "entry_point": ep}
			}
			desc["outcome"] = fmt.Sprintf("no return within %.0f s alone, resident memory still growing", (time.Duration(soloFactor) * batchBudget).Seconds())
			delete(desc, "input_hex_full")
			s.mu.Lock()
			s.resources = append(s.resources, desc)
			s.mu.Unlock()
			c.Count("resource_class/slow_with_growing_memory/"+epOfDesc(desc), 1)
			c.Inconclusive("resource/no-return-within-budget-while-memory-grows")
		case e2.class == "watchdog" && (e2.cpuGrew || e2.blocked):
			if desc == nil {
				desc = map[string]interface{}{"unit": u, "k": k}
			}
			desc["cpu_time_accumulating"] = e2.cpuGrew
			desc["case_goroutine_blocked"] = e2.blocked
			desc["budget_s"] = (time.Duration(soloFactor) * batchBudget).Seconds()
			desc["goroutine_dump_head"] = e2.stderr
			c.Violation("hang/"+epOfDesc(desc), desc)
		case e2.class == "oom" || e2.class == "killed":
			c.Inconclusive("resource/out-of-memory-under-address-space-cap")
		default:
			c.Inconclusive("watchdog/not-reproduced-as-hang(" + e2.class + ")")
		}
	case strings.HasPrefix(ei.class, "fatal/"):
		s.noteDeath(ei.class)
		e2, desc, out := s.solo(res, u, k, false, time.Duration(soloFactor)*batchBudget, "fatal")
		switch {
		case strings.HasPrefix(e2.class, "fatal/"):
			if desc == nil {
				desc = map[string]interface{}{"unit": u, "k": k}
			}
			desc["fatal"] = e2.class
			desc["stderr_head"] = e2.stderr
			c.Violation("fatal/"+epOfDesc(desc)+"/"+strings.TrimPrefix(e2.class, "fatal/"), desc)
		case e2.class == "clean":
			c.Merge(out)
			c.Inconclusive("worker-death-not-reproduced-alone(" + ei.class + ")")
		case e2.class == "oom" || e2.class == "killed":
			c.Inconclusive("resource/out-of-memory-under-address-space-cap")
		default:
			c.Inconclusive("worker-death-not-reproduced-alone(" + ei.class + "->" + e2.class + ")")
		}
	}
}

// mergeSnapshot folds the last snapshot of a worker instance into the Ctx and returns its resume point.
func (s *sup) mergeSnapshot(path string, fallback int, fallbackK int64) (resume int, resumeK int64, done bool) {
	b, err := os.ReadFile(path)
	if err != nil {
		return fallback, fallbackK, false
	}
	var sn struct {
		Resume    int                      `json:"resume"`
		ResumeK   int64                    `json:"resume_k"`
		Done      bool                     `json:"done"`
		BigAllocs []map[string]interface{} `json:"big_allocs"`
	}
	if json.Unmarshal(b, &sn) != nil || !s.c.Merge(path) {
		return fallback, fallbackK, false
	}
	s.mu.Lock()
	for _, e := range sn.BigAllocs {
		if len(s.bigAllocs) < 80 {
			s.bigAllocs = append(s.bigAllocs, e)
		}
	}
	s.mu.Unlock()
	return sn.Resume, sn.ResumeK, sn.Done
}

// runSlot keeps one long-lived worker alive until the shared unit counter is exhausted: after every
// death the case is classified, and a new worker first finishes the unit the dead one was in (from
// the dead worker's last snapshot, with the deadly case skipped), then goes on pulling units.
func (s *sup) runSlot(slot int, res bool) {
	name := "w"
	capKB := mainCapKB
	next := filepath.Join(s.dir, "next")
	if res {
		name = "res"
		capKB = resCapKB
		next = filepath.Join(s.dir, "next-res")
	}
	first := ""
	skips := map[int][]string{}
	prog := filepath.Join(s.dir, fmt.Sprintf("%s-%d.prog", name, slot))
	for inst := 0; ; inst++ {
		out := filepath.Join(s.dir, fmt.Sprintf("%s-%d-%d.json", name, slot, inst))
		errf := filepath.Join(s.dir, fmt.Sprintf("%s-%d-%d.err", name, slot, inst))
		os.Remove(prog)
		args := append(s.tierArgs(), "--next", next, "--progress", prog, "--out", out)
		if first != "" {
			var u int
			fmt.Sscanf(first, "%d:", &u)
			args = append(args, "--first", first, "--skip", strings.Join(skips[u], ","))
		}
		if res {
			args = append(args, "--res")
		}
		ei := s.run(capKB, errf, prog, batchBudget, args...)
		su, sk, done := s.mergeSnapshot(out, -1, 0)
		os.Remove(out)
		if ei.class == "clean" && done {
			os.Remove(errf)
			return
		}
		if ei.class == "harness" || ei.class == "clean" {
			s.c.Fatal("worker %s-%d failed outside the code under test (%s): %s", name, slot, ei.class, clip(ei.stderr, 2000))
		}
		u, k, ep, ok := readProgressEP(prog)
		if !ok || k == 0 {
			s.c.Fatal("worker %s-%d died (%s) before its first case: %s", name, slot, ei.class, clip(ei.stderr, 2000))
		}
		s.handleDeath(res, ei, u, k, ep)
		os.Remove(errf)
		skips[u] = append(skips[u], fmt.Sprintf("%d:%d", u, k))
		if su == u {
			first = fmt.Sprintf("%d:%d", u, sk)
		} else {
			first = fmt.Sprintf("%d:0", u)
		}
		s.mu.Lock()
		s.restarts++
		trunc := s.truncated
		s.mu.Unlock()
		if trunc {
			return // past the soft deadline: the rest of the unit is not run
		}
		if len(skips[u]) >= 300 {
			s.c.Inconclusive("unit-abandoned-after-300-worker-deaths")
			s.c.Note("unit %d abandoned after 300 worker deaths; last at case %d (%s, %s)", u, k, ep, ei.class)
			first = ""
		}
	}
}

func supervise(c *mon.Ctx) {
	dir, err := os.MkdirTemp("", "c04-")
	if err != nil {
		c.Fatal("tmp: %v", err)
	}
	defer os.RemoveAll(dir)
	s := &sup{c: c, dir: dir, self: mon.Self(), deaths: map[string]int{}, oomPerEP: map[string]int{}}
	if v, err := strconv.Atoi(os.Getenv("C04_CAP_KB")); err == nil && v > 0 {
		mainCapKB, resCapKB = v, v
	}
	if v := os.Getenv("C04_WATCHDOG_S"); v != "" {
		if n, err := strconv.Atoi(v); err == nil && n > 0 {
			batchBudget = time.Duration(n) * time.Second
		}
	}
	units := buildUnits(c.Seed, c.Thorough())
	s.units = units
	resUnits := buildResUnits(c.Seed, c.Thorough())
	nw := 16
	if v, err := strconv.Atoi(os.Getenv("C04_WORKERS")); err == nil && v > 0 {
		nw = v
	}
	os.WriteFile(filepath.Join(dir, "next"), make([]byte, 8), 0o644)
	os.WriteFile(filepath.Join(dir, "next-res"), make([]byte, 8), 0o644)
	// Soft deadline at 3/4 of the driver's wall-clock limit: dispatching stops (the shared counters are
	// moved past the end), workers finish their current unit and report. Decides nothing: the run is
	// then marked as not having completed its case list.
	limit := 20 * time.Minute
	if c.Thorough() {
		limit = 4 * time.Hour
	}
	if v := os.Getenv("VERIF_MAX_WALL"); v != "" {
		if d, err := time.ParseDuration(v); err == nil {
			limit = d
		}
	}
	stopped := make(chan struct{})
	go func() {
		select {
		case <-time.After(limit * 3 / 4):
			s.mu.Lock()
			s.truncated = true
			s.mu.Unlock()
			for _, n := range []string{"next", "next-res"} {
				if f, err := os.OpenFile(filepath.Join(dir, n), os.O_RDWR, 0); err == nil {
					f.WriteAt([]byte{0, 0, 0, 0, 0, 0, 0, 0x40}, 0) // little-endian 2^62
					f.Close()
				}
			}
		case <-stopped:
		}
	}()
	var wg sync.WaitGroup
	wg.Add(1)
	go func() {
		defer wg.Done()
		s.runSlot(0, true) // the dedicated serialised resource worker
	}()
	mon.ParallelN(nw, nw, func(j int) { s.runSlot(j, false) })
	wg.Wait()
	close(stopped)
	if s.truncated {
		c.Inconclusive("case-list-not-completed-within-three-quarters-of-the-wall-clock-limit")
		c.Note("dispatching stopped after %v; units not started were not run", limit*3/4)
	}

	perDom := map[string]int{}
	for _, u := range units {
		perDom[domNames[u.dom]]++
	}
	perDom[domNames[dResource]] = len(resUnits)
	c.Set("units_per_domain", perDom)
	c.Set("worker_processes", nw+1)
	c.Set("worker_restarts", s.restarts)
	c.Set("worker_deaths_by_class", s.deaths)
	sort.SliceStable(s.resources, func(a, b int) bool { return epOfDesc(s.resources[a]) < epOfDesc(s.resources[b]) })
	c.Set("resource_class_worker_deaths", s.resources)
	c.Set("allocations_over_32MiB_that_returned_samples", s.bigAllocs)
	c.Set("address_space_cap_KiB", map[string]int{"workers": mainCapKB, "resource_worker": resCapKB})
	c.Set("watchdog_s", batchBudget.Seconds())
}

var domNames = map[int]string{
	dFrameSweep: "frame-sweep", dFrameShapes: "frame-shapes", dFrameComp: "frame-compressed", dMsgCross: "message-cross",
	dType: "datatype", dPrim: "primitive", dSegment: "segment", dCompress: "decompressors", dRandom: "random",
	dLarge: "large-specials", dDatacodec: "datacodec", dDcMismatch: "datacodec-mismatch", dResource: "resource-table",
}
