package main

import (
	"encoding/binary"

	"verif/internal/mon"
)

// Mutation classes (evidence: executions per class).
const (
	mcValid      = iota // the unmutated valid encoding
	mcNeg               // field <- -1, -2
	mcSmall             // field <- 0, 1
	mcOffBy1            // field <- old-1, old+1
	mcBoundary          // field <- 2^7, 2^8-1, 2^15, 2^16-1
	mcBig24             // field <- 2^24
	mcHuge              // field <- 2^28, 2^31-1, -2^31 (resource worker only, PRNG sample of fields)
	mcTrunc             // truncation at an offset
	mcFlip              // PRNG bit flip
	mcSplice            // head of one valid encoding + tail of another
	mcRandom            // pure random bytes
	mcRandBody          // valid header / prefix followed by random bytes
	mcCross             // valid bytes of A fed to the decoder of B (other kind, version, codec, type)
	mcSpecial           // 64 KiB / 1 MiB special inputs
	mcCrcHeader         // segment header field mutated, CRC-24 recomputed
	mcCrcPayload        // segment payload mutated, CRC-32 recomputed
	mcPrefix            // hostile decompressed-length prefix behind a valid header
	mcBlock             // hostile compressed block behind a valid header / prefix
	mcCount
)

var mcNames = [mcCount]string{
	"valid", "field-neg", "field-0-1", "field-off-by-1", "field-boundary", "field-2^24-sample", "field-huge",
	"truncation", "bitflip", "splice", "random", "random-body", "cross", "special-large",
	"segment-header-crc-fixed", "segment-payload-crc-fixed", "compression-prefix", "compression-block",
}

// mut describes the mutation that produced the current input (for details / replay).
type mut struct {
	Class int
	O, W  int
	Val   int64
}

func getBE(b []byte, w int) uint32 {
	switch w {
	case 1:
		return uint32(b[0])
	case 2:
		return uint32(binary.BigEndian.Uint16(b))
	}
	return binary.BigEndian.Uint32(b)
}

func putBE(b []byte, w int, v uint32) {
	switch w {
	case 1:
		b[0] = byte(v)
	case 2:
		binary.BigEndian.PutUint16(b, uint16(v))
	default:
		binary.BigEndian.PutUint32(b, v)
	}
}

type fieldVal struct {
	v     int64
	class int
}

// fieldValues lists the values the big-endian field of width w (current value old) takes in the
// exhaustive sweep: -1, -2, 0, 1, old-1, old+1, 2^7, 2^8-1, 2^15, 2^16-1, restricted to those
// the width can hold (as a bit pattern) and different from old; duplicates removed.
func fieldValues(w int, old uint32, out []fieldVal) []fieldVal {
	out = out[:0]
	mask := uint32(0xFFFFFFFF)
	if w == 1 {
		mask = 0xFF
	} else if w == 2 {
		mask = 0xFFFF
	}
	add := func(v int64, class int) {
		p := uint32(v) & mask
		if p == old {
			return
		}
		for _, e := range out {
			if uint32(e.v)&mask == p {
				return
			}
		}
		out = append(out, fieldVal{v, class})
	}
	add(-1, mcNeg)
	add(-2, mcNeg)
	add(0, mcSmall)
	add(1, mcSmall)
	add(int64(old)-1, mcOffBy1)
	add(int64(old)+1, mcOffBy1)
	add(1<<7, mcBoundary)
	if w >= 2 {
		add(1<<8-1, mcBoundary)
		add(1<<15, mcBoundary)
	}
	if w == 4 {
		add(1<<16-1, mcBoundary)
	}
	return out
}

var hugeValues = []int64{1 << 28, 1<<31 - 1, -(1 << 31), 1 << 25, 1 << 30}

// makesHuge reports whether the mutation of cur[o:o+w] turned a length-like 4-byte window (one that
// holds 0..65535 or a negative number in the base) into a value in [2^17, 2^31). Such mutants are what the 2^24 sample and
// the resource table (2^25..2^31-1) are for; in the exhaustive sweep each would cost an allocation
// of 2 MiB..48 GiB wherever the window really is a length or count, so they are not generated there.
// This is scheduling, not judging: nothing is decided from it.
func makesHuge(base, cur []byte, o, w int) bool {
	n := len(base)
	lo := o - 3
	if lo < 0 {
		lo = 0
	}
	for p := lo; p < o+w && p+4 <= n; p++ {
		small := base[p] == 0 && base[p+1] == 0                                                  // 0..65535
		marker := base[p] == 0xFF && base[p+1] == 0xFF && base[p+2] == 0xFF && base[p+3] >= 0xF0 // -1, -2, ...: null / unset markers
		if (small || marker) && cur[p] < 0x80 && (cur[p] != 0 || cur[p+1] >= 0x02) {
			return true
		}
	}
	return false
}

// reroutedFlips counts bit flips replaced by a flip of another PRNG-chosen bit because they made a
// length-like window huge; aliasSkipped counts field mutants not generated for that reason.
var reroutedFlips int64
var aliasSkipped int64

// sweepSpec selects which structure-aware mutations of a base are executed.
type sweepSpec struct {
	From        int  // first offset that is mutated (offsets before it are kept, e.g. a valid header)
	Fields      bool // (a) every offset x width {1,2,4} x fieldValues
	FieldSample int  // otherwise: this many PRNG (offset, width, value) triples
	Trunc       bool // (b) truncation at every offset >= From
	Flips       int  // (c) PRNG bit flips
}

// sweep calls fn for every selected mutant of base. The slice handed to fn is only valid during
// the call (a scratch buffer is reused).
func sweep(base []byte, sp sweepSpec, r *mon.Rand, fn func(in []byte, m mut)) {
	n := len(base)
	scratch := make([]byte, n)
	copy(scratch, base)
	var vals []fieldVal
	if sp.Fields {
		for o := sp.From; o < n; o++ {
			for _, w := range [3]int{1, 2, 4} {
				if o+w > n {
					break
				}
				old := getBE(base[o:], w)
				vals = fieldValues(w, old, vals)
				for _, fv := range vals {
					putBE(scratch[o:], w, uint32(fv.v))
					if makesHuge(base, scratch, o, w) {
						aliasSkipped++
						continue
					}
					fn(scratch, mut{fv.class, o, w, fv.v})
				}
				copy(scratch[o:o+w], base[o:o+w])
			}
		}
	} else if sp.FieldSample > 0 && n > sp.From {
		for i := 0; i < sp.FieldSample; i++ {
			o := sp.From + r.Intn(n-sp.From)
			w := [3]int{1, 2, 4}[r.Intn(3)]
			if o+w > n {
				w = 1
			}
			old := getBE(base[o:], w)
			vals = fieldValues(w, old, vals)
			if len(vals) == 0 {
				continue
			}
			fv := vals[r.Intn(len(vals))]
			putBE(scratch[o:], w, uint32(fv.v))
			if makesHuge(base, scratch, o, w) {
				aliasSkipped++
			} else {
				fn(scratch, mut{fv.class, o, w, fv.v})
			}
			copy(scratch[o:o+w], base[o:o+w])
		}
	}
	if sp.Trunc {
		for o := sp.From; o < n; o++ {
			fn(base[:o:o], mut{mcTrunc, o, 0, 0})
		}
	}
	if n > sp.From {
		for i := 0; i < sp.Flips; i++ {
			bit := sp.From*8 + r.Intn((n-sp.From)*8)
			scratch[bit/8] ^= 1 << uint(bit%8)
			for try := 0; makesHuge(base, scratch, bit/8, 1); try++ {
				// another bit instead (the flip belongs to the huge class; see makesHuge)
				scratch[bit/8] = base[bit/8]
				if try == 0 {
					reroutedFlips++
				}
				bit = sp.From*8 + r.Intn((n-sp.From)*8)
				if try >= 16 {
					bit = bit / 8 * 8 // give up on this byte pattern: bit 0 of a byte, re-checked below
				}
				scratch[bit/8] ^= 1 << uint(bit%8)
				if try >= 32 {
					break
				}
			}
			if makesHuge(base, scratch, bit/8, 1) {
				scratch[bit/8] = base[bit/8]
				continue
			}
			fn(scratch, mut{mcFlip, bit / 8, 0, int64(bit % 8)})
			scratch[bit/8] = base[bit/8]
		}
	}
}

// big24Sample calls fn for up to k PRNG-chosen length-like offsets with the 4-byte field set to 2^24.
func big24Sample(base []byte, from, k int, r *mon.Rand, fn func(in []byte, m mut)) {
	cands := hugeCandidates(base, from)
	if len(cands) == 0 {
		return
	}
	scratch := append([]byte{}, base...)
	for i := 0; i < k; i++ {
		o := cands[r.Intn(len(cands))]
		putBE(scratch[o:], 4, 1<<24)
		fn(scratch, mut{mcBig24, o, 4, 1 << 24})
		copy(scratch[o:o+4], base[o:o+4])
	}
}

// hugeCandidates returns the offsets whose 4-byte big-endian value looks like a length or count
// (-2 <= x < 2^16): the fields the resource-class sample is drawn from.
func hugeCandidates(base []byte, from int) []int {
	var out []int
	for o := from; o+4 <= len(base); o++ {
		x := int32(binary.BigEndian.Uint32(base[o:]))
		if x >= -2 && x < 1<<16 {
			out = append(out, o)
		}
	}
	return out
}

func splice(a, b []byte, r *mon.Rand) []byte {
	i := r.Intn(len(a) + 1)
	j := r.Intn(len(b) + 1)
	out := make([]byte, 0, i+len(b)-j)
	out = append(out, a[:i]...)
	return append(out, b[j:]...)
}

// biasedBytes draws n bytes, mostly zero (80% 0x00, 8% 0xFF, 8% 0x80..0xFF, 4% 0x01..0x03): random input whose 4-byte reads are mostly small or negative. Uniform random bytes make
// every [int] length a 1 GiB allocation with probability 1/2, so they are used in small numbers only.
func biasedBytes(r *mon.Rand, n int) []byte {
	b := make([]byte, n)
	for i := range b {
		switch x := r.Intn(100); {
		case x < 80:
		case x < 88:
			b[i] = 0xFF
		case x < 96:
			b[i] = byte(0x80 + r.Intn(128))
		default:
			b[i] = byte(1 + r.Intn(3))
		}
	}
	return b
}
