package main

import (
	"os"
	"sort"
	"strings"
	"syscall"

	"verif/internal/gen"
	"verif/internal/ref"
)

// Domains. A unit is (domain, a, b): a self-contained block of executions whose inputs are a pure
// function of (seed, tier, unit index); executions inside a unit are numbered k = 1, 2, ... in
// generation order, which never depends on the outcome of an execution.
const (
	dFrameSweep  = iota // a = (kind, version) pair, b = draw: exhaustive sweep of one small plain frame
	dFrameShapes        // a = pair, b = shape block: every optional-field shape, sampled mutants
	dFrameComp          // a = pair, b = draw*2 + (0 lz4 | 1 snappy): compressed frame, sweep + hostile prefixes/blocks
	dMsgCross           // a = pair, b = draw: message body through every message codec x every version
	dType               // a = index: ReadDataType
	dPrim               // a = primitive reader index: every exported primitive.Read*
	dSegment            // a = index: DecodeSegment +- lz4
	dCompress           // a = index: Decompress / DecompressWithLength of both compressors
	dRandom             // a = index: pure random bytes and random bodies to every entry point
	dLarge              // a = index: 64 KiB / 1 MiB special inputs
	dDatacodec          // a = cqlgen plan index block
	dDcMismatch         // a = block: bytes of type A decoded with the codec of type B
	dResource           // resource table only: a = index
)

// largeParts: every large special is split into this many units (executions k with k % largeParts
// == part), so that the expected worker deaths of one special do not serialise in one worker.
const largeParts = 8

type unit struct {
	dom  int
	a, b int
}

type pair struct {
	k *gen.Kind
	v ref.Version
}

var pairs []pair

func init() {
	for i := range gen.Kinds {
		for _, v := range ref.Versions {
			if gen.Kinds[i].Defined(v) {
				pairs = append(pairs, pair{&gen.Kinds[i], v})
			}
		}
	}
}

// sizes of the case list per tier (counts, never durations)
type plan struct {
	pairEvery    int // quick tier: the (kind, version) pairs with (index + seed) % pairEvery == 0 (every kind, versions rotating with the seed)
	frameDraws   int // exhaustive-sweep bases per (kind, version)
	shapeBlocks  int // shape enumeration is split in this many units per pair
	shapeEvery   int // every n-th enumerated shape is used
	shapeFields  int // PRNG field mutants per shape
	compDraws    int
	compEvery    int
	crossDraws   int
	types        int
	primRounds   int
	segments     int
	compress     int
	random       int
	large        int
	dcBlocks     int
	dcBlock      int // plan cases per datacodec unit
	dcDepth      int
	mismatch     int
	mismatchPool int
	resource     int
}

func planOf(thorough bool) plan {
	if thorough {
		return plan{pairEvery: 1, frameDraws: 1, shapeBlocks: 4, shapeEvery: 8, shapeFields: 24, compDraws: 1, compEvery: 2, crossDraws: 1,
			types: 400, primRounds: 6, segments: 200, compress: 200, random: 80, large: 13,
			dcBlocks: 80, dcBlock: 8, dcDepth: 4, mismatch: 12, mismatchPool: 32, resource: 120}
	}
	return plan{pairEvery: 6, frameDraws: 1, shapeBlocks: 2, shapeEvery: 61, shapeFields: 12, compDraws: 1, compEvery: 6, crossDraws: 1,
		types: 40, primRounds: 1, segments: 18, compress: 20, random: 6, large: 13,
		dcBlocks: 9, dcBlock: 8, dcDepth: 3, mismatch: 2, mismatchPool: 20, resource: 12}
}

func buildUnits(seed int64, thorough bool) []unit {
	p := planOf(thorough)
	var us []unit
	add := func(dom, a, b int) { us = append(us, unit{dom, a, b}) }
	sel := 0
	for pi := range pairs {
		if (pi+int(seed%int64(p.pairEvery))+p.pairEvery)%p.pairEvery != 0 {
			continue
		}
		sel++
		for d := 0; d < p.frameDraws; d++ {
			for part := 0; part < sweepParts; part++ {
				add(dFrameSweep, pi, d*sweepParts+part)
			}
		}
		for sb := 0; sb < p.shapeBlocks; sb++ {
			add(dFrameShapes, pi, sb)
		}
		// compressed frames: every pair in the thorough tier, every compEvery-th pair in the quick tier
		// (what is specific to them is the prefix / decompression / hand-over path, not the body decoder)
		if sel%p.compEvery == 0 {
			for d := 0; d < p.compDraws*2; d++ {
				add(dFrameComp, pi, d)
			}
		}
		for d := 0; d < p.crossDraws; d++ {
			add(dMsgCross, pi, d)
		}
	}
	for i := 0; i < p.types; i++ {
		add(dType, i, 0)
	}
	for i := 0; i < len(primReaders); i++ {
		for rd := 0; rd < p.primRounds; rd++ {
			add(dPrim, i, rd)
		}
	}
	for i := 0; i < p.segments; i++ {
		add(dSegment, i, 0)
	}
	for i := 0; i < p.compress; i++ {
		add(dCompress, i, 0)
	}
	for i := 0; i < p.random; i++ {
		add(dRandom, i, 0)
	}
	for i := 0; i < p.large; i++ {
		for part := 0; part < largeParts; part++ {
			add(dLarge, i, part)
		}
	}
	for i := 0; i < p.dcBlocks; i++ {
		add(dDatacodec, i, 0)
	}
	for i := 0; i < p.mismatch; i++ {
		add(dDcMismatch, i, 0)
	}
	// dispatch order: the domains whose units are long (worker deaths queue up inside a unit) first,
	// the short ones last, so that the run does not end with one worker finishing a long unit alone
	prio := map[int]int{dDatacodec: 0, dDcMismatch: 1, dFrameSweep: 2, dPrim: 3, dLarge: 4, dFrameComp: 5, dSegment: 6, dFrameShapes: 7}
	sort.SliceStable(us, func(a, b int) bool {
		pa, oka := prio[us[a].dom]
		pb, okb := prio[us[b].dom]
		if !oka {
			pa = 99
		}
		if !okb {
			pb = 99
		}
		return pa < pb
	})
	if only := os.Getenv("C04_ONLY_DOMAINS"); only != "" { // development aid
		var f []unit
		for _, u := range us {
			if strings.Contains(","+only+",", ","+domNames[u.dom]+",") {
				f = append(f, u)
			}
		}
		us = f
	}
	return us
}

func buildResUnits(seed int64, thorough bool) []unit {
	p := planOf(thorough)
	us := make([]unit, 0, p.resource)
	for i := 0; i < p.resource; i++ {
		us = append(us, unit{dResource, i, 0})
	}
	return us
}

func (wk *worker) plan() plan { return planOf(wk.thorough) }

func cpuMillis() int64 {
	var ru syscall.Rusage
	syscall.Getrusage(0, &ru)
	return (ru.Utime.Sec+ru.Stime.Sec)*1000 + (ru.Utime.Usec+ru.Stime.Usec)/1000
}

func (wk *worker) runUnit(u unit) {
	wk.domain = domNames[u.dom]
	t0 := cpuMillis()
	defer func() { wk.counters["cpu_ms_by_domain/"+wk.domain] += cpuMillis() - t0 }()
	switch u.dom {
	case dFrameSweep:
		wk.frameSweep(u.a, u.b/sweepParts, u.b%sweepParts)
	case dFrameShapes:
		wk.frameShapes(u.a, u.b)
	case dFrameComp:
		wk.frameComp(u.a, u.b/2, u.b%2+1)
	case dMsgCross:
		wk.msgCross(u.a, u.b)
	case dType:
		wk.typeUnit(u.a)
	case dPrim:
		wk.primUnit(u.a, u.b)
	case dSegment:
		wk.segmentUnit(u.a)
	case dCompress:
		wk.compressUnit(u.a)
	case dRandom:
		wk.randomUnit(u.a)
	case dLarge:
		wk.parts, wk.part = largeParts, u.b
		wk.largeUnit(u.a)
		wk.parts, wk.part = 0, 0
	case dDatacodec:
		wk.dcUnit(u.a)
	case dDcMismatch:
		wk.dcMismatch(u.a)
	case dResource:
		wk.resourceUnit(u.a)
	}
}
