// C04 — decoders never panic, fault or hang on arbitrary input bytes (DESIGN.md §4 C04, M4).
//
// The supervisor (this process) never runs the code under test. It starts worker processes (the
// same binary under `ulimit -v`), each of which generates its share of the case list — a pure
// function of (seed, tier, unit, k) — and feeds structure-aware mutations of valid encodings to
// every decoding entry point, each call isolated by recover(). A recovered panic is a violation
// keyed by entry point, innermost library function and panic class; a worker death is classified
// by the supervisor (memory exhaustion = resource class, not a violation; other fatal errors and
// stalls are re-run alone before they count).
package main

import (
	"fmt"
	"os"
	"path/filepath"
	"regexp"
	"runtime/debug"
	"sort"
	"strings"
	"time"

	"verif/internal/mon"
)

func main() { mon.Main("C04", run) }

func run(c *mon.Ctx) {
	if len(c.Args) > 0 && c.Args[0] == "worker" {
		defer func() {
			if r := recover(); r != nil {
				fmt.Fprintf(os.Stderr, "HARNESS panic outside the code under test: %v\n%s\n", r, debug.Stack())
				os.Exit(4)
			}
		}()
		workerMain(c)
		return
	}
	c.Rule = "inputs = structure-aware mutations of valid encodings, a pure function of (seed, tier, unit, k): for one small valid encoding of every (message kind, version) [reference encoder], every enumerated optional-field shape, compressed frames (LZ4/Snappy), message bodies, type descriptors, every primitive notation, v5 segments [independent segment writer], LZ4/Snappy blocks and generated CQL (type, value) encodings [independent serializer]: (a) every offset x width {1,2,4} <- {-1,-2,0,1,old-1,old+1,2^7,2^8-1,2^15,2^16-1,2^24}, (b) truncation at every offset, (c) 64 PRNG bit flips, (d) splices, (e) random bytes of length 0..64 and random bodies behind valid headers, (f) 64 KiB / 1 MiB specials (nesting 524288 deep, 0xFF/0x00, maximal counts without data); segment header fields with the CRC-24 recomputed and payloads with the CRC-32 recomputed; hostile decompressed-length prefixes and hostile blocks; CQL bytes of type A through the codec of type B; every mutant into every destination representation. {2^28, 2^31-1, -2^31} only on a PRNG sample of length-like fields in a dedicated serialised worker. distinct = (entry point, version, compressor, mutation class, outcome, base kind)"
	c.Assume("a call that returns (value or error) in a worker process returned; nothing else is trusted: no model of the library decides anything")
	c.Assume("memory exhaustion under the address-space cap (2 GiB of address space per worker; the 8 GiB bound of the design is never approached) is the separate resource class (reported with inputs, inconclusive), not a violation: the statement lists panic, nil dereference, stack overflow and non-termination")
	c.Assume("the exported primitive.Read* functions are those matched by '^func Read' in <repo>/primitive/*.go (compared with the check's table at run time)")
	primReadersComplete(c)
	if c.Replay != "" {
		replay(c)
		return
	}
	supervise(c)
	names := make([]string, 0, len(epNames))
	names = append(names, epNames...)
	sort.Strings(names)
	c.Set("entry_points_registered", len(names))
}

// primReadersComplete compares the table of primitive readers with the source tree under test.
func primReadersComplete(c *mon.Ctx) {
	files, _ := filepath.Glob(filepath.Join(mon.RepoDir(), "primitive", "*.go"))
	re := regexp.MustCompile(`(?m)^func (Read[A-Za-z0-9_]*)\(`)
	have := map[string]bool{}
	for _, p := range primReaders {
		have[p.name] = true
	}
	found := 0
	for _, f := range files {
		if strings.HasSuffix(f, "_test.go") {
			continue
		}
		b, err := os.ReadFile(f)
		if err != nil {
			continue
		}
		for _, m := range re.FindAllStringSubmatch(string(b), -1) {
			found++
			if !have[m[1]] {
				c.Note("primitive.%s is exported by the tree under test but not driven by this check", m[1])
				c.Inconclusive("entry-point-not-covered/primitive." + m[1])
			}
		}
	}
	if found == 0 {
		c.Fatal("no primitive.Read* found under %s/primitive", mon.RepoDir())
	}
	c.Set("primitive_readers_in_source", found)
}

// replay re-runs exactly one recorded case alone in a fresh worker.
func replay(c *mon.Ctx) {
	var d struct {
		Unit int    `json:"unit"`
		K    int64  `json:"k"`
		Seed int64  `json:"seed"`
		Tier string `json:"tier"`
		Res  bool   `json:"resource_table"`
	}
	if err := c.ReplayDetail(&d); err != nil {
		c.Fatal("replay: %v", err)
	}
	c.Seed = d.Seed
	if d.Tier != "" {
		c.Tier = d.Tier
	}
	dir, err := os.MkdirTemp("", "c04-replay-")
	if err != nil {
		c.Fatal("tmp: %v", err)
	}
	defer os.RemoveAll(dir)
	s := &sup{c: c, dir: dir, self: mon.Self(), deaths: map[string]int{}, oomPerEP: map[string]int{}}
	ei, desc, out := s.solo(d.Res, d.Unit, d.K, false, time.Duration(soloFactor)*batchBudget, "replay")
	c.Merge(out)
	switch {
	case ei.class == "clean":
	case ei.class == "oom" || ei.class == "killed":
		c.Inconclusive("resource/out-of-memory-under-address-space-cap")
	case ei.class == "watchdog":
		if ei.cpuGrew || ei.blocked {
			c.Violation("hang/"+epOfDesc(desc), desc)
		} else {
			c.Inconclusive("watchdog/not-reproduced-as-hang")
		}
	case strings.HasPrefix(ei.class, "fatal/"):
		if desc == nil {
			desc = map[string]interface{}{}
		}
		desc["stderr_head"] = ei.stderr
		c.Violation("fatal/"+epOfDesc(desc)+"/"+strings.TrimPrefix(ei.class, "fatal/"), desc)
	default:
		c.Fatal("replay worker failed: %s %s", ei.class, ei.stderr)
	}
}
