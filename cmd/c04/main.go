// C04 — decoders never panic, fault or hang on arbitrary input bytes (DESIGN.md §4 C04, M4).
//
// The supervisor (this process) never runs the code under test. It starts worker processes (the
// same binary under `ulimit -v`), each of which generates its share of the case list — a pure
// function of (seed, tier, unit, k) — and feeds structure-aware mutations of valid encodings to
// every decoding entry point, each call isolated by recover(). A recovered panic is a violation
// keyed by entry point, innermost library function and panic class; a worker death is classified
// by the supervisor (memory exhaustion = resource class, not a violation; other fatal errors and
// stalls are re-run alone before they count).
package main

import (
	"fmt"
	"os"
	"path/filepath"
	"regexp"
	"runtime/debug"
	"sort"
	"strings"
	"time"

	"verif/internal/mon"
)

func main() { mon.Main("C04", run) }

func run(c *mon.Ctx) {
	if len(c.Args) > 0 && c.Args[0] == "worker" {
		defer func() {
			if r := recover(); r != nil {
				fmt.Fprintf(os.Stderr, "HARNESS panic outside the code under test: %v\n%s\n", r, debug.Stack())
				os.Exit(4)
			}
		}()
		workerMain(c)
		return
	}
	c.Rule = "inputs = structure-aware mutations of valid encodings, a pure function of (seed, tier, unit, k). Bases: one small (<= 300 B) valid encoding per (message kind, version) [reference encoder; quick tier: every 6th pair, rotating with the seed], every 61st (quick) / 8th (thorough) enumerated optional-field shape, LZ4/Snappy-compressed frames, message bodies, type descriptors, every primitive notation, v5 segments [independent writer], LZ4/Snappy blocks, generated CQL (type, value) encodings [independent serializer]. Contents of the swept bases are zeroed (same structure and lengths) so that a shifted read does not turn text into a gigabyte length; the original encodings are decoded as they are and truncated at every offset. Mutations: (a) every offset x width {1,2,4} <- {-1,-2,0,1,old-1,old+1,2^7,2^8-1,2^15,2^16-1} (CQL values in the quick tier: a PRNG sample of 120 such triples), except those that turn a 4-byte window holding 0..65535 or a negative number into 2^17..2^31-1; 2^24 on one PRNG-chosen length-like field per base; (b) truncation at every offset; (c) 64 (quick: 32) PRNG bit flips (same exception); (d) splices; (e) random bytes of length 0..64 (biased towards 0x00/0xFF, a few uniform) and random bodies behind valid headers; (f) specials: 0xFF / 0x00 / rows / string lists / maximal counts without data, 64 KiB (quick) or 1 MiB (thorough), type descriptors nested 2048 deep; segment header fields with the CRC-24 recomputed and payloads with the CRC-32 recomputed; hostile decompressed-length prefixes and hostile LZ4/Snappy blocks; CQL bytes of type A through the codec of type B; every CQL mutant into the generated representation, *interface{}, the universal and the preferred representation and pre-filled slices/maps. {2^25, 2^28, 2^30, 2^31-1, -2^31} only on a PRNG sample of length-like fields, one execution each, in a dedicated serialised worker (resource table; thorough: also descriptors nested 32768 / 524288 deep). Cost control that decides nothing: after an execution that allocated > 8 MiB the remaining entry points / destinations of the same mutant are not run (counted). distinct = (entry point, version, compressor, mutation class, outcome, base kind)"
	c.Assume("a call that returns (value or error) in a worker process returned; nothing else is trusted: no model of the library decides anything")
	c.Assume("memory exhaustion under the address-space cap (ulimit -v 2.5 GiB per worker, soft heap limit 1 GiB; the 8 GiB bound of the design is never approached), and a call that has not returned after 5 x 60 s alone while its resident memory is still growing, are the separate resource class (reported with inputs, inconclusive), not violations: the statement lists panic, nil dereference, stack overflow and non-termination")
	c.Assume("the exported primitive.Read* functions are those matched by '^func Read' in <repo>/primitive/*.go (compared with the check's table at run time)")
	primReadersComplete(c)
	if c.Replay != "" {
		replay(c)
		return
	}
	supervise(c)
	names := make([]string, 0, len(epNames))
	names = append(names, epNames...)
	sort.Strings(names)
	c.Set("entry_points_registered", len(names))
}

// primReadersComplete compares the table of primitive readers with the source tree under test.
func primReadersComplete(c *mon.Ctx) {
	files, _ := filepath.Glob(filepath.Join(mon.RepoDir(), "primitive", "*.go"))
	re := regexp.MustCompile(`(?m)^func (Read[A-Za-z0-9_]*)\(`)
	have := map[string]bool{}
	for _, p := range primReaders {
		have[p.name] = true
	}
	found := 0
	for _, f := range files {
		if strings.HasSuffix(f, "_test.go") {
			continue
		}
		b, err := os.ReadFile(f)
		if err != nil {
			continue
		}
		for _, m := range re.FindAllStringSubmatch(string(b), -1) {
			found++
			if !have[m[1]] {
				c.Note("primitive.%s is exported by the tree under test but not driven by this check", m[1])
				c.Inconclusive("entry-point-not-covered/primitive." + m[1])
			}
		}
	}
	if found == 0 {
		c.Fatal("no primitive.Read* found under %s/primitive", mon.RepoDir())
	}
	c.Set("primitive_readers_in_source", found)
}

// replay re-runs exactly one recorded case alone in a fresh worker.
func replay(c *mon.Ctx) {
	var d struct {
		Unit int    `json:"unit"`
		K    int64  `json:"k"`
		Seed int64  `json:"seed"`
		Tier string `json:"tier"`
		Res  bool   `json:"resource_table"`
	}
	if err := c.ReplayDetail(&d); err != nil {
		c.Fatal("replay: %v", err)
	}
	c.Seed = d.Seed
	if d.Tier != "" {
		c.Tier = d.Tier
	}
	dir, err := os.MkdirTemp("", "c04-replay-")
	if err != nil {
		c.Fatal("tmp: %v", err)
	}
	defer os.RemoveAll(dir)
	s := &sup{c: c, dir: dir, self: mon.Self(), deaths: map[string]int{}, oomPerEP: map[string]int{}}
	ei, desc, out := s.solo(d.Res, d.Unit, d.K, false, time.Duration(soloFactor)*batchBudget, "replay")
	c.Merge(out)
	switch {
	case ei.class == "clean":
	case ei.class == "oom" || ei.class == "killed":
		c.Inconclusive("resource/out-of-memory-under-address-space-cap")
	case ei.class == "watchdog" && ei.memGrew:
		c.Inconclusive("resource/no-return-within-budget-while-memory-grows")
	case ei.class == "watchdog":
		if ei.cpuGrew || ei.blocked {
			c.Violation("hang/"+epOfDesc(desc), desc)
		} else {
			c.Inconclusive("watchdog/not-reproduced-as-hang")
		}
	case strings.HasPrefix(ei.class, "fatal/"):
		if desc == nil {
			desc = map[string]interface{}{}
		}
		desc["stderr_head"] = ei.stderr
		c.Violation("fatal/"+epOfDesc(desc)+"/"+strings.TrimPrefix(ei.class, "fatal/"), desc)
	default:
		c.Fatal("replay worker failed: %s %s", ei.class, ei.stderr)
	}
}
