package main

import (
	"encoding/hex"
	"encoding/json"
	"fmt"
	"os"
	"regexp"
	"runtime"
	"runtime/debug"
	"runtime/metrics"
	"runtime/pprof"
	"strconv"
	"strings"
	"sync/atomic"
	"syscall"
	"time"
	"unsafe"

	"verif/internal/mon"
)

// ---------------------------------------------------------------------------------------------
// entry point registry (ids are per process; names are what evidence and keys use)

var epIndex = map[string]int{}
var epNames []string

func epOf(name string) int {
	if id, ok := epIndex[name]; ok {
		return id
	}
	id := len(epNames)
	epIndex[name] = id
	epNames = append(epNames, name)
	return id
}

var compNames = []string{"none", "lz4", "snappy"}

// ---------------------------------------------------------------------------------------------
// worker state

type skipKey struct {
	unit int
	k    int64
}

type vrec struct {
	Key    string      `json:"key"`
	Detail interface{} `json:"detail"`
	Count  int         `json:"count"`
}

type worker struct {
	seed     int64
	thorough bool
	res      bool // resource unit table

	unit int   // current unit index
	k    int64 // execution index inside the unit (1-based, incremented before each execution)

	solo    int64 // >0: execute only this k of the unit
	resumeK int64 // executions of the first unit with k <= resumeK were done by a previous instance
	noexec  bool  // solo: describe only
	desc    string
	skip    map[skipKey]bool

	prog []byte // mmap of the progress file (16 bytes: unit, k)

	// accumulators (since the start of this worker instance)
	evals     int64
	execs     []int64 // per entry point
	decodable []int64
	maxInput  []int64
	panics    []int64
	perClass  [mcCount]int64
	okMutants int64
	outcomes  [3]int64 // returned an error, returned a value, recovered panic
	skipped   int64
	distinct  map[uint64]struct{}
	viol      map[string]*vrec
	vorder    []string
	samples   []interface{}
	bigAllocs []map[string]interface{}
	sites     map[string]int64 // recovered panics by site
	counters  map[string]int64

	lastMut  mut
	lastBase string
	heavy    bool

	ppid       int
	parts      int // >1: only executions with k % parts == part belong to the current unit
	part       int
	domain     string
	heavySeen  map[string]int
	sinceFlush int64
	flushEvery int64
	out        string

	msample [1]metrics.Sample
}

func newWorker() *worker {
	wk := &worker{distinct: map[uint64]struct{}{}, viol: map[string]*vrec{}, skip: map[skipKey]bool{},
		sites: map[string]int64{}, counters: map[string]int64{}}
	wk.msample[0].Name = "/gc/heap/allocs:bytes"
	return wk
}

func (wk *worker) grow(id int) {
	for len(wk.execs) <= id {
		wk.execs = append(wk.execs, 0)
		wk.decodable = append(wk.decodable, 0)
		wk.maxInput = append(wk.maxInput, 0)
		wk.panics = append(wk.panics, 0)
	}
}

func (wk *worker) allocBytes() uint64 {
	metrics.Read(wk.msample[:])
	if wk.msample[0].Value.Kind() == metrics.KindUint64 {
		return wk.msample[0].Value.Uint64()
	}
	return 0
}

// call describes one execution: which entry point, with which parameters, on which input.
type call struct {
	ep   int
	ver  byte // protocol version byte (0 when not applicable)
	comp int  // index in compNames
	base string
	note string // free text: destination representation, codec type, ...
}

func hexCap(b []byte) string {
	if len(b) > 4096 {
		return hex.EncodeToString(b[:2048]) + fmt.Sprintf("...(%d bytes; regenerate from seed/unit/k)", len(b))
	}
	return hex.EncodeToString(b)
}

func (wk *worker) describe(cl *call, in []byte, m mut) map[string]interface{} {
	tier := "quick"
	if wk.thorough {
		tier = "thorough"
	}
	d := map[string]interface{}{
		"entry_point": epNames[cl.ep], "version": fmt.Sprintf("0x%02x", cl.ver), "compressor": compNames[cl.comp],
		"base": cl.base, "mutation": mcNames[m.Class], "offset": m.O, "width": m.W, "value": m.Val,
		"input_hex": hexCap(in), "input_len": len(in),
		"seed": wk.seed, "tier": tier, "unit": wk.unit, "k": wk.k, "resource_table": wk.res,
	}
	if cl.note != "" {
		d["note"] = cl.note
	}
	return d
}

func fnv64(vals ...uint64) uint64 {
	h := uint64(14695981039346656037)
	for _, v := range vals {
		for i := 0; i < 8; i++ {
			h ^= v & 0xFF
			h *= 1099511628211
			v >>= 8
		}
	}
	return h
}

func strHash(s string) uint64 {
	h := uint64(14695981039346656037)
	for i := 0; i < len(s); i++ {
		h ^= uint64(s[i])
		h *= 1099511628211
	}
	return h
}

// exec runs one execution of an entry point on one input, isolated by recover(). fn reports
// whether the decoder returned without error (a decodable input).
func (wk *worker) exec(cl *call, in []byte, m mut, fn func(in []byte) bool) {
	wk.k++
	if wk.solo > 0 && wk.k != wk.solo {
		return
	}
	if wk.parts > 1 && int(wk.k%int64(wk.parts)) != wk.part {
		return // this unit runs one residue class of the executions only (large specials are split)
	}
	if wk.k <= wk.resumeK {
		return
	}
	if len(wk.skip) > 0 && wk.skip[skipKey{wk.unit, wk.k}] {
		// a previous worker died of memory exhaustion in this very execution: the other entry points /
		// destinations of the same mutant would ask for the same allocation and are not run either
		wk.skipped++
		wk.lastMut, wk.lastBase, wk.heavy = m, cl.base, true
		return
	}
	// cost control: once one execution of a mutant has allocated more than 8 MiB, the remaining
	// entry points / destinations of the same mutant (which would allocate it again) are not run.
	// k advances all the same, so the numbering never depends on outcomes.
	if m != wk.lastMut || cl.base != wk.lastBase {
		wk.lastMut, wk.lastBase, wk.heavy = m, cl.base, false
	} else if wk.heavy && wk.solo == 0 {
		wk.counters["not_run_after_heavy_allocation_of_same_mutant"]++
		return
	}

	if wk.prog != nil {
		*(*uint64)(unsafe.Pointer(&wk.prog[0])) = uint64(wk.unit)
		*(*uint64)(unsafe.Pointer(&wk.prog[8])) = uint64(wk.k)
		n := copy(wk.prog[16:progLen-2], epNames[cl.ep])
		wk.prog[16+n] = 0
	}
	if wk.solo > 0 {
		if wk.desc != "" {
			b, _ := json.Marshal(wk.describe(cl, in, m))
			os.WriteFile(wk.desc, b, 0o644)
		}
		if wk.noexec {
			return
		}
	}
	wk.grow(cl.ep)
	measure := true // runtime/metrics read: ~0.3 us
	var a0 uint64
	heavyNow := false
	if measure {
		a0 = wk.allocBytes()
	}
	if wk.prog != nil {
		wk.prog[progLen-1] = 1 // inside the code under test: the supervisor's watchdog counts only this time
	}
	ok, panicked := wk.guard(cl, in, m, fn)
	if wk.prog != nil {
		wk.prog[progLen-1] = 0
	}
	if measure {
		d := wk.allocBytes() - a0
		if d > 8<<20 {
			wk.heavy = true // the other entry points / destinations of this mutant are not run
			heavyNow = true // and a snapshot is taken right away: a restarted worker must not pay for it again
		}
		if d > 32<<20 {
			wk.counters["alloc_gt_32MiB/"+epNames[cl.ep]]++
			wk.counters["alloc_gt_32MiB_by_domain/"+wk.domain]++
			if wk.heavySeen == nil {
				wk.heavySeen = map[string]int{}
			}
			if hk := wk.domain + "/" + epNames[cl.ep]; wk.heavySeen[hk] < 2 && len(wk.bigAllocs) < 60 {
				wk.heavySeen[hk]++
				e := wk.describe(cl, in, m)
				e["allocated_bytes"] = d
				e["outcome"] = "returned"
				wk.bigAllocs = append(wk.bigAllocs, e)
			}
			runtime.GC() // live heap is tiny: a forced collection costs ~0.1 ms and returns the block before the next one is asked for
		}
		if d > 1<<30 {
			wk.counters["alloc_gt_1GiB"]++
		}
	}
	wk.evals++
	wk.sinceFlush++
	wk.execs[cl.ep]++
	wk.perClass[m.Class]++
	if int64(len(in)) > wk.maxInput[cl.ep] {
		wk.maxInput[cl.ep] = int64(len(in))
	}
	outcome := uint64(0)
	wk.outcomes[0]++
	if panicked {
		outcome = 2
		wk.outcomes[0]--
		wk.outcomes[2]++
	} else if ok {
		wk.outcomes[0]--
		wk.outcomes[1]++
		outcome = 1
		wk.decodable[cl.ep]++
		if m.Class != mcValid {
			wk.okMutants++
		}
	}
	wk.distinct[fnv64(strHash(epNames[cl.ep]), uint64(cl.ver), uint64(cl.comp), uint64(m.Class), outcome, strHash(cl.base))] = struct{}{}
	if len(wk.samples) < 2 && m.Class != mcValid && wk.evals%9973 == 1 {
		s := wk.describe(cl, in, m)
		s["outcome"] = [3]string{"error", "decoded", "panic"}[outcome]
		wk.samples = append(wk.samples, s)
	}
	if (wk.sinceFlush >= wk.flushEvery || (heavyNow && wk.sinceFlush > 0)) && wk.solo == 0 {
		wk.flush(wk.unit, wk.k, false)
	}
}

func (wk *worker) guard(cl *call, in []byte, m mut, fn func(in []byte) bool) (ok bool, panicked bool) {
	defer func() {
		if r := recover(); r != nil {
			panicked = true
			ok = false
			wk.onPanic(cl, in, m, r)
		}
	}()
	return fn(in), false
}

const libPrefix = "github.com/datastax/go-cassandra-native-protocol/"

var reDigits = regexp.MustCompile(`[0-9]+`)
var reUnsafe = regexp.MustCompile(`[^A-Za-z0-9._-]+`)

func panicClass(msg string) string {
	msg = strings.TrimPrefix(msg, "runtime error: ")
	if strings.Contains(msg, "nil pointer dereference") {
		return "nil-dereference"
	}
	if i := strings.Index(msg, " ["); i >= 0 {
		msg = msg[:i]
	}
	if i := strings.Index(msg, "invalid key type"); i >= 0 {
		msg = msg[:i+len("invalid key type")]
	}
	if i := strings.Index(msg, "\n"); i >= 0 {
		msg = msg[:i]
	}
	msg = reDigits.ReplaceAllString(msg, "N")
	msg = strings.ReplaceAll(msg, ": ", "-")
	msg = reUnsafe.ReplaceAllString(msg, "-")
	msg = strings.Trim(msg, "-")
	if len(msg) > 64 {
		msg = msg[:64]
	}
	if msg == "" {
		msg = "panic"
	}
	return msg
}

func shortFunc(f string) string {
	f = strings.TrimPrefix(f, libPrefix)
	if i := strings.LastIndex(f, "/"); i >= 0 {
		f = f[i+1:]
	}
	f = strings.ReplaceAll(f, "(*", "")
	f = strings.ReplaceAll(f, ")", "")
	return reUnsafe.ReplaceAllString(f, "-")
}

func (wk *worker) onPanic(cl *call, in []byte, m mut, r interface{}) {
	msg := fmt.Sprint(r)
	pcs := make([]uintptr, 96)
	n := runtime.Callers(2, pcs)
	frames := runtime.CallersFrames(pcs[:n])
	var lines []string
	site := ""
	seenPanic := false
	for {
		fr, more := frames.Next()
		if !seenPanic {
			if fr.Function == "runtime.gopanic" || fr.Function == "runtime.sigpanic" {
				seenPanic = true
			}
		} else {
			if fr.Function == "main.(*worker).guard" {
				break
			}
			if len(lines) < 12 {
				lines = append(lines, fmt.Sprintf("%s %s:%d", fr.Function, trimPath(fr.File), fr.Line))
			}
			if site == "" && strings.HasPrefix(fr.Function, libPrefix) {
				site = shortFunc(fr.Function)
			}
		}
		if !more {
			break
		}
	}
	if site == "" {
		site = "outside-library"
	}
	class := panicClass(msg)
	key := "panic/" + epNames[cl.ep] + "/" + site + "/" + class
	wk.grow(cl.ep)
	wk.panics[cl.ep]++
	wk.sites[site+"/"+class]++
	if v, ok := wk.viol[key]; ok {
		v.Count++
		return
	}
	d := wk.describe(cl, in, m)
	d["panic"] = msg
	d["stack"] = lines
	wk.viol[key] = &vrec{Key: key, Detail: d, Count: 1}
	wk.vorder = append(wk.vorder, key)
}

func trimPath(p string) string {
	if i := strings.Index(p, "go-cassandra-native-protocol"); i >= 0 {
		return p[i:]
	}
	if r := mon.RepoDir(); strings.HasPrefix(p, r+"/") {
		return p[len(r)+1:]
	}
	if i := strings.LastIndex(p, "/src/"); i >= 0 {
		return p[i+5:]
	}
	return p
}

// ---------------------------------------------------------------------------------------------
// snapshot: written in the JSON layout mon.Merge reads, plus the resume point and the >1 GiB list

type snapshot struct {
	Evals        int64                    `json:"evals"`
	Distinct     []uint64                 `json:"distinct"`
	Samples      []interface{}            `json:"samples"`
	Violations   []*vrec                  `json:"violations"`
	Inconclusive map[string]int           `json:"inconclusive"`
	Counters     map[string]int64         `json:"counters"`
	Extra        map[string]interface{}   `json:"extra"`
	Resume       int                      `json:"resume"`   // unit in progress when the snapshot was taken, -1 between units
	ResumeK      int64                    `json:"resume_k"` // executions of that unit already done
	Done         bool                     `json:"done"`
	BigAllocs    []map[string]interface{} `json:"big_allocs"`
}

func (wk *worker) flush(resume int, resumeK int64, done bool) {
	if wk.out == "" {
		return
	}
	s := snapshot{Evals: wk.evals, Samples: wk.samples, Inconclusive: map[string]int{}, Counters: map[string]int64{},
		Extra: map[string]interface{}{}, Resume: resume, ResumeK: resumeK, Done: done, BigAllocs: wk.bigAllocs}
	for h := range wk.distinct {
		s.Distinct = append(s.Distinct, h)
	}
	for _, k := range wk.vorder {
		s.Violations = append(s.Violations, wk.viol[k])
	}
	for id, n := range wk.execs {
		if n > 0 {
			s.Counters["exec/"+epNames[id]] = n
		}
		if wk.decodable[id] > 0 {
			s.Counters["decodable/"+epNames[id]] = wk.decodable[id]
		}
		if wk.maxInput[id] > 0 {
			s.Counters["max_input/"+epNames[id]] = wk.maxInput[id]
		}
		if wk.panics[id] > 0 {
			s.Counters["recovered_panics/"+epNames[id]] = wk.panics[id]
		}
	}
	for i, n := range wk.perClass {
		if n > 0 {
			s.Counters["class/"+mcNames[i]] = n
		}
	}
	for k, n := range wk.sites {
		s.Counters["panic_site/"+k] = n
	}
	for k, n := range wk.counters {
		s.Counters[k] = n
	}
	for i, n := range wk.outcomes {
		if n > 0 {
			s.Counters["outcome/"+[3]string{"returned-error", "returned-value", "recovered-panic"}[i]] = n
		}
	}
	if aliasSkipped > 0 {
		s.Counters["field_mutants_making_a_length_like_window_2^17+_not_generated"] = aliasSkipped
	}
	if reroutedFlips > 0 {
		s.Counters["bitflips_redrawn_instead_of_making_a_window_2^17+"] = reroutedFlips
	}
	if wk.okMutants > 0 {
		s.Counters["decodable_mutants"] = wk.okMutants
	}
	if wk.skipped > 0 {
		s.Counters["skipped_after_worker_death"] = wk.skipped
	}
	if wk.ppid != 0 && os.Getppid() != wk.ppid {
		os.Exit(0) // the supervisor is gone (e.g. the run was truncated by the driver's watchdog)
	}
	b, err := json.Marshal(s)
	if err != nil {
		fmt.Fprintln(os.Stderr, "snapshot:", err)
		os.Exit(3)
	}
	if err := os.WriteFile(wk.out+".tmp", b, 0o644); err != nil {
		fmt.Fprintln(os.Stderr, "snapshot:", err)
		os.Exit(3)
	}
	os.Rename(wk.out+".tmp", wk.out)
	wk.sinceFlush = 0
}

// ---------------------------------------------------------------------------------------------
// worker main

func argVal(args []string, name string) string {
	for i := 0; i+1 < len(args); i++ {
		if args[i] == name {
			return args[i+1]
		}
	}
	return ""
}

func argFlag(args []string, name string) bool {
	for _, a := range args {
		if a == name {
			return true
		}
	}
	return false
}

const progLen = 96 // progress file: unit (8), k (8), entry point name (NUL-terminated)

func workerMain(c *mon.Ctx) {
	// Memory policy: the soft limit of 1 GiB the design asks for, default GC pacing, and a forced
	// collection after every execution that allocated more than 32 MiB (exec). Two alternatives were
	// tried and dropped: GOGC=off with a small limit (the collector runs back to back whenever a unit
	// allocates many medium-sized maps and slices), and a 192 MiB limit (a 1 MiB type descriptor
	// nested 524288 deep needs a 256 MiB goroutine stack, which counts against the limit: the collector
	// then rescans that stack continuously and the call looked like a hang).
	limMiB := 1024
	if v, err := strconv.Atoi(os.Getenv("C04_MEMLIMIT_MIB")); err == nil && v > 0 {
		limMiB = v
	}
	debug.SetMemoryLimit(int64(limMiB) << 20)
	// A goroutine stack limit that fits under the address-space cap, so that unbounded recursion ends
	// as Go's "goroutine stack exceeds ... limit" (fatal: stack overflow) and not as memory exhaustion
	// while growing towards the default 1 GB. The deepest legitimate recursion met (a 1 MiB type
	// descriptor nested 524288 deep) needs about 256 MiB.
	debug.SetMaxStack(512 << 20)
	if v, err := strconv.Atoi(os.Getenv("C04_GOGC")); err == nil {
		debug.SetGCPercent(v)
	}
	args := c.Args[1:]
	wk := newWorker()
	wk.seed = c.Seed
	wk.ppid = os.Getppid()
	wk.thorough = c.Thorough()
	wk.res = argFlag(args, "--res")
	wk.out = argVal(args, "--out")
	wk.desc = argVal(args, "--desc")
	wk.noexec = argFlag(args, "--noexec")
	mapFile := func(p string, n int) []byte {
		f, err := os.OpenFile(p, os.O_RDWR|os.O_CREATE, 0o644)
		if err == nil {
			if st, _ := f.Stat(); st != nil && st.Size() < int64(n) {
				f.Truncate(int64(n))
			}
			if m, err := syscall.Mmap(int(f.Fd()), 0, n, syscall.PROT_READ|syscall.PROT_WRITE, syscall.MAP_SHARED); err == nil {
				return m
			}
		}
		fmt.Fprintln(os.Stderr, "worker: cannot map", p)
		os.Exit(3)
		return nil
	}
	if p := argVal(args, "--progress"); p != "" {
		wk.prog = mapFile(p, progLen)
	}
	for _, s := range strings.Split(argVal(args, "--skip"), ",") {
		if s == "" {
			continue
		}
		var u int
		var k int64
		if n, _ := fmt.Sscanf(s, "%d:%d", &u, &k); n == 2 {
			wk.skip[skipKey{u, k}] = true
		}
	}
	var units []unit
	if wk.res {
		units = buildResUnits(wk.seed, wk.thorough)
	} else {
		units = buildUnits(wk.seed, wk.thorough)
	}
	if s := argVal(args, "--solo"); s != "" {
		var u int
		var k int64
		if n, _ := fmt.Sscanf(s, "%d:%d", &u, &k); n != 2 || u < 0 || u >= len(units) || k <= 0 {
			fmt.Fprintln(os.Stderr, "worker: bad --solo", s)
			os.Exit(3)
		}
		wk.unit, wk.k, wk.solo = u, 0, k
		wk.runUnit(units[u])
		wk.flush(-1, 0, true)
		os.Exit(0)
	}
	wk.flushEvery = 600
	if pf := os.Getenv("C04_PROF"); pf != "" { // development aid: CPU profile and per-unit timing of one worker
		var j, cn int
		fmt.Sscanf(argVal(args, "--chunk"), "%d/%d", &j, &cn)
		f, _ := os.Create(pf)
		pprof.StartCPUProfile(f)
		only, _ := strconv.Atoi(os.Getenv("C04_ONLY_UNITS"))
		n := 0
		for ui := j; cn > 0 && ui < len(units) && n < only; ui += cn {
			t0 := time.Now()
			e0 := wk.evals
			a0 := wk.allocBytes()
			wk.unit, wk.k = ui, 0
			wk.runUnit(units[ui])
			var ru syscall.Rusage
			syscall.Getrusage(0, &ru)
			fmt.Fprintf(os.Stderr, "cpu=%.2fs unit %d dom=%s a=%d b=%d execs=%d %.3fs alloc=%dMiB big=%v\n", float64(ru.Utime.Sec+ru.Stime.Sec)+float64(ru.Utime.Usec+ru.Stime.Usec)/1e6, ui, domNames[units[ui].dom], units[ui].a, units[ui].b, wk.evals-e0, time.Since(t0).Seconds(), (wk.allocBytes()-a0)>>20, wk.counters)
			n++
		}
		wk.flush(-1, 0, true)
		pprof.StopCPUProfile()
		os.Exit(0)
	}
	if dir := os.Getenv("C04_WPROF"); dir != "" { // development aid: CPU profile of the first 60 s of every worker
		if f, err := os.Create(fmt.Sprintf("%s/w-%d.prof", dir, os.Getpid())); err == nil {
			pprof.StartCPUProfile(f)
			defer pprof.StopCPUProfile()
		}
	}
	// Long-lived worker: an optional first unit (the one a previous instance died in, resumed behind
	// its last snapshot), then units pulled from the counter shared by all workers of the run.
	next := mapFile(argVal(args, "--next"), 8)
	counter := (*int64)(unsafe.Pointer(&next[0]))
	if s := argVal(args, "--first"); s != "" {
		var u int
		var k int64
		if n, _ := fmt.Sscanf(s, "%d:%d", &u, &k); n == 2 && u >= 0 && u < len(units) {
			wk.unit, wk.k, wk.resumeK = u, 0, k
			wk.runUnit(units[u])
			wk.flush(-1, 0, false)
		}
	}
	for {
		ui := int(atomic.AddInt64(counter, 1) - 1)
		if ui >= len(units) {
			break
		}
		wk.unit, wk.k, wk.resumeK = ui, 0, 0
		wk.runUnit(units[ui])
		wk.flush(-1, 0, false)
	}
	wk.flush(-1, 0, true)
	pprof.StopCPUProfile()
	os.Exit(0)
}
