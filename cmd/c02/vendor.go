package main

// Customised neighbours: frame.NewCodec / NewRawCodec accept application-specific message codecs that
// replace the built-in codec of an opcode FOR THAT FRAME CODEC. A process that holds such a codec must not
// change what every other, plain frame codec emits and accepts: before any case is judged, one customised
// codec per opcode is created and used once (its body is a vendor marker no specification prescribes), and
// again half-way through. The plain codecs under test exist before and are created after.

import (
	"bytes"
	"io"

	"github.com/datastax/go-cassandra-native-protocol/frame"
	"github.com/datastax/go-cassandra-native-protocol/message"
	"github.com/datastax/go-cassandra-native-protocol/primitive"

	"verif/internal/mon"
)

type vendorCodec struct{ op primitive.OpCode }

func (vendorCodec) Encode(_ message.Message, dest io.Writer, _ primitive.ProtocolVersion) error {
	_, err := dest.Write([]byte{0xCA, 0xFE, 0xBA})
	return err
}
func (vendorCodec) EncodedLength(message.Message, primitive.ProtocolVersion) (int, error) {
	return 3, nil
}
func (vendorCodec) Decode(source io.Reader, _ primitive.ProtocolVersion) (message.Message, error) {
	if _, err := io.ReadFull(source, make([]byte, 3)); err != nil {
		return nil, err
	}
	return &message.Options{}, nil
}
func (v vendorCodec) GetOpCode() primitive.OpCode { return v.op }

var vendorKept []interface{}

func customisedNeighbours(c *mon.Ctx) {
	for op := 0; op < 256; op++ {
		o := primitive.OpCode(op)
		if !o.IsValid() {
			continue
		}
		vc := vendorCodec{o}
		mon.Guard(func() {
			a := frame.NewCodec(vc)
			b := frame.NewRawCodecWithCompression(nil, vc)
			vendorKept = append(vendorKept, a, b)
			var buf bytes.Buffer
			f := frame.NewFrame(primitive.ProtocolVersion4, 1, &message.Options{})
			_ = a.EncodeFrame(f, &buf)
			_, _ = a.DecodeFrame(bytes.NewReader(buf.Bytes()))
			c.Count("customised_neighbour_codecs_created_and_used", 2)
		})
	}
}
