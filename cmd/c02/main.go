// C02 — emitted bytes conform to the native-protocol specification: the library's bytes are judged
// by an independent strict decoder written from /repo/specs, spec-formatted bytes produced by an
// independent encoder must decode to the message they denote, and all 2^16 (version byte, opcode)
// header combinations are accepted iff the specification defines them (DESIGN.md §4 C02).
package main

import (
	"bytes"
	"encoding/binary"
	"encoding/hex"
	"fmt"
	"io"
	"regexp"
	"sync"
	"sync/atomic"

	"github.com/datastax/go-cassandra-native-protocol/compression/lz4"
	"github.com/datastax/go-cassandra-native-protocol/compression/snappy"
	"github.com/datastax/go-cassandra-native-protocol/frame"
	"github.com/datastax/go-cassandra-native-protocol/message"
	"github.com/datastax/go-cassandra-native-protocol/primitive"

	"verif/internal/bridge"
	"verif/internal/cases"
	"verif/internal/gen"
	"verif/internal/mon"
	"verif/internal/ref"
	"verif/internal/segref"
)

func main() { mon.Main("C02", run) }

var codec = frame.NewRawCodec()

var digits = regexp.MustCompile(`[0-9]+|0x[0-9a-fA-F]+|\[[^\]]*\]|"[^"]*"`)

func errClass(s string) string {
	s = digits.ReplaceAllString(s, "#")
	if len(s) > 80 {
		s = s[:80]
	}
	out := make([]byte, 0, len(s))
	for i := 0; i < len(s); i++ {
		if s[i] == ' ' {
			out = append(out, '_')
		} else if s[i] >= 0x21 && s[i] < 0x7f {
			out = append(out, s[i])
		}
	}
	return string(out)
}

// lazyFrame renders the abstract frame only if the detail is actually written out.
type lazyFrame struct{ f *ref.Frame }

func (l lazyFrame) MarshalJSON() ([]byte, error) { return ref.JSON(l.f), nil }

type detail struct {
	ID      string      `json:"id"`
	Dir     string      `json:"direction"`
	Frame   interface{} `json:"frame"`
	LibHex  string      `json:"library_bytes_hex,omitempty"`
	RefHex  string      `json:"reference_bytes_hex,omitempty"`
	Got     interface{} `json:"got,omitempty"`
	Err     string      `json:"error,omitempty"`
	Diff    string      `json:"diff,omitempty"`
	Seed    int64       `json:"seed"`
	Comment string      `json:"comment,omitempty"`
}

func hexCap(b []byte) string {
	if len(b) > 2048 {
		return hex.EncodeToString(b[:2048]) + fmt.Sprintf("...(%d bytes)", len(b))
	}
	return hex.EncodeToString(b)
}

func hash(s string) uint64 {
	var h uint64 = 14695981039346656037
	for i := 0; i < len(s); i++ {
		h ^= uint64(s[i])
		h *= 1099511628211
	}
	return h
}

func run(c *mon.Ctx) {
	c.Rule = "cases = the C01 case list (exhaustive optional-field shapes per (kind, version) x value draws, all frame-flag combinations, PRNG frames), each judged in both directions (library bytes -> independent strict decoder; independent encoder bytes, with and without Global_tables_spec -> library decoder), plus the exhaustive 65536-entry (version byte, opcode) header table; distinct = distinct (kind, version, shape, flags, value classes, direction) + distinct header pairs"
	c.Assume("internal/ref: encoder and strict decoder written from /repo/specs/*.spec (my reading of the spec text is the trusted base; body prefix order tracing id, warnings, custom payload per v4 §2.2 / v5 §2.4.1.2)")
	c.Assume("internal/bridge FromLib/ToLib: what a library object denotes")
	for _, g := range bridge.FieldGuard() {
		c.Note("field guard: %s", g)
		c.Inconclusive("comparator-blind-field")
	}
	customisedNeighbours(c)
	if c.Replay != "" {
		var d detail
		if err := c.ReplayDetail(&d); err != nil {
			c.Fatal("replay: %v", err)
		}
		if d.Dir == "header-table" {
			headerTable(c)
			return
		}
		cs, ok := cases.ByID(c.Seed, d.ID, c.Thorough())
		if !ok {
			c.Fatal("replay: cannot regenerate %q", d.ID)
		}
		both(c, cs, d.ID)
		c.Distinct("replay-a")
		c.Distinct("replay-b")
		return
	}
	plan := cases.Plan{Seed: c.Seed, Draws: c.Pick(2, 6), Random: c.Pick(100000, 2000000), Big: c.Thorough()}
	st := cases.ForEach(plan, func(cs gen.Case, id string) { both(c, cs, id) })
	c.Set("shapes_enumerated", st.Shapes)
	c.Set("random_cases", st.Random)
	customisedNeighbours(c)
	headerTable(c)
	corners(c)
}

// corners: spec-conformant encodings that neither the library's nor the reference encoder ever produces,
// assembled by hand from the spec text and checked against the reference strict decoder first.
func corners(c *mon.Ctx) {
	msgCodec := map[primitive.OpCode]message.Codec{}
	for _, mc := range message.DefaultMessageCodecs {
		msgCodec[mc.GetOpCode()] = mc
	}
	for _, v := range ref.Versions {
		// RESULT Prepared whose variables metadata sets Global_tables_spec with a column count of 0:
		// "<global_table_spec> is present if the Global_tables_spec is set in <flags>" (v4 §4.2.5.4; the same
		// words in every version) — two strings follow although no column spec does.
		var b []byte
		b = append(b, 0, 0, 0, 4)     // kind = Prepared
		b = append(b, 0, 2, 'a', 'b') // <id> [short bytes]
		if v.HasResultMetadataID() {
			b = append(b, 0, 1, 'r') // <result_metadata_id>
		}
		b = append(b, 0, 0, 0, 1, 0, 0, 0, 0) // flags = Global_tables_spec, columns_count = 0
		if v.HasPkIndices() {
			b = append(b, 0, 0, 0, 0) // pk_count = 0
		}
		b = append(b, 0, 1, 'k', 0, 1, 't')   // <global_table_spec>
		b = append(b, 0, 0, 0, 4, 0, 0, 0, 0) // result metadata: No_metadata, columns_count = 0
		key := "corner/RESULT.Prepared/global-table-spec-with-zero-columns/" + v.String()
		if _, err := ref.DecodeBody(ref.Header{Version: v, Response: true, Opcode: ref.OpResult, Length: int32(len(b))}, b); err != nil {
			c.Fatal("corner vector for %v is refused by the reference decoder: %v", v, err)
		}
		c.Eval(1)
		rd := bytes.NewReader(b)
		var m message.Message
		var err error
		if pan, pv := mon.Guard(func() { m, err = msgCodec[primitive.OpCodeResult].Decode(rd, primitive.ProtocolVersion(v)) }); pan {
			c.Violation(key, map[string]interface{}{"version": v.String(), "bytes_hex": hex.EncodeToString(b), "panic": pv})
			continue
		}
		p, isPrepared := m.(*message.PreparedResult)
		if err != nil || rd.Len() != 0 || !isPrepared || (p.VariablesMetadata != nil && len(p.VariablesMetadata.Columns) != 0) || (p.ResultMetadata != nil && len(p.ResultMetadata.Columns) != 0) {
			c.Violation(key, map[string]interface{}{"version": v.String(), "bytes_hex": hex.EncodeToString(b), "error": fmt.Sprint(err), "bytes_left": rd.Len(),
				"decoded": fmt.Sprintf("%+v", m), "want": "a PreparedResult with id 'ab', no variable columns, no result columns, every byte consumed"})
			continue
		}
		c.Count("corner_vectors_ok", 1)
		c.Distinct(key)
	}
	for _, v := range ref.Versions {
		// ERROR Read_timeout: "<data_present> is a single byte. If its value is 0, it means the replica that was
		// asked for data has not responded. Otherwise, the value is != 0." — every non-zero byte means true.
		for _, dp := range []byte{0x02, 0x80, 0xFF} {
			var b []byte
			b = append(b, 0, 0, 0x12, 0)                // code 0x1200
			b = append(b, 0, 2, 'r', 't')               // message
			b = append(b, 0, 1, 0, 0, 0, 1, 0, 0, 0, 2) // cl = ONE, received = 1, blockfor = 2
			b = append(b, dp)
			key := fmt.Sprintf("corner/ERROR.ReadTimeout/data_present=%#02x/%s", dp, v.String())
			if _, err := ref.DecodeBody(ref.Header{Version: v, Response: true, Opcode: ref.OpError, Length: int32(len(b))}, b); err != nil {
				c.Fatal("corner vector %s is refused by the reference decoder: %v", key, err)
			}
			c.Eval(1)
			rd := bytes.NewReader(b)
			var m message.Message
			var err error
			if pan, pv := mon.Guard(func() { m, err = msgCodec[primitive.OpCodeError].Decode(rd, primitive.ProtocolVersion(v)) }); pan {
				c.Violation(key, map[string]interface{}{"version": v.String(), "bytes_hex": hex.EncodeToString(b), "panic": pv})
				continue
			}
			rt, ok := m.(*message.ReadTimeout)
			if err != nil || rd.Len() != 0 || !ok || !rt.DataPresent || rt.Received != 1 || rt.BlockFor != 2 {
				c.Violation(key, map[string]interface{}{"version": v.String(), "bytes_hex": hex.EncodeToString(b), "error": fmt.Sprint(err), "bytes_left": rd.Len(),
					"decoded": fmt.Sprintf("%+v", m), "want": "ReadTimeout{Received:1 BlockFor:2 DataPresent:true}: any non-zero <data_present> byte means true"})
				continue
			}
			c.Count("corner_vectors_ok", 1)
			c.Distinct(key)
		}
		// RESULT Rows with more rows than fit a [short]: <rows_count> is an [int]; 70000 one-byte cells
		{
			const nrows = 70000
			b := make([]byte, 0, 16+5*nrows)
			b = append(b, 0, 0, 0, 2)             // kind = Rows
			b = append(b, 0, 0, 0, 4, 0, 0, 0, 1) // flags = No_metadata, columns_count = 1
			b = append(b, byte(uint32(nrows)>>24), byte(uint32(nrows)>>16&0xff), byte(uint32(nrows)>>8&0xff), byte(uint32(nrows)&0xff))
			for i := 0; i < nrows; i++ {
				b = append(b, 0, 0, 0, 1, byte(i))
			}
			key := "corner/RESULT.Rows/70000-rows/" + v.String()
			c.Eval(1)
			rd := bytes.NewReader(b)
			var m message.Message
			var err error
			if pan, pv := mon.Guard(func() { m, err = msgCodec[primitive.OpCodeResult].Decode(rd, primitive.ProtocolVersion(v)) }); pan {
				c.Violation(key, map[string]interface{}{"version": v.String(), "panic": pv})
				continue
			}
			rows, ok := m.(*message.RowsResult)
			good := err == nil && rd.Len() == 0 && ok && len(rows.Data) == nrows
			if good {
				for _, i := range []int{0, 65535, 65536, nrows - 1} {
					good = good && len(rows.Data[i]) == 1 && len(rows.Data[i][0]) == 1 && rows.Data[i][0][0] == byte(i)
				}
			}
			if !good {
				got := -1
				if ok {
					got = len(rows.Data)
				}
				c.Violation(key, map[string]interface{}{"version": v.String(), "error": fmt.Sprint(err), "bytes_left": rd.Len(), "rows_decoded": got,
					"want": "70000 rows of one 1-byte cell each (cell i holds byte(i)), every byte consumed"})
				continue
			}
			c.Count("corner_vectors_ok", 1)
			c.Distinct(key)
		}
	}
}

// compressed judges the body compression formats of spec §5 at frame level, for legacy-framed versions:
// the library's LZ4 body must be a 4-byte big-endian uncompressed length followed by an LZ4 block, its Snappy
// body a Snappy block, each expanding (under the independent decoders of internal/segref) to the body the
// reference decoder accepts; and a body compressed by the independent LZ4 encoder must be accepted by the library.
func compressed(c *mon.Ctx, cs gen.Case, id string) {
	a := cs.Frame
	if a.Version == ref.V5 || a.Msg.Opcode() == ref.OpStartup {
		return
	}
	for _, comp := range []string{"lz4", "snappy"} {
		codec := compCodecs[comp]
		f := bridge.ToLib(a, true, bridge.NewVariant(mon.NewRand(c.Seed, hash(id)^0xC0)))
		var buf bytes.Buffer
		if err := codec.EncodeFrame(f, &buf); err != nil {
			continue // C01's business
		}
		lb := buf.Bytes()
		c.Eval(1)
		d := detail{ID: id, Dir: "lib->ref/" + comp, Frame: lazyFrame{a}, Seed: c.Seed}
		decompress := func(body []byte) ([]byte, error) {
			if comp == "snappy" {
				out, _, err := segref.SnappyDecodeBlock(body, 1<<28)
				return out, err
			}
			if len(body) < 4 {
				return nil, fmt.Errorf("LZ4 body shorter than its length prefix")
			}
			n := int(binary.BigEndian.Uint32(body[:4]))
			if n > 1<<28 {
				return nil, fmt.Errorf("LZ4 length prefix %d", n)
			}
			out, _, err := segref.LZ4DecodeBlock(body[4:], n)
			if err == nil && len(out) != n {
				err = fmt.Errorf("LZ4 length prefix says %d, block expands to %d", n, len(out))
			}
			return out, err
		}
		a2, h, err := ref.DecodeFrame(lb, decompress)
		switch {
		case err != nil:
			d.Err, d.LibHex = err.Error(), hexCap(lb)
			c.Violation("compressed/"+comp+"/not-spec-conformant/"+errClass(err.Error()), d)
		case h.Flags != a.Flags()|ref.FlagCompressed || !ref.Equal(a, ref.Norm(a2)):
			d.LibHex, d.Diff = hexCap(lb), ref.Diff(a, a2)
			c.Violation("compressed/"+comp+"/denotes-another-frame", d)
		default:
			c.Count("compressed_lib_bytes_accepted/"+comp, 1)
			c.Distinct(cs.Sig + "|" + comp)
		}
		if comp == "lz4" {
			rb, err := ref.EncodeFrameCompressed(a, ref.EncOpts{}, func(body []byte) []byte {
				out := binary.BigEndian.AppendUint32(nil, uint32(len(body)))
				return append(out, segref.LZ4EncodeBlock(body)...)
			})
			if err != nil {
				continue
			}
			c.Eval(1)
			d := detail{ID: id, Dir: "ref->lib/lz4", Frame: lazyFrame{a}, Seed: c.Seed}
			f2, err := codec.DecodeFrame(bytes.NewReader(rb))
			if err != nil {
				d.Err, d.RefHex = err.Error(), hexCap(rb)
				c.Violation("compressed/lz4/rejects-spec-bytes/"+errClass(err.Error()), d)
				continue
			}
			a3, fl, err := bridge.FromLib(f2)
			if err != nil || fl != a.Flags()|ref.FlagCompressed || !ref.Equal(a, a3) {
				d.RefHex, d.Diff = hexCap(rb), ref.Diff(a, a3)
				c.Violation("compressed/lz4/decodes-to-another-frame", d)
				continue
			}
			c.Count("compressed_reference_bytes_accepted/lz4", 1)
		}
	}
}

var compCodecs = map[string]frame.RawCodec{
	"lz4":    frame.NewRawCodecWithCompression(lz4.Compressor{}),
	"snappy": frame.NewRawCodecWithCompression(snappy.Compressor{}),
}

func both(c *mon.Ctx, cs gen.Case, id string) {
	if c.Saturated() {
		return // the verdict is decided; see mon.Saturated
	}
	a := cs.Frame
	if hash(id)%4 == 0 {
		compressed(c, cs, id)
	}
	// ---- (a) library encoder judged by the reference decoder ---------------------------------
	vr := bridge.NewVariant(mon.NewRand(c.Seed, hash(id)))
	f := bridge.ToLib(a, false, vr)
	var buf bytes.Buffer
	c.Eval(1)
	d := detail{ID: id, Dir: "lib->ref", Frame: lazyFrame{a}, Seed: c.Seed}
	if err := codec.EncodeFrame(f, &buf); err != nil {
		d.Err = err.Error()
		c.Violation("a/encode-error/"+errClass(err.Error()), d)
	} else {
		lb := buf.Bytes()
		a2, h, err := ref.DecodeFrame(lb, nil)
		if err != nil || h.Flags != a.Flags() || !ref.Equal(a, ref.Norm(a2)) {
			d.LibHex = hexCap(lb)
		}
		switch {
		case err != nil:
			d.Err = err.Error()
			c.Violation(diagnose(a, lb, "a/"+cs.Kind+"/"+a.Version.String()+"/not-spec-conformant/"+errClass(err.Error())), d)
		case h.Flags != a.Flags():
			d.Err = fmt.Sprintf("header flags %#x, want %#x", h.Flags, a.Flags())
			c.Violation("a/"+cs.Kind+"/"+a.Version.String()+"/header-flags", d)
		case !ref.Equal(a, ref.Norm(a2)):
			d.Got, d.Diff = ref.JSON(a2), ref.Diff(a, a2)
			c.Violation(diagnose(a, lb, "a/"+cs.Kind+"/"+a.Version.String()+"/denotes-another-frame"), d)
		default:
			c.Count("lib_bytes_accepted_by_reference_decoder", 1)
			if rb, err := ref.EncodeFrame(a, ref.EncOpts{}); err == nil && bytes.Equal(rb, lb) {
				c.Count("byte_identical_with_reference_encoder", 1)
			}
			c.Distinct(cs.Sig + "|a")
			if c.WantSample() && len(lb) < 200 {
				c.Sample(map[string]interface{}{"id": id, "direction": "lib->ref", "frame": ref.JSON(a), "library_bytes": hex.EncodeToString(lb)})
			}
		}
	}
	// ---- (b) reference encoder judged by the library decoder ---------------------------------
	for oi, o := range []ref.EncOpts{{}, {NoGlobalSpec: true}, {GlobalWithNoMetadata: true}} {
		rb, err := ref.EncodeFrame(a, o)
		if err != nil {
			c.Fatal("reference encoder refused a generated frame %s: %v", id, err)
		}
		c.Eval(1)
		d := detail{ID: id, Dir: "ref->lib", Frame: lazyFrame{a}, Seed: c.Seed, Comment: fmt.Sprintf("opts %+v", o)}
		rd := bytes.NewReader(rb)
		var src io.Reader = rd
		if (hash(id)+uint64(oi))%3 == 0 {
			src = &chunkReader{r: rd, n: 1 + int(hash(id)>>5)%9} // short reads, as a socket delivers them
			d.Comment += " chunked source"
		}
		f2, err := codec.DecodeFrame(src)
		if err != nil {
			d.RefHex = hexCap(rb)
			d.Err = err.Error()
			c.Violation(diagnose(a, nil, "b/"+cs.Kind+"/"+a.Version.String()+"/rejects-spec-bytes/"+errClass(err.Error())), d)
			continue
		}
		if rd.Len() != 0 {
			d.Err = fmt.Sprintf("%d bytes left unread", rd.Len())
			c.Violation(diagnose(a, nil, "b/"+cs.Kind+"/"+a.Version.String()+"/unread-bytes"), d)
			continue
		}
		a2, fl, err := bridge.FromLib(f2)
		if err != nil {
			d.Err = err.Error()
			c.Violation("b/"+cs.Kind+"/"+a.Version.String()+"/malformed/"+errClass(err.Error()), d)
			continue
		}
		if fl != a.Flags() || !ref.Equal(a, a2) {
			d.Got, d.Diff = ref.JSON(a2), ref.Diff(a, a2)
			c.Violation(diagnose(a, nil, "b/"+cs.Kind+"/"+a.Version.String()+"/decodes-to-another-frame"), d)
			continue
		}
		c.Count("reference_bytes_accepted_by_library", 1)
		c.Distinct(cs.Sig + "|b")
	}
}

// chunkReader returns at most n bytes per Read.
type chunkReader struct {
	r io.Reader
	n int
}

func (c *chunkReader) Read(p []byte) (int, error) {
	if len(p) > c.n {
		p = p[:c.n]
	}
	return c.r.Read(p)
}

// diagnose maps the symptoms of one well-understood deviation onto one stable key: when a frame
// carries both warnings and a custom payload, fails, and the same frame passes both directions with
// either part removed, the key names the body-prefix order instead of the message kind.
func diagnose(a *ref.Frame, libBytes []byte, key string) string {
	if a.Warnings != nil && a.Payload != nil {
		noW, noP := *a, *a
		noW.Warnings, noP.Payload = nil, nil
		if conforms(&noW) && conforms(&noP) {
			return "body-prefix-order/warnings-and-custom-payload"
		}
	}
	return key
}

// conforms runs both directions quietly.
func conforms(a *ref.Frame) bool {
	f := bridge.ToLib(a, false, nil)
	var buf bytes.Buffer
	if err := codec.EncodeFrame(f, &buf); err != nil {
		return false
	}
	a2, h, err := ref.DecodeFrame(buf.Bytes(), nil)
	if err != nil || h.Flags != a.Flags() || !ref.Equal(ref.Norm(a), ref.Norm(a2)) {
		return false
	}
	rb, err := ref.EncodeFrame(a, ref.EncOpts{})
	if err != nil {
		return false
	}
	f2, err := codec.DecodeFrame(bytes.NewReader(rb))
	if err != nil {
		return false
	}
	a3, fl, err := bridge.FromLib(f2)
	return err == nil && fl == a.Flags() && ref.Equal(ref.Norm(a), a3)
}

// ---- (c) the header table ----------------------------------------------------------------------

type bodyEntry struct {
	b []byte
	f *ref.Frame
}

var bodyCache sync.Map

func bodyFor(seed int64, v ref.Version, op byte) ([]byte, *ref.Frame) {
	key := int(v)<<8 | int(op)
	if e, ok := bodyCache.Load(key); ok {
		return e.(bodyEntry).b, e.(bodyEntry).f
	}
	b, f := bodyFor0(seed, v, op)
	bodyCache.Store(key, bodyEntry{b, f})
	return b, f
}

func bodyFor0(seed int64, v ref.Version, op byte) ([]byte, *ref.Frame) {
	r := mon.NewRand(seed, 0xC02<<20|uint64(v)<<8|uint64(op))
	for i := range gen.Kinds {
		k := &gen.Kinds[i]
		if !k.Defined(v) {
			continue
		}
		cs := gen.Frame(k, v, gen.NewRandChooser(r), r, false, 0)
		if cs.Frame.Msg.Opcode() != op {
			continue
		}
		b, err := ref.EncodeBody(cs.Frame, ref.EncOpts{})
		if err != nil {
			continue
		}
		return b, cs.Frame
	}
	return nil, nil
}

func headerTable(c *mon.Ctx) {
	var accepted, rejected int64
	mon.Parallel(256, func(vb int) {
		v := ref.Version(vb & 0x7f)
		resp := vb&0x80 != 0
		for op := 0; op < 256; op++ {
			legal := v.Supported() && ref.OpcodeDirection(v, byte(op)) >= 0 && (ref.OpcodeDirection(v, byte(op)) == 1) == resp
			// a body that is valid for the opcode whenever one exists (for the frame's version, else for DSE v2 / v4)
			var body []byte
			var af *ref.Frame
			bv := v
			if !v.Supported() {
				bv = ref.V4
			}
			if body, af = bodyFor(c.Seed, bv, byte(op)); body == nil {
				body, _ = bodyFor(c.Seed, ref.DSE2, byte(op))
			}
			var hb []byte
			if v.Supported() {
				hb = ref.EncodeHeader(v, resp, 0, 1, byte(op), int32(len(body)))
			} else {
				// unsupported versions: both header layouts are tried
				hb = append([]byte{byte(vb), 0, 0, 1, byte(op)}, byte(len(body)>>24), byte(len(body)>>16), byte(len(body)>>8), byte(len(body)))
			}
			in := append(append([]byte{}, hb...), body...)
			c.Eval(1)
			c.Distinct(fmt.Sprintf("hdr|%d|%d", vb, op))
			d := detail{ID: fmt.Sprintf("header/%#02x/%#02x", vb, op), Dir: "header-table", LibHex: hexCap(in), Seed: c.Seed}
			var f1 *frame.Frame
			var err1 error
			if p, val := mon.Guard(func() { f1, err1 = codec.DecodeFrame(bytes.NewReader(in)) }); p {
				d.Err = "panic: " + val
				c.Violation("header-table/panic", d)
				continue
			}
			var err2 error
			var f2 *frame.Frame
			if p, val := mon.Guard(func() {
				var raw *frame.RawFrame
				if raw, err2 = codec.DecodeRawFrame(bytes.NewReader(in)); err2 == nil {
					f2, err2 = codec.ConvertFromRawFrame(raw)
				}
			}); p {
				d.Err = "panic: " + val
				c.Violation("header-table/panic", d)
				continue
			}
			if legal {
				if err1 != nil || err2 != nil {
					d.Err = fmt.Sprintf("DecodeFrame: %v; DecodeRawFrame+Convert: %v", err1, err2)
					c.Violation(fmt.Sprintf("header-table/legal-pair-rejected/version=%#02x/opcode=%#02x", vb&0x7f, op), d)
					continue
				}
				if af != nil {
					want := *af
					want.Stream, want.Response = 1, resp
					for _, f := range []*frame.Frame{f1, f2} {
						got, _, err := bridge.FromLib(f)
						if err != nil || !ref.Equal(ref.Norm(&want), got) {
							d.Err = fmt.Sprintf("decoded frame differs: %v %s", err, ref.Diff(&want, got))
							c.Violation(fmt.Sprintf("header-table/legal-pair-misdecoded/version=%#02x/opcode=%#02x", vb&0x7f, op), d)
						}
					}
				}
				atomic.AddInt64(&accepted, 1)
			} else {
				if err1 == nil || err2 == nil {
					why := "unsupported version"
					if v.Supported() {
						if ref.OpcodeDirection(v, byte(op)) < 0 {
							why = "opcode not defined for the version"
						} else {
							why = "direction bit contradicts the opcode"
						}
					}
					d.Err = fmt.Sprintf("accepted although %s (DecodeFrame err=%v, DecodeRawFrame+Convert err=%v)", why, err1, err2)
					c.Violation(fmt.Sprintf("header-table/illegal-pair-accepted/%s/version=%#02x/opcode=%#02x", errClass(why), vb&0x7f, op), d)
					continue
				}
				atomic.AddInt64(&rejected, 1)
			}
		}
	})
	// EncodeHeader must refuse unsupported versions
	refused := 0
	for vn := 0; vn < 256; vn++ {
		v := ref.Version(vn)
		var buf bytes.Buffer
		err := codec.EncodeHeader(&frame.Header{Version: primitive.ProtocolVersion(vn), OpCode: primitive.OpCodeOptions, StreamId: 1}, &buf)
		c.Eval(1)
		c.Distinct(fmt.Sprintf("enchdr|%d", vn))
		if v.Supported() != (err == nil) {
			c.Violation(fmt.Sprintf("encode-header/version=%#02x/supported=%v", vn, v.Supported()), detail{Dir: "header-table", Err: fmt.Sprint(err), LibHex: hex.EncodeToString(buf.Bytes())})
		} else if err != nil {
			refused++
		}
	}
	c.Set("header_table", map[string]int64{"pairs": 65536, "legal_accepted": accepted, "illegal_rejected": rejected, "encode_header_versions_refused": int64(refused)})
	c.Set("exhaustive", false)
	c.Set("header_table_exhaustive", true)
}
