// C06 — segment round trip and v5 framing layout (DESIGN.md §C06).
//
// Forward: the library's segment codec encodes (payload, flag) with and without LZ4; the emitted
// bytes are parsed by segref's strict parser (independent header packing, bitwise CRC-24 and
// seeded CRC-32, own LZ4 block decoder) and decoded again by the library.
// Reverse: segments assembled by segref (plain, LZ4 fallback form, LZ4 blocks produced by segref's
// own encoder, including ~250:1 single-overlapping-match blocks) are decoded by the library.
// Side monitor: crc.ChecksumKoopman / crc.ChecksumIEEE against segref's CRCs on PRNG inputs.
package main

import (
	"bytes"
	"encoding/hex"
	"fmt"
	"io"
	"sort"
	"strings"

	"github.com/datastax/go-cassandra-native-protocol/compression/lz4"
	"github.com/datastax/go-cassandra-native-protocol/crc"
	"github.com/datastax/go-cassandra-native-protocol/segment"

	"verif/internal/mon"
	"verif/internal/segref"
)

func main() { mon.Main("C06", run) }

var classes = []segref.Class{segref.AllEqual, segref.Period7, segref.Text, segref.Random, segref.Window64K}

type kase struct {
	Seed   int64 `json:"seed"`
	Length int   `json:"length"`
	Flag   bool  `json:"self_contained"`
	Class  int   `json:"class"`
	// NoReverse: forward direction only (thorough sweep: the reverse direction is run for every 4th
	// length of the sweep and for every case of the boundary list)
	NoReverse bool `json:"no_reverse,omitempty"`
}

// payload is a pure function of (seed, length, class).
func (k kase) payload() []byte {
	return segref.Content(segref.Class(k.Class), k.Length, mon.NewRand(k.Seed, uint64(k.Length)*16+uint64(k.Class)))
}

type detail struct {
	Case     kase   `json:"case"`
	Class    string `json:"class_name"`
	Format   string `json:"format"`
	What     string `json:"what"`
	Got      string `json:"got,omitempty"`
	Want     string `json:"want,omitempty"`
	SegHead  string `json:"segment_first_bytes_hex,omitempty"`
	SegLen   int    `json:"segment_len,omitempty"`
	BuiltBy  string `json:"segment_built_by,omitempty"`
	Payload0 string `json:"payload_first_bytes_hex,omitempty"`
}

func head(b []byte, n int) string {
	if len(b) > n {
		b = b[:n]
	}
	return hex.EncodeToString(b)
}

func boundaryLengths() []int {
	set := map[int]bool{}
	for l := 0; l <= 300; l++ {
		set[l] = true
	}
	for k := 0; k <= 17; k++ {
		for _, d := range []int{-1, 0, 1} {
			if l := 1<<uint(k) + d; l >= 0 && l <= segref.MaxPayload {
				set[l] = true
			}
		}
	}
	for l := 65535; l <= 65537; l++ {
		set[l] = true
	}
	for l := 131000; l <= segref.MaxPayload; l++ {
		set[l] = true
	}
	out := make([]int, 0, len(set))
	for l := range set {
		out = append(out, l)
	}
	sort.Ints(out)
	return out
}

var refusalLengths = []int{131072, 131073, 1 << 18, 1 << 20}

func newCodec(f segref.Format) segment.Codec {
	if f == segref.LZ4 {
		return segment.NewCodecWithCompression(lz4.Compressor{})
	}
	return segment.NewCodec()
}

// shortReader hands out at most 3 bytes per Read.
type shortReader struct{ b []byte }

func (r *shortReader) Read(p []byte) (int, error) {
	if len(r.b) == 0 {
		return 0, io.EOF
	}
	n := 3
	if n > len(p) {
		n = len(p)
	}
	if n > len(r.b) {
		n = len(r.b)
	}
	copy(p, r.b[:n])
	r.b = r.b[n:]
	return n, nil
}

type checker struct{ c *mon.Ctx }

func (ck checker) viol(key string, k kase, f segref.Format, what, got, want string, seg []byte, builtBy string, p []byte) {
	ck.c.Violation(key, detail{Case: k, Class: segref.Class(k.Class).String(), Format: f.String(), What: what, Got: got, Want: want,
		SegHead: head(seg, 48), SegLen: len(seg), BuiltBy: builtBy, Payload0: head(p, 32)})
}

// decodeAndJudge feeds seg (one complete segment carrying payload p, flag s) to the library's
// decoder. prefix is "segment" for bytes the library emitted and "reverse/<form>" for bytes built
// by segref. compressedRatioOver8: the transmitted payload is an LZ4 block more than 8 times
// smaller than p (class of the pinned tree's decompression defect, keyed on its own).
func (ck checker) decodeAndJudge(prefix, builtBy string, k kase, f segref.Format, seg, p []byte, transmittedLen int, compressed bool) {
	c := ck.c
	var got *segment.Segment
	var err error
	panicked, pv := mon.Guard(func() { got, err = newCodec(f).DecodeSegment(bytes.NewReader(seg)) })
	c.Eval(1)
	sub := "decode"
	if panicked {
		ck.viol(prefix+"/"+f.String()+"/"+sub+"/panic", k, f, "DecodeSegment panicked", pv, "", seg, builtBy, p)
		return
	}
	if err != nil {
		var key string
		switch {
		case f == segref.Plain:
			key = prefix + "/plain/decode/error"
		case !compressed:
			key = prefix + "/lz4/decode/fallback-form"
		case !strings.Contains(err.Error(), "decompress"):
			key = prefix + "/lz4/decode/error" // refused before decompression (header, length, CRC)
		case len(p) > 8*transmittedLen:
			key = "segment/lz4/decode/ratio>8" // one class, whoever built the segment
		default:
			key = prefix + "/lz4/decode/ratio<=8"
		}
		ck.viol(key, k, f, "DecodeSegment refused a valid segment", err.Error(),
			fmt.Sprintf("payload of %d bytes (transmitted %d)", len(p), transmittedLen), seg, builtBy, p)
		return
	}
	if got == nil || got.Header == nil || got.Payload == nil {
		ck.viol(prefix+"/"+f.String()+"/decode/nil", k, f, "DecodeSegment returned nil parts without error", "", "", seg, builtBy, p)
		return
	}
	if !bytes.Equal(got.Payload.UncompressedData, p) {
		ck.viol(prefix+"/"+f.String()+"/decode/payload", k, f, "decoded payload differs",
			fmt.Sprintf("%d bytes %s…", len(got.Payload.UncompressedData), head(got.Payload.UncompressedData, 32)),
			fmt.Sprintf("%d bytes %s…", len(p), head(p, 32)), seg, builtBy, p)
	}
	if got.Header.IsSelfContained != k.Flag {
		ck.viol(prefix+"/"+f.String()+"/decode/flag", k, f, "decoded self-contained flag differs",
			fmt.Sprint(got.Header.IsSelfContained), fmt.Sprint(k.Flag), seg, builtBy, p)
	}
	wantComp := 0
	if f == segref.LZ4 && compressed {
		wantComp = transmittedLen
	}
	if int(got.Header.UncompressedPayloadLength) != len(p) || int(got.Header.CompressedPayloadLength) != wantComp {
		ck.viol(prefix+"/"+f.String()+"/decode/header-lengths", k, f, "decoded header lengths inconsistent with the payload",
			fmt.Sprintf("uncompressed=%d compressed=%d", got.Header.UncompressedPayloadLength, got.Header.CompressedPayloadLength),
			fmt.Sprintf("uncompressed=%d compressed=%d", len(p), wantComp), seg, builtBy, p)
	}
	// not part of the statement, only counted: the CRC fields of the returned structs equal the stored ones
	hl := f.HeaderLen()
	le := func(b []byte) (v uint32) {
		for i := range b {
			v |= uint32(b[i]) << (8 * uint(i))
		}
		return
	}
	if got.Header.Crc24 != le(seg[hl:hl+3]) || got.Payload.Crc32 != le(seg[len(seg)-4:]) {
		c.Count("unjudged_decoded_crc_fields_differ", 1)
	}
	// a segment stream: two copies back to back must decode twice (the decoder must consume
	// exactly one segment). Only for small segments, to keep the cost down.
	if len(seg) <= 400 {
		two := append(append([]byte{}, seg...), seg...)
		rd := &shortReader{b: two} // an io.Reader may deliver fewer bytes than asked for
		cd := newCodec(f)
		var e1, e2 error
		var s1, s2 *segment.Segment
		pan, pv := mon.Guard(func() {
			s1, e1 = cd.DecodeSegment(rd)
			s2, e2 = cd.DecodeSegment(rd)
		})
		c.Eval(1)
		if pan || e1 != nil || e2 != nil || len(rd.b) != 0 || s1 == nil || s2 == nil ||
			!bytes.Equal(s1.Payload.UncompressedData, p) || !bytes.Equal(s2.Payload.UncompressedData, p) {
			ck.viol(prefix+"/"+f.String()+"/decode/stream", k, f, "two identical segments back to back, read through an io.Reader that returns 3 bytes per call, do not decode to the payload twice",
				fmt.Sprintf("panic=%v %s err1=%v err2=%v left=%d", pan, pv, e1, e2, len(rd.b)), "", seg, builtBy, p)
		}
	}
}

// forward: library encodes, segref parses, library decodes.
func (ck checker) forward(k kase, f segref.Format, p []byte) {
	c := ck.c
	seg := &segment.Segment{ // fresh structs per call: the codec writes into the header
		Header:  &segment.Header{IsSelfContained: k.Flag},
		Payload: &segment.Payload{UncompressedData: p},
	}
	var buf bytes.Buffer
	var err error
	panicked, pv := mon.Guard(func() { err = newCodec(f).EncodeSegment(seg, &buf) })
	c.Eval(1)
	if panicked {
		ck.viol("encode/panic/"+f.String(), k, f, "EncodeSegment panicked", pv, "", nil, "library", p)
		return
	}
	if len(p) > segref.MaxPayload {
		c.Count("refusals_expected", 1)
		if err == nil {
			ck.viol("encode/accepted/"+f.String()+"/len>131071", k, f, "EncodeSegment accepted an oversized payload", fmt.Sprintf("%d bytes emitted", buf.Len()), "error", buf.Bytes(), "library", p)
		} else {
			c.Count("refusals_seen", 1)
			if buf.Len() != 0 {
				c.Count("unjudged_refusal_after_partial_write", 1)
			}
		}
		return
	}
	if err != nil {
		cl := "len<131071"
		if len(p) == segref.MaxPayload {
			cl = "len=131071"
		}
		ck.viol("encode/refused/"+f.String()+"/"+cl, k, f, "EncodeSegment refused a legal payload", err.Error(), "", nil, "library", p)
		return
	}
	out := buf.Bytes()
	parsed, probs := segref.ParseStrict(f, out)
	for _, pr := range probs {
		ck.viol("layout/"+f.String()+"/"+pr.Field, k, f, "emitted bytes deviate from the v5 layout", pr.Text, "", out, "library", p)
	}
	if len(probs) != 0 {
		// still try the decode side below only when the parse got to the payload
		if parsed.Total == 0 {
			return
		}
	}
	h := parsed.Header
	if h.SelfContained != k.Flag {
		ck.viol("layout/"+f.String()+"/flag", k, f, "self-contained bit (bit 17 / 34) wrong", fmt.Sprint(h.SelfContained), fmt.Sprint(k.Flag), out, "library", p)
	}
	if want := f.HeaderLen() + 3 + int(h.Length) + 4; len(out) != want {
		ck.viol("layout/"+f.String()+"/total-length", k, f, "total segment length", fmt.Sprint(len(out)), fmt.Sprint(want), out, "library", p)
	}
	compressed := false
	switch f {
	case segref.Plain:
		c.Count("forward_plain", 1)
		if int(h.Length) != len(p) {
			ck.viol("layout/plain/length", k, f, "payload length field", fmt.Sprint(h.Length), fmt.Sprint(len(p)), out, "library", p)
		}
		if !bytes.Equal(parsed.Transmitted, p) {
			ck.viol("layout/plain/payload", k, f, "transmitted payload differs from the payload", head(parsed.Transmitted, 32), head(p, 32), out, "library", p)
		}
	case segref.LZ4:
		if h.UncompressedLength == 0 {
			// fallback form (or an empty payload): length field = len(p), payload verbatim
			c.Count("forward_lz4_fallback", 1)
			if int(h.Length) != len(p) || !bytes.Equal(parsed.Transmitted, p) {
				ck.viol("layout/lz4/fallback", k, f, "uncompressed-length field is 0 but the rest is not the payload verbatim",
					fmt.Sprintf("length field %d, transmitted %s…", h.Length, head(parsed.Transmitted, 32)),
					fmt.Sprintf("length field %d, transmitted %s…", len(p), head(p, 32)), out, "library", p)
			}
		} else {
			compressed = true
			c.Count("forward_lz4_compressed", 1)
			if int(h.UncompressedLength) != len(p) {
				ck.viol("layout/lz4/uncompressed-length", k, f, "uncompressed-length field", fmt.Sprint(h.UncompressedLength), fmt.Sprint(len(p)), out, "library", p)
			}
			exp, st, derr := segref.LZ4DecodeBlock(parsed.Transmitted, len(p))
			if derr != nil || !bytes.Equal(exp, p) {
				// The encoder emitted something that is not an LZ4 block for p. One cause, one key: what
				// the library's own decoder makes of these bytes is recorded in the detail, not judged.
				kind := segref.LZ4Diagnose(parsed.Transmitted, p)
				var got *segment.Segment
				var lerr error
				pan, _ := mon.Guard(func() { got, lerr = newCodec(f).DecodeSegment(bytes.NewReader(out)) })
				own := "library decodes its own bytes to the payload"
				switch {
				case pan:
					own = "library decoder panics on its own bytes"
				case lerr != nil:
					own = "library decoder refuses its own bytes: " + lerr.Error()
				case got == nil || !bytes.Equal(got.Payload.UncompressedData, p):
					own = "library decoder silently returns a DIFFERENT payload"
				}
				c.Count("decode_not_judged_after_invalid_block", 1)
				ck.viol("layout/lz4/block/"+kind, k, f, "transmitted payload is not an LZ4 block that expands to the payload; "+own,
					fmt.Sprintf("err=%v, %d bytes expanded", derr, len(exp)), fmt.Sprintf("%d bytes", len(p)), out, "library", p)
				return
			}
			if len(parsed.Transmitted) > 0 {
				c.Max("max_ratio_x100_library_block", int64(len(p))*100/int64(len(parsed.Transmitted)))
			}
			c.Max("max_overlap_library_block", int64(st.MaxOverlap))
			if !st.EndRulesOK {
				c.Count("unjudged_library_block_breaks_end_rules", 1)
			}
			if len(p) > 8*len(parsed.Transmitted) {
				c.Count("forward_lz4_ratio_over_8", 1)
			}
			if len(parsed.Transmitted) >= len(p) {
				c.Count("unjudged_lz4_compressed_form_not_smaller", 1)
			}
		}
	}
	c.Distinct(fmt.Sprintf("fwd/%s/%d/%v/%d/%v", f, k.Length, k.Flag, k.Class, compressed))
	if c.WantSample() && k.Length > 8 && k.Length < 40 {
		c.Sample(map[string]interface{}{"direction": "library encodes", "format": f.String(), "length": k.Length, "self_contained": k.Flag,
			"class": segref.Class(k.Class).String(), "segment_hex": hex.EncodeToString(out), "header": fmt.Sprintf("%+v", h)})
	}
	ck.decodeAndJudge("segment", "library", k, f, out, p, len(parsed.Transmitted), compressed)
}

// reverse: segref builds, library decodes.
func (ck checker) reverse(k kase, p []byte) {
	c := ck.c
	if len(p) > segref.MaxPayload {
		return
	}
	if seg, err := segref.WritePlain(p, k.Flag); err == nil {
		c.Count("reverse_plain", 1)
		ck.decodeAndJudge("reverse", "segref.WritePlain", k, segref.Plain, seg, p, len(p), false)
	} else {
		c.Fatal("segref.WritePlain: %v", err)
	}
	if seg, err := segref.WriteLZ4Fallback(p, k.Flag); err == nil {
		c.Count("reverse_lz4_fallback", 1)
		ck.decodeAndJudge("reverse", "segref.WriteLZ4Fallback", k, segref.LZ4, seg, p, len(p), false)
	} else {
		c.Fatal("segref.WriteLZ4Fallback: %v", err)
	}
	if len(p) == 0 {
		return // uncompressed length 0 cannot announce a compressed empty payload
	}
	type form struct {
		name string
		blk  []byte
	}
	forms := []form{{"segref.LZ4EncodeBlock", segref.LZ4EncodeBlock(p)}}
	if len(p) <= 300 || len(p)%257 == 0 {
		forms = append(forms, form{"segref.LZ4EncodeLiteral", segref.LZ4EncodeLiteral(p)})
	}
	for _, per := range []int{1, 7} {
		if blk, ok := segref.LZ4EncodeRun(p, per); ok && !bytes.Equal(blk, forms[0].blk) {
			forms = append(forms, form{fmt.Sprintf("segref.LZ4EncodeRun(period=%d)", per), blk})
		}
	}
	for _, fm := range forms {
		if len(fm.blk) > segref.MaxPayload {
			c.Count("reverse_block_too_long_for_a_segment", 1)
			continue
		}
		// self check of the oracle: its own decoder must expand its own block to p
		if exp, _, err := segref.LZ4DecodeBlock(fm.blk, len(p)); err != nil || !bytes.Equal(exp, p) {
			c.Fatal("segref encoder/decoder disagree on %+v: %v", k, err)
		}
		seg, err := segref.WriteLZ4Compressed(fm.blk, len(p), k.Flag)
		if err != nil {
			c.Fatal("segref.WriteLZ4Compressed: %v", err)
		}
		c.Count("reverse_lz4_block", 1)
		c.Max("max_ratio_x100_segref_block", int64(len(p))*100/int64(len(fm.blk)))
		if len(p) > 8*len(fm.blk) {
			c.Count("reverse_lz4_ratio_over_8", 1)
		}
		if len(fm.blk) > len(p) {
			c.Count("reverse_lz4_block_longer_than_payload", 1)
		}
		c.Distinct(fmt.Sprintf("rev/%s/%d/%v/%d", fm.name, k.Length, k.Flag, k.Class))
		ck.decodeAndJudge("reverse", fm.name, k, segref.LZ4, seg, p, len(fm.blk), true)
	}
}

func (ck checker) runCase(k kase) {
	p := k.payload()
	ck.forward(k, segref.Plain, p)
	ck.forward(k, segref.LZ4, p)
	if !k.NoReverse {
		ck.reverse(k, p)
	}
}

func (ck checker) crcMonitor(n int) {
	c := ck.c
	const chunk = 1000
	mon.Parallel(n/chunk, func(i int) {
		r := mon.NewRand(c.Seed, 1<<40+uint64(i))
		for j := 0; j < chunk; j++ {
			v := r.Uint64()
			var l int
			switch j % 4 {
			case 0:
				l = 3
			case 1:
				l = 5
			default:
				l = 1 + r.Intn(8)
			}
			if j%16 == 15 { // sparse values
				v &= r.Uint64() & r.Uint64()
			}
			got := crc.ChecksumKoopman(v, l)
			want := segref.CRC24OfInt(v, l)
			c.Eval(1)
			if got != want {
				c.Violation(fmt.Sprintf("crc24/len=%d", l), map[string]interface{}{"data": fmt.Sprintf("%#x", v), "len": l, "got": fmt.Sprintf("%06x", got), "want": fmt.Sprintf("%06x", want)})
			}
			var bl int
			switch r.Intn(20) {
			case 0:
				bl = r.Intn(5000)
			case 1:
				bl = 0
			default:
				bl = r.Intn(96)
			}
			b := r.Bytes(bl)
			g32 := crc.ChecksumIEEE(b)
			w32 := segref.CRC32(b)
			c.Eval(1)
			if g32 != w32 {
				c.Violation("crc32/seeded-ieee", map[string]interface{}{"data_hex": hex.EncodeToString(b), "got": fmt.Sprintf("%08x", g32), "want": fmt.Sprintf("%08x", w32)})
			}
		}
		c.Count("crc24_compared", chunk)
		c.Count("crc32_compared", chunk)
	})
	c.Distinct("crc-monitor")
}

func run(c *mon.Ctx) {
	c.Rule = "case = (payload length, self-contained flag, content class in {all-equal, period-7, text-like, PRNG, 12-byte records repeating with period 65536 (edge of the LZ4 window)}); payload bytes are a pure function of (seed, length, class). " +
		"Each case is encoded by the library with and without LZ4 (bytes judged by segref's strict parser and own LZ4 decoder, then decoded by the library) and, in reverse, built by segref " +
		"(plain, LZ4 fallback form, LZ4 blocks from segref's own encoder incl. single-overlapping-match and literal-only blocks) and decoded by the library. " +
		"quick: lengths {0..300, 2^k-1..2^k+1, 65535..65537, 131000..131071} x flag x 5 classes + refusal lengths {131072,131073,2^18,2^20}; " +
		"thorough: every length 0..131071 x flag with a rotating class (library-encodes direction for all of them, segref-builds direction for every 4th length), plus the quick list. A signature is (direction, format/encoder, length, flag, class, compressed-or-fallback). " +
		"Sequences (quick 400, thorough 20000 indices x {plain, lz4} x {bytes.Reader, 3-bytes-per-Read reader}): 6..14 segments of repeating/shrinking/growing lengths and different contents, in every wire form of the format " +
		"(library-encoded, segref plain / LZ4 fallback / LZ4 block), encoded by ONE codec instance into separate buffers and decoded by ONE codec instance from one stream; every earlier output / returned payload / returned header is " +
		"re-verified byte for byte after each later call, and after the caller overwrites each returned payload."
	c.Assume("segref (bitwise CRC-24/CRC-32, header bit packing, LZ4 block codec) is correct; it is pinned by external vectors in internal/segref/segref_test.go (CRC catalogue check value, Cassandra/Java-driver snapshots, hand-assembled blocks)")
	c.Assume("the 'not compressed' signal inside the LZ4 format is uncompressed-length field = 0 with the payload length in the first field (Cassandra's FrameEncoderLZ4/FrameDecoderLZ4 and DESIGN.md §C06); the sentence in native_protocol_v5.spec §2.3.2 says 'compressed length to 0', which cannot carry a payload length and is taken as a typo")
	c.Assume("a sender may compress or fall back at its discretion (spec §2.3.2): which of the two forms the library picks is counted, not judged")
	ck := checker{c}
	for i := 0; i < 3000; i++ { // the table-driven CRC-32 used for bulk data must equal the bit-by-bit reference
		b := mon.NewRand(c.Seed, 1<<41+uint64(i)).Bytes(i * 7 % 5000)
		if segref.CRC32(b) != segref.CRC32Bulk(b) {
			c.Fatal("segref.CRC32Bulk disagrees with the bit-by-bit CRC32 on %d bytes", len(b))
		}
	}

	if c.Replay != "" {
		var d struct {
			detail
			Sequence *seqCase `json:"sequence"`
		}
		if err := c.ReplayDetail(&d); err != nil {
			c.Fatal("replay: %v", err)
		}
		if d.Sequence != nil {
			ck.runSequence(*d.Sequence)
		} else {
			ck.runCase(d.Case)
		}
		return
	}

	var cases []kase
	for _, l := range boundaryLengths() {
		for _, s := range []bool{false, true} {
			for _, cl := range classes {
				cases = append(cases, kase{Seed: c.Seed, Length: l, Flag: s, Class: int(cl)})
			}
		}
	}
	for _, l := range refusalLengths {
		for _, s := range []bool{false, true} {
			for _, cl := range classes {
				cases = append(cases, kase{Seed: c.Seed, Length: l, Flag: s, Class: int(cl)})
			}
		}
	}
	if c.Thorough() {
		for l := 0; l <= segref.MaxPayload; l++ {
			for si, s := range []bool{false, true} {
				cases = append(cases, kase{Seed: c.Seed, Length: l, Flag: s, Class: int(classes[(l+si)%len(classes)]), NoReverse: l%4 != 0})
			}
		}
	}
	c.Set("cases", len(cases))
	// big cases first would serialise badly; dynamic scheduling over the list as is (sorted by
	// length) keeps all workers busy because the long tail is many cases, not one
	mon.Parallel(len(cases), func(i int) { ck.runCase(cases[len(cases)-1-i]) })

	ck.runSequences(c.Pick(400, 20000))

	ck.crcMonitor(c.Pick(1000000, 4000000))

	// did the run exercise what the statement is about?
	if c.Counter("max_ratio_x100_segref_block") < 20000 || c.Counter("max_ratio_x100_library_block") < 20000 {
		c.Inconclusive(fmt.Sprintf("no LZ4 segment with ratio > 200:1 was produced (library %d/100, segref %d/100)",
			c.Counter("max_ratio_x100_library_block"), c.Counter("max_ratio_x100_segref_block")))
	}
	if c.Counter("forward_lz4_fallback") == 0 || c.Counter("forward_lz4_compressed") == 0 {
		c.Inconclusive("the library never produced both the compressed and the fallback form")
	}
	if c.Counter("sequence_segments") == 0 {
		c.Inconclusive("no decode sequence on a single codec instance completed")
	}
	if c.Counter("refusals_expected") == 0 {
		c.Inconclusive("no oversized payload was tried")
	}
}
