package main

// Sequences on ONE codec instance. "Decoding the bytes returns the same payload" has to stay true
// after the codec is used again: a payload (or header) handed to the caller must not change when
// the same codec decodes the next segment, nor when the caller writes into a later payload; and
// bytes already emitted by EncodeSegment must not change when the codec encodes the next segment.
// A codec that keeps a scratch buffer and hands it out passes every single encode->decode->compare.

import (
	"bytes"
	"fmt"
	"io"

	"github.com/datastax/go-cassandra-native-protocol/segment"

	"verif/internal/mon"
	"verif/internal/segref"
)

type seqCase struct {
	Seed   int64  `json:"seed"`
	Index  int    `json:"index"`
	Format string `json:"format"` // plain | lz4
	Reader string `json:"reader"` // bytes.Reader | 3-byte-reads
}

type seqItem struct {
	p    []byte
	flag bool
	form string // how the segment bytes were produced
	seg  []byte
	comp bool // LZ4 block on the wire
	tlen int  // transmitted payload length
}

var seqLengthPool = []int{0, 1, 2, 3, 7, 8, 15, 16, 17, 31, 32, 33, 64, 100, 255, 256, 257, 300, 1000, 1024, 4096}

// buildSequence is a pure function of (seed, index, format): 6..14 segments whose lengths repeat,
// shrink and grow (so that a reused buffer is both large enough and too small at some point), with
// different contents, both flag values, and every way of putting a payload on the wire in that format.
func buildSequence(c *mon.Ctx, sc seqCase) []seqItem {
	f := segref.Plain
	if sc.Format == "lz4" {
		f = segref.LZ4
	}
	r := mon.NewRand(sc.Seed, 1<<42+uint64(sc.Index)*2+uint64(f))
	n := 6 + r.Intn(9)
	items := make([]seqItem, 0, n)
	prevLen := -1
	for i := 0; i < n; i++ {
		var l int
		switch v := r.Intn(10); {
		case prevLen >= 0 && v < 3:
			l = prevLen // same length, different content
		case prevLen > 0 && v < 5:
			l = r.Intn(prevLen + 1) // shorter: fits a buffer sized for the previous one
		case v < 9:
			l = seqLengthPool[r.Intn(len(seqLengthPool))]
		default:
			l = []int{65535, 65536, 65537, 100000, 131071}[r.Intn(5)]
			if sc.Index%8 != 0 { // big segments in one sequence out of 8: cost
				l = seqLengthPool[r.Intn(len(seqLengthPool))]
			}
		}
		prevLen = l
		cl := classes[r.Intn(len(classes))]
		p := segref.Content(cl, l, r)
		it := seqItem{p: p, flag: r.Bool()}
		var err error
		switch {
		case f == segref.Plain && r.Bool():
			it.form = "segref.WritePlain"
			it.seg, err = segref.WritePlain(p, it.flag)
			it.tlen = l
		case f == segref.Plain:
			it.form = "library EncodeSegment (plain)"
		default:
			switch r.Intn(4) {
			case 0:
				it.form = "segref.WriteLZ4Fallback"
				it.seg, err = segref.WriteLZ4Fallback(p, it.flag)
				it.tlen = l
			case 1:
				blk := segref.LZ4EncodeBlock(p)
				if l > 0 && len(blk) <= segref.MaxPayload {
					it.form = "segref.WriteLZ4Compressed(LZ4EncodeBlock)"
					it.seg, err = segref.WriteLZ4Compressed(blk, l, it.flag)
					it.comp, it.tlen = true, len(blk)
				} else {
					it.form = "segref.WriteLZ4Fallback"
					it.seg, err = segref.WriteLZ4Fallback(p, it.flag)
					it.tlen = l
				}
			default:
				it.form = "library EncodeSegment (lz4)"
			}
		}
		if err != nil {
			c.Fatal("sequence builder: %v", err)
		}
		items = append(items, it)
	}
	// every other sequence: the payloads are consecutive sub-slices of ONE buffer, the way a sender cuts a
	// large envelope into segment-sized parts — each payload slice has spare capacity that is the next payload
	if sc.Index%2 == 0 {
		total := 0
		for _, it := range items {
			total += len(it.p)
		}
		big := make([]byte, 0, total+16)
		for i := range items {
			off := len(big)
			big = append(big, items[i].p...)
			items[i].p = big[off:len(big)]
		}
		big = append(big, "canary-after-last"[:16]...)
	}
	return items
}

func (ck checker) seqViol(key string, sc seqCase, what string, pos int, it seqItem, got []byte) {
	ck.c.Violation(key, map[string]interface{}{
		"sequence": sc, "what": what, "position_in_sequence": pos, "segment_built_by": it.form,
		"payload_len": len(it.p), "payload_first_bytes_hex": head(it.p, 32), "now_first_bytes_hex": head(got, 32),
		"segment_first_bytes_hex": head(it.seg, 48),
	})
}

func (ck checker) runSequence(sc seqCase) {
	c := ck.c
	f := segref.Plain
	if sc.Format == "lz4" {
		f = segref.LZ4
	}
	items := buildSequence(c, sc)

	// ---- encode side: one codec instance, every segment into its own buffer; earlier output must stay put
	enc := newCodec(f)
	outs := make([]*bytes.Buffer, len(items))
	snaps := make([][]byte, len(items))
	inputs := make([][]byte, len(items))
	for i := range items {
		inputs[i] = append([]byte(nil), items[i].p...)
	}
	for i := range items {
		it := &items[i]
		outs[i] = &bytes.Buffer{}
		seg := &segment.Segment{Header: &segment.Header{IsSelfContained: it.flag}, Payload: &segment.Payload{UncompressedData: it.p}}
		var err error
		pan, pv := mon.Guard(func() { err = enc.EncodeSegment(seg, outs[i]) })
		c.Eval(1)
		if pan || err != nil {
			ck.seqViol("segment/"+sc.Format+"/encode/sequence", sc, fmt.Sprintf("EncodeSegment fails inside a sequence on one codec: %v %v", pv, err), i, *it, nil)
			return
		}
		snaps[i] = append([]byte(nil), outs[i].Bytes()...)
		if it.seg == nil { // this item travels in the form the library gave it
			it.seg = snaps[i]
			parsed, probs := segref.ParseStrict(f, it.seg)
			if len(probs) != 0 {
				// layout is judged per case by forward(); a malformed segment cannot drive the decode sequence
				ck.seqViol("segment/"+sc.Format+"/encode/sequence", sc, "segment emitted inside a sequence on one codec deviates from the layout: "+probs[0].Error(), i, *it, it.seg)
				return
			}
			it.tlen = len(parsed.Transmitted)
			it.comp = f == segref.LZ4 && parsed.Header.UncompressedLength != 0
			if pl, err := parsed.Payload(); err != nil || !bytes.Equal(pl, it.p) {
				ck.seqViol("segment/"+sc.Format+"/encode/sequence", sc, fmt.Sprintf("segment emitted inside a sequence on one codec does not carry the payload (independent parse: %v)", err), i, *it, pl)
				return
			}
		}
		for j := range items { // later payloads too: they are the spare capacity of the earlier ones
			if j <= i && !bytes.Equal(outs[j].Bytes(), snaps[j]) {
				ck.seqViol("segment/"+sc.Format+"/encode/output-changed-by-later-encode", sc,
					fmt.Sprintf("bytes emitted for segment %d changed after the same codec encoded segment %d", j, i), j, items[j], outs[j].Bytes())
				return
			}
			if !bytes.Equal(items[j].p, inputs[j]) {
				ck.seqViol("segment/"+sc.Format+"/encode/input-payload-modified", sc,
					fmt.Sprintf("the caller's payload of segment %d was modified by the codec (seen after encoding segment %d)", j, i), j, items[j], items[j].p)
				return
			}
		}
	}

	// ---- decode side: one codec instance, one stream, every returned segment retained
	var stream []byte
	for _, it := range items {
		stream = append(stream, it.seg...)
	}
	var rd io.Reader
	var left func() int
	if sc.Reader == "bytes.Reader" {
		br := bytes.NewReader(stream)
		rd, left = br, br.Len
	} else {
		sr := &shortReader{b: stream}
		rd, left = sr, func() int { return len(sr.b) }
	}
	dec := newCodec(f)
	got := make([]*segment.Segment, len(items))
	hdrs := make([]segment.Header, len(items))
	recheck := func(upTo int, after string) bool {
		for j := 0; j <= upTo; j++ {
			if !bytes.Equal(got[j].Payload.UncompressedData, items[j].p) {
				form := "uncompressed-on-the-wire"
				if items[j].comp {
					form = "lz4-block-on-the-wire"
				}
				c.Count("sequence_alias_"+form, 1)
				ck.seqViol("segment/"+sc.Format+"/decode/payload-aliases-codec-buffer", sc,
					fmt.Sprintf("payload returned for segment %d (%s) was correct when returned and differs %s", j, form, after), j, items[j], got[j].Payload.UncompressedData)
				return false
			}
			if *got[j].Header != hdrs[j] {
				ck.seqViol("segment/"+sc.Format+"/decode/header-changed-by-later-use", sc,
					fmt.Sprintf("header returned for segment %d changed %s: %+v, was %+v", j, after, *got[j].Header, hdrs[j]), j, items[j], nil)
				return false
			}
		}
		return true
	}
	for i, it := range items {
		var s *segment.Segment
		var err error
		pan, pv := mon.Guard(func() { s, err = dec.DecodeSegment(rd) })
		c.Eval(1)
		if pan || err != nil || s == nil || s.Header == nil || s.Payload == nil {
			key := "segment/" + sc.Format + "/decode/sequence"
			if err != nil && it.comp && len(it.p) > 8*it.tlen && bytes.Contains([]byte(err.Error()), []byte("decompress")) {
				key = "segment/lz4/decode/ratio>8"
			}
			ck.seqViol(key, sc, fmt.Sprintf("DecodeSegment fails on segment %d of a stream read by one codec: %v %v", i, pv, err), i, it, nil)
			return
		}
		got[i] = s
		hdrs[i] = *s.Header
		if !bytes.Equal(s.Payload.UncompressedData, it.p) || s.Header.IsSelfContained != it.flag {
			ck.seqViol("segment/"+sc.Format+"/decode/sequence", sc, fmt.Sprintf("segment %d of a stream read by one codec decodes to a different payload/flag", i), i, it, s.Payload.UncompressedData)
			return
		}
		if !recheck(i, fmt.Sprintf("after the same codec decoded segment %d", i)) {
			return
		}
	}
	if left() != 0 {
		ck.seqViol("segment/"+sc.Format+"/decode/sequence", sc, fmt.Sprintf("%d bytes of the stream left unread", left()), len(items)-1, items[len(items)-1], nil)
		return
	}
	// the caller owns what it got: scribbling over one payload must not show in another
	for i := len(items) - 1; i >= 0; i-- {
		b := got[i].Payload.UncompressedData
		for k := range b {
			b[k] ^= 0xA5
		}
		for j := range items {
			if j != i && len(items[j].p) > 0 && !bytes.Equal(got[j].Payload.UncompressedData, items[j].p) {
				ck.seqViol("segment/"+sc.Format+"/decode/payloads-share-memory", sc,
					fmt.Sprintf("writing into the payload returned for segment %d changed the payload returned for segment %d", i, j), j, items[j], got[j].Payload.UncompressedData)
				return
			}
		}
		for k := range b {
			b[k] ^= 0xA5
		}
	}
	c.Count("sequences_"+sc.Format+"_"+sc.Reader, 1)
	c.Count("sequence_segments", int64(len(items)))
	c.Distinct(fmt.Sprintf("seq/%s/%s/%d", sc.Format, sc.Reader, sc.Index))
}

func (ck checker) runSequences(n int) {
	c := ck.c
	mon.Parallel(n, func(i int) {
		for _, f := range []string{"plain", "lz4"} {
			for _, rk := range []string{"bytes.Reader", "3-byte-reads"} {
				ck.runSequence(seqCase{Seed: c.Seed, Index: i, Format: f, Reader: rk})
			}
		}
	})
}
