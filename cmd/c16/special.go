package main

// Special scripted scenarios and the timeout clause.

import (
	"context"
	"fmt"
	"net"
	"runtime/debug"
	"strings"
	"time"

	"github.com/datastax/go-cassandra-native-protocol/client"
	"github.com/datastax/go-cassandra-native-protocol/frame"
	"github.com/datastax/go-cassandra-native-protocol/message"
	"github.com/datastax/go-cassandra-native-protocol/primitive"
)

// runConnectAndInit: CqlClient.ConnectAndInit whose handshake fails although the TCP connection is
// healthy. Whatever the caller gets back is closed by the caller; afterwards nothing of that client may
// be left: no client-package goroutine, and the peer must see the socket closed.
func runConnectAndInit(sp *caseSpec, res *caseResult) {
	s := &sess{sp: sp, res: res}
	cause := strings.TrimPrefix(sp.Name, "ConnectAndInit-failed/")
	s.cliCtx, s.cliCancel = context.WithCancel(context.Background())
	s.srvCtx, s.srvCancel = context.WithCancel(context.Background())
	defer s.cliCancel()
	defer s.srvCancel()
	ver := primitive.ProtocolVersion4
	var addr string
	duringAuth := strings.HasSuffix(cause, "-after-AUTH_RESPONSE") || strings.HasSuffix(cause, "-during-auth")
	gotAuthResponse := make(chan struct{})
	var creds *client.AuthCredentials
	if duringAuth {
		creds = &client.AuthCredentials{Username: "u", Password: "p"}
	}
	peerClosed := make(chan bool, 1) // raw peer: true = the socket was seen closed (EOF / reset), false = still open at the limit
	var srv *client.CqlServer
	var lis net.Listener
	if cause == "unexpected-authenticate-libserver" {
		srv = client.NewCqlServer("127.0.0.1:0", &client.AuthCredentials{Username: "u", Password: "p"})
		srv.RequestHandlers = []client.RequestHandler{client.HandshakeHandler}
		if err := srv.Start(s.srvCtx); err != nil {
			res.Inc = append(res.Inc, "set-up failed: "+trimAddr(err.Error()))
			return
		}
		addr = srv.VerifAddr().String()
	} else {
		l, err := net.Listen("tcp", "127.0.0.1:0")
		if err != nil {
			res.Inc = append(res.Inc, "set-up failed: "+trimAddr(err.Error()))
			return
		}
		lis = l
		addr = l.Addr().String()
		go func() {
			c, err := l.Accept()
			if err != nil {
				peerClosed <- true
				return
			}
			p := newRawPeer(c)
			defer p.close()
			if f, err := p.read(stepLimit); err == nil {
				switch cause {
				case "unexpected-authenticate":
					_ = p.write(frame.NewFrame(f.Header.Version, f.Header.StreamId, &message.Authenticate{Authenticator: "org.apache.cassandra.auth.PasswordAuthenticator"}))
				case "error-response":
					_ = p.write(frame.NewFrame(f.Header.Version, f.Header.StreamId, &message.Invalid{ErrorMessage: "verif: not now"}))
				}
				if duringAuth {
					// AUTHENTICATE; the fault lands between the client's AUTH_RESPONSE and its answer
					_ = p.write(frame.NewFrame(f.Header.Version, f.Header.StreamId, &message.Authenticate{Authenticator: "org.apache.cassandra.auth.PasswordAuthenticator"}))
					if ar, err := p.read(stepLimit); err == nil {
						if _, ok := ar.Body.Message.(*message.AuthResponse); ok {
							close(gotAuthResponse)
							switch cause {
							case "peer-closes-after-AUTH_RESPONSE":
								p.close()
								peerClosed <- true
								return
							case "peer-resets-after-AUTH_RESPONSE":
								p.reset()
								peerClosed <- true
								return
							case "error-after-AUTH_RESPONSE":
								_ = p.write(frame.NewFrame(ar.Header.Version, ar.Header.StreamId, &message.Invalid{ErrorMessage: "verif: not now"}))
							}
						}
					}
				}
			}
			// from now on the peer only watches the socket: it must be closed by the other side
			buf := make([]byte, 256)
			deadline := time.Now().Add(closeLimit)
			for {
				_ = c.SetReadDeadline(deadline)
				if _, err := c.Read(buf); err != nil {
					ne, ok := err.(net.Error)
					peerClosed <- !(ok && ne.Timeout())
					return
				}
			}
		}()
	}
	cl := client.NewCqlClient(addr, creds)
	cl.ReadTimeout = readTimeout
	if cause == "no-answer" || cause == "silent-after-AUTH_RESPONSE" {
		cl.ReadTimeout = shortTimeout
	}
	var conn *client.CqlClientConnection
	var w *callWatch
	if cause == "client.Close-during-auth" {
		// Close needs the handle: Connect, then InitiateHandshake (what ConnectAndInit does), Close meanwhile
		c0, err := cl.Connect(s.cliCtx)
		if err != nil {
			res.Inc = append(res.Inc, "set-up failed: "+trimAddr(err.Error()))
			return
		}
		conn = c0
		w = watch("InitiateHandshake", func() error { return c0.InitiateHandshake(ver, client.ManagedStreamId) })
	} else {
		w = watch("ConnectAndInit", func() error {
			var e error
			conn, e = cl.ConnectAndInit(s.cliCtx, ver, client.ManagedStreamId)
			return e
		})
	}
	if cause == "client.ctx-during-auth" || cause == "client.Close-during-auth" {
		select {
		case <-gotAuthResponse:
			if cause == "client.ctx-during-auth" {
				s.cliCancel()
			} else {
				c0 := conn
				s.calls = append(s.calls, watch("client.Close", func() error { return c0.Close() }))
			}
		case <-time.After(stepLimit):
			res.Inc = append(res.Inc, "fault point not reached: the peer did not get an AUTH_RESPONSE")
		}
	}
	cleanup := func() {
		s.cliCancel()
		s.srvCancel()
		if lis != nil {
			lis.Close()
		}
		if srv != nil {
			_ = srv.Close()
		}
	}
	if !waitUntil(10*cl.ReadTimeout+settle, w.returned) {
		res.Inc = append(res.Inc, "ConnectAndInit did not return within the limit")
		res.Abandon = true
		cleanup()
		return
	}
	if w.panicked {
		s.viol("panic-"+panicSlug(w.panicVal), map[string]interface{}{"panic": w.panicVal, "stack": w.stack})
		res.Abandon = true
		cleanup()
		return
	}
	if w.err == nil {
		res.Inc = append(res.Inc, "fault point not reached: the handshake unexpectedly succeeded")
		if conn != nil {
			_ = conn.Close()
		}
		cleanup()
		return
	}
	s.faultNote = "ConnectAndInit: " + trimAddr(w.err.Error())
	// the caller closes what it was given
	if conn != nil {
		res.count("ConnectAndInit_returned_connection_with_error", 1)
		cw := watch("client.Close", func() error { return conn.Close() })
		s.calls = append(s.calls, cw)
		if !waitUntil(settle, cw.returned) {
			if !s.deadlockVerdict(cw) {
				s.inconclusive("client.Close slow")
			}
		}
	} else {
		res.count("ConnectAndInit_returned_nil_with_error", 1)
	}
	// nothing of THAT CLIENT may be left (the library server's own goroutines are not the client's)
	ofClient := func() []gor {
		var out []gor
		for _, g := range clientGoroutines() {
			if strings.Contains(g.Stack, "CqlClientConnection)") || strings.Contains(g.Stack, "inFlightRequest)") {
				out = append(out, g)
			}
		}
		return out
	}
	leaked := false
	if !waitUntil(settle, func() bool { return len(ofClient()) == 0 }) {
		if st, _ := stable(time.Second); st {
			leaked = true
			tops := map[string]bool{}
			gs := ofClient()
			for _, g := range gs {
				tops[funcSuffix.ReplaceAllString(g.Top, "")] = true
			}
			for t := range tops {
				s.viol("goroutine-leak/"+t, map[string]interface{}{"returned_connection_nil": conn == nil, "goroutines": excerpt(gs)})
			}
		} else {
			s.inconclusive("ConnectAndInit: client goroutines still running")
		}
	}
	// the peer must see the socket closed
	if srv != nil {
		if !waitUntil(settle, func() bool { cs, err := srv.AllAcceptedClients(); return err == nil && len(cs) == 0 }) {
			if st, gs := stable(time.Second); st {
				s.viol("socket-left-open", map[string]interface{}{"returned_connection_nil": conn == nil, "goroutines": excerpt(gs)})
			} else {
				s.inconclusive("ConnectAndInit: server connection state not stable")
			}
		}
	} else {
		select {
		case closed := <-peerClosed:
			if !closed {
				s.viol("socket-left-open", map[string]interface{}{"returned_connection_nil": conn == nil, "waited_s": closeLimit.Seconds()})
			}
		case <-time.After(settle):
			if leaked {
				s.viol("socket-left-open", map[string]interface{}{"returned_connection_nil": conn == nil, "note": "the connection's goroutines are still alive and blocked; the peer has not seen EOF"})
			} else if st, _ := stable(time.Second); st {
				s.viol("socket-left-open", map[string]interface{}{"returned_connection_nil": conn == nil})
			} else {
				s.inconclusive("ConnectAndInit: peer did not see the socket closed within the settle bound")
			}
		}
	}
	cleanup()
	// after the contexts were cancelled everything must go away (otherwise the worker is not reusable)
	if !waitUntil(settle, func() bool { return len(clientGoroutines()) == 0 }) {
		res.Abandon = true
	}
	res.Evals = 1
	res.Sigs = append(res.Sigs, sp.signature())
	res.count("special_cases", 1)
}

func runSpecial(sp *caseSpec, res *caseResult) {
	if strings.HasPrefix(sp.Name, "ConnectAndInit-failed/") {
		runConnectAndInit(sp, res)
		return
	}
	s := &sess{sp: sp, res: res}
	switch sp.Name {
	case "server.Close/unaccepted-holder", "server.Close/accept-blocked", "server.ctx/accept-blocked":
		// Two servers. The client is connected to server B; Accept(client) is asked of server A, which
		// never sees that client: the holder registered by Accept stays without a connection.
		s.cliCtx, s.cliCancel = context.WithCancel(context.Background())
		s.srvCtx, s.srvCancel = context.WithCancel(context.Background())
		a := client.NewCqlServer("127.0.0.1:0", nil)
		b := client.NewCqlServer("127.0.0.1:0", nil)
		blocked := strings.HasSuffix(sp.Name, "/accept-blocked")
		byCtx := strings.HasPrefix(sp.Name, "server.ctx/")
		a.AcceptTimeout = 30 * time.Millisecond
		if blocked {
			a.AcceptTimeout = 60 * time.Second // the library's default: a blocked Accept must not need it to return
		}
		aCtx, aCancel := context.WithCancel(s.srvCtx)
		defer aCancel()
		if err := a.Start(aCtx); err != nil {
			res.Inc = append(res.Inc, "set-up failed: "+trimAddr(err.Error()))
			return
		}
		if err := b.Start(s.srvCtx); err != nil {
			res.Inc = append(res.Inc, "set-up failed: "+trimAddr(err.Error()))
			_ = a.Close()
			return
		}
		cl := client.NewCqlClient(b.VerifAddr().String(), nil)
		cc, err := cl.Connect(s.cliCtx)
		if err != nil {
			res.Inc = append(res.Inc, "set-up failed: "+trimAddr(err.Error()))
			_ = a.Close()
			_ = b.Close()
			return
		}
		s.cc = cc
		var acc *callWatch
		confirmed, skipB := false, false
		if blocked {
			acc = watch("server.Accept", func() error { _, err := a.Accept(cc); return err })
			s.recvs = append(s.recvs, acc)
			// confirmed blocked: the goroutine is inside Accept, parked in its select (holder registered)
			confirmed = waitUntil(2*time.Second, func() bool {
				for _, g := range clientGoroutines() {
					if g.Harness && strings.Contains(g.Stack, "CqlServer).Accept") && g.State == "select" {
						return true
					}
				}
				return false
			})
		} else {
			if _, err := a.Accept(cc); err == nil {
				res.Inc = append(res.Inc, "Accept of a foreign client unexpectedly succeeded")
			}
		}
		// the fault: close server A, or cancel its context
		var w *callWatch
		if byCtx {
			aCancel()
			w = watch("server.ctx", func() error { waitUntil(settle, a.IsClosed); return nil })
		} else {
			w = watch("server.Close", func() error { return a.Close() })
		}
		s.calls = append(s.calls, w)
		if !waitUntil(settle, w.returned) {
			if !s.deadlockVerdict(w) {
				s.inconclusive("server.Close slow")
			}
		}
		if w.returned() && w.panicked {
			s.viol("panic-"+panicSlug(w.panicVal), map[string]interface{}{"panic": w.panicVal, "stack": w.stack})
			res.Abandon = true // connectionsLock of server A stays locked; its awaitDone goroutine needs the context
		}
		if acc != nil && !(w.returned() && w.panicked) {
			// A goroutine that was blocked inside Accept when the server was closed must return because of the
			// close, not because its AcceptTimeout (60 s) expires much later. If it was NOT observed blocked before
			// the fault (it may then register its holder after the handler was closed) nothing is judged.
			switch {
			case waitUntil(settle, acc.returned):
				res.count("accept_returned_on_close", 1)
				if acc.err == nil {
					s.viol("blocked-accept-returned-without-error", nil)
				}
			case !confirmed:
				s.inconclusive("Accept was not observed blocked before the fault; its late return is not judged")
				res.Abandon = true
				skipB = true
			default:
				if st, gs := stable(time.Second); st {
					s.viol("receiver-stuck/server.Accept", map[string]interface{}{"goroutines": excerpt(gs),
						"note": "still inside Accept after the server was closed; only AcceptTimeout would release it"})
				} else {
					s.inconclusive("blocked Accept: not stable")
				}
				res.Abandon = true
			}
		} else if acc != nil {
			res.Abandon = true
		}
		// clean up: B, client; server A gets a second Close (a no-op unless the first one panicked half-way)
		s.server = b
		if w.returned() && w.panicked {
			s.srvCancel() // A's remaining goroutine waits for the context; its Close panicked, so this is not judged
		}
		if skipB {
			_ = cc.Close()
			_ = b.Close()
			s.cliCancel()
			s.srvCancel()
		} else {
			s.stageB()
		}
		// A's own goroutines end with the context
		res.Evals = 1
		res.Sigs = append(res.Sigs, sp.signature())
		res.count("special_cases", 1)
	case "server.Close/after-MaxConnections-accepts":
		// MaxConnections = 3; four clients connect one after the other, each accepted with Accept(client)
		// and closed again; nobody calls AcceptAny. Then the server is closed.
		s.cliCtx, s.cliCancel = context.WithCancel(context.Background())
		s.srvCtx, s.srvCancel = context.WithCancel(context.Background())
		srv := client.NewCqlServer("127.0.0.1:0", nil)
		srv.MaxConnections = 3
		srv.AcceptTimeout = 2 * time.Second
		if err := srv.Start(s.srvCtx); err != nil {
			res.Inc = append(res.Inc, "set-up failed: "+trimAddr(err.Error()))
			return
		}
		s.server = srv
		accepted := 0
		for i := 0; i < 4; i++ {
			cl := client.NewCqlClient(srv.VerifAddr().String(), nil)
			cc, err := cl.Connect(s.cliCtx)
			if err != nil {
				break
			}
			// Accept is itself a blocking call of the library: watched, never trusted to return
			var sc *client.CqlServerConnection
			wa := watch("server.Accept", func() error { var e error; sc, e = srv.Accept(cc); return e })
			if !waitUntil(srv.AcceptTimeout+settle, wa.returned) {
				s.recvs = append(s.recvs, wa)
				if st, gs := stable(time.Second); st {
					s.viol("receiver-stuck/server.Accept", map[string]interface{}{"connection_number": i + 1, "goroutines": excerpt(gs)})
				} else {
					s.inconclusive("Accept slow, not stable")
				}
				break
			}
			if wa.err == nil && sc != nil {
				accepted++
				w1 := watch("client.Close", func() error { return cc.Close() })
				waitUntil(settle, func() bool { return w1.returned() && sc.IsClosed() })
			} else {
				// not accepted (the 4th one on the pinned tree): its client connection is closed anyway
				w1 := watch("client.Close", func() error { return cc.Close() })
				waitUntil(settle, w1.returned)
			}
		}
		s.faultNote = fmt.Sprintf("%d of 4 sequential connections accepted", accepted)
		w := watch("server.Close", func() error { return srv.Close() })
		s.calls = append(s.calls, w)
		if !waitUntil(settle, w.returned) {
			if !s.deadlockVerdict(w) {
				s.inconclusive("server.Close slow")
			}
		}
		if w.returned() && w.panicked {
			s.viol("panic-"+panicSlug(w.panicVal), map[string]interface{}{"panic": w.panicVal, "stack": w.stack})
			res.Abandon = true
		}
		if !res.Abandon {
			s.stageB()
		}
		res.Evals = 1
		res.Sigs = append(res.Sigs, sp.signature())
		res.count("special_cases", 1)
		res.count("special_connections_accepted", int64(accepted))
	case "dup-id/shim-inflight":
		// the in-flight handler alone: a request pending on id 7, a second one with id 7 (refused), close
		ctx, cancel := context.WithCancel(context.Background())
		defer cancel()
		v := client.VerifNewInFlight(ctx, 8, 4, readTimeout)
		first, err := v.Enqueue(frame.NewFrame(primitive.ProtocolVersion4, 7, &message.Options{}))
		if err != nil {
			res.Inc = append(res.Inc, "set-up failed: "+trimAddr(err.Error()))
			return
		}
		t1 := newTrack("first-on-id-7", false, first)
		s.addReq(t1)
		if second, err := v.Enqueue(frame.NewFrame(primitive.ProtocolVersion4, 7, &message.Options{})); err != nil {
			res.count("duplicate_id_send_refused", 1)
		} else {
			res.count("duplicate_id_send_accepted", 1)
			s.addReq(newTrack("second-on-id-7", false, second))
		}
		if p, val, st := guard("Close", func() { v.Close() }); p {
			s.viol("handler-close/panic-"+panicSlug(val), map[string]interface{}{"panic": val, "stack": st})
		} else {
			waitUntil(settle, func() bool { return t1.poll() })
			// nothing can complete a request any more once the handler is closed and its context cancelled
			cancel()
			waitUntil(settle, func() bool { return len(clientGoroutines()) == 0 })
			s.judgeRequests("A", len(clientGoroutines()) == 0, nil)
		}
		res.Evals = 1
		res.Sigs = append(res.Sigs, sp.signature())
		res.count("special_cases", 1)
	case "send-after-close":
		// Send / Receive / ReceiveEvent / Close on connections that are closed already, from every side
		sp2 := *sp
		sp2.Step, sp2.Fault = "ready", "client.Close"
		s.sp = &sp2
		if err := s.open(); err != nil {
			res.Inc = append(res.Inc, "set-up failed: "+trimAddr(err.Error()))
			s.stageBQuiet()
			return
		}
		if err := s.runSteps(); err != nil {
			res.Inc = append(res.Inc, "fault point not reached: "+trimAddr(err.Error()))
			s.stageBQuiet()
			return
		}
		s.sp = sp
		w := watch("client.Close", func() error { return s.cc.Close() })
		s.calls = append(s.calls, w)
		waitUntil(settle, func() bool { return w.returned() && s.cc.IsClosed() && s.sc.IsClosed() })
		if !(w.returned() && s.cc.IsClosed() && s.sc.IsClosed()) {
			s.inconclusive("send-after-close: connections not closed within the settle bound")
		} else {
			for k := 0; k < 3; k++ {
				s.judgeLaterSends()
			}
			w2 := watch("client.ReceiveEvent-after-close", func() error { _, err := s.cc.ReceiveEvent(); return err })
			w3 := watch("serverConn.Receive-after-close", func() error { _, err := s.sc.Receive(); return err })
			for _, ww := range []*callWatch{w2, w3} {
				if !waitUntil(settle, ww.returned) {
					if st, gs := stable(time.Second); st {
						s.viol("receiver-stuck/"+ww.Name, map[string]interface{}{"goroutines": excerpt(gs)})
						res.Abandon = true
					} else {
						s.inconclusive("receive after close: not stable")
					}
				} else if ww.panicked {
					s.viol(ww.Name+"/panic-"+panicSlug(ww.panicVal), map[string]interface{}{"panic": ww.panicVal, "stack": ww.stack})
				} else if ww.err == nil {
					s.viol(ww.Name+"/no-error", nil)
				}
			}
		}
		s.stageB()
		res.Evals = 1
		res.Sigs = append(res.Sigs, sp.signature())
		res.count("special_cases", 1)
	case "double-close":
		// Close called from 4 goroutines at once on each object: every call returns, nothing panics
		sp2 := *sp
		sp2.Step, sp2.Fault, sp2.K = "inflight", "client.Close", 4
		s.sp = &sp2
		if err := s.open(); err != nil {
			res.Inc = append(res.Inc, "set-up failed: "+trimAddr(err.Error()))
			s.stageBQuiet()
			return
		}
		if err := s.runSteps(); err != nil {
			res.Inc = append(res.Inc, "fault point not reached: "+trimAddr(err.Error()))
			s.stageBQuiet()
			return
		}
		s.sp = sp
		for k := 0; k < 4; k++ {
			s.calls = append(s.calls, watch("client.Close", func() error { return s.cc.Close() }))
			s.calls = append(s.calls, watch("serverConn.Close", func() error { return s.sc.Close() }))
			s.calls = append(s.calls, watch("server.Close", func() error { return s.server.Close() }))
		}
		sp.Fault = "client.Close" // for expectClosed
		s.stageA()
		sp.Fault = ""
		if !res.Abandon {
			s.stageB()
		}
		res.Evals = 1
		res.Sigs = append(res.Sigs, sp.signature())
		res.count("special_cases", 1)
	}
}

// ---------------------------------------------------------------------------------------------
// timeout clause, on the shim's in-flight handler; judged on the monitor's own timestamps.

func guard(name string, f func()) (panicked bool, val, stack string) {
	defer func() {
		if r := recover(); r != nil {
			panicked, val, stack = true, fmt.Sprint(r), string(debug.Stack())
		}
	}()
	f()
	return
}

func runTimeout(sp *caseSpec, res *caseResult) {
	if strings.HasPrefix(sp.Name, "public/") {
		runTimeoutPublic(sp, res)
		return
	}
	T := time.Duration(sp.RT) * time.Millisecond
	ctx, cancel := context.WithCancel(context.Background())
	defer cancel()
	v := client.VerifNewInFlight(ctx, 8, 64, T)
	viol := func(ob string, extra map[string]interface{}) {
		d := map[string]interface{}{"case": sp, "T_ms": sp.RT, "obligation": ob}
		for k, x := range extra {
			d[k] = x
		}
		res.addViolation(sp.keyPrefix()+"/"+ob, d)
	}
	ms := func(d time.Duration) float64 { return float64(d.Microseconds()) / 1000 }
	reqFrame := frame.NewFrame(primitive.ProtocolVersionDse2, 0, &message.Query{Query: "paged"})
	t0a := time.Now()
	req, err := v.Enqueue(reqFrame)
	t0b := time.Now()
	if err != nil {
		res.Inc = append(res.Inc, "timeout: enqueue failed: "+err.Error())
		return
	}
	id := req.StreamId()
	closedNow := func() bool {
		for {
			select {
			case _, ok := <-req.Incoming():
				if !ok {
					return true
				}
			default:
				return false
			}
		}
	}
	// waitClosed blocks until the channel closes (draining frames) or the limit expires; returns the observation time
	waitClosed := func(limit time.Duration) (time.Time, bool) {
		tm := time.NewTimer(limit)
		defer tm.Stop()
		for {
			select {
			case _, ok := <-req.Incoming():
				if !ok {
					return time.Now(), true
				}
			case <-tm.C:
				return time.Now(), false
			}
		}
	}
	finalState := func(stage string, tc time.Time, silenceFrom time.Time) {
		err := req.Err()
		info := map[string]interface{}{"stage": stage, "err": fmt.Sprint(err), "is_done": req.IsDone(), "closed_after_ms_of_silence": ms(tc.Sub(silenceFrom))}
		if err == nil {
			viol("err-nil", info)
		} else if !strings.Contains(err.Error(), "timed out") {
			viol("wrong-error", info)
		}
		if !req.IsDone() {
			viol("not-done", info)
		}
	}
	deliver := func(page int, last bool) (start, end time.Time, perr string) {
		f := frame.NewFrame(primitive.ProtocolVersionDse2, id, pageMsg(page, last))
		start = time.Now()
		p, val, _ := guard("Deliver", func() { _ = v.Deliver(f) })
		end = time.Now()
		if p {
			perr = val
		}
		return
	}
	closeHandler := func() {
		if p, val, st := guard("Close", func() { v.Close() }); p {
			viol("handler-close/panic-"+panicSlug(val), map[string]interface{}{"panic": val, "stack": st})
		}
	}
	res.Evals = 1
	res.Sigs = append(res.Sigs, sp.signature())
	res.count("timeout_cases", 1)

	switch sp.Name {
	case "no-frames": // (t1)
		tc, ok := waitClosed(closeLimit)
		if !ok {
			viol("never", map[string]interface{}{"waited_s": closeLimit.Seconds()})
			closeHandler()
			return
		}
		upper := tc.Sub(t0a) // the real time between arming and closing is <= this
		lower := tc.Sub(t0b)
		res.max("max_t1_elapsed_ms", int64(ms(upper)))
		switch {
		case upper < T*9/10:
			viol("early", map[string]interface{}{"elapsed_ms_at_most": ms(upper)})
		case lower > 10*T:
			res.Inc = append(res.Inc, "t1: closed later than 10 T (load?)")
		}
		finalState("t1", tc, t0a)
		closeHandler()
	case "during-pages", "after-page", "after-pages": // (t2) and (t3)
		pages := 12 // every T/4 for 3 T
		step := T / 4
		if sp.Name == "after-page" {
			pages = 1
		} else if sp.Name == "after-pages" {
			pages = 3
		}
		prevStart := t0a
		gapsOK := true
		var maxGap time.Duration
		var lastStart, lastEnd time.Time
		next := t0a.Add(step)
		for p := 1; p <= pages; p++ {
			if d := time.Until(next); d > 0 {
				time.Sleep(d)
			}
			// state just before this delivery: must still be open if all gaps so far were short
			if closedNow() {
				// the silence up to the moment the closure was observed (measured after the observation:
				// an upper bound of the silence at the time it closed)
				silence := time.Since(prevStart)
				if gapsOK && silence < T/2 {
					viol("closed-early", map[string]interface{}{"before_page": p, "max_gap_ms": ms(maxGap), "since_last_delivery_ms": ms(silence),
						"err": fmt.Sprint(req.Err()), "is_done": req.IsDone()})
				} else {
					res.Inc = append(res.Inc, "t2: an inter-delivery gap reached T/2; closure not judged")
				}
				closeHandler()
				return
			}
			st, en, perr := deliver(p, false)
			if perr != "" {
				viol("deliver/panic-"+panicSlug(perr), map[string]interface{}{"page": p, "panic": perr})
				closeHandler()
				return
			}
			gap := en.Sub(prevStart)
			if gap > maxGap {
				maxGap = gap
			}
			if gap >= T/2 {
				gapsOK = false
			}
			prevStart, lastStart, lastEnd = st, st, en
			next = next.Add(step)
		}
		res.max("max_interdelivery_gap_ms", int64(ms(maxGap)))
		if sp.Name == "during-pages" {
			// one more look right after the last delivery
			if closedNow() && gapsOK && time.Since(lastStart) < T/2 {
				viol("closed-early", map[string]interface{}{"before_page": pages + 1, "max_gap_ms": ms(maxGap)})
				closeHandler()
				return
			}
			if !gapsOK {
				res.Inc = append(res.Inc, "t2: an inter-delivery gap reached T/2; not judged")
			} else {
				res.count("t2_stayed_open", 1)
			}
		}
		// (t3) the pages stop: it must fail after T of silence
		tc, ok := waitClosed(closeLimit)
		if !ok {
			viol("never", map[string]interface{}{"waited_s": closeLimit.Seconds()})
			closeHandler()
			return
		}
		upper := tc.Sub(lastStart)
		lower := tc.Sub(lastEnd)
		switch {
		case !gapsOK:
			res.Inc = append(res.Inc, "t3: gaps too long to judge earliness")
		case upper < T*9/10:
			viol("early", map[string]interface{}{"elapsed_ms_at_most": ms(upper), "pages": pages})
		case lower > 10*T:
			res.Inc = append(res.Inc, "t3: closed later than 10 T (load?)")
		}
		finalState("t3", tc, lastStart)
		// a late page after the failure must be refused without incident
		_, _, perr := deliver(pages+1, true)
		if perr != "" {
			viol("late-deliver/panic-"+panicSlug(perr), map[string]interface{}{"panic": perr})
		}
		closeHandler()
	}
}
