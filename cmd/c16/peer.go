package main

// Raw peers and the fault-injecting net.Conn.
//
// rawPeer speaks the legacy (v3/v4/DSE) framing over any net.Conn, using the library's frame codec
// only to build / parse the bytes; all faults come from the network side: close, half-close,
// reset (SO_LINGER 0), silence, partial frames.

import (
	"bytes"
	"errors"
	"io"
	"net"
	"sync"
	"sync/atomic"
	"time"

	"github.com/datastax/go-cassandra-native-protocol/frame"
)

type rawPeer struct {
	conn  net.Conn
	codec frame.Codec
	wmu   sync.Mutex
}

func newRawPeer(conn net.Conn) *rawPeer { return &rawPeer{conn: conn, codec: frame.NewCodec()} }

func (p *rawPeer) read(timeout time.Duration) (*frame.Frame, error) {
	_ = p.conn.SetReadDeadline(time.Now().Add(timeout))
	return p.codec.DecodeFrame(p.conn)
}

func (p *rawPeer) encode(f *frame.Frame) ([]byte, error) {
	buf := &bytes.Buffer{}
	if err := p.codec.EncodeFrame(f, buf); err != nil {
		return nil, err
	}
	return buf.Bytes(), nil
}

func (p *rawPeer) write(f *frame.Frame) error {
	b, err := p.encode(f)
	if err != nil {
		return err
	}
	p.wmu.Lock()
	defer p.wmu.Unlock()
	_ = p.conn.SetWriteDeadline(time.Now().Add(5 * time.Second))
	_, err = p.conn.Write(b)
	return err
}

// writePartial writes the first n bytes (at least 1, at most len-1) of the encoded frame.
func (p *rawPeer) writePartial(f *frame.Frame, n int) error {
	b, err := p.encode(f)
	if err != nil {
		return err
	}
	if n >= len(b) {
		n = len(b) - 1
	}
	if n < 1 {
		n = 1
	}
	p.wmu.Lock()
	defer p.wmu.Unlock()
	_ = p.conn.SetWriteDeadline(time.Now().Add(5 * time.Second))
	_, err = p.conn.Write(b[:n])
	return err
}

func (p *rawPeer) close() { _ = p.conn.Close() }

func (p *rawPeer) reset() {
	if t, ok := p.conn.(*net.TCPConn); ok {
		_ = t.SetLinger(0)
	}
	_ = p.conn.Close()
}

func (p *rawPeer) halfClose() {
	if t, ok := p.conn.(*net.TCPConn); ok {
		_ = t.CloseWrite()
	} else {
		_ = p.conn.Close()
	}
}

// ---------------------------------------------------------------------------------------------

var errInjected = errors.New("verif: injected I/O error")

// faultConn wraps a net.Conn. Once armed, the read or the write side fails / blocks after a number
// of further bytes.
type faultConn struct {
	net.Conn
	mu        sync.Mutex
	readMode  int // 0 pass, 1 error after readLeft bytes, 2 block (until Close) after readLeft bytes
	readLeft  int
	writeMode int // 0 pass, 1 error after writeLeft bytes (partial write reported), 2 block after writeLeft bytes, 3 short write (n < len, io.ErrShortWrite)
	writeLeft int
	closed    chan struct{}
	closeOnce sync.Once
	tripped   int32
	closeErr  int32 // Close() closes the inner conn and then returns errInjected
}

func newFaultConn(c net.Conn) *faultConn { return &faultConn{Conn: c, closed: make(chan struct{})} }

func (f *faultConn) armRead(mode, after int) {
	f.mu.Lock()
	f.readMode, f.readLeft = mode, after
	f.mu.Unlock()
}

func (f *faultConn) armWrite(mode, after int) {
	f.mu.Lock()
	f.writeMode, f.writeLeft = mode, after
	f.mu.Unlock()
}

func (f *faultConn) Read(b []byte) (int, error) {
	f.mu.Lock()
	mode, left := f.readMode, f.readLeft
	f.mu.Unlock()
	if mode != 0 {
		if left <= 0 {
			atomic.StoreInt32(&f.tripped, 1)
			if mode == 1 {
				return 0, errInjected
			}
			<-f.closed
			return 0, net.ErrClosed
		}
		if len(b) > left {
			b = b[:left]
		}
	}
	n, err := f.Conn.Read(b)
	if mode != 0 {
		f.mu.Lock()
		if f.readMode == mode {
			f.readLeft -= n
		}
		f.mu.Unlock()
	}
	return n, err
}

func (f *faultConn) Write(b []byte) (int, error) {
	f.mu.Lock()
	mode, left := f.writeMode, f.writeLeft
	f.mu.Unlock()
	if mode == 0 {
		return f.Conn.Write(b)
	}
	if mode == 3 {
		atomic.StoreInt32(&f.tripped, 1)
		n := len(b) / 2
		m, err := f.Conn.Write(b[:n])
		if err != nil {
			return m, err
		}
		return m, io.ErrShortWrite
	}
	if left >= len(b) {
		n, err := f.Conn.Write(b)
		f.mu.Lock()
		f.writeLeft -= n
		f.mu.Unlock()
		return n, err
	}
	atomic.StoreInt32(&f.tripped, 1)
	n := 0
	if left > 0 {
		n, _ = f.Conn.Write(b[:left])
		f.mu.Lock()
		f.writeLeft = 0
		f.mu.Unlock()
	}
	if mode == 1 {
		return n, errInjected
	}
	<-f.closed
	return n, net.ErrClosed
}

func (f *faultConn) Close() error {
	f.closeOnce.Do(func() { close(f.closed) })
	err := f.Conn.Close()
	if atomic.LoadInt32(&f.closeErr) != 0 {
		// the inner conn is really closed; only the report is an error (what a TLS conn does when its
		// close_notify alert cannot be written after the peer was lost)
		atomic.StoreInt32(&f.tripped, 1)
		return errInjected
	}
	return err
}

func (f *faultConn) armCloseErr() { atomic.StoreInt32(&f.closeErr, 1) }

// tcpPair returns both ends of a loopback TCP connection.
func tcpPair() (a, b net.Conn, err error) {
	l, err := net.Listen("tcp", "127.0.0.1:0")
	if err != nil {
		return nil, nil, err
	}
	defer l.Close()
	type res struct {
		c   net.Conn
		err error
	}
	ch := make(chan res, 1)
	go func() {
		c, err := l.Accept()
		ch <- res{c, err}
	}()
	a, err = net.DialTimeout("tcp", l.Addr().String(), 5*time.Second)
	if err != nil {
		return nil, nil, err
	}
	r := <-ch
	if r.err != nil {
		a.Close()
		return nil, nil, r.err
	}
	return a, r.c, nil
}
