package main

// Concurrent cases: close under load, rendezvous-forced orderings, and the hunt for
// "send on closed channel".

import (
	"context"
	"fmt"
	"net"
	"os"
	"strconv"
	"strings"
	"sync/atomic"
	"time"

	"github.com/datastax/go-cassandra-native-protocol/client"
	"github.com/datastax/go-cassandra-native-protocol/frame"
	"github.com/datastax/go-cassandra-native-protocol/message"
	"github.com/datastax/go-cassandra-native-protocol/primitive"
	"verif/internal/mon"
)

func contextPair() (context.Context, context.CancelFunc) {
	return context.WithCancel(context.Background())
}

func eventFrame(v primitive.ProtocolVersion) *frame.Frame {
	return frame.NewFrame(v, -1, &message.StatusChangeEvent{ChangeType: primitive.StatusChangeTypeUp,
		Address: &primitive.Inet{Addr: net.IPv4(127, 0, 0, 1), Port: 9042}})
}

// rawEcho answers like the handlers of the library server do, from a raw peer.
func (s *sess) rawEcho(stop *int32) {
	p := s.rawS
	for atomic.LoadInt32(stop) == 0 {
		f, err := p.read(20 * time.Second)
		if err != nil {
			return
		}
		v, id := f.Header.Version, f.Header.StreamId
		switch m := f.Body.Message.(type) {
		case *message.Startup:
			err = p.write(frame.NewFrame(v, id, &message.Ready{}))
		case *message.Query:
			if strings.HasPrefix(m.Query, "noreply") {
				// stays pending
			} else if strings.HasPrefix(m.Query, "paged") {
				for pg := 1; pg <= 3 && err == nil; pg++ {
					err = p.write(frame.NewFrame(v, id, pageMsg(pg, pg == 3)))
				}
			} else {
				err = p.write(frame.NewFrame(v, id, s.supported()))
			}
		default:
			err = p.write(frame.NewFrame(v, id, s.supported()))
		}
		if err != nil {
			return
		}
	}
}

func runConc(sp *caseSpec, res *caseResult) {
	t0 := time.Now()
	s := &sess{sp: sp, res: res}
	sp.Step = "load"
	if err := s.open(); err != nil {
		res.Inc = append(res.Inc, "set-up failed: "+trimAddr(err.Error()))
		s.stageBQuiet()
		return
	}
	var stop int32
	if s.rawS != nil {
		go s.rawEcho(&stop)
	}
	hs := watch("client.InitiateHandshake", func() error { return s.cc.InitiateHandshake(s.ver, client.ManagedStreamId) })
	if !waitUntil(stepLimit, hs.returned) || hs.err != nil || hs.panicked {
		res.Inc = append(res.Inc, "fault point not reached: handshake: "+trimAddr(fmt.Sprint(hs.err, hs.panicVal)))
		atomic.StoreInt32(&stop, 1)
		s.stageBQuiet()
		return
	}
	switch sp.Perturb {
	case "jitter":
		theTap.setJitter(sp.PSeed, 40)
	default:
		theTap.setJitter(sp.PSeed, 0) // record the order signature only
	}
	var completed, sent, sendErrs, dupRefused, dupAccepted int64
	cc := s.cc
	// senders
	for g := 0; g < sp.Senders; g++ {
		g := g
		rnd := mon.NewRand(int64(sp.PSeed), uint64(g))
		s.recvs = append(s.recvs, watch(fmt.Sprintf("sender-%d", g), func() error {
			n := 0
			// one request per sender stays pending on a caller-chosen stream id for the whole session; a second
			// Send with the same id is refused. Whatever ends the connection must complete the first one.
			ownID := int16(2000 + g)
			if req, err := cc.Send(frame.NewFrame(s.ver, ownID, &message.Query{Query: "noreply"})); err == nil {
				s.addReq(newTrack(fmt.Sprintf("s%d-pending-on-id-%d", g, ownID), false, req))
				if req2, err2 := cc.Send(frame.NewFrame(s.ver, ownID, &message.Query{Query: "noreply"})); err2 != nil {
					atomic.AddInt64(&dupRefused, 1)
				} else {
					atomic.AddInt64(&dupAccepted, 1)
					s.addReq(newTrack(fmt.Sprintf("s%d-second-on-id-%d", g, ownID), false, req2))
				}
			}
			for atomic.LoadInt32(&stop) == 0 {
				var batch []*reqTrack
				for d := 0; d < sp.Depth; d++ {
					var msg message.Message = s.query(n)
					paged := sp.Pages > 0 && rnd.Intn(3) == 0
					if paged {
						msg = &message.Query{Query: "paged"}
					}
					n++
					req, err := cc.Send(frame.NewFrame(s.ver, client.ManagedStreamId, msg))
					if err != nil {
						atomic.AddInt64(&sendErrs, 1)
						if cc.IsClosed() {
							atomic.StoreInt32(&stop, 1)
							break
						}
						time.Sleep(50 * time.Microsecond)
						continue
					}
					atomic.AddInt64(&sent, 1)
					t := newTrack(fmt.Sprintf("s%d-%d", g, n), paged, req)
					s.addReq(t)
					batch = append(batch, t)
				}
				for _, t := range batch {
					for {
						f, err := cc.Receive(t.req)
						if err != nil || f == nil {
							break
						}
						t.note(f)
						if isFinalFrame(f) {
							atomic.AddInt64(&completed, 1)
							break
						}
					}
				}
			}
			return nil
		}))
	}
	// receivers
	s.recvs = append(s.recvs, watch("client.ReceiveEvent", func() error {
		for {
			if _, err := cc.ReceiveEvent(); err != nil && cc.IsClosed() {
				return nil
			}
		}
	}))
	if s.sc != nil {
		sc := s.sc
		s.recvs = append(s.recvs, watch("serverConn.Receive", func() error {
			for {
				if _, err := sc.Receive(); err != nil {
					return nil
				}
			}
		}))
		// events pushed by the server side
		s.recvs = append(s.recvs, watch("serverConn.Send(event)", func() error {
			for !sc.IsClosed() && atomic.LoadInt32(&stop) == 0 {
				_ = sc.Send(eventFrame(s.ver))
				time.Sleep(300 * time.Microsecond)
			}
			return nil
		}))
	} else if s.rawS != nil {
		go func() {
			for atomic.LoadInt32(&stop) == 0 {
				if err := s.rawS.write(eventFrame(s.ver)); err != nil {
					return
				}
				time.Sleep(300 * time.Microsecond)
			}
		}()
	}
	// the fault point: FaultAt responses completed (bounded wait; the count actually reached is recorded)
	waitUntil(600*time.Millisecond, func() bool { return atomic.LoadInt64(&completed) >= int64(sp.FaultAt) })
	atFault := atomic.LoadInt64(&completed)
	s.faultNote = fmt.Sprintf("completed=%d sent=%d at the fault", atFault, atomic.LoadInt64(&sent))
	tF := time.Now()
	s.injectConcFault()
	// stage A, then everything stops
	s.stageA()
	tA := time.Now()
	atomic.StoreInt32(&stop, 1)
	if !res.Abandon {
		s.stageB()
	}
	if os.Getenv("C16_DEBUG") != "" {
		fmt.Fprintf(os.Stderr, "conc #%d: to-fault %v stageA %v stageB %v completed=%d\n", sp.Idx, tF.Sub(t0), tA.Sub(tF), time.Since(tA), atFault)
	}
	order := theTap.signature()
	theTap.reset()
	res.Evals = 1
	res.Sigs = append(res.Sigs, sp.signature(), fmt.Sprintf("order|%x", order))
	res.count("conc_cases", 1)
	res.count("conc_fault/"+sp.Fault, 1)
	res.count("conc_requests_sent", atomic.LoadInt64(&sent))
	res.count("conc_requests_completed", atomic.LoadInt64(&completed))
	res.count("conc_events_received", atomic.LoadInt64(&s.evCount))
	res.count("duplicate_id_send_refused", atomic.LoadInt64(&dupRefused))
	res.count("duplicate_id_send_accepted", atomic.LoadInt64(&dupAccepted))
	res.max("max_completed_before_fault", atFault)
	if atFault > 0 {
		res.count("conc_cases_fault_under_load", 1)
	}
	if sp.Idx%41 == 0 {
		res.Sample = map[string]interface{}{"case": sp, "sent": sent, "completed": completed, "send_errors": sendErrs, "events": s.evCount, "violations": len(res.Viol)}
	}
}

func (s *sess) injectConcFault() {
	switch s.sp.Fault {
	case "read-err":
		s.fc.armRead(1, s.sp.After)
	case "write-err":
		s.fc.armWrite(1, s.sp.After)
	default:
		s.injectFault()
	}
}

// ---------------------------------------------------------------------------------------------
// rendezvous scenarios

var rdvNames = []string{
	"final-response-vs-client.Close",
	"serverConn.Receive-vs-serverConn.Close",
	"PerformHandshake-vs-client.Close",
	"handler-response-vs-serverConn.Close",
	"accept-vs-server.Close",
	"client.Send-vs-client.Close",
	"event-vs-client.Close",
	"request-delivery-vs-serverConn.Close",
	"event-handler-Send-vs-client.Close",
	"request-handler-Send-vs-serverConn.Close",
}

// closeParkedOrReturned: the Close call made by the monitor has returned, or its goroutine is parked
// (waiting for a lock or for the connection's goroutines). Bounded; observed, not assumed.
func closeParkedOrReturned(w **callWatch, fn string, limit time.Duration) bool {
	return waitUntil(limit, func() bool {
		if cw := *w; cw != nil && cw.returned() {
			return true
		}
		for _, g := range clientGoroutines() {
			if g.Harness && strings.Contains(g.Stack, fn) && blockedState(g.State) {
				return true
			}
		}
		return false
	})
}

var (
	clsClientClosing = msgClass{Side: "CQL client conn", Sub: "]: closing", Not: "in-flight"}
	clsClientClosed  = msgClass{Side: "CQL client conn", Sub: "]: successfully closed", Not: "in-flight"}
	clsServerClosing = msgClass{Side: "CQL server conn", Sub: "]: closing"}
	clsServerClosed  = msgClass{Side: "CQL server conn", Sub: "]: successfully closed"}
)

func runRdv(sp *caseSpec, res *caseResult) {
	s := &sess{sp: sp, res: res}
	fail := func(what string, err error) {
		res.Inc = append(res.Inc, what+": "+trimAddr(fmt.Sprint(err)))
		theTap.reset()
		s.stageBQuiet()
	}
	hold := 3 * time.Second
	var r *rendezvous
	arm := func(p, q msgClass) {
		r = newRendezvous(p, q, hold)
		theTap.setRendezvous(sp.PSeed, r)
	}
	reached := func() bool {
		select {
		case <-r.pArrived:
			return true
		case <-time.After(stepLimit):
			return false
		}
	}
	finish := func() {
		s.stageA()
		theTap.reset()
		if !res.Abandon {
			s.stageB()
		}
		res.Evals = 1
		res.Sigs = append(res.Sigs, sp.signature())
		res.count("rdv_cases", 1)
		if r != nil {
			res.count("rdv_released_by_Q", int64(atomic.LoadInt32(&r.released)))
			res.count("rdv_released_by_timeout", int64(atomic.LoadInt32(&r.timedOut)))
			if atomic.LoadInt32(&r.released) == 0 {
				res.Inc = append(res.Inc, "rendezvous "+sp.Name+": ordering not achieved (released by timeout)")
			}
		}
	}
	switch sp.Name {
	case "final-response-vs-client.Close":
		sp.Step, sp.Fault = "inflight", "client.Close"
		sp.K = 1
		if err := s.open(); err != nil {
			fail("set-up failed", err)
			return
		}
		if err := s.runSteps(); err != nil {
			fail("fault point not reached", err)
			return
		}
		arm(msgClass{Side: "CQL client conn", Sub: "received incoming frame"}, clsClientClosing)
		// after the release the incoming loop waits a PRNG-chosen 0..12 us more, so that the connection context
		// is cancelled already while the in-flight handler is not closed yet
		r.SpinMax = 12 * time.Microsecond
		last := s.srvSeen[len(s.srvSeen)-1]
		if err := s.serverSend(s.reply(last, s.supported())); err != nil {
			fail("fault point not reached", err)
			return
		}
		if !reached() {
			fail("hook not reached", fmt.Errorf("P not logged"))
			return
		}
		s.injectFault()
		finish()
	case "serverConn.Receive-vs-serverConn.Close":
		sp.Step, sp.Fault = "ready", "serverConn.Close"
		if err := s.open(); err != nil {
			fail("set-up failed", err)
			return
		}
		if err := s.runSteps(); err != nil {
			fail("fault point not reached", err)
			return
		}
		arm(msgClass{Side: "CQL server conn", Sub: "waiting for incoming frame"}, clsServerClosed)
		sc := s.sc
		s.recvs = append(s.recvs, watch("serverConn.Receive", func() error { _, err := sc.Receive(); return err }))
		if !reached() {
			fail("hook not reached", fmt.Errorf("P not logged"))
			return
		}
		s.injectFault()
		finish()
	case "PerformHandshake-vs-client.Close":
		sp.Step, sp.Fault = "connected", "client.Close"
		if err := s.open(); err != nil {
			fail("set-up failed", err)
			return
		}
		arm(msgClass{Side: "CQL server conn", Sub: "performing handshake"}, clsClientClosed)
		cc, sc := s.cc, s.sc
		s.calls = append(s.calls, watch("PerformHandshake", func() error { _ = client.PerformHandshake(cc, sc, s.ver, client.ManagedStreamId); return nil }))
		if !reached() {
			fail("hook not reached", fmt.Errorf("P not logged"))
			return
		}
		time.Sleep(2 * time.Millisecond) // let the STARTUP travel (not essential)
		s.injectFault()
		finish()
	case "handler-response-vs-serverConn.Close", "request-delivery-vs-serverConn.Close":
		sp.Step, sp.Fault, sp.Handlers = "connected", "serverConn.Close", true
		if err := s.open(); err != nil {
			fail("set-up failed", err)
			return
		}
		if err := s.cc.InitiateHandshake(s.ver, client.ManagedStreamId); err != nil {
			fail("fault point not reached", err)
			return
		}
		if sp.Name == "handler-response-vs-serverConn.Close" {
			arm(msgClass{Side: "CQL server conn", Sub: "request handler 1 produced response"}, clsServerClosing)
		} else {
			arm(msgClass{Side: "CQL server conn", Sub: "received incoming frame"}, clsServerClosing)
		}
		if err := s.clientSend("q0", s.query(0), false); err != nil {
			fail("fault point not reached", err)
			return
		}
		if !reached() {
			fail("hook not reached", fmt.Errorf("P not logged"))
			return
		}
		s.injectFault()
		finish()
	case "event-handler-Send-vs-client.Close", "request-handler-Send-vs-serverConn.Close":
		// A user callback that is handed the connection calls Send on it while Close is under way: the
		// callback is entered, THEN Close is called, and only when Close is parked (or done) the callback
		// sends. Close must return, the callback's Send must return (accepted or refused), nothing may be left.
		clientSide := sp.Name == "event-handler-Send-vs-client.Close"
		sp.Step, sp.Handlers = "connected", true
		sp.Fault = "serverConn.Close"
		closeFn := "CqlServerConnection).Close"
		if clientSide {
			sp.Fault = "client.Close"
			closeFn = "CqlClientConnection).Close"
		}
		entered := make(chan struct{})
		goOn := make(chan struct{})
		var closeWatch *callWatch
		var once int32
		hw := &callWatch{Name: "callback: " + sp.Fault[:len(sp.Fault)-6] + ".Send", Key: "callback-Send", done: make(chan struct{})}
		var sendErr error
		callback := func(send func() error) {
			if !atomic.CompareAndSwapInt32(&once, 0, 1) {
				return
			}
			close(entered)
			select {
			case <-goOn:
			case <-time.After(stepLimit):
			}
			if !closeParkedOrReturned(&closeWatch, closeFn, 2*time.Second) {
				res.count("rdv_callback_close_not_parked", 1)
			}
			sendErr = send()
			close(hw.done)
		}
		if clientSide {
			s.evHook = func(ev *frame.Frame, conn *client.CqlClientConnection) {
				callback(func() error {
					req, err := conn.Send(frame.NewFrame(s.ver, client.ManagedStreamId, s.query(4711)))
					if err == nil {
						s.addReq(newTrack("sent-by-event-handler", false, req))
					}
					return err
				})
			}
		} else {
			s.reqHook = func(request *frame.Frame, conn *client.CqlServerConnection) {
				callback(func() error { return conn.Send(s.reply(request, s.supported())) })
			}
		}
		if err := s.open(); err != nil {
			fail("set-up failed", err)
			return
		}
		if err := s.cc.InitiateHandshake(s.ver, client.ManagedStreamId); err != nil {
			fail("fault point not reached", err)
			return
		}
		if clientSide {
			if err := s.sc.Send(eventFrame(s.ver)); err != nil {
				fail("fault point not reached", err)
				return
			}
		} else if err := s.clientSend("hooked", &message.Query{Query: "hook"}, false); err != nil {
			fail("fault point not reached", err)
			return
		}
		select {
		case <-entered:
		case <-time.After(stepLimit):
			fail("hook not reached", fmt.Errorf("callback not entered"))
			return
		}
		s.recvs = append(s.recvs, hw)
		s.injectFault()
		closeWatch = s.calls[len(s.calls)-1]
		close(goOn)
		s.stageA()
		if !res.Abandon {
			s.stageB()
		}
		res.Evals = 1
		res.Sigs = append(res.Sigs, sp.signature())
		res.count("rdv_cases", 1)
		if hw.returned() {
			if sendErr != nil {
				res.count("rdv_callback_send_refused", 1)
			} else {
				res.count("rdv_callback_send_accepted", 1)
			}
		}
	case "accept-vs-server.Close":
		sp.Setup, sp.Step, sp.Fault = "lib-lib", "connected", "server.Close"
		if err := s.open(); err != nil {
			fail("set-up failed", err)
			return
		}
		// a second TCP connection arrives; the accept loop is held right after accepting it
		arm(msgClass{Side: "CQL server [", Sub: "new TCP connection accepted"}, msgClass{Side: "CQL server [", Sub: "[conn. handler]: successfully closed"})
		c2, err := net.DialTimeout("tcp", s.server.VerifAddr().String(), stepLimit)
		if err != nil {
			fail("fault point not reached", err)
			return
		}
		defer c2.Close()
		if !reached() {
			fail("hook not reached", fmt.Errorf("P not logged"))
			return
		}
		s.injectFault()
		finish()
	case "client.Send-vs-client.Close":
		sp.Step, sp.Fault = "ready", "client.Close"
		if err := s.open(); err != nil {
			fail("set-up failed", err)
			return
		}
		if err := s.runSteps(); err != nil {
			fail("fault point not reached", err)
			return
		}
		arm(msgClass{Side: "CQL client conn", Sub: "timeout started"}, clsClientClosing)
		s.recvs = append(s.recvs, watch("client.Send", func() error { _ = s.clientSend("racing", s.query(1), false); return nil }))
		if !reached() {
			fail("hook not reached", fmt.Errorf("P not logged"))
			return
		}
		s.injectFault()
		finish()
	case "event-vs-client.Close":
		sp.Step, sp.Fault = "ready", "client.Close"
		if err := s.open(); err != nil {
			fail("set-up failed", err)
			return
		}
		if err := s.runSteps(); err != nil {
			fail("fault point not reached", err)
			return
		}
		arm(msgClass{Side: "CQL client conn", Sub: "received incoming frame"}, clsClientClosing)
		if err := s.serverSend(eventFrame(s.ver)); err != nil {
			fail("fault point not reached", err)
			return
		}
		if !reached() {
			fail("hook not reached", fmt.Errorf("P not logged"))
			return
		}
		s.injectFault()
		finish()
	}
}

// ---------------------------------------------------------------------------------------------
// hunts: try to order a channel send after Close's close(chan). The sender is held at the last log
// point before the send until Close has logged "closing" (closed flag set, channels still open),
// then busy-waits a PRNG-chosen few microseconds so that the offset between the two goroutines
// sweeps the window in which Close sets the field to nil and closes the channel.

var huntNames = []string{"client.Send", "serverConn.Send", "client.event-delivery", "serverConn.request-delivery", "client.open-close", "serverConn.open-close", "client.Send-storm", "serverConn.Send-storm"}

// runStorm: G goroutines call Send in a loop; Close arrives at a PRNG-chosen moment. No hook is
// involved: the ordering "Send read the channel field, Close closed the channel, Send sends" is left to
// the scheduler (it needs a preemption inside Send), the storm only makes many Sends be in that window.
func runStorm(sp *caseSpec, res *caseResult) {
	rnd := mon.NewRand(int64(sp.PSeed), 11)
	s := &sess{sp: sp, res: res}
	s.cliCancel, s.srvCancel = func() {}, func() {}
	ver := primitive.ProtocolVersion4
	attempts := 0
	var sends int64
	if v, err := strconv.Atoi(os.Getenv("C16_HUNT_ATTEMPTS")); err == nil && v > 0 {
		sp.Attempts = v // exploration only
	}
	stormAttempts := sp.Attempts / 2
	if stormAttempts > 200 && os.Getenv("C16_HUNT_ATTEMPTS") == "" {
		stormAttempts = 200 // an attempt costs ~35 ms (thousands of in-flight requests are closed)
	}
	for a := 0; a < stormAttempts; a++ {
		ca, cb := net.Pipe()
		ctx, cancel := contextPair()
		cc, err := client.VerifNewClientConn(ca, ctx, nil, primitive.CompressionNone, 4096, 4, 10*time.Second, nil)
		if err != nil {
			cancel()
			break
		}
		sc, err := client.VerifNewServerConn(cb, ctx, nil, 4096, 10*time.Second, nil, nil, nil)
		if err != nil {
			cc.Close()
			cancel()
			break
		}
		var ws []*callWatch
		var stop int32
		for g := 0; g < 6; g++ {
			if sp.Name == "client.Send-storm" {
				ws = append(ws, watch("client.Send", func() error {
					for atomic.LoadInt32(&stop) == 0 {
						if _, err := cc.Send(frame.NewFrame(ver, 0, &message.Options{})); err != nil && cc.IsClosed() {
							return nil
						}
						atomic.AddInt64(&sends, 1)
					}
					return nil
				}))
			} else {
				ws = append(ws, watch("serverConn.Send", func() error {
					for atomic.LoadInt32(&stop) == 0 {
						if err := sc.Send(frame.NewFrame(ver, 1, &message.Supported{Options: map[string][]string{}})); err != nil && sc.IsClosed() {
							return nil
						}
						atomic.AddInt64(&sends, 1)
					}
					return nil
				}))
			}
		}
		time.Sleep(time.Duration(20+rnd.Intn(300)) * time.Microsecond)
		var cw *callWatch
		if sp.Name == "client.Send-storm" {
			cw = watch("client.Close", func() error { return cc.Close() })
		} else {
			cw = watch("serverConn.Close", func() error { return sc.Close() })
		}
		ws = append(ws, cw)
		ok := waitUntil(settle, func() bool {
			for _, w := range ws {
				if !w.returned() {
					return false
				}
			}
			return true
		})
		atomic.StoreInt32(&stop, 1)
		attempts++
		bad := false
		for _, w := range ws {
			if w.returned() && w.panicked {
				bad = true
				res.addViolation(sp.keyPrefix()+"/"+w.Key+"/panic-"+panicSlug(w.panicVal), map[string]interface{}{"case": sp, "attempt": a, "panic": w.panicVal, "stack": w.stack})
			}
		}
		_ = cc.Close()
		_ = sc.Close()
		cancel()
		if !ok && !bad {
			s.calls = append(s.calls, cw)
			if !cw.returned() && s.deadlockVerdict(cw) {
				break
			}
			res.Inc = append(res.Inc, "storm: an attempt did not settle")
			break
		}
		if bad {
			res.Abandon = true // a recovered panic may have left a lock locked
			break
		}
	}
	if !res.Abandon {
		s.stageB()
	}
	res.Evals = attempts
	res.Sigs = append(res.Sigs, sp.signature())
	res.count("hunt_attempts/"+sp.Name, int64(attempts))
	res.count("hunt_sends/"+sp.Name, atomic.LoadInt64(&sends))
}

// runOpenClose: a connection is created and closed at once, so that Close meets the connection's
// goroutines while they start (each loop checks the closed flag and then reads its channel field).
func runOpenClose(sp *caseSpec, res *caseResult) {
	rnd := mon.NewRand(int64(sp.PSeed), 9)
	s := &sess{sp: sp, res: res}
	s.cliCancel, s.srvCancel = func() {}, func() {}
	attempts := 0
	if v, err := strconv.Atoi(os.Getenv("C16_HUNT_ATTEMPTS")); err == nil && v > 0 {
		sp.Attempts = v // exploration only
	}
	for a := 0; a < sp.Attempts*4; a++ {
		ca, cb := net.Pipe()
		ctx, cancel := contextPair()
		var cw *callWatch
		spin := time.Duration(rnd.Intn(1<<uint(rnd.Intn(16)))) * time.Nanosecond // 0 .. 32 us, log-uniform range
		if sp.Name == "client.open-close" {
			cc, err := client.VerifNewClientConn(ca, ctx, nil, primitive.CompressionNone, 8, 4, time.Second, nil)
			if err != nil {
				cancel()
				break
			}
			for t0 := time.Now(); time.Since(t0) < spin; {
			}
			cw = watch("client.Close", func() error { return cc.Close() })
		} else {
			sc, err := client.VerifNewServerConn(ca, ctx, nil, 8, 10*time.Second, nil, nil, nil)
			if err != nil {
				cancel()
				break
			}
			for t0 := time.Now(); time.Since(t0) < spin; {
			}
			cw = watch("serverConn.Close", func() error { return sc.Close() })
		}
		attempts++
		ok := waitUntil(settle, cw.returned)
		cb.Close()
		if !ok {
			s.calls = append(s.calls, cw)
			if !s.deadlockVerdict(cw) {
				res.Inc = append(res.Inc, "open-close: a Close was slow")
			}
			cancel()
			break
		}
		if cw.panicked {
			res.addViolation(sp.keyPrefix()+"/panic-"+panicSlug(cw.panicVal), map[string]interface{}{"case": sp, "attempt": a, "panic": cw.panicVal, "stack": cw.stack})
			cancel()
			break
		}
		cancel()
	}
	if !res.Abandon {
		s.stageB()
	}
	res.Evals = attempts
	res.Sigs = append(res.Sigs, sp.signature())
	res.count("hunt_attempts/"+sp.Name, int64(attempts))
}

func runHunt(sp *caseSpec, res *caseResult) {
	if strings.HasSuffix(sp.Name, "open-close") {
		runOpenClose(sp, res)
		return
	}
	if strings.HasSuffix(sp.Name, "-storm") {
		runStorm(sp, res)
		return
	}
	rnd := mon.NewRand(int64(sp.PSeed), 7)
	ver := primitive.ProtocolVersion4
	attempts, ordered, sendErr, sendOK := 0, 0, 0, 0
	if v, err := strconv.Atoi(os.Getenv("C16_HUNT_ATTEMPTS")); err == nil && v > 0 {
		sp.Attempts = v // exploration only
	}
	s := &sess{sp: sp, res: res}
	for a := 0; a < sp.Attempts; a++ {
		ca, cb := net.Pipe()
		ctx, cancel := contextPair()
		cc, err := client.VerifNewClientConn(ca, ctx, nil, primitive.CompressionNone, 8, 4, time.Second, nil)
		if err != nil {
			cancel()
			break
		}
		sc, err := client.VerifNewServerConn(cb, ctx, nil, 8, 10*time.Second, nil, nil, nil)
		if err != nil {
			cc.Close()
			cancel()
			break
		}
		var p, q msgClass
		switch sp.Name {
		case "client.Send":
			p, q = msgClass{Side: "CQL client conn", Sub: "timeout started"}, clsClientClosing
		case "serverConn.Send":
			p, q = msgClass{Side: "CQL server conn", Sub: "enqueuing outgoing frame"}, clsServerClosing
		case "client.event-delivery":
			p, q = msgClass{Side: "CQL client conn", Sub: "received incoming frame"}, clsClientClosing
		case "serverConn.request-delivery":
			p, q = msgClass{Side: "CQL server conn", Sub: "received incoming frame"}, clsServerClosing
		}
		r := newRendezvous(p, q, 200*time.Millisecond)
		r.SpinMax = time.Duration(500<<uint(rnd.Intn(6))) * time.Nanosecond // 0.5 .. 16 us
		theTap.setRendezvous(rnd.Uint64(), r)
		var w *callWatch
		switch sp.Name {
		case "client.Send":
			w = watch("client.Send", func() error { _, err := cc.Send(frame.NewFrame(ver, 0, &message.Options{})); return err })
		case "serverConn.Send":
			w = watch("serverConn.Send", func() error {
				return sc.Send(frame.NewFrame(ver, 1, &message.Supported{Options: map[string][]string{}}))
			})
		case "client.event-delivery":
			w = watch("serverConn.Send(event)", func() error { return sc.Send(eventFrame(ver)) })
		case "serverConn.request-delivery":
			w = watch("client.Send", func() error { _, err := cc.Send(frame.NewFrame(ver, 0, &message.Options{})); return err })
		}
		select {
		case <-r.pArrived:
		case <-time.After(2 * time.Second):
		}
		var cw *callWatch
		if strings.HasPrefix(sp.Name, "client.") {
			cw = watch("client.Close", func() error { return cc.Close() })
		} else {
			cw = watch("serverConn.Close", func() error { return sc.Close() })
		}
		ok := waitUntil(settle, func() bool { return w.returned() && cw.returned() })
		attempts++
		if atomic.LoadInt32(&r.released) > 0 {
			ordered++
		}
		for _, x := range []*callWatch{w, cw} {
			if x.returned() && x.panicked {
				res.addViolation(sp.keyPrefix()+"/panic-"+panicSlug(x.panicVal), map[string]interface{}{"case": sp, "attempt": a, "call": x.Name, "panic": x.panicVal, "stack": x.stack, "spin_max_ns": r.SpinMax.Nanoseconds()})
			}
		}
		if w.returned() && !w.panicked {
			if w.err != nil {
				sendErr++
			} else {
				sendOK++
			}
		}
		theTap.reset()
		_ = cc.Close()
		_ = sc.Close()
		cancel()
		if !ok {
			res.Inc = append(res.Inc, "hunt: an attempt did not settle")
			break
		}
	}
	// nothing of the client package may remain after the last attempt
	s.cliCancel, s.srvCancel = func() {}, func() {}
	s.stageB()
	res.Evals = attempts
	res.Sigs = append(res.Sigs, sp.signature())
	res.count("hunt_attempts/"+sp.Name, int64(attempts))
	res.count("hunt_ordered_by_rendezvous/"+sp.Name, int64(ordered))
	res.count("hunt_send_refused/"+sp.Name, int64(sendErr))
	res.count("hunt_send_accepted/"+sp.Name, int64(sendOK))
}
