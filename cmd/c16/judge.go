package main

// The oracle. Everything is decided on observed state:
//
//	stage A  after the fault alone: poll (<= settle) until every tracked request is closed, every
//	         blocked receiver has returned, the monitor's own Close call has returned and the
//	         connections the fault must bring down report IsClosed. If the goal is not reached, a
//	         verdict is taken only if the process is stable (two snapshots 1 s apart, same goroutines,
//	         all blocked); otherwise the case is inconclusive.
//	stage B  everything is closed by the monitor; then NO goroutine with a client-package frame may
//	         remain (one connection pair per case, cases run one after the other in a worker).

import (
	"fmt"
	"os"
	"regexp"
	"sort"
	"strings"
	"sync/atomic"
	"time"

	"github.com/datastax/go-cassandra-native-protocol/frame"
	"github.com/datastax/go-cassandra-native-protocol/message"
)

var funcSuffix = regexp.MustCompile(`(\.func\d+)+(\.\d+)?$`)

func waitUntil(limit time.Duration, pred func() bool) bool {
	deadline := time.Now().Add(limit)
	d := 100 * time.Microsecond
	for {
		if pred() {
			return true
		}
		if time.Now().After(deadline) {
			return false
		}
		time.Sleep(d)
		if d < 5*time.Millisecond {
			d *= 2
		}
	}
}

// stable: two snapshots of the client-package goroutines, gap apart: same ids, all blocked both times.
func stable(gap time.Duration) (bool, []gor) {
	a := clientGoroutines()
	time.Sleep(gap)
	b := clientGoroutines()
	if len(a) != len(b) {
		return false, b
	}
	for i := range a {
		if a[i].ID != b[i].ID || !blockedState(a[i].State) || !blockedState(b[i].State) {
			return false, b
		}
	}
	return true, b
}

func (s *sess) expectClosed() (cli, srv bool) {
	switch s.sp.Fault {
	case "client.Close", "client.ctx", "serverConn.Close", "server.Close", "server.ctx":
		return true, true
	case "peer-close", "peer-reset", "peer-halfclose":
		return true, true
	case "read-err", "close-err+Close", "close-err+peer-close":
		return true, true
	case "write-err", "short-write":
		// a failed write must bring the connection down, on the client side as on the server side (and with
		// it, in pipe-both, the connection at the other end of the pipe)
		return true, true
	}
	return false, false
}

func (s *sess) goalA() bool {
	for _, t := range s.allReqs() {
		if !t.poll() {
			return false
		}
	}
	for _, w := range s.calls {
		if !w.returned() {
			return false
		}
	}
	cli, srv := s.expectClosed()
	if !cli && !srv {
		return true // nothing has to close: blocked receivers legitimately stay blocked
	}
	for _, w := range s.recvs {
		if !w.returned() {
			return false
		}
	}
	if cli && s.cc != nil && !s.cc.IsClosed() {
		return false
	}
	if srv && s.sc != nil && !s.sc.IsClosed() {
		return false
	}
	return true
}

// unmet lists what keeps goalA false (diagnostics for details).
func (s *sess) unmet() []string {
	var out []string
	n := 0
	for _, t := range s.allReqs() {
		if !t.poll() {
			n++
		}
	}
	if n > 0 {
		out = append(out, fmt.Sprintf("%d request(s) open", n))
	}
	for _, w := range s.recvs {
		if !w.returned() {
			out = append(out, "not returned: "+w.Name)
		}
	}
	for _, w := range s.calls {
		if !w.returned() {
			out = append(out, "not returned: "+w.Name)
		}
	}
	cli, srv := s.expectClosed()
	if cli && s.cc != nil && !s.cc.IsClosed() {
		out = append(out, "client connection open")
	}
	if srv && s.sc != nil && !s.sc.IsClosed() {
		out = append(out, "server connection open")
	}
	return out
}

func excerpt(gs []gor) string {
	return summarize(gs)
}

// judgeRequests applies the per-request obligations. definitive: nothing alive can still close a
// channel (or the state is stable), so an open channel is a verdict.
func (s *sess) judgeRequests(stage string, definitive bool, gs []gor) {
	if s.poisoned {
		return
	}
	for _, t := range s.allReqs() {
		if t.judgedClosed {
			continue
		}
		closed := t.poll()
		err, done, ok := t.state()
		if !ok {
			s.viol("request-accessors-blocked", map[string]interface{}{"request": t.Name, "stage": stage, "goroutines": excerpt(clientGoroutines())})
			s.res.Abandon = true
			return
		}
		info := map[string]interface{}{"request": t.Name, "stage": stage, "frames_received": t.frames, "closed": closed,
			"err": fmt.Sprint(err), "is_done": done, "stream_id": t.req.StreamId()}
		if !closed {
			if definitive {
				info["goroutines"] = excerpt(gs)
				s.viol("request-orphaned", info)
			}
			continue
		}
		t.judgedClosed = true
		if t.final() {
			s.res.count("requests_completed_normally", 1)
			if !done {
				s.viol("completed-request-not-done", info)
			}
			continue
		}
		if err == nil || !done {
			// a receiver goroutine of the monitor may have taken the last frame out of the channel and not
			// yet recorded it: let the receivers return (or block) and look again before judging
			if !s.quiesce() {
				s.inconclusive("receiver goroutines of the monitor still running: err/done of a closed request not judged")
				continue
			}
			if t.final() {
				s.res.count("requests_completed_normally", 1)
				if _, done2, ok2 := t.state(); ok2 && !done2 {
					s.viol("completed-request-not-done", info)
				}
				continue
			}
		}
		s.res.count("requests_failed_by_fault", 1)
		if err == nil {
			s.viol("err-nil", info)
		}
		if !done {
			s.viol("not-done", info)
		}
		if err != nil && s.sp.silentFault() && !strings.Contains(err.Error(), "timed out") && s.cc != nil && !s.cc.IsClosed() {
			s.viol("wrong-error", info)
		}
	}
}

// quiesce waits (bounded) until the monitor's receiver goroutines have returned or are blocked.
func (s *sess) quiesce() bool {
	if waitUntil(2*time.Second, func() bool {
		for _, w := range s.recvs {
			if !w.returned() {
				return false
			}
		}
		return true
	}) {
		return true
	}
	st, _ := stable(200 * time.Millisecond)
	return st
}

func (s *sess) reportCallPanics() {
	for _, w := range append(append([]*callWatch{}, s.calls...), s.recvs...) {
		if w.returned() && w.panicked {
			s.poisoned = true
			s.res.Abandon = true
			s.viol(w.Key+"/panic-"+panicSlug(w.panicVal), map[string]interface{}{"panic": w.panicVal, "stack": w.stack})
		}
	}
}

func (s *sess) stageA() {
	sp := s.sp
	if sp.silentFault() {
		// silence: nothing closes; the requests must time out. Wait for the channels only.
		limit := 10*s.rt + settle
		ok := waitUntil(limit, func() bool {
			for _, t := range s.allReqs() {
				if !t.poll() {
					return false
				}
			}
			return true
		})
		if !ok {
			// "never within 30 s" is the violation; later than 10 T but within it is inconclusive
			ok = waitUntil(closeLimit-limit, func() bool {
				for _, t := range s.allReqs() {
					if !t.poll() {
						return false
					}
				}
				return true
			})
			if ok {
				s.inconclusive("silent: requests timed out later than 10 T")
				return
			}
			st, gs := stable(time.Second)
			if st {
				s.judgeRequests("A", true, gs)
			} else {
				s.inconclusive("silent: not stable after 30 s")
			}
			return
		}
		s.judgeRequests("A", false, nil)
		if sp.Fault == "silent+late-page" && s.peerCanSend() {
			// the rest of the response arrives after all: a page, then the last page
			var pr *frame.Frame
			for _, f := range s.srvSeen {
				if q, ok := f.Body.Message.(*message.Query); ok && q.Query == "paged" {
					pr = f
				}
			}
			if pr != nil {
				_ = s.serverSend(s.reply(pr, pageMsg(sp.Pages+1, false)))
				time.Sleep(5 * time.Millisecond)
				_ = s.serverSend(s.reply(pr, pageMsg(sp.Pages+2, true)))
				// the frames must be consumed by the library without incident; a further request proves it
				if s.cc != nil && !s.cc.IsClosed() {
					if err := s.clientSend("probe", s.query(1000), false); err == nil {
						if f, err := s.serverRecv(); err == nil {
							_ = s.serverSend(s.reply(f, s.supported()))
							_ = s.clientRecv(s.lastReq())
						}
					}
				}
				s.res.count("late_pages_sent", 2)
			}
		}
		return
	}
	reached := waitUntil(settle, s.goalA)
	if s.fc != nil && strings.Contains("read-err write-err short-write", sp.Fault) && atomic.LoadInt32(&s.fc.tripped) == 0 {
		s.inconclusive("fault conn: the armed fault was never run into")
		return
	}
	if reached {
		s.res.count("stageA_goal_reached", 1)
		if s.cc != nil && s.cc.IsClosed() {
			s.res.count("client_closed_after_fault/"+sp.Fault, 1)
		}
		if s.sc != nil && s.sc.IsClosed() {
			s.res.count("server_closed_after_fault/"+sp.Fault, 1)
		}
		s.reportCallPanics()
		s.judgeRequests("A", false, nil)
		s.judgeLaterSends()
		return
	}
	if os.Getenv("C16_DEBUG") != "" {
		fmt.Fprintf(os.Stderr, "case %d: goal not reached: %v\n%s\n", sp.Idx, s.unmet(), summarize(clientGoroutines()))
	}
	// goal not reached within the settle bound: is a Close still blocked?
	for _, w := range s.calls {
		if !w.returned() {
			if s.deadlockVerdict(w) {
				return
			}
		}
	}
	// a receiver in ReceiveEvent that read the events channel after Close had set it to nil is not
	// blocked for ever: it returns when the read timeout expires. Give exactly those the time.
	onlyEvents := func() bool {
		u := s.unmet()
		for _, x := range u {
			if x != "not returned: client.ReceiveEvent" {
				return false
			}
		}
		return len(u) > 0
	}
	// likewise a request whose read-timeout goroutine is still alive will be closed by it when the read
	// timeout expires: "never closed" can only be said once no such goroutine is left
	liveTimers := func() bool {
		for _, g := range clientGoroutines() {
			if strings.Contains(g.Top, "startTimeout") {
				return true
			}
		}
		return false
	}
	if onlyEvents() || liveTimers() {
		if waitUntil(s.rt+2*time.Second, s.goalA) {
			s.res.count("goal_reached_by_a_library_timeout", 1)
			s.reportCallPanics()
			s.judgeRequests("A", false, nil)
			s.judgeLaterSends()
			return
		}
	}
	st, gs := stable(time.Second)
	if !st {
		s.inconclusive("stage A: goal not reached and process not stable")
		return
	}
	s.stuckInA = true
	s.res.count("stageA_judged_on_stable_state", 1)
	s.reportCallPanics()
	s.judgeRequests("A", true, gs)
	cliX, srvX := s.expectClosed()
	for _, w := range s.recvs {
		if !w.returned() && (cliX || srvX) {
			s.viol("receiver-stuck/"+w.Key, map[string]interface{}{"call": w.Name, "goroutines": excerpt(gs)})
		}
	}
	cli, srv := s.expectClosed()
	if cli && s.cc != nil && !s.cc.IsClosed() {
		s.viol("client-connection-not-closed", map[string]interface{}{"goroutines": excerpt(gs)})
	}
	if srv && s.sc != nil && !s.sc.IsClosed() {
		s.viol("server-connection-not-closed", map[string]interface{}{"goroutines": excerpt(gs)})
	}
	s.judgeLaterSends()
}

func (s *sess) peerCanSend() bool { return s.sc != nil || s.rawS != nil }

// deadlockVerdict: a Close made by the monitor has not returned. Wait up to closeLimit; then two
// all-goroutine snapshots 2 s apart: identical and all blocked => deadlock; else inconclusive.
func (s *sess) deadlockVerdict(w *callWatch) (decided bool) {
	// shortcut: a goroutine of the client package waiting on a nil channel can never be woken up; if the
	// picture is stable the 30 s need not be waited for
	nilChan := func() bool {
		for _, g := range clientGoroutines() {
			if strings.Contains(g.State, "nil chan") {
				return true
			}
		}
		return false
	}
	if nilChan() {
		if st, gs := stable(time.Second); st && !w.returned() && nilChan() {
			s.res.Abandon = true
			s.viol(w.Key+"/deadlock", map[string]interface{}{"goroutines": excerpt(gs), "note": "a goroutine the Close waits for is receiving from a nil channel"})
			return true
		}
	}
	if waitUntil(closeLimit-settle, w.returned) {
		return false
	}
	a := parseStacks(allStacks(), false)
	time.Sleep(2 * time.Second)
	b := parseStacks(allStacks(), false)
	same := len(a) == len(b)
	if same {
		for i := range a {
			if a[i].ID != b[i].ID {
				same = false
				break
			}
			if a[i].Top == "" && !a[i].Harness {
				continue // runtime / unrelated goroutines may be anything
			}
			if strings.Contains(a[i].Stack, "deadlockVerdict") {
				continue
			}
			if !blockedState(a[i].State) || !blockedState(b[i].State) {
				same = false
				break
			}
		}
	}
	s.res.Abandon = true
	if same {
		s.viol(w.Key+"/deadlock", map[string]interface{}{"goroutines": excerpt(parseStacks(allStacks(), true))})
	} else {
		s.inconclusive("Close still running after 30 s with runnable goroutines")
	}
	return true
}

// judgeLaterSends: on every library connection that is closed now, a further Send must return an
// error and must not panic.
func (s *sess) judgeLaterSends() {
	if s.cc != nil && s.cc.IsClosed() {
		var err error
		w := watch("client.Send-after-close", func() error {
			_, err = s.cc.Send(frame.NewFrame(s.ver, 0, s.query(4242)))
			return err
		})
		<-w.done
		s.res.count("later_sends_checked", 1)
		if w.panicked {
			s.viol("send-after-close/client/panic-"+panicSlug(w.panicVal), map[string]interface{}{"panic": w.panicVal, "stack": w.stack})
		} else if err == nil {
			s.viol("send-after-close/client/accepted", nil)
		}
	}
	if s.sc != nil && s.sc.IsClosed() {
		var err error
		w := watch("serverConn.Send-after-close", func() error {
			err = s.sc.Send(frame.NewFrame(s.ver, 1, s.supported()))
			return err
		})
		<-w.done
		s.res.count("later_sends_checked", 1)
		if w.panicked {
			s.viol("send-after-close/server/panic-"+panicSlug(w.panicVal), map[string]interface{}{"panic": w.panicVal, "stack": w.stack})
		} else if err == nil {
			s.viol("send-after-close/server/accepted", nil)
		}
	}
}

// stageB closes everything and demands that nothing of the client package remains.
func (s *sess) stageB() {
	var ws []*callWatch
	if s.cc != nil {
		cc := s.cc
		ws = append(ws, watch("cleanup/client.Close", func() error { return cc.Close() }))
	}
	if s.sc != nil {
		sc := s.sc
		ws = append(ws, watch("cleanup/serverConn.Close", func() error { return sc.Close() }))
	}
	if s.server != nil {
		sv := s.server
		ws = append(ws, watch("cleanup/server.Close", func() error { return sv.Close() }))
	}
	if s.rawS != nil {
		s.rawS.close()
	}
	if s.rawC != nil {
		s.rawC.close()
	}
	if s.lis != nil {
		s.lis.Close()
	}
	allReturned := func() bool {
		for _, w := range ws {
			if !w.returned() {
				return false
			}
		}
		return true
	}
	if !waitUntil(settle, allReturned) {
		for _, w := range ws {
			if !w.returned() && s.deadlockVerdict(w) {
				s.cliCancel()
				s.srvCancel()
				return
			}
		}
	}
	// the parent contexts are cancelled only AFTER the leak check: a goroutine that outlives Close until
	// its parent context ends has survived Close
	defer s.cliCancel()
	defer s.srvCancel()
	for _, w := range ws {
		if w.panicked {
			s.viol(w.Name+"/panic-"+panicSlug(w.panicVal), map[string]interface{}{"panic": w.panicVal, "stack": w.stack})
			s.poisoned = true
			s.res.Abandon = true // locks of the library may be left locked: nothing after this is meaningful in this process
		}
	}
	if s.poisoned {
		return
	}
	var gs []gor
	lim := settle
	if s.stuckInA {
		lim = 300 * time.Millisecond
	}
	if waitUntil(lim, func() bool { gs = clientGoroutines(); return len(gs) == 0 }) {
		s.res.count("stageB_clean", 1)
		s.judgeRequests("B", true, nil)
		return
	}
	st, gs2 := stable(time.Second)
	if !st {
		s.inconclusive("stage B: client-package goroutines still running")
		return
	}
	s.res.Abandon = true
	tops := map[string]bool{}
	for _, g := range gs2 {
		name := g.Top
		if g.Harness {
			name = "receiver-stuck/" + canonical(name)
		} else {
			name = "goroutine-leak/" + funcSuffix.ReplaceAllString(name, "")
		}
		tops[name] = true
	}
	var names []string
	for n := range tops {
		names = append(names, n)
	}
	sort.Strings(names)
	for _, n := range names {
		s.viol(n, map[string]interface{}{"goroutines": excerpt(gs2)})
	}
	s.judgeRequests("B", true, gs2)
}
