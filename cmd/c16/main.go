// C16 — connections terminate cleanly on close, peer loss and timeout.
//
// Case classes (cases.go; the list is a pure function of (tier, seed)):
//
//	seq      scripted session driven to a step boundary (connected, startup-sent, authenticate-sent,
//	         ready, k requests in flight, unsent burst, mid-response, half a frame on the wire, between
//	         pages of a continuous-paging response, idle) and hit by ONE fault (client.Close, client
//	         context, serverConn.Close, server.Close, server context, peer close / half-close / reset,
//	         silence, silence followed by late pages; on a pipe: read/write error after k bytes, short
//	         write, read/write blocking until closed), optionally with receivers blocked in Receive /
//	         ReceiveEvent / serverConn.Receive. Set-ups: library client <-> library server over TCP,
//	         library client <-> raw TCP peer, raw TCP peer <-> library server, shim connections over
//	         net.Pipe behind a fault-injecting net.Conn.
//	conc     close under load: S senders with pipelined requests (plain and continuous-paging), an event
//	         stream, receivers blocked in ReceiveEvent / serverConn.Receive, log-hook jitter; the fault
//	         arrives after a PRNG-chosen number of completed responses. A quarter runs in the -race build.
//	rdv      orderings forced through the log hook (hold the goroutine that logs P until Q is logged).
//	special  server.Close with a holder that never got its connection; use after close; concurrent Closes.
//	timeout  the read-timeout clause on the shim's in-flight handler, judged on measured timestamps.
//	hunt     many attempts at "send on closed channel" / Close meeting starting goroutines: rendezvous +
//	         PRNG-chosen spin, open-then-close at once, and Send storms.
//
// Oracle (judge.go): stage A after the fault alone, stage B after everything was closed (no goroutine
// with a client-package frame may remain; parent contexts are cancelled only after that check). Every
// wait is a polling limit; a verdict is taken on a reached goal or on a stable state (two goroutine
// snapshots 1 s apart, same goroutines, all blocked), otherwise the case is inconclusive.
//
// Supervisor / worker: the code under test runs only in child processes (this binary re-executed
// with "worker <lo> <hi>"), because a panic in a goroutine of the library kills the process. A
// worker appends JSON lines to its result file: {"start":i} BEFORE case i runs, the case result
// after it. When a worker dies, the supervisor attributes the death to the started-but-unfinished
// case, keeps the stderr file, re-runs that case alone (to report whether it reproduces) and
// continues with the cases after it.
package main

import (
	"bufio"
	"encoding/json"
	"fmt"
	"os"
	"os/exec"
	"path/filepath"
	"regexp"
	"runtime"
	"sort"
	"strconv"
	"strings"
	"sync"
	"time"

	"verif/internal/mon"
)

func main() { mon.Main("C16", run) }

func run(c *mon.Ctx) {
	if len(c.Args) >= 1 && c.Args[0] == "worker" {
		workerMain(c)
		return
	}
	supervise(c)
}

// ---------------------------------------------------------------------------------------------
// worker

func workerMain(c *mon.Ctx) {
	if len(c.Args) < 4 {
		c.Fatal("worker: usage: worker <lo> <hi> <resultfile>")
	}
	lo, _ := strconv.Atoi(c.Args[1])
	hi, _ := strconv.Atoi(c.Args[2])
	out, err := os.OpenFile(c.Args[3], os.O_CREATE|os.O_WRONLY|os.O_APPEND, 0o644)
	if err != nil {
		c.Fatal("worker: %v", err)
	}
	cases := buildCases(c.Seed, c.Thorough())
	if c.Replay != "" {
		var d struct {
			Case caseSpec `json:"case"`
		}
		if err := c.ReplayDetail(&d); err != nil {
			c.Fatal("replay: %v", err)
		}
		cases = []caseSpec{d.Case}
		lo, hi = 0, 1
	}
	installTap()
	emit := func(r *caseResult) {
		b, err := json.Marshal(r)
		if err != nil {
			b, _ = json.Marshal(&caseResult{Done: r.Done, Inc: []string{"worker: result not serialisable: " + err.Error()}})
		}
		out.Write(append(b, '\n'))
	}
	for i := lo; i < hi && i < len(cases); i++ {
		idx := i
		emit(&caseResult{Start: &idx})
		sp := cases[i]
		t0 := time.Now()
		res := runCase(&sp)
		res.Ms = time.Since(t0).Milliseconds()
		res.Done = &idx
		emit(res)
		if res.Abandon {
			out.Close()
			os.Exit(3)
		}
	}
	out.Close()
	os.Exit(0)
}

func runCase(sp *caseSpec) *caseResult {
	res := &caseResult{}
	theTap.reset()
	switch sp.Class {
	case "seq":
		runSeq(sp, res)
	case "special":
		runSpecial(sp, res)
	case "rdv":
		runRdv(sp, res)
	case "timeout":
		runTimeout(sp, res)
	case "conc":
		runConc(sp, res)
	case "hunt":
		runHunt(sp, res)
	default:
		res.Inc = append(res.Inc, "unknown class "+sp.Class)
	}
	theTap.reset()
	return res
}

func runSeq(sp *caseSpec, res *caseResult) {
	s := &sess{sp: sp, res: res}
	if err := s.open(); err != nil {
		res.Inc = append(res.Inc, "set-up failed: "+trimAddr(err.Error()))
		s.stageBQuiet()
		return
	}
	if err := s.runSteps(); err != nil {
		res.Inc = append(res.Inc, "fault point not reached: "+trimAddr(err.Error()))
		s.stageBQuiet()
		return
	}
	s.startReceivers()
	pending := 0
	for _, t := range s.allReqs() {
		if !t.poll() {
			pending++
		}
	}
	s.injectFault()
	s.stageA()
	if !res.Abandon {
		s.stageB()
	}
	res.Evals = 1
	res.Sigs = append(res.Sigs, sp.signature())
	res.count("seq_cases", 1)
	res.count("fault/"+sp.Fault, 1)
	res.count("step/"+sp.Step, 1)
	res.count("setup/"+sp.Setup, 1)
	res.max("max_pending_at_fault", int64(pending))
	if pending > 0 {
		res.count("cases_with_pending_requests", 1)
	}
	if sp.Idx%37 == 0 {
		res.Sample = map[string]interface{}{"case": sp, "pending_at_fault": pending, "requests": len(s.reqs), "violations": len(res.Viol)}
	}
}

// stageBQuiet cleans up after a case that could not be set up; its findings are still findings
// (a leak is a leak), but the case does not count as an evaluation.
func (s *sess) stageBQuiet() {
	if s.cliCancel == nil {
		return
	}
	s.stageB()
}

var addrRe = regexp.MustCompile(`127\.0\.0\.1:\d+`)

func trimAddr(s string) string {
	s = addrRe.ReplaceAllString(s, "127.0.0.1:*")
	if len(s) > 160 {
		s = s[:160]
	}
	return s
}

// ---------------------------------------------------------------------------------------------
// supervisor

type batch struct {
	lo, hi int
	race   bool
}

type deathInfo struct {
	Case         caseSpec `json:"case"`
	Exit         string   `json:"exit"`
	Panic        string   `json:"panic"`
	LibraryPanic bool     `json:"library_goroutine_panic"`
	StderrTail   string   `json:"stderr_tail"`
	Reruns       int      `json:"reruns_alone"`
	Reproduced   int      `json:"reproduced_in_reruns"`
}

type supervisor struct {
	c        *mon.Ctx
	cases    []caseSpec
	dir      string
	mu       sync.Mutex
	raceCls  map[string]int
	races    int
	slow     []string
	timeline []string
	t0       time.Time
	keys     map[string]int
}

func supervise(c *mon.Ctx) {
	c.Level = "fault_enumeration"
	c.Rule = "one case = (class, set-up, step boundary, fault, protocol version, auth, k requests in flight, pages, blocked receivers, perturbation) run on a fresh connection pair in a child process; " +
		"distinct = different tuple whose fault point was actually reached (requests pending at the fault are measured); concurrent cases add the log-hook event-order signature"
	c.Assume("runtime.Stack(all) lists every goroutine; a goroutine with a frame of package client (or created by one) belongs to the only connection pair of the running case")
	c.Assume("a goroutine in state chan receive/chan send/select/semacquire/sync.*/IO wait in two snapshots 1 s apart, with no runnable client-package goroutine, does not make progress any more")
	c.Assume("loopback TCP delivers FIN/RST to the peer; SO_LINGER 0 + close produces RST")
	c.Assume("data-race reports of the -race flavour are evidence only (the property does not state race freedom); panics are verdicts in both flavours")
	cases := buildCases(c.Seed, c.Thorough())
	if c.Replay != "" {
		var d struct {
			Case caseSpec `json:"case"`
		}
		if err := c.ReplayDetail(&d); err != nil {
			c.Fatal("replay: %v", err)
		}
		cases = []caseSpec{d.Case}
	}
	dir, err := os.MkdirTemp("", "c16-")
	if err != nil {
		c.Fatal("tmp: %v", err)
	}
	defer os.RemoveAll(dir)
	sv := &supervisor{c: c, cases: cases, dir: dir, raceCls: map[string]int{}, keys: map[string]int{}, t0: time.Now()}

	// batches of consecutive cases of one flavour; slow classes get small batches
	var batches []batch
	size := func(sp *caseSpec) int {
		switch {
		case sp.Class == "hunt" || sp.Class == "timeout" || sp.Class == "special":
			return 1
		case sp.silentFault():
			return 2
		case sp.Class == "conc":
			return 4
		}
		return 8
	}
	for i := 0; i < len(cases); {
		j := i + 1
		n := size(&cases[i])
		for j < len(cases) && j-i < n && cases[j].Race == cases[i].Race && size(&cases[j]) == n {
			j++
		}
		batches = append(batches, batch{i, j, cases[i].Race})
		i = j
	}
	// slow batches first (better packing)
	sort.SliceStable(batches, func(a, b int) bool {
		wa, wb := size(&cases[batches[a].lo]), size(&cases[batches[b].lo])
		return wa < wb
	})
	workers := runtime.GOMAXPROCS(0)
	if workers > 16 {
		workers = 16
	}
	if c.Replay != "" {
		workers = 1
	}
	mon.ParallelN(workers, len(batches), func(i int) { sv.runBatch(batches[i]) })

	c.Set("cases_total", len(cases))
	sort.Strings(sv.slow)
	if len(sv.slow) > 40 {
		sv.slow = sv.slow[len(sv.slow)-40:]
	}
	c.Set("slow_cases", sv.slow)
	sort.Strings(sv.timeline)
	if len(sv.timeline) > 25 {
		sv.timeline = sv.timeline[len(sv.timeline)-25:]
	}
	c.Set("longest_workers", sv.timeline)
	c.Set("all_violation_keys", sv.keys)
	// mon prints the first 25 unknown keys only: list all of them (stderr, informational)
	var ks []string
	for k := range sv.keys {
		ks = append(ks, k)
	}
	sort.Strings(ks)
	for _, k := range ks {
		fmt.Fprintf(os.Stderr, "C16-KEY x%d %s\n", sv.keys[k], k)
	}
	c.Set("race_reports", sv.races)
	if len(sv.raceCls) > 0 {
		c.Set("race_report_classes", sv.raceCls)
	}
	classes := map[string]int{}
	for _, sp := range cases {
		classes[sp.Class]++
	}
	c.Set("cases_by_class", classes)
}

// runBatch runs cases [lo,hi) in one worker; after a death it confirms the culprit alone and goes on
// with the rest.
func (sv *supervisor) runBatch(b batch) {
	lo := b.lo
	for lo < b.hi {
		next, died := sv.runWorker(lo, b.hi, b.race, false)
		if died != nil {
			sv.confirmDeath(died, b.race)
		}
		if next <= lo {
			next = lo + 1
		}
		lo = next
	}
}

type workerDeath struct {
	idx    int
	exit   string
	stderr string
}

// runWorker returns the index after the last case accounted for and, if the worker died inside a
// case, the description of that death.
func (sv *supervisor) runWorker(lo, hi int, race, confirm bool) (next int, died *workerDeath) {
	c := sv.c
	tag := fmt.Sprintf("w%d-%d-%d", lo, hi, time.Now().UnixNano()%1e9)
	resFile := filepath.Join(sv.dir, tag+".jsonl")
	errFile := filepath.Join(sv.dir, tag+".err")
	raceFile := filepath.Join(sv.dir, tag+".race")
	bin := mon.Self()
	if race {
		bin = mon.RaceSelf()
		if _, err := os.Stat(bin); err != nil {
			c.Inconclusive("race flavour of the binary not available")
			bin = mon.Self()
			race = false
		}
	}
	args := []string{"--tier", c.Tier, "--seed", strconv.FormatInt(c.Seed, 10)}
	if c.Replay != "" {
		args = append(args, "--replay", c.Replay)
	}
	args = append(args, "worker", strconv.Itoa(lo), strconv.Itoa(hi), resFile)
	cmd := exec.Command(bin, args...)
	ef, err := os.Create(errFile)
	if err != nil {
		c.Fatal("stderr file: %v", err)
	}
	cmd.Stdout = ef
	cmd.Stderr = ef
	cmd.Env = append(os.Environ(), "GOMAXPROCS=3", "GOTRACEBACK=all",
		"GORACE=log_path="+raceFile+" halt_on_error=0 exitcode=0 history_size=2")
	start := time.Now()
	if err := cmd.Start(); err != nil {
		ef.Close()
		c.Fatal("cannot start worker: %v", err)
	}
	doneCh := make(chan error, 1)
	go func() { doneCh <- cmd.Wait() }()
	watchdog := 150 * time.Second
	var werr error
	timedOut := false
	select {
	case werr = <-doneCh:
	case <-time.After(watchdog):
		timedOut = true
		_ = cmd.Process.Kill()
		werr = <-doneCh
	}
	ef.Close()
	sv.mu.Lock()
	sv.timeline = append(sv.timeline, fmt.Sprintf("%6dms start+%6dms [%d,%d) race=%v confirm=%v", time.Since(start).Milliseconds(), start.Sub(sv.t0).Milliseconds(), lo, hi, race, confirm))
	sv.mu.Unlock()

	started, finished := sv.foldResults(resFile, confirm)
	if race {
		sv.foldRaceReports(raceFile)
	}
	exit := "ok"
	if werr != nil {
		exit = werr.Error()
	}
	switch {
	case timedOut:
		c.Inconclusive("worker watchdog (150 s) fired")
		if started >= 0 && started < len(sv.cases) {
			c.Note("watchdog in case #%d %s\n%s", started, sv.cases[started].signature(), tailOf(errFile, 1500))
		}
		if started >= 0 && started > finished {
			return started + 1, nil
		}
		return finished + 1, nil
	case started >= 0 && started > finished:
		// died inside case `started`
		tail := tailOf(errFile, 6000)
		return started + 1, &workerDeath{idx: started, exit: exit, stderr: tail}
	case werr != nil && finished < 0 && started < 0:
		if confirm {
			return hi, &workerDeath{idx: lo, exit: exit, stderr: tailOf(errFile, 6000)}
		}
		c.Fatal("worker for cases [%d,%d) failed before running a case: %v\n%s", lo, hi, werr, tailOf(errFile, 2000))
	}
	if finished < lo {
		return hi, nil
	}
	return finished + 1, nil
}

// foldResults merges the lines of a worker result file. Returns the last started and last finished index.
func (sv *supervisor) foldResults(path string, confirm bool) (started, finished int) {
	started, finished = -1, -1
	f, err := os.Open(path)
	if err != nil {
		return
	}
	defer f.Close()
	sc := bufio.NewScanner(f)
	sc.Buffer(make([]byte, 1<<20), 1<<26)
	c := sv.c
	for sc.Scan() {
		var r caseResult
		if err := json.Unmarshal(sc.Bytes(), &r); err != nil {
			continue
		}
		if r.Start != nil {
			started = *r.Start
			continue
		}
		if r.Done == nil {
			continue
		}
		finished = *r.Done
		if r.Ms > 1500 {
			sv.mu.Lock()
			sv.slow = append(sv.slow, fmt.Sprintf("%dms #%d %s", r.Ms, *r.Done, sv.cases[*r.Done].signature()))
			sv.mu.Unlock()
		}
		if confirm {
			continue // a confirmation re-run is not counted twice
		}
		c.Eval(r.Evals)
		for _, s := range r.Sigs {
			c.Distinct(s)
		}
		for _, v := range r.Viol {
			c.Violation(v.Key, v.Detail)
			sv.mu.Lock()
			sv.keys[v.Key]++
			sv.mu.Unlock()
			sv.saveReplay(v.Key, v.Detail)
		}
		c.Count("ms_total/"+sv.cases[*r.Done].Class, r.Ms)
		for _, s := range r.Inc {
			c.Inconclusive(s)
		}
		for k, n := range r.Counters {
			c.Count(k, n)
		}
		for k, n := range r.Maxima {
			c.Max(k, n)
		}
		if r.Sample != nil && c.WantSample() {
			c.Sample(r.Sample)
		}
	}
	return
}

var raceFrame = regexp.MustCompile(`(?m)^  (\S+)\(`)

func (sv *supervisor) foldRaceReports(prefix string) {
	files, _ := filepath.Glob(prefix + "*")
	for _, p := range files {
		b, err := os.ReadFile(p)
		if err != nil {
			continue
		}
		for _, rep := range strings.Split(string(b), "==================") {
			if !strings.Contains(rep, "WARNING: DATA RACE") {
				continue
			}
			// class: first library frame of each of the two accesses
			var fr []string
			for _, part := range strings.Split(rep, "\n\n") {
				if !(strings.Contains(part, "by goroutine") && (strings.HasPrefix(strings.TrimSpace(part), "WARNING") || strings.HasPrefix(strings.TrimSpace(part), "Previous") || strings.HasPrefix(strings.TrimSpace(part), "Write") || strings.HasPrefix(strings.TrimSpace(part), "Read"))) {
					continue
				}
				for _, m := range raceFrame.FindAllStringSubmatch(part, -1) {
					if strings.Contains(m[1], "go-cassandra-native-protocol/") {
						fr = append(fr, strings.TrimPrefix(m[1], "github.com/datastax/go-cassandra-native-protocol/"))
						break
					}
				}
				if len(fr) == 2 {
					break
				}
			}
			sort.Strings(fr)
			cls := strings.Join(fr, " <-> ")
			if cls == "" {
				cls = "(no library frame)"
			}
			sv.mu.Lock()
			sv.races++
			sv.raceCls[cls]++
			sv.mu.Unlock()
		}
	}
}

// saveReplay writes a replay file for EVERY key (mon.Finish writes them for the first 25 only), in the
// same format, under replays/C16/all/.
func (sv *supervisor) saveReplay(key string, detail interface{}) {
	sv.mu.Lock()
	first := sv.keys[key] == 1
	sv.mu.Unlock()
	if !first || sv.c.Replay != "" {
		return
	}
	dir := filepath.Join(mon.Root(), "replays", "C16", "all")
	if os.MkdirAll(dir, 0o755) != nil {
		return
	}
	name := strings.NewReplacer("/", "_", "(", "", ")", "", "*", "").Replace(key)
	b, err := json.MarshalIndent(map[string]interface{}{"property": "C16", "key": key, "seed": sv.c.Seed, "tier": sv.c.Tier, "detail": detail}, "", " ")
	if err == nil {
		_ = os.WriteFile(filepath.Join(dir, name+".json"), b, 0o644)
	}
}

func tailOf(path string, n int) string {
	b, err := os.ReadFile(path)
	if err != nil {
		return ""
	}
	// keep the head of the panic (message + first goroutine) rather than the tail of a long dump
	s := string(b)
	if i := strings.Index(s, "panic: "); i >= 0 {
		s = s[i:]
	} else if i := strings.Index(s, "fatal error: "); i >= 0 {
		s = s[i:]
	}
	if len(s) > n {
		s = s[:n]
	}
	return s
}

var panicLine = regexp.MustCompile(`(?m)^(panic: .*|fatal error: .*)$`)

// confirmDeath classifies the death of a worker inside case idx and re-runs the case alone.
func (sv *supervisor) confirmDeath(d *workerDeath, race bool) {
	c := sv.c
	sp := sv.cases[d.idx]
	msg := ""
	if m := panicLine.FindString(d.stderr); m != "" {
		msg = m
	}
	// the panicking goroutine is the first one in the dump
	first := d.stderr
	if i := strings.Index(first, "\n\ngoroutine "); i >= 0 {
		if j := strings.Index(first[i+2:], "\n\n"); j >= 0 {
			first = first[:i+2+j]
		}
	}
	lib := strings.Contains(first, clientPkg)
	reruns, repro := 0, 0
	if c.Replay == "" {
		for k := 0; k < 2; k++ {
			reruns++
			_, dd := sv.runWorker(d.idx, d.idx+1, race, true)
			if dd != nil && panicSlug(dd.stderr) == panicSlug(d.stderr) {
				repro++
			}
		}
	}
	info := deathInfo{Case: sp, Exit: d.exit, Panic: msg, LibraryPanic: lib, StderrTail: d.stderr, Reruns: reruns, Reproduced: repro}
	c.Eval(1)
	c.Distinct(sp.signature() + "|died")
	c.Count("worker_deaths", 1)
	switch {
	case msg == "":
		c.Inconclusive("worker died without a panic message (" + d.exit + ")")
	case !lib && !strings.HasPrefix(msg, "fatal error: all goroutines are asleep"):
		// not raised in a goroutine running library code: the monitor itself is broken
		fmt.Fprintf(os.Stderr, "worker death outside the library in case %d:\n%s\n", d.idx, d.stderr)
		c.Fatal("worker panicked outside the library (case %d): %s", d.idx, msg)
	default:
		c.Violation(sp.keyPrefix()+"/panic-"+panicSlug(msg), info)
		sv.mu.Lock()
		sv.keys[sp.keyPrefix()+"/panic-"+panicSlug(msg)]++
		sv.mu.Unlock()
		sv.saveReplay(sp.keyPrefix()+"/panic-"+panicSlug(msg), info)
	}
}
