package main

// Goroutine snapshots: runtime.Stack(all) parsed into records; a goroutine "belongs to the client
// package" when one of its frames (or its creator) is a function of
// github.com/datastax/go-cassandra-native-protocol/client.

import (
	"regexp"
	"runtime"
	"sort"
	"strconv"
	"strings"
)

const clientPkg = "github.com/datastax/go-cassandra-native-protocol/client."

type gor struct {
	ID      int    `json:"id"`
	State   string `json:"state"`
	Top     string `json:"top"`     // innermost client-package function on the stack (or creator)
	Harness bool   `json:"harness"` // a main.* frame is on the stack: one of the monitor's own goroutines inside a library call
	Stack   string `json:"stack"`
}

var gorHeader = regexp.MustCompile(`^goroutine (\d+) \[([^\],]+)(?:, [^\]]*)?\]:$`)

func allStacks() string {
	n := 1 << 16
	for {
		buf := make([]byte, n)
		m := runtime.Stack(buf, true)
		if m < n {
			return string(buf[:m])
		}
		n *= 2
	}
}

func parseStacks(dump string, onlyClient bool) []gor {
	var out []gor
	for _, blk := range strings.Split(dump, "\n\n") {
		blk = strings.TrimSpace(blk)
		if blk == "" {
			continue
		}
		lines := strings.Split(blk, "\n")
		if onlyClient && !strings.Contains(blk, clientPkg) {
			continue
		}
		m := gorHeader.FindStringSubmatch(lines[0])
		if m == nil {
			continue
		}
		id, _ := strconv.Atoi(m[1])
		g := gor{ID: id, State: m[2]}
		for _, l := range lines[1:] {
			if strings.HasPrefix(l, "\t") {
				continue
			}
			fn := l
			if strings.HasPrefix(fn, "created by ") {
				fn = strings.TrimPrefix(fn, "created by ")
				if i := strings.Index(fn, " in goroutine"); i >= 0 {
					fn = fn[:i]
				}
			} else if i := strings.LastIndex(fn, "("); i >= 0 {
				fn = fn[:i]
			}
			if strings.HasPrefix(fn, clientPkg) && g.Top == "" {
				g.Top = strings.TrimPrefix(fn, "github.com/datastax/go-cassandra-native-protocol/")
			}
			if strings.HasPrefix(fn, "main.") && !strings.HasPrefix(l, "created by ") {
				g.Harness = true
			}
		}
		if g.Top == "" && onlyClient {
			continue
		}
		if len(blk) > 1800 {
			blk = blk[:1800] + "\n\t..."
		}
		g.Stack = blk
		out = append(out, g)
	}
	sort.Slice(out, func(i, j int) bool { return out[i].ID < out[j].ID })
	return out
}

// clientGoroutines returns the goroutines that have a client-package frame.
func clientGoroutines() []gor { return parseStacks(allStacks(), true) }

// blockedState: the goroutine cannot make progress by itself. "sleep" is not blocked (it wakes up),
// "IO wait" is blocked on the network poller.
func blockedState(s string) bool {
	switch s {
	case "running", "runnable", "syscall", "sleep", "waiting", "preempted", "copystack":
		return false
	}
	return true
}

func summarize(gs []gor) string {
	var sb strings.Builder
	for _, g := range gs {
		sb.WriteString(g.Stack)
		sb.WriteString("\n\n")
		if sb.Len() > 6000 {
			sb.WriteString("...")
			break
		}
	}
	return sb.String()
}
