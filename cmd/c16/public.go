package main

// The read-timeout clause through the PUBLIC constructor path: CqlClient{ReadTimeout: X,
// ConnectTimeout: Y}.Connect / ConnectAndInit with X != Y, against a raw TCP peer whose answers are
// scripted in time. (The shim cases of runTimeout hand the timeout to the in-flight handler directly and
// therefore cannot see which field of CqlClient ends up there.)
//
//	read-short          X small, Y large: a request that is never answered must fail with a timeout error.
//	                    Bound: X + settle. Not failed by then is a verdict only if the monitor's own
//	                    heartbeat (a 20 ms ticker) shows that the process was not stalled; else inconclusive.
//	read-long           X large, Y small: the answer arrives after ~3 Y of silence and must be DELIVERED.
//	                    A timeout error is a verdict only if the silence, measured from the monitor's own
//	                    timestamps as an upper bound, was below 0.9 X; else inconclusive (the peer was late).
//	read-long-pages     the same with continuous pages 2 Y apart.
//	…-ConnectAndInit    the same connections made by ConnectAndInit.
//	server-idle         the server's IdleTimeout / AcceptTimeout wiring: observed and counted only (the
//	                    property does not speak about the idle timeout).

import (
	"context"
	"fmt"
	"net"
	"strings"
	"sync"
	"sync/atomic"
	"time"

	"github.com/datastax/go-cassandra-native-protocol/client"
	"github.com/datastax/go-cassandra-native-protocol/frame"
	"github.com/datastax/go-cassandra-native-protocol/message"
	"github.com/datastax/go-cassandra-native-protocol/primitive"
)

// heartbeat measures the largest gap between ticks of a 20 ms ticker: the monitor's own view of
// whether timers and goroutines of this process were served in time.
type heartbeat struct {
	stop   chan struct{}
	done   chan struct{}
	maxGap int64 // ns
}

func startHeartbeat() *heartbeat {
	h := &heartbeat{stop: make(chan struct{}), done: make(chan struct{})}
	go func() {
		defer close(h.done)
		last := time.Now()
		t := time.NewTicker(20 * time.Millisecond)
		defer t.Stop()
		for {
			select {
			case <-h.stop:
				return
			case <-t.C:
				now := time.Now()
				if g := int64(now.Sub(last)); g > atomic.LoadInt64(&h.maxGap) {
					atomic.StoreInt64(&h.maxGap, g)
				}
				last = now
			}
		}
	}()
	return h
}

func (h *heartbeat) end() time.Duration {
	close(h.stop)
	<-h.done
	return time.Duration(atomic.LoadInt64(&h.maxGap))
}

func runTimeoutPublic(sp *caseSpec, res *caseResult) {
	X := time.Duration(sp.RT) * time.Millisecond
	Y := time.Duration(sp.CT) * time.Millisecond
	name := strings.TrimPrefix(sp.Name, "public/")
	viaInit := strings.HasSuffix(name, "-ConnectAndInit")
	name = strings.TrimSuffix(name, "-ConnectAndInit")
	ms := func(d time.Duration) float64 { return float64(d.Microseconds()) / 1000 }
	viol := func(ob string, extra map[string]interface{}) {
		d := map[string]interface{}{"case": sp, "ReadTimeout_ms": sp.RT, "ConnectTimeout_ms": sp.CT, "obligation": ob}
		for k, x := range extra {
			d[k] = x
		}
		res.addViolation(sp.keyPrefix()+"/"+ob, d)
	}
	if name == "server-idle" {
		runServerIdle(sp, res)
		return
	}
	s := &sess{sp: sp, res: res}
	s.cliCtx, s.cliCancel = context.WithCancel(context.Background())
	s.srvCtx, s.srvCancel = context.WithCancel(context.Background())
	ver := primitive.ProtocolVersionDse2

	l, err := net.Listen("tcp", "127.0.0.1:0")
	if err != nil {
		res.Inc = append(res.Inc, "set-up failed: "+trimAddr(err.Error()))
		return
	}
	s.lis = l
	// the peer: READY to STARTUP at once; a QUERY is answered according to the scenario. It records
	// when it STARTED each write (monitor-side timestamps, same clock).
	var pmu sync.Mutex
	var writeStarts []time.Time
	note := func() {
		pmu.Lock()
		writeStarts = append(writeStarts, time.Now())
		pmu.Unlock()
	}
	lastWrite := func() (time.Time, int) {
		pmu.Lock()
		defer pmu.Unlock()
		if len(writeStarts) == 0 {
			return time.Time{}, 0
		}
		return writeStarts[len(writeStarts)-1], len(writeStarts)
	}
	pages := 4
	go func() {
		c, err := l.Accept()
		if err != nil {
			return
		}
		p := newRawPeer(c)
		defer p.close()
		for {
			f, err := p.read(closeLimit)
			if err != nil {
				return
			}
			v, id := f.Header.Version, f.Header.StreamId
			switch f.Body.Message.(type) {
			case *message.Startup:
				if p.write(frame.NewFrame(v, id, &message.Ready{})) != nil {
					return
				}
			case *message.Query:
				switch name {
				case "read-short":
					// never answered
				case "read-long":
					time.Sleep(3 * Y)
					note()
					if p.write(frame.NewFrame(v, id, &message.Supported{Options: map[string][]string{}})) != nil {
						return
					}
				case "read-long-pages":
					for pg := 1; pg <= pages; pg++ {
						time.Sleep(2 * Y)
						note()
						if p.write(frame.NewFrame(v, id, pageMsg(pg, pg == pages))) != nil {
							return
						}
					}
				}
			}
		}
	}()

	cl := client.NewCqlClient(l.Addr().String(), nil)
	cl.ReadTimeout = X
	cl.ConnectTimeout = Y
	var cc *client.CqlClientConnection
	w := watch("Connect", func() error {
		var e error
		if viaInit {
			cc, e = cl.ConnectAndInit(s.cliCtx, ver, client.ManagedStreamId)
		} else if cc, e = cl.Connect(s.cliCtx); e == nil {
			e = cc.InitiateHandshake(ver, client.ManagedStreamId)
		}
		return e
	})
	if !waitUntil(stepLimit+X, w.returned) || w.err != nil || w.panicked || cc == nil {
		// (with a short read timeout a slow box can make the handshake itself time out)
		res.Inc = append(res.Inc, "fault point not reached: connect/handshake: "+trimAddr(fmt.Sprint(w.err, w.panicVal)))
		if cc != nil {
			s.cc = cc
		}
		s.stageB()
		return
	}
	s.cc = cc
	hb := startHeartbeat()
	t0a := time.Now()
	req, err := cc.Send(frame.NewFrame(ver, client.ManagedStreamId, &message.Query{Query: "SELECT timeout"}))
	if err != nil {
		hb.end()
		res.Inc = append(res.Inc, "fault point not reached: send: "+trimAddr(err.Error()))
		s.stageB()
		return
	}
	t := newTrack("q", name == "read-long-pages", req)
	s.addReq(t)
	// wait: frames are recorded with their observation time; returns when the channel closes or the limit expires
	limit := X + settle
	tm := time.NewTimer(limit)
	defer tm.Stop()
	closed := false
	var tc time.Time
	frames := 0
loop:
	for {
		select {
		case f, ok := <-t.ch:
			if !ok {
				closed, tc = true, time.Now()
				break loop
			}
			frames++
			t.note(f)
		case <-tm.C:
			tc = time.Now()
			break loop
		}
	}
	maxGap := hb.end()
	stalled := maxGap >= time.Second
	info := map[string]interface{}{"frames_delivered": frames, "closed": closed, "waited_ms": ms(tc.Sub(t0a)), "monitor_heartbeat_max_gap_ms": ms(maxGap)}
	res.max("max_public_heartbeat_gap_ms", int64(ms(maxGap)))
	switch name {
	case "read-short":
		switch {
		case !closed && stalled:
			res.Inc = append(res.Inc, "public read-short: not failed within X + settle, but the monitor's heartbeat stalled")
		case !closed:
			viol("not-timed-out", info)
		default:
			e, done, ok := t.state()
			info["err"], info["is_done"] = fmt.Sprint(e), done
			if !ok {
				break
			}
			if up := tc.Sub(t0a); up < X*9/10 {
				info["elapsed_ms_at_most"] = ms(up)
				viol("early", info)
			}
			if e == nil {
				viol("err-nil", info)
			} else if !strings.Contains(e.Error(), "timed out") {
				viol("wrong-error", info)
			}
			if !done {
				viol("not-done", info)
			}
			res.count("public_read_short_timed_out", 1)
		}
	case "read-long", "read-long-pages":
		want := 1
		if name == "read-long-pages" {
			want = pages
		}
		if t.final() && frames == want {
			res.count("public_read_long_delivered", 1)
			break
		}
		e, done, ok := t.state()
		info["err"], info["is_done"] = fmt.Sprint(e), done
		// the silence before the closure, as an upper bound: from the start of the peer's last write (or from
		// the send when it has not written yet) to the observation of the closure
		from, nw := lastWrite()
		if nw == 0 || name == "read-long" {
			from = t0a
		}
		silence := tc.Sub(from)
		info["silence_ms_at_most"], info["peer_writes"] = ms(silence), nw
		switch {
		case !closed:
			res.Inc = append(res.Inc, "public read-long: response neither delivered nor request failed within X + settle")
		case !ok:
		case e != nil && strings.Contains(e.Error(), "timed out") && silence < X*9/10:
			// (a stall of the monitor can only make the measured silence longer, never shorter)
			viol("timed-out-early", info)
		case e != nil:
			res.Inc = append(res.Inc, "public read-long: request failed, but the measured silence does not allow a verdict")
		default:
			res.Inc = append(res.Inc, "public read-long: closed without error before the last frame was seen")
		}
	}
	s.stageB()
	res.Evals = 1
	res.Sigs = append(res.Sigs, sp.signature()+fmt.Sprintf("|X%d|Y%d", sp.RT, sp.CT))
	res.count("timeout_public_cases", 1)
}

// runServerIdle: IdleTimeout large / AcceptTimeout small and the reverse, a raw client that stays
// silent for a while. Only counted: when the server connection was closed relative to both settings.
func runServerIdle(sp *caseSpec, res *caseResult) {
	idle := time.Duration(sp.RT) * time.Millisecond
	acc := time.Duration(sp.CT) * time.Millisecond
	s := &sess{sp: sp, res: res}
	s.cliCtx, s.cliCancel = context.WithCancel(context.Background())
	s.srvCtx, s.srvCancel = context.WithCancel(context.Background())
	srv := client.NewCqlServer("127.0.0.1:0", nil)
	srv.IdleTimeout = idle
	srv.AcceptTimeout = acc
	if err := srv.Start(s.srvCtx); err != nil {
		res.Inc = append(res.Inc, "set-up failed: "+trimAddr(err.Error()))
		return
	}
	s.server = srv
	c, err := net.DialTimeout("tcp", srv.VerifAddr().String(), stepLimit)
	if err != nil {
		res.Inc = append(res.Inc, "set-up failed: "+trimAddr(err.Error()))
		s.stageB()
		return
	}
	s.rawC = newRawPeer(c)
	var sc *client.CqlServerConnection
	waitUntil(stepLimit, func() bool {
		cs, err := srv.AllAcceptedClients()
		if err == nil && len(cs) == 1 {
			sc = cs[0]
		}
		return sc != nil
	})
	if sc == nil {
		res.Inc = append(res.Inc, "set-up failed: connection not accepted")
		s.stageB()
		return
	}
	s.sc = sc
	small := idle
	if acc < small {
		small = acc
	}
	t0 := time.Now()
	closedEarly := waitUntil(3*small, sc.IsClosed)
	el := time.Since(t0)
	switch {
	case idle > acc && closedEarly:
		res.count("server_idle/closed_within_3xAcceptTimeout_although_IdleTimeout_is_large", 1)
	case idle > acc:
		res.count("server_idle/still_open_after_3xAcceptTimeout", 1)
	case closedEarly:
		res.count("server_idle/closed_by_short_IdleTimeout", 1)
	default:
		res.count("server_idle/still_open_after_3xIdleTimeout", 1)
	}
	res.max("max_server_idle_observation_ms", el.Milliseconds())
	s.stageB()
	res.Evals = 1
	res.Sigs = append(res.Sigs, sp.signature()+fmt.Sprintf("|idle%d|acc%d", sp.RT, sp.CT))
	res.count("timeout_public_cases", 1)
}
