package main

// The case list is a pure function of (tier, seed): an enumeration of
// (class, set-up, step, fault, version, auth, k, pages, receivers, perturbation) tuples.

import (
	"fmt"
	"strings"

	"verif/internal/mon"
)

type caseSpec struct {
	Idx       int    `json:"idx"`
	Class     string `json:"class"`           // seq | conc | rdv | special | timeout | hunt
	Setup     string `json:"setup,omitempty"` // lib-lib | lib-raw | raw-lib | pipe-client | pipe-server | pipe-both | shim
	Step      string `json:"step,omitempty"`
	Fault     string `json:"fault,omitempty"`
	Version   int    `json:"version,omitempty"`
	Auth      bool   `json:"auth,omitempty"`
	K         int    `json:"k,omitempty"`
	Pages     int    `json:"pages,omitempty"`
	After     int    `json:"after,omitempty"` // fault conn: bytes let through before the fault
	RT        int    `json:"rt_ms,omitempty"`
	CT        int    `json:"ct_ms,omitempty"` // public-wiring timeout cases: CqlClient.ConnectTimeout (server: AcceptTimeout)
	Receivers bool   `json:"receivers,omitempty"`
	Handlers  bool   `json:"handlers,omitempty"`
	// concurrent cases
	Senders  int    `json:"senders,omitempty"`
	Depth    int    `json:"depth,omitempty"`
	FaultAt  int    `json:"fault_at,omitempty"` // responses completed before the fault is injected
	Perturb  string `json:"perturb,omitempty"`  // "" | jitter | rdv
	PSeed    uint64 `json:"pseed,omitempty"`
	Name     string `json:"name,omitempty"` // rdv / special / timeout / hunt scenario name
	Attempts int    `json:"attempts,omitempty"`
	Race     bool   `json:"race,omitempty"` // run by the -race flavour of the binary
	Seed     int64  `json:"seed"`
}

func (sp *caseSpec) silentFault() bool {
	return sp.Fault == "silent" || sp.Fault == "silent+late-page" || sp.Fault == "read-block" || sp.Fault == "write-block"
}

// side: which end the monitor judges as "the faulted connection's owner".
func (sp *caseSpec) side() string {
	switch sp.Setup {
	case "lib-raw", "pipe-client":
		return "client"
	case "raw-lib", "pipe-server":
		return "server"
	}
	return "both"
}

// keyPrefix: (scenario class, fault, side). Version, auth, k … are in the detail, not in the key.
func (sp *caseSpec) keyPrefix() string {
	switch sp.Class {
	case "seq":
		return sp.Step + "/" + sp.Fault + "/" + sp.Setup
	case "conc":
		return "close-under-load/" + sp.Fault + "/" + sp.Setup
	case "rdv":
		return "rendezvous/" + sp.Name
	case "special":
		return sp.Name
	case "timeout":
		return "timeout/" + sp.Name
	case "hunt":
		return "hunt/" + sp.Name
	}
	return sp.Class
}

func (sp *caseSpec) signature() string {
	return fmt.Sprintf("%s|%s|%s|%s|v%d|a%v|k%d|p%d|r%v|h%v|s%d|d%d|%s|%s|after%d", sp.Class, sp.Setup, sp.Step, sp.Fault,
		sp.Version, sp.Auth, sp.K, sp.Pages, sp.Receivers, sp.Handlers, sp.Senders, sp.Depth, sp.Perturb, sp.Name, sp.After)
}

type violation struct {
	Key    string      `json:"key"`
	Detail interface{} `json:"detail"`
}

type caseResult struct {
	Start    *int             `json:"start,omitempty"` // progress marker line: written BEFORE the case runs
	Done     *int             `json:"done,omitempty"`
	Evals    int              `json:"evals,omitempty"`
	Sigs     []string         `json:"sigs,omitempty"`
	Viol     []violation      `json:"viol,omitempty"`
	Inc      []string         `json:"inc,omitempty"`
	Counters map[string]int64 `json:"counters,omitempty"`
	Maxima   map[string]int64 `json:"maxima,omitempty"`
	Sample   interface{}      `json:"sample,omitempty"`
	Ms       int64            `json:"ms,omitempty"`
	Abandon  bool             `json:"abandon,omitempty"` // the worker must not run further cases (wrecked process state)
}

func (r *caseResult) addViolation(key string, detail interface{}) {
	for _, v := range r.Viol {
		if v.Key == key {
			return
		}
	}
	r.Viol = append(r.Viol, violation{key, detail})
}

func (r *caseResult) count(name string, n int64) {
	if r.Counters == nil {
		r.Counters = map[string]int64{}
	}
	r.Counters[name] += n
}

func (r *caseResult) max(name string, v int64) {
	if r.Maxima == nil {
		r.Maxima = map[string]int64{}
	}
	if v > r.Maxima[name] {
		r.Maxima[name] = v
	}
}

// ---------------------------------------------------------------------------------------------

var libLibFaults = []string{"client.Close", "client.ctx", "serverConn.Close", "server.Close", "server.ctx", "silent"}
var libRawFaults = []string{"peer-close", "peer-reset", "peer-halfclose", "silent", "client.Close", "client.ctx"}
var rawLibFaults = []string{"peer-close", "peer-reset", "silent", "serverConn.Close", "server.Close", "server.ctx"}

type stepDef struct {
	Step  string
	K     int
	Pages int
	Auth  bool
}

func seqSteps(paging bool) []stepDef {
	st := []stepDef{
		{Step: "connected"},
		{Step: "startup-sent"},
		{Step: "authenticate-sent", Auth: true},
		{Step: "ready"},
		{Step: "ready", Auth: true},
		{Step: "inflight", K: 1},
		{Step: "inflight", K: 8},
		{Step: "unsent-burst", K: 8},
		{Step: "mid-response", K: 8},
		{Step: "idle-after", K: 3},
	}
	if paging {
		st = append(st, stepDef{Step: "between-pages", K: 1, Pages: 1}, stepDef{Step: "between-pages", K: 2, Pages: 2})
	}
	return st
}

// buildCases enumerates the case list. mult > 1 (thorough) repeats the list with other perturbation
// seeds, receivers flags, k, page counts and byte offsets.
func buildCases(seed int64, thorough bool) []caseSpec {
	var out []caseSpec
	add := func(sp caseSpec) {
		sp.Idx = len(out)
		sp.Seed = seed
		out = append(out, sp)
	}
	// thorough: 10 rounds of the scripted list (other k, page counts, byte offsets, receiver flags), the
	// concurrent list with 5 perturbation seeds per case in rounds 0 and 5 (2000 cases), hunts 4 x longer.
	// (Sized by measurement: ~8 cases/s on a heavily loaded 16-core box => about 15 minutes.)
	rounds := 1
	if thorough {
		rounds = 10
	}
	r := mon.NewRand(seed, 0xC16)
	for round := 0; round < rounds; round++ {
		n := 0
		// ---- sequential, scripted
		for _, setup := range []string{"lib-lib", "lib-raw", "raw-lib"} {
			versions := []int{4, 5}
			faults := libLibFaults
			switch setup {
			case "lib-raw":
				versions, faults = []int{4, 66}, libRawFaults
			case "raw-lib":
				versions, faults = []int{4, 66}, rawLibFaults
			}
			for vi, v := range versions {
				for _, st := range seqSteps(true) {
					if setup == "raw-lib" && (st.Step == "between-pages" || st.Step == "unsent-burst") {
						continue // a raw client has no request objects to judge; server side sees nothing new
					}
					if st.Step == "between-pages" {
						// continuous paging: DSE versions over the legacy framing, v5 (segments) between the library's own ends
						if v == 4 {
							if setup == "lib-lib" {
								v = 66
							} else {
								continue
							}
						}
					}
					// the second version of a set-up runs a thinner list of steps in the quick tier
					if vi == 1 && round == 0 && !thorough && (st.Step == "ready" && st.Auth || st.Step == "idle-after" || st.Step == "inflight" && st.K == 1) {
						continue
					}
					for _, f := range faults {
						sp := caseSpec{Class: "seq", Setup: setup, Step: st.Step, Fault: f, Version: v, Auth: st.Auth, K: st.K, Pages: st.Pages}
						sp.Receivers = (n+round)%2 == 0
						if round > 0 {
							if sp.K > 1 {
								sp.K = 2 + r.Intn(15)
							}
							if sp.Pages > 0 {
								sp.Pages = 1 + r.Intn(4)
							}
						}
						n++
						add(sp)
						if st.Step == "between-pages" && f == "silent" && setup != "raw-lib" {
							sp.Fault = "silent+late-page"
							add(sp)
						}
					}
					if st.Step == "inflight" && st.K == 8 && setup != "lib-lib" {
						for _, f := range []string{"peer-close", "peer-reset", "silent"} {
							add(caseSpec{Class: "seq", Setup: setup, Step: "half-frame", Fault: f, Version: v, K: 1 + (n+round)%4, Receivers: n%2 == 0})
							n++
						}
					}
				}
			}
		}
		// ---- sequential, over a pipe with a fault-injecting conn
		for _, setup := range []string{"pipe-client", "pipe-server", "pipe-both"} {
			for _, st := range []stepDef{{Step: "connected"}, {Step: "startup-sent"}, {Step: "ready"}, {Step: "inflight", K: 4}, {Step: "mid-response", K: 4}, {Step: "between-pages", K: 2, Pages: 2}} {
				if setup == "pipe-server" && st.Step == "between-pages" {
					continue
				}
				for fi, f := range []string{"read-err", "write-err", "short-write", "read-block", "write-block", "client.Close", "serverConn.Close", "peer-close"} {
					if f == "client.Close" && setup == "pipe-server" || f == "serverConn.Close" && setup == "pipe-client" || f == "peer-close" && setup == "pipe-both" {
						continue
					}
					if (f == "write-err" || f == "write-block" || f == "short-write") && st.Step == "connected" && setup == "pipe-server" {
						continue // a server connection has nothing to write before a request arrived
					}
					after := []int{0, 1, 5, 9, 12}[(n+fi+round)%5]
					if round > 0 {
						after = r.Intn(24)
					}
					v := 4
					if st.Step == "between-pages" {
						v = 66
					}
					add(caseSpec{Class: "seq", Setup: setup, Step: st.Step, Fault: f, Version: v, K: st.K, Pages: st.Pages, After: after, Receivers: (n+round)%2 == 1})
					n++
				}
			}
		}
		// ---- a pending request on a caller-chosen stream id + a refused Send with the same id, then the fault
		for _, d := range []struct {
			setup  string
			v      int
			faults []string
		}{
			{"lib-lib", 4, []string{"client.Close", "client.ctx", "serverConn.Close", "server.Close"}},
			{"lib-lib", 5, []string{"client.Close", "server.ctx"}},
			{"lib-raw", 4, []string{"peer-close", "peer-reset", "client.Close", "client.ctx"}},
			{"pipe-client", 4, []string{"client.Close", "peer-close", "read-err"}},
			{"pipe-both", 4, []string{"client.Close", "serverConn.Close", "read-err", "write-err"}},
		} {
			for _, f := range d.faults {
				k := 2
				if round > 0 {
					k = 1 + r.Intn(8)
				}
				add(caseSpec{Class: "seq", Setup: d.setup, Step: "dup-id", Fault: f, Version: d.v, K: k, After: 3, Receivers: (n+round)%2 == 0})
				n++
			}
		}
		// ---- write errors on a client connection that has switched to v5 segments (the reads keep blocking)
		for _, st := range []stepDef{{Step: "ready"}, {Step: "inflight", K: 4}, {Step: "mid-response", K: 4}} {
			for fi, f := range []string{"write-err", "short-write", "write-block", "read-err"} {
				after := []int{0, 3, 9}[(n+fi+round)%3]
				add(caseSpec{Class: "seq", Setup: "pipe-both", Step: st.Step, Fault: f, Version: 5, K: st.K, After: after, Receivers: (n+round)%2 == 0})
				n++
			}
		}
		// ---- the same on the SERVER's end of the pipe: a server connection that writes v5 segments (or v4 frames)
		for _, v := range []int{5, 4} {
			for _, st := range []stepDef{{Step: "startup-sent"}, {Step: "ready"}, {Step: "inflight", K: 4}, {Step: "mid-response", K: 4}} {
				if v == 4 && st.Step != "inflight" {
					continue
				}
				for fi, f := range []string{"write-err", "short-write", "read-err"} {
					after := []int{0, 3, 9}[(n+fi+round)%3]
					add(caseSpec{Class: "seq", Setup: "pipe-both-sfc", Step: st.Step, Fault: f, Version: v, K: st.K, After: after, Receivers: (n+round)%2 == 0})
					n++
				}
			}
		}
		// ---- the net.Conn reports an error from Close() (after really closing): k in {0,1,N}, blocked receivers
		for _, setup := range []string{"pipe-client", "pipe-server", "pipe-both"} {
			for _, st := range []stepDef{{Step: "ready"}, {Step: "inflight", K: 1}, {Step: "inflight", K: 8}, {Step: "mid-response", K: 4}} {
				for _, f := range []string{"close-err+Close", "close-err+peer-close"} {
					k := st.K
					if round > 0 && k > 1 {
						k = 2 + r.Intn(15)
					}
					add(caseSpec{Class: "seq", Setup: setup, Step: st.Step, Fault: f, Version: 4, K: k, Receivers: round%2 == 0})
					n++
				}
			}
		}
		// ---- special scripted scenarios
		for _, name := range []string{"server.Close/unaccepted-holder", "server.Close/accept-blocked", "server.ctx/accept-blocked", "send-after-close", "double-close", "server.Close/after-MaxConnections-accepts",
			"ConnectAndInit-failed/no-answer", "ConnectAndInit-failed/unexpected-authenticate", "ConnectAndInit-failed/unexpected-authenticate-libserver", "ConnectAndInit-failed/error-response",
			"ConnectAndInit-failed/peer-closes-after-AUTH_RESPONSE", "ConnectAndInit-failed/peer-resets-after-AUTH_RESPONSE", "ConnectAndInit-failed/silent-after-AUTH_RESPONSE",
			"ConnectAndInit-failed/client.ctx-during-auth", "ConnectAndInit-failed/client.Close-during-auth", "ConnectAndInit-failed/error-after-AUTH_RESPONSE",
			"dup-id/shim-inflight"} {
			add(caseSpec{Class: "special", Name: name, Setup: "lib-lib", Version: 4})
		}
		// ---- rendezvous scenarios (deterministic orderings forced through the log hook)
		for _, name := range rdvNames {
			reps := 2
			if name == "final-response-vs-client.Close" {
				reps = 6
			}
			for k := 0; k < reps; k++ {
				add(caseSpec{Class: "rdv", Name: name, Setup: "lib-lib", Version: []int{4, 5}[k%2], Perturb: "rdv", PSeed: r.Uint64()})
			}
		}
		// ---- timeouts (shim)
		for _, name := range []string{"no-frames", "during-pages", "after-page", "after-pages"} {
			for _, T := range []int{200, 300} {
				add(caseSpec{Class: "timeout", Name: name, Setup: "shim", RT: T, Pages: 1})
			}
		}
		// ---- timeouts through the public constructors, ReadTimeout != ConnectTimeout in both directions
		for _, pc := range []struct {
			name   string
			rt, ct int
		}{
			{"public/read-short", 300, 10000}, {"public/read-short-ConnectAndInit", 300, 5000},
			{"public/read-long", 3000, 200}, {"public/read-long-ConnectAndInit", 3000, 250},
			{"public/read-long-pages", 3000, 200},
			{"public/server-idle", 3000, 200}, {"public/server-idle", 300, 10000},
		} {
			add(caseSpec{Class: "timeout", Name: pc.name, Setup: "public", RT: pc.rt, CT: pc.ct})
		}
		// ---- concurrent: close under load
		// quick: 200 concurrent cases; thorough: 200 x 5 perturbation seeds in 2 of the 10 rounds (10 x the quick tier)
		concN := 200
		perSeed := 1
		if thorough {
			perSeed = 5
			if round%5 != 0 {
				concN = 0
			}
		}
		concFaults := map[string][]string{
			"lib-lib":   {"client.Close", "client.ctx", "serverConn.Close", "server.Close", "server.ctx"},
			"lib-raw":   {"client.Close", "client.ctx", "peer-close", "peer-reset"},
			"pipe-both": {"client.Close", "serverConn.Close", "read-err", "write-err"},
		}
		setups := []string{"lib-lib", "lib-lib", "lib-raw", "pipe-both"}
		var concCases []caseSpec
		for i := 0; i < concN; i++ {
			setup := setups[i%len(setups)]
			fs := concFaults[setup]
			base := caseSpec{Class: "conc", Setup: setup, Fault: fs[(i/len(setups))%len(fs)], Receivers: true}
			base.Version = []int{4, 5, 66}[r.Intn(3)]
			if setup != "lib-lib" && base.Version == 5 {
				base.Version = 4
			}
			if setup == "pipe-both" {
				base.Version = []int{4, 5, 66}[r.Intn(3)]
			}
			base.Handlers = setup != "lib-raw"
			base.Senders = []int{1, 2, 4}[r.Intn(3)]
			base.Depth = []int{1, 2, 8}[r.Intn(3)]
			base.FaultAt = r.Intn(25)
			base.After = r.Intn(40)
			base.Pages = 0
			if base.Version == 66 {
				base.Pages = 3
			}
			for k := 0; k < perSeed; k++ {
				sp := base
				sp.PSeed = r.Uint64()
				switch (i + k) % 4 {
				case 0:
					sp.Perturb = ""
				default:
					sp.Perturb = "jitter"
				}
				sp.Race = i%4 == 3
				concCases = append(concCases, sp)
			}
		}
		// the cases of the -race flavour are kept together (one worker process runs several of them)
		for _, race := range []bool{false, true} {
			for _, sp := range concCases {
				if sp.Race == race {
					add(sp)
				}
			}
		}
		// ---- hunts for "send on closed channel": many attempts inside one case
		att := 250
		if thorough {
			att = 1000
		}
		for _, name := range huntNames {
			if thorough && round%5 != 0 {
				break
			}
			for k := 0; k < 2; k++ {
				add(caseSpec{Class: "hunt", Name: name, Setup: "pipe-both", Version: 4, Attempts: att, PSeed: r.Uint64(), Race: k == 1, Perturb: "rdv"})
			}
		}
	}
	return out
}

func panicSlug(val string) string {
	switch {
	case strings.Contains(val, "send on closed channel"):
		return "send-on-closed-channel"
	case strings.Contains(val, "close of closed channel"):
		return "close-of-closed-channel"
	case strings.Contains(val, "close of nil channel"):
		return "close-of-nil-channel"
	case strings.Contains(val, "nil pointer dereference"), strings.Contains(val, "invalid memory address"):
		return "nil-dereference"
	case strings.Contains(val, "negative WaitGroup counter"), strings.Contains(val, "WaitGroup"):
		return "waitgroup-misuse"
	case strings.Contains(val, "all goroutines are asleep"):
		return "all-goroutines-asleep"
	case strings.Contains(val, "concurrent map"):
		return "concurrent-map-access"
	case strings.Contains(val, "index out of range"):
		return "index-out-of-range"
	}
	return "other"
}
