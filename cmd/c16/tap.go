package main

// M5 — zerolog hook: the library logs at ~50 points of package client; with the global logger
// replaced by one that carries this hook, every such point calls (*tap).Run synchronously in the
// goroutine that logs. Nothing in /repo changes. Modes (per case, switched with atomics so that the
// global logger itself is installed exactly once per worker process):
//
//	off         no effect
//	jitter      at PRNG-chosen events: runtime.Gosched() x k, or sleep 50..500 us
//	rendezvous  hold the goroutine that logs a message of class P until some goroutine logs a
//	            message of class Q, or until a timeout merely releases it (never a verdict)
//
// A message class is (side prefix, substring) of the formatted log message.

import (
	"io"
	"runtime"
	"strings"
	"sync"
	"sync/atomic"
	"time"

	"github.com/rs/zerolog"
	"github.com/rs/zerolog/log"
)

type msgClass struct {
	Side string `json:"side"` // prefix of the message: "CQL client conn", "CQL server conn", "CQL server [", "" = any
	Sub  string `json:"sub"`  // substring
	Not  string `json:"not,omitempty"`
}

func (m msgClass) match(msg string) bool {
	if m.Sub == "" {
		return false
	}
	if m.Side != "" && !strings.HasPrefix(msg, m.Side) {
		return false
	}
	if m.Not != "" && strings.Contains(msg, m.Not) {
		return false
	}
	return strings.Contains(msg, m.Sub)
}

type rendezvous struct {
	P, Q    msgClass
	MaxHold time.Duration
	// SpinMax: after the release the held goroutine busy-waits a PRNG-chosen time in [0, SpinMax)
	// (used by the send-on-closed-channel hunt to sweep the offset between the two goroutines).
	SpinMax time.Duration
	// Once: only the first P is held.
	Once bool

	held     int32         // number of P holds performed
	pArrived chan struct{} // closed when the first P is held (the harness may then inject the fault)
	qSeen    chan struct{} // closed when Q was logged
	pOnce    sync.Once
	qOnce    sync.Once
	released int32 // holds ended because Q was seen
	timedOut int32 // holds ended by MaxHold
}

func newRendezvous(p, q msgClass, maxHold time.Duration) *rendezvous {
	return &rendezvous{P: p, Q: q, MaxHold: maxHold, Once: true, pArrived: make(chan struct{}), qSeen: make(chan struct{})}
}

type tap struct {
	mode    int32 // 0 off, 1 jitter, 2 rendezvous
	seed    uint64
	seq     uint64       // events seen in this case
	prob    uint32       // jitter: perturb when hash%1000 < prob
	rdv     atomic.Value // *rendezvous
	sigMu   sync.Mutex
	sig     uint64 // order signature of (side, point) pairs of this case
	events  uint64
	jitters uint64
}

var theTap = &tap{}

func installTap() {
	zerolog.SetGlobalLevel(zerolog.TraceLevel)
	log.Logger = zerolog.New(io.Discard).Hook(theTap)
}

func mix(x uint64) uint64 {
	x += 0x9E3779B97F4A7C15
	x = (x ^ (x >> 30)) * 0xBF58476D1CE4E5B9
	x = (x ^ (x >> 27)) * 0x94D049BB133111EB
	return x ^ (x >> 31)
}

// pointID maps a message to a small stable id: side + the text after the connection id with digits removed.
func pointID(msg string) uint64 {
	// messages look like "CQL client conn [L:.. <-> R:..]: text: details"; keep the side and the first
	// words of the text
	side := uint64(0)
	switch {
	case strings.HasPrefix(msg, "CQL client conn"):
		side = 1
	case strings.HasPrefix(msg, "CQL server conn"):
		side = 2
	case strings.HasPrefix(msg, "CQL server ["):
		side = 3
	case strings.HasPrefix(msg, "CQL client ["):
		side = 4
	}
	text := msg
	if i := strings.Index(msg, "]: "); i >= 0 {
		text = msg[i+3:]
	}
	if len(text) > 24 {
		text = text[:24]
	}
	h := uint64(1469598103934665603)
	for i := 0; i < len(text); i++ {
		ch := text[i]
		if ch >= '0' && ch <= '9' {
			continue
		}
		h = (h ^ uint64(ch)) * 1099511628211
	}
	return h*4 + side
}

func (t *tap) Run(e *zerolog.Event, level zerolog.Level, msg string) {
	mode := atomic.LoadInt32(&t.mode)
	n := atomic.AddUint64(&t.seq, 1)
	atomic.AddUint64(&t.events, 1)
	if mode == 0 {
		return
	}
	pid := pointID(msg)
	t.sigMu.Lock()
	t.sig = mix(t.sig ^ pid)
	t.sigMu.Unlock()
	switch mode {
	case 1:
		h := mix(atomic.LoadUint64(&t.seed) ^ mix(n) ^ pid)
		if uint32(h%1000) < atomic.LoadUint32(&t.prob) {
			atomic.AddUint64(&t.jitters, 1)
			if (h>>20)&1 == 0 {
				for k := int((h>>24)%4) + 1; k > 0; k-- {
					runtime.Gosched()
				}
			} else {
				time.Sleep(time.Duration(50+(h>>24)%450) * time.Microsecond)
			}
		}
	case 2:
		r, _ := t.rdv.Load().(*rendezvous)
		if r == nil {
			return
		}
		if r.Q.match(msg) {
			r.qOnce.Do(func() { close(r.qSeen) })
		}
		if r.P.match(msg) {
			if r.Once && atomic.AddInt32(&r.held, 1) != 1 {
				return
			} else if !r.Once {
				atomic.AddInt32(&r.held, 1)
			}
			r.pOnce.Do(func() { close(r.pArrived) })
			tm := time.NewTimer(r.MaxHold)
			select {
			case <-r.qSeen:
				atomic.AddInt32(&r.released, 1)
			case <-tm.C:
				atomic.AddInt32(&r.timedOut, 1)
			}
			tm.Stop()
			if r.SpinMax > 0 {
				h := mix(atomic.LoadUint64(&t.seed) ^ mix(n))
				d := time.Duration(h % uint64(r.SpinMax))
				t0 := time.Now()
				for time.Since(t0) < d {
				}
			}
		}
	}
}

func (t *tap) reset() {
	atomic.StoreInt32(&t.mode, 0)
	atomic.StoreUint64(&t.seq, 0)
	t.sigMu.Lock()
	t.sig = 0
	t.sigMu.Unlock()
	t.rdv.Store((*rendezvous)(nil))
}

func (t *tap) setJitter(seed uint64, probPermille uint32) {
	atomic.StoreUint64(&t.seed, seed)
	atomic.StoreUint32(&t.prob, probPermille)
	atomic.StoreInt32(&t.mode, 1)
}

func (t *tap) setRendezvous(seed uint64, r *rendezvous) {
	atomic.StoreUint64(&t.seed, seed)
	t.rdv.Store(r)
	atomic.StoreInt32(&t.mode, 2)
}

func (t *tap) signature() uint64 {
	t.sigMu.Lock()
	defer t.sigMu.Unlock()
	return t.sig
}
