package main

// One session = one connection pair, built in one of the set-ups, driven step by step to the fault
// point, hit by ONE fault, then judged (stage A: what the fault alone must bring about; stage B:
// after everything was closed nothing of the client package may remain).

import (
	"context"
	"fmt"
	"net"
	"runtime/debug"
	"strings"
	"sync"
	"sync/atomic"
	"time"

	"github.com/datastax/go-cassandra-native-protocol/client"
	"github.com/datastax/go-cassandra-native-protocol/frame"
	"github.com/datastax/go-cassandra-native-protocol/message"
	"github.com/datastax/go-cassandra-native-protocol/primitive"
)

// Bounds. They are polling limits, not verdicts: a verdict is taken on the state found (stable, all
// goroutines blocked) or the case is inconclusive.
var (
	settle       = 5 * time.Second
	closeLimit   = 30 * time.Second
	stepLimit    = 5 * time.Second
	readTimeout  = 10 * time.Second       // client read timeout of ordinary cases (never meant to fire)
	shortTimeout = 250 * time.Millisecond // client read timeout / server idle timeout of the "silent" cases
)

type reqTrack struct {
	Name         string
	Paged        bool
	req          client.InFlightRequest
	ch           <-chan *frame.Frame // Incoming(), taken once when the request is created ("successive calls return the same channel")
	judgedClosed bool

	mu       sync.Mutex
	frames   int
	gotFinal bool
}

func isFinalFrame(f *frame.Frame) bool {
	if rows, ok := f.Body.Message.(*message.RowsResult); ok && rows.Metadata != nil {
		if rows.Metadata.ContinuousPageNumber > 0 && !rows.Metadata.LastContinuousPage {
			return false
		}
	}
	return true
}

func (t *reqTrack) note(f *frame.Frame) {
	t.mu.Lock()
	t.frames++
	if isFinalFrame(f) {
		t.gotFinal = true
	}
	t.mu.Unlock()
}

// poll drains what is buffered and reports whether the channel is closed.
func (t *reqTrack) poll() (closed bool) {
	ch := t.ch
	for {
		select {
		case f, ok := <-ch:
			if !ok {
				return true
			}
			t.note(f)
		default:
			return false
		}
	}
}

// state reads Err() and IsDone() without trusting them to return: after a panic recovered by the
// caller the request's lock may be left locked.
func (t *reqTrack) state() (err error, done bool, ok bool) {
	type st struct {
		err  error
		done bool
	}
	c := make(chan st, 1)
	go func() { c <- st{t.req.Err(), t.req.IsDone()} }()
	select {
	case v := <-c:
		return v.err, v.done, true
	case <-time.After(2 * time.Second):
		return nil, false, false
	}
}

func newTrack(name string, paged bool, req client.InFlightRequest) *reqTrack {
	return &reqTrack{Name: name, Paged: paged, req: req, ch: req.Incoming()}
}

func (t *reqTrack) final() bool {
	t.mu.Lock()
	defer t.mu.Unlock()
	return t.gotFinal
}

type callWatch struct {
	Name     string
	Key      string // canonical name of the library call for keys
	done     chan struct{}
	err      error
	panicked bool
	panicVal string
	stack    string
}

func (w *callWatch) returned() bool {
	select {
	case <-w.done:
		return true
	default:
		return false
	}
}

// canonical maps the monitor's names and the library's function names of blocking calls to one key.
func canonical(name string) string {
	switch {
	case strings.HasPrefix(name, "sender-"), strings.HasPrefix(name, "client.Receive("), strings.HasSuffix(name, "(*CqlClientConnection).Receive"):
		return "client.Receive"
	case strings.HasSuffix(name, "(*CqlClientConnection).ReceiveEvent"):
		return "client.ReceiveEvent"
	case strings.HasSuffix(name, "(*CqlServerConnection).Receive"):
		return "serverConn.Receive"
	case strings.HasSuffix(name, "(*CqlServer).Accept"):
		return "server.Accept"
	case strings.HasSuffix(name, "(*CqlClientConnection).Send"):
		return "client.Send"
	case strings.HasSuffix(name, "(*CqlServerConnection).Send"):
		return "serverConn.Send"
	case strings.HasSuffix(name, "(*CqlClientConnection).Close"):
		return "client.Close"
	case strings.HasSuffix(name, "(*CqlServerConnection).Close"):
		return "serverConn.Close"
	case strings.HasSuffix(name, "(*CqlServer).Close"):
		return "server.Close"
	}
	if i := strings.Index(name, "/"); i >= 0 && strings.HasPrefix(name, "cleanup/") {
		return name[i+1:]
	}
	return name
}

// panicSite: the innermost client-package function below the panic in a recovered stack.
func panicSite(stack string) string {
	i := strings.Index(stack, "\npanic(")
	if i < 0 {
		return ""
	}
	for _, l := range strings.Split(stack[i+1:], "\n") {
		if strings.HasPrefix(l, clientPkg) {
			fn := l
			if j := strings.LastIndex(fn, "("); j >= 0 {
				fn = fn[:j]
			}
			return strings.TrimPrefix(fn, "github.com/datastax/go-cassandra-native-protocol/")
		}
	}
	return ""
}

// watch runs f (a call into the library made by the monitor) in its own goroutine and converts a
// panic raised in that goroutine into a record.
func watch(name string, f func() error) *callWatch {
	w := &callWatch{Name: name, Key: canonical(name), done: make(chan struct{})}
	go func() {
		defer close(w.done)
		defer func() {
			if r := recover(); r != nil {
				w.panicked = true
				w.panicVal = fmt.Sprint(r)
				w.stack = ownStack()
				// key by the library function that panicked, not by what the monitor's goroutine is called
				if site := panicSite(w.stack); site != "" {
					w.Key = canonical(site)
				}
			}
		}()
		w.err = f()
	}()
	return w
}

type sess struct {
	sp  *caseSpec
	res *caseResult
	ver primitive.ProtocolVersion

	cliCtx, srvCtx       context.Context
	cliCancel, srvCancel context.CancelFunc

	server *client.CqlServer
	cc     *client.CqlClientConnection
	sc     *client.CqlServerConnection
	rawS   *rawPeer // raw peer in the server role (talks to cc)
	rawC   *rawPeer // raw peer in the client role (talks to sc)
	fc     *faultConn
	lis    net.Listener
	creds  *client.AuthCredentials
	rt     time.Duration

	mu         sync.Mutex
	reqs       []*reqTrack
	recvs      []*callWatch
	calls      []*callWatch // Close calls etc. made by the monitor
	srvSeen    []*frame.Frame
	rawNextID  int16
	evCount    int64
	nonTrivial bool
	faultNote  string
	evHook     client.EventHandler                                          // extra client event handler of a scenario
	reqHook    func(request *frame.Frame, conn *client.CqlServerConnection) // called by the server's request handler for "hook…" queries
	stuckInA   bool                                                         // stage A ended with a verdict on a stable state that leaves goroutines behind
	poisoned   bool                                                         // a panic raised inside a library call was recovered by the monitor: locks may be left locked
}

func versionOf(v int) primitive.ProtocolVersion {
	switch v {
	case 3:
		return primitive.ProtocolVersion3
	case 5:
		return primitive.ProtocolVersion5
	case 66:
		return primitive.ProtocolVersionDse2
	case 65:
		return primitive.ProtocolVersionDse1
	}
	return primitive.ProtocolVersion4
}

func (s *sess) viol(obligation string, extra map[string]interface{}) {
	key := s.sp.keyPrefix() + "/" + obligation
	d := map[string]interface{}{"case": s.sp, "obligation": obligation, "fault_note": s.faultNote}
	for k, v := range extra {
		d[k] = v
	}
	s.res.addViolation(key, d)
}

func (s *sess) inconclusive(what string) { s.res.Inc = append(s.res.Inc, what) }

// ---------------------------------------------------------------------------------------------
// set-up

func (s *sess) open() error {
	sp := s.sp
	s.ver = versionOf(sp.Version)
	s.rt = readTimeout
	if sp.Fault == "silent" || sp.Fault == "silent+late-page" || sp.Fault == "read-block" || sp.Fault == "write-block" {
		s.rt = shortTimeout
	}
	if sp.RT > 0 {
		s.rt = time.Duration(sp.RT) * time.Millisecond
	}
	if sp.Auth {
		s.creds = &client.AuthCredentials{Username: "u", Password: "p"}
	}
	s.cliCtx, s.cliCancel = context.WithCancel(context.Background())
	s.srvCtx, s.srvCancel = context.WithCancel(context.Background())
	idle := 20 * time.Second
	if sp.Setup == "raw-lib" && sp.Fault == "silent" {
		// the server side of "the peer goes silent" is the idle timeout. No receiver may be entering
		// Receive while it fires (that ordering is the rendezvous scenario serverConn.Receive-vs-Close)
		idle = shortTimeout
		sp.Receivers = false
	}
	var handlers []client.EventHandler
	handlers = append(handlers, func(ev *frame.Frame, conn *client.CqlClientConnection) { atomic.AddInt64(&s.evCount, 1) })
	if s.evHook != nil {
		handlers = append(handlers, s.evHook)
	}
	switch sp.Setup {
	case "lib-lib":
		s.server = client.NewCqlServer("127.0.0.1:0", s.creds)
		s.server.IdleTimeout = idle
		s.server.AcceptTimeout = stepLimit
		s.server.MaxInFlight = 64
		if sp.Handlers {
			s.server.RequestHandlers = s.requestHandlers()
		}
		if err := s.server.Start(s.srvCtx); err != nil {
			return err
		}
		addr := s.server.VerifAddr()
		if addr == nil {
			return fmt.Errorf("no listener address")
		}
		cl := client.NewCqlClient(addr.String(), s.creds)
		cl.ReadTimeout = s.rt
		cl.MaxInFlight = 64
		cl.MaxPending = 16
		cl.EventHandlers = handlers
		cc, err := cl.Connect(s.cliCtx)
		if err != nil {
			return err
		}
		s.cc = cc
		if sp.Step != "accept-pending" {
			sc, err := s.server.Accept(cc)
			if err != nil {
				return err
			}
			s.sc = sc
		}
	case "lib-raw":
		l, err := net.Listen("tcp", "127.0.0.1:0")
		if err != nil {
			return err
		}
		s.lis = l
		type ar struct {
			c   net.Conn
			err error
		}
		ch := make(chan ar, 1)
		go func() { c, err := l.Accept(); ch <- ar{c, err} }()
		cl := client.NewCqlClient(l.Addr().String(), s.creds)
		cl.ReadTimeout = s.rt
		cl.MaxInFlight = 64
		cl.MaxPending = 16
		cl.EventHandlers = handlers
		cc, err := cl.Connect(s.cliCtx)
		if err != nil {
			return err
		}
		s.cc = cc
		select {
		case r := <-ch:
			if r.err != nil {
				return r.err
			}
			s.rawS = newRawPeer(r.c)
		case <-time.After(stepLimit):
			return fmt.Errorf("raw server: accept timed out")
		}
	case "raw-lib":
		s.server = client.NewCqlServer("127.0.0.1:0", s.creds)
		s.server.IdleTimeout = idle
		s.server.AcceptTimeout = stepLimit
		s.server.MaxInFlight = 64
		if sp.Handlers {
			s.server.RequestHandlers = s.requestHandlers()
		}
		if err := s.server.Start(s.srvCtx); err != nil {
			return err
		}
		c, err := net.DialTimeout("tcp", s.server.VerifAddr().String(), stepLimit)
		if err != nil {
			return err
		}
		s.rawC = newRawPeer(c)
		sc, err := s.server.AcceptAny()
		if err != nil {
			return err
		}
		s.sc = sc
	case "pipe-client": // library client over faultConn(pipe), raw peer on the other end
		a, b := net.Pipe()
		s.fc = newFaultConn(a)
		cc, err := client.VerifNewClientConn(s.fc, s.cliCtx, s.creds, primitive.CompressionNone, 64, 16, s.rt, handlers)
		if err != nil {
			return err
		}
		s.cc = cc
		s.rawS = newRawPeer(b)
	case "pipe-server": // library server connection over faultConn(pipe), raw peer on the other end
		a, b := net.Pipe()
		s.fc = newFaultConn(a)
		var hs []client.RequestHandler
		if sp.Handlers {
			hs = s.requestHandlers()
		}
		sc, err := client.VerifNewServerConn(s.fc, s.srvCtx, s.creds, 64, idle, hs, nil, nil)
		if err != nil {
			return err
		}
		s.sc = sc
		s.rawC = newRawPeer(b)
	case "pipe-both", "pipe-both-sfc": // library client <-> library server connection over a pipe; the fault-injecting end is the client's (pipe-both) or the server's (pipe-both-sfc)
		ca, cb := net.Pipe()
		var a, b net.Conn = ca, cb
		if sp.Setup == "pipe-both" {
			s.fc = newFaultConn(ca)
			a = s.fc
		} else {
			s.fc = newFaultConn(cb)
			b = s.fc
		}
		cc, err := client.VerifNewClientConn(a, s.cliCtx, s.creds, primitive.CompressionNone, 64, 16, s.rt, handlers)
		if err != nil {
			return err
		}
		s.cc = cc
		var hs []client.RequestHandler
		if sp.Handlers {
			hs = s.requestHandlers()
		}
		sc, err := client.VerifNewServerConn(b, s.srvCtx, s.creds, 64, idle, hs, nil, nil)
		if err != nil {
			return err
		}
		s.sc = sc
	default:
		return fmt.Errorf("unknown set-up %q", sp.Setup)
	}
	return nil
}

// requestHandlers: handshake by the library's own handler; every other request is answered with
// SUPPORTED, or — for a query whose text starts with "paged" — with continuous pages (the non-final
// ones sent from inside the handler, the last one returned).
func (s *sess) requestHandlers() []client.RequestHandler {
	answer := func(request *frame.Frame, conn *client.CqlServerConnection, _ client.RequestHandlerContext) *frame.Frame {
		v, id := request.Header.Version, request.Header.StreamId
		if q, ok := request.Body.Message.(*message.Query); ok && s.reqHook != nil && strings.HasPrefix(q.Query, "hook") {
			s.reqHook(request, conn)
			return nil
		}
		if q, ok := request.Body.Message.(*message.Query); ok && strings.HasPrefix(q.Query, "noreply") {
			return nil // a request that stays pending
		}
		if q, ok := request.Body.Message.(*message.Query); ok && strings.HasPrefix(q.Query, "paged") {
			n := 3
			for p := 1; p < n; p++ {
				_ = conn.Send(frame.NewFrame(v, id, pageMsg(p, false)))
			}
			return frame.NewFrame(v, id, pageMsg(n, true))
		}
		return frame.NewFrame(v, id, &message.Supported{Options: map[string][]string{}})
	}
	return []client.RequestHandler{client.HandshakeHandler, answer}
}

func pageMsg(page int, last bool) message.Message {
	return &message.RowsResult{
		Metadata: &message.RowsMetadata{ColumnCount: 0, ContinuousPageNumber: int32(page), LastContinuousPage: last},
		Data:     message.RowSet{},
	}
}

// ---------------------------------------------------------------------------------------------
// steps

func (s *sess) clientSend(name string, msg message.Message, paged bool) error {
	return s.clientSendID(name, msg, paged, client.ManagedStreamId)
}

// clientSendID sends on a caller-chosen stream id (ManagedStreamId = let the connection choose).
func (s *sess) clientSendID(name string, msg message.Message, paged bool, id int16) error {
	if s.cc != nil {
		f := frame.NewFrame(s.ver, id, msg)
		var req client.InFlightRequest
		var err error
		w := watch("client.Send", func() error { req, err = s.cc.Send(f); return err })
		<-w.done
		if w.panicked {
			s.viol("send/panic-"+panicSlug(w.panicVal), map[string]interface{}{"panic": w.panicVal, "stack": w.stack})
			return fmt.Errorf("Send panicked")
		}
		if err != nil {
			return err
		}
		s.addReq(newTrack(name, paged, req))
		return nil
	}
	s.rawNextID++
	return s.rawC.write(frame.NewFrame(s.ver, s.rawNextID, msg))
}

func (s *sess) serverRecv() (*frame.Frame, error) {
	if s.sc != nil {
		type rr struct {
			f   *frame.Frame
			err error
		}
		ch := make(chan rr, 1)
		go func() { f, err := s.sc.Receive(); ch <- rr{f, err} }()
		select {
		case r := <-ch:
			if r.err == nil {
				s.srvSeen = append(s.srvSeen, r.f)
			}
			return r.f, r.err
		case <-time.After(stepLimit):
			return nil, fmt.Errorf("step limit: server did not receive a frame")
		}
	}
	f, err := s.rawS.read(stepLimit)
	if err == nil {
		s.srvSeen = append(s.srvSeen, f)
	}
	return f, err
}

func (s *sess) serverSend(f *frame.Frame) error {
	if s.sc != nil {
		return s.sc.Send(f)
	}
	return s.rawS.write(f)
}

// clientRecv waits for the next frame of request t (library client) or the next frame (raw client).
func (s *sess) clientRecv(t *reqTrack) error {
	if s.cc != nil {
		select {
		case f, ok := <-t.ch:
			if !ok {
				return fmt.Errorf("request %s closed before its response: %v", t.Name, t.req.Err())
			}
			t.note(f)
			return nil
		case <-time.After(stepLimit):
			return fmt.Errorf("step limit: client did not receive a frame")
		}
	}
	_, err := s.rawC.read(stepLimit)
	return err
}

func (s *sess) addReq(t *reqTrack) {
	s.mu.Lock()
	s.reqs = append(s.reqs, t)
	s.mu.Unlock()
}

func (s *sess) allReqs() []*reqTrack {
	s.mu.Lock()
	defer s.mu.Unlock()
	return append([]*reqTrack(nil), s.reqs...)
}

func (s *sess) lastReq() *reqTrack {
	if len(s.reqs) == 0 {
		return nil
	}
	return s.reqs[len(s.reqs)-1]
}

func (s *sess) startupMsg() message.Message {
	st := message.NewStartup()
	st.SetDriverName("verif")
	return st
}

func (s *sess) reply(req *frame.Frame, msg message.Message) *frame.Frame {
	return frame.NewFrame(req.Header.Version, req.Header.StreamId, msg)
}

// handshakeTo drives the handshake up to the named boundary ("startup-sent", "authenticate-sent",
// "ready").
func (s *sess) handshakeTo(boundary string) error {
	if err := s.clientSend("startup", s.startupMsg(), false); err != nil {
		return err
	}
	startupReq := s.lastReq()
	st, err := s.serverRecv()
	if err != nil {
		return err
	}
	if boundary == "startup-sent" {
		return nil
	}
	if s.sp.Auth {
		if err := s.serverSend(s.reply(st, &message.Authenticate{Authenticator: "org.apache.cassandra.auth.PasswordAuthenticator"})); err != nil {
			return err
		}
		if err := s.clientRecv(startupReq); err != nil {
			return err
		}
		if err := s.clientSend("auth-response", &message.AuthResponse{Token: s.creds.Marshal()}, false); err != nil {
			return err
		}
		ar, err := s.serverRecv()
		if err != nil {
			return err
		}
		if boundary == "authenticate-sent" {
			return nil
		}
		if err := s.serverSend(s.reply(ar, &message.AuthSuccess{})); err != nil {
			return err
		}
		return s.clientRecv(s.lastReq())
	}
	if err := s.serverSend(s.reply(st, &message.Ready{})); err != nil {
		return err
	}
	return s.clientRecv(startupReq)
}

func (s *sess) query(i int) message.Message {
	return &message.Query{Query: fmt.Sprintf("SELECT %d", i)}
}

func (s *sess) supported() message.Message {
	return &message.Supported{Options: map[string][]string{}}
}

// runSteps brings the session to the fault point named by sp.Step.
func (s *sess) runSteps() error {
	sp := s.sp
	switch sp.Step {
	case "connected", "accept-pending":
		return nil
	case "startup-sent", "authenticate-sent", "ready":
		return s.handshakeTo(sp.Step)
	}
	if err := s.handshakeTo("ready"); err != nil {
		return err
	}
	hs := len(s.reqs) // handshake requests (library client only)
	hsSeen := len(s.srvSeen)
	switch sp.Step {
	case "inflight": // K requests received by the server, none answered
		for i := 0; i < sp.K; i++ {
			if err := s.clientSend(fmt.Sprintf("q%d", i), s.query(i), false); err != nil {
				return err
			}
		}
		for i := 0; i < sp.K; i++ {
			if _, err := s.serverRecv(); err != nil {
				return err
			}
		}
	case "unsent-burst": // K requests handed to Send; nobody waited for them to reach the peer
		for i := 0; i < sp.K; i++ {
			if err := s.clientSend(fmt.Sprintf("q%d", i), s.query(i), false); err != nil {
				return err
			}
		}
	case "mid-response", "idle-after": // K requests; half (or all) answered and received
		for i := 0; i < sp.K; i++ {
			if err := s.clientSend(fmt.Sprintf("q%d", i), s.query(i), false); err != nil {
				return err
			}
		}
		for i := 0; i < sp.K; i++ {
			if _, err := s.serverRecv(); err != nil {
				return err
			}
		}
		n := sp.K
		if sp.Step == "mid-response" {
			n = (sp.K + 1) / 2
		}
		for i := 0; i < n; i++ {
			if err := s.serverSend(s.reply(s.srvSeen[hsSeen+i], s.supported())); err != nil {
				return err
			}
			if s.cc != nil {
				if err := s.clientRecv(s.reqs[hs+i]); err != nil {
					return err
				}
			} else if err := s.clientRecv(nil); err != nil {
				return err
			}
		}
	case "dup-id": // a request pending on a caller-chosen stream id, K-1 managed ones, and a second Send with the SAME id (refused)
		const dupID = 1000
		if err := s.clientSendID("first-on-id-1000", s.query(0), false, dupID); err != nil {
			return err
		}
		if _, err := s.serverRecv(); err != nil {
			return err
		}
		for i := 1; i < sp.K; i++ {
			if err := s.clientSend(fmt.Sprintf("q%d", i), s.query(i), false); err != nil {
				return err
			}
			if _, err := s.serverRecv(); err != nil {
				return err
			}
		}
		if err := s.clientSendID("second-on-id-1000", s.query(99), false, dupID); err != nil {
			s.res.count("duplicate_id_send_refused", 1)
		} else {
			s.res.count("duplicate_id_send_accepted", 1) // tracked like any other request
		}
	case "half-frame": // K requests in flight; the peer has written only the first bytes of a frame
		for i := 0; i < sp.K; i++ {
			if err := s.clientSend(fmt.Sprintf("q%d", i), s.query(i), false); err != nil {
				return err
			}
		}
		if s.rawS != nil {
			var first *frame.Frame
			for i := 0; i < sp.K; i++ {
				f, err := s.serverRecv()
				if err != nil {
					return err
				}
				if first == nil {
					first = f
				}
			}
			if first == nil {
				first = frame.NewFrame(s.ver, 1, s.supported())
			}
			return s.rawS.writePartial(s.reply(first, s.supported()), 5+sp.K)
		}
		if s.rawC != nil {
			for i := 0; i < sp.K; i++ {
				if _, err := s.serverRecv(); err != nil {
					return err
				}
			}
			s.rawNextID++
			return s.rawC.writePartial(frame.NewFrame(s.ver, s.rawNextID, s.query(99)), 5+sp.K)
		}
	case "between-pages": // one paged request with Pages non-final pages received (+ K-1 plain requests unanswered)
		if err := s.clientSend("paged", &message.Query{Query: "paged"}, true); err != nil {
			return err
		}
		pr, err := s.serverRecv()
		if err != nil {
			return err
		}
		for i := 1; i < sp.K; i++ {
			if err := s.clientSend(fmt.Sprintf("q%d", i), s.query(i), false); err != nil {
				return err
			}
			if _, err := s.serverRecv(); err != nil {
				return err
			}
		}
		for p := 1; p <= sp.Pages; p++ {
			if err := s.serverSend(s.reply(pr, pageMsg(p, false))); err != nil {
				return err
			}
			if s.cc != nil {
				if err := s.clientRecv(s.reqs[hs]); err != nil {
					return err
				}
			} else if err := s.clientRecv(nil); err != nil {
				return err
			}
		}
	default:
		return fmt.Errorf("unknown step %q", sp.Step)
	}
	return nil
}

// ---------------------------------------------------------------------------------------------
// blocked receivers

func (s *sess) startReceivers() {
	if !s.sp.Receivers {
		return
	}
	n := 0
	if s.cc != nil {
		cc := s.cc
		for _, t := range s.allReqs() {
			if n >= 3 {
				break
			}
			t := t
			if t.poll() { // already completed
				continue
			}
			n++
			s.recvs = append(s.recvs, watch("client.Receive("+t.Name+")", func() error {
				for {
					f, err := cc.Receive(t.req)
					if err != nil {
						return nil // returned with an error: fine
					}
					if f == nil {
						return nil
					}
					t.note(f)
				}
			}))
		}
		s.recvs = append(s.recvs, watch("client.ReceiveEvent", func() error {
			for {
				_, err := cc.ReceiveEvent()
				if err != nil && cc.IsClosed() {
					return nil
				}
				if err != nil && s.sp.silentFault() {
					return nil // the read timeout expired on an open connection
				}
			}
		}))
		n++
	}
	if s.sc != nil && !s.sp.Handlers {
		sc := s.sc
		s.recvs = append(s.recvs, watch("serverConn.Receive", func() error {
			for {
				if _, err := sc.Receive(); err != nil {
					return nil
				}
			}
		}))
		n++
	}
	// let them block inside the library call (observed, not assumed)
	deadline := time.Now().Add(200 * time.Millisecond)
	for time.Now().Before(deadline) {
		blocked := 0
		for _, g := range clientGoroutines() {
			if g.Harness && blockedState(g.State) {
				blocked++
			}
		}
		if blocked >= n {
			s.res.count("receivers_confirmed_blocked", int64(n))
			return
		}
		time.Sleep(500 * time.Microsecond)
	}
	s.res.count("receivers_not_confirmed_blocked", 1)
}

// ---------------------------------------------------------------------------------------------
// faults

func (s *sess) injectFault() {
	sp := s.sp
	switch sp.Fault {
	case "client.Close":
		s.calls = append(s.calls, watch("client.Close", func() error { return s.cc.Close() }))
	case "client.ctx":
		s.cliCancel()
	case "serverConn.Close":
		s.calls = append(s.calls, watch("serverConn.Close", func() error { return s.sc.Close() }))
	case "server.Close":
		s.calls = append(s.calls, watch("server.Close", func() error { return s.server.Close() }))
	case "server.ctx":
		s.srvCancel()
	case "close-err+Close":
		// the library's Close on the connection whose net.Conn reports an error from Close()
		s.fc.armCloseErr()
		if s.sp.Setup == "pipe-server" {
			s.calls = append(s.calls, watch("serverConn.Close", func() error { _ = s.sc.Close(); return nil }))
		} else {
			s.calls = append(s.calls, watch("client.Close", func() error { _ = s.cc.Close(); return nil }))
		}
	case "close-err+peer-close":
		// the peer goes away; the connection closes itself (abort -> Close) and its net.Conn reports an error from Close()
		s.fc.armCloseErr()
		if p := s.peer(); p != nil {
			p.close()
		} else {
			s.calls = append(s.calls, watch("serverConn.Close", func() error { return s.sc.Close() }))
		}
	case "peer-close":
		s.peer().close()
	case "peer-reset":
		s.peer().reset()
	case "peer-halfclose":
		s.peer().halfClose()
	case "silent", "silent+late-page":
		// nothing: the peer simply stops talking
	case "read-err", "read-block", "write-err", "write-block", "short-write":
		s.armAndTrigger()
	}
}

func (s *sess) peer() *rawPeer {
	if s.rawS != nil {
		return s.rawS
	}
	return s.rawC
}

// armAndTrigger arms the fault-injecting conn and produces the traffic that runs into it.
func (s *sess) armAndTrigger() {
	sp := s.sp
	mode := 1
	if strings.HasSuffix(sp.Fault, "-block") {
		mode = 2
	}
	after := sp.After
	read := strings.HasPrefix(sp.Fault, "read-")
	if read {
		s.fc.armRead(mode, after)
	} else if sp.Fault == "short-write" {
		s.fc.armWrite(3, 0)
	} else {
		s.fc.armWrite(mode, after)
	}
	// raw peers on a pipe must keep reading, or the library's writer blocks in Write for ever
	// (that is the "write-block" case, produced by the wrapper instead)
	if p := s.peer(); p != nil && s.fc != nil {
		go func() {
			buf := make([]byte, 4096)
			for {
				_ = p.conn.SetReadDeadline(time.Now().Add(20 * time.Second))
				if _, err := p.conn.Read(buf); err != nil {
					return
				}
			}
		}()
	}
	// traffic: towards the library end (read faults) or from it (write faults)
	libIsClient := s.cc != nil && s.fc != nil && sp.Setup != "pipe-server" && sp.Setup != "pipe-both-sfc"
	if read {
		// the other end writes a frame; with a synchronous pipe the write may block once the library
		// end stops reading, so it is done in the background and bounded by a write deadline
		go func() {
			// frames are written until the armed fault has been run into (a frame may be shorter than
			// the number of bytes let through)
			for k := 0; k < 6 && atomic.LoadInt32(&s.fc.tripped) == 0; k++ {
				if libIsClient {
					var f *frame.Frame
					if len(s.srvSeen) > 0 {
						f = s.reply(s.srvSeen[len(s.srvSeen)-1], s.supported())
					} else {
						f = frame.NewFrame(s.ver, 1, s.supported())
					}
					if s.rawS != nil {
						_ = s.rawS.write(f)
					} else if s.sc != nil {
						_ = s.sc.Send(f)
					}
				} else if s.rawC != nil {
					_ = s.rawC.write(frame.NewFrame(s.ver, int16(100+k), s.query(77)))
				} else if s.cc != nil {
					_ = s.clientSend(fmt.Sprintf("trigger%d", k), s.query(77), false)
				}
				time.Sleep(2 * time.Millisecond)
			}
		}()
	} else {
		// frames are sent until the armed fault has been run into (a frame may be shorter than the number
		// of bytes let through); the writer goroutine of the library needs a moment after each
		for k := 0; k < 6 && atomic.LoadInt32(&s.fc.tripped) == 0; k++ {
			if libIsClient {
				// the send itself is part of the fault: its request is tracked like any other
				if s.clientSend(fmt.Sprintf("trigger%d", k), s.query(78), false) != nil {
					break
				}
			} else if s.sc != nil {
				var f *frame.Frame
				if len(s.srvSeen) > 0 {
					f = s.reply(s.srvSeen[len(s.srvSeen)-1], s.supported())
				} else {
					f = frame.NewFrame(s.ver, 1, s.supported())
				}
				if s.sc.Send(f) != nil {
					break
				}
			}
			waitUntil(20*time.Millisecond, func() bool { return atomic.LoadInt32(&s.fc.tripped) != 0 })
		}
	}
}

func ownStack() string {
	s := string(debug.Stack())
	if len(s) > 3000 {
		s = s[:3000]
	}
	return s
}
