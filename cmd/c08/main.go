// C08 — compression is lossless for every input (DESIGN.md §C08).
//
// For byte strings x of many sizes and compressibility classes:
//
//	lz4  raw         Decompress(Compress(x)) == x                     (segment payload format, judged for len(x) <= 131071)
//	lz4  withLength  DecompressWithLength(CompressWithLength(x)) == x (frame body format)
//	snappy withLength same
//
// each through a *bytes.Buffer source, a plain io.Reader, readers delivering 1/3/4096 bytes per Read, the same
// wrapped in io.LimitReader (what frame.DecodeBody hands over), a 16-byte bufio.Reader and a half-reader. The compressed form is also judged by segref's independent decoders (LZ4 block
// decoder, Snappy block decoder, 4-byte big-endian length prefix of the LZ4 body format).
// Differential part: library frames / segments encoded with a compressor must decode to the same
// content as the same frames / segments encoded without.
package main

import (
	"bufio"
	"bytes"
	"encoding/binary"
	"encoding/hex"
	"fmt"
	"io"
	"reflect"
	"sort"
	"strings"

	"github.com/datastax/go-cassandra-native-protocol/compression/lz4"
	"github.com/datastax/go-cassandra-native-protocol/compression/snappy"
	"github.com/datastax/go-cassandra-native-protocol/datatype"
	"github.com/datastax/go-cassandra-native-protocol/frame"
	"github.com/datastax/go-cassandra-native-protocol/message"
	"github.com/datastax/go-cassandra-native-protocol/primitive"
	"github.com/datastax/go-cassandra-native-protocol/segment"

	"verif/internal/mon"
	"verif/internal/segref"
)

func main() { mon.Main("C08", run) }

// ------------------------------------------------------------------------------------------------
// sources

type plainReader struct{ r io.Reader } // hides every method but Read

func (p plainReader) Read(b []byte) (int, error) { return p.r.Read(b) }

// chunkReader delivers at most k bytes per Read (k = 1, 3, 4096): what a socket does.
type chunkReader struct {
	b []byte
	k int
}

func (c *chunkReader) Read(p []byte) (int, error) {
	if len(p) == 0 {
		return 0, nil
	}
	if len(c.b) == 0 {
		return 0, io.EOF
	}
	n := c.k
	if n > len(p) {
		n = len(p)
	}
	if n > len(c.b) {
		n = len(c.b)
	}
	copy(p, c.b[:n])
	c.b = c.b[n:]
	return n, nil
}

// halfReader delivers half of what is asked for (at least one byte), like iotest.HalfReader.
type halfReader struct{ r io.Reader }

func (h halfReader) Read(p []byte) (int, error) { return h.r.Read(p[:(len(p)+1)/2]) }

type srcKind struct {
	name string // no spaces: it becomes part of violation keys
	mk   func(b []byte) io.Reader
}

func chunks(k int) func(b []byte) io.Reader {
	return func(b []byte) io.Reader { return &chunkReader{b: b, k: k} }
}

func limited(inner func(b []byte) io.Reader, extra int64) func(b []byte) io.Reader {
	return func(b []byte) io.Reader { return io.LimitReader(inner(b), int64(len(b))+extra) }
}

func plainSrc(b []byte) io.Reader { return plainReader{bytes.NewReader(b)} }

var (
	viaBuffer = srcKind{"bytes.Buffer", func(b []byte) io.Reader { return bytes.NewBuffer(append(make([]byte, 0, len(b)), b...)) }}
	viaReader = srcKind{"io.Reader", plainSrc}
	// every other way a caller (frame.DecodeBody hands over io.LimitReader(source, BodyLength)) or a
	// transport may present the same bytes
	viaOthers = []srcKind{
		{"io.Reader[1-byte-reads]", chunks(1)},
		{"io.Reader[3-byte-reads]", chunks(3)},
		{"io.Reader[4096-byte-reads]", chunks(4096)},
		{"io.LimitReader[io.Reader,n=len]", limited(plainSrc, 0)},
		{"io.LimitReader[io.Reader,n=len+7]", limited(plainSrc, 7)},
		{"io.LimitReader[1-byte-reads,n=len]", limited(chunks(1), 0)},
		{"io.LimitReader[3-byte-reads,n=len]", limited(chunks(3), 0)},
		{"io.LimitReader[4096-byte-reads,n=len]", limited(chunks(4096), 0)},
		{"io.LimitReader[4096-byte-reads,n=len+7]", limited(chunks(4096), 7)},
		{"bufio.Reader[16]", func(b []byte) io.Reader { return bufio.NewReaderSize(plainSrc(b), 16) }},
		{"half-reads", func(b []byte) io.Reader { return halfReader{plainSrc(b)} }},
		{"io.LimitReader[half-reads,n=len]", limited(func(b []byte) io.Reader { return halfReader{plainSrc(b)} }, 0)},
	}
	// beyond 1 MiB only the kinds that cost one pass
	viaBig = []srcKind{
		{"io.LimitReader[io.Reader,n=len]", limited(plainSrc, 0)},
		{"io.LimitReader[4096-byte-reads,n=len]", limited(chunks(4096), 0)},
		{"half-reads", func(b []byte) io.Reader { return halfReader{plainSrc(b)} }},
	}
)

// kindsForCompress: compressing is the expensive direction (the >64 KiB compressor runs at ~10 MB/s), so
// above 128 KiB only the kinds that differ in how the source is drained are kept.
func kindsForCompress(n int) []srcKind {
	if n <= 1<<17 || n > 1<<20 {
		return kindsFor(n)
	}
	return append([]srcKind{viaBuffer, viaReader, {"io.LimitReader[3-byte-reads,n=len]", limited(chunks(3), 0)}}, viaBig...)
}

func kindsFor(n int) []srcKind {
	ks := []srcKind{viaBuffer, viaReader}
	if n <= 1<<20 {
		return append(ks, viaOthers...)
	}
	return append(ks, viaBig...)
}

// ------------------------------------------------------------------------------------------------
// algorithms

type algo struct {
	name       string // violation-key prefix
	maxJudged  int    // inputs longer than this are run and counted, not judged (raw format: segment payloads only)
	ratioName  string
	compress   func(src io.Reader, dst io.Writer) error
	decompress func(src io.Reader, dst io.Writer) error
	// split returns (problem with the framing of the compressed form or "", the block to hand to refDecode)
	split     func(comp []byte, n int) (string, []byte)
	refDecode func(block []byte, n int) ([]byte, error)
	diagnose  func(block, x []byte) string // stable class of an invalid compressed form
}

func lz4Ref(block []byte, n int) ([]byte, error) {
	out, _, err := segref.LZ4DecodeBlock(block, n)
	return out, err
}

func snappyRef(block []byte, n int) ([]byte, error) {
	out, _, err := segref.SnappyDecodeBlock(block, n)
	return out, err
}

var algos = []algo{
	{
		name: "lz4/raw", maxJudged: segref.MaxPayload, ratioName: "lz4_raw",
		compress:   func(s io.Reader, d io.Writer) error { return lz4.Compressor{}.Compress(s, d) },
		decompress: func(s io.Reader, d io.Writer) error { return lz4.Compressor{}.Decompress(s, d) },
		split:      func(comp []byte, n int) (string, []byte) { return "", comp },
		refDecode:  lz4Ref,
		diagnose:   segref.LZ4Diagnose,
	},
	{
		name: "lz4/withLength", maxJudged: 1 << 40, ratioName: "lz4_withLength",
		compress:   func(s io.Reader, d io.Writer) error { return lz4.Compressor{}.CompressWithLength(s, d) },
		decompress: func(s io.Reader, d io.Writer) error { return lz4.Compressor{}.DecompressWithLength(s, d) },
		split: func(comp []byte, n int) (string, []byte) {
			if len(comp) < 4 {
				return fmt.Sprintf("compressed form is %d bytes, no room for the 4-byte length", len(comp)), nil
			}
			if got := binary.BigEndian.Uint32(comp); got != uint32(n) {
				return fmt.Sprintf("first four bytes % x are not the big-endian uncompressed length %d", comp[:4], n), comp[4:]
			}
			return "", comp[4:]
		},
		refDecode: lz4Ref,
		diagnose:  segref.LZ4Diagnose,
	},
	{
		name: "snappy/withLength", maxJudged: 1 << 40, ratioName: "snappy",
		compress:   func(s io.Reader, d io.Writer) error { return snappy.Compressor{}.CompressWithLength(s, d) },
		decompress: func(s io.Reader, d io.Writer) error { return snappy.Compressor{}.DecompressWithLength(s, d) },
		split:      func(comp []byte, n int) (string, []byte) { return "", comp },
		refDecode:  snappyRef,
		diagnose: func(block, x []byte) string {
			out, _, err := segref.SnappyDecodeBlock(block, len(x))
			if err != nil {
				return segref.ErrKind(err)
			}
			if !bytes.Equal(out, x) {
				return "wrong-bytes"
			}
			return ""
		},
	},
}

// ------------------------------------------------------------------------------------------------
// byte-string cases

type bcase struct {
	Seed  int64 `json:"seed"`
	Size  int   `json:"size"`
	Class int   `json:"class"`
}

func (b bcase) data() []byte {
	return segref.Content(segref.Class(b.Class), b.Size, mon.NewRand(b.Seed, uint64(b.Size)*32+uint64(b.Class)))
}

type detail struct {
	Case      *bcase `json:"case,omitempty"`
	ClassName string `json:"class_name,omitempty"`
	Algo      string `json:"algo"`
	What      string `json:"what"`
	Via       string `json:"via,omitempty"`
	Err       string `json:"error,omitempty"`
	InputLen  int    `json:"input_len"`
	Input0    string `json:"input_first_bytes_hex,omitempty"`
	CompLen   int    `json:"compressed_len,omitempty"`
	Comp0     string `json:"compressed_first_bytes_hex,omitempty"`
	Note      string `json:"note,omitempty"`
	FrameName string `json:"frame,omitempty"`
}

func head(b []byte, n int) string {
	if len(b) > n {
		b = b[:n]
	}
	return hex.EncodeToString(b)
}

func inputClass(n, blockLen int) string {
	switch {
	case n == 0:
		return "empty"
	case n > 8*blockLen:
		return "ratio>8"
	default:
		return "ratio<=8"
	}
}

type checker struct{ c *mon.Ctx }

// report files a violation, or only counts it when the case lies outside the judged domain.
func (ck checker) report(judged bool, key string, d detail) {
	if judged {
		ck.c.Violation(key, d)
	} else {
		ck.c.Count("unjudged_outside_domain:"+key, 1)
	}
}

func (ck checker) runBytes(bc bcase) {
	x := bc.data()
	keep := append([]byte(nil), x...)
	for _, a := range algos {
		ck.roundTrip(a, bc, x)
	}
	if !bytes.Equal(x, keep) {
		ck.c.Count("unjudged_input_buffer_modified", 1)
	}
}

func (ck checker) roundTrip(a algo, bc bcase, x []byte) {
	c := ck.c
	judged := len(x) <= a.maxJudged
	cname := segref.Class(bc.Class).String()
	base := detail{Case: &bc, ClassName: cname, Algo: a.name, InputLen: len(x), Input0: head(x, 32)}
	if !judged {
		c.Count("cases_run_unjudged_"+a.ratioName, 1)
	}
	var forms [][]byte // distinct compressed forms, each judged once
	for _, sk := range kindsForCompress(len(x)) {
		var out bytes.Buffer
		var err error
		pan, pv := mon.Guard(func() { err = a.compress(sk.mk(x), &out) })
		c.Eval(1)
		d := base
		d.Via = sk.name
		if pan {
			d.What, d.Err = "compress panicked", pv
			ck.report(judged, a.name+"/compress/panic", d)
			continue
		}
		if err != nil {
			d.What, d.Err = "compress returned an error", err.Error()
			cl := "nonempty"
			if len(x) == 0 {
				cl = "empty"
			}
			ck.report(judged, a.name+"/compress/error/"+cl, d)
			continue
		}
		comp := out.Bytes()
		dup := false
		for _, f := range forms {
			if bytes.Equal(f, comp) {
				dup = true
			}
		}
		if dup {
			continue
		}
		forms = append(forms, comp)
		if len(forms) > 1 {
			c.Count("unjudged_compressed_form_depends_on_source_kind", 1)
		}
		ck.judgeForm(a, judged, base, x, comp)
	}
}

func (ck checker) judgeForm(a algo, judged bool, base detail, x, comp []byte) {
	c := ck.c
	base.CompLen, base.Comp0 = len(comp), head(comp, 48)
	problem, block := a.split(comp, len(x))
	cls := inputClass(len(x), len(block))
	if problem != "" {
		d := base
		d.What = "length prefix of the body format: " + problem
		ck.report(judged, a.name+"/length-prefix/"+cls, d)
		if block == nil {
			return
		}
	}
	// independent expansion of the compressed form
	exp, rerr := a.refDecode(block, len(x))
	validForm := rerr == nil && bytes.Equal(exp, x)
	if len(comp) > 0 {
		r := int64(len(x)) * 100 / int64(len(comp))
		c.Max("max_ratio_x100_"+a.ratioName, r)
		if judged {
			c.Max("max_ratio_x100_judged_"+a.ratioName, r)
		}
	}
	if len(x) > 0 {
		c.Count("forms_"+a.ratioName+"_"+cls, 1)
	} else {
		c.Count("forms_"+a.ratioName+"_empty", 1)
	}
	c.Distinct(fmt.Sprintf("%s/%d/%d/%s", a.name, base.Case.Size, base.Case.Class, cls))

	// the library's own decompression of that form, through every source kind
	type outcome struct{ via, kind, err string }
	var bad []outcome
	kinds := kindsFor(len(comp))
	for _, sk := range kinds {
		var out bytes.Buffer
		var err error
		pan, pv := mon.Guard(func() { err = a.decompress(sk.mk(comp), &out) })
		c.Eval(1)
		switch {
		case pan:
			bad = append(bad, outcome{sk.name, "panic", pv})
		case err != nil:
			bad = append(bad, outcome{sk.name, "error", err.Error()})
		case !bytes.Equal(out.Bytes(), x):
			bad = append(bad, outcome{sk.name, "wrong-bytes", fmt.Sprintf("%d bytes %s…", out.Len(), head(out.Bytes(), 32))})
		}
	}

	if !validForm {
		// The compressor emitted something that is not a valid encoding of x. One cause, one key;
		// what the library's own decompressor makes of it goes into the detail.
		kind := a.diagnose(block, x)
		d := base
		d.What = "the compressed form does not expand to the input under the independent decoder"
		if rerr != nil {
			d.Err = rerr.Error()
		}
		if len(bad) == 0 {
			d.Note = "the library's own decompressor returns the input"
		} else {
			d.Note = fmt.Sprintf("the library's own decompressor: %s via %s: %s", bad[0].kind, bad[0].via, bad[0].err)
			if bad[0].kind == "wrong-bytes" {
				d.Note += " (SILENTLY different data)"
			}
		}
		c.Count("roundtrip_not_judged_after_invalid_form", 1)
		ck.report(judged, a.name+"/invalid-block/"+kind, d)
		return
	}
	if len(bad) == 0 {
		if c.WantSample() && len(x) > 20 && len(x) < 70 {
			c.Sample(map[string]interface{}{"algo": a.name, "class": base.ClassName, "input_hex": hex.EncodeToString(x), "compressed_hex": hex.EncodeToString(comp)})
		}
		return
	}
	// group by failure kind; the key names the input class and, if only some source kinds fail, which
	byKind := map[string][]outcome{}
	for _, o := range bad {
		byKind[o.kind] = append(byKind[o.kind], o)
	}
	for kind, os := range byKind {
		key := a.name + "/" + cls // decompression error: the plain class key (e.g. lz4/raw/ratio>8)
		if kind != "error" {
			key += "/" + kind
		}
		if len(os) != len(kinds) {
			// only some ways of presenting the same bytes fail: one key per failing source kind
			for _, o := range os {
				d := base
				d.Via, d.Err = o.via, o.err
				d.What = "decompress(compress(x)) != x only through this kind of source: " + kind + " (the compressed form is valid and other source kinds return x)"
				ck.report(judged, key+"/only-via="+o.via, d)
			}
			continue
		}
		d := base
		d.Via, d.Err = os[0].via, os[0].err
		d.What = "decompress(compress(x)) != x: " + kind + " (the compressed form is valid: the independent decoder expands it to x)"
		ck.report(judged, key, d)
	}
}

// ------------------------------------------------------------------------------------------------
// frames

type namedFrame struct {
	name string
	mk   func() *frame.Frame // fresh frame per call: the codec writes into the header
}

func rowsFrame(v primitive.ProtocolVersion, cells [][]byte, perRow int) *frame.Frame {
	cols := make([]*message.ColumnMetadata, perRow)
	for i := range cols {
		cols[i] = &message.ColumnMetadata{Keyspace: "ks", Table: "tbl", Name: fmt.Sprintf("c%d", i), Index: int32(i), Type: datatype.Blob}
	}
	var rows message.RowSet
	for i := 0; i+perRow <= len(cells); i += perRow {
		row := make(message.Row, perRow)
		for j := range row {
			row[j] = cells[i+j]
		}
		rows = append(rows, row)
	}
	return frame.NewFrame(v, 7, &message.RowsResult{Metadata: &message.RowsMetadata{ColumnCount: int32(perRow), Columns: cols}, Data: rows})
}

func buildFrames(seed int64, thorough bool) []namedFrame {
	rnd := func(stream uint64) *mon.Rand { return mon.NewRand(seed, 1<<50+stream) }
	content := func(cl segref.Class, n int, stream uint64) []byte { return segref.Content(cl, n, rnd(stream)) }
	var out []namedFrame
	add := func(name string, mk func() *frame.Frame) { out = append(out, namedFrame{name, mk}) }
	versions := []primitive.ProtocolVersion{primitive.ProtocolVersion3, primitive.ProtocolVersion4}
	for _, v := range versions {
		v := v
		vs := fmt.Sprintf("v%d", int(v))
		add(vs+"/QUERY/short", func() *frame.Frame {
			return frame.NewFrame(v, 1, &message.Query{Query: "SELECT cluster_name FROM system.local"})
		})
		add(vs+"/QUERY/repetitive-100k", func() *frame.Frame {
			return frame.NewFrame(v, 2, &message.Query{Query: "SELECT * FROM ks.t WHERE k IN (" + strings.Repeat("1,", 50000) + "1)"})
		})
		add(vs+"/QUERY/repetitive-1000", func() *frame.Frame {
			return frame.NewFrame(v, 2, &message.Query{Query: strings.Repeat("a", 1000)})
		})
		add(vs+"/QUERY/text-200k", func() *frame.Frame {
			return frame.NewFrame(v, 3, &message.Query{Query: string(content(segref.Text, 200000, 1))})
		})
		add(vs+"/QUERY/text-3k", func() *frame.Frame {
			return frame.NewFrame(v, 3, &message.Query{Query: string(content(segref.Text, 3000, 2))})
		})
		add(vs+"/AUTH_RESPONSE/token-random-64k", func() *frame.Frame {
			return frame.NewFrame(v, 4, &message.AuthResponse{Token: content(segref.Random, 65536, 3)})
		})
		add(vs+"/AUTH_RESPONSE/token-empty", func() *frame.Frame {
			return frame.NewFrame(v, 4, &message.AuthResponse{Token: []byte{}})
		})
		add(vs+"/SUPPORTED", func() *frame.Frame {
			return frame.NewFrame(v, 5, &message.Supported{Options: map[string][]string{"COMPRESSION": {"lz4", "snappy"}, "CQL_VERSION": {"3.4.5"}}})
		})
		add(vs+"/RESULT/rows/zero-cells-1MiB", func() *frame.Frame {
			cells := make([][]byte, 16)
			for i := range cells {
				cells[i] = make([]byte, 65536)
			}
			return rowsFrame(v, cells, 4)
		})
		add(vs+"/RESULT/rows/repeated-value-cells", func() *frame.Frame {
			cells := make([][]byte, 3000)
			for i := range cells {
				cells[i] = []byte("the same value in every row")
			}
			return rowsFrame(v, cells, 3)
		})
		add(vs+"/RESULT/rows/random-cells", func() *frame.Frame {
			cells := make([][]byte, 30)
			for i := range cells {
				cells[i] = content(segref.Random, 5000+i, uint64(10+i))
			}
			return rowsFrame(v, cells, 3)
		})
		add(vs+"/RESULT/rows/window64k-cell", func() *frame.Frame {
			return rowsFrame(v, [][]byte{content(segref.Window64K, 150000, 50), content(segref.RandomRepeats, 100000, 51)}, 2)
		})
		add(vs+"/RESULT/rows/null-and-empty-cells", func() *frame.Frame {
			cells := make([][]byte, 600)
			for i := range cells {
				if i%2 == 0 {
					cells[i] = []byte{}
				}
			}
			return rowsFrame(v, cells, 6)
		})
		add(vs+"/ERROR/long-message", func() *frame.Frame {
			return frame.NewFrame(v, 6, &message.ServerError{ErrorMessage: strings.Repeat("boom ", 4000)})
		})
		if thorough {
			add(vs+"/RESULT/rows/zero-cells-16MiB", func() *frame.Frame {
				cells := make([][]byte, 16)
				for i := range cells {
					cells[i] = make([]byte, 1<<20)
				}
				return rowsFrame(v, cells, 4)
			})
			add(vs+"/QUERY/text-4M", func() *frame.Frame {
				return frame.NewFrame(v, 3, &message.Query{Query: string(content(segref.Text, 4<<20, 60))})
			})
		}
	}
	return out
}

type bodyAlgo struct {
	name string
	comp frame.BodyCompressor
	// expand the compressed body independently: (expansion, compressed block length, error)
	ref func(body []byte) ([]byte, int, error)
}

var bodyAlgos = []bodyAlgo{
	{"lz4", lz4.Compressor{}, func(body []byte) ([]byte, int, error) {
		if len(body) < 4 {
			return nil, 0, &segref.FormatError{Kind: "length-prefix", Text: "body shorter than the 4-byte length"}
		}
		n := int(binary.BigEndian.Uint32(body))
		out, _, err := segref.LZ4DecodeBlock(body[4:], n)
		if err == nil && len(out) != n {
			err = &segref.FormatError{Kind: "length-prefix", Text: fmt.Sprintf("prefix announces %d bytes, block expands to %d", n, len(out))}
		}
		return out, len(body) - 4, err
	}},
	{"snappy", snappy.Compressor{}, func(body []byte) ([]byte, int, error) {
		out, _, err := segref.SnappyDecodeBlock(body, -1)
		return out, len(body), err
	}},
}

func (ck checker) runFrame(nf namedFrame) {
	c := ck.c
	// reference: the same frame without compression, encoded and decoded by the library
	var plain bytes.Buffer
	if err := frame.NewCodec().EncodeFrame(nf.mk(), &plain); err != nil {
		c.Fatal("frame %s does not encode without compression: %v", nf.name, err)
	}
	want, err := frame.NewCodec().DecodeFrame(bytes.NewReader(plain.Bytes()))
	if err != nil {
		// not this property's business (C01); without a reference there is nothing to compare with
		c.Inconclusive("frame " + nf.name + " does not decode even without compression")
		return
	}
	const headerLen = 9
	plainBody := plain.Bytes()[headerLen:]
	for _, ba := range bodyAlgos {
		d := detail{Algo: "frame/" + ba.name, FrameName: nf.name, InputLen: len(plainBody), Input0: head(plainBody, 32)}
		f := nf.mk()
		f.SetCompress(true)
		if !f.Header.Flags.Contains(primitive.HeaderFlagCompressed) {
			c.Fatal("frame %s: SetCompress(true) did not set the flag", nf.name)
		}
		cd := frame.NewRawCodecWithCompression(ba.comp)
		var enc bytes.Buffer
		var eerr error
		pan, pv := mon.Guard(func() { eerr = cd.EncodeFrame(f, &enc) })
		c.Eval(1)
		if pan || eerr != nil {
			d.What, d.Err = "EncodeFrame with a compressor failed", fmt.Sprint(pv, eerr)
			c.Violation("frame/"+ba.name+"/encode-error", d)
			continue
		}
		if enc.Len() < headerLen {
			d.What = "encoded frame shorter than a header"
			c.Violation("frame/"+ba.name+"/encode-short", d)
			continue
		}
		body := enc.Bytes()[headerLen:]
		d.CompLen, d.Comp0 = len(body), head(body, 48)
		exp, blockLen, rerr := ba.ref(body)
		cls := inputClass(len(plainBody), blockLen)
		if len(body) > 0 {
			c.Max("max_ratio_x100_frame_"+ba.name, int64(len(plainBody))*100/int64(len(body)))
		}
		c.Count("frames_"+ba.name+"_"+cls, 1)
		c.Distinct("frame/" + ba.name + "/" + nf.name)
		var got *frame.Frame
		var derr error
		pan, pv = mon.Guard(func() { got, derr = cd.DecodeFrame(bytes.NewReader(enc.Bytes())) })
		c.Eval(1)
		own := "ok"
		switch {
		case pan:
			own = "panic: " + pv
		case derr != nil:
			own = "error: " + derr.Error()
		case !sameContent(want, got):
			own = "different content"
		}
		if own == "ok" {
			// the same frame bytes arriving the way a transport delivers them
			for _, sk := range []srcKind{{"io.Reader[3-byte-reads]", chunks(3)}, {"io.Reader[4096-byte-reads]", chunks(4096)}, {"half-reads", func(b []byte) io.Reader { return halfReader{plainSrc(b)} }}, {"bufio.Reader[16]", func(b []byte) io.Reader { return bufio.NewReaderSize(plainSrc(b), 16) }}} {
				var g2 *frame.Frame
				var e2 error
				p2, pv2 := mon.Guard(func() { g2, e2 = cd.DecodeFrame(sk.mk(enc.Bytes())) })
				c.Eval(1)
				if p2 || e2 != nil || !sameContent(want, g2) {
					d2 := d
					d2.Via = sk.name
					d2.What, d2.Err = "a compressed frame that decodes from a bytes.Reader does not decode (to the same content) from this kind of source", fmt.Sprint(pv2, e2)
					c.Violation("frame/"+ba.name+"/decode/"+cls+"/only-via="+sk.name, d2)
				}
			}
		}
		if own == "ok" {
			// two compressed frames back to back in a *bytes.Buffer (the source type the compressors
			// special-case): each decodes to the same content and consumes exactly its own bytes
			two := bytes.NewBuffer(append(append([]byte{}, enc.Bytes()...), enc.Bytes()...))
			for k := 0; k < 2; k++ {
				var g3 *frame.Frame
				var e3 error
				p3, pv3 := mon.Guard(func() { g3, e3 = cd.DecodeFrame(two) })
				c.Eval(1)
				if p3 || e3 != nil || !sameContent(want, g3) || two.Len() != (1-k)*enc.Len() {
					d2 := d
					d2.Via = "*bytes.Buffer holding two frames"
					d2.What = fmt.Sprintf("frame %d of two identical compressed frames in one *bytes.Buffer: error/panic %v %v, same content %v, bytes left %d (want %d)",
						k+1, pv3, e3, e3 == nil && !p3 && sameContent(want, g3), two.Len(), (1-k)*enc.Len())
					c.Violation("frame/"+ba.name+"/decode/"+cls+"/two-frames-in-one-bytes.Buffer", d2)
					break
				}
			}
			// the raw route a proxy takes, without touching the wire: ConvertToRawFrame then ConvertFromRawFrame
			f4 := nf.mk()
			f4.SetCompress(true)
			var g4 *frame.Frame
			var e4 error
			p4, pv4 := mon.Guard(func() {
				var raw *frame.RawFrame
				if raw, e4 = cd.ConvertToRawFrame(f4); e4 == nil {
					g4, e4 = cd.ConvertFromRawFrame(raw)
				}
			})
			c.Eval(1)
			if p4 || e4 != nil || !sameContent(want, g4) {
				d2 := d
				d2.Via = "ConvertToRawFrame+ConvertFromRawFrame"
				d2.What, d2.Err = "a frame converted to raw form with compression and back does not have the content of the same frame without compression", fmt.Sprint(pv4, e4)
				c.Violation("frame/"+ba.name+"/convert/"+cls, d2)
			}
		}
		if rerr != nil {
			// compressed body is not a valid encoding at all: one cause, one key
			d.What, d.Err = "compressed body does not expand under the independent decoder", rerr.Error()
			d.Note = "library DecodeFrame of these bytes: " + own
			kind := segref.ErrKind(rerr)
			if ba.name == "lz4" && len(body) >= 4 && len(plainBody) == int(binary.BigEndian.Uint32(body)) {
				kind = segref.LZ4Diagnose(body[4:], plainBody)
			}
			c.Violation("frame/"+ba.name+"/invalid-block/"+kind, d)
			continue
		}
		if !bytes.Equal(exp, plainBody) {
			// Either the same content was serialised differently the second time (map order), or the
			// block is well-formed but wrong. Only the second is a defect; tell them apart by decoding
			// the independent expansion as an uncompressed body.
			c.Count("frame_body_expansion_differs_from_plain_encoding", 1)
			hdr := *want.Header
			hdr.BodyLength = int32(len(exp))
			if b2, err := frame.NewRawCodec().DecodeBody(&hdr, bytes.NewReader(exp)); err != nil || !reflect.DeepEqual(b2, want.Body) {
				kind := "wrong-bytes"
				if ba.name == "lz4" && len(body) >= 4 {
					if k := segref.LZ4Diagnose(body[4:], plainBody); k != "" {
						kind = k
					}
				}
				d.What = "compressed body is well-formed but expands (independent decoder) to a body with different content"
				d.Note = "library DecodeFrame of these bytes: " + own
				c.Violation("frame/"+ba.name+"/invalid-block/"+kind, d)
				continue
			}
		}
		switch {
		case pan:
			d.What, d.Err = "DecodeFrame panicked on a compressed frame", pv
			c.Violation("frame/"+ba.name+"/decode/panic", d)
		case derr != nil:
			d.What, d.Err = "a frame encoded with compression does not decode", derr.Error()
			c.Violation("frame/"+ba.name+"/decode/"+cls, d)
		case own != "ok":
			d.What = "a frame encoded with compression decodes to different content than the same frame encoded without"
			d.Err = fmt.Sprintf("with: %v / without: %v", got.Body.Message, want.Body.Message)
			if len(d.Err) > 600 {
				d.Err = d.Err[:600] + "…"
			}
			c.Violation("frame/"+ba.name+"/content-differs", d)
		}
	}
}

func sameContent(a, b *frame.Frame) bool {
	if a == nil || b == nil || a.Header == nil || b.Header == nil || a.Body == nil || b.Body == nil {
		return false
	}
	ha, hb := *a.Header, *b.Header
	ha.Flags = ha.Flags.Remove(primitive.HeaderFlagCompressed)
	hb.Flags = hb.Flags.Remove(primitive.HeaderFlagCompressed)
	ha.BodyLength, hb.BodyLength = 0, 0 // length on the wire differs by construction
	return ha == hb && reflect.DeepEqual(a.Body, b.Body)
}

// ------------------------------------------------------------------------------------------------
// segments

func (ck checker) runSegment(name string, payload []byte, selfContained bool) {
	c := ck.c
	mk := func() *segment.Segment {
		return &segment.Segment{Header: &segment.Header{IsSelfContained: selfContained}, Payload: &segment.Payload{UncompressedData: payload}}
	}
	var plain bytes.Buffer
	if err := segment.NewCodec().EncodeSegment(mk(), &plain); err != nil {
		c.Fatal("segment %s does not encode without compression: %v", name, err)
	}
	want, err := segment.NewCodec().DecodeSegment(bytes.NewReader(plain.Bytes()))
	if err != nil || !bytes.Equal(want.Payload.UncompressedData, payload) {
		c.Inconclusive("segment " + name + " does not round-trip even without compression (C06)")
		return
	}
	d := detail{Algo: "segment/lz4", FrameName: name, InputLen: len(payload), Input0: head(payload, 32)}
	cd := segment.NewCodecWithCompression(lz4.Compressor{})
	var enc bytes.Buffer
	var eerr error
	pan, pv := mon.Guard(func() { eerr = cd.EncodeSegment(mk(), &enc) })
	c.Eval(1)
	if pan || eerr != nil {
		d.What, d.Err = "EncodeSegment with LZ4 failed", fmt.Sprint(pv, eerr)
		c.Violation("segment/lz4/encode-error", d)
		return
	}
	parsed, probs := segref.ParseStrict(segref.LZ4, enc.Bytes())
	if len(probs) != 0 {
		// layout is C06's business; without a parse the class of the case is unknown
		c.Count("unjudged_segment_layout_problem", 1)
	}
	compressed := parsed.Header.UncompressedLength != 0
	cls := "fallback-form"
	if compressed {
		cls = inputClass(len(payload), len(parsed.Transmitted))
		c.Max("max_ratio_x100_segment_lz4", int64(len(payload))*100/int64(len(parsed.Transmitted)+1))
	}
	c.Count("segments_lz4_"+cls, 1)
	if compressed && len(parsed.Transmitted) == len(payload) {
		c.Count("segments_lz4_compressed_form_with_equal_lengths", 1)
	}
	c.Distinct("segment/lz4/" + name)
	d.CompLen, d.Comp0 = len(parsed.Transmitted), head(parsed.Transmitted, 48)
	var got *segment.Segment
	var derr error
	pan, pv = mon.Guard(func() { got, derr = cd.DecodeSegment(bytes.NewReader(enc.Bytes())) })
	c.Eval(1)
	own := "ok"
	switch {
	case pan:
		own = "panic: " + pv
	case derr != nil:
		own = "error: " + derr.Error()
	case got == nil || got.Payload == nil || got.Header == nil || !bytes.Equal(got.Payload.UncompressedData, want.Payload.UncompressedData) || got.Header.IsSelfContained != want.Header.IsSelfContained:
		own = "different content"
	}
	if own == "ok" {
		for _, sk := range []srcKind{{"io.Reader[3-byte-reads]", chunks(3)}, {"half-reads", func(b []byte) io.Reader { return halfReader{plainSrc(b)} }}} {
			var g2 *segment.Segment
			var e2 error
			p2, pv2 := mon.Guard(func() { g2, e2 = cd.DecodeSegment(sk.mk(enc.Bytes())) })
			c.Eval(1)
			if p2 || e2 != nil || g2 == nil || g2.Payload == nil || !bytes.Equal(g2.Payload.UncompressedData, payload) {
				d2 := d
				d2.Via = sk.name
				d2.What, d2.Err = "an LZ4 segment that decodes from a bytes.Reader does not decode from this kind of source", fmt.Sprint(pv2, e2)
				c.Violation("segment/lz4/decode/"+cls+"/only-via="+sk.name, d2)
			}
		}
	}
	if compressed {
		if exp, _, rerr := segref.LZ4DecodeBlock(parsed.Transmitted, len(payload)); rerr != nil || !bytes.Equal(exp, payload) {
			kind := segref.LZ4Diagnose(parsed.Transmitted, payload)
			d.What, d.Err = "compressed segment payload does not expand to the payload under the independent decoder", fmt.Sprint(rerr)
			d.Note = "library DecodeSegment of these bytes: " + own
			c.Violation("segment/lz4/invalid-block/"+kind, d)
			return
		}
	}
	switch {
	case pan:
		d.What, d.Err = "DecodeSegment panicked", pv
		c.Violation("segment/lz4/decode/panic", d)
	case derr != nil:
		d.What, d.Err = "a segment encoded with LZ4 does not decode", derr.Error()
		c.Violation("segment/lz4/decode/"+cls, d)
	case own != "ok":
		d.What = "a segment encoded with LZ4 decodes to a different payload/flag than the same segment encoded without"
		c.Violation("segment/lz4/content-differs", d)
	}
}

func (ck checker) runSegmentSequence(order string, names []string, ps [][]byte, flags []bool) {
	c := ck.c
	enc := segment.NewCodecWithCompression(lz4.Compressor{})
	dec := segment.NewCodecWithCompression(lz4.Compressor{})
	var stream bytes.Buffer
	for i := range ps {
		s := &segment.Segment{Header: &segment.Header{IsSelfContained: flags[i]}, Payload: &segment.Payload{UncompressedData: ps[i]}}
		if err := enc.EncodeSegment(s, &stream); err != nil {
			return // reported by runSegment
		}
	}
	rd := bytes.NewReader(stream.Bytes())
	got := make([]*segment.Segment, len(ps))
	for i := range ps {
		var err error
		pan, _ := mon.Guard(func() { got[i], err = dec.DecodeSegment(rd) })
		c.Eval(1)
		if pan || err != nil || got[i] == nil || got[i].Payload == nil || !bytes.Equal(got[i].Payload.UncompressedData, ps[i]) {
			return // single-segment behaviour is runSegment's business (same bytes, same key there)
		}
		for j := 0; j < i; j++ {
			if !bytes.Equal(got[j].Payload.UncompressedData, ps[j]) || got[j].Header.IsSelfContained != flags[j] {
				c.Violation("segment/lz4/sequence/content-changed-by-later-decode", detail{Algo: "segment/lz4", FrameName: names[j] + " (order " + order + ")",
					What:     fmt.Sprintf("segment %q decoded to the right content, which changed after the same codec decoded %q", names[j], names[i]),
					InputLen: len(ps[j]), Input0: head(ps[j], 32), Comp0: head(got[j].Payload.UncompressedData, 32)})
				return
			}
		}
	}
	c.Count("segment_sequences_on_one_codec", 1)
	c.Distinct("segment/lz4/sequence/" + order)
}

// ------------------------------------------------------------------------------------------------

var fixedSizes = []int{0, 1, 2, 3, 4, 5, 11, 12, 13, 15, 16, 17, 64, 65, 255, 256, 257, 4096, 65535, 65536, 65537, 131071, 1 << 20, 4 << 20}

func run(c *mon.Ctx) {
	c.Rule = "byte-string case = (size, content class); bytes are a pure function of (seed, size, class). sizes {0,1,2,3,4,5,11,12,13,15,16,17,64,65,255,256,257,4096,65535,65536,65537,131071,1MiB,4MiB (thorough: 16MiB)} " +
		"plus PRNG-chosen sizes (quick 96, thorough 2000) x classes {all-equal, period 2/3/7/255, text-like, PRNG, PRNG with long repeats, already-compressed (DEFLATE output), 12-byte records with period 65536}; " +
		"each case runs lz4 raw, lz4 withLength, snappy withLength, compressing and decompressing through *bytes.Buffer, a plain io.Reader, and (inputs <= 1 MiB) readers delivering 1/3/4096 bytes per Read, io.LimitReader around those with n = len and n = len+7, bufio.Reader(16) and a half-reader (a subset above 1 MiB and for compressing above 128 KiB); " +
		"every distinct compressed form is also expanded by segref's independent decoder. Plus library frames (QUERY, RESULT Rows, AUTH_RESPONSE, SUPPORTED, ERROR; v3, v4) and v5 segments encoded with and without a compressor. " +
		"A signature is (algorithm/format, size, class, input class in {empty, ratio<=8, ratio>8}) or (frame|segment name, algorithm)."
	c.Assume("segref's LZ4 / Snappy block decoders are correct (written from the format descriptions, pinned by hand-assembled blocks in internal/segref/segref_test.go)")
	c.Assume("the raw (segment payload) format is judged for inputs of 0..131071 bytes, the quantifier of the statement; longer inputs are run and only counted")
	c.Assume("Snappy's format cannot exceed ~21:1 (a 3-byte element copies at most 64 bytes), so the 'ratio > 200:1 reached' requirement applies to LZ4; for Snappy > 20:1 is required")
	ck := checker{c}

	if c.Replay != "" {
		var d detail
		if err := c.ReplayDetail(&d); err != nil {
			c.Fatal("replay: %v", err)
		}
		if d.Case != nil {
			ck.runBytes(*d.Case)
		} else {
			ck.framesAndSegments()
		}
		return
	}

	var cases []bcase
	sizes := append([]int(nil), fixedSizes...)
	if c.Thorough() {
		sizes = append(sizes, 16<<20)
	}
	for _, s := range sizes {
		for cl := 0; cl < int(segref.NumClasses); cl++ {
			cases = append(cases, bcase{c.Seed, s, cl})
		}
	}
	r := mon.NewRand(c.Seed, 1<<45)
	for i, n := 0, c.Pick(96, 2000); i < n; i++ {
		var s int
		switch i % 3 {
		case 0:
			s = r.Intn(600)
		case 1:
			s = r.Intn(140000)
		default:
			s = r.Intn(1 << 20)
		}
		cases = append(cases, bcase{c.Seed, s, i % int(segref.NumClasses)})
	}
	c.Set("byte_string_cases", len(cases))
	// largest first: the few multi-MiB cases should not be the tail
	sort.SliceStable(cases, func(i, j int) bool { return cases[i].Size > cases[j].Size })
	mon.ParallelN(8, len(cases), func(i int) { ck.runBytes(cases[i]) })

	ck.framesAndSegments()

	for _, a := range algos {
		need := int64(20000)
		if a.ratioName == "snappy" {
			need = 2000
		}
		if got := c.Counter("max_ratio_x100_judged_" + a.ratioName); got <= need {
			c.Fatal("run did not exercise the property: best %s ratio among judged cases is %d.%02d:1, need more than %d:1", a.name, got/100, got%100, need/100)
		}
	}
}

func (ck checker) framesAndSegments() {
	c := ck.c
	frames := buildFrames(c.Seed, c.Thorough())
	mon.ParallelN(4, len(frames), func(i int) { ck.runFrame(frames[i]) })
	c.Set("frames", len(frames))

	// segments: payloads are encoded v5 envelopes (uncompressed), cut to the segment limit where needed
	type sp struct {
		name string
		p    []byte
		self bool
	}
	var segs []sp
	v5 := primitive.ProtocolVersion5
	enc := func(f *frame.Frame) []byte {
		var b bytes.Buffer
		if err := frame.NewCodec().EncodeFrame(f, &b); err != nil {
			c.Fatal("v5 envelope: %v", err)
		}
		return b.Bytes()
	}
	q1 := enc(frame.NewFrame(v5, 1, &message.Query{Query: "SELECT * FROM system.local"}))
	q2 := enc(frame.NewFrame(v5, 2, &message.Query{Query: "SELECT * FROM system.peers_v2"}))
	segs = append(segs, sp{"one-small-envelope", q1, true}, sp{"two-small-envelopes", append(append([]byte{}, q1...), q2...), true})
	many := []byte{}
	for len(many)+len(q1) <= segref.MaxPayload {
		many = append(many, q1...)
	}
	segs = append(segs, sp{"same-envelope-repeated-to-128KiB", many, true})
	rep := enc(frame.NewFrame(v5, 3, &message.Query{Query: strings.Repeat("a", 1000)}))
	segs = append(segs, sp{"envelope-1000-a", rep, true})
	big := enc(rowsFrame(v5, [][]byte{make([]byte, 200000), segref.Content(segref.Text, 100000, mon.NewRand(c.Seed, 1<<51))}, 2))
	for off, i := 0, 0; off < len(big); off, i = off+segref.MaxPayload, i+1 {
		end := off + segref.MaxPayload
		if end > len(big) {
			end = len(big)
		}
		segs = append(segs, sp{fmt.Sprintf("part-%d-of-large-rows-envelope", i), big[off:end], false})
	}
	rnd := enc(frame.NewFrame(v5, 4, &message.AuthResponse{Token: segref.Content(segref.Random, 100000, mon.NewRand(c.Seed, 1<<52))}))
	segs = append(segs, sp{"envelope-random-token", rnd, true})
	// incompressible payloads at and just below the segment limit: the LZ4 block is longer than the payload
	// (and than the 17-bit length field allows), the fallback form must carry them
	for _, n := range []int{segref.MaxPayload, segref.MaxPayload - 1, segref.MaxPayload - 300, 130560} {
		segs = append(segs, sp{fmt.Sprintf("incompressible-%d", n), segref.Content(segref.Random, n, mon.NewRand(c.Seed, 1<<54+uint64(n))), n%2 == 1})
	}
	win := enc(rowsFrame(v5, [][]byte{segref.Content(segref.Window64K, 120000, mon.NewRand(c.Seed, 1<<53))}, 1))
	segs = append(segs, sp{"envelope-window64k-cell", win, true})
	segs = append(segs, sp{"empty-payload", []byte{}, true})
	// break-even family: short incompressible payloads with one planted repeat of 4..9 bytes, so that the LZ4
	// block is a few bytes shorter than, exactly as long as, or a few bytes longer than the payload — the
	// boundary between the compressed form and the "not compressed" fallback of the segment header
	for n := 17; n <= 72; n++ {
		for k := 4; k <= 9; k++ {
			p := make([]byte, n)
			for i := range p {
				p[i] = byte(i*37 + 1)
			}
			copy(p[8:8+k], p[0:k])
			segs = append(segs, sp{fmt.Sprintf("break-even-n%d-k%d", n, k), p, (n+k)%2 == 0})
		}
	}
	segs = append(segs, sp{"break-even-19", []byte{1, 2, 3, 4, 1, 2, 3, 4, 9, 10, 11, 12, 13, 14, 15, 16, 17, 18, 19}, true})
	mon.ParallelN(4, len(segs), func(i int) { ck.runSegment(segs[i].name, segs[i].p, segs[i].self) })
	c.Set("segments", len(segs))
	if c.Replay == "" && c.Counter("segments_lz4_compressed_form_with_equal_lengths") == 0 && c.Counter("segments_lz4_fallback-form") == 0 {
		c.Fatal("run did not exercise the compressed/fallback boundary of LZ4 segments")
	}

	// the same segments as a sequence on ONE codec instance per side, in both orders: content decoded with a
	// compressor must stay what it was after the codec has been used again
	for _, order := range []string{"forward", "backward"} {
		names := make([]string, len(segs))
		ps := make([][]byte, len(segs))
		flags := make([]bool, len(segs))
		for i := range segs {
			j := i
			if order == "backward" {
				j = len(segs) - 1 - i
			}
			names[i], ps[i], flags[i] = segs[j].name, segs[j].p, segs[j].self
		}
		ck.runSegmentSequence(order, names, ps, flags)
	}
}
