package main

// Static registry of every type of the library that carries a deep-copy operation, compiled
// against the real packages (a method that disappears breaks the build = harness error, never a
// verdict), plus a run-time source scan that lists every DeepCopy* method found in the tree under
// test. A receiver type or method present in the source but absent from the registry is reported
// as INCONCLUSIVE, never silently ignored.

import (
	"fmt"
	"go/ast"
	"go/parser"
	"go/token"
	"os"
	"path/filepath"
	"reflect"
	"sort"
	"strings"

	"github.com/datastax/go-cassandra-native-protocol/datatype"
	"github.com/datastax/go-cassandra-native-protocol/frame"
	"github.com/datastax/go-cassandra-native-protocol/message"
	"github.com/datastax/go-cassandra-native-protocol/primitive"
	"github.com/datastax/go-cassandra-native-protocol/segment"
)

const modulePath = "github.com/datastax/go-cassandra-native-protocol/"

// copyOp is one way of obtaining a deep copy. in is a *T (possibly a typed nil for the
// nil-receiver cases); dirty is a populated *T used as the target of DeepCopyInto (nil = fresh).
// The result is a *T (as any) or an untyped nil.
type copyOp struct {
	name     string
	nilSafe  bool // may be called on a nil receiver
	useDirty bool // DeepCopyInto into a pre-populated target
	call     func(in any, dirty any) any
}

type entry struct {
	name   string       // "message.Batch" (package directory relative to the module + type name)
	rt     reflect.Type // the struct / array type T
	ops    []copyOp
	isMsg  bool // *T implements message.Message
	isDT   bool // *T implements datatype.DataType
	dtLeaf bool // data type without nested data types
	index  int
}

type registry struct {
	entries []*entry
	byType  map[reflect.Type]*entry
	byName  map[string]*entry
	msgs    []*entry
	dts     []*entry
	dtLeafs []*entry
}

func relName(t reflect.Type) string {
	return strings.TrimPrefix(t.PkgPath(), modulePath) + "." + t.Name()
}

type deepCopier[T any] interface {
	*T
	DeepCopy() *T
	DeepCopyInto(*T)
}

func unwrap(v any) any {
	if v == nil {
		return nil
	}
	rv := reflect.ValueOf(v)
	if rv.Kind() == reflect.Ptr && rv.IsNil() {
		return v // typed nil: keep the type so that the oracle can see it
	}
	return v
}

func regStruct[T any, P deepCopier[T]]() *entry {
	e := &entry{rt: reflect.TypeOf((*T)(nil)).Elem()}
	e.name = relName(e.rt)
	e.ops = append(e.ops,
		copyOp{name: "DeepCopy", nilSafe: true, call: func(in any, _ any) any { return P(in.(*T)).DeepCopy() }},
		copyOp{name: "DeepCopyInto", call: func(in any, _ any) any {
			out := new(T)
			P(in.(*T)).DeepCopyInto(out)
			return out
		}},
		copyOp{name: "DeepCopyInto(target-is-a-shallow-copy-of-the-original)", call: func(in any, _ any) any {
			// c := *v; v.DeepCopyInto(&c): a target that starts out sharing everything with the original
			// (an implementation that recycles what the target already holds would keep the sharing)
			out := new(T)
			*out = *(in.(*T))
			P(in.(*T)).DeepCopyInto(out)
			return out
		}},
		copyOp{name: "DeepCopyInto", useDirty: true, call: func(in any, dirty any) any {
			out := dirty.(*T)
			P(in.(*T)).DeepCopyInto(out)
			return out
		}},
	)
	return e
}

func regMsg[T any, P interface {
	deepCopier[T]
	message.Message
}]() *entry {
	e := regStruct[T, P]()
	e.isMsg = true
	e.ops = append(e.ops, copyOp{name: "DeepCopyMessage", nilSafe: true, call: func(in any, _ any) any {
		m := P(in.(*T)).DeepCopyMessage()
		if m == nil {
			return nil
		}
		return unwrap(any(m))
	}})
	return e
}

func regDT[T any, P interface {
	deepCopier[T]
	datatype.DataType
}]() *entry {
	e := regStruct[T, P]()
	e.isDT = true
	e.ops = append(e.ops, copyOp{name: "DeepCopyDataType", nilSafe: true, call: func(in any, _ any) any {
		m := P(in.(*T)).DeepCopyDataType()
		if m == nil {
			return nil
		}
		return unwrap(any(m))
	}})
	return e
}

func regUUID() *entry {
	e := &entry{rt: reflect.TypeOf(primitive.UUID{})}
	e.name = relName(e.rt)
	e.ops = append(e.ops, copyOp{name: "DeepCopy", nilSafe: true, call: func(in any, _ any) any { return in.(*primitive.UUID).DeepCopy() }})
	return e
}

var (
	messageIface  = reflect.TypeOf((*message.Message)(nil)).Elem()
	datatypeIface = reflect.TypeOf((*datatype.DataType)(nil)).Elem()
)

func buildRegistry() *registry {
	r := &registry{byType: map[reflect.Type]*entry{}, byName: map[string]*entry{}}
	add := func(e *entry) {
		e.index = len(r.entries)
		r.entries = append(r.entries, e)
		r.byType[e.rt] = e
		r.byName[e.name] = e
		if e.isMsg {
			r.msgs = append(r.msgs, e)
		}
		if e.isDT {
			r.dts = append(r.dts, e)
		}
	}
	// requests
	add(regMsg[message.Startup]())
	add(regMsg[message.Options]())
	add(regMsg[message.Query]())
	add(regMsg[message.Prepare]())
	add(regMsg[message.Execute]())
	add(regMsg[message.Register]())
	add(regMsg[message.Batch]())
	add(regMsg[message.AuthResponse]())
	add(regMsg[message.Revise]())
	// responses
	add(regMsg[message.Ready]())
	add(regMsg[message.Authenticate]())
	add(regMsg[message.Supported]())
	add(regMsg[message.AuthChallenge]())
	add(regMsg[message.AuthSuccess]())
	// results
	add(regMsg[message.VoidResult]())
	add(regMsg[message.SetKeyspaceResult]())
	add(regMsg[message.SchemaChangeResult]())
	add(regMsg[message.PreparedResult]())
	add(regMsg[message.RowsResult]())
	// events
	add(regMsg[message.SchemaChangeEvent]())
	add(regMsg[message.StatusChangeEvent]())
	add(regMsg[message.TopologyChangeEvent]())
	// errors
	add(regMsg[message.ServerError]())
	add(regMsg[message.ProtocolError]())
	add(regMsg[message.AuthenticationError]())
	add(regMsg[message.Overloaded]())
	add(regMsg[message.IsBootstrapping]())
	add(regMsg[message.TruncateError]())
	add(regMsg[message.SyntaxError]())
	add(regMsg[message.Unauthorized]())
	add(regMsg[message.Invalid]())
	add(regMsg[message.ConfigError]())
	add(regMsg[message.Unavailable]())
	add(regMsg[message.ReadTimeout]())
	add(regMsg[message.WriteTimeout]())
	add(regMsg[message.ReadFailure]())
	add(regMsg[message.WriteFailure]())
	add(regMsg[message.FunctionFailure]())
	add(regMsg[message.Unprepared]())
	add(regMsg[message.AlreadyExists]())
	// message parts
	add(regStruct[message.BatchChild]())
	add(regStruct[message.QueryOptions]())
	add(regStruct[message.ContinuousPagingOptions]())
	add(regStruct[message.ColumnMetadata]())
	add(regStruct[message.RowsMetadata]())
	add(regStruct[message.VariablesMetadata]())
	// frames
	add(regStruct[frame.Frame]())
	add(regStruct[frame.RawFrame]())
	add(regStruct[frame.Header]())
	add(regStruct[frame.Body]())
	// segments
	add(regStruct[segment.Segment]())
	add(regStruct[segment.Header]())
	add(regStruct[segment.Payload]())
	// data types
	add(regDT[datatype.PrimitiveType]())
	add(regDT[datatype.Custom]())
	add(regDT[datatype.List]())
	add(regDT[datatype.Set]())
	add(regDT[datatype.Map]())
	add(regDT[datatype.Tuple]())
	add(regDT[datatype.UserDefined]())
	// primitives
	add(regStruct[primitive.Value]())
	add(regStruct[primitive.Inet]())
	add(regStruct[primitive.FailureReason]())
	add(regUUID())

	for _, e := range r.dts {
		if !typeHasPointers(e.rt) {
			e.dtLeaf = true
			r.dtLeafs = append(r.dtLeafs, e)
		}
	}
	return r
}

// package-level *PrimitiveType singletons of the library: shared by every program by design.
// They are placed in some originals (as real programs do) but are never mutated by this check
// (a mutation would change global state for every other case).
var primitiveSingletons = []*datatype.PrimitiveType{
	datatype.Ascii, datatype.Bigint, datatype.Blob, datatype.Boolean, datatype.Counter, datatype.Date,
	datatype.Decimal, datatype.Double, datatype.Duration, datatype.Float, datatype.Inet, datatype.Int,
	datatype.Smallint, datatype.Time, datatype.Timestamp, datatype.Timeuuid, datatype.Tinyint,
	datatype.Uuid, datatype.Varchar, datatype.Varint,
}

var singletonAddr = func() map[uintptr]bool {
	m := map[uintptr]bool{}
	for _, p := range primitiveSingletons {
		m[reflect.ValueOf(p).Pointer()] = true
	}
	return m
}()

// ---------------------------------------------------------------------------------------------
// source scan

type scanResult struct {
	Methods    map[string][]string // "message.Batch" -> sorted DeepCopy* method names
	Files      int
	Interfaces map[string][]string // interfaces that declare a DeepCopy* method
	Errors     []string
}

func recvTypeName(e ast.Expr) string {
	switch t := e.(type) {
	case *ast.StarExpr:
		return recvTypeName(t.X)
	case *ast.Ident:
		return t.Name
	case *ast.IndexExpr:
		return recvTypeName(t.X)
	case *ast.IndexListExpr:
		return recvTypeName(t.X)
	case *ast.ParenExpr:
		return recvTypeName(t.X)
	}
	return fmt.Sprintf("?%T", e)
}

func scanSource(root string) *scanResult {
	res := &scanResult{Methods: map[string][]string{}, Interfaces: map[string][]string{}}
	fset := token.NewFileSet()
	filepath.Walk(root, func(p string, info os.FileInfo, err error) error {
		if err != nil {
			res.Errors = append(res.Errors, err.Error())
			return nil
		}
		if info.IsDir() {
			b := info.Name()
			if p != root && (strings.HasPrefix(b, ".") || b == "vendor" || b == "testdata" || b == "bin") {
				return filepath.SkipDir
			}
			return nil
		}
		if !strings.HasSuffix(p, ".go") || strings.HasSuffix(p, "_test.go") {
			return nil
		}
		f, err := parser.ParseFile(fset, p, nil, parser.SkipObjectResolution)
		if err != nil {
			res.Errors = append(res.Errors, err.Error())
			return nil
		}
		res.Files++
		dir, _ := filepath.Rel(root, filepath.Dir(p))
		dir = filepath.ToSlash(dir)
		for _, d := range f.Decls {
			switch fd := d.(type) {
			case *ast.FuncDecl:
				if fd.Recv == nil || len(fd.Recv.List) != 1 || !strings.HasPrefix(fd.Name.Name, "DeepCopy") {
					continue
				}
				k := dir + "." + recvTypeName(fd.Recv.List[0].Type)
				res.Methods[k] = append(res.Methods[k], fd.Name.Name)
			case *ast.GenDecl:
				for _, s := range fd.Specs {
					ts, ok := s.(*ast.TypeSpec)
					if !ok {
						continue
					}
					it, ok := ts.Type.(*ast.InterfaceType)
					if !ok || it.Methods == nil {
						continue
					}
					for _, m := range it.Methods.List {
						for _, n := range m.Names {
							if strings.HasPrefix(n.Name, "DeepCopy") {
								k := dir + "." + ts.Name.Name
								res.Interfaces[k] = append(res.Interfaces[k], n.Name)
							}
						}
					}
				}
			}
		}
		return nil
	})
	for k := range res.Methods {
		sort.Strings(res.Methods[k])
	}
	return res
}

// compare returns the (type or type.method) names found in the source that the registry does not cover.
func (r *registry) missingFrom(s *scanResult) []string {
	var out []string
	for k, ms := range s.Methods {
		e := r.byName[k]
		if e == nil {
			out = append(out, k)
			continue
		}
		have := map[string]bool{}
		for _, o := range e.ops {
			have[o.name] = true
		}
		for _, m := range ms {
			if !have[m] {
				out = append(out, k+"."+m)
			}
		}
	}
	sort.Strings(out)
	return out
}
