// C17 — deep copies are equal to and independent of their originals.
//
// Runtime monitor: for every type of the library that carries a deep-copy operation, populate
// real instances (every field, nested pointers, slices of slices, maps of slices, every
// implementation behind an interface field), call the real DeepCopy / DeepCopyInto /
// DeepCopyMessage / DeepCopyDataType, and judge the result with three oracles:
//
//	(1) the copy is equal to the original (reflective, unexported fields included);
//	(2) the mutable memory reachable from the copy is disjoint from that reachable from the original;
//	(3) mutating everything reachable from the copy does not change a canonical dump of the
//	    original, and the reverse.
package main

import (
	"fmt"
	"hash/fnv"
	"reflect"
	"sort"
	"strings"
	"sync"

	"verif/internal/mon"
)

func main() { mon.Main("C17", run) }

type caseSpec struct {
	Root  string `json:"root"`
	Kind  string `json:"kind"` // full | variant | zero | nil-receiver
	Index int    `json:"index"`
	Force string `json:"force,omitempty"` // type path forced nil / empty (variant cases)
	Mode  int    `json:"mode,omitempty"`  // 1 nil, 2 empty
	Op    string `json:"op,omitempty"`    // replay: only this operation ("" = all)
}

func (s caseSpec) stream(salt string) uint64 {
	h := fnv.New64a()
	fmt.Fprintf(h, "%s|%s|%s|%d|%s", s.Root, s.Kind, s.Force, s.Mode, salt)
	return h.Sum64() ^ uint64(s.Index)*0x9E3779B97F4A7C15
}

type typeStats struct {
	Cases        int64    `json:"cases"`
	Variants     int64    `json:"variant_cases"`
	Copies       int64    `json:"copies_judged"`
	MaxLocs      int64    `json:"max_mutable_locations"`
	TotalLocs    int64    `json:"total_mutable_locations"`
	Mutations    int64    `json:"mutations_applied"`
	NilablePaths int      `json:"nilable_type_paths"`
	VariantPaths int      `json:"variant_paths_run"`
	OwnPaths     []string `json:"own_nilable_paths_nil_and_empty,omitempty"` // paths not crossing an interface
}

type state struct {
	c   *mon.Ctx
	reg *registry
	w   *walker

	mu      sync.Mutex
	stats   map[string]*typeStats
	nilable map[string]map[string]reflect.Kind // root -> type path -> kind
	impls   map[string]int
}

type finding struct {
	pt    pathT
	class string
	info  map[string]any
}

type judgement struct {
	findings   []finding
	locsOrig   int
	locsCopy   int
	mutations  int
	nilEmpty   int
	tailOnly   int
	singletons int
	skipped    int
	harness    []string
}

func lineStr(d []dline, i int) string {
	if i < 0 || i >= len(d) {
		return "<end>"
	}
	return d[i].pt.full + " = " + d[i].val
}

// judge applies the three oracles to (orig, cp), both *T. It MUTATES both.
func (s *state) judge(rootName string, orig, cp reflect.Value) *judgement {
	j := &judgement{}
	root := pathT{owner: rootName}
	w := s.w

	// (1) equality
	var er eqResult
	w.equal(orig, cp, root, &er, 0)
	j.nilEmpty = er.nilEmptyDiff
	for _, d := range er.diffs {
		cls := d.class
		if cls == "" {
			cls = "not-equal"
		}
		j.findings = append(j.findings, finding{d.pt, cls, map[string]any{"path": d.pt.full, "original_vs_copy": d.what}})
	}

	// (2) disjointness
	var A, B []loc
	w.collect(orig, root, &A, 0)
	w.collect(cp, root, &B, 0)
	j.locsOrig, j.locsCopy = len(A), len(B)
	var ost overlapStats
	ov := overlaps(A, B, &ost)
	j.tailOnly, j.singletons = ost.tailOnly, ost.singletons
	for _, o := range ov {
		j.findings = append(j.findings, finding{o.b.pt, o.class, map[string]any{
			"path_in_copy": o.b.pt.full, "path_in_original": o.a.pt.full,
			"original_range": fmt.Sprintf("[%#x,%#x) visible to %#x", o.a.lo, o.a.hi, o.a.vhi),
			"copy_range":     fmt.Sprintf("[%#x,%#x) visible to %#x", o.b.lo, o.b.hi, o.b.vhi),
		}})
	}
	attribute := func(pt pathT) pathT {
		for _, o := range ov {
			if strings.HasPrefix(pt.full, o.b.pt.full) {
				return o.b.pt
			}
		}
		return pt
	}

	// (3) mutate and observe
	var D0, C0, D1, C1, C2, D2 []dline
	w.dump(orig, root, &D0, 0)
	w.dump(cp, root, &C0, 0)
	mc := &mutator{w: w, tag: "c"}
	mc.mutate(cp, 0)
	w.dump(orig, root, &D1, 0)
	if i := firstDiff(D0, D1); i >= 0 {
		pt := root
		if i < len(D0) {
			pt = D0[i].pt
		} else if i < len(D1) {
			pt = D1[i].pt
		}
		j.findings = append(j.findings, finding{attribute(pt), "mutation-visible", map[string]any{
			"direction": "mutated the copy, the original changed", "original_before": lineStr(D0, i), "original_after": lineStr(D1, i)}})
	}
	w.dump(cp, root, &C1, 0)
	if mc.n > 0 && firstDiff(C0, C1) < 0 {
		j.harness = append(j.harness, "mutation of the copy had no effect on its dump")
	}
	mo := &mutator{w: w, tag: "oo"}
	mo.mutate(orig, 0)
	w.dump(cp, root, &C2, 0)
	if i := firstDiff(C1, C2); i >= 0 {
		pt := root
		if i < len(C1) {
			pt = C1[i].pt
		} else if i < len(C2) {
			pt = C2[i].pt
		}
		j.findings = append(j.findings, finding{attribute(pt), "reverse-mutation-visible", map[string]any{
			"direction": "mutated the original, the copy changed", "copy_before": lineStr(C1, i), "copy_after": lineStr(C2, i)}})
	}
	w.dump(orig, root, &D2, 0)
	if mo.n > 0 && firstDiff(D1, D2) < 0 {
		j.harness = append(j.harness, "mutation of the original had no effect on its dump")
	}
	j.mutations = mc.n + mo.n
	j.skipped = mc.skipped + mo.skipped
	return j
}

// build creates the original of a case: a *T, populated according to spec.
func (s *state) build(e *entry, spec caseSpec, salt string, record map[string]reflect.Kind, noSingletons bool) (reflect.Value, *populator) {
	p := &populator{r: mon.NewRand(s.c.Seed, spec.stream(salt)), reg: s.reg, idx: spec.Index,
		force: spec.Force, mode: spec.Mode, record: record, noSingletons: noSingletons}
	if record != nil {
		p.implSeen = map[string]int{}
	}
	v := reflect.New(e.rt)
	if spec.Kind != "zero" {
		p.fill(v.Elem(), pathT{owner: e.name})
	}
	return v, p
}

func (s *state) runCase(e *entry, spec caseSpec) {
	c := s.c
	ptrT := reflect.PtrTo(e.rt)
	var record map[string]reflect.Kind
	if spec.Kind == "full" {
		record = map[string]reflect.Kind{}
	}
	var maxLocs, totLocs, muts, copies int64
	var agg [6]int64
	defer func() {
		for i, name := range []string{"mutable_locations_visited", "mutations_applied", "nil_vs_empty_differences",
			"shared_capacity_tail_only", "shared_primitive_singletons", "mutations_skipped_not_addressable"} {
			c.Count(name, agg[i])
		}
		c.Max("max_mutable_locations_in_one_copy", maxLocs)
	}()
	for _, op := range e.ops {
		opName := op.name
		if op.useDirty {
			opName += "(dirty-target)"
		}
		if spec.Op != "" && spec.Op != opName {
			continue
		}
		det := func(extra map[string]any) map[string]any {
			sp := spec
			sp.Op = opName
			m := map[string]any{"case": sp, "seed": c.Seed, "root": spec.Root, "kind": spec.Kind, "index": spec.Index,
				"force": spec.Force, "mode": spec.Mode, "op": opName}
			for k, v := range extra {
				m[k] = v
			}
			return m
		}
		if spec.Kind == "nil-receiver" {
			if !op.nilSafe {
				continue
			}
			var res any
			panicked, msg := mon.Guard(func() { res = op.call(reflect.Zero(ptrT).Interface(), nil) })
			c.Eval(1)
			c.Count("nil_receiver_calls", 1)
			if panicked {
				c.Violation(e.name+"/<self>/"+op.name+"/nil-receiver-panic", det(map[string]any{"panic": msg}))
			} else if res != nil && !reflect.ValueOf(res).IsNil() {
				c.Violation(e.name+"/<self>/"+op.name+"/nil-receiver-not-nil", det(map[string]any{"got": fmt.Sprintf("%T", res)}))
			}
			continue
		}

		orig, pop := s.build(e, spec, "orig", record, false)
		record = nil // the same original is rebuilt for every op; record once
		for _, pr := range pop.problems {
			c.Inconclusive(pr)
		}
		if spec.Kind == "variant" && pop.forced > 0 && op.name == "DeepCopy" {
			c.Count("variant_locations_forced_"+modeName(spec.Mode), int64(pop.forced))
		}
		if spec.Kind == "variant" && pop.forced == 0 {
			c.Inconclusive("variant path not reached: " + e.name + "/" + spec.Force)
			return
		}
		var dirty any
		if op.useDirty {
			dspec := spec
			dspec.Kind, dspec.Force, dspec.Mode = "full", "", 0
			d, _ := s.build(e, dspec, "dirty", nil, true)
			dirty = d.Interface()
		}
		// the original as it is before the copy is taken: copying must not write to it (a copy(*in, *out) with
		// swapped arguments zeroes the original and yields a copy that is equal to what is left of it)
		var before []dline
		s.w.dump(orig, pathT{owner: e.name}, &before, 0)
		var res any
		panicked, msg := mon.Guard(func() { res = op.call(orig.Interface(), dirty) })
		c.Eval(1)
		copies++
		if !panicked {
			var after []dline
			s.w.dump(orig, pathT{owner: e.name}, &after, 0)
			if i := firstDiff(before, after); i >= 0 {
				pt := pathT{owner: e.name}
				if i < len(before) {
					pt = before[i].pt
				} else if i < len(after) {
					pt = after[i].pt
				}
				c.Violation(pt.key("original-modified-by-copy"), det(map[string]any{"class": "original-modified-by-copy",
					"original_before_the_copy": lineStr(before, i), "original_after_the_copy": lineStr(after, i), "shape": pop.shape.String()}))
				c.Count("violating_observations", 1)
				continue
			}
		}
		if panicked {
			c.Violation(e.name+"/<self>/"+op.name+"/panic", det(map[string]any{"panic": msg, "shape": pop.shape.String()}))
			continue
		}
		cp := reflect.ValueOf(res)
		if !cp.IsValid() || cp.Type() != ptrT || cp.IsNil() {
			c.Violation(e.name+"/<self>/"+op.name+"/no-copy", det(map[string]any{"got": fmt.Sprintf("%T", res)}))
			continue
		}
		// siblings: a second copy of the same original and a copy of the copy, taken before anything is mutated.
		// Copies must be independent of each other too, not only of their original (a shared sentinel or a
		// cached copy passes every original-vs-copy test).
		var sibFindings []finding
		if !op.useDirty {
			var res2, res3 any
			p2, _ := mon.Guard(func() { res2 = op.call(orig.Interface(), nil) })
			p3, _ := mon.Guard(func() { res3 = op.call(cp.Interface(), nil) })
			c.Eval(2)
			root := pathT{owner: e.name}
			var L1, L2, L3 []loc
			s.w.collect(cp, root, &L1, 0)
			rel := []struct {
				name string
				ok   bool
				res  any
				into *[]loc
			}{{"second-copy-of-the-same-original", !p2, res2, &L2}, {"copy-of-the-copy", !p3, res3, &L3}}
			for _, x := range rel {
				v := reflect.ValueOf(x.res)
				if !x.ok || !v.IsValid() || v.Type() != ptrT || v.IsNil() {
					continue // the first call of this op succeeded; a differing second call is oracle 1's business below
				}
				s.w.collect(v, root, x.into, 0)
				var ost overlapStats
				for _, o := range overlaps(L1, *x.into, &ost) {
					sibFindings = append(sibFindings, finding{o.b.pt, "copies-share-memory/" + x.name + "/" + o.class, map[string]any{
						"path_in_first_copy": o.a.pt.full, "path_in_other_copy": o.b.pt.full, "other_copy_is": x.name,
						"first_copy_range": fmt.Sprintf("[%#x,%#x)", o.a.lo, o.a.hi), "other_copy_range": fmt.Sprintf("[%#x,%#x)", o.b.lo, o.b.hi)}})
				}
				c.Count("sibling_copies_compared", 1)
			}
		}
		j := s.judge(e.name, orig, cp)
		j.findings = append(j.findings, sibFindings...)
		for _, h := range j.harness {
			c.Inconclusive("oracle 3: " + h + " (" + e.name + ")")
		}
		for _, f := range j.findings {
			f.info["class"] = f.class
			f.info["shape"] = pop.shape.String()
			c.Violation(f.pt.key(f.class), det(f.info))
			c.Count("violating_observations", 1)
		}
		if int64(j.locsCopy) > maxLocs {
			maxLocs = int64(j.locsCopy)
		}
		totLocs += int64(j.locsOrig + j.locsCopy)
		muts += int64(j.mutations)
		agg[0] += int64(j.locsOrig + j.locsCopy)
		agg[1] += int64(j.mutations)
		agg[2] += int64(j.nilEmpty)
		agg[3] += int64(j.tailOnly)
		agg[4] += int64(j.singletons)
		agg[5] += int64(j.skipped)
		if e.rt.Size() > 0 {
			c.Distinct(e.name + "|" + opName + "|" + spec.Kind + "|" + spec.Force + "|" + pop.shape.String())
		} else {
			c.Count("trivial_zero_size_cases", 1)
		}
		if spec.Kind == "full" && spec.Index%37 == 5 && op.name == "DeepCopy" && j.locsCopy > 3 && c.WantSample() {
			sh := pop.shape.String()
			if len(sh) > 200 {
				sh = sh[:200] + "…"
			}
			c.Sample(map[string]any{"root": e.name, "op": opName, "index": spec.Index, "shape": sh,
				"mutable_locations_original": j.locsOrig, "mutable_locations_copy": j.locsCopy,
				"mutations_applied": j.mutations, "findings": len(j.findings)})
		}
		if pop.record != nil || pop.implSeen != nil {
			s.mu.Lock()
			if pop.record != nil {
				m := s.nilable[e.name]
				if m == nil {
					m = map[string]reflect.Kind{}
					s.nilable[e.name] = m
				}
				for k, v := range pop.record {
					m[k] = v
				}
			}
			for k, v := range pop.implSeen {
				s.impls[k] += v
			}
			s.mu.Unlock()
		}
	}
	s.mu.Lock()
	st := s.stats[e.name]
	if st == nil {
		st = &typeStats{}
		s.stats[e.name] = st
	}
	if spec.Kind == "variant" {
		st.Variants++
	} else {
		st.Cases++
	}
	st.Copies += copies
	st.TotalLocs += totLocs
	st.Mutations += muts
	if maxLocs > st.MaxLocs {
		st.MaxLocs = maxLocs
	}
	s.mu.Unlock()
}

// canary: the oracles must fire on copies that are known to be wrong (made by this harness,
// not by the library): the original itself, and a shallow copy. A blind oracle is a harness error.
func (s *state) canary() {
	c := s.c
	withIndirection, shallowDetected, identityDetected, sized := 0, 0, 0, 0
	for _, e := range s.reg.entries {
		if e.rt.Size() == 0 {
			continue
		}
		sized++
		spec := caseSpec{Root: e.name, Kind: "full", Index: e.index}
		// identity
		orig, _ := s.build(e, spec, "canary", nil, true)
		j := s.judge(e.name, orig, orig)
		cls := map[string]bool{}
		for _, f := range j.findings {
			cls[f.class] = true
		}
		if cls["shared-pointer"] && cls["mutation-visible"] {
			identityDetected++
		} else {
			c.Fatal("canary: %s returned as its own copy is not detected (findings %v)", e.name, cls)
		}
		// shallow copy
		if !typeHasPointers(e.rt) {
			continue
		}
		withIndirection++
		orig, _ = s.build(e, spec, "canary", nil, true)
		sh := reflect.New(e.rt)
		sh.Elem().Set(orig.Elem())
		j = s.judge(e.name, orig, sh)
		cls = map[string]bool{}
		for _, f := range j.findings {
			cls[f.class] = true
		}
		structural := cls["shared-pointer"] || cls["shared-backing-array"] || cls["shared-map"]
		if structural && cls["mutation-visible"] && cls["reverse-mutation-visible"] && !cls["not-equal"] {
			shallowDetected++
		} else {
			c.Fatal("canary: shallow copy of %s is not detected by oracles 2 and 3 (findings %v)", e.name, cls)
		}
	}
	c.Set("canary", map[string]any{
		"what":                             "oracles applied to copies made by the harness that are wrong by construction",
		"types_with_nonzero_size":          sized,
		"identity_copy_detected":           identityDetected,
		"types_with_indirection":           withIndirection,
		"shallow_copy_detected_by_2_and_3": shallowDetected,
		"shallow_copy_judged_equal_by_1":   withIndirection,
		"zero_size_types_nothing_to_share": len(s.reg.entries) - sized,
	})
}

func run(c *mon.Ctx) {
	reg := buildRegistry()
	s := &state{c: c, reg: reg, w: &walker{reg: reg}, stats: map[string]*typeStats{},
		nilable: map[string]map[string]reflect.Kind{}, impls: map[string]int{}}

	c.Rule = "case = (type with a deep-copy operation, copy operation, populated instance). Instances are built by a reflective " +
		"populator from PRNG(seed, type, kind, index): every field non-zero and distinct (unexported ones via unsafe), nested pointers " +
		"non-nil, slices 1-3 elements recursively (some with spare capacity), maps 1-3 entries, interface fields filled with every " +
		"registered implementation in rotation (message.Message: all message kinds; datatype.DataType: all 7 kinds nested to depth 3). " +
		"Plus per type: zero value, nil receiver, and for every nil-able type path seen (pointer, slice, map, interface; also slice " +
		"elements and map values) a variant with that location nil and (slices, maps) empty-non-nil. Distinct = (type, operation, kind, " +
		"forced path, shape: chosen lengths and implementations); zero-size types (nothing to share) are not counted as non-trivial."
	c.Assume("Go's garbage collector does not move heap objects: addresses taken with reflect stay comparable while both graphs are alive")
	c.Assume("string data is immutable and not counted as shared mutable memory; zero-size allocations (all at runtime.zerobase) are ignored")
	c.Assume("nil and empty-non-nil slices/maps are DIFFERENT values for this library (NULL vs empty [bytes]/cells/payload values on the wire): a nil-vs-empty " +
		"difference between original and copy at any depth is a violation (<type>/<path>/nil-vs-empty); every slice/map position seen (incl. RowsResult.Data[][] cells, " +
		"map values, Value.Contents behind []*Value) is exercised both nil and empty-non-nil by the variants")
	c.Assume("two backing arrays that overlap only beyond len of BOTH slices (spare capacity) are counted (shared_capacity_tail_only), not judged: not observable through either value")
	c.Assume("the 20 package-level *datatype.PrimitiveType singletons (datatype.Int ...) are placed in 1/4 of the PrimitiveType positions of originals but are never " +
		"mutated by the check (global state); a copy that reaches the SAME singleton as its original is counted (shared_primitive_singletons), not judged. " +
		"On this tree PrimitiveType.DeepCopyDataType returns a fresh allocation, so the counter is expected to be 0. A freshly allocated (non-singleton) " +
		"*PrimitiveType shared between original and copy IS judged: its field is writable through the exported (*PrimitiveType).DeepCopyInto")
	c.Assume("oracle 3 mutates in place only (never replaces a pointer or slice header, never appends): append within spare capacity is not observable through the other value's len")
	c.Assume("DeepCopyInto is also called with a pre-populated (dirty) target: the result must still equal the original")

	// registry vs source
	scan := scanSource(mon.RepoDir())
	for _, e := range scan.Errors {
		c.Inconclusive("source scan: " + e)
	}
	missing := reg.missingFrom(scan)
	for _, m := range missing {
		c.Inconclusive("registry incomplete: " + m)
	}
	nMethods := 0
	for _, ms := range scan.Methods {
		nMethods += len(ms)
	}
	nOps := 0
	for _, e := range reg.entries {
		seen := map[string]bool{}
		for _, o := range e.ops {
			if !seen[o.name] {
				seen[o.name] = true
				nOps++
			}
		}
	}
	if len(scan.Methods) == 0 {
		c.Fatal("source scan of %s found no DeepCopy* method", mon.RepoDir())
	}
	c.Set("registry", map[string]any{
		"registry_types": len(reg.entries), "registry_methods": nOps,
		"source_scan_dir": mon.RepoDir(), "source_files_parsed": scan.Files,
		"source_receiver_types": len(scan.Methods), "source_methods": nMethods,
		"source_interfaces_with_deepcopy": scan.Interfaces,
		"in_source_not_in_registry":       missing,
		"message_implementations":         len(reg.msgs), "datatype_implementations": len(reg.dts),
	})

	if c.Replay != "" {
		var d struct {
			Case caseSpec `json:"case"`
			Seed *int64   `json:"seed"`
		}
		if err := c.ReplayDetail(&d); err != nil {
			c.Fatal("replay: %v", err)
		}
		if d.Seed != nil {
			c.Seed = *d.Seed // the case is a function of (seed, type, kind, index)
		}
		e := reg.byName[d.Case.Root]
		if e == nil {
			c.Fatal("replay: unknown type %q", d.Case.Root)
		}
		s.runCase(e, d.Case)
		return
	}

	s.canary()

	// phase 1: nil receiver, zero value, N fully populated instances per type
	n := c.Pick(200, 5000)
	var cases []caseSpec
	for _, e := range reg.entries {
		cases = append(cases, caseSpec{Root: e.name, Kind: "nil-receiver"}, caseSpec{Root: e.name, Kind: "zero"})
	}
	for i := 0; i < n; i++ { // interleave types so that the load is balanced
		for _, e := range reg.entries {
			cases = append(cases, caseSpec{Root: e.name, Kind: "full", Index: i})
		}
	}
	mon.Parallel(len(cases), func(i int) { s.runCase(reg.byName[cases[i].Root], cases[i]) })

	// phase 2: variants — every nil-able type path seen in phase 1, nil and empty
	perPath := c.Pick(2, 6)
	maxPaths := c.Pick(400, 1<<30)
	var vcases []caseSpec
	totalPaths, runPaths := 0, 0
	for _, e := range reg.entries {
		m := s.nilable[e.name]
		paths := make([]string, 0, len(m))
		for p := range m {
			paths = append(paths, p)
		}
		sort.Strings(paths)
		totalPaths += len(paths)
		st := s.stats[e.name]
		st.NilablePaths = len(paths)
		if len(paths) > maxPaths {
			// deterministic thinning: shortest paths first (the type's own fields), then evenly spaced
			sort.SliceStable(paths, func(i, j int) bool { return strings.Count(paths[i], "(") < strings.Count(paths[j], "(") })
			keep := paths[:maxPaths/2]
			rest := paths[maxPaths/2:]
			step := float64(len(rest)) / float64(maxPaths-maxPaths/2)
			off := float64(uint64(c.Seed)%7) / 7
			for k := 0; k < maxPaths-maxPaths/2; k++ {
				keep = append(keep, rest[int((float64(k)+off)*step)%len(rest)])
			}
			paths = keep
		}
		st.VariantPaths = len(paths)
		for _, p := range paths {
			if !strings.Contains(p, "(") {
				k := "nil"
				if kk := m[p]; kk == reflect.Slice || kk == reflect.Map {
					k = "nil+empty"
				}
				st.OwnPaths = append(st.OwnPaths, p+":"+k)
			}
		}
		runPaths += len(paths)
		for _, p := range paths {
			modes := []int{modeNil}
			if k := m[p]; k == reflect.Slice || k == reflect.Map {
				modes = append(modes, modeEmpty)
			}
			for _, md := range modes {
				for k := 0; k < perPath; k++ {
					vcases = append(vcases, caseSpec{Root: e.name, Kind: "variant", Index: k, Force: p, Mode: md})
				}
			}
		}
	}
	mon.Parallel(len(vcases), func(i int) { s.runCase(reg.byName[vcases[i].Root], vcases[i]) })
	c.Count("variant_type_paths_seen", int64(totalPaths))
	c.Count("variant_type_paths_run", int64(runPaths))
	c.Count("cases_full", int64(n*len(reg.entries)))
	c.Count("cases_variant", int64(len(vcases)))
	if runPaths < totalPaths {
		c.Note("quick tier ran %d of %d nil-able type paths as nil/empty variants (per-type cap %d; thorough runs all)", runPaths, totalPaths, maxPaths)
	}

	// every implementation must have been placed behind its interface at least once
	implCount := map[string]map[string]int{}
	for k, v := range s.impls {
		parts := strings.SplitN(k, "<-", 2)
		if implCount[parts[0]] == nil {
			implCount[parts[0]] = map[string]int{}
		}
		implCount[parts[0]][parts[1]] = v
	}
	for _, e := range reg.msgs {
		if implCount["Message"][e.name] == 0 {
			c.Inconclusive("implementation never placed behind message.Message: " + e.name)
		}
	}
	for _, e := range reg.dts {
		if implCount["DataType"][e.name] == 0 {
			c.Inconclusive("implementation never placed behind datatype.DataType: " + e.name)
		}
	}
	c.Set("interface_fills", implCount)
	c.Set("per_type", s.stats)
}
