package main

// Reflective populator: fills EVERY field of a value (exported or not) with non-zero, distinct
// content derived from a PRNG. Nested pointers are non-nil, slices get 1-3 elements (recursively),
// maps 1-3 entries, interface fields are filled with the registered implementations in turn.
// A "force" (type path, mode) makes the nil-able location(s) at that type path nil or empty.

import (
	"fmt"
	"reflect"
	"strconv"
	"strings"
	"sync"
	"unsafe"

	"verif/internal/mon"
)

// pathT carries the position of a value inside the object graph of a case.
//
//	full : concrete path                  Children[1].Values[0].Contents
//	norm : type path (indices erased)     Children[].Values[].Contents
//	owner: innermost registered struct type that contains the position    message.Value
//	rel  : type path relative to owner    Contents
type pathT struct {
	full, norm, owner, rel string
}

func dot(s, name string) string {
	if s == "" {
		return name
	}
	return s + "." + name
}

func (p pathT) field(name string) pathT {
	return pathT{dot(p.full, name), dot(p.norm, name), p.owner, dot(p.rel, name)}
}
func (p pathT) index(i int) pathT {
	return pathT{p.full + "[" + strconv.Itoa(i) + "]", p.norm + "[]", p.owner, p.rel + "[]"}
}
func (p pathT) mapval(key string) pathT {
	return pathT{p.full + "{" + key + "}", p.norm + "{}", p.owner, p.rel + "{}"}
}
func (p pathT) iface(impl string) pathT {
	return pathT{p.full + "(" + impl + ")", p.norm + "(" + impl + ")", p.owner, p.rel + "(" + impl + ")"}
}

// enter is called when a struct value of type t is entered.
func (p pathT) enter(reg *registry, t reflect.Type) pathT {
	if e := reg.byType[t]; e != nil {
		return pathT{p.full, p.norm, e.name, ""}
	}
	return p
}

func (p pathT) key(class string) string {
	rel := p.rel
	if rel == "" {
		rel = "<self>"
	}
	return p.owner + "/" + rel + "/" + class
}

// settable returns a settable view of an addressable value (unexported fields included).
func settable(v reflect.Value) reflect.Value {
	if v.CanSet() {
		return v
	}
	if v.CanAddr() {
		return reflect.NewAt(v.Type(), unsafe.Pointer(v.UnsafeAddr())).Elem()
	}
	return reflect.Value{}
}

var hasPtrCache sync.Map

// typeHasPointers: can a value of type t reach memory outside itself (strings excluded)?
func typeHasPointers(t reflect.Type) bool {
	if v, ok := hasPtrCache.Load(t); ok {
		return v.(bool)
	}
	var r bool
	switch t.Kind() {
	case reflect.Ptr, reflect.Slice, reflect.Map, reflect.Interface, reflect.Chan, reflect.Func, reflect.UnsafePointer:
		r = true
	case reflect.Array:
		r = typeHasPointers(t.Elem())
	case reflect.Struct:
		for i := 0; i < t.NumField(); i++ {
			if typeHasPointers(t.Field(i).Type) {
				r = true
				break
			}
		}
	}
	hasPtrCache.Store(t, r)
	return r
}

const (
	modeNone  = 0
	modeNil   = 1
	modeEmpty = 2
)

func modeName(m int) string { return [...]string{"full", "nil", "empty"}[m] }

type populator struct {
	r   *mon.Rand
	reg *registry
	idx int // case index: start of the interface rotation

	force  string // type path to force
	mode   int
	forced int

	noSingletons bool
	record       map[string]reflect.Kind // nil-able type paths seen (nil = do not record)
	ifaceFills   map[reflect.Type]int    // number of top-level fills per interface type
	implSeen     map[string]int          // implementation chosen -> count
	dtDepth      int
	seq          int
	shape        strings.Builder
	problems     []string
}

func (p *populator) isForced(pt pathT) bool {
	if p.mode == modeNone || pt.norm != p.force {
		return false
	}
	if p.forced == 0 || p.r.Bool() {
		p.forced++
		return true
	}
	return false
}

func (p *populator) note(pt pathT, k reflect.Kind) {
	if p.record != nil {
		p.record[pt.norm] = k
	}
}

func (p *populator) fill(v reflect.Value, pt pathT) {
	v = settable(v)
	if !v.IsValid() {
		p.problems = append(p.problems, "populator: value not addressable at "+pt.key("x"))
		return
	}
	t := v.Type()
	switch v.Kind() {
	case reflect.Bool:
		v.SetBool(p.r.Intn(4) != 0)
	case reflect.Int, reflect.Int8, reflect.Int16, reflect.Int32, reflect.Int64:
		x := int64(p.r.Uint64()) >> (64 - uint(t.Bits()))
		if x == 0 {
			x = 1
		}
		v.SetInt(x)
	case reflect.Uint, reflect.Uint8, reflect.Uint16, reflect.Uint32, reflect.Uint64, reflect.Uintptr:
		x := p.r.Uint64() >> (64 - uint(t.Bits()))
		if x == 0 {
			x = 1
		}
		v.SetUint(x)
	case reflect.Float32, reflect.Float64:
		v.SetFloat(float64(p.r.Intn(1<<20)+1) / 8)
	case reflect.String:
		p.seq++
		v.SetString(fmt.Sprintf("s%d-%x", p.seq, p.r.Uint64()&0xffffff))
	case reflect.Array:
		if t.Elem().Kind() == reflect.Uint8 && p.r.Intn(6) == 0 {
			// the all-zero value of a byte array (the "nil UUID" that servers send when there is no tracing
			// id) is as legitimate as any other and is the one value an implementation may be tempted to share
			p.shape.WriteString("A0")
			return
		}
		for i := 0; i < v.Len(); i++ {
			p.fill(v.Index(i), pt.index(i))
		}
	case reflect.Struct:
		pt = pt.enter(p.reg, t)
		for i := 0; i < t.NumField(); i++ {
			p.fill(v.Field(i), pt.field(t.Field(i).Name))
		}
	case reflect.Ptr:
		p.note(pt, reflect.Ptr)
		if p.isForced(pt) {
			v.Set(reflect.Zero(t))
			p.shape.WriteString("P0")
			return
		}
		nv := reflect.New(t.Elem())
		p.fill(nv.Elem(), pt)
		v.Set(nv)
	case reflect.Slice:
		p.note(pt, reflect.Slice)
		if p.isForced(pt) {
			if p.mode == modeNil {
				v.Set(reflect.Zero(t))
				p.shape.WriteString("S-")
			} else {
				c := 0
				if p.r.Bool() {
					c = 4 // empty, with spare capacity
				}
				v.Set(reflect.MakeSlice(t, 0, c))
				p.shape.WriteString("S0")
			}
			return
		}
		n := 1 + p.r.Intn(3)
		if t.Elem().Kind() == reflect.Uint8 {
			n = 1 + p.r.Intn(12)
		}
		extra := 0
		if p.r.Intn(3) == 0 {
			extra = 1 + p.r.Intn(4)
		}
		s := reflect.MakeSlice(t, n, n+extra)
		fmt.Fprintf(&p.shape, "S%d", n)
		for i := 0; i < n; i++ {
			if k := t.Elem().Kind(); i > 0 && (k == reflect.Interface || k == reflect.Ptr) && !s.Index(i-1).IsNil() && p.r.Intn(4) == 0 {
				// what real programs do: one and the same instance referenced by neighbouring elements
				// (l := NewList(Int); fields {l, l}); the copy must not point back into the original for it
				s.Index(i).Set(s.Index(i - 1))
				p.shape.WriteString("=")
				continue
			}
			p.fill(s.Index(i), pt.index(i))
		}
		v.Set(s)
	case reflect.Map:
		p.note(pt, reflect.Map)
		if p.isForced(pt) {
			if p.mode == modeNil {
				v.Set(reflect.Zero(t))
				p.shape.WriteString("M-")
			} else {
				v.Set(reflect.MakeMapWithSize(t, 0))
				p.shape.WriteString("M0")
			}
			return
		}
		n := 1 + p.r.Intn(3)
		m := reflect.MakeMapWithSize(t, n)
		fmt.Fprintf(&p.shape, "M%d", n)
		for i := 0; i < n; i++ {
			k := reflect.New(t.Key()).Elem()
			p.fill(k, pt) // distinct by construction (sequence number / random)
			val := reflect.New(t.Elem()).Elem()
			p.fill(val, pt.mapval(fmt.Sprint(k)))
			m.SetMapIndex(k, val)
		}
		v.Set(m)
	case reflect.Interface:
		p.note(pt, reflect.Interface)
		if p.isForced(pt) {
			v.Set(reflect.Zero(t))
			p.shape.WriteString("I0")
			return
		}
		p.fillIface(v, pt)
	default:
		p.problems = append(p.problems, fmt.Sprintf("populator: unsupported kind %s at %s", v.Kind(), pt.key("x")))
	}
}

func (p *populator) fillIface(v reflect.Value, pt pathT) {
	t := v.Type()
	var impls []*entry
	isDT := false
	switch t {
	case messageIface:
		impls = p.reg.msgs
	case datatypeIface:
		impls = p.reg.dts
		isDT = true
		if p.dtDepth >= 2 { // third nesting level: leaves only
			impls = p.reg.dtLeafs
		}
	default:
		p.problems = append(p.problems, fmt.Sprintf("populator: unsupported interface type %s at %s", t, pt.key("x")))
		return
	}
	var impl *entry
	if p.mode != modeNone && strings.HasPrefix(p.force, pt.norm+"(") {
		rest := p.force[len(pt.norm)+1:]
		if j := strings.IndexByte(rest, ')'); j > 0 {
			impl = p.reg.byName[rest[:j]]
		}
	}
	if impl == nil {
		if p.dtDepth == 0 {
			if p.ifaceFills == nil {
				p.ifaceFills = map[reflect.Type]int{}
			}
			k := p.ifaceFills[t]
			p.ifaceFills[t] = k + 1
			impl = impls[(p.idx+k)%len(impls)] // rotation: every implementation in turn
		} else {
			impl = impls[p.r.Intn(len(impls))]
		}
	}
	if p.implSeen != nil {
		p.implSeen[t.Name()+"<-"+impl.name]++
	}
	p.shape.WriteString("I(" + impl.name + ")")
	if impl.rt == reflect.TypeOf(primitiveSingletons[0]).Elem() && !p.noSingletons && p.r.Intn(4) == 0 {
		// what real programs do: the package-level singleton
		v.Set(reflect.ValueOf(primitiveSingletons[p.r.Intn(len(primitiveSingletons))]))
		p.shape.WriteString("G")
		return
	}
	nv := reflect.New(impl.rt)
	if isDT {
		p.dtDepth++
	}
	p.fill(nv.Elem(), pt.iface(impl.name))
	if isDT {
		p.dtDepth--
	}
	v.Set(nv)
}
