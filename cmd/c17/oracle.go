package main

// The three oracles: reflective equality, disjointness of reachable mutable memory,
// mutate-and-observe. All walk the real object graphs with reflect (unexported fields included).

import (
	"encoding/hex"
	"fmt"
	"reflect"
	"sort"
	"strings"
	"unsafe"
)

const maxDepth = 64

// ---------------------------------------------------------------------------------------------
// oracle 1: equality

type eqResult struct {
	diffs        []eqDiff // differences (first few)
	nilEmptyDiff int      // of which nil-vs-empty slice/map differences (judged: class nil-vs-empty)
}

type eqDiff struct {
	pt    pathT
	what  string
	class string // "" = not-equal
}

type walker struct {
	reg *registry
}

func (w *walker) equal(a, b reflect.Value, pt pathT, res *eqResult, depth int) {
	if len(res.diffs) >= 4 || depth > maxDepth {
		return
	}
	if a.IsValid() != b.IsValid() {
		res.diffs = append(res.diffs, eqDiff{pt: pt, what: "one side invalid"})
		return
	}
	if !a.IsValid() {
		return
	}
	if a.Type() != b.Type() {
		res.diffs = append(res.diffs, eqDiff{pt: pt, what: fmt.Sprintf("type %s vs %s", a.Type(), b.Type())})
		return
	}
	switch a.Kind() {
	case reflect.Bool:
		if a.Bool() != b.Bool() {
			res.diffs = append(res.diffs, eqDiff{pt: pt, what: fmt.Sprintf("%v vs %v", a.Bool(), b.Bool())})
		}
	case reflect.Int, reflect.Int8, reflect.Int16, reflect.Int32, reflect.Int64:
		if a.Int() != b.Int() {
			res.diffs = append(res.diffs, eqDiff{pt: pt, what: fmt.Sprintf("%d vs %d", a.Int(), b.Int())})
		}
	case reflect.Uint, reflect.Uint8, reflect.Uint16, reflect.Uint32, reflect.Uint64, reflect.Uintptr:
		if a.Uint() != b.Uint() {
			res.diffs = append(res.diffs, eqDiff{pt: pt, what: fmt.Sprintf("%d vs %d", a.Uint(), b.Uint())})
		}
	case reflect.Float32, reflect.Float64:
		if a.Float() != b.Float() {
			res.diffs = append(res.diffs, eqDiff{pt: pt, what: fmt.Sprintf("%v vs %v", a.Float(), b.Float())})
		}
	case reflect.String:
		if a.String() != b.String() {
			res.diffs = append(res.diffs, eqDiff{pt: pt, what: fmt.Sprintf("%q vs %q", a.String(), b.String())})
		}
	case reflect.Ptr:
		if a.IsNil() != b.IsNil() {
			res.diffs = append(res.diffs, eqDiff{pt: pt, what: fmt.Sprintf("nil=%v vs nil=%v", a.IsNil(), b.IsNil())})
			return
		}
		if !a.IsNil() {
			w.equal(a.Elem(), b.Elem(), pt, res, depth+1)
		}
	case reflect.Interface:
		if a.IsNil() != b.IsNil() {
			res.diffs = append(res.diffs, eqDiff{pt: pt, what: fmt.Sprintf("nil=%v vs nil=%v", a.IsNil(), b.IsNil())})
			return
		}
		if !a.IsNil() {
			ae, be := a.Elem(), b.Elem()
			if ae.Type() != be.Type() {
				res.diffs = append(res.diffs, eqDiff{pt: pt, what: fmt.Sprintf("dynamic type %s vs %s", ae.Type(), be.Type())})
				return
			}
			w.equal(ae, be, pt.iface(dynName(ae.Type())), res, depth+1)
		}
	case reflect.Slice:
		if a.Len() != b.Len() {
			res.diffs = append(res.diffs, eqDiff{pt: pt, what: fmt.Sprintf("len %d vs %d", a.Len(), b.Len())})
			return
		}
		if a.IsNil() != b.IsNil() {
			// nil and empty are different values for this library (NULL vs empty [bytes] on the wire)
			res.nilEmptyDiff++
			res.diffs = append(res.diffs, eqDiff{pt: pt, what: fmt.Sprintf("slice nil=%v vs nil=%v (both len 0)", a.IsNil(), b.IsNil()), class: "nil-vs-empty"})
			return
		}
		for i := 0; i < a.Len(); i++ {
			w.equal(a.Index(i), b.Index(i), pt.index(i), res, depth+1)
		}
	case reflect.Array:
		for i := 0; i < a.Len(); i++ {
			w.equal(a.Index(i), b.Index(i), pt.index(i), res, depth+1)
		}
	case reflect.Map:
		if a.Len() != b.Len() {
			res.diffs = append(res.diffs, eqDiff{pt: pt, what: fmt.Sprintf("map len %d vs %d", a.Len(), b.Len())})
			return
		}
		if a.IsNil() != b.IsNil() {
			res.nilEmptyDiff++
			res.diffs = append(res.diffs, eqDiff{pt: pt, what: fmt.Sprintf("map nil=%v vs nil=%v (both len 0)", a.IsNil(), b.IsNil()), class: "nil-vs-empty"})
			return
		}
		for _, k := range sortedKeys(a) {
			bv := b.MapIndex(k)
			if !bv.IsValid() {
				res.diffs = append(res.diffs, eqDiff{pt: pt.mapval(fmt.Sprint(k)), what: "key missing in copy"})
				continue
			}
			w.equal(a.MapIndex(k), bv, pt.mapval(fmt.Sprint(k)), res, depth+1)
		}
	case reflect.Struct:
		pt = pt.enter(w.reg, a.Type())
		for i := 0; i < a.NumField(); i++ {
			w.equal(a.Field(i), b.Field(i), pt.field(a.Type().Field(i).Name), res, depth+1)
		}
	default:
		res.diffs = append(res.diffs, eqDiff{pt: pt, what: "unsupported kind " + a.Kind().String()})
	}
}

func dynName(t reflect.Type) string {
	for t.Kind() == reflect.Ptr {
		t = t.Elem()
	}
	if t.PkgPath() != "" {
		return relName(t)
	}
	return t.String()
}

func sortedKeys(m reflect.Value) []reflect.Value {
	ks := m.MapKeys()
	sort.Slice(ks, func(i, j int) bool { return fmt.Sprint(ks[i]) < fmt.Sprint(ks[j]) })
	return ks
}

// ---------------------------------------------------------------------------------------------
// oracle 2: disjointness of reachable mutable memory

type loc struct {
	lo, hi    uintptr // [lo,hi): pointer target / whole backing array (cap) / map header (1 byte)
	vhi       uintptr // end of the visible part: lo+len*elemsize for slices, hi otherwise
	kind      byte    // 'p' pointer target, 's' slice backing array, 'm' map
	singleton bool    // package-level *PrimitiveType singleton
	pt        pathT
}

func (w *walker) collect(v reflect.Value, pt pathT, out *[]loc, depth int) {
	if depth > maxDepth || !v.IsValid() {
		return
	}
	switch v.Kind() {
	case reflect.Ptr:
		if v.IsNil() {
			return
		}
		sz := v.Type().Elem().Size()
		if sz > 0 { // zero-size allocations all live at runtime.zerobase: nothing to share
			a := v.Pointer()
			*out = append(*out, loc{lo: a, hi: a + sz, vhi: a + sz, kind: 'p', singleton: singletonAddr[a], pt: pt})
		}
		w.collect(v.Elem(), pt, out, depth+1)
	case reflect.Interface:
		if v.IsNil() {
			return
		}
		e := v.Elem()
		if e.Kind() == reflect.Ptr && !e.IsNil() {
			// the pointer stored in the interface field belongs to the field (stable key: no dynamic type)
			if sz := e.Type().Elem().Size(); sz > 0 {
				a := e.Pointer()
				*out = append(*out, loc{lo: a, hi: a + sz, vhi: a + sz, kind: 'p', singleton: singletonAddr[a], pt: pt})
			}
			w.collect(e.Elem(), pt.iface(dynName(e.Type())), out, depth+1)
			return
		}
		w.collect(e, pt.iface(dynName(e.Type())), out, depth+1)
	case reflect.Slice:
		if v.IsNil() {
			return
		}
		es := v.Type().Elem().Size()
		if v.Cap() > 0 && es > 0 {
			a := v.Pointer()
			*out = append(*out, loc{lo: a, hi: a + uintptr(v.Cap())*es, vhi: a + uintptr(v.Len())*es, kind: 's', pt: pt})
		}
		if typeHasPointers(v.Type().Elem()) {
			for i := 0; i < v.Len(); i++ {
				w.collect(v.Index(i), pt.index(i), out, depth+1)
			}
		}
	case reflect.Array:
		if typeHasPointers(v.Type().Elem()) {
			for i := 0; i < v.Len(); i++ {
				w.collect(v.Index(i), pt.index(i), out, depth+1)
			}
		}
	case reflect.Map:
		if v.IsNil() {
			return
		}
		a := v.Pointer()
		*out = append(*out, loc{lo: a, hi: a + 1, vhi: a + 1, kind: 'm', pt: pt})
		if typeHasPointers(v.Type().Elem()) || typeHasPointers(v.Type().Key()) {
			it := v.MapRange()
			for it.Next() {
				ks := fmt.Sprint(it.Key())
				if typeHasPointers(v.Type().Key()) {
					w.collect(it.Key(), pt.mapval(ks+"#key"), out, depth+1)
				}
				w.collect(it.Value(), pt.mapval(ks), out, depth+1)
			}
		}
	case reflect.Struct:
		if !typeHasPointers(v.Type()) {
			return
		}
		pt = pt.enter(w.reg, v.Type())
		for i := 0; i < v.NumField(); i++ {
			w.collect(v.Field(i), pt.field(v.Type().Field(i).Name), out, depth+1)
		}
	}
}

type overlap struct {
	a, b  loc // a reachable from the original, b from the copy
	class string
}

type overlapStats struct {
	tailOnly   int // backing arrays that overlap only beyond len of both (not observable): counted
	singletons int // same package-level PrimitiveType singleton reachable from both: counted
}

// overlaps returns the outermost overlapping (original, copy) locations.
func overlaps(A, B []loc, st *overlapStats) []overlap {
	var all []overlap
	for _, a := range A {
		for _, b := range B {
			if a.lo >= b.hi || b.lo >= a.hi {
				continue
			}
			if a.singleton || b.singleton {
				st.singletons++
				continue
			}
			cls := "shared-memory"
			switch {
			case a.kind == 'm' && b.kind == 'm':
				cls = "shared-map"
			case a.kind == 'm' || b.kind == 'm':
				continue // a map header address inside another allocation: not the same object
			case a.kind == 'p' && b.kind == 'p':
				cls = "shared-pointer"
			case a.kind == 's' && b.kind == 's':
				cls = "shared-backing-array"
			}
			if a.kind == 's' || b.kind == 's' {
				// a write through one side is observable through the other only if it lands in the
				// other side's visible part [lo, lo+len): what the copy can write = its whole cap range.
				vis := (a.lo < b.hi && b.lo < a.vhi) || (b.lo < a.hi && a.lo < b.vhi)
				if !vis {
					st.tailOnly++
					continue
				}
			}
			all = append(all, overlap{a, b, cls})
		}
	}
	// keep the outermost ones (a shared *BatchChild implies that everything below it is shared)
	var out []overlap
	for i, o := range all {
		nested := false
		for j, p := range all {
			if i != j && len(p.b.pt.full) < len(o.b.pt.full) && strings.HasPrefix(o.b.pt.full, p.b.pt.full) &&
				strings.ContainsRune(".[({", rune(o.b.pt.full[len(p.b.pt.full)])) {
				nested = true
				break
			}
			if i != j && p.b.pt.full == "" && o.b.pt.full != "" {
				nested = true
				break
			}
		}
		if !nested {
			out = append(out, o)
		}
	}
	return out
}

// ---------------------------------------------------------------------------------------------
// oracle 3: canonical dump + mutation

type dline struct {
	pt  pathT
	val string
}

func (w *walker) dump(v reflect.Value, pt pathT, out *[]dline, depth int) {
	if depth > maxDepth {
		*out = append(*out, dline{pt, "<depth>"})
		return
	}
	switch v.Kind() {
	case reflect.Bool:
		*out = append(*out, dline{pt, fmt.Sprint(v.Bool())})
	case reflect.Int, reflect.Int8, reflect.Int16, reflect.Int32, reflect.Int64:
		*out = append(*out, dline{pt, fmt.Sprint(v.Int())})
	case reflect.Uint, reflect.Uint8, reflect.Uint16, reflect.Uint32, reflect.Uint64, reflect.Uintptr:
		*out = append(*out, dline{pt, fmt.Sprint(v.Uint())})
	case reflect.Float32, reflect.Float64:
		*out = append(*out, dline{pt, fmt.Sprint(v.Float())})
	case reflect.String:
		*out = append(*out, dline{pt, fmt.Sprintf("%q", v.String())})
	case reflect.Ptr:
		if v.IsNil() {
			*out = append(*out, dline{pt, "nil-ptr"})
			return
		}
		*out = append(*out, dline{pt, "&"})
		w.dump(v.Elem(), pt, out, depth+1)
	case reflect.Interface:
		if v.IsNil() {
			*out = append(*out, dline{pt, "nil-iface"})
			return
		}
		e := v.Elem()
		*out = append(*out, dline{pt, "(" + e.Type().String() + ")"})
		w.dump(e, pt.iface(dynName(e.Type())), out, depth+1)
	case reflect.Slice:
		if v.IsNil() {
			*out = append(*out, dline{pt, "nil-slice"})
			return
		}
		if v.Type().Elem().Kind() == reflect.Uint8 {
			*out = append(*out, dline{pt, fmt.Sprintf("bytes[%d] %s", v.Len(), hex.EncodeToString(rawBytes(v)))})
			return
		}
		*out = append(*out, dline{pt, fmt.Sprintf("len=%d", v.Len())})
		for i := 0; i < v.Len(); i++ {
			w.dump(v.Index(i), pt.index(i), out, depth+1)
		}
	case reflect.Array:
		if v.Type().Elem().Kind() == reflect.Uint8 {
			b := make([]byte, v.Len())
			for i := range b {
				b[i] = byte(v.Index(i).Uint())
			}
			*out = append(*out, dline{pt, "array " + hex.EncodeToString(b)})
			return
		}
		for i := 0; i < v.Len(); i++ {
			w.dump(v.Index(i), pt.index(i), out, depth+1)
		}
	case reflect.Map:
		if v.IsNil() {
			*out = append(*out, dline{pt, "nil-map"})
			return
		}
		*out = append(*out, dline{pt, fmt.Sprintf("map len=%d", v.Len())})
		for _, k := range sortedKeys(v) {
			w.dump(v.MapIndex(k), pt.mapval(fmt.Sprint(k)), out, depth+1)
		}
	case reflect.Struct:
		pt = pt.enter(w.reg, v.Type())
		*out = append(*out, dline{pt, "struct " + v.Type().String()})
		for i := 0; i < v.NumField(); i++ {
			w.dump(v.Field(i), pt.field(v.Type().Field(i).Name), out, depth+1)
		}
	default:
		*out = append(*out, dline{pt, "<" + v.Kind().String() + ">"})
	}
}

// rawBytes returns the visible bytes of a []byte-kinded slice value without going through
// Interface() (works for unexported fields).
func rawBytes(v reflect.Value) []byte {
	if v.Len() == 0 {
		return nil
	}
	return unsafe.Slice((*byte)(v.UnsafePointer()), v.Len())
}

// firstDiff returns the index of the first differing line, -1 if the dumps are identical.
func firstDiff(a, b []dline) int {
	n := len(a)
	if len(b) < n {
		n = len(b)
	}
	for i := 0; i < n; i++ {
		if a[i].val != b[i].val || a[i].pt.full != b[i].pt.full {
			return i
		}
	}
	if len(a) != len(b) {
		return n
	}
	return -1
}

type mutator struct {
	w         *walker
	tag       string           // makes the fresh values written by this mutator distinct from another mutator's
	n         int              // mutations applied
	skipped   int              // locations that could not be mutated in place (non-addressable)
	singleton int              // singleton targets skipped
	seen      map[uintptr]bool // pointer targets already mutated: an instance that the value references twice
	// is changed once (the scalar mutations are involutions; twice would restore it)
}

// mutate changes every byte / scalar / slice element / map entry / pointer target reachable from v,
// IN PLACE: pointers and slice headers are never replaced (that would sever the very sharing the
// oracle is looking for); map headers get an overwrite, a delete and an add.
func (m *mutator) mutate(v reflect.Value, depth int) {
	if depth > maxDepth || !v.IsValid() {
		return
	}
	switch v.Kind() {
	case reflect.Ptr:
		if v.IsNil() {
			return
		}
		if singletonAddr[v.Pointer()] {
			m.singleton++
			return
		}
		if m.seen == nil {
			m.seen = map[uintptr]bool{}
		}
		if m.seen[v.Pointer()] {
			return
		}
		m.seen[v.Pointer()] = true
		m.mutate(v.Elem(), depth+1)
		return
	case reflect.Interface:
		if v.IsNil() {
			return
		}
		e := v.Elem()
		if e.Kind() == reflect.Ptr || e.Kind() == reflect.Map || e.Kind() == reflect.Slice {
			m.mutate(e, depth+1)
		} else {
			m.skipped++ // a value boxed in an interface cannot be changed in place
		}
		return
	case reflect.Slice:
		if v.IsNil() || v.Len() == 0 {
			return
		}
		if v.Type().Elem().Kind() == reflect.Uint8 {
			b := rawBytes(v)
			for i := range b {
				b[i] ^= 0xFF
			}
			m.n += len(b)
			return
		}
		for i := 0; i < v.Len(); i++ {
			m.mutate(v.Index(i), depth+1)
		}
		return
	case reflect.Map:
		m.mutateMap(v, depth)
		return
	case reflect.Struct:
		for i := 0; i < v.NumField(); i++ {
			m.mutate(v.Field(i), depth+1)
		}
		return
	case reflect.Array:
		for i := 0; i < v.Len(); i++ {
			m.mutate(v.Index(i), depth+1)
		}
		return
	}
	// scalar leaf
	s := settable(v)
	if !s.IsValid() {
		m.skipped++
		return
	}
	m.scalar(s)
}

func (m *mutator) scalar(s reflect.Value) {
	switch s.Kind() {
	case reflect.Bool:
		s.SetBool(!s.Bool())
	case reflect.Int, reflect.Int8, reflect.Int16, reflect.Int32, reflect.Int64:
		s.SetInt(s.Int() ^ 0x55)
	case reflect.Uint, reflect.Uint8, reflect.Uint16, reflect.Uint32, reflect.Uint64, reflect.Uintptr:
		s.SetUint(s.Uint() ^ 0x55)
	case reflect.Float32, reflect.Float64:
		s.SetFloat(s.Float() + 1)
	case reflect.String:
		s.SetString(s.String() + "~m")
	default:
		m.skipped++
		return
	}
	m.n++
}

func (m *mutator) mutateMap(v reflect.Value, depth int) {
	if v.IsNil() {
		return
	}
	keys := sortedKeys(v)
	vt := v.Type().Elem()
	// 1. memory reachable from the values, in place
	if typeHasPointers(vt) {
		for _, k := range keys {
			val := v.MapIndex(k)
			switch val.Kind() {
			case reflect.Ptr, reflect.Slice, reflect.Map, reflect.Interface:
				m.mutate(val, depth+1)
			default:
				m.skipped++
			}
		}
	}
	// 2. the map itself: overwrite one entry, delete one, add one
	s := v
	if !s.CanSet() {
		s = settable(v)
	}
	if !s.IsValid() {
		// a non-addressable map value (e.g. boxed): SetMapIndex still works on exported maps
		s = v
	}
	ok, _ := guard(func() {
		if len(keys) > 0 {
			nv := reflect.New(vt).Elem()
			m.fresh(nv, v.MapIndex(keys[0]))
			s.SetMapIndex(keys[0], nv)
			m.n++
		}
		if len(keys) > 1 {
			s.SetMapIndex(keys[1], reflect.Value{})
			m.n++
		}
		if v.Type().Key().Kind() == reflect.String {
			nk := reflect.New(v.Type().Key()).Elem()
			nk.SetString("~added")
			nv := reflect.New(vt).Elem()
			m.fresh(nv, reflect.Value{})
			s.SetMapIndex(nk, nv)
			m.n++
		}
	})
	if !ok {
		m.skipped++
	}
}

// fresh sets nv (settable, zero) to a value different from old.
func (m *mutator) fresh(nv reflect.Value, old reflect.Value) {
	switch nv.Kind() {
	case reflect.String:
		if old.IsValid() {
			nv.SetString(old.String() + "~o" + m.tag)
		} else {
			nv.SetString("~new-" + m.tag)
		}
	case reflect.Slice:
		s := reflect.MakeSlice(nv.Type(), 1, 1)
		m.fresh(s.Index(0), reflect.Value{})
		nv.Set(s)
	case reflect.Ptr:
		nv.Set(reflect.New(nv.Type().Elem()))
	case reflect.Bool:
		nv.SetBool(!old.IsValid() || !old.Bool())
	case reflect.Int, reflect.Int8, reflect.Int16, reflect.Int32, reflect.Int64:
		if old.IsValid() {
			nv.SetInt(old.Int() ^ 0x55)
		} else {
			nv.SetInt(0x55 + int64(len(m.tag)))
		}
	case reflect.Uint, reflect.Uint8, reflect.Uint16, reflect.Uint32, reflect.Uint64:
		if old.IsValid() {
			nv.SetUint(old.Uint() ^ 0x55)
		} else {
			nv.SetUint(0x55 + uint64(len(m.tag)))
		}
	}
}

func guard(f func()) (ok bool, msg string) {
	defer func() {
		if r := recover(); r != nil {
			ok = false
			msg = fmt.Sprint(r)
		}
	}()
	f()
	return true, ""
}
