// C07 — corrupted v5 segments are rejected, never delivered.
//
// Oracle: a valid segment produced by the library's own EncodeSegment is altered by an error
// pattern inside the checksums' guaranteed detection range and handed (exactly those bytes, no
// trailing data) to the real DecodeSegment. The only accepted outcome is (nil, error); a returned
// segment or a nil error is the violation. Any error is fine (a corrupted length field may turn
// into a short read) — only acceptance is judged.
//
// Bit numbering: position p of a region is bit (p%8) of byte (p/8), LSB first. For the payload +
// CRC-32 region this is the transmission order of the reflected IEEE CRC and the only numbering in
// which "any burst of <= 32 bits" is a guarantee. Bursts contiguous only in MSB-first numbering are
// run as a side experiment: judged only when their LSB-first span is <= 32 (then they are inside
// the guarantee), merely counted otherwise.
//
// Process layout: DecodeSegment allocates its payload buffer on every call (128 KiB for the largest
// class); with 16 goroutines in one heap that costs 200-400 CPU-us per call in this sandbox, in a
// single-P process with its own small heap 50-70. The header and payload sweeps therefore run in
// NumCPU single-P child processes of this same binary (task i of the deterministic task list goes
// to child i mod K); the parent merges their counters and judges completeness.
package main

import (
	"bytes"
	"encoding/hex"
	"fmt"
	"os"
	"os/exec"
	"path/filepath"
	"runtime"
	"strconv"
	"strings"
	"sync"
	"time"

	"verif/internal/mon"
)

func main() {
	for _, a := range os.Args[1:] {
		if a == "worker" {
			runtime.GOMAXPROCS(1)
		}
	}
	mon.Main("C07", run)
}

// detail is the replayable description of one judged case.
type detail struct {
	Class         string `json:"class"`
	Codec         string `json:"codec,omitempty"` // uncompressed | lz4
	PayloadLen    int    `json:"payload_len"`
	ContentKind   string `json:"content_kind,omitempty"` // mixed | random
	ContentSeed   int64  `json:"content_seed"`
	ContentStream uint64 `json:"content_stream"`
	SelfContained bool   `json:"self_contained"`
	SegmentLen    int    `json:"segment_len,omitempty"`
	SegmentHex    string `json:"segment_hex,omitempty"` // whole base segment if <= 512 bytes, else its first 64 bytes
	Truncated     bool   `json:"segment_hex_truncated,omitempty"`
	Region        string `json:"region,omitempty"`  // header | payload
	RegionStart   int    `json:"region_start_byte"` // byte offset of the region inside the segment
	Bits          []int  `json:"bits,omitempty"`    // flipped positions relative to the region start, LSB-first inside each byte
	Numbering     string `json:"bit_numbering,omitempty"`
	Got           string `json:"got,omitempty"`
	// affinity monitor
	Len  int    `json:"len,omitempty"`
	X    string `json:"x,omitempty"`
	Want string `json:"want,omitempty"`
}

// seen collapses repeated violations of one key without building the detail again.
var seen sync.Map

func report(c *mon.Ctx, key string, mk func() detail) {
	if _, dup := seen.LoadOrStore(key, true); dup {
		c.Violation(key, nil)
		return
	}
	d := mk()
	d.Class = key
	c.Violation(key, d)
}

// wstate is a private copy of a base segment and a reusable reader. Workers are single-threaded.
type wstate struct {
	buf []byte
	rd  *bytes.Reader
}

func (b *base) scratch() *wstate {
	if b.st == nil {
		b.st = &wstate{buf: append([]byte(nil), b.seg...), rd: bytes.NewReader(nil)}
	}
	return b.st
}

const (
	resRejected      = iota // (nil, error) from the header stage or from the payload CRC
	resRejectedOther        // (nil, error) of the payload stage other than a CRC mismatch (short read, ...)
	resAccepted             // a segment came back or the error was nil
)

const (
	payloadErrPrefix  = "cannot decode segment payload"
	payloadCrcMessage = "cannot decode segment payload: crc mismatch"
)

// decode runs the real DecodeSegment over exactly the bytes of st.buf.
// payloadStage reports that the header stage let the (possibly corrupted) header through.
func (st *wstate) decode(b *base) (res int, payloadStage bool, got string) {
	st.rd.Reset(st.buf)
	seg, err := b.codec.DecodeSegment(st.rd)
	if seg != nil || err == nil {
		return resAccepted, true, fmt.Sprintf("segment=%v err=%v", seg, err)
	}
	s := err.Error()
	if strings.HasPrefix(s, payloadErrPrefix) {
		if strings.HasPrefix(s, payloadCrcMessage) {
			return resRejected, true, ""
		}
		return resRejectedOther, true, ""
	}
	return resRejected, false, ""
}

func segHex(seg []byte) (string, bool) {
	if len(seg) <= 512 {
		return hex.EncodeToString(seg), false
	}
	return hex.EncodeToString(seg[:64]), true
}

func (b *base) detail(region string, start int, bits []int, got string) detail {
	h, tr := segHex(b.seg)
	return detail{
		Codec: b.Codec, PayloadLen: b.PayloadLen, ContentKind: b.Kind, ContentSeed: b.Seed, ContentStream: b.Stream,
		SelfContained: b.Flag, SegmentLen: len(b.seg), SegmentHex: h, Truncated: tr,
		Region: region, RegionStart: start, Bits: append([]int(nil), bits...), Numbering: "lsb-first", Got: got,
	}
}

// task is one block of the deterministic work list of a phase. It is plain data (no pointers): the
// list has tens of thousands of entries and stays live while the decoder churns through garbage.
type task struct {
	kind  uint8
	codec uint8 // header tasks: index into hdrCodecs
	w     int8  // header tasks: pattern weight
	heavy bool  // long-running: scheduled first
	bi    int32 // base index
	a, d  int32 // header: the two lowest pattern bits; payload: [a,d) offset block, single offset, or chunk number
}

func (t task) name() string {
	return fmt.Sprintf("k%d/c%d/b%d/w%d/%d-%d", t.kind, t.codec, t.bi, t.w, t.a, t.d)
}

// ordered puts the heavy tasks first and shuffles each group with a fixed permutation, so that the
// static assignment "task i -> child i mod K" is balanced whatever the structure of the list.
func ordered(tasks []task) []task {
	var h, l []task
	for _, t := range tasks {
		if t.heavy {
			h = append(h, t)
		} else {
			l = append(l, t)
		}
	}
	sh := func(ts []task, stream uint64) {
		r := mon.NewRand(7, stream)
		for i := len(ts) - 1; i > 0; i-- {
			j := r.Intn(i + 1)
			ts[i], ts[j] = ts[j], ts[i]
		}
	}
	sh(h, 1)
	sh(l, 2)
	return append(h, l...)
}

// a plan yields the task list of a phase and the function that executes one task
type plan func(c *mon.Ctx) ([]task, func(c *mon.Ctx, t task, rng *mon.Rand))

var plans = map[string]plan{"header": headerPlan, "payload": payloadPlan}

// worker runs tasks k, k+K, k+2K, ... of a phase in this (single-P) process.
func worker(c *mon.Ctx, phaseName string, k, K int) {
	pl, ok := plans[phaseName]
	if !ok {
		c.Fatal("unknown phase %q", phaseName)
	}
	tasks, exec := pl(c)
	tasks = ordered(tasks)
	for i := k; i < len(tasks); i += K {
		t := tasks[i]
		rng := mon.NewRand(c.Seed, 0x9a000000+uint64(i))
		if p, v := mon.Guard(func() { exec(c, t, rng) }); p {
			// a panic inside the library is not an acceptance; it is not judged here
			c.Inconclusive("panic in DecodeSegment during " + phaseName + " sweep: " + v)
		}
		c.Distinct(phaseName + "/" + t.name())
	}
}

type phase struct {
	Name    string  `json:"phase"`
	Tasks   int     `json:"tasks,omitempty"`
	Workers int     `json:"processes,omitempty"`
	Execs   int64   `json:"executions"`
	WallS   float64 `json:"wall_s"`
	PerSec  float64 `json:"per_second"`
	CPUS    float64 `json:"cpu_s,omitempty"` // user+system time of the child processes
	CPUus   float64 `json:"cpu_us_per_execution,omitempty"`
	CPUMin  float64 `json:"cpu_s_least_loaded_process,omitempty"`
	CPUMax  float64 `json:"cpu_s_most_loaded_process,omitempty"`
}

var phases []phase

// CPU time of the least / most loaded child of the phase just run (balance of the static split)
var cpuMin, cpuMax float64

// timed records the throughput of a phase for the evidence file. Never used by an oracle.
func timed(c *mon.Ctx, p phase, f func() float64) {
	e0 := c.Evals()
	t0 := time.Now()
	cpu := f()
	d := time.Since(t0).Seconds()
	p.Execs = c.Evals() - e0
	p.WallS = float64(int(d*100)) / 100
	if d > 0 {
		p.PerSec = float64(int64(float64(p.Execs) / d))
	}
	if cpu > 0 && p.Execs > 0 {
		p.CPUS = float64(int(cpu*10)) / 10
		p.CPUus = float64(int(cpu*1e6/float64(p.Execs)*100)) / 100
	}
	p.CPUMin, p.CPUMax = float64(int(cpuMin*10))/10, float64(int(cpuMax*10))/10
	cpuMin, cpuMax = 0, 0
	phases = append(phases, p)
	fmt.Printf("phase %-10s executions=%-12d wall=%.2fs rate=%.3g/s cpu=%.1fs (%.2f us/execution)\n", p.Name, p.Execs, d, p.PerSec, p.CPUS, p.CPUus)
}

// runPhase spawns K single-P children of this binary and merges what they observed.
func runPhase(c *mon.Ctx, name string) {
	tl, _ := plans[name](c)
	ntasks := len(tl)
	K := runtime.NumCPU()
	if K > 16 {
		K = 16
	}
	if K > ntasks {
		K = ntasks
	}
	dir := filepath.Join(mon.Root(), ".build")
	os.MkdirAll(dir, 0o755)
	timed(c, phase{Name: name, Tasks: ntasks, Workers: K}, func() float64 {
		var wg sync.WaitGroup
		var cpu float64
		outs := make([]string, K)
		errs := make([]error, K)
		cmds := make([]*exec.Cmd, K)
		for k := 0; k < K; k++ {
			outs[k] = filepath.Join(dir, fmt.Sprintf("c07.%d.%s.%d.json", os.Getpid(), name, k))
			os.Remove(outs[k])
			cmd := mon.WorkerCmd(mon.Self(), outs[k], "--tier", c.Tier, "--seed", strconv.FormatInt(c.Seed, 10),
				"worker", name, strconv.Itoa(k), strconv.Itoa(K))
			cmd.Env = append(cmd.Env, "GOMAXPROCS=1")
			cmds[k] = cmd
			logf, err := os.Create(strings.TrimSuffix(outs[k], ".json") + ".log")
			if err != nil {
				c.Fatal("worker log: %v", err)
			}
			cmd.Stdout, cmd.Stderr = logf, logf
			wg.Add(1)
			go func(k int, cmd *exec.Cmd) {
				defer wg.Done()
				defer logf.Close()
				errs[k] = cmd.Run()
			}(k, cmd)
		}
		wg.Wait()
		for k := 0; k < K; k++ {
			logp := strings.TrimSuffix(outs[k], ".json") + ".log"
			if errs[k] != nil || !c.Merge(outs[k]) {
				// a child that died observed nothing we can use: neither held nor violated
				c.Inconclusive(fmt.Sprintf("%s worker %d/%d did not finish (%v), log kept at %s", name, k, K, errs[k], logp))
				continue
			}
			os.Remove(outs[k])
			os.Remove(logp)
		}
		for _, cmd := range cmds {
			if ps := cmd.ProcessState; ps != nil {
				one := ps.UserTime().Seconds() + ps.SystemTime().Seconds()
				cpu += one
				if cpuMin == 0 || one < cpuMin {
					cpuMin = one
				}
				if one > cpuMax {
					cpuMax = one
				}
			}
		}
		return cpu
	})
}

func run(c *mon.Ctx) {
	c.Level = "fault_enumeration"
	c.Rule = "header: every bit pattern of the stated weights over the 48 (uncompressed) / 64 (LZ4) header+CRC-24 bits, " +
		"enumerated combinatorially (each pattern distinct by construction; counts cross-checked against binomials), applied to " +
		"base segments produced by EncodeSegment; payload: single flips, pairs and LSB-first bursts (first/last bit set) over " +
		"payload+CRC-32 of 8 size classes (0,1,2,3,16,255,4096,131071 bytes) x 2 codecs; a case is (base segment, set of flipped bit positions); trivial = empty pattern (never generated); " +
		"distinct signatures are recorded per (base, class, enumeration block) because the patterns themselves number up to 8e8"
	c.Assume("ChecksumKoopman called by the decoder is the exported function probed by the affinity monitor")
	c.Assume("pattern exhaustion on a few base headers speaks for all header values only through affinity of the CRC-24, which is monitored on all 2^24 three-byte and a PRNG sample of five-byte inputs, not proved")
	c.Assume("base segments come from the library's own EncodeSegment and are checked to round-trip before being corrupted")
	c.Assume("payload patterns on one content per size class speak for other contents through linearity of hash/crc32 (not monitored)")

	if c.Replay != "" {
		replay(c)
		return
	}
	if len(c.Args) == 4 && c.Args[0] == "worker" {
		k, _ := strconv.Atoi(c.Args[2])
		K, _ := strconv.Atoi(c.Args[3])
		if K < 1 || k < 0 || k >= K {
			c.Fatal("bad worker arguments %v", c.Args)
		}
		worker(c, c.Args[1], k, K)
		return
	}

	timed(c, phase{Name: "affinity"}, func() float64 { affinity(c); return 0 })
	runPhase(c, "header")
	headerEvidence(c)
	runPhase(c, "payload")
	payloadEvidence(c)
	samples(c)

	c.Set("phases", phases)
}
