package main

import (
	"encoding/hex"
	"fmt"
	"strconv"
	"strings"

	"github.com/datastax/go-cassandra-native-protocol/crc"

	"verif/internal/mon"
)

// replay re-runs exactly one recorded case: regenerate the base segment from
// (content_seed, content_stream, codec, payload_len, content_kind, self_contained), check it
// against the recorded hex, flip the recorded bits, decode.
func replay(c *mon.Ctx) {
	var d detail
	if err := c.ReplayDetail(&d); err != nil {
		c.Fatal("replay file: %v", err)
	}
	if strings.HasPrefix(d.Class, "affinity/") {
		x, err := strconv.ParseUint(strings.TrimPrefix(d.X, "0x"), 16, 64)
		if err != nil {
			c.Fatal("replay x: %v", err)
		}
		a := newAffTables(d.Len)
		c.Eval(1)
		got, want := crc.ChecksumKoopman(x, d.Len), a.want(x)
		fmt.Printf("replay %s: ChecksumKoopman(%#x,%d)=%#06x, affine prediction %#06x\n", d.Class, x, d.Len, got, want)
		if got != want {
			c.Violation(d.Class, d)
		}
		return
	}
	b := makeBase(c, d.ContentSeed, d.Codec, d.PayloadLen, d.ContentKind, d.ContentStream, d.SelfContained)
	h, _ := segHex(b.seg)
	if h != d.SegmentHex || len(b.seg) != d.SegmentLen {
		c.Note("the regenerated base segment differs from the recorded one (the encoder of this tree produces other bytes); replaying on the regenerated one")
	}
	st := b.scratch()
	for _, p := range d.Bits {
		i := d.RegionStart + p>>3
		if i >= len(st.buf) {
			c.Fatal("bit %d outside the segment", p)
		}
		st.buf[i] ^= 1 << uint(p&7)
	}
	c.Eval(1)
	st.rd.Reset(st.buf)
	seg, err := b.codec.DecodeSegment(st.rd)
	cor, _ := segHex(st.buf)
	fmt.Printf("replay %s: base=%s region=%s bits=%v corrupted=%s -> segment=%v err=%v\n", d.Class, b, d.Region, d.Bits, cor, seg, err)
	if seg != nil || err == nil {
		d.Got = fmt.Sprintf("segment=%v err=%v", seg, err)
		d.SegmentHex = hex.EncodeToString(b.seg[:min(len(b.seg), 64)])
		c.Violation(d.Class, d)
	}
}
