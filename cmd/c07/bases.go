package main

import (
	"bytes"
	"encoding/hex"
	"fmt"

	"github.com/datastax/go-cassandra-native-protocol/compression/lz4"
	"github.com/datastax/go-cassandra-native-protocol/segment"

	"verif/internal/mon"
)

var (
	plainCodec = segment.NewCodec()
	lz4Codec   = segment.NewCodecWithCompression(lz4.Compressor{})
)

// base is one valid encoded segment, a pure function of (seed, stream, codec, length, kind, flag).
type base struct {
	Codec      string // uncompressed | lz4
	PayloadLen int
	Kind       string // mixed (half of every 16-byte block repeats the previous 8 bytes) | random
	Seed       int64
	Stream     uint64
	Flag       bool

	codec      segment.Codec
	seg        []byte
	hdrLen     int     // 3 or 5 header bytes (the CRC-24 follows)
	encLen     int     // payload bytes as transmitted
	compressed bool    // the LZ4 codec really stored compressed bytes
	st         *wstate // scratch copy (single-threaded workers only)
}

func (b *base) hdrRegionBits() int { return (b.hdrLen + segment.Crc24Length) * 8 }
func (b *base) payStart() int      { return b.hdrLen + segment.Crc24Length }
func (b *base) payRegionBits() int { return (len(b.seg) - b.payStart()) * 8 }

func (b *base) describe() map[string]any {
	return map[string]any{
		"codec": b.Codec, "payload_len": b.PayloadLen, "content": b.Kind, "self_contained": b.Flag,
		"transmitted_payload_len": b.encLen, "stored_compressed": b.compressed,
		"header_and_crc24_hex": hex.EncodeToString(b.seg[:b.payStart()]),
	}
}

func genContent(seed int64, stream uint64, n int, kind string) []byte {
	out := mon.NewRand(seed, 0xC0700000+stream).Bytes(n)
	if kind == "mixed" {
		for i := 8; i+8 <= n; i += 16 {
			copy(out[i:i+8], out[i-8:i])
		}
	}
	return out
}

// makeBase encodes with the real library and checks the round trip. A base that the unmodified
// decoder does not accept is a harness problem (or another property's), never a C07 verdict.
func makeBase(c *mon.Ctx, seed int64, codecName string, n int, kind string, stream uint64, flag bool) *base {
	b := &base{Codec: codecName, PayloadLen: n, Kind: kind, Seed: seed, Stream: stream, Flag: flag}
	switch codecName {
	case "uncompressed":
		b.codec, b.hdrLen = plainCodec, segment.UncompressedHeaderLength
	case "lz4":
		b.codec, b.hdrLen = lz4Codec, segment.CompressedHeaderLength
	default:
		c.Fatal("unknown codec %q", codecName)
	}
	content := genContent(seed, stream, n, kind)
	var buf bytes.Buffer
	s := &segment.Segment{
		Header:  &segment.Header{IsSelfContained: flag},
		Payload: &segment.Payload{UncompressedData: append([]byte(nil), content...)},
	}
	if err := b.codec.EncodeSegment(s, &buf); err != nil {
		c.Fatal("EncodeSegment(%s,len=%d): %v", codecName, n, err)
	}
	b.seg = append([]byte(nil), buf.Bytes()...)
	b.encLen = len(b.seg) - b.payStart() - segment.Crc32Length
	if b.encLen < 0 {
		c.Fatal("encoded segment too short: %d bytes", len(b.seg))
	}
	b.compressed = codecName == "lz4" && s.Header.CompressedPayloadLength != 0 && s.Header.UncompressedPayloadLength != 0
	got, err := b.codec.DecodeSegment(bytes.NewReader(b.seg))
	if err != nil || got == nil || got.Payload == nil || !bytes.Equal(got.Payload.UncompressedData, content) || got.Header.IsSelfContained != flag {
		c.Fatal("base segment does not round-trip (%s,len=%d,kind=%s): %v", codecName, n, kind, err)
	}
	return b
}

func (b *base) String() string {
	return fmt.Sprintf("%s/len=%d/%s/flag=%v", b.Codec, b.PayloadLen, b.Kind, b.Flag)
}
