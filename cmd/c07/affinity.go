package main

import (
	"fmt"

	"github.com/datastax/go-cassandra-native-protocol/crc"

	"verif/internal/mon"
)

// affTables holds, for one input length, crc(0) and per byte position the XOR of
// d_i = crc(e_i) ^ crc(0) over the set bits of the byte value. Everything in it is obtained
// from the real ChecksumKoopman on the zero word and the 8*len unit words.
type affTables struct {
	n    int
	crc0 uint32
	t    [5][256]uint32
}

func newAffTables(n int) *affTables {
	a := &affTables{n: n, crc0: crc.ChecksumKoopman(0, n)}
	var d [40]uint32
	for i := 0; i < 8*n; i++ {
		d[i] = crc.ChecksumKoopman(1<<uint(i), n) ^ a.crc0
	}
	for k := 0; k < n; k++ {
		for v := 0; v < 256; v++ {
			var x uint32
			for j := 0; j < 8; j++ {
				if v>>uint(j)&1 == 1 {
					x ^= d[8*k+j]
				}
			}
			a.t[k][v] = x
		}
	}
	return a
}

func (a *affTables) want(x uint64) uint32 {
	w := a.crc0
	for k := 0; k < a.n; k++ {
		w ^= a.t[k][byte(x>>(8*uint(k)))]
	}
	return w
}

func (a *affTables) check(c *mon.Ctx, x uint64) bool {
	got, want := crc.ChecksumKoopman(x, a.n), a.want(x)
	if got == want {
		return true
	}
	report(c, fmt.Sprintf("affinity/%dB", a.n), func() detail {
		return detail{Len: a.n, X: fmt.Sprintf("%#x", x), Got: fmt.Sprintf("%#06x", got), Want: fmt.Sprintf("%#06x", want)}
	})
	return false
}

// affinity monitors crc(x) == crc(0) ^ XOR_{i in x}(crc(e_i) ^ crc(0)) through the exported
// ChecksumKoopman: all 2^24 three-byte inputs, and a PRNG sample of five-byte inputs.
func affinity(c *mon.Ctx) {
	a3, a5 := newAffTables(3), newAffTables(5)
	// also: the checksum must stay inside 24 bits, otherwise it could never equal the 3 bytes read back
	mon.Parallel(256, func(hi int) {
		var ok int64
		for lo := 0; lo < 1<<16; lo++ {
			if a3.check(c, uint64(hi)<<16|uint64(lo)) {
				ok++
			}
		}
		c.Eval(1 << 16)
		c.Count("affinity/3B/checked", 1<<16)
		c.Count("affinity/3B/held", ok)
		c.Distinct(fmt.Sprintf("aff3/%d", hi))
	})
	c.Set("affinity_3B_exhaustive", c.Counter("affinity/3B/checked") == 1<<24)

	logN := c.Pick(26, 28)
	const chunk = 1 << 16
	mon.Parallel((1<<uint(logN))/chunk, func(ci int) {
		rng := mon.NewRand(c.Seed, 0xaff50000+uint64(ci))
		var ok int64
		for j := 0; j < chunk; j++ {
			if a5.check(c, rng.Uint64()&(1<<40-1)) {
				ok++
			}
		}
		c.Eval(chunk)
		c.Count("affinity/5B/checked", chunk)
		c.Count("affinity/5B/held", ok)
		c.Distinct(fmt.Sprintf("aff5/%d", ci))
	})
	c.Set("affinity_5B_prng_inputs", 1<<uint(logN))
}
