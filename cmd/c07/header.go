package main

import (
	"fmt"
	"math/bits"

	"verif/internal/mon"
)

func binom(n, k int) int64 {
	if k < 0 || k > n {
		return 0
	}
	r := int64(1)
	for i := 1; i <= k; i++ {
		r = r * int64(n-k+i) / int64(i)
	}
	return r
}

// enum calls f for every mask that extends `mask` by k more bits chosen from [start, n).
func enum(mask uint64, start, k, n int, f func(uint64)) {
	if k == 0 {
		f(mask)
		return
	}
	for i := start; i <= n-k; i++ {
		enum(mask|1<<uint(i), i+1, k-1, n, f)
	}
}

func maskBits(m uint64) []int {
	var out []int
	for m != 0 {
		out = append(out, bits.TrailingZeros64(m))
		m &= m - 1
	}
	return out
}

// hdrRunner applies header+CRC-24 masks (bit i of the mask = bit i%8 of byte i/8 of the segment)
// to a private copy of one base segment. Everything behind the CRC-24 stays as encoded, so
// DecodeSegment sees exactly the corrupted segment and nothing else.
type hdrRunner struct {
	c    *mon.Ctx
	b    *base
	st   *wstate
	n    int    // region bits: 48 or 64
	orig uint64 // region bytes, little endian

	tried, rejected, passedHeaderStage [8]int64
}

func newHdrRunner(c *mon.Ctx, b *base) *hdrRunner {
	r := &hdrRunner{c: c, b: b, st: b.scratch(), n: b.hdrRegionBits()}
	copy(r.st.buf, b.seg)
	for i := 0; i < r.n/8; i++ {
		r.orig |= uint64(b.seg[i]) << (8 * uint(i))
	}
	return r
}

func (r *hdrRunner) apply(mask uint64) {
	v := r.orig ^ mask
	buf := r.st.buf
	for i := 0; i < r.n/8; i++ {
		buf[i] = byte(v >> (8 * uint(i)))
	}
	w := bits.OnesCount64(mask)
	r.tried[w]++
	res, payloadStage, got := r.st.decode(r.b)
	if res == resAccepted {
		key := fmt.Sprintf("header/%s/weight=%d", r.b.Codec, w)
		report(r.c, key, func() detail { return r.b.detail("header", 0, maskBits(mask), got) })
		return
	}
	r.rejected[w]++
	if payloadStage {
		// not judged: the statement only demands an error, and there is one — but a corrupted header
		// that got past its CRC-24 is worth showing in the evidence
		r.passedHeaderStage[w]++
	}
}

func (r *hdrRunner) done() {
	var n int64
	for w := 1; w <= 7; w++ {
		if r.tried[w] == 0 {
			continue
		}
		n += r.tried[w]
		p := fmt.Sprintf("header/%s/weight=%d/", r.b.Codec, w)
		r.c.Count(p+"tried", r.tried[w])
		r.c.Count(p+"rejected", r.rejected[w])
		if r.passedHeaderStage[w] > 0 {
			r.c.Count("unjudged/header_crc24_passed_then_payload_error/"+r.b.Codec, r.passedHeaderStage[w])
		}
	}
	r.c.Eval(int(n))
	// leave the scratch copy as encoded
	copy(r.st.buf[:r.n/8], r.b.seg[:r.n/8])
}

var hdrCodecs = []string{"uncompressed", "lz4"}

// headerBases: payload length 0, 1, 131071 and a PRNG length. Quick: 4 bases per format, flags
// alternating; thorough: each length with both flag values (8 bases).
func headerBases(c *mon.Ctx, codec string) []*base {
	rl := 2 + mon.NewRand(c.Seed, 0x4ead).Intn(131000)
	var out []*base
	for i, n := range []int{0, 1, 131071, rl} {
		for fi, flag := range []bool{false, true} {
			if !c.Thorough() && fi != i%2 {
				continue
			}
			kind := "mixed"
			if i == 3 && flag {
				kind = "random" // the LZ4 codec then stores the payload uncompressed
			}
			out = append(out, makeBase(c, c.Seed, codec, n, kind, uint64(100+2*i+fi), flag))
		}
	}
	return out
}

const (
	hdrSampleTotal = 5_000_000 // weight-6/7 PRNG patterns per format in the quick tier (10^7 in all)
	hdrSampleChunk = 10_000
)

// fullBase is the index of the base header that gets the complete weight 1..7 enumeration (thorough).
func fullBase(bases []*base) int { return len(bases) - 1 } // PRNG length, flag set

const (
	kHdrAll    = iota + 1 // all patterns of weight w
	kHdrPre               // patterns of weight w whose two lowest bits are a < d
	kHdrSample            // chunk a of the PRNG sample of weights 6 and 7
)

func headerPlan(c *mon.Ctx) ([]task, func(*mon.Ctx, task, *mon.Rand)) {
	var tasks []task
	var bases [2][]*base
	for ci, codec := range hdrCodecs {
		bases[ci] = headerBases(c, codec)
		nbits := bases[ci][0].hdrRegionBits()
		add := func(bi int, w int) {
			if w <= 3 {
				tasks = append(tasks, task{kind: kHdrAll, codec: uint8(ci), bi: int32(bi), w: int8(w)})
				return
			}
			for a := 0; a < nbits; a++ {
				for d := a + 1; d < nbits; d++ {
					if nbits-d-1 >= w-2 {
						tasks = append(tasks, task{kind: kHdrPre, codec: uint8(ci), bi: int32(bi), w: int8(w), a: int32(a), d: int32(d), heavy: w >= 6})
					}
				}
			}
		}
		if c.Thorough() {
			for w := 7; w >= 6; w-- {
				add(fullBase(bases[ci]), w)
			}
		}
		for w := 5; w >= 1; w-- {
			for bi := range bases[ci] {
				add(bi, w)
			}
		}
		if !c.Thorough() {
			// PRNG sample of weights 6 and 7 (the thorough tier enumerates them instead)
			for k := 0; k < hdrSampleTotal/hdrSampleChunk; k++ {
				tasks = append(tasks, task{kind: kHdrSample, codec: uint8(ci), bi: int32(k % len(bases[ci])), a: int32(k)})
			}
		}
	}
	exec := func(c *mon.Ctx, t task, rng *mon.Rand) {
		b := bases[t.codec][t.bi]
		nbits := b.hdrRegionBits()
		r := newHdrRunner(c, b)
		switch t.kind {
		case kHdrAll:
			enum(0, 0, int(t.w), nbits, r.apply)
		case kHdrPre:
			enum(uint64(1)<<uint(t.a)|uint64(1)<<uint(t.d), int(t.d)+1, int(t.w)-2, nbits, r.apply)
		case kHdrSample:
			for j := 0; j < hdrSampleChunk; j++ {
				w := 6 + int(rng.Uint64()&1)
				var m uint64
				for bits.OnesCount64(m) < w {
					m |= 1 << uint(rng.Intn(nbits))
				}
				r.apply(m)
			}
		}
		r.done()
	}
	return tasks, exec
}

// headerEvidence runs in the parent after the merge: the enumeration must have produced exactly the
// binomial number of patterns, all of them rejected, otherwise nothing is claimed to be exhaustive.
func headerEvidence(c *mon.Ctx) {
	exh := map[string]any{}
	for _, codec := range hdrCodecs {
		bases := headerBases(c, codec)
		nbits := bases[0].hdrRegionBits()
		var descr []map[string]any
		for _, b := range bases {
			descr = append(descr, b.describe())
		}
		c.Set("header_bases/"+codec, descr)
		top := 5
		if c.Thorough() {
			top = 7
		}
		complete := true
		var weights []int
		var perBase15, all17 int64
		for w := 1; w <= 7; w++ {
			if w <= 5 {
				perBase15 += binom(nbits, w)
			}
			all17 += binom(nbits, w)
			if w > top {
				continue
			}
			want := binom(nbits, w) * int64(len(bases))
			if w >= 6 {
				want = binom(nbits, w)
			}
			got := c.Counter(fmt.Sprintf("header/%s/weight=%d/tried", codec, w))
			if got != want {
				complete = false
				c.Inconclusive(fmt.Sprintf("header/%s/weight=%d: %d patterns executed, enumeration has %d", codec, w, got, want))
			} else {
				weights = append(weights, w)
			}
		}
		e := map[string]any{
			"region_bits": nbits, "enumeration_complete": complete, "exhaustive_weights": weights,
			"weights_1_5_exhaustive_on_bases": len(bases), "patterns_per_base_weights_1_5": perBase15,
		}
		if c.Thorough() {
			e["weights_1_7_exhaustive_on_bases"] = 1
			e["weights_1_7_base"] = bases[fullBase(bases)].describe()
			e["patterns_weights_1_7"] = all17
		} else {
			e["weights_6_7_prng_sample"] = c.Counter(fmt.Sprintf("header/%s/weight=6/tried", codec)) + c.Counter(fmt.Sprintf("header/%s/weight=7/tried", codec))
		}
		exh[codec] = e
	}
	c.Set("exhaustive_weights", exh)
}
