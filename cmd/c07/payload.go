package main

import (
	"fmt"

	"verif/internal/mon"
)

// size 0: the region is the CRC-32 alone
var paySizes = []int{0, 1, 2, 3, 16, 255, 4096, 131071}

// payRunner flips bits of the payload+CRC-32 region of a private copy of one base segment.
// Positions are relative to the region start, LSB-first inside each byte. Header bytes are never
// touched.
type payRunner struct {
	c   *mon.Ctx
	b   *base
	bi  int
	st  *wstate
	reg []byte // st.buf[payStart:]
	R   int    // region bits

	single, singleRej        int64
	pair, pairRej            int64
	burst, burstRej          [33]int64
	msbIn, msbOut, msbOutAcc int64
	otherErr                 int64
}

func newPayRunner(c *mon.Ctx, b *base, bi int) *payRunner {
	r := &payRunner{c: c, b: b, bi: bi, st: b.scratch(), R: b.payRegionBits()}
	copy(r.st.buf, b.seg) // a task that ended in a panic may have left flips behind
	r.reg = r.st.buf[b.payStart():]
	return r
}

func (r *payRunner) flip(p int) { r.reg[p>>3] ^= 1 << uint(p&7) }

// xorPattern xors pat (bit 0 = position o) into the region; pat spans at most 57 bits.
func (r *payRunner) xorPattern(o int, pat uint64) {
	v := pat << uint(o&7)
	for k := o >> 3; v != 0; k++ {
		r.reg[k] ^= byte(v)
		v >>= 8
	}
}

func patBits(o int, pat uint64) []int {
	var out []int
	for i := 0; pat != 0; i, pat = i+1, pat>>1 {
		if pat&1 == 1 {
			out = append(out, o+i)
		}
	}
	return out
}

// judge decodes the current buffer; true = rejected as demanded.
func (r *payRunner) judge(key func() string, bitsOf func() []int) bool {
	res, _, got := r.st.decode(r.b)
	switch res {
	case resAccepted:
		report(r.c, key(), func() detail { return r.b.detail("payload", r.b.payStart(), bitsOf(), got) })
		return false
	case resRejectedOther:
		r.otherErr++
	}
	return true
}

func (r *payRunner) trySingle(p int) {
	r.flip(p)
	r.single++
	if r.judge(func() string { return "payload/single" }, func() []int { return []int{p} }) {
		r.singleRej++
	}
	r.flip(p)
}

func (r *payRunner) tryPair(p, q int) {
	r.flip(p)
	r.flip(q)
	r.pair++
	if r.judge(func() string { return "payload/pair" }, func() []int { return []int{p, q} }) {
		r.pairRej++
	}
	r.flip(q)
	r.flip(p)
}

// tryBurst: pat has bit 0 and bit blen-1 set, blen <= 32, o+blen <= R.
func (r *payRunner) tryBurst(o, blen int, pat uint64) {
	r.xorPattern(o, pat)
	r.burst[blen]++
	if r.judge(func() string { return fmt.Sprintf("payload/burst/len=%d", blen) }, func() []int { return patBits(o, pat) }) {
		r.burstRej[blen]++
	}
	r.xorPattern(o, pat)
}

// tryTrailerTransforms: errors confined to the 4 trailer bytes are bursts of at most 32 bits whatever they look
// like, so a trailer rewritten by a "plausible" transformation of itself (another byte order, its complement,
// a rotation, its neighbours) must be rejected as well — patterns that depend on the data, which a sweep of fixed
// patterns meets only by chance. Identity results (palindromic trailers) are skipped.
func (r *payRunner) tryTrailerTransforms() {
	if r.R < 32 {
		return
	}
	tr := r.reg[len(r.reg)-4:]
	old := uint32(tr[0]) | uint32(tr[1])<<8 | uint32(tr[2])<<16 | uint32(tr[3])<<24
	rev8 := func(b uint32) uint32 {
		var o uint32
		for i := 0; i < 8; i++ {
			o |= (b >> uint(i) & 1) << uint(7-i)
		}
		return o
	}
	byteRev := old>>24 | old>>8&0xff00 | old<<8&0xff0000 | old<<24
	bitRevBytes := rev8(old&0xff) | rev8(old>>8&0xff)<<8 | rev8(old>>16&0xff)<<16 | rev8(old>>24&0xff)<<24
	cands := []struct {
		name string
		v    uint32
	}{{"byte-reversed", byteRev}, {"complemented", ^old}, {"rotated-8", old<<8 | old>>24}, {"rotated-16", old<<16 | old>>16}, {"rotated-24", old<<24 | old>>8},
		{"halves-byte-swapped", old>>8&0x00ff00ff | old<<8&0xff00ff00}, {"bits-reversed-in-each-byte", bitRevBytes},
		{"bits-reversed", rev8(byteRev&0xff) | rev8(byteRev>>8&0xff)<<8 | rev8(byteRev>>16&0xff)<<16 | rev8(byteRev>>24&0xff)<<24},
		{"plus-one", old + 1}, {"minus-one", old - 1}, {"zero", 0}, {"all-ones", 0xffffffff}}
	for _, cd := range cands {
		pat := uint64(old ^ cd.v)
		if pat == 0 {
			continue
		}
		o := r.R - 32
		r.xorPattern(o, pat)
		r.burst[32]++
		name := cd.name
		if r.judge(func() string { return "payload/trailer-transform/" + name }, func() []int { return patBits(o, pat) }) {
			r.burstRej[32]++
		}
		r.xorPattern(o, pat)
		r.c.Count("payload_trailer_transforms_tried", 1)
	}
}

// tryMSB applies a burst that is contiguous in MSB-first numbering (position q = bit 7-(q%8) of
// byte q/8). It is judged only if its LSB-first span is <= 32, i.e. if it also is a burst of the
// guaranteed kind; otherwise acceptances are merely counted.
func (r *payRunner) tryMSB(q, blen int, pat uint64) {
	lo, hi := 1<<30, -1
	var ps [32]int
	n := 0
	for i := 0; i < blen; i++ {
		if pat>>uint(i)&1 == 1 {
			m := q + i
			p := (m &^ 7) | (7 - m&7)
			ps[n] = p
			n++
			if p < lo {
				lo = p
			}
			if p > hi {
				hi = p
			}
			r.flip(p)
		}
	}
	span := hi - lo + 1
	if span <= 32 {
		r.msbIn++
		r.burst[span]++
		if r.judge(func() string { return fmt.Sprintf("payload/burst/len=%d", span) }, func() []int { return append([]int(nil), ps[:n]...) }) {
			r.burstRej[span]++
		}
	} else {
		r.msbOut++
		if res, _, _ := r.st.decode(r.b); res == resAccepted {
			r.msbOutAcc++
		}
	}
	for i := 0; i < n; i++ {
		r.flip(ps[i])
	}
}

func (r *payRunner) done() {
	c := r.c
	cnt := func(name string, v int64) {
		if v != 0 {
			c.Count(name, v)
		}
	}
	cnt("payload/single/tried", r.single)
	cnt("payload/single/rejected", r.singleRej)
	cnt("payload/pair/tried", r.pair)
	cnt("payload/pair/rejected", r.pairRej)
	var bsum int64
	for l := 1; l <= 32; l++ {
		cnt(fmt.Sprintf("payload/burst/len=%02d/tried", l), r.burst[l])
		cnt(fmt.Sprintf("payload/burst/len=%02d/rejected", l), r.burstRej[l])
		bsum += r.burst[l]
	}
	cnt("msb_first_side/judged_lsb_span_le_32", r.msbIn)
	cnt("msb_first_side/unjudged_lsb_span_gt_32/tried", r.msbOut)
	cnt("msb_first_side/unjudged_lsb_span_gt_32/accepted", r.msbOutAcc)
	cnt("payload/rejected_with_error_other_than_crc_mismatch", r.otherErr)
	pb := fmt.Sprintf("paybase/%02d/", r.bi)
	cnt(pb+"single", r.single)
	cnt(pb+"pair", r.pair)
	cnt(pb+"lsb_burst", bsum-r.msbIn)
	cnt(pb+"msb_side", r.msbIn+r.msbOut)
	c.Eval(int(r.single + r.pair + bsum + r.msbOut))
}

func burstPat(blen int, interior uint64) uint64 {
	if blen == 1 {
		return 1
	}
	return 1 | (interior&(1<<uint(blen-2)-1))<<1 | 1<<uint(blen-1)
}

func payloadBases(c *mon.Ctx) []*base {
	var out []*base
	for si, n := range paySizes {
		for ci, codec := range []string{"uncompressed", "lz4"} {
			out = append(out, makeBase(c, c.Seed, codec, n, "mixed", uint64(200+si*2+ci), (si+ci)%2 == 0))
		}
	}
	return out
}

// Workload per size class (T = thorough, Q = quick). "1 in k" offsets always use a phase that
// rotates with the block index (and the burst length), so that every byte alignment is met.
//
//	transmitted payload <= 255 B : every single flip; ALL pairs; bursts 1..32 at EVERY offset: all
//	                               2^(b-2) interiors for b <= 12, 4 (Q) / 8 (T) PRNG interiors above
//	<= 8 KiB (the 4096 class)    : every single flip; pairs inside 64-bit windows at every offset (T) /
//	                               1 offset in 4 (Q) + 10^6 (T) / 2.5e5 (Q) PRNG pairs; bursts at every
//	                               offset (T) / 1 in 8 (Q): all interiors b <= 12, 4 (T) / 2 (Q) PRNG above
//	128 KiB class                : one DecodeSegment costs 50-400 CPU-us here (the decoder allocates
//	                               128 KiB per call), so: single flips all (T) / 1 bit in 4 (Q); window
//	                               pairs at 1 offset in 16 (T) / 512 (Q) + 10^6 / 10^5 PRNG pairs; bursts:
//	                               every offset x 8 of the 32 lengths (T) / 1 offset in 8 x 1 length (Q),
//	                               one PRNG interior each; all interiors b <= 12 at the payload start,
//	                               across the payload/CRC-32 boundary up to the last bit and at PRNG offsets
const (
	kSingle      = iota + 1 // offsets [a,d)
	kPairsAll               // first position in [a,d), second anywhere above
	kPairsWindow            // first position in [a,d), second within the next 63 bits
	kPairsPrng              // chunk a
	kBursts                 // offsets [a,d)
	kBurstsExh              // offset a, every interior for lengths 3..12
	kMsb                    // MSB-first offsets [a,d)
	kMsbPrng                // chunk a
	prngPer      = 5000
)

func payloadPlan(c *mon.Ctx) ([]task, func(*mon.Ctx, task, *mon.Rand)) {
	T := c.Thorough()
	seed := int(c.Seed & 0xffff)
	var tasks []task
	bases := payloadBases(c)
	isSmall := func(b *base) bool { return b.encLen <= 255 }
	isHuge := func(b *base) bool { return b.encLen > 8192 }
	// pairs inside 64-bit windows start at 1 offset in `every`
	windowEvery := func(b *base) int {
		if isHuge(b) {
			return c.Pick(512, 16)
		}
		return c.Pick(4, 1)
	}
	for bi, b := range bases {
		R := b.payRegionBits()
		small, huge := isSmall(b), isHuge(b)
		add := func(kind uint8, a, d int) {
			tasks = append(tasks, task{kind: kind, bi: int32(bi), a: int32(a), d: int32(d), heavy: huge})
		}
		blk := 64
		if huge {
			blk = 512
		}
		blocks := func(kind uint8) {
			for lo := 0; lo < R; lo += blk {
				add(kind, lo, min(lo+blk, R))
			}
		}
		chunks := func(kind uint8, total int) {
			for k := 0; k < total/prngPer; k++ {
				add(kind, k, 0)
			}
		}
		blocks(kSingle)
		if small {
			blocks(kPairsAll)
		} else {
			blocks(kPairsWindow)
			if huge {
				chunks(kPairsPrng, c.Pick(100_000, 1_000_000))
			} else {
				chunks(kPairsPrng, c.Pick(250_000, 1_000_000))
			}
		}
		blocks(kBursts)
		if huge {
			for o := 0; o < c.Pick(8, 128); o++ {
				add(kBurstsExh, o, 0)
			}
			for o := R - c.Pick(64, 192); o < R; o++ {
				add(kBurstsExh, o, 0)
			}
			or := mon.NewRand(c.Seed, 0xb0ff0000+uint64(bi))
			for k := c.Pick(8, 1024); k > 0; k-- {
				add(kBurstsExh, or.Intn(R), 0)
			}
			chunks(kMsbPrng, c.Pick(50_000, 500_000))
		} else {
			blocks(kMsb)
		}
	}

	exec := func(c *mon.Ctx, t task, rng *mon.Rand) {
		b := bases[t.bi]
		R := b.payRegionBits()
		small, huge := isSmall(b), isHuge(b)
		lo, hi := int(t.a), int(t.d)
		r := newPayRunner(c, b, int(t.bi))
		switch t.kind {
		case kSingle:
			if lo == 0 {
				r.tryTrailerTransforms() // once per base
			}
			for p := lo; p < hi; p++ {
				if huge && !T && p&3 != (p>>2+seed)&3 {
					continue // quick, 128 KiB class: 1 bit in 4
				}
				r.trySingle(p)
			}
		case kPairsAll:
			for p := lo; p < hi; p++ {
				for q := p + 1; q < R; q++ {
					r.tryPair(p, q)
				}
			}
		case kPairsWindow:
			every := windowEvery(b)
			for p := lo; p < hi; p++ {
				if p%every != (p/every*7+seed)%every {
					continue
				}
				for q := p + 1; q < p+64 && q < R; q++ {
					r.tryPair(p, q)
				}
			}
		case kPairsPrng:
			for j := 0; j < prngPer; j++ {
				if p, q := rng.Intn(R), rng.Intn(R); p != q {
					r.tryPair(p, q)
				}
			}
		case kBursts:
			if huge {
				for o := lo; o < hi; o++ {
					if T {
						// 8 of the 32 lengths at every offset; the residue class rotates with the offset
						for blen := 1 + (o+seed)&3; blen <= 32 && o+blen <= R; blen += 4 {
							r.tryBurst(o, blen, burstPat(blen, rng.Uint64()))
						}
					} else if o&7 == (o>>3+seed)&7 {
						// 1 offset in 8, one length, rotating through 1..32
						if blen := 1 + (o>>3*5+seed)%32; o+blen <= R {
							r.tryBurst(o, blen, burstPat(blen, rng.Uint64()))
						}
					}
				}
				break
			}
			kHigh := c.Pick(2, 4)
			if small {
				kHigh = c.Pick(4, 8)
			}
			for o := lo; o < hi; o++ {
				for blen := 1; blen <= 32 && o+blen <= R; blen++ {
					if !(T || small) && o&7 != (o>>3+blen+seed)&7 {
						continue // quick, 4096 class: 1 offset in 8, phase rotating with the length
					}
					switch {
					case blen <= 2:
						r.tryBurst(o, blen, burstPat(blen, 0))
					case blen <= 12:
						for in := uint64(0); in < 1<<uint(blen-2); in++ {
							r.tryBurst(o, blen, burstPat(blen, in))
						}
					default:
						for k := 0; k < kHigh; k++ {
							r.tryBurst(o, blen, burstPat(blen, rng.Uint64()))
						}
					}
				}
			}
		case kBurstsExh:
			o := lo
			for blen := 3; blen <= 12 && o+blen <= R; blen++ {
				for in := uint64(0); in < 1<<uint(blen-2); in++ {
					r.tryBurst(o, blen, burstPat(blen, in))
				}
			}
		case kMsb:
			for q := lo; q < hi; q++ {
				for blen := 2; blen <= 32 && q+blen <= R; blen++ {
					if !(T || small) && q&7 != (q>>3+blen+seed)&7 {
						continue
					}
					r.tryMSB(q, blen, burstPat(blen, rng.Uint64()))
				}
			}
		case kMsbPrng:
			for j := 0; j < prngPer; j++ {
				blen := 2 + rng.Intn(31)
				r.tryMSB(rng.Intn(R-blen+1), blen, burstPat(blen, rng.Uint64()))
			}
		}
		r.done()
	}
	return tasks, exec
}

// payloadEvidence runs in the parent after the merge.
func payloadEvidence(c *mon.Ctx) {
	T := c.Thorough()
	var descr []map[string]any
	for bi, b := range payloadBases(c) {
		get := func(n string) int64 { return c.Counter(fmt.Sprintf("paybase/%02d/%s", bi, n)) }
		R := b.payRegionBits()
		huge := b.encLen > 8192
		d := b.describe()
		delete(d, "header_and_crc24_hex")
		d["region_bits_payload_plus_crc32"] = R
		d["single_flips"] = get("single")
		d["single_flips_exhaustive"] = get("single") == int64(R)
		d["pairs"] = get("pair")
		if b.encLen <= 255 {
			d["pairs_exhaustive"] = get("pair") == binom(R, 2)
			if get("pair") != binom(R, 2) {
				c.Inconclusive(fmt.Sprintf("payload/%s: %d pairs executed, the region has %d", b, get("pair"), binom(R, 2)))
			}
		}
		d["lsb_bursts"] = get("lsb_burst")
		d["msb_first_side_patterns"] = get("msb_side")
		descr = append(descr, d)
		if (T || !huge) && get("single") != int64(R) {
			c.Inconclusive(fmt.Sprintf("payload/%s: %d single flips executed, the region has %d bits", b, get("single"), R))
		}
		if get("single") == 0 || get("pair") == 0 || get("lsb_burst") == 0 {
			c.Inconclusive(fmt.Sprintf("payload/%s: a pattern class was never executed", b))
		}
	}
	c.Set("payload_bases", descr)
	pick := func(q, t string) string {
		if T {
			return t
		}
		return q
	}
	c.Set("payload_workload", map[string]any{
		"bit_numbering":   "LSB-first inside each byte (transmission order of the reflected CRC-32)",
		"class_le_255B":   "every single flip; all pairs; bursts 1..32 at every bit offset: all 2^(b-2) interiors for b<=12, " + pick("4", "8") + " PRNG interiors above",
		"class_4096B":     "every single flip; pairs inside 64-bit windows at " + pick("1 offset in 4", "every offset") + " + " + pick("2.5e5", "1e6") + " PRNG pairs; bursts at " + pick("1 offset in 8 (phase rotates with length)", "every offset") + ": all interiors b<=12, " + pick("2", "4") + " PRNG interiors above",
		"class_131071B":   "single flips: " + pick("1 bit in 4", "all") + "; window pairs at 1 offset in " + pick("512", "16") + " + " + pick("1e5", "1e6") + " PRNG pairs; bursts: " + pick("1 offset in 8 x 1 length (rotating)", "every offset x 8 of the 32 lengths (rotating)") + ", one PRNG interior each; all interiors b<=12 at the payload start, across the payload/CRC-32 boundary to the last bit, and at " + pick("8", "1024") + " PRNG offsets",
		"why_131071_thin": "DecodeSegment allocates the payload buffer per call: 50-400 CPU-us per execution for 128 KiB in this sandbox (CRC-32 itself: 9 us)",
		"msb_first_side":  "bursts contiguous in MSB-first numbering: judged when their LSB-first span is <= 32 (counted under payload/burst/len=<span>), otherwise only counted",
	})
}

// samples records a handful of actual cases (what was flipped, what the decoder said).
func samples(c *mon.Ctx) {
	bases := payloadBases(c)
	show := func(b *base, region string, start int, bits []int) {
		st := b.scratch()
		for _, p := range bits {
			st.buf[start+p>>3] ^= 1 << uint(p&7)
		}
		st.rd.Reset(st.buf)
		seg, err := b.codec.DecodeSegment(st.rd)
		for _, p := range bits {
			st.buf[start+p>>3] ^= 1 << uint(p&7)
		}
		h, _ := segHex(b.seg[:min(len(b.seg), 24)])
		c.Sample(map[string]any{"base": b.String(), "segment_prefix_hex": h, "region": region, "flipped_bits_lsb_first": bits,
			"returned_segment": seg != nil, "error": fmt.Sprint(err)})
	}
	find := func(codec string, n int) *base {
		for _, b := range bases {
			if b.Codec == codec && b.PayloadLen == n {
				return b
			}
		}
		c.Fatal("no base %s/%d", codec, n)
		return nil
	}
	u16, l16, u255, u4k, ubig := find("uncompressed", 16), find("lz4", 16), find("uncompressed", 255), find("uncompressed", 4096), find("uncompressed", 131071)
	show(u16, "header", 0, []int{0, 9, 17, 23, 24, 40, 47})                    // weight 7
	show(l16, "header", 0, []int{34})                                          // the flag bit of the 5-byte header
	show(l16, "header", 0, []int{3, 63})                                       // a length bit and a CRC-24 bit
	show(u255, "payload", u255.payStart(), []int{0})                           // first payload bit
	show(u255, "payload", u255.payStart(), []int{2039, 2040})                  // last payload bit + first CRC-32 bit
	show(u4k, "payload", u4k.payStart(), []int{100, 131})                      // burst of 32
	show(ubig, "payload", ubig.payStart(), []int{5, ubig.payRegionBits() - 1}) // pair 128 KiB apart
}
