package main

import (
	"bytes"

	"github.com/datastax/go-cassandra-native-protocol/client"
	"github.com/datastax/go-cassandra-native-protocol/frame"
	"github.com/datastax/go-cassandra-native-protocol/primitive"

	"verif/internal/mon"
)

// selfTest checks the harness' own plumbing: every kind of tagged frame survives the library's
// codec in every configuration used and yields its tag again. A failure is a harness error
// (exit 2), never a verdict.
func selfTest(c *mon.Ctx) {
	r := mon.NewRand(1, 99)
	for _, cfg := range sockConfigs {
		codec := frame.NewCodecWithCompression(client.NewBodyCompressor(cfg.comp))
		var frames []*frame.Frame
		var want []string
		add := func(f *frame.Frame, t string) { frames = append(frames, f); want = append(want, t) }
		for k := kSetKeyspace; k <= kBig; k++ {
			p := plan{Kind: k, Pages: 1, Big: 5000}
			if k == kPaged {
				p.Pages = 3
			}
			for page := 1; page <= p.Pages; page++ {
				add(responseFrame(cfg.v, 5, "u1-2", p, page, r))
			}
		}
		add(lateDupFrame(cfg.v, 5, "u1-2", false, r))
		add(lateDupFrame(cfg.v, 5, "u1-2", true, r))
		add(spuriousFrame(cfg.v, -7, 1, 3, r))
		for variant := 0; variant < 3; variant++ {
			add(eventFrame(cfg.v, -1, 'e', 70000, 9, variant))
			add(eventFrame(cfg.v, 5, 'b', 70000, 1, variant))
		}
		add(requestFrame(cfg.v, 5, "u1-2"), "")
		for i, f := range frames {
			if cfg.comp != primitive.CompressionNone && !cfg.v.SupportsModernFramingLayout() && i%2 == 0 {
				f.Header.Flags = f.Header.Flags.Add(primitive.HeaderFlagCompressed)
			}
			var buf bytes.Buffer
			if err := codec.EncodeFrame(f, &buf); err != nil {
				c.Fatal("self-test: %s %s: cannot encode %v: %v", cfg.name, cfg.comp, f.Body.Message, err)
			}
			g, err := codec.DecodeFrame(&buf)
			if err != nil {
				c.Fatal("self-test: %s %s: cannot decode %v: %v", cfg.name, cfg.comp, f.Body.Message, err)
			}
			if want[i] != "" && norm(tagOf(g)) != want[i] {
				c.Fatal("self-test: %s %s: tag %q came back as %q", cfg.name, cfg.comp, want[i], norm(tagOf(g)))
			}
			if g.Header.StreamId != f.Header.StreamId {
				c.Fatal("self-test: %s: stream id %d came back as %d", cfg.name, f.Header.StreamId, g.Header.StreamId)
			}
		}
	}
}
