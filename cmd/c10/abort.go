package main

// A3: pages accepted into a request's buffer and the request then fails.
//
// A multi-page response "delivers all its pages in arrival order to that one request": a page that the
// in-flight handler accepted (Deliver returned nil while the request was open) has been received on the
// connection, and must come out of Incoming() even if the request is closed with an error afterwards —
// because the next page overflowed MaxPending, because the handler (the connection) was closed, or
// because the per-request timeout fired. The error is then seen after the accepted pages, not instead
// of them. Judged on logical facts only: which Deliver calls returned nil, what came out of the channel.

import (
	"context"
	"fmt"
	"time"

	"github.com/datastax/go-cassandra-native-protocol/client"

	"verif/internal/mon"
)

func runAbortBuffered(c *mon.Ctx, index int) {
	rnd := mon.NewRand(c.Seed, uint64(7_000_000+index))
	mode := index % 3 // 0 overflow, 1 handler closed, 2 timeout
	maxPending := 1 + rnd.Intn(8)
	nReq := 1 + rnd.Intn(4)
	timeout := time.Hour
	if mode == 2 {
		timeout = 60 * time.Millisecond
	}
	desc := map[string]any{"kind": "abort-buffered", "index": index}
	ctx, cancel := context.WithCancel(context.Background())
	s := &shimRun{c: c, rnd: rnd, sess: 700_000 + index, N: 10, maxPending: maxPending, desc: desc,
		v: client.VerifNewInFlight(ctx, 10, maxPending, timeout), cancel: cancel,
		version: shimVersions[index%len(shimVersions)], inUse: map[int16]*shimReq{}}
	defer cancel()
	modeName := [...]string{"overflow", "handler-closed", "timeout"}[mode]
	type acc struct {
		q        *shimReq
		accepted []string
	}
	var all []*acc
	for i := 0; i < nReq; i++ {
		q := s.enqueue(plan{Kind: kPaged, Pages: maxPending + 3}, 0)
		if q == nil {
			c.Inconclusive("abort-buffered: enqueue refused")
			return
		}
		all = append(all, &acc{q: q})
	}
	deliver := func(a *acc) (accepted bool, panicked bool) {
		q := a.q
		q.next++
		f, ntag := responseFrame(s.version, q.rl.sid, q.rl.uid, q.p, q.next, s.rnd)
		q.rl.addExp(ntag)
		var err error
		pk, val := mon.Guard(func() { err = s.v.Deliver(f) })
		if pk {
			s.op("deliver %s PANIC %s", ntag, val)
			return false, true
		}
		s.op("deliver %s -> %v", ntag, err)
		if err == nil {
			a.accepted = append(a.accepted, ntag)
		}
		return err == nil, false
	}
	for _, a := range all {
		k := 1 + rnd.Intn(maxPending)
		if mode == 0 {
			k = maxPending + 1 // the last one must be refused and must close the request
		}
		for i := 0; i < k; i++ {
			if _, pk := deliver(a); pk {
				if mode == 2 {
					c.Inconclusive("abort-buffered: delivery raced with the timeout")
					return
				}
				s.violation("shim/panic-in-deliver", a.q.rl, nil)
				return
			}
		}
	}
	if mode == 1 {
		if pk, val := mon.Guard(func() { s.v.Close() }); pk {
			s.violation("shim/panic-in-close", nil, map[string]any{"panic": val})
			return
		}
	}
	// drain: every request is closed by now (modes 0, 1) or will be by its timeout (mode 2)
	for _, a := range all {
		q := a.q
		ch := q.r.Incoming()
		watchdog := time.NewTimer(20 * time.Second)
		open := true
		for open {
			if mode != 2 {
				select {
				case f, ok := <-ch:
					if !ok {
						open = false
					} else {
						q.rl.addGot(f)
					}
				default:
					s.violation(vkey("shim", "abort-buffered/"+modeName+"/not-closed"), q.rl, map[string]any{"accepted_pages": a.accepted})
					watchdog.Stop()
					return
				}
				continue
			}
			select {
			case f, ok := <-ch:
				if !ok {
					open = false
				} else {
					q.rl.addGot(f)
				}
			case <-watchdog.C:
				c.Inconclusive("abort-buffered: request not closed by its timeout within the watchdog")
				return
			}
		}
		watchdog.Stop()
		q.rl.setClosed(q.r.Err())
		got := append([]string{}, q.rl.got...)
		ok := len(got) == len(a.accepted)
		for i := 0; ok && i < len(got); i++ {
			ok = got[i] == a.accepted[i]
		}
		c.Eval(1)
		c.Count("abort_buffered_requests_judged", 1)
		c.Count("abort_buffered_pages_accepted", int64(len(a.accepted)))
		if !ok {
			s.violation(vkey("shim", "abort-buffered/"+modeName+"/accepted-pages-not-delivered"), q.rl,
				map[string]any{"accepted_pages_in_order": a.accepted, "delivered": got, "mode": modeName})
		} else if q.rl.err == "" {
			s.violation(vkey("shim", "abort-buffered/"+modeName+"/closed-without-error"), q.rl,
				map[string]any{"accepted_pages_in_order": a.accepted, "mode": modeName})
		}
	}
	c.Distinct(fmt.Sprintf("abort-buffered/%s/%d/%d", modeName, maxPending, nReq))
	if mode != 1 {
		mon.Guard(func() { s.v.Close() })
	}
}
