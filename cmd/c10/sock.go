package main

// Workload B: the library's client connection (client.NewCqlClient -> Connect over TCP, or
// client.VerifNewClientConn over a TCP pair / net.Pipe) against the raw peer of peer.go.

import (
	"context"
	"fmt"
	"net"
	"os"
	"runtime/pprof"
	"sync"
	"sync/atomic"
	"time"

	"github.com/datastax/go-cassandra-native-protocol/client"
	"github.com/datastax/go-cassandra-native-protocol/frame"
	"github.com/datastax/go-cassandra-native-protocol/primitive"

	"verif/internal/mon"
)

type sessCfg struct {
	Index       int    `json:"index"`
	Version     uint8  `json:"version"`
	VName       string `json:"version_name"`
	Compression string `json:"compression"`
	Senders     int    `json:"senders"`
	Transport   string `json:"transport"`
	MaxInFlight int    `json:"max_in_flight"`
	MaxPending  int    `json:"max_pending"`
	Auth        bool   `json:"auth"`
	Explicit    bool   `json:"explicit_ids"`
	PerSender   int    `json:"requests_per_sender"`
	Quota       int    `json:"outstanding_per_sender"`
	EventRate   int    `json:"event_rate_permille"`
	SpurRate    int    `json:"spurious_rate_permille"`
	BigRate     int    `json:"big_rate_permille"`
	MaxEvents   int    `json:"max_events"`
	Hold        int    `json:"peer_hold"`
	Scale       int    `json:"scale_percent"`
	Undrained   bool   `json:"nobody_reads_EventChannel,omitempty"`
	OneHandler  bool   `json:"one_handler,omitempty"`
	Race        bool   `json:"race_flavour,omitempty"`
}

type vc struct {
	v    primitive.ProtocolVersion
	name string
	comp primitive.Compression
}

var sockConfigs = func() []vc {
	var out []vc
	for _, v := range []struct {
		v primitive.ProtocolVersion
		n string
	}{{primitive.ProtocolVersion2, "v2"}, {primitive.ProtocolVersion3, "v3"}, {primitive.ProtocolVersion4, "v4"},
		{primitive.ProtocolVersion5, "v5"}, {primitive.ProtocolVersionDse1, "dse1"}, {primitive.ProtocolVersionDse2, "dse2"}} {
		for _, comp := range []primitive.Compression{primitive.CompressionNone, primitive.CompressionLz4, primitive.CompressionSnappy} {
			if v.v.SupportsCompression(comp) {
				out = append(out, vc{v.v, v.n, comp})
			}
		}
	}
	return out
}()

func makeSessCfg(seed int64, index int, scale int) sessCfg {
	r := mon.NewRand(seed, uint64(3_000_000+index))
	b := sockConfigs[index%len(sockConfigs)]
	S := []int{1, 4, 16}[(index/len(sockConfigs))%3]
	cfg := sessCfg{Index: index, Version: uint8(b.v), VName: b.name, Compression: string(b.comp), Senders: S, Scale: scale}
	cfg.Transport = []string{"tcp-connect", "pipe", "tcp-shim", "pipe"}[r.Intn(4)]
	mifs := []int{S, S, 16, 64, 127, 1024, 2048}
	if b.v < primitive.ProtocolVersion3 {
		mifs = []int{S, S, 16, 64, 100, 127}
	}
	for {
		cfg.MaxInFlight = mifs[r.Intn(len(mifs))]
		if cfg.MaxInFlight >= S {
			break
		}
	}
	cfg.MaxPending = 1 + r.Intn(10)
	cfg.Auth = r.Intn(4) == 0
	cfg.Explicit = r.Intn(5) == 0
	cfg.Quota = cfg.MaxInFlight / S
	if cfg.Quota > 256 {
		cfg.Quota = 256
	}
	total := (40 + r.Intn(360)) * scale / 100
	if total < S {
		total = S
	}
	cfg.PerSender = (total + S - 1) / S
	cfg.EventRate = []int{0, 20, 60, 150}[r.Intn(4)]
	cfg.SpurRate = []int{0, 10, 40}[r.Intn(3)]
	cfg.BigRate = []int{0, 0, 8, 25}[r.Intn(4)]
	cfg.MaxEvents = cfg.MaxInFlight
	if r.Intn(4) == 0 {
		cfg.MaxEvents = 4*cfg.MaxInFlight + 8 // may overflow the bounded event channel: channel sink judged leniently
	}
	if r.Intn(3) == 0 {
		cfg.Hold = 1 + r.Intn(S*cfg.Quota)
	}
	return cfg
}

// makeUndrainedCfg: the scenario in which the application registers EventHandlers and never reads
// EventChannel(): a small MaxInFlight (= capacity of the event channel), and the peer pushes more
// events than that. The channel may discard when full (documented); the handlers must still see
// every event. The barrier is the response to a trailing sentinel request, not an event.
func makeUndrainedCfg(seed int64, index int) sessCfg {
	r := mon.NewRand(seed, uint64(8_000_000+index))
	b := sockConfigs[index%len(sockConfigs)]
	m := 2 + r.Intn(3)
	S := 1 + r.Intn(2)
	k := m + 1 + r.Intn(3*m+4)
	cfg := sessCfg{Index: index, Version: uint8(b.v), VName: b.name, Compression: string(b.comp), Senders: S, Scale: 100,
		Transport: []string{"pipe", "tcp-connect", "tcp-shim"}[r.Intn(3)], MaxInFlight: m, MaxPending: 1 + r.Intn(10),
		Auth: r.Intn(4) == 0, Explicit: r.Intn(5) == 0, Quota: m / S, EventRate: []int{1000, 1000, 600}[r.Intn(3)],
		SpurRate: []int{0, 40}[r.Intn(2)], MaxEvents: k, Undrained: true, OneHandler: r.Bool()}
	cfg.PerSender = (2*k + r.Intn(10) + S - 1) / S
	return cfg
}

type session struct {
	c        *mon.Ctx
	cfg      sessCfg
	mu       sync.Mutex
	reqs     map[string]*reqLog
	order    []*reqLog
	wire     []string
	ev       *eventLog
	progress atomic.Int64
	barrier  chan string
	herr     atomic.Value
	refused  atomic.Int64
	outst    map[*reqLog]client.InFlightRequest // sent, channel not yet seen closed
}

func (s *session) lookup(uid string) *reqLog {
	s.mu.Lock()
	defer s.mu.Unlock()
	return s.reqs[uid]
}

func (s *session) register(rl *reqLog) {
	s.mu.Lock()
	s.reqs[rl.uid] = rl
	s.order = append(s.order, rl)
	s.mu.Unlock()
}

func (s *session) addWire(t string) {
	s.mu.Lock()
	s.wire = append(s.wire, t)
	s.mu.Unlock()
}

func (s *session) harnessError(msg string) { s.herr.Store(msg) }

// runSession runs one client<->peer session and judges its log.
func runSession(c *mon.Ctx, cfg sessCfg) {
	pprof.Do(context.Background(), pprof.Labels("session", fmt.Sprint(cfg.Index)), func(context.Context) { runSession1(c, cfg) })
}

func runSession1(c *mon.Ctx, cfg sessCfg) {
	s := &session{c: c, cfg: cfg, reqs: map[string]*reqLog{}, outst: map[*reqLog]client.InFlightRequest{}, ev: newEventLog("h0", "h1", "chan"), barrier: make(chan string, 8)}
	v := primitive.ProtocolVersion(cfg.Version)
	key := func(class string) string {
		if cfg.Undrained {
			switch class {
			case "event/lost":
				return "event/handler-missed-event/undrained-channel"
			case "event/order":
				return "event/handler-order/undrained-channel"
			case "event/duplicate":
				return "event/handler-duplicate/undrained-channel"
			}
		}
		return vkey("sock/"+cfg.VName, class)
	}
	inconclusive := func(what string, note string) {
		c.Inconclusive("sock/" + what)
		if c.Counter("notes_"+what) < 3 {
			c.Count("notes_"+what, 1)
			c.Note("session %d (%s %s S=%d %s): %s: %s", cfg.Index, cfg.VName, cfg.Compression, cfg.Senders, cfg.Transport, what, note)
		}
	}

	// transport
	var cliConn, srvConn net.Conn
	var ln net.Listener
	var err error
	if cfg.Transport == "pipe" {
		cliConn, srvConn = net.Pipe()
	} else {
		ln, err = net.Listen("tcp", "127.0.0.1:0")
		if err != nil {
			inconclusive("listen-failed", err.Error())
			return
		}
		defer ln.Close()
	}
	h0 := func(ev *frame.Frame, _ *client.CqlClientConnection) {
		t := s.ev.add("h0", ev)
		s.progress.Add(1)
		if len(t) > 0 && t[0] == 'b' {
			select {
			case s.barrier <- t:
			default:
			}
		}
	}
	h1 := func(ev *frame.Frame, _ *client.CqlClientConnection) {
		s.ev.add("h1", ev)
		s.progress.Add(1)
	}
	handlers := []client.EventHandler{h0, h1}
	sinks := []string{"h0", "h1", "chan"}
	if cfg.OneHandler {
		handlers = handlers[:1]
		sinks = []string{"h0", "chan"}
	}
	s.ev = newEventLog(sinks...)
	var creds *client.AuthCredentials
	if cfg.Auth {
		creds = &client.AuthCredentials{Username: "cassandra", Password: "cassandra"}
	}
	ctx, cancel := context.WithCancel(context.Background())
	defer cancel()
	var conn *client.CqlClientConnection
	acc := make(chan net.Conn, 1)
	if ln != nil {
		go func() {
			x, _ := ln.Accept()
			acc <- x
		}()
	}
	switch cfg.Transport {
	case "tcp-connect":
		cl := client.NewCqlClient(ln.Addr().String(), creds)
		cl.Compression = primitive.Compression(cfg.Compression)
		cl.MaxInFlight = cfg.MaxInFlight
		cl.MaxPending = cfg.MaxPending
		cl.ReadTimeout = time.Hour
		cl.EventHandlers = handlers
		conn, err = cl.Connect(ctx)
	case "tcp-shim":
		cliConn, err = net.Dial("tcp", ln.Addr().String())
		if err == nil {
			conn, err = client.VerifNewClientConn(cliConn, ctx, creds, primitive.Compression(cfg.Compression), cfg.MaxInFlight, cfg.MaxPending, time.Hour, handlers)
		}
	default:
		conn, err = client.VerifNewClientConn(cliConn, ctx, creds, primitive.Compression(cfg.Compression), cfg.MaxInFlight, cfg.MaxPending, time.Hour, handlers)
	}
	if err != nil {
		inconclusive("connect-failed", err.Error())
		return
	}
	if ln != nil {
		select {
		case srvConn = <-acc:
		case <-time.After(20 * time.Second):
		}
		if srvConn == nil {
			inconclusive("accept-failed", "")
			conn.Close()
			return
		}
	}
	p := newPeer(s, srvConn)
	go p.run()
	// closeAll: the peer's end is closed first, so that the client sees EOF after it has completely
	// processed everything that was sent (including the channel send of the barrier event itself,
	// which comes after the handlers) and closes itself from its own incoming loop. A frame racing
	// with Close is C16's business: an event that is still being delivered while another goroutine
	// calls Close panics with "send on closed channel" in processIncomingFrame.
	closeAll := func() {
		srvConn.Close()
		for i := 0; i < 1000 && !conn.IsClosed(); i++ {
			time.Sleep(10 * time.Millisecond)
		}
		conn.Close()
		select {
		case <-p.done:
		case <-time.After(20 * time.Second):
		}
	}
	closeAbnormal := closeAll
	// consumers stop on halt; whatever is still buffered then is drained by the judge itself, so that
	// "the frame was in the channel" never depends on a consumer goroutine having been scheduled
	halt := make(chan struct{})
	evCh := conn.EventChannel()
	evDone := make(chan struct{})
	go func() {
		defer close(evDone)
		if cfg.Undrained {
			return // nobody reads EventChannel() in this scenario
		}
		for {
			select {
			case f, ok := <-evCh:
				if !ok {
					return
				}
				s.ev.add("chan", f)
				s.progress.Add(1)
			case <-halt:
				return
			}
		}
	}()

	// handshake
	hsID := int16(0)
	if cfg.Explicit {
		hsID = 1
	}
	hs := make(chan error, 1)
	go func() { hs <- conn.InitiateHandshake(v, hsID) }()
	select {
	case err = <-hs:
	case <-time.After(30 * time.Second):
		err = fmt.Errorf("watchdog")
	}
	if err != nil {
		inconclusive("handshake-failed", err.Error()+" peer-read="+errString(&p.readErr)+" peer-write="+errString(&p.writeErr))
		closeAbnormal()
		return
	}

	// senders
	stop := make(chan struct{})
	var wg sync.WaitGroup
	var maxOut, curOut atomic.Int64
	for si := 0; si < cfg.Senders; si++ {
		wg.Add(1)
		go func(si int) {
			defer wg.Done()
			slots := make(chan int, cfg.Quota)
			for k := 0; k < cfg.Quota; k++ {
				slots <- k
			}
			for j := 0; j < cfg.PerSender; j++ {
				var slot int
				select {
				case slot = <-slots:
				case <-stop:
					return
				}
				n := si*cfg.PerSender + j
				uid := uidOf(cfg.Index, n)
				sid := int16(0)
				if cfg.Explicit {
					sid = int16(1 + si*cfg.Quota + slot) // the slot's id: reused right after completion
				}
				f := requestFrame(v, sid, uid)
				if cfg.Compression != "NONE" && !v.SupportsModernFramingLayout() && n%3 != 0 {
					f.Header.Flags = f.Header.Flags.Add(primitive.HeaderFlagCompressed)
				}
				rl := &reqLog{uid: uid}
				s.register(rl)
				r, err := conn.Send(f)
				if err != nil {
					s.refused.Add(1)
					slots <- slot
					continue
				}
				rl.mu.Lock()
				rl.sid, rl.sent = r.StreamId(), true
				rl.mu.Unlock()
				if o := curOut.Add(1); o > maxOut.Load() {
					maxOut.Store(o)
				}
				s.progress.Add(1)
				s.mu.Lock()
				s.outst[rl] = r
				s.mu.Unlock()
				wg.Add(1)
				go func() {
					defer wg.Done()
					ch := r.Incoming()
					for {
						select {
						case fr, ok := <-ch:
							if ok {
								rl.addGot(fr)
								s.progress.Add(1)
								continue
							}
							rl.setClosed(r.Err())
							s.mu.Lock()
							delete(s.outst, rl)
							s.mu.Unlock()
							curOut.Add(-1)
							s.progress.Add(1)
							slots <- slot
						case <-halt:
						}
						return
					}
				}()
			}
		}(si)
	}
	allDone := make(chan struct{})
	go func() { wg.Wait(); close(allDone) }()

	// wait: the watchdog only decides *when* to look; what is concluded then rests on the barrier
	stuck := false
	last, idleTicks := s.progress.Load(), 0
	tick := time.NewTicker(500 * time.Millisecond)
	defer tick.Stop()
	started := time.Now()
wait:
	for {
		select {
		case <-allDone:
			break wait
		case <-tick.C:
			if now := s.progress.Load(); now != last {
				last, idleTicks = now, 0
			} else {
				idleTicks++
			}
			if idleTicks >= 30 || time.Since(started) > 150*time.Second {
				stuck = true
				if os.Getenv("C10_DEBUG_STUCK") != "" {
					if f, err := os.Create(fmt.Sprintf("/tmp/c10-stuck-%d.txt", cfg.Index)); err == nil {
						pprof.Lookup("goroutine").WriteTo(f, 1)
						f.Close()
					}
				}
				break wait
			}
		}
	}
	aborted := conn.IsClosed() // closed by the library itself: not this property's business
	barrierSeen := false
	if !aborted && cfg.Undrained {
		// barrier = the response to a trailing request (a barrier *event* would itself be subject to
		// what this scenario is about)
		if !stuck {
			uid := fmt.Sprintf("u%d-s", cfg.Index)
			rl := &reqLog{uid: uid}
			s.register(rl)
			sid := int16(0)
			if cfg.Explicit {
				sid = 1
			}
			if r, err := conn.Send(requestFrame(v, sid, uid)); err == nil {
				rl.mu.Lock()
				rl.sid, rl.sent = r.StreamId(), true
				rl.mu.Unlock()
				ch := r.Incoming()
				deadline := time.After(15 * time.Second)
			sentinel:
				for {
					select {
					case fr, ok := <-ch:
						if !ok {
							rl.setClosed(r.Err())
							break sentinel
						}
						rl.addGot(fr)
						barrierSeen = true
					case <-deadline:
						s.mu.Lock()
						s.outst[rl] = r
						s.mu.Unlock()
						break sentinel
					}
				}
			}
		}
	} else if !aborted {
		select {
		case p.ctl <- ctlMsg{barrier: 1}:
		default:
		}
		select {
		case <-s.barrier:
			barrierSeen = true
		case <-time.After(10 * time.Second):
		}
	}
	quiescent := barrierSeen && (!stuck || p.poolLen.Load() == 0)
	close(stop)
	close(halt)
	select {
	case <-allDone:
	case <-time.After(30 * time.Second):
		inconclusive("consumers-did-not-stop", "")
		closeAbnormal()
		return
	}
	<-evDone
	// everything the peer wrote before the barrier event has been processed by the (sequential)
	// incoming loop: it is in a channel buffer now, or it is nowhere
	s.mu.Lock()
	left := make(map[*reqLog]client.InFlightRequest, len(s.outst))
	for rl, r := range s.outst {
		left[rl] = r
	}
	s.mu.Unlock()
	for rl, r := range left {
		ch := r.Incoming()
	drainReq:
		for {
			select {
			case fr, ok := <-ch:
				if !ok {
					rl.setClosed(r.Err())
					break drainReq
				}
				rl.addGot(fr)
			default:
				break drainReq
			}
		}
	}
drainEv:
	for {
		select {
		case f, ok := <-evCh:
			if !ok {
				break drainEv
			}
			s.ev.add("chan", f)
		default:
			break drainEv
		}
	}

	// judge
	if h, ok := s.herr.Load().(string); ok {
		inconclusive("harness-error", h)
		closeAbnormal()
		return
	}
	if aborted {
		inconclusive("connection-closed-by-client", "peer-read="+errString(&p.readErr)+" peer-write="+errString(&p.writeErr))
	} else if !barrierSeen {
		inconclusive("no-barrier", fmt.Sprintf("stuck=%v", stuck))
	} else if stuck && !quiescent {
		st, _ := p.state.Load().(string)
		inconclusive("stuck-peer-not-idle", fmt.Sprintf("peer state=%s unanswered=%d inbox=%d progress=%d elapsed=%v", st, p.poolLen.Load(), len(p.inbox), s.progress.Load(), time.Since(started)))
	}
	s.mu.Lock()
	order := append([]*reqLog{}, s.order...)
	wire := append([]string{}, s.wire...)
	s.mu.Unlock()
	judged := 0
	detail := func(rl *reqLog, classes []string) map[string]any {
		d := map[string]any{"workload": "sock", "index": cfg.Index, "seed": c.Seed, "session": cfg,
			"classes": classes, "stuck": stuck, "barrier_seen": barrierSeen, "wire_order_excerpt": wireExcerpt(wire, rl)}
		if rl != nil {
			d["request_log"] = rl.excerpt()
		}
		return d
	}
	for _, rl := range order {
		rl.mu.Lock()
		sent, tainted := rl.sent, rl.tainted
		rl.mu.Unlock()
		if !sent {
			continue
		}
		if tainted {
			c.Count("sock_requests_tainted_not_judged", 1)
			continue
		}
		judged++
		classes := judgeReq(rl, quiescent, aborted)
		for _, class := range classes {
			c.Violation(key(class), detail(rl, classes))
		}
	}
	lenient := map[string]bool{}
	s.ev.mu.Lock()
	nEmitted := len(s.ev.emitted)
	s.ev.mu.Unlock()
	if nEmitted > cfg.MaxInFlight {
		lenient["chan"] = true
	}
	var judgeOrder map[string]bool
	if cfg.Undrained {
		judgeOrder = map[string]bool{"h0": true, "h1": true}
		c.Count("undrained_sessions", 1)
		s.ev.mu.Lock()
		if n := len(s.ev.sinks["chan"]); nEmitted > cfg.MaxInFlight && n == cfg.MaxInFlight {
			c.Count("undrained_sessions_channel_found_full", 1)
		}
		s.ev.mu.Unlock()
		c.Max("max_undrained_events_beyond_capacity", int64(nEmitted-cfg.MaxInFlight))
	}
	evClasses, dropped, anomalies := judgeEvents(s.ev, quiescent && !aborted, lenient, judgeOrder)
	for _, class := range evClasses {
		s.ev.mu.Lock()
		d := map[string]any{"workload": "sock", "index": cfg.Index, "seed": c.Seed, "session": cfg, "classes": evClasses,
			"events_emitted": clip(s.ev.emitted, 60), "sink_h0": clip(s.ev.sinks["h0"], 60), "sink_h1": clip(s.ev.sinks["h1"], 60),
			"sink_EventChannel": clip(s.ev.sinks["chan"], 60)}
		s.ev.mu.Unlock()
		c.Violation(key(class), d)
	}
	c.Eval(judged + nEmitted)
	c.Count("sock_sessions", 1)
	c.Count("sock_sessions_"+cfg.VName+"_"+cfg.Compression, 1)
	c.Count("sock_requests_judged", int64(judged))
	c.Count("sock_response_frames", int64(len(wire)))
	c.Count("sock_events_emitted", int64(nEmitted))
	c.Count("sock_event_channel_full_drops_counted", int64(dropped))
	c.Count("sock_event_order_anomalies_counted", int64(anomalies))
	c.Count("sock_send_refused", s.refused.Load())
	c.Max("max_sock_outstanding_at_client", maxOut.Load())
	if stuck {
		c.Count("sock_sessions_stuck", 1)
	}
	h := uint64(14695981039346656037)
	for _, w := range wire {
		for i := 0; i < len(w); i++ {
			h = (h ^ uint64(w[i])) * 1099511628211
		}
	}
	c.Distinct(fmt.Sprintf("sock/%s/%s/%d/%x", cfg.VName, cfg.Compression, cfg.Senders, h))
	if c.WantSample() && cfg.Index%41 == 7 {
		c.Sample(map[string]any{"workload": "sock", "session": cfg, "requests_judged": judged, "response_frames": len(wire),
			"events": nEmitted, "max_outstanding": maxOut.Load(), "wire_order_head": clip(wire, 24)})
	}
	if stuck || !barrierSeen || aborted {
		closeAbnormal()
	} else {
		closeAll()
	}
}

// wireExcerpt: the part of the peer's wire order around the frames of one request.
func wireExcerpt(wire []string, rl *reqLog) []string {
	if rl == nil {
		return clip(wire, 40)
	}
	var out []string
	first := -1
	for i, w := range wire {
		if ownerOf(w) == rl.uid {
			if first < 0 {
				first = i
			}
		}
	}
	if first < 0 {
		return nil
	}
	lo := first - 6
	if lo < 0 {
		lo = 0
	}
	for i := lo; i < len(wire) && len(out) < 40; i++ {
		out = append(out, fmt.Sprintf("#%d %s", i, wire[i]))
	}
	return out
}
