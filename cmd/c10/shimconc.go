package main

// Workload A3: the in-flight table through the shim with S concurrent sender/consumer goroutines
// and one deliverer goroutine (a connection has exactly one incoming loop, so deliveries are never
// concurrent with each other; they are concurrent with Enqueue and with the consumers).

import (
	"context"
	"fmt"
	"sync"
	"sync/atomic"
	"time"

	"github.com/datastax/go-cassandra-native-protocol/client"

	"verif/internal/mon"
)

func runShimConcurrent(c *mon.Ctx, index int) {
	rnd := mon.NewRand(c.Seed, uint64(6_000_000+index))
	N := []int{1, 2, 4, 16, 128}[rnd.Intn(5)]
	S := []int{2, 4, 8}[rnd.Intn(3)]
	maxPending := 1 + rnd.Intn(10)
	perSender := 10 + rnd.Intn(60)
	version := shimVersions[index%len(shimVersions)]
	sess := 200_000 + index
	ctx, cancel := context.WithCancel(context.Background())
	defer cancel()
	v := client.VerifNewInFlight(ctx, N, maxPending, time.Hour)
	desc := map[string]any{"workload": "shim-concurrent", "index": index, "seed": c.Seed, "N": N, "senders": S,
		"max_pending": maxPending, "requests_per_sender": perSender}

	var mu sync.Mutex
	var order []*reqLog
	var wire []string
	var progress atomic.Int64
	tokens := make(chan struct{}, N)
	for i := 0; i < N; i++ {
		tokens <- struct{}{}
	}
	inbox := make(chan *pend, N+S)
	stop := make(chan struct{})
	halt := make(chan struct{})
	outst := map[*reqLog]client.InFlightRequest{}
	var senders, consumers sync.WaitGroup
	var refused atomic.Int64
	for si := 0; si < S; si++ {
		senders.Add(1)
		go func(si int) {
			defer senders.Done()
			for j := 0; j < perSender; j++ {
				select {
				case <-tokens:
				case <-stop:
					return
				}
				n := si*perSender + j
				uid := uidOf(sess, n)
				rl := &reqLog{uid: uid, allSettled: true}
				mu.Lock()
				order = append(order, rl)
				mu.Unlock()
				r, err := v.Enqueue(requestFrame(version, 0, uid))
				if err != nil {
					refused.Add(1)
					tokens <- struct{}{}
					continue
				}
				rl.mu.Lock()
				rl.sid, rl.sent = r.StreamId(), true
				rl.mu.Unlock()
				pr := mon.NewRand(c.Seed, uint64(7_000_000)+uint64(index)*100_003+uint64(n))
				progress.Add(1)
				mu.Lock()
				outst[rl] = r
				mu.Unlock()
				consumers.Add(1)
				go func() {
					defer consumers.Done()
					ch := r.Incoming()
					for {
						select {
						case f, ok := <-ch:
							if ok {
								rl.addGot(f)
								progress.Add(1)
								continue
							}
							rl.setClosed(r.Err())
							mu.Lock()
							delete(outst, rl)
							mu.Unlock()
							progress.Add(1)
							tokens <- struct{}{}
						case <-halt:
						}
						return
					}
				}()
				select {
				case inbox <- &pend{uid: uid, sid: r.StreamId(), rl: rl, p: planFor(pr, maxPending, true)}:
				case <-stop:
					return
				}
			}
		}(si)
	}
	go func() { senders.Wait(); close(inbox) }()

	delivererDone := make(chan struct{})
	var panicked atomic.Value
	go func() {
		defer close(delivererDone)
		var pool []*pend
		nSpur := 0
		open := true
		for open || len(pool) > 0 {
			if len(pool) == 0 {
				select {
				case q, ok := <-inbox:
					if !ok {
						open = false
						continue
					}
					pool = append(pool, q)
				case <-stop:
					return
				}
				continue
			}
			if open && rnd.Intn(3) == 0 {
				select {
				case q, ok := <-inbox:
					if !ok {
						open = false
					} else {
						pool = append(pool, q)
					}
				default:
				}
			}
			i := rnd.Intn(len(pool))
			q := pool[i]
			q.next++
			f, ntag := responseFrame(version, q.sid, q.uid, q.p, q.next, rnd)
			q.rl.addExp(ntag)
			mu.Lock()
			wire = append(wire, ntag)
			mu.Unlock()
			if q.next == q.p.Pages {
				pool[i] = pool[len(pool)-1]
				pool = pool[:len(pool)-1]
			}
			if pk, val := mon.Guard(func() { _ = v.Deliver(f) }); pk {
				panicked.Store(fmt.Sprintf("%s id=%d: %s", ntag, q.sid, val))
				return
			}
			if rnd.Intn(25) == 0 {
				id := int16(N + 1 + rnd.Intn(500))
				if rnd.Bool() {
					id = -int16(1 + rnd.Intn(500))
				}
				sf, _ := spuriousFrame(version, id, sess, nSpur, rnd)
				nSpur++
				mon.Guard(func() { _ = v.Deliver(sf) })
			}
		}
	}()

	allDone := make(chan struct{})
	go func() { senders.Wait(); <-delivererDone; consumers.Wait(); close(allDone) }()
	stuck := false
	last, idle := progress.Load(), 0
	tick := time.NewTicker(250 * time.Millisecond)
	defer tick.Stop()
wait:
	for {
		select {
		case <-allDone:
			break wait
		case <-tick.C:
			if now := progress.Load(); now != last {
				last, idle = now, 0
			} else if idle++; idle >= 24 {
				stuck = true
				break wait
			}
		}
	}
	close(stop)
	quiescent := true
	if stuck {
		// every Deliver call is synchronous: once the deliverer has stopped, whatever was delivered
		// is in a channel or gone
		select {
		case <-delivererDone:
		case <-time.After(30 * time.Second):
			quiescent = false
			c.Inconclusive("shim-concurrent/deliverer-stuck")
		}
		c.Count("shim_concurrent_stuck", 1)
	}
	// consumers stop; what is still buffered is drained here, so that nothing depends on a consumer
	// goroutine having been scheduled in time
	close(halt)
	cdone := make(chan struct{})
	go func() { consumers.Wait(); close(cdone) }()
	select {
	case <-cdone:
	case <-time.After(30 * time.Second):
		c.Inconclusive("shim-concurrent/consumers-did-not-stop")
		return
	}
	mu.Lock()
	left := make(map[*reqLog]client.InFlightRequest, len(outst))
	for rl, r := range outst {
		left[rl] = r
	}
	mu.Unlock()
	for rl, r := range left {
		ch := r.Incoming()
	drain:
		for {
			select {
			case f, ok := <-ch:
				if !ok {
					rl.setClosed(r.Err())
					break drain
				}
				rl.addGot(f)
			default:
				break drain
			}
		}
	}
	if pv, ok := panicked.Load().(string); ok {
		d := map[string]any{"history": desc, "panic": pv}
		c.Violation("shim/panic-in-deliver", d)
	}
	mu.Lock()
	reqs := append([]*reqLog{}, order...)
	w := append([]string{}, wire...)
	mu.Unlock()
	judged := 0
	for _, rl := range reqs {
		rl.mu.Lock()
		sent := rl.sent
		rl.mu.Unlock()
		if !sent {
			continue
		}
		judged++
		classes := judgeReq(rl, quiescent, false)
		for _, class := range classes {
			c.Violation(vkey("shim", class), map[string]any{"workload": "shim-concurrent", "index": index, "seed": c.Seed, "history": desc, "classes": classes,
				"request_log": rl.excerpt(), "stuck": stuck, "wire_order_excerpt": wireExcerpt(w, rl)})
		}
	}
	c.Eval(judged)
	c.Count("shim_concurrent_histories", 1)
	c.Count("shim_concurrent_requests_judged", int64(judged))
	c.Count("shim_concurrent_enqueue_refused", refused.Load())
	h := uint64(14695981039346656037)
	for _, t := range w {
		for i := 0; i < len(t); i++ {
			h = (h ^ uint64(t[i])) * 1099511628211
		}
	}
	c.Distinct(fmt.Sprintf("shimconc/%d/%d/%x", N, S, h))
	mon.Guard(func() { v.Close() })
}
