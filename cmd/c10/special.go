package main

// Two endings that ordinary sessions never produce:
//
//	slow pages    a multi-page response whose pages arrive with gaps well below the read timeout but
//	              whose last page arrives later than the read timeout after the request was sent: all
//	              pages must still reach the request and the last page completes it (shim, pipe, tcp)
//	fatal ending  with k requests outstanding the peer answers one of them with an ERROR whose code is
//	              "fatal" (SERVER_ERROR, PROTOCOL_ERROR, AUTH_ERROR) as its last frame: that response
//	              is a response like any other and must reach its request (exactly once), whatever
//	              happens to the connection afterwards
//
// Both use a small scripted peer (miniPeer) instead of the randomised responder of peer.go.

import (
	"bytes"
	"context"
	"fmt"
	"net"
	"sync"
	"sync/atomic"
	"time"

	"github.com/datastax/go-cassandra-native-protocol/client"
	"github.com/datastax/go-cassandra-native-protocol/frame"
	"github.com/datastax/go-cassandra-native-protocol/message"
	"github.com/datastax/go-cassandra-native-protocol/primitive"
	"github.com/datastax/go-cassandra-native-protocol/segment"

	"verif/internal/mon"
)

// ---------------------------------------------------------------------------------------------
// plumbing

type miniPeer struct {
	conn             net.Conn
	v                primitive.ProtocolVersion
	comp             primitive.Compression
	fcodec           frame.Codec
	scodec           segment.Codec
	modernR, modernW bool
	queue            []*frame.Frame
}

func newMiniPeer(conn net.Conn, v primitive.ProtocolVersion, comp primitive.Compression) *miniPeer {
	return &miniPeer{conn: conn, v: v, comp: comp,
		fcodec: frame.NewCodecWithCompression(client.NewBodyCompressor(comp)),
		scodec: segment.NewCodecWithCompression(client.NewPayloadCompressor(comp))}
}

func (m *miniPeer) read() (*frame.Frame, error) {
	for len(m.queue) == 0 {
		if !m.modernR {
			f, err := m.fcodec.DecodeFrame(m.conn)
			if err != nil {
				return nil, err
			}
			return f, nil
		}
		seg, err := m.scodec.DecodeSegment(m.conn)
		if err != nil {
			return nil, err
		}
		rd := bytes.NewReader(seg.Payload.UncompressedData)
		for rd.Len() > 0 {
			f, err := m.fcodec.DecodeFrame(rd)
			if err != nil {
				return nil, err
			}
			m.queue = append(m.queue, f)
		}
	}
	f := m.queue[0]
	m.queue = m.queue[1:]
	return f, nil
}

// write puts the frames on the wire with one Write: back to back (legacy framing) or as the
// envelopes of one self-contained segment (v5).
func (m *miniPeer) write(frames ...*frame.Frame) error {
	var buf bytes.Buffer
	for _, f := range frames {
		if !m.modernW && m.comp != primitive.CompressionNone && f.Header.OpCode != primitive.OpCodeReady {
			f.Header.Flags = f.Header.Flags.Add(primitive.HeaderFlagCompressed)
		}
		if err := m.fcodec.EncodeFrame(f, &buf); err != nil {
			return fmt.Errorf("harness: cannot encode: %w", err)
		}
	}
	if m.modernW {
		seg := &segment.Segment{Header: &segment.Header{IsSelfContained: true}, Payload: &segment.Payload{UncompressedData: buf.Bytes()}}
		var sb bytes.Buffer
		if err := m.scodec.EncodeSegment(seg, &sb); err != nil {
			return fmt.Errorf("harness: cannot encode segment: %w", err)
		}
		buf = sb
	}
	_, err := m.conn.Write(buf.Bytes())
	return err
}

func (m *miniPeer) handshake() error {
	f, err := m.read()
	if err != nil {
		return err
	}
	if _, ok := f.Body.Message.(*message.Startup); !ok {
		return fmt.Errorf("harness: expected STARTUP, got %v", f.Body.Message)
	}
	if m.v.SupportsModernFramingLayout() {
		m.modernR = true
	}
	if err := m.write(frame.NewFrame(m.v, f.Header.StreamId, &message.Ready{})); err != nil {
		return err
	}
	if m.v.SupportsModernFramingLayout() {
		m.modernW = true
	}
	return nil
}

func connPair(transport string) (cli, srv net.Conn, err error) {
	if transport == "pipe" {
		cli, srv = net.Pipe()
		return
	}
	ln, err := net.Listen("tcp", "127.0.0.1:0")
	if err != nil {
		return nil, nil, err
	}
	defer ln.Close()
	acc := make(chan net.Conn, 1)
	go func() { x, _ := ln.Accept(); acc <- x }()
	if cli, err = net.Dial("tcp", ln.Addr().String()); err != nil {
		return nil, nil, err
	}
	select {
	case srv = <-acc:
	case <-time.After(20 * time.Second):
	}
	if srv == nil {
		cli.Close()
		return nil, nil, fmt.Errorf("accept failed")
	}
	return
}

func handshakeWithWatchdog(conn *client.CqlClientConnection, v primitive.ProtocolVersion) error {
	hs := make(chan error, 1)
	go func() { hs <- conn.InitiateHandshake(v, client.ManagedStreamId) }()
	select {
	case err := <-hs:
		return err
	case <-time.After(30 * time.Second):
		return fmt.Errorf("handshake watchdog")
	}
}

// watcher consumes one request until its channel closes or halt fires.
type watcher struct {
	rl   *reqLog
	r    client.InFlightRequest
	done chan struct{}
}

func watch(rl *reqLog, r client.InFlightRequest, halt <-chan struct{}) *watcher {
	w := &watcher{rl: rl, r: r, done: make(chan struct{})}
	go func() {
		defer close(w.done)
		ch := r.Incoming()
		for {
			select {
			case f, ok := <-ch:
				if !ok {
					rl.setClosed(r.Err())
					return
				}
				rl.addGot(f)
			case <-halt:
				return
			}
		}
	}()
	return w
}

// settle waits for the watcher to stop and drains what is still buffered.
func (w *watcher) settle() {
	<-w.done
	w.rl.mu.Lock()
	closed := w.rl.closed
	w.rl.mu.Unlock()
	if closed {
		return
	}
	ch := w.r.Incoming()
	for {
		select {
		case f, ok := <-ch:
			if !ok {
				w.rl.setClosed(w.r.Err())
				return
			}
			w.rl.addGot(f)
		default:
			return
		}
	}
}

// heartbeat measures how long this process can go without running a goroutine that sleeps 50 ms
// and allocates (so that it is held up by the garbage collector like everybody else). Its reading
// never produces a violation: it only turns a run into "inconclusive: the box stalled".
type heartbeat struct {
	stop   chan struct{}
	done   chan struct{}
	maxGap atomic.Int64 // nanoseconds
}

var hbSink atomic.Value

func startHeartbeat() *heartbeat {
	h := &heartbeat{stop: make(chan struct{}), done: make(chan struct{})}
	go func() {
		defer close(h.done)
		last := time.Now()
		for {
			select {
			case <-h.stop:
				return
			case <-time.After(50 * time.Millisecond):
			}
			hbSink.Store(make([]byte, 4096))
			now := time.Now()
			if g := now.Sub(last); int64(g) > h.maxGap.Load() {
				h.maxGap.Store(int64(g))
			}
			last = now
		}
	}()
	return h
}

func (h *heartbeat) end() time.Duration {
	close(h.stop)
	<-h.done
	return time.Duration(h.maxGap.Load())
}

// ---------------------------------------------------------------------------------------------
// slow pages

type slowCfg struct {
	Index     int    `json:"index"`
	Transport string `json:"transport"` // shim | pipe | tcp
	VName     string `json:"version_name"`
	Version   uint8  `json:"version"`
	TimeoutMs int    `json:"read_timeout_ms"`
	Pages     int    `json:"pages"`
	GapMs     int    `json:"gap_between_pages_ms"`
	Requests  int    `json:"requests"`
}

func makeSlowCfg(seed int64, index int) slowCfg {
	r := mon.NewRand(seed, uint64(9_000_000+index))
	cfg := slowCfg{Index: index, Transport: []string{"shim", "pipe", "tcp"}[index%3]}
	if (index/3)%2 == 0 {
		cfg.VName, cfg.Version = "dse2", uint8(primitive.ProtocolVersionDse2)
	} else {
		cfg.VName, cfg.Version = "dse1", uint8(primitive.ProtocolVersionDse1)
	}
	cfg.TimeoutMs = 2700 + r.Intn(300)
	cfg.Pages = 8 + r.Intn(3)
	cfg.GapMs = 350 + r.Intn(51)
	for cfg.Pages*cfg.GapMs < cfg.TimeoutMs+600 {
		cfg.Pages++
	}
	cfg.Requests = 1 + r.Intn(3)
	return cfg
}

type slowResult struct {
	outcome  string // ok | fail | inconclusive
	why      string
	classes  map[string][]string // uid -> classes
	logs     []map[string]any
	hbMaxMs  int64
	gapMaxMs int64
}

// runSlowPages: a failing run is repeated once; a violation needs two failing runs during which
// neither the heartbeat nor the emitter's own page-to-page gaps exceeded ReadTimeout/3.
func runSlowPages(c *mon.Ctx, index int) {
	cfg := makeSlowCfg(c.Seed, index)
	var res slowResult
	fails := 0
	for attempt := 0; attempt < 3; attempt++ {
		res = slowPagesOnce(c, cfg, attempt)
		c.Count("slow_pages_runs", 1)
		c.Max("max_slow_pages_heartbeat_gap_ms", res.hbMaxMs)
		c.Max("max_slow_pages_emitter_gap_ms", res.gapMaxMs)
		if res.outcome == "ok" {
			break
		}
		if res.outcome == "fail" {
			if fails++; fails == 2 {
				break
			}
		}
	}
	c.Distinct(fmt.Sprintf("slow/%s/%s/%d/%d/%d/%d", cfg.Transport, cfg.VName, cfg.TimeoutMs, cfg.Pages, cfg.GapMs, cfg.Requests))
	switch {
	case res.outcome == "ok":
		c.Eval(cfg.Requests)
		c.Count("slow_pages_requests_judged", int64(cfg.Requests))
		c.Count("slow_pages_"+cfg.Transport+"_held", 1)
	case res.outcome == "fail" && fails == 2:
		c.Eval(cfg.Requests)
		c.Count("slow_pages_requests_judged", int64(cfg.Requests))
		for uid, classes := range res.classes {
			for _, class := range classes {
				key := vkey("slow-pages/"+cfg.Transport, class)
				switch class {
				case "lost", "closed-early", "closed-with-error", "not-closed-after-last-page":
					key = "slow-pages/" + cfg.Transport + "/pages-lost-or-closed-early"
				}
				c.Violation(key, map[string]any{"workload": "slow-pages", "index": index, "seed": c.Seed, "scenario": cfg,
					"uid": uid, "classes": classes, "request_logs": res.logs,
					"max_heartbeat_gap_ms": res.hbMaxMs, "max_emitter_gap_ms": res.gapMaxMs,
					"note": "every page was handed over less than ReadTimeout/3 after the previous one (and the first one after the send); the last page later than ReadTimeout after the send"})
			}
		}
	default:
		c.Inconclusive("slow-pages/" + res.why)
		if c.Counter("notes_slow_"+res.why) < 3 {
			c.Count("notes_slow_"+res.why, 1)
			c.Note("slow pages %d (%s): %s: heartbeat gap %d ms, emitter gap %d ms, read timeout %d ms", index, cfg.Transport, res.why, res.hbMaxMs, res.gapMaxMs, cfg.TimeoutMs)
		}
	}
}

func slowPagesOnce(c *mon.Ctx, cfg slowCfg, attempt int) (res slowResult) {
	rnd := mon.NewRand(c.Seed, uint64(9_500_000+cfg.Index*8+attempt))
	v := primitive.ProtocolVersion(cfg.Version)
	timeout := time.Duration(cfg.TimeoutMs) * time.Millisecond
	gap := time.Duration(cfg.GapMs) * time.Millisecond
	sess := (5 << 20) + cfg.Index*8 + attempt
	p := plan{Kind: kPaged, Pages: cfg.Pages}
	ctx, cancel := context.WithCancel(context.Background())
	defer cancel()
	inconclusive := func(why string) slowResult {
		res.outcome, res.why = "inconclusive", why
		return res
	}
	hb := startHeartbeat()
	hbEnded := false
	endHB := func() {
		if !hbEnded {
			hbEnded = true
			res.hbMaxMs = hb.end().Milliseconds()
		}
	}
	defer endHB()
	var maxGap time.Duration
	noteGap := func(since time.Time) time.Time {
		now := time.Now()
		if g := now.Sub(since); g > maxGap {
			maxGap = g
		}
		return now
	}
	halt := make(chan struct{})
	var rls []*reqLog
	var ws []*watcher
	quiescent := false

	if cfg.Transport == "shim" {
		h := client.VerifNewInFlight(ctx, 8, cfg.Pages, timeout)
		defer func() { mon.Guard(func() { h.Close() }) }()
		var rs []client.InFlightRequest
		for i := 0; i < cfg.Requests; i++ {
			uid := uidOf(sess, i)
			r, err := h.Enqueue(requestFrame(v, client.ManagedStreamId, uid))
			if err != nil {
				return inconclusive("enqueue-refused")
			}
			rl := &reqLog{uid: uid, sid: r.StreamId(), sent: true, allSettled: true}
			rls, rs = append(rls, rl), append(rs, r)
			ws = append(ws, watch(rl, r, halt))
		}
		last := time.Now()
		for page := 1; page <= cfg.Pages; page++ {
			time.Sleep(gap)
			for i, rl := range rls {
				f, ntag := responseFrame(v, rl.sid, rl.uid, p, page, rnd)
				rl.addExp(ntag)
				if i == 0 {
					last = noteGap(last)
				}
				mon.Guard(func() { _ = h.Deliver(f) })
			}
		}
		_ = rs
		quiescent = true // every Deliver call has returned
	} else {
		cli, srv, err := connPair(cfg.Transport)
		if err != nil {
			return inconclusive("connect-failed")
		}
		defer srv.Close()
		conn, err := client.VerifNewClientConn(cli, ctx, nil, primitive.CompressionNone, 8, cfg.Pages, timeout, nil)
		if err != nil {
			cli.Close()
			return inconclusive("connect-failed")
		}
		closeBoth := func() {
			srv.Close()
			for i := 0; i < 500 && !conn.IsClosed(); i++ {
				time.Sleep(10 * time.Millisecond)
			}
			conn.Close()
		}
		defer closeBoth()
		mp := newMiniPeer(srv, v, primitive.CompressionNone)
		type arrival struct {
			uid string
			sid int16
		}
		var mu sync.Mutex
		byUID := map[string]*reqLog{}
		pagesDone := make(chan error, 1)
		sentinelDone := make(chan error, 1)
		go func() {
			if err := mp.handshake(); err != nil {
				pagesDone <- err
				return
			}
			var arr []arrival
			for len(arr) < cfg.Requests {
				f, err := mp.read()
				if err != nil {
					pagesDone <- err
					return
				}
				if q, ok := f.Body.Message.(*message.Query); ok {
					arr = append(arr, arrival{q.Query, f.Header.StreamId})
				}
			}
			last := time.Now()
			for page := 1; page <= cfg.Pages; page++ {
				time.Sleep(gap)
				for i, a := range arr {
					mu.Lock()
					rl := byUID[a.uid]
					mu.Unlock()
					f, ntag := responseFrame(v, a.sid, a.uid, p, page, rnd)
					rl.addExp(ntag)
					if i == 0 {
						last = noteGap(last)
					}
					if err := mp.write(f); err != nil {
						pagesDone <- err
						return
					}
				}
			}
			pagesDone <- nil
			// the trailing sentinel request: its response is the barrier
			for {
				f, err := mp.read()
				if err != nil {
					sentinelDone <- err
					return
				}
				if q, ok := f.Body.Message.(*message.Query); ok {
					sentinelDone <- mp.write(frame.NewFrame(v, f.Header.StreamId, &message.SetKeyspaceResult{Keyspace: q.Query + "/p1L/" + pad(rnd)}))
				}
			}
		}()
		if err := handshakeWithWatchdog(conn, v); err != nil {
			return inconclusive("handshake-failed")
		}
		for i := 0; i < cfg.Requests; i++ {
			uid := uidOf(sess, i)
			rl := &reqLog{uid: uid, allSettled: true}
			mu.Lock()
			byUID[uid] = rl
			mu.Unlock()
			r, err := conn.Send(requestFrame(v, client.ManagedStreamId, uid))
			if err != nil {
				return inconclusive("send-refused")
			}
			rl.mu.Lock()
			rl.sid, rl.sent = r.StreamId(), true
			rl.mu.Unlock()
			rls = append(rls, rl)
			ws = append(ws, watch(rl, r, halt))
		}
		select {
		case err := <-pagesDone:
			if err != nil {
				return inconclusive("peer-failed")
			}
		case <-time.After(time.Duration(cfg.Pages)*gap + 40*time.Second):
			return inconclusive("peer-watchdog")
		}
		// barrier: a trailing request, answered at once; when its response is here every page has
		// been processed by the (sequential) incoming loop
		if !conn.IsClosed() {
			if r, err := conn.Send(requestFrame(v, client.ManagedStreamId, fmt.Sprintf("u%d-s", sess))); err == nil {
				select {
				case f, ok := <-r.Incoming():
					quiescent = ok && f != nil
				case <-time.After(20 * time.Second):
				}
			}
		}
		if !quiescent {
			return inconclusive("no-barrier")
		}
	}
	endHB()
	res.gapMaxMs = maxGap.Milliseconds()
	close(halt)
	for _, w := range ws {
		w.settle()
	}
	res.classes = map[string][]string{}
	for _, rl := range rls {
		if classes := judgeReq(rl, quiescent, false); len(classes) > 0 {
			res.classes[rl.uid] = classes
		}
		res.logs = append(res.logs, rl.excerpt())
	}
	if len(res.classes) == 0 {
		res.outcome = "ok"
		return
	}
	// the only thing a clock is used for: was this box running normally?
	if limit := timeout / 3; time.Duration(res.hbMaxMs)*time.Millisecond > limit || maxGap > limit {
		return inconclusive("box-stalled")
	}
	res.outcome = "fail"
	return
}

// ---------------------------------------------------------------------------------------------
// fatal ending

type fatalCfg struct {
	Index       int    `json:"index"`
	Transport   string `json:"transport"`
	VName       string `json:"version_name"`
	Version     uint8  `json:"version"`
	Compression string `json:"compression"`
	K           int    `json:"outstanding"`
	Answered    int    `json:"answered_before_the_fatal_error"`
	Code        string `json:"fatal_error"`
	Packing     string `json:"packing"` // one-write | separate | fatal-alone
}

func makeFatalCfg(seed int64, index int) fatalCfg {
	r := mon.NewRand(seed, uint64(10_000_000+index))
	vs := []struct {
		v primitive.ProtocolVersion
		n string
	}{{primitive.ProtocolVersion5, "v5"}, {primitive.ProtocolVersion4, "v4"}, {primitive.ProtocolVersionDse2, "dse2"},
		{primitive.ProtocolVersion3, "v3"}, {primitive.ProtocolVersion2, "v2"}, {primitive.ProtocolVersionDse1, "dse1"}}
	b := vs[index%len(vs)]
	cfg := fatalCfg{Index: index, VName: b.n, Version: uint8(b.v)}
	cfg.Compression = []string{"NONE", "LZ4"}[(index/len(vs))%2]
	cfg.Transport = []string{"pipe", "tcp"}[(index/(2*len(vs)))%2]
	cfg.K = 2 + r.Intn(6)
	cfg.Answered = r.Intn(cfg.K)
	cfg.Code = []string{"SERVER_ERROR", "PROTOCOL_ERROR", "AUTH_ERROR"}[r.Intn(3)]
	cfg.Packing = []string{"one-write", "separate", "fatal-alone"}[r.Intn(3)]
	return cfg
}

func runFatalEnding(c *mon.Ctx, index int) {
	cfg := makeFatalCfg(c.Seed, index)
	rnd := mon.NewRand(c.Seed, uint64(10_500_000+index))
	v := primitive.ProtocolVersion(cfg.Version)
	comp := primitive.Compression(cfg.Compression)
	sess := (6 << 20) + index
	inconclusive := func(why, note string) {
		c.Inconclusive("fatal-ending/" + why)
		if c.Counter("notes_fatal_"+why) < 3 {
			c.Count("notes_fatal_"+why, 1)
			c.Note("fatal ending %d (%s %s %s): %s: %s", index, cfg.VName, cfg.Compression, cfg.Transport, why, note)
		}
	}
	cli, srv, err := connPair(cfg.Transport)
	if err != nil {
		inconclusive("connect-failed", err.Error())
		return
	}
	ctx, cancel := context.WithCancel(context.Background())
	defer cancel()
	conn, err := client.VerifNewClientConn(cli, ctx, nil, comp, 16, 4, time.Hour, nil)
	if err != nil {
		cli.Close()
		srv.Close()
		inconclusive("connect-failed", err.Error())
		return
	}
	defer func() {
		srv.Close()
		for i := 0; i < 500 && !conn.IsClosed(); i++ {
			time.Sleep(10 * time.Millisecond)
		}
		conn.Close()
	}()
	mp := newMiniPeer(srv, v, comp)
	var mu sync.Mutex
	byUID := map[string]*reqLog{}
	var victimUID string
	var answered []string
	peerDone := make(chan error, 1)
	go func() {
		if err := mp.handshake(); err != nil {
			peerDone <- err
			return
		}
		type arrival struct {
			uid string
			sid int16
		}
		var arr []arrival
		for len(arr) < cfg.K {
			f, err := mp.read()
			if err != nil {
				peerDone <- err
				return
			}
			if q, ok := f.Body.Message.(*message.Query); ok {
				arr = append(arr, arrival{q.Query, f.Header.StreamId})
			}
		}
		// PRNG order: the first cfg.Answered get an ordinary answer, the next one the fatal error
		for i := len(arr) - 1; i > 0; i-- {
			j := rnd.Intn(i + 1)
			arr[i], arr[j] = arr[j], arr[i]
		}
		var frames []*frame.Frame
		for i := 0; i < cfg.Answered; i++ {
			mu.Lock()
			rl := byUID[arr[i].uid]
			answered = append(answered, arr[i].uid)
			mu.Unlock()
			f, ntag := responseFrame(v, arr[i].sid, arr[i].uid, plan{Kind: respKind(rnd.Intn(3)), Pages: 1}, 1, rnd)
			rl.addExp(ntag)
			frames = append(frames, f)
		}
		vic := arr[cfg.Answered]
		ntag := vic.uid + "/p1L"
		tag := ntag + "/" + pad(rnd)
		var m message.Message
		switch cfg.Code {
		case "SERVER_ERROR":
			m = &message.ServerError{ErrorMessage: tag}
		case "PROTOCOL_ERROR":
			m = &message.ProtocolError{ErrorMessage: tag}
		default:
			m = &message.AuthenticationError{ErrorMessage: tag}
		}
		mu.Lock()
		victimUID = vic.uid
		rl := byUID[vic.uid]
		mu.Unlock()
		rl.addExp(ntag)
		fatal := frame.NewFrame(v, vic.sid, m)
		var werr error
		switch cfg.Packing {
		case "one-write":
			werr = mp.write(append(frames, fatal)...)
		case "separate":
			for _, f := range append(frames, fatal) {
				if werr = mp.write(f); werr != nil {
					break
				}
			}
		default:
			if len(frames) > 0 {
				werr = mp.write(frames...)
			}
			if werr == nil {
				werr = mp.write(fatal)
			}
		}
		peerDone <- werr
		for { // the fatal error was the peer's last frame; wait for the client to go away
			if _, err := mp.read(); err != nil {
				return
			}
		}
	}()
	if err := handshakeWithWatchdog(conn, v); err != nil {
		inconclusive("handshake-failed", err.Error())
		return
	}
	never := make(chan struct{})
	var rls []*reqLog
	var ws []*watcher
	for i := 0; i < cfg.K; i++ {
		uid := uidOf(sess, i)
		rl := &reqLog{uid: uid, allSettled: true}
		mu.Lock()
		byUID[uid] = rl
		mu.Unlock()
		r, err := conn.Send(requestFrame(v, client.ManagedStreamId, uid))
		if err != nil {
			inconclusive("send-refused", err.Error())
			return
		}
		rl.mu.Lock()
		rl.sid, rl.sent = r.StreamId(), true
		rl.mu.Unlock()
		rls = append(rls, rl)
		ws = append(ws, watch(rl, r, never))
	}
	select {
	case err := <-peerDone:
		if err != nil {
			inconclusive("peer-failed", err.Error())
			return
		}
	case <-time.After(40 * time.Second):
		inconclusive("peer-watchdog", "")
		return
	}
	// The fatal error makes the client close the connection, which closes every request that is
	// still pending: every channel ends up closed. That (not a clock) is the end of the session.
	deadline := time.After(40 * time.Second)
	for _, w := range ws {
		select {
		case <-w.done:
		case <-deadline:
			inconclusive("requests-never-closed", fmt.Sprintf("connection closed: %v", conn.IsClosed()))
			return
		}
	}
	mu.Lock()
	vic := victimUID
	ans := map[string]bool{}
	for _, u := range answered {
		ans[u] = true
	}
	mu.Unlock()
	logs := func() (out []map[string]any) {
		for _, rl := range rls {
			out = append(out, rl.excerpt())
		}
		return
	}
	for _, rl := range rls {
		var classes []string
		switch {
		case rl.uid == vic, ans[rl.uid]:
			// answered before the connection went down: judged like any other response
			classes = judgeReq(rl, true, false)
		default:
			// never answered, closed by the abort: only "no frame of somebody else reached it"
			classes = judgeReq(rl, false, true)
		}
		for _, class := range classes {
			key := vkey("fatal-error/"+cfg.VName, class)
			if rl.uid == vic {
				switch class {
				case "lost", "closed-early", "closed-with-error", "not-closed-after-last-page":
					key = "fatal-error/" + cfg.VName + "/not-delivered-to-its-request"
				}
			}
			c.Violation(key, map[string]any{"workload": "fatal-ending", "index": index, "seed": c.Seed, "scenario": cfg,
				"victim": vic, "request": rl.uid, "classes": classes, "request_logs": logs()})
		}
	}
	c.Eval(len(rls))
	c.Count("fatal_ending_sessions", 1)
	c.Count("fatal_ending_sessions_"+cfg.VName, 1)
	c.Count("fatal_ending_requests_judged", int64(len(rls)))
	c.Distinct(fmt.Sprintf("fatal/%s/%s/%s/%d/%d/%s/%s/%s", cfg.VName, cfg.Compression, cfg.Transport, cfg.K, cfg.Answered, cfg.Code, cfg.Packing, vic))
}

// ---------------------------------------------------------------------------------------------
// reuse after done: request A (caller-chosen id N) is closed by overflowing its pending buffer (more
// than MaxPending pages while the caller does not read: closed with an error by design) although
// the peer has not finished answering it. A new request B is then sent on the same id. Whether the
// library refuses B ("stream id already in use") or accepts it is not judged. Judged, strictly by
// tags: no frame tagged for A is ever received by B, and a B that was accepted receives its own
// response. Fully scripted, no timers.

type reuseCfg struct {
	Index      int    `json:"index"`
	Transport  string `json:"transport"` // shim | pipe | tcp
	VName      string `json:"version_name"`
	Version    uint8  `json:"version"`
	ID         int16  `json:"stream_id"`
	MaxPending int    `json:"max_pending"`
	PagesOfA   int    `json:"pages_of_a"`
	Others     int    `json:"other_requests_outstanding"`
}

func makeReuseCfg(seed int64, index int) reuseCfg {
	r := mon.NewRand(seed, uint64(11_000_000+index))
	cfg := reuseCfg{Index: index, Transport: []string{"shim", "pipe", "shim", "tcp"}[index%4]}
	if r.Bool() {
		cfg.VName, cfg.Version = "dse2", uint8(primitive.ProtocolVersionDse2)
	} else {
		cfg.VName, cfg.Version = "dse1", uint8(primitive.ProtocolVersionDse1)
	}
	cfg.ID = int16(1 + r.Intn(2000))
	if r.Intn(4) == 0 {
		cfg.ID = -cfg.ID - 1
	}
	cfg.MaxPending = 1 + r.Intn(5)
	cfg.PagesOfA = cfg.MaxPending + 2 + r.Intn(3)
	cfg.Others = r.Intn(3)
	return cfg
}

func runReuseAfterDone(c *mon.Ctx, index int) {
	cfg := makeReuseCfg(c.Seed, index)
	rnd := mon.NewRand(c.Seed, uint64(11_500_000+index))
	v := primitive.ProtocolVersion(cfg.Version)
	sess := (7 << 20) + index
	pA := plan{Kind: kPaged, Pages: cfg.PagesOfA}
	inconclusive := func(why, note string) {
		c.Inconclusive("reuse-after-done/" + why)
		if c.Counter("notes_reuse_"+why) < 3 {
			c.Count("notes_reuse_"+why, 1)
			c.Note("reuse after done %d (%s): %s: %s", index, cfg.Transport, why, note)
		}
	}
	ctx, cancel := context.WithCancel(context.Background())
	defer cancel()

	// the two operations of the library under test, over the shim or over a connection
	var enqueue func(uid string, sid int16) (client.InFlightRequest, error) // Send; for sockets also lets the peer read the request
	var deliver func(f *frame.Frame) error                                  // the peer writes / the shim delivers
	var barrier func() bool                                                 // true when everything delivered so far has been processed
	var ops []string
	op := func(format string, a ...any) { ops = append(ops, fmt.Sprintf(format, a...)) }

	if cfg.Transport == "shim" {
		h := client.VerifNewInFlight(ctx, 16, cfg.MaxPending, time.Hour)
		defer func() { mon.Guard(func() { h.Close() }) }()
		enqueue = func(uid string, sid int16) (r client.InFlightRequest, err error) {
			mon.Guard(func() { r, err = h.Enqueue(requestFrame(v, sid, uid)) })
			return
		}
		deliver = func(f *frame.Frame) error { mon.Guard(func() { _ = h.Deliver(f) }); return nil }
		barrier = func() bool { return true }
	} else {
		cli, srv, err := connPair(cfg.Transport)
		if err != nil {
			inconclusive("connect-failed", err.Error())
			return
		}
		conn, err := client.VerifNewClientConn(cli, ctx, nil, primitive.CompressionNone, 16, cfg.MaxPending, time.Hour, nil)
		if err != nil {
			cli.Close()
			srv.Close()
			inconclusive("connect-failed", err.Error())
			return
		}
		defer func() {
			srv.Close()
			for i := 0; i < 500 && !conn.IsClosed(); i++ {
				time.Sleep(10 * time.Millisecond)
			}
			conn.Close()
		}()
		mp := newMiniPeer(srv, v, primitive.CompressionNone)
		hs := make(chan error, 1)
		go func() { hs <- mp.handshake() }()
		if err := handshakeWithWatchdog(conn, v); err != nil {
			inconclusive("handshake-failed", err.Error())
			return
		}
		if err := <-hs; err != nil {
			inconclusive("handshake-failed", err.Error())
			return
		}
		readQuery := func() error {
			srv.SetReadDeadline(time.Now().Add(30 * time.Second)) // watchdog only: an expiry is inconclusive
			f, err := mp.read()
			if err != nil {
				return err
			}
			if _, ok := f.Body.Message.(*message.Query); !ok {
				return fmt.Errorf("harness: expected QUERY, got %v", f.Body.Message)
			}
			return nil
		}
		enqueue = func(uid string, sid int16) (client.InFlightRequest, error) {
			r, err := conn.Send(requestFrame(v, sid, uid))
			if err != nil {
				return nil, err
			}
			if rerr := readQuery(); rerr != nil {
				return r, fmt.Errorf("harness: %w", rerr)
			}
			return r, nil
		}
		deliver = func(f *frame.Frame) error {
			srv.SetWriteDeadline(time.Now().Add(30 * time.Second))
			return mp.write(f)
		}
		nb := 0
		barrierID := int16(3000)
		barrier = func() bool {
			nb++
			uid := fmt.Sprintf("u%d-s%d", sess, nb)
			r, err := conn.Send(requestFrame(v, barrierID, uid))
			if err != nil || readQuery() != nil {
				return false
			}
			if deliver(frame.NewFrame(v, barrierID, &message.SetKeyspaceResult{Keyspace: uid + "/p1L/" + pad(rnd)})) != nil {
				return false
			}
			select {
			case f, ok := <-r.Incoming():
				return ok && f != nil
			case <-time.After(30 * time.Second):
				return false
			}
		}
	}

	type held struct {
		rl *reqLog
		r  client.InFlightRequest
	}
	var all []*held
	send := func(n int, sid int16) (*held, error) {
		uid := uidOf(sess, n)
		r, err := enqueue(uid, sid)
		if r == nil {
			op("send %s id=%d refused: %v", uid, sid, err)
			return nil, err
		}
		hd := &held{rl: &reqLog{uid: uid, sid: r.StreamId(), sent: true, allSettled: true}, r: r}
		all = append(all, hd)
		op("send %s id=%d accepted", uid, sid)
		return hd, err
	}
	drain := func(hd *held) {
		if hd.rl.closed {
			return
		}
		ch := hd.r.Incoming()
		for {
			select {
			case f, ok := <-ch:
				if !ok {
					hd.rl.setClosed(hd.r.Err())
					return
				}
				hd.rl.addGot(f)
			default:
				return
			}
		}
	}
	page := func(hd *held, p plan, n int) error {
		f, ntag := responseFrame(v, hd.rl.sid, hd.rl.uid, p, n, rnd)
		hd.rl.addExp(ntag)
		op("deliver %s id=%d", ntag, hd.rl.sid)
		return deliver(f)
	}
	harness := func(err error) bool {
		if err != nil {
			inconclusive("harness-io", err.Error())
			return true
		}
		return false
	}

	// other requests, answered at the very end: they must not be disturbed
	var others []*held
	for i := 0; i < cfg.Others; i++ {
		oid := cfg.ID + int16(1+i)
		if cfg.ID < 0 {
			oid = cfg.ID - int16(1+i)
		}
		o, err := send(10+i, oid)
		if o == nil || harness(err) {
			if o == nil {
				inconclusive("send-refused", fmt.Sprint(err))
			}
			return
		}
		others = append(others, o)
	}
	a, err := send(0, cfg.ID)
	if a == nil || harness(err) {
		if a == nil {
			inconclusive("send-refused", fmt.Sprint(err))
		}
		return
	}
	// MaxPending+1 pages while nobody reads: A is closed with an error (by design), the peer is not done
	for n := 1; n <= cfg.MaxPending+1; n++ {
		if harness(page(a, pA, n)) {
			return
		}
	}
	if !barrier() {
		inconclusive("no-barrier", "after the overflow")
		return
	}
	drain(a)
	if !a.rl.closed || a.rl.err == "" {
		inconclusive("a-not-closed-by-overflow", fmt.Sprintf("closed=%v err=%q got=%v", a.rl.closed, a.rl.err, a.rl.got))
		return
	}
	a.rl.tainted = true // closed with an error by design: its own log is not judged
	// B on the same id
	b, err := send(1, cfg.ID)
	if b != nil && harness(err) {
		return
	}
	if b != nil {
		c.Count("reuse_after_done_b_accepted_while_a_unfinished", 1)
	} else {
		c.Count("reuse_after_done_b_refused_while_a_unfinished", 1)
	}
	// the late pages of A, then (if B exists) B's own answer
	for n := cfg.MaxPending + 2; n <= cfg.PagesOfA; n++ {
		if harness(page(a, pA, n)) {
			return
		}
	}
	pB := plan{Kind: respKind(rnd.Intn(3)), Pages: 1}
	if b != nil {
		if harness(page(b, pB, 1)) {
			return
		}
	}
	if !barrier() {
		inconclusive("no-barrier", "after the late pages")
		return
	}
	var b2 *held
	if b == nil {
		// A has been answered completely now: its id is free again
		b2, err = send(2, cfg.ID)
		if b2 != nil && harness(err) {
			return
		}
		if b2 != nil {
			if harness(page(b2, pB, 1)) {
				return
			}
		} else {
			c.Count("reuse_after_done_id_still_refused_after_last_page", 1)
		}
	}
	for _, o := range others {
		if harness(page(o, plan{Kind: respKind(rnd.Intn(3)), Pages: 1}, 1)) {
			return
		}
	}
	if !barrier() {
		inconclusive("no-barrier", "at the end")
		return
	}
	judged := 0
	for _, hd := range all {
		drain(hd)
		if hd.rl.tainted {
			continue
		}
		judged++
		classes := judgeReq(hd.rl, true, false)
		for _, class := range classes {
			key := vkey("reuse-after-done/"+cfg.Transport, class)
			if hd == b || hd == b2 {
				switch class {
				case "misrouted":
					key = "reuse-after-done/late-response-misrouted"
				case "lost", "closed-early", "closed-with-error", "not-closed-after-last-page":
					key = "reuse-after-done/own-response-lost"
				}
			}
			var logs []map[string]any
			for _, x := range all {
				logs = append(logs, x.rl.excerpt())
			}
			c.Violation(key, map[string]any{"workload": "reuse-after-done", "index": index, "seed": c.Seed, "scenario": cfg,
				"request": hd.rl.uid, "classes": classes, "ops": ops, "request_logs": logs})
		}
	}
	c.Eval(judged)
	c.Count("reuse_after_done_histories", 1)
	c.Count("reuse_after_done_"+cfg.Transport, 1)
	c.Distinct(fmt.Sprintf("reuse/%s/%s/%d/%d/%d/%d/%v", cfg.Transport, cfg.VName, cfg.ID, cfg.MaxPending, cfg.PagesOfA, cfg.Others, b != nil))
}

// ---------------------------------------------------------------------------------------------
// scripted socket sessions for three situations ordinary sessions produce too rarely or, when they
// do, end as "connection closed by the client: inconclusive":
//
//	A  spurious frames of every kind - RESULT, continuous page, and ERROR with non-fatal codes - on ids
//	   nobody waits on, while k >= 2 requests are outstanding that are answered only afterwards: every
//	   one of them must still receive its own response (unknown-id/disturbed-others)
//	B  a continuous-paging response with more pages than MaxPending, consumed in lock-step (never more
//	   than one page pending): all pages must arrive (DSE)
//	C  a v5 response larger than one segment whose parts are interleaved with a self-contained segment
//	   carrying an EVENT: the response must still be reassembled and reach its request
//
// Nothing the peer sends here entitles the client to close the connection, and every frame is
// round-tripped through the codec by the harness first, so a closed request is a fact, not timing.

type scriptCfg struct {
	Index       int    `json:"index"`
	Variant     string `json:"variant"` // spurious | long-paged | large-interleaved
	Transport   string `json:"transport"`
	VName       string `json:"version_name"`
	Version     uint8  `json:"version"`
	Compression string `json:"compression"`
	K           int    `json:"outstanding"`
	MaxPending  int    `json:"max_pending"`
}

func makeScriptCfg(seed int64, index int) scriptCfg {
	r := mon.NewRand(seed, uint64(12_000_000+index))
	cfg := scriptCfg{Index: index, Variant: []string{"spurious", "spurious", "long-paged", "large-interleaved"}[index%4]}
	b := sockConfigs[(index/4)%len(sockConfigs)]
	if b.comp == primitive.CompressionSnappy {
		b.comp = primitive.CompressionNone
	}
	switch cfg.Variant {
	case "long-paged":
		if !b.v.IsDse() {
			b.v, b.name = primitive.ProtocolVersionDse2, "dse2"
			if r.Bool() {
				b.v, b.name = primitive.ProtocolVersionDse1, "dse1"
			}
		}
	case "large-interleaved":
		b.v, b.name = primitive.ProtocolVersion5, "v5"
	}
	cfg.Version, cfg.VName, cfg.Compression = uint8(b.v), b.name, string(b.comp)
	cfg.Transport = []string{"pipe", "tcp"}[r.Intn(2)]
	cfg.K = 2 + r.Intn(4)
	cfg.MaxPending = 1 + r.Intn(4)
	return cfg
}

func nonFatalError(i int, tag string) message.Message {
	switch i % 9 {
	case 0:
		return &message.Invalid{ErrorMessage: tag}
	case 1:
		return &message.Overloaded{ErrorMessage: tag}
	case 2:
		return &message.ReadTimeout{ErrorMessage: tag, Consistency: primitive.ConsistencyLevelQuorum, Received: 1, BlockFor: 2, DataPresent: true}
	case 3:
		return &message.Unavailable{ErrorMessage: tag, Consistency: primitive.ConsistencyLevelQuorum, Required: 2, Alive: 1}
	case 4:
		return &message.IsBootstrapping{ErrorMessage: tag}
	case 5:
		return &message.Unprepared{ErrorMessage: tag, Id: []byte{1, 2, 3, 4}}
	case 6:
		return &message.SyntaxError{ErrorMessage: tag}
	case 7:
		return &message.AlreadyExists{ErrorMessage: tag, Keyspace: "ks", Table: "t"}
	}
	return &message.Unauthorized{ErrorMessage: tag}
}

// writeLarge sends one envelope as non-self-contained segments with `between` (a self-contained
// segment of its own) after the first part.
func (m *miniPeer) writeLarge(f *frame.Frame, between *frame.Frame) (parts int, err error) {
	var env bytes.Buffer
	if err = m.fcodec.EncodeFrame(f, &env); err != nil {
		return 0, fmt.Errorf("harness: cannot encode: %w", err)
	}
	b := env.Bytes()
	if len(b) <= segment.MaxPayloadLength {
		return 0, fmt.Errorf("harness: envelope of %d bytes fits one segment", len(b))
	}
	for off := 0; off < len(b); {
		n := len(b) - off
		if n > segment.MaxPayloadLength {
			n = segment.MaxPayloadLength
		}
		seg := &segment.Segment{Header: &segment.Header{IsSelfContained: false}, Payload: &segment.Payload{UncompressedData: b[off : off+n]}}
		var sb bytes.Buffer
		if err = m.scodec.EncodeSegment(seg, &sb); err != nil {
			return parts, fmt.Errorf("harness: cannot encode segment: %w", err)
		}
		if _, err = m.conn.Write(sb.Bytes()); err != nil {
			return parts, err
		}
		parts++
		off += n
		if parts == 1 && between != nil {
			if err = m.write(between); err != nil {
				return parts, err
			}
		}
	}
	return parts, nil
}

func runScripted(c *mon.Ctx, index int) {
	cfg := makeScriptCfg(c.Seed, index)
	rnd := mon.NewRand(c.Seed, uint64(12_500_000+index))
	v := primitive.ProtocolVersion(cfg.Version)
	comp := primitive.Compression(cfg.Compression)
	sess := (8 << 20) + index
	inconclusive := func(why, note string) {
		c.Inconclusive("scripted/" + why)
		if c.Counter("notes_scripted_"+why) < 3 {
			c.Count("notes_scripted_"+why, 1)
			c.Note("scripted %d (%s %s %s %s): %s: %s", index, cfg.Variant, cfg.VName, cfg.Compression, cfg.Transport, why, note)
		}
	}
	cli, srv, err := connPair(cfg.Transport)
	if err != nil {
		inconclusive("connect-failed", err.Error())
		return
	}
	ctx, cancel := context.WithCancel(context.Background())
	defer cancel()
	conn, err := client.VerifNewClientConn(cli, ctx, nil, comp, 16, cfg.MaxPending, time.Hour, nil)
	if err != nil {
		cli.Close()
		srv.Close()
		inconclusive("connect-failed", err.Error())
		return
	}
	defer func() {
		srv.Close()
		for i := 0; i < 500 && !conn.IsClosed(); i++ {
			time.Sleep(10 * time.Millisecond)
		}
		conn.Close()
	}()
	mp := newMiniPeer(srv, v, comp)
	check := frame.NewCodecWithCompression(client.NewBodyCompressor(comp))
	roundTrips := func(f *frame.Frame) error { // the harness' own frames must be decodable: otherwise a close proves nothing
		var buf bytes.Buffer
		if err := check.EncodeFrame(f, &buf); err != nil {
			return err
		}
		_, err := check.DecodeFrame(&buf)
		return err
	}
	var mu sync.Mutex
	byUID := map[string]*reqLog{}
	acks := map[string]chan struct{}{}     // uid -> one token per frame the consumer has taken
	closedCh := map[string]chan struct{}{} // uid -> closed when the consumer saw the channel close
	var wire []string
	special := "" // uid of the request that gets the long / large response
	nSpur := 0
	peerDone := make(chan error, 1)
	go func() {
		peerDone <- func() error {
			if err := mp.handshake(); err != nil {
				return err
			}
			type arrival struct {
				uid string
				sid int16
			}
			var arr []arrival
			for len(arr) < cfg.K {
				f, err := mp.read()
				if err != nil {
					return err
				}
				if q, ok := f.Body.Message.(*message.Query); ok {
					arr = append(arr, arrival{q.Query, f.Header.StreamId})
				}
			}
			spurious := func(kind int) error {
				// ids in use are the managed ones, 1..16
				sid := int16(17 + rnd.Intn(100))
				if rnd.Bool() {
					sid = -int16(1 + rnd.Intn(127))
				}
				ntag := fmt.Sprintf("x%d-%d/p1L", sess, nSpur)
				tag := ntag + "/" + pad(rnd)
				var m message.Message
				switch kind % 3 {
				case 0:
					m = nonFatalError(nSpur/3+rnd.Intn(9), tag)
				case 1:
					m = &message.SetKeyspaceResult{Keyspace: tag}
				default:
					m = &message.RowsResult{Metadata: &message.RowsMetadata{ColumnCount: 1, ContinuousPageNumber: 1, LastContinuousPage: rnd.Bool()},
						Data: message.RowSet{message.Row{[]byte(tag)}}}
				}
				nSpur++
				f := frame.NewFrame(v, sid, m)
				if err := roundTrips(f); err != nil {
					return fmt.Errorf("harness: spurious frame does not round-trip: %w", err)
				}
				mu.Lock()
				wire = append(wire, fmt.Sprintf("%s id=%d %T", ntag, sid, m))
				mu.Unlock()
				return mp.write(f)
			}
			if cfg.Variant == "spurious" {
				for i, n := 0, 3+rnd.Intn(6); i < n; i++ {
					if err := spurious(i); err != nil {
						return err
					}
				}
			}
			for i := len(arr) - 1; i > 0; i-- {
				j := rnd.Intn(i + 1)
				arr[i], arr[j] = arr[j], arr[i]
			}
			spIdx := -1
			if cfg.Variant != "spurious" {
				spIdx = rnd.Intn(len(arr))
				mu.Lock()
				special = arr[spIdx].uid
				mu.Unlock()
			}
			for i, a := range arr {
				mu.Lock()
				rl, ack, cl := byUID[a.uid], acks[a.uid], closedCh[a.uid]
				mu.Unlock()
				switch {
				case i == spIdx && cfg.Variant == "long-paged":
					p := plan{Kind: kPaged, Pages: cfg.MaxPending + 1 + rnd.Intn(2*cfg.MaxPending+1)}
					c.Max("max_scripted_pages_over_max_pending", int64(p.Pages-cfg.MaxPending))
					for page := 1; page <= p.Pages; page++ {
						f, ntag := responseFrame(v, a.sid, a.uid, p, page, rnd)
						rl.addExp(ntag)
						mu.Lock()
						wire = append(wire, ntag)
						mu.Unlock()
						if err := mp.write(f); err != nil {
							return err
						}
						// lock-step: the consumer has taken this page before the next one is sent
						select {
						case <-ack:
						case <-cl:
						case <-time.After(30 * time.Second):
							return fmt.Errorf("harness: consumer watchdog")
						}
					}
				case i == spIdx && cfg.Variant == "large-interleaved":
					f, ntag := responseFrame(v, a.sid, a.uid, plan{Kind: kBig, Pages: 1, Big: 140_000 + rnd.Intn(200_000)}, 1, rnd)
					ev, etag := eventFrame(v, -1, 'e', sess, 0, rnd.Intn(3))
					rl.addExp(ntag)
					mu.Lock()
					wire = append(wire, ntag+" (parts, with "+etag+" after the first part)")
					mu.Unlock()
					parts, err := mp.writeLarge(f, ev)
					if err != nil {
						return err
					}
					c.Max("max_scripted_parts_of_interleaved_response", int64(parts))
				default:
					f, ntag := responseFrame(v, a.sid, a.uid, plan{Kind: respKind(rnd.Intn(3)), Pages: 1}, 1, rnd)
					rl.addExp(ntag)
					mu.Lock()
					wire = append(wire, ntag)
					mu.Unlock()
					if err := mp.write(f); err != nil {
						return err
					}
				}
				if cfg.Variant == "spurious" && rnd.Intn(2) == 0 {
					if err := spurious(rnd.Intn(3)); err != nil {
						return err
					}
				}
			}
			return nil
		}()
		for {
			if _, err := mp.read(); err != nil {
				return
			}
		}
	}()
	if err := handshakeWithWatchdog(conn, v); err != nil {
		inconclusive("handshake-failed", err.Error())
		return
	}
	var rls []*reqLog
	var dones []chan struct{}
	for i := 0; i < cfg.K; i++ {
		uid := uidOf(sess, i)
		rl := &reqLog{uid: uid, allSettled: true}
		ack, cl := make(chan struct{}, 64), make(chan struct{})
		mu.Lock()
		byUID[uid], acks[uid], closedCh[uid] = rl, ack, cl
		mu.Unlock()
		r, err := conn.Send(requestFrame(v, client.ManagedStreamId, uid))
		if err != nil {
			inconclusive("send-refused", err.Error())
			return
		}
		rl.mu.Lock()
		rl.sid, rl.sent = r.StreamId(), true
		rl.mu.Unlock()
		rls = append(rls, rl)
		dones = append(dones, cl)
		go func() {
			defer close(cl)
			for f := range r.Incoming() {
				rl.addGot(f)
				select {
				case ack <- struct{}{}:
				default:
				}
			}
			rl.setClosed(r.Err())
		}()
	}
	select {
	case err := <-peerDone:
		if err != nil && !conn.IsClosed() {
			inconclusive("peer-failed", err.Error())
			return
		}
		// a write error because the client went away is what is being judged, not a harness failure
	case <-time.After(90 * time.Second):
		inconclusive("peer-watchdog", "")
		return
	}
	// every request is answered (channel closed after its last frame) or, if the client closed the
	// connection, closed by that: either way every channel ends up closed
	deadline := time.After(40 * time.Second)
	for _, d := range dones {
		select {
		case <-d:
		case <-deadline:
			inconclusive("requests-never-closed", fmt.Sprintf("connection closed: %v", conn.IsClosed()))
			return
		}
	}
	mu.Lock()
	sp := special
	w := append([]string{}, wire...)
	mu.Unlock()
	for _, rl := range rls {
		rl.mu.Lock()
		answered := len(rl.exp) > 0
		rl.mu.Unlock()
		// a request the peer did not get to answer (its write failed because the client had gone) is
		// still a request that did not receive its response: the emitter's intent is logged here
		if !answered {
			rl.addExp(rl.uid + "/p1L")
		}
		classes := judgeReq(rl, true, false)
		for _, class := range classes {
			key := vkey("scripted/"+cfg.VName, class)
			switch class {
			case "lost", "closed-early", "closed-with-error", "not-closed-after-last-page":
				switch {
				case cfg.Variant == "spurious":
					key = "unknown-id/disturbed-others"
				case rl.uid == sp && cfg.Variant == "long-paged":
					key = "long-response/" + cfg.Transport + "/pages-beyond-max-pending-lost"
				case rl.uid == sp:
					key = "v5/large-response-interleaved-with-event/lost"
				default:
					key = "scripted/" + cfg.Variant + "/" + cfg.VName + "/other-request-disturbed"
				}
			}
			var logs []map[string]any
			for _, x := range rls {
				logs = append(logs, x.excerpt())
			}
			c.Violation(key, map[string]any{"workload": "scripted", "index": index, "seed": c.Seed, "scenario": cfg, "request": rl.uid,
				"classes": classes, "peer_wrote_in_this_order": clip(w, 60), "request_logs": logs, "connection_closed_by_client": conn.IsClosed()})
		}
	}
	c.Eval(len(rls))
	c.Count("scripted_sessions", 1)
	c.Count("scripted_sessions_"+cfg.Variant, 1)
	c.Count("scripted_spurious_frames", int64(nSpur))
	c.Distinct(fmt.Sprintf("scripted/%s/%s/%s/%s/%d/%d/%v", cfg.Variant, cfg.VName, cfg.Compression, cfg.Transport, cfg.K, cfg.MaxPending, w))
}
