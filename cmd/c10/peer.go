package main

// The raw peer of workload B: a goroutine pair on the server end of the connection that reads the
// client's requests and answers them in a PRNG-permuted order, with small random delays, events
// and responses for unknown stream ids injected in between. It uses the library's frame and
// segment codecs for the bytes (C10 judges routing, not bytes). For protocol v5 everything after
// READY/AUTHENTICATE travels in segments: several envelopes per self-contained segment, and some
// envelopes split across non-self-contained segments.

import (
	"bytes"
	"fmt"
	"net"
	"runtime"
	"strconv"
	"strings"
	"sync/atomic"
	"time"

	"github.com/datastax/go-cassandra-native-protocol/client"
	"github.com/datastax/go-cassandra-native-protocol/frame"
	"github.com/datastax/go-cassandra-native-protocol/message"
	"github.com/datastax/go-cassandra-native-protocol/primitive"
	"github.com/datastax/go-cassandra-native-protocol/segment"

	"verif/internal/mon"
)

type pend struct {
	sentinel bool // the trailing request whose response is the barrier of an undrained-channel session
	arr      int  // arrival number at the peer
	uid      string
	sid      int16
	rl       *reqLog
	p        plan
	next     int
}

type ctlMsg struct {
	barrier int // emit barrier event number n
}

type peer struct {
	s      *session
	cfg    *sessCfg
	conn   net.Conn
	rnd    *mon.Rand
	v      primitive.ProtocolVersion
	fcodec frame.Codec
	scodec segment.Codec

	inbox chan *frame.Frame
	ctl   chan ctlMsg
	done  chan struct{}

	modernRead  bool // reader goroutine only
	modernWrite bool // responder goroutine only

	pool    []*pend
	state   atomic.Value // string: where the responder is (debugging aid for stuck sessions)
	poolLen atomic.Int64 // unanswered requests at the peer, for the session's watchdog
	arrSeq  int
	burst   int
	want    int
	nEv     int
	nSpur   int
	out     bytes.Buffer // legacy: encoded frames not yet written
	outN    int
	envs    [][]byte // v5: encoded envelopes of the segment being filled
	envLen  int
	target  int

	readErr  atomic.Value // string
	writeErr atomic.Value // string
	seenIDs  map[int16]string
}

func newPeer(s *session, conn net.Conn) *peer {
	cfg := &s.cfg
	comp := primitive.Compression(cfg.Compression)
	p := &peer{
		s: s, cfg: cfg, conn: conn, v: primitive.ProtocolVersion(cfg.Version),
		rnd:    mon.NewRand(s.c.Seed, uint64(4_000_000+cfg.Index)),
		fcodec: frame.NewCodecWithCompression(client.NewBodyCompressor(comp)),
		scodec: segment.NewCodecWithCompression(client.NewPayloadCompressor(comp)),
		inbox:  make(chan *frame.Frame, 4096),
		ctl:    make(chan ctlMsg, 4),
		done:   make(chan struct{}),
		target: 1, seenIDs: map[int16]string{},
	}
	return p
}

func (p *peer) readLoop() {
	defer close(p.inbox)
	for {
		if !p.modernRead {
			f, err := p.fcodec.DecodeFrame(p.conn)
			if err != nil {
				p.readErr.Store(err.Error())
				return
			}
			if _, ok := f.Body.Message.(*message.Startup); ok && p.v.SupportsModernFramingLayout() {
				// the client writes nothing more until it has seen READY/AUTHENTICATE, and
				// segments from then on
				p.modernRead = true
			}
			p.inbox <- f
			continue
		}
		seg, err := p.scodec.DecodeSegment(p.conn)
		if err != nil {
			p.readErr.Store(err.Error())
			return
		}
		if !seg.Header.IsSelfContained {
			p.s.c.Count("peer_unexpected_multipart_request", 1)
			continue
		}
		rd := bytes.NewReader(seg.Payload.UncompressedData)
		for rd.Len() > 0 {
			f, err := p.fcodec.DecodeFrame(rd)
			if err != nil {
				p.readErr.Store(err.Error())
				return
			}
			p.inbox <- f
		}
	}
}

func (p *peer) run() {
	defer close(p.done)
	go p.readLoop()
	for {
		if len(p.pool) == 0 {
			p.state.Store("flush-before-idle")
			p.flush()
			p.state.Store("idle")
			select {
			case f, ok := <-p.inbox:
				if !ok {
					return
				}
				p.handle(f)
			case m := <-p.ctl:
				p.control(m)
			}
			continue
		}
		// take whatever has arrived
	drain:
		for {
			select {
			case f, ok := <-p.inbox:
				if !ok {
					return
				}
				p.handle(f)
			case m := <-p.ctl:
				p.control(m)
			default:
				break drain
			}
		}
		if p.burst == 0 {
			// let requests pile up: wait until `want` are unanswered or nothing arrives for a while
			p.want = []int{1, 1, 2, 4, 16, 64, 1 << 20}[p.rnd.Intn(7)]
			if p.cfg.Hold > 0 && p.rnd.Intn(3) == 0 {
				p.want = p.cfg.Hold
			}
			idle := time.Duration(100+p.rnd.Intn(500)) * time.Microsecond
			for len(p.pool) < p.want {
				p.state.Store("hold")
				t := time.NewTimer(idle)
				select {
				case f, ok := <-p.inbox:
					t.Stop()
					if !ok {
						return
					}
					p.handle(f)
					continue
				case <-t.C:
				}
				break
			}
			p.s.c.Max("max_sock_unanswered_at_peer", int64(len(p.pool)))
			p.burst = 1 + p.rnd.Intn(len(p.pool)+1)
		}
		p.burst--
		if len(p.pool) > 0 {
			p.state.Store("answer")
			p.answerOne()
		}
		p.state.Store("after-answer")
		if p.writeErr.Load() != nil {
			// the client is gone: nothing more can be said on this connection
			for range p.inbox {
			}
			return
		}
		switch p.rnd.Intn(12) {
		case 0:
			p.flush()
			time.Sleep(time.Duration(20+p.rnd.Intn(180)) * time.Microsecond)
		case 1:
			runtime.Gosched()
		}
	}
}

func (p *peer) handle(f *frame.Frame) {
	sid := f.Header.StreamId
	switch m := f.Body.Message.(type) {
	case *message.Startup:
		var resp message.Message = &message.Ready{}
		if p.cfg.Auth {
			resp = &message.Authenticate{Authenticator: "org.apache.cassandra.auth.PasswordAuthenticator"}
		}
		p.emit(frame.NewFrame(p.v, sid, resp), false)
		p.flush()
		if p.v.SupportsModernFramingLayout() {
			p.modernWrite = true
		}
	case *message.AuthResponse:
		p.emit(frame.NewFrame(p.v, sid, &message.AuthSuccess{}), false)
		p.flush()
	case *message.Query:
		uid := m.Query
		rl := p.s.lookup(uid)
		if rl == nil {
			p.s.c.Count("peer_unknown_uid", 1)
			return
		}
		if other, busy := p.seenIDs[sid]; busy {
			// two unanswered requests with one stream id: C09's business. Nothing on that id can be
			// judged any more.
			p.s.c.Count("peer_saw_stream_id_collision", 1)
			rl.mu.Lock()
			rl.tainted = true
			rl.mu.Unlock()
			if o := p.s.lookup(other); o != nil {
				o.mu.Lock()
				o.tainted = true
				o.mu.Unlock()
			}
		}
		p.seenIDs[sid] = uid
		n, _ := strconv.Atoi(uid[strings.IndexByte(uid, '-')+1:])
		p.arrSeq++
		q := &pend{arr: p.arrSeq, uid: uid, sid: sid, rl: rl, p: planOf(p.s.c.Seed, p.cfg, n)}
		if strings.HasSuffix(uid, "-s") {
			q.sentinel, q.p = true, plan{Kind: kSetKeyspace, Pages: 1}
		}
		p.pool = append(p.pool, q)
		p.poolLen.Store(int64(len(p.pool)))
	default:
		p.s.c.Count("peer_unexpected_request", 1)
	}
}

// settle records that everything emitted so far precedes the barrier (barrier event, or the
// response to the sentinel request) on the wire.
func (p *peer) settle() {
	p.s.mu.Lock()
	for _, rl := range p.s.order {
		rl.mu.Lock()
		rl.settled = len(rl.exp)
		rl.mu.Unlock()
	}
	p.s.mu.Unlock()
	p.s.ev.mu.Lock()
	p.s.ev.settled = len(p.s.ev.emitted)
	p.s.ev.mu.Unlock()
}

func (p *peer) control(m ctlMsg) {
	p.settle()
	f, _ := eventFrame(p.v, -1, 'b', p.cfg.Index, m.barrier, m.barrier)
	p.emit(f, false)
	p.flush()
}

func (p *peer) answerOne() {
	i := p.rnd.Intn(len(p.pool))
	q := p.pool[i]
	for _, o := range p.pool {
		if o.arr < q.arr {
			p.s.c.Count("sock_frames_answered_before_an_older_request", 1)
			break
		}
	}
	if q.sentinel {
		p.settle()
	}
	q.next++
	f, ntag := responseFrame(p.v, q.sid, q.uid, q.p, q.next, p.rnd)
	q.rl.addExp(ntag) // logged before a single byte is written
	p.s.addWire(ntag)
	if q.next == q.p.Pages {
		p.pool[i] = p.pool[len(p.pool)-1]
		p.pool = p.pool[:len(p.pool)-1]
		p.poolLen.Store(int64(len(p.pool)))
		delete(p.seenIDs, q.sid)
	}
	p.emit(f, true)
	if q.sentinel {
		p.flush()
		return // nothing may follow the barrier
	}
	if p.nEv < p.cfg.MaxEvents && p.rnd.Intn(1000) < p.cfg.EventRate {
		sid := int16(-1)
		if len(p.pool) > 0 && p.rnd.Intn(4) == 0 {
			// an EVENT frame that carries the stream id of an unanswered request: still an event
			sid = p.pool[p.rnd.Intn(len(p.pool))].sid
			p.s.c.Count("sock_events_with_request_stream_id", 1)
		}
		ef, tag := eventFrame(p.v, sid, 'e', p.cfg.Index, p.nEv, p.rnd.Intn(3))
		p.nEv++
		p.s.ev.emit(tag)
		p.s.addWire(tag)
		p.emit(ef, true)
	}
	if p.rnd.Intn(1000) < p.cfg.SpurRate {
		if sid, ok := p.unknownID(); ok {
			sf, ntag := spuriousFrame(p.v, sid, p.cfg.Index, p.nSpur, p.rnd)
			p.nSpur++
			p.s.addWire(ntag)
			p.s.c.Count("sock_spurious", 1)
			p.emit(sf, true)
		}
	}
}

// unknownID picks a stream id that no request of this session can be using: all ids in use are in
// 1..MaxInFlight (managed pool, or the senders' explicit ranges).
func (p *peer) unknownID() (int16, bool) {
	hi := 32767
	lo := -32768
	if p.v < primitive.ProtocolVersion3 {
		hi, lo = 127, -128
	}
	if p.rnd.Bool() && p.cfg.MaxInFlight < hi {
		return int16(p.cfg.MaxInFlight + 1 + p.rnd.Intn(hi-p.cfg.MaxInFlight)), true
	}
	return int16(-1 - p.rnd.Intn(-lo)), true
}

// emit encodes one frame for the wire. compressible says whether the frame may carry the
// COMPRESSED flag (legacy framing only; never during the handshake).
func (p *peer) emit(f *frame.Frame, compressible bool) {
	if p.writeErr.Load() != nil {
		return
	}
	if !p.modernWrite {
		if compressible && p.cfg.Compression != "NONE" && p.rnd.Intn(4) != 0 {
			f.Header.Flags = f.Header.Flags.Add(primitive.HeaderFlagCompressed)
		}
		n0 := p.out.Len()
		if err := p.fcodec.EncodeFrame(f, &p.out); err != nil {
			p.out.Truncate(n0)
			p.s.harnessError("peer cannot encode frame: " + err.Error())
			return
		}
		p.outN++
		if p.outN >= p.target {
			p.flush()
		}
		return
	}
	var env bytes.Buffer
	if err := p.fcodec.EncodeFrame(f, &env); err != nil {
		p.s.harnessError("peer cannot encode envelope: " + err.Error())
		return
	}
	b := env.Bytes()
	if len(b) > segment.MaxPayloadLength || (len(b) >= 18 && p.rnd.Intn(12) == 0) {
		p.flush()
		p.writeSplit(b)
		return
	}
	if p.envLen+len(b) > segment.MaxPayloadLength {
		p.flush()
	}
	p.envs = append(p.envs, b)
	p.envLen += len(b)
	if len(p.envs) >= p.target {
		p.flush()
	}
}

// writeSplit sends one envelope as a sequence of non-self-contained segments; the first part
// holds at least the 9-byte envelope header.
func (p *peer) writeSplit(b []byte) {
	parts := 0
	for off := 0; off < len(b); {
		max := len(b) - off
		if max > segment.MaxPayloadLength {
			max = segment.MaxPayloadLength
		}
		n := max
		min := 1
		if off == 0 {
			min = 9
		}
		if len(b) <= 4096 || p.rnd.Intn(3) == 0 {
			n = min + p.rnd.Intn(max-min+1)
		}
		p.writeSegment(b[off:off+n], false)
		off += n
		parts++
	}
	p.s.c.Count("sock_v5_envelopes_split", 1)
	p.s.c.Max("max_v5_parts_per_envelope", int64(parts))
}

func (p *peer) writeSegment(payload []byte, selfContained bool) {
	seg := &segment.Segment{Header: &segment.Header{IsSelfContained: selfContained}, Payload: &segment.Payload{UncompressedData: payload}}
	var buf bytes.Buffer
	if err := p.scodec.EncodeSegment(seg, &buf); err != nil {
		p.s.harnessError("peer cannot encode segment: " + err.Error())
		return
	}
	if seg.Header.CompressedPayloadLength > 0 && seg.Header.UncompressedPayloadLength > 0 {
		p.s.c.Max("max_lz4_segment_ratio_x100", int64(seg.Header.UncompressedPayloadLength)*100/int64(seg.Header.CompressedPayloadLength))
	}
	p.write(buf.Bytes())
}

func (p *peer) flush() {
	if !p.modernWrite {
		if p.out.Len() > 0 {
			p.s.c.Max("max_frames_per_write", int64(p.outN))
			p.write(p.out.Bytes())
			p.out.Reset()
			p.outN = 0
		}
	} else if len(p.envs) > 0 {
		p.flushEnvs(p.envs)
		p.envs, p.envLen = nil, 0
	}
	p.target = []int{1, 1, 2, 3, 5, 8, 20}[p.rnd.Intn(7)]
}

func (p *peer) flushEnvs(envs [][]byte) {
	var payload []byte
	for _, e := range envs {
		payload = append(payload, e...)
	}
	seg := &segment.Segment{Header: &segment.Header{IsSelfContained: true}, Payload: &segment.Payload{UncompressedData: payload}}
	var buf bytes.Buffer
	if err := p.scodec.EncodeSegment(seg, &buf); err != nil {
		p.s.harnessError("peer cannot encode segment: " + err.Error())
		return
	}
	if cl, ul := seg.Header.CompressedPayloadLength, seg.Header.UncompressedPayloadLength; cl > 0 && ul > 0 {
		if int64(ul) > 7*int64(cl) && len(envs) > 1 {
			// stay clear of the library's known LZ4 limit (ratio > 8 fails to decompress: D1, C08's business)
			p.s.c.Count("sock_d1_guard_splits", 1)
			p.flushEnvs(envs[:len(envs)/2])
			p.flushEnvs(envs[len(envs)/2:])
			return
		}
		p.s.c.Max("max_lz4_segment_ratio_x100", int64(ul)*100/int64(cl))
	}
	p.s.c.Max("max_envelopes_per_segment", int64(len(envs)))
	if len(envs) > 1 {
		p.s.c.Count("sock_v5_segments_with_several_envelopes", 1)
	}
	p.write(buf.Bytes())
}

// write puts bytes on the connection, sometimes in two pieces so that the client sees a frame or
// segment arrive in parts.
func (p *peer) write(b []byte) {
	if p.writeErr.Load() != nil {
		return
	}
	if len(b) > 4 && p.rnd.Intn(6) == 0 {
		cut := 1 + p.rnd.Intn(len(b)-1)
		if _, err := p.conn.Write(b[:cut]); err != nil {
			p.writeErr.Store(err.Error())
			return
		}
		if p.rnd.Bool() {
			runtime.Gosched()
		} else {
			time.Sleep(time.Duration(10+p.rnd.Intn(90)) * time.Microsecond)
		}
		b = b[cut:]
		p.s.c.Count("sock_split_writes", 1)
	}
	p.state.Store("write")
	if _, err := p.conn.Write(b); err != nil {
		p.writeErr.Store(err.Error())
	}
	p.state.Store("written")
}

func errString(v *atomic.Value) string {
	if s, ok := v.Load().(string); ok {
		return s
	}
	return ""
}

// planOf: how request n of a session is answered; a pure function of (seed, session, n).
func planOf(seed int64, cfg *sessCfg, n int) plan {
	r := mon.NewRand(seed, uint64(5_000_000)+uint64(cfg.Index)*100_003+uint64(n))
	v := primitive.ProtocolVersion(cfg.Version)
	x := r.Intn(1000)
	switch {
	case x < cfg.BigRate:
		return plan{Kind: kBig, Pages: 1, Big: 20_000 + r.Intn(280_000)}
	case v.IsDse() && x < 350:
		return plan{Kind: kPaged, Pages: 1 + r.Intn(cfg.MaxPending)}
	}
	return plan{Kind: respKind(r.Intn(3)), Pages: 1}
}

var _ = fmt.Sprintf
