package main

// The monitor's log and the offline checker.
//
// Every request has a unique uid ("u<session>-<n>") carried in its QUERY string. Every response
// frame carries a tag "<owner>/p<page>[L]/<pad>" where owner is the uid of the request it
// answers; events carry "e<session>-<n>", responses for unknown stream ids "x<session>-<n>/…",
// late duplicates "<owner>/p<page>/late…", barrier events "b<session>-<n>". What is judged is only
// the relation between what the emitter (raw peer / shim driver) put on the wire, in which order,
// and what came out of which InFlightRequest.Incoming() / event sink.

import (
	"fmt"
	"strings"
	"sync"

	"github.com/datastax/go-cassandra-native-protocol/frame"
	"github.com/datastax/go-cassandra-native-protocol/message"
)

// tagOf extracts the tag of a frame produced by this harness.
func tagOf(f *frame.Frame) string {
	if f == nil || f.Body == nil || f.Body.Message == nil {
		return "?nil"
	}
	switch m := f.Body.Message.(type) {
	case *message.SetKeyspaceResult:
		return m.Keyspace
	case *message.RowsResult:
		if len(m.Data) > 0 && len(m.Data[0]) > 0 {
			return string(m.Data[0][0])
		}
		return "?rows"
	case *message.Invalid:
		return m.ErrorMessage
	case *message.SyntaxError:
		return m.ErrorMessage
	case message.Error: // the fatal ones of the fatal-ending scenario
		return m.GetErrorMessage()
	case *message.SchemaChangeEvent:
		return m.Keyspace
	case *message.StatusChangeEvent:
		return evTagFromInet(m.Address.Addr, m.Address.Port)
	case *message.TopologyChangeEvent:
		return evTagFromInet(m.Address.Addr, m.Address.Port)
	}
	return fmt.Sprintf("?%T", f.Body.Message)
}

// norm strips the incompressible pad: "u3-7/p2L/ab12" -> "u3-7/p2L"; late duplicates keep their
// marker: "u3-7/p1/late-ab" -> "u3-7/p1/late".
func norm(tag string) string {
	parts := strings.SplitN(tag, "/", 3)
	if len(parts) < 3 {
		return tag
	}
	if strings.HasPrefix(parts[2], "late") {
		return parts[0] + "/" + parts[1] + "/late"
	}
	return parts[0] + "/" + parts[1]
}

func ownerOf(ntag string) string {
	if i := strings.IndexByte(ntag, '/'); i >= 0 {
		return ntag[:i]
	}
	return ntag
}

func isLate(ntag string) bool { return strings.HasSuffix(ntag, "/late") }

// reqLog is the per-request part of the log.
type reqLog struct {
	mu         sync.Mutex
	uid        string
	sid        int16    // stream id the request was sent with
	sent       bool     // accepted by Send / Enqueue
	exp        []string // normalised tags of the response frames emitted for it, in wire order
	got        []string // normalised tags received from Incoming(), in order
	gotSid     []int16  // header stream ids of the received frames
	closed     bool     // Incoming() observed closed
	err        string   // Err() after close
	settled    int      // sockets: how many entries of exp were on the wire before the barrier event
	allSettled bool     // shim: every delivery is synchronous, all of exp has been processed
	tainted    bool     // a late duplicate for a recycled id may have reached it: counted, not judged
	aborted    bool     // the emitter deliberately stopped answering it (tainted cases only)
}

func (r *reqLog) addExp(t string) {
	r.mu.Lock()
	r.exp = append(r.exp, t)
	r.mu.Unlock()
}

func (r *reqLog) addGot(f *frame.Frame) {
	t := norm(tagOf(f))
	var sid int16
	if f != nil && f.Header != nil {
		sid = f.Header.StreamId
	}
	r.mu.Lock()
	r.got = append(r.got, t)
	r.gotSid = append(r.gotSid, sid)
	r.mu.Unlock()
}

func (r *reqLog) setClosed(err error) {
	r.mu.Lock()
	r.closed = true
	if err != nil {
		r.err = err.Error()
	}
	r.mu.Unlock()
}

func (r *reqLog) excerpt() map[string]any {
	r.mu.Lock()
	defer r.mu.Unlock()
	return map[string]any{
		"uid": r.uid, "stream_id": r.sid, "emitted_for_it_in_wire_order": clip(r.exp, 40),
		"received_on_Incoming": clip(r.got, 40), "received_header_stream_ids": clipI(r.gotSid, 40),
		"channel_closed": r.closed, "Err": r.err,
	}
}

func clip(s []string, n int) []string {
	if len(s) <= n {
		return append([]string{}, s...)
	}
	out := append([]string{}, s[:n]...)
	return append(out, fmt.Sprintf("… %d more", len(s)-n))
}

func clipI(s []int16, n int) []int16 {
	if len(s) > n {
		s = s[:n]
	}
	return append([]int16{}, s...)
}

// judgeReq is the offline checker for one request. quiescent says that everything emitted before
// the judgement has provably been processed by the code under test (synchronous shim call
// returned / barrier observed), so that "missing" and "not closed" are facts, not timing.
// connAborted says that the connection was closed by the library for a reason that is not this
// property's business: only classes that a close cannot explain are judged then.
func judgeReq(r *reqLog, quiescent, connAborted bool) (classes []string) {
	r.mu.Lock()
	defer r.mu.Unlock()
	if r.tainted {
		return nil
	}
	add := func(c string) {
		for _, x := range classes {
			if x == c {
				return
			}
		}
		classes = append(classes, c)
	}
	seen := map[string]int{}
	var own []string
	for i, g := range r.got {
		owner := ownerOf(g)
		switch {
		case strings.HasPrefix(g, "e") || strings.HasPrefix(g, "b"):
			add("event/delivered-to-request")
		case strings.HasPrefix(g, "x"):
			add("unknown-id/delivered-to-request")
		case strings.HasPrefix(g, "?"):
			add("foreign-frame")
		case isLate(g):
			// a late duplicate whose id is owned by nobody (or by somebody else) reached this request
			add("misrouted")
		case owner != r.uid:
			add("misrouted")
		default:
			own = append(own, g)
			if r.gotSid[i] != r.sid {
				add("stream-id-mismatch")
			}
		}
		seen[g]++
	}
	for _, e := range r.exp {
		if seen[e] > 1 {
			add("duplicate")
		}
	}
	expSet := map[string]bool{}
	for _, e := range r.exp {
		expSet[e] = true
	}
	for _, g := range own {
		if !expSet[g] {
			add("never-emitted") // a frame of this request's uid that the emitter never produced
		}
	}
	// pages that arrived exactly once must appear in the order they were emitted
	j := 0
	for _, g := range own {
		if !expSet[g] || seen[g] != 1 {
			continue
		}
		for j < len(r.exp) && r.exp[j] != g {
			j++
		}
		if j == len(r.exp) {
			add("page-order")
			break
		}
		j++
	}
	// What follows depends on "has been processed by now": only the part of exp that provably was
	// (synchronous shim call returned / on the wire before the barrier event that has been seen).
	settled := r.exp
	if !r.allSettled {
		settled = r.exp[:r.settled]
	}
	missingSettled := 0
	for _, e := range settled {
		if seen[e] == 0 {
			missingSettled++
		}
	}
	gotLast := false
	for _, g := range own {
		if strings.HasSuffix(g, "L") {
			gotLast = true
		}
	}
	if r.closed {
		switch {
		case r.err != "":
			if !connAborted {
				add("closed-with-error")
			}
		case !gotLast && !r.aborted:
			add("closed-early") // closed normally although no last page had been delivered to it
		}
	} else if quiescent && !connAborted && len(settled) > 0 {
		if l := settled[len(settled)-1]; strings.HasSuffix(l, "L") && seen[l] > 0 {
			add("not-closed-after-last-page")
		}
	}
	if missingSettled > 0 && quiescent && !connAborted && !(r.closed && r.err != "") {
		add("lost")
	}
	return classes
}

// vkey builds the violation key of a class: event/... and unknown-id/... stand alone, everything
// else is prefixed with the workload ("shim", "sock/<version>").
func vkey(prefix, class string) string {
	if strings.HasPrefix(class, "event/") || strings.HasPrefix(class, "unknown-id/") {
		return class
	}
	return prefix + "/" + class
}

// eventLog records what reached the event sinks of one connection.
type eventLog struct {
	mu      sync.Mutex
	emitted []string            // event tags put on the wire, in order
	settled int                 // how many of them were on the wire before the barrier event
	sinks   map[string][]string // sink name -> tags in arrival order (any frame, also non-events)
}

func newEventLog(sinks ...string) *eventLog {
	e := &eventLog{sinks: map[string][]string{}}
	for _, s := range sinks {
		e.sinks[s] = nil
	}
	return e
}

func (e *eventLog) add(sink string, f *frame.Frame) string {
	t := norm(tagOf(f))
	e.mu.Lock()
	e.sinks[sink] = append(e.sinks[sink], t)
	e.mu.Unlock()
	return t
}

func (e *eventLog) emit(tag string) {
	e.mu.Lock()
	e.emitted = append(e.emitted, tag)
	e.mu.Unlock()
}

// judgeEvents: every emitted event exactly once per sink; nothing else on a sink.
// judgeOrder lists the sinks on which arrival order is demanded (handlers of the undrained-channel
// scenario: they are called synchronously by the one incoming loop).
// lenient lists the sinks whose documented behaviour is to discard when full (the bounded event
// channel, when more events were emitted than it can hold): a missing event is counted there.
func judgeEvents(e *eventLog, quiescent bool, lenient, judgeOrder map[string]bool) (classes []string, dropped int, orderAnomalies int) {
	e.mu.Lock()
	defer e.mu.Unlock()
	add := func(c string) {
		for _, x := range classes {
			if x == c {
				return
			}
		}
		classes = append(classes, c)
	}
	em := map[string]bool{}
	for _, t := range e.emitted {
		em[t] = true
	}
	for sink, got := range e.sinks {
		seen := map[string]int{}
		var evs []string
		for _, g := range got {
			if strings.HasPrefix(g, "b") {
				continue // barrier events are harness plumbing
			}
			if !strings.HasPrefix(g, "e") {
				add("response/delivered-to-event-sink")
				continue
			}
			if !em[g] {
				add("event/never-emitted")
				continue
			}
			seen[g]++
			evs = append(evs, g)
		}
		miss := 0
		for i, t := range e.emitted {
			switch n := seen[t]; {
			case n > 1:
				add("event/duplicate")
			case n == 0 && i < e.settled:
				miss++
			}
		}
		if miss > 0 && quiescent {
			if lenient[sink] {
				dropped += miss
			} else {
				add("event/lost")
			}
		}
		// order of those that arrived
		j := 0
		for _, g := range evs {
			if seen[g] != 1 {
				continue
			}
			for j < len(e.emitted) && e.emitted[j] != g {
				j++
			}
			if j == len(e.emitted) {
				if judgeOrder[sink] {
					add("event/order")
				}
				orderAnomalies++ // elsewhere the order of events is counted only
				break
			}
			j++
		}
	}
	return
}
