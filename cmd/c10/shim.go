package main

// Workload A: the in-flight table driven directly through the export shim
// (client.VerifNewInFlight), deterministically. Deliver is synchronous, so after it returns the
// frame is either in some request's channel or dropped: every verdict here is a fact about state,
// never about timing.

import (
	"context"
	"fmt"
	"time"

	"github.com/datastax/go-cassandra-native-protocol/client"
	"github.com/datastax/go-cassandra-native-protocol/frame"
	"github.com/datastax/go-cassandra-native-protocol/primitive"

	"verif/internal/mon"
)

var shimVersions = []primitive.ProtocolVersion{
	primitive.ProtocolVersionDse2, primitive.ProtocolVersionDse1, primitive.ProtocolVersion4, primitive.ProtocolVersion5,
}

type shimReq struct {
	rl         *reqLog
	r          client.InFlightRequest
	p          plan
	next       int // pages delivered so far
	unconsumed int
	done       bool // all pages delivered
	explicit   bool
}

type shimRun struct {
	c              *mon.Ctx
	rnd            *mon.Rand
	desc           map[string]any // replayable description of the history
	sess           int
	v              *client.VerifInFlight
	cancel         context.CancelFunc
	N              int
	maxPending     int
	version        primitive.ProtocolVersion
	eager          bool // consume right after every delivery (else deferred, keeping <= maxPending pending)
	reqs           []*shimReq
	live           []*shimReq // enqueued, not all pages delivered
	finished       []*shimReq // all pages delivered
	inUse          map[int16]*shimReq
	nSpur          int
	maxOutstanding int
	ops            []string
	wire           []string
	violated       bool
}

func newShimRun(c *mon.Ctx, rnd *mon.Rand, sess, N, maxPending int, eager bool, desc map[string]any) *shimRun {
	ctx, cancel := context.WithCancel(context.Background())
	return &shimRun{
		c: c, rnd: rnd, sess: sess, N: N, maxPending: maxPending, eager: eager, desc: desc,
		v: client.VerifNewInFlight(ctx, N, maxPending, time.Hour), cancel: cancel,
		version: shimVersions[sess%len(shimVersions)],
		inUse:   map[int16]*shimReq{},
	}
}

func (s *shimRun) op(format string, a ...any) {
	if len(s.ops) < 400 {
		s.ops = append(s.ops, fmt.Sprintf(format, a...))
	}
}

func (s *shimRun) violation(class string, rl *reqLog, extra map[string]any) {
	s.violated = true
	d := map[string]any{"workload": "shim", "history": s.desc, "seed": s.c.Seed, "ops": s.ops,
		"N": s.N, "max_pending": s.maxPending, "eager_consume": s.eager}
	if rl != nil {
		d["request_log"] = rl.excerpt()
	}
	for k, v := range extra {
		d[k] = v
	}
	s.c.Violation(class, d)
}

// enqueue registers a request; explicitID == 0 means a managed id.
func (s *shimRun) enqueue(p plan, explicitID int16) *shimReq {
	n := len(s.reqs)
	uid := uidOf(s.sess, n)
	f := requestFrame(s.version, explicitID, uid)
	var r client.InFlightRequest
	var err error
	if pk, val := mon.Guard(func() { r, err = s.v.Enqueue(f) }); pk {
		s.op("enqueue %s id=%d PANIC %s", uid, explicitID, val)
		s.c.Count("shim_enqueue_panics", 1)
		return nil
	}
	if err != nil {
		s.op("enqueue %s id=%d refused: %v", uid, explicitID, err)
		s.c.Count("shim_enqueue_refused", 1)
		return nil
	}
	q := &shimReq{rl: &reqLog{uid: uid, sid: r.StreamId(), sent: true, allSettled: true}, r: r, p: p, explicit: explicitID != 0}
	s.reqs = append(s.reqs, q)
	s.live = append(s.live, q)
	if old := s.inUse[q.rl.sid]; old != nil && !old.done {
		// the library handed out an id that is still unanswered: C09's business; everything that
		// follows on that id is ambiguous
		s.c.Count("shim_id_collision_seen", 1)
		old.rl.tainted, q.rl.tainted = true, true
	}
	s.inUse[q.rl.sid] = q
	s.op("enqueue %s -> id %d (%s x%d)", uid, q.rl.sid, p.Kind, p.Pages)
	return q
}

func (s *shimRun) deliverFrame(f *frame.Frame, what string) {
	var err error
	if pk, val := mon.Guard(func() { err = s.v.Deliver(f) }); pk {
		s.op("deliver %s PANIC %s", what, val)
		s.violation("shim/panic-in-deliver", nil, map[string]any{"frame": what, "panic": val})
		return
	}
	if err != nil {
		s.op("deliver %s -> %v", what, err)
	} else {
		s.op("deliver %s", what)
	}
}

// deliverNext delivers the next page of q.
func (s *shimRun) deliverNext(q *shimReq) {
	if q.done {
		return
	}
	if !s.eager && q.unconsumed >= s.maxPending {
		s.consume(q) // exceeding MaxPending closes the request with an error by design
	}
	q.next++
	f, ntag := responseFrame(s.version, q.rl.sid, q.rl.uid, q.p, q.next, s.rnd)
	q.rl.addExp(ntag)
	s.wire = append(s.wire, ntag)
	q.unconsumed++
	if q.next == q.p.Pages {
		q.done = true
		for i, x := range s.live {
			if x == q {
				s.live = append(s.live[:i], s.live[i+1:]...)
				break
			}
		}
		s.finished = append(s.finished, q)
		if s.inUse[q.rl.sid] == q {
			delete(s.inUse, q.rl.sid)
		}
	}
	s.deliverFrame(f, fmt.Sprintf("%s id=%d", ntag, q.rl.sid))
	if s.eager {
		s.consume(q)
	}
}

// consume drains q's channel without blocking.
func (s *shimRun) consume(q *shimReq) {
	if q.rl.closed {
		return
	}
	ch := q.r.Incoming()
	for {
		select {
		case f, ok := <-ch:
			if !ok {
				q.rl.setClosed(q.r.Err())
				q.unconsumed = 0
				return
			}
			q.rl.addGot(f)
		default:
			q.unconsumed = 0
			return
		}
	}
}

func (s *shimRun) buffered() int {
	n := 0
	for _, q := range s.live {
		n += len(q.r.Incoming())
	}
	return n
}

// spurious delivers a response for an id that no unanswered request owns and checks that nothing
// moved.
func (s *shimRun) spurious() {
	var id int16
	for tries := 0; ; tries++ {
		switch s.rnd.Intn(4) {
		case 0:
			id = int16(s.N + 1 + s.rnd.Intn(1000))
		case 1:
			id = -int16(1 + s.rnd.Intn(30000))
		case 2:
			id = int16(1 + s.rnd.Intn(s.N)) // a pool id; accepted only if currently unowned
		default:
			id = int16(s.rnd.Intn(65536) - 32768)
		}
		if _, used := s.inUse[id]; !used {
			break
		}
		if tries > 50 {
			return
		}
	}
	f, ntag := spuriousFrame(s.version, id, s.sess, s.nSpur, s.rnd)
	s.nSpur++
	cheap := len(s.live) <= 64
	var f0, m0, u0, b0 int
	if cheap {
		f0, m0, u0 = s.v.Snapshot()
		b0 = s.buffered()
	}
	s.deliverFrame(f, fmt.Sprintf("%s id=%d (unknown id)", ntag, id))
	s.c.Count("shim_spurious", 1)
	if cheap {
		f1, m1, u1 := s.v.Snapshot()
		b1 := s.buffered()
		if f0 != f1 || m0 != m1 || u0 != u1 || b0 != b1 {
			s.violation("unknown-id/disturbed-others", nil, map[string]any{
				"unknown_id": id, "snapshot_before": []int{f0, m0, u0, b0}, "snapshot_after": []int{f1, m1, u1, b1}})
		}
	}
}

// lateDup delivers a duplicate page for the id of an already completed request. If a new request
// owns the id now it is marked tainted (a recycled id is indistinguishable on the wire: counted,
// not judged); otherwise the frame must reach nobody, which judgeReq checks on everybody.
func (s *shimRun) lateDup(old *shimReq, asLast bool) {
	id := old.rl.sid
	owner := s.inUse[id]
	f, ntag := lateDupFrame(s.version, id, old.rl.uid, asLast, s.rnd)
	if owner != nil {
		owner.rl.tainted = true
		s.c.Count("shim_late_dup_for_recycled_id", 1)
		if asLast {
			// the new owner is completed by the duplicate; its own answer would now be one more
			// late frame: stop answering it
			owner.rl.aborted = true
			owner.done = true
			for i, x := range s.live {
				if x == owner {
					s.live = append(s.live[:i], s.live[i+1:]...)
					break
				}
			}
			delete(s.inUse, id)
		} else if !s.eager && owner.unconsumed >= s.maxPending {
			s.consume(owner)
		}
		if !asLast {
			owner.unconsumed++
		}
	} else {
		s.c.Count("shim_late_dup_for_free_id", 1)
	}
	s.deliverFrame(f, fmt.Sprintf("%s id=%d (late duplicate, owner now: %v)", ntag, id, owner != nil))
	if owner != nil {
		s.consume(owner)
		owner.rl.mu.Lock()
		got := false
		for _, g := range owner.rl.got {
			if g == ntag {
				got = true
			}
		}
		owner.rl.mu.Unlock()
		if got {
			s.c.Count("shim_late_dup_reached_new_owner", 1)
		}
	}
}

// finish delivers nothing more: drains everybody, judges, closes.
func (s *shimRun) finish(sig string) {
	judged := 0
	for _, q := range s.reqs {
		s.consume(q)
		if q.rl.tainted {
			s.c.Count("shim_requests_tainted_not_judged", 1)
			continue
		}
		judged++
		for _, class := range judgeReq(q.rl, true, false) {
			s.violation(vkey("shim", class), q.rl, nil)
		}
	}
	s.c.Eval(judged)
	s.c.Count("shim_histories", 1)
	s.c.Count("shim_frames_delivered", int64(len(s.wire)))
	s.c.Max("max_shim_outstanding", int64(s.maxOutstanding))
	if sig != "" {
		s.c.Distinct(sig)
	}
	if pk, _ := mon.Guard(func() { s.v.Close() }); pk {
		s.c.Count("shim_close_panics", 1)
	}
	s.cancel()
}

// ---------------------------------------------------------------------------------------------
// A1: exhaustive answer orders

func permutations(k int, f func(p []int)) {
	p := make([]int, k)
	for i := range p {
		p[i] = i
	}
	var rec func(i int)
	rec = func(i int) {
		if i == k {
			f(p)
			return
		}
		for j := i; j < k; j++ {
			p[i], p[j] = p[j], p[i]
			rec(i + 1)
			p[i], p[j] = p[j], p[i]
		}
	}
	rec(0)
}

// interleavings enumerates all sequences over request indices in which request i occurs
// counts[i] times (= all orders in which the pages of k responses can be interleaved).
func interleavings(counts []int, f func(seq []int)) {
	total := 0
	for _, n := range counts {
		total += n
	}
	left := append([]int{}, counts...)
	seq := make([]int, 0, total)
	var rec func()
	rec = func() {
		if len(seq) == total {
			f(seq)
			return
		}
		for i := range left {
			if left[i] > 0 {
				left[i]--
				seq = append(seq, i)
				rec()
				seq = seq[:len(seq)-1]
				left[i]++
			}
		}
	}
	rec()
}

type permCase struct {
	K        int   `json:"k"`
	Pages    []int `json:"pages"` // pages per request (1 = single frame unless Paged)
	Paged    bool  `json:"paged"`
	Order    []int `json:"order"` // request index of every delivered page, in delivery order
	Explicit bool  `json:"explicit_ids"`
	Eager    bool  `json:"eager"`
	N        int   `json:"n"`
	Case     int   `json:"case"`
}

func runPermCase(c *mon.Ctx, pc permCase) {
	rnd := mon.NewRand(c.Seed, uint64(1_000_000+pc.Case))
	maxP := 1
	for _, n := range pc.Pages {
		if n > maxP {
			maxP = n
		}
	}
	desc := map[string]any{"kind": "perm", "case": pc}
	s := newShimRun(c, rnd, pc.Case, pc.N, maxP, pc.Eager, desc)
	qs := make([]*shimReq, pc.K)
	for i := 0; i < pc.K; i++ {
		p := plan{Kind: respKind(i % 3), Pages: 1}
		if pc.Paged {
			p = plan{Kind: kPaged, Pages: pc.Pages[i]}
		}
		var id int16
		if pc.Explicit {
			id = int16(100 + 7*i)
			if i%2 == 1 {
				id = -id
			}
		}
		qs[i] = s.enqueue(p, id)
		if qs[i] == nil {
			c.Inconclusive("shim/perm/enqueue-refused")
			s.finish("")
			return
		}
	}
	s.maxOutstanding = pc.K
	for _, i := range pc.Order {
		s.deliverNext(qs[i])
	}
	s.finish(fmt.Sprintf("perm/%v/%v/%v/%v/%v", pc.Pages, pc.Paged, pc.Order, pc.Explicit, pc.Eager))
}

// permCases lists the exhaustive part: all k! orders for k <= 6 single-frame responses, and all
// interleavings of the pages of 2..3 multi-page responses of 1..3 pages.
func permCases() []permCase {
	var out []permCase
	for k := 1; k <= 6; k++ {
		pages := make([]int, k)
		for i := range pages {
			pages[i] = 1
		}
		permutations(k, func(p []int) {
			for variant := 0; variant < 4; variant++ {
				out = append(out, permCase{K: k, Pages: pages, Order: append([]int{}, p...),
					Explicit: variant&1 == 1, Eager: variant&2 == 2, N: k + variant%2})
			}
		})
	}
	for k := 2; k <= 3; k++ {
		counts := make([]int, k)
		var rec func(i int)
		rec = func(i int) {
			if i == k {
				cs := append([]int{}, counts...)
				interleavings(cs, func(seq []int) {
					v := len(out)
					out = append(out, permCase{K: k, Pages: cs, Paged: true, Order: append([]int{}, seq...),
						Explicit: v%4 == 1, Eager: v%2 == 0, N: k})
				})
				return
			}
			for n := 1; n <= 3; n++ {
				counts[i] = n
				rec(i + 1)
			}
		}
		rec(0)
	}
	for i := range out {
		out[i].Case = i
	}
	return out
}

// ---------------------------------------------------------------------------------------------
// A2: PRNG histories

// planForDriven is planFor for the deterministic driver of shim.go, which reads before a request's
// buffer can overflow: there a response may also have more pages than MaxPending.
func planForDriven(rnd *mon.Rand, maxPending int) plan {
	if rnd.Intn(10) == 0 {
		return plan{Kind: kPaged, Pages: maxPending + 1 + rnd.Intn(2*maxPending+1)}
	}
	return planFor(rnd, maxPending, true)
}

func planFor(rnd *mon.Rand, maxPending int, allowPaged bool) plan {
	if allowPaged && rnd.Intn(3) == 0 {
		return plan{Kind: kPaged, Pages: 1 + rnd.Intn(maxPending)}
	}
	return plan{Kind: respKind(rnd.Intn(3)), Pages: 1}
}

func runPrngHistory(c *mon.Ctx, index int) {
	rnd := mon.NewRand(c.Seed, uint64(2_000_000+index))
	N := []int{10, 127, 1024}[index%3]
	if index%17 == 0 {
		N = 1 + rnd.Intn(3) // immediate id reuse with managed ids
	}
	maxPending := 1 + rnd.Intn(10)
	explicit := rnd.Intn(4) == 0
	eager := rnd.Bool()
	mode := rnd.Intn(3) // 0: fill k then drain in a PRNG order; 1,2: mixed
	desc := map[string]any{"kind": "prng", "index": index}
	s := newShimRun(c, rnd, 100_000+index, N, maxPending, eager, desc)
	nextExplicit := int16(1)
	newID := func() int16 {
		if !explicit {
			return 0
		}
		for {
			id := nextExplicit
			nextExplicit++
			if nextExplicit > 30000 {
				nextExplicit = 1
			}
			if _, used := s.inUse[id]; !used {
				return id
			}
		}
	}
	track := func() {
		if len(s.live) > s.maxOutstanding {
			s.maxOutstanding = len(s.live)
		}
	}
	budget := 3*N + 50
	if budget > 2500 {
		budget = 2500
	}
	if mode == 0 {
		rounds := 1 + rnd.Intn(2)
		for round := 0; round < rounds; round++ {
			k := 1 + rnd.Intn(N)
			if rnd.Intn(3) == 0 {
				k = N
			}
			for len(s.live) < k {
				if s.enqueue(planForDriven(rnd, maxPending), newID()) == nil {
					break
				}
			}
			track()
			for len(s.live) > 0 {
				s.deliverNext(s.live[rnd.Intn(len(s.live))])
				if rnd.Intn(40) == 0 {
					s.spurious()
				}
			}
		}
	} else {
		for step := 0; step < budget; step++ {
			x := rnd.Intn(100)
			switch {
			case x < 40 && len(s.live) < N:
				s.enqueue(planForDriven(rnd, maxPending), newID())
				track()
			case x < 85 && len(s.live) > 0:
				s.deliverNext(s.live[rnd.Intn(len(s.live))])
			case x < 90 && len(s.reqs) > 0:
				s.consume(s.reqs[rnd.Intn(len(s.reqs))])
			case x < 93:
				s.spurious()
			case x < 96 && len(s.finished) > 0:
				// late duplicate page for the id of a completed request
				s.lateDup(s.finished[rnd.Intn(len(s.finished))], rnd.Intn(3) == 0)
			case x < 100 && len(s.finished) > 0 && len(s.live) < N:
				// id reuse immediately after a final page, then a late duplicate for the old owner
				var old *shimReq
				if len(s.live) > 0 {
					q := s.live[rnd.Intn(len(s.live))]
					for !q.done {
						s.deliverNext(q)
					}
					old = q
				} else {
					old = s.finished[len(s.finished)-1]
				}
				var nq *shimReq
				if explicit || old.explicit {
					if _, used := s.inUse[old.rl.sid]; !used {
						nq = s.enqueue(planForDriven(rnd, maxPending), old.rl.sid)
					}
				} else {
					nq = s.enqueue(planForDriven(rnd, maxPending), 0)
				}
				track()
				s.lateDup(old, rnd.Intn(3) == 0)
				if nq != nil && !nq.done && rnd.Bool() {
					s.deliverNext(nq)
				}
			}
		}
		for len(s.live) > 0 {
			s.deliverNext(s.live[rnd.Intn(len(s.live))])
		}
	}
	sig := fmt.Sprintf("prng/%d/%d/%v/%v/%d/", N, maxPending, explicit, eager, mode)
	h := uint64(14695981039346656037)
	for _, w := range s.wire {
		for i := 0; i < len(w); i++ {
			h = (h ^ uint64(w[i])) * 1099511628211
		}
	}
	if c.WantSample() && index%97 == 5 {
		c.Sample(map[string]any{"workload": "shim-prng", "index": index, "N": N, "max_pending": maxPending,
			"explicit_ids": explicit, "eager": eager, "mode": mode, "requests": len(s.reqs),
			"max_outstanding": s.maxOutstanding, "first_ops": clip(s.ops, 25)})
	}
	s.finish(fmt.Sprintf("%s%x", sig, h))
}
