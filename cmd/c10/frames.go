package main

// Builders for the tagged frames (requests, responses, events) and the per-request response plan.

import (
	"encoding/hex"
	"fmt"
	"net"

	"github.com/datastax/go-cassandra-native-protocol/frame"
	"github.com/datastax/go-cassandra-native-protocol/message"
	"github.com/datastax/go-cassandra-native-protocol/primitive"

	"verif/internal/mon"
)

type respKind int

const (
	kSetKeyspace respKind = iota // single frame RESULT SetKeyspace
	kRows                        // single frame RESULT Rows without continuous paging
	kError                       // single frame ERROR with a non-fatal code
	kPaged                       // 1..n frames RESULT Rows with DSE continuous paging
	kBig                         // single frame RESULT Rows with a large incompressible cell
)

func (k respKind) String() string {
	return [...]string{"setkeyspace", "rows", "error", "paged", "big"}[k]
}

// plan says how a request is answered; a pure function of (seed, session, request number).
type plan struct {
	Kind  respKind
	Pages int // 1 unless Kind == kPaged
	Big   int // size of the big cell for kBig
}

func uidOf(sess, n int) string { return fmt.Sprintf("u%d-%d", sess, n) }

func pageTag(uid string, p plan, page int) string {
	// page is 1-based
	last := ""
	if page == p.Pages {
		last = "L"
	}
	return fmt.Sprintf("%s/p%d%s", uid, page, last)
}

func pad(r *mon.Rand) string { return hex.EncodeToString(r.Bytes(6)) }

func requestFrame(v primitive.ProtocolVersion, sid int16, uid string) *frame.Frame {
	return frame.NewFrame(v, sid, &message.Query{Query: uid})
}

// pagingState is nil half of the time: HAS_MORE_PAGES is independent of what completes a request (an
// ordinary Rows result is final with or without it; a continuous page is final iff LAST_CONTINUOUS_PAGE,
// which DSE also sets together with a paging state when max_pages is reached).
func pagingState(r *mon.Rand) []byte {
	if r.Bool() {
		return nil
	}
	return r.Bytes(1 + r.Intn(12))
}

// responseFrame builds page `page` (1-based) of the response planned for uid. ntag is the
// normalised tag the checker expects.
func responseFrame(v primitive.ProtocolVersion, sid int16, uid string, p plan, page int, r *mon.Rand) (f *frame.Frame, ntag string) {
	ntag = pageTag(uid, p, page)
	tag := ntag + "/" + pad(r)
	var m message.Message
	switch p.Kind {
	case kSetKeyspace:
		m = &message.SetKeyspaceResult{Keyspace: tag}
	case kRows:
		m = &message.RowsResult{
			Metadata: &message.RowsMetadata{ColumnCount: 2, PagingState: pagingState(r)},
			Data:     message.RowSet{message.Row{[]byte(tag), r.Bytes(r.Intn(24))}},
		}
	case kError:
		if r.Bool() {
			m = &message.Invalid{ErrorMessage: tag}
		} else {
			m = &message.SyntaxError{ErrorMessage: tag}
		}
	case kPaged:
		m = &message.RowsResult{
			Metadata: &message.RowsMetadata{ColumnCount: 2, ContinuousPageNumber: int32(page), LastContinuousPage: page == p.Pages, PagingState: pagingState(r)},
			Data:     message.RowSet{message.Row{[]byte(tag), r.Bytes(r.Intn(24))}},
		}
	case kBig:
		m = &message.RowsResult{
			Metadata: &message.RowsMetadata{ColumnCount: 2},
			Data:     message.RowSet{message.Row{[]byte(tag), r.Bytes(p.Big)}},
		}
	}
	return frame.NewFrame(v, sid, m), ntag
}

// lateDupFrame is a duplicate of an already delivered page, marked so that the checker can tell
// it from the original. asLast chooses between a non-final continuous page and a final frame.
func lateDupFrame(v primitive.ProtocolVersion, sid int16, uid string, asLast bool, r *mon.Rand) (*frame.Frame, string) {
	ntag := fmt.Sprintf("%s/p1/late", uid)
	tag := ntag + "-" + pad(r)
	if asLast {
		return frame.NewFrame(v, sid, &message.SetKeyspaceResult{Keyspace: tag}), ntag
	}
	return frame.NewFrame(v, sid, &message.RowsResult{
		Metadata: &message.RowsMetadata{ColumnCount: 1, ContinuousPageNumber: 1, LastContinuousPage: false},
		Data:     message.RowSet{message.Row{[]byte(tag)}},
	}), ntag
}

// spuriousFrame is a response for a stream id nobody is waiting on.
func spuriousFrame(v primitive.ProtocolVersion, sid int16, sess, n int, r *mon.Rand) (*frame.Frame, string) {
	ntag := fmt.Sprintf("x%d-%d/p1L", sess, n)
	tag := ntag + "/" + pad(r)
	switch r.Intn(3) {
	case 0:
		return frame.NewFrame(v, sid, &message.SetKeyspaceResult{Keyspace: tag}), ntag
	case 1:
		return frame.NewFrame(v, sid, &message.RowsResult{
			Metadata: &message.RowsMetadata{ColumnCount: 1, ContinuousPageNumber: 1, LastContinuousPage: r.Bool()},
			Data:     message.RowSet{message.Row{[]byte(tag)}},
		}), ntag
	}
	return frame.NewFrame(v, sid, &message.Invalid{ErrorMessage: tag}), ntag
}

func evTagFromInet(addr net.IP, port int32) string {
	a := addr.To4()
	if a == nil {
		return "?inet"
	}
	kind := "e"
	if a[0] == 11 {
		kind = "b"
	}
	sess := int(a[1])<<16 | int(a[2])<<8 | int(a[3])
	return fmt.Sprintf("%s%d-%d", kind, sess, port)
}

// eventFrame builds a server-pushed event. kindChar is 'e' (judged) or 'b' (barrier).
func eventFrame(v primitive.ProtocolVersion, sid int16, kindChar byte, sess, n int, variant int) (*frame.Frame, string) {
	tag := fmt.Sprintf("%c%d-%d", kindChar, sess, n)
	first := byte(10)
	if kindChar == 'b' {
		first = 11
	}
	inet := &primitive.Inet{Addr: net.IPv4(first, byte(sess>>16), byte(sess>>8), byte(sess)).To4(), Port: int32(n)}
	var m message.Message
	switch variant % 3 {
	case 0:
		m = &message.SchemaChangeEvent{ChangeType: primitive.SchemaChangeTypeCreated, Target: primitive.SchemaChangeTargetKeyspace, Keyspace: tag}
	case 1:
		m = &message.StatusChangeEvent{ChangeType: primitive.StatusChangeTypeUp, Address: inet}
	default:
		m = &message.TopologyChangeEvent{ChangeType: primitive.TopologyChangeTypeNewNode, Address: inet}
	}
	return frame.NewFrame(v, sid, m), tag
}
