// C10 — responses reach exactly the request with the same stream id.
//
// Runtime monitoring of the real client/inflight.go + client/client.go. Every request carries a
// unique uid, every response frame the uid of the request it answers plus its page number, every
// event a unique event uid. The monitor logs (uid sent on stream s), (frame received from request
// r.Incoming()), (frame on EventChannel / in an EventHandler), (channel closed, Err()), and an
// offline checker (log.go) decides from that log alone.
//
//	A  shim, deterministic (shim.go):   all k! answer orders for k<=6, all interleavings of the pages
//	                                    of 2..3 multi-page responses, PRNG histories for N in
//	                                    {10,127,1024} (+ tiny N) with multi-page responses, id reuse
//	                                    followed by a late duplicate, spurious ids
//	A3 shim, concurrent (shimconc.go):  S senders/consumers + one deliverer
//	B  sockets/pipes (sock.go, peer.go): library client <-> raw peer, versions {2,3,4,5,DSE1,DSE2} x
//	                                    legal compressions x S in {1,4,16}; v5 through segments
//
// Processes: the parent runs A in-process and spawns two workers of itself: "sock" (normal build)
// and "race" (-race build, smaller, information only as far as race reports go). A worker that dies
// (a panic in a library goroutine kills the process) is inconclusive, never a verdict.
package main

import (
	"bytes"
	"fmt"
	"io"
	"os"
	"path/filepath"
	"runtime"
	"runtime/debug"
	"strconv"
	"strings"
	"sync"
	"sync/atomic"
	"time"

	"github.com/rs/zerolog"
	"github.com/rs/zerolog/log"

	"verif/internal/mon"
)

func main() { mon.Main("C10", run) }

// perturb is the zerolog hook (DESIGN.md M5): at PRNG-chosen log events of the library the calling
// goroutine yields or sleeps 50-500 microseconds. It never decides anything.
type perturb struct {
	seed           uint64
	n              atomic.Uint64
	sleeps, yields atomic.Int64
	mu             sync.Mutex
	errs           []string // error-level messages of the library (observability only)
	nErrs          int64
}

// Write receives the serialised log events (observability only: error-level lines are kept).
func (h *perturb) Write(p []byte) (int, error) {
	if bytes.Contains(p, []byte(`"level":"error"`)) && !bytes.Contains(p, []byte(`unknown stream id`)) {
		h.mu.Lock()
		h.nErrs++
		if len(h.errs) < 40 {
			line := string(p)
			if len(line) > 700 {
				line = line[:700]
			}
			h.errs = append(h.errs, line)
		}
		h.mu.Unlock()
	}
	return len(p), nil
}

func (h *perturb) Run(_ *zerolog.Event, _ zerolog.Level, _ string) {
	k := h.n.Add(1)
	z := (h.seed ^ k) * 0x9E3779B97F4A7C15
	z = (z ^ (z >> 30)) * 0xBF58476D1CE4E5B9
	z = (z ^ (z >> 27)) * 0x94D049BB133111EB
	z ^= z >> 31
	switch {
	case z%97 == 0:
		h.sleeps.Add(1)
		time.Sleep(time.Duration(50+(z>>12)%450) * time.Microsecond)
	case z%13 == 1:
		h.yields.Add(1)
		for i := uint64(0); i <= (z>>12)%3; i++ {
			runtime.Gosched()
		}
	}
}

func quietLogs() {
	log.Logger = zerolog.New(io.Discard)
	zerolog.SetGlobalLevel(zerolog.Disabled)
}

func perturbLogs(seed int64) *perturb {
	h := &perturb{seed: uint64(seed) * 0xD6E8FEB86659FD93}
	log.Logger = zerolog.New(h).Hook(h)
	zerolog.SetGlobalLevel(zerolog.TraceLevel)
	return h
}

func run(c *mon.Ctx) {
	c.Rule = "shim: one case = one history (sequence of enqueue / deliver-page / consume / spurious / late-duplicate operations); " +
		"exhaustive cases are all k! answer orders (k<=6) x {managed, caller-chosen ids} x {eager, deferred consumption} and all " +
		"interleavings of 2..3 multi-page responses; PRNG cases are functions of (seed, index); signature = parameters + hash of the " +
		"order in which response frames were handed to the table. sockets: one case = one session (version, compression, senders, " +
		"transport, limits = function of (seed, index)); signature = configuration + hash of the order in which the peer put response " +
		"frames/events on the wire. evaluations = requests (and events) whose complete delivery log was judged"
	c.Assume("the harness' own bookkeeping: the emitter logs the tag of a frame before handing it to the library, the consumer logs what it reads from Incoming()/EventChannel()/handlers")
	c.Assume("sockets: bytes are produced with the library's own frame and segment codecs (C10 judges routing, not bytes)")
	c.Assume("sockets: 'lost' and 'not closed' are only concluded after a barrier event sent by the peer after everything else has been seen by an event handler (frames are processed in arrival order by one incoming loop)")
	c.Assume("a late duplicate for an id that has meanwhile been given to a new request is indistinguishable on the wire: the new owner is counted, not judged")

	if len(c.Args) > 0 && c.Args[0] == "worker" {
		runWorker(c)
		return
	}
	quietLogs()
	debug.SetGCPercent(400)
	selfTest(c)
	if c.Replay != "" {
		replay(c)
		return
	}

	// children first: they run while the parent does the deterministic part
	dir, err := os.MkdirTemp("", "c10-")
	if err != nil {
		c.Fatal("tempdir: %v", err)
	}
	defer os.RemoveAll(dir)
	type child struct {
		name, out, errf string
		done            chan error
	}
	var children []*child
	spawn := func(label, name, bin string, env []string, args ...string) {
		ch := &child{name: label, out: filepath.Join(dir, label+".json"), errf: filepath.Join(dir, label+".stderr"), done: make(chan error, 1)}
		full := append([]string{"--tier", c.Tier, "--seed", strconv.FormatInt(c.Seed, 10), "worker", name}, args...)
		cmd := mon.WorkerCmd(bin, ch.out, full...)
		cmd.Env = append(cmd.Env, env...)
		ef, err := os.Create(ch.errf)
		if err != nil {
			c.Fatal("stderr file: %v", err)
		}
		cmd.Stderr, cmd.Stdout = ef, ef
		if err := cmd.Start(); err != nil {
			c.Note("cannot start %s worker (%s): %v", name, bin, err)
			c.Inconclusive("worker-not-started/" + label)
			ef.Close()
			return
		}
		go func() { ch.done <- cmd.Wait(); ef.Close() }()
		children = append(children, ch)
	}
	nSess := c.Pick(len(sockConfigs)*3*8, len(sockConfigs)*3*8*30)
	// several worker processes: a panic in a library goroutine (not this property's business) kills a
	// whole process, and then only that chunk is lost (inconclusive)
	chunks := c.Pick(2, 8)
	for k := 0; k < chunks; k++ {
		spawn(fmt.Sprintf("sock%d", k), "sock", mon.Self(), nil, strconv.Itoa(nSess), strconv.Itoa(k), strconv.Itoa(chunks))
	}
	// slow multi-page responses: a process of its own (a quiet garbage collector), mostly asleep
	spawn("slow0", "slow", mon.Self(), nil, "0", "0", "1")
	raceBin := mon.RaceSelf()
	raceLog := filepath.Join(dir, "racelog")
	if _, err := os.Stat(raceBin); err == nil {
		rchunks := c.Pick(1, 3)
		for k := 0; k < rchunks; k++ {
			spawn(fmt.Sprintf("race%d", k), "race", raceBin, []string{"GORACE=halt_on_error=0 exitcode=0 log_path=" + raceLog},
				strconv.Itoa(c.Pick(len(sockConfigs)*2, len(sockConfigs)*3*6)), strconv.Itoa(k), strconv.Itoa(rchunks))
		}
	} else {
		c.Note("no -race flavour of the binary (%s): the race worker is skipped", raceBin)
		c.Count("race_worker_skipped", 1)
	}

	// A1 exhaustive
	t0 := time.Now()
	cases := permCases()
	mon.Parallel(len(cases), func(i int) { runPermCase(c, cases[i]) })
	c.Count("shim_exhaustive_histories", int64(len(cases)))
	// A2 PRNG
	nPrng := c.Pick(1500, 60000)
	mon.Parallel(nPrng, func(i int) { runPrngHistory(c, i) })
	c.Count("shim_prng_histories", int64(nPrng))
	// A3 accepted pages, then the request fails
	nAbort := c.Pick(300, 6000)
	mon.Parallel(nAbort, func(i int) { runAbortBuffered(c, i) })
	c.Count("shim_abort_buffered_histories", int64(nAbort))
	phases := map[string]float64{"shim_in_parent_s": time.Since(t0).Seconds()}

	for _, ch := range children {
		err := <-ch.done
		phases[ch.name+"_worker_done_after_s"] = time.Since(t0).Seconds()
		if !c.Merge(ch.out) {
			c.Inconclusive("worker-died/" + ch.name)
			c.Note("%s worker died (%v); stderr tail: %s", ch.name, err, tail(ch.errf, 1500))
		}
	}
	c.Set("phase_wall_seconds", phases)
	// race reports: information only
	if m, _ := filepath.Glob(raceLog + "*"); len(m) > 0 {
		n := 0
		first := ""
		for _, f := range m {
			b, _ := os.ReadFile(f)
			n += strings.Count(string(b), "WARNING: DATA RACE")
			if first == "" && len(b) > 0 {
				first = string(b)
				if len(first) > 1800 {
					first = first[:1800]
				}
			}
		}
		c.Count("race_reports_information_only", int64(n))
		if n > 0 {
			c.Set("first_race_report", first)
		}
	}
	if c.Counter("slow_pages_requests_judged") == 0 {
		c.Inconclusive("slow-pages-never-judged")
	}
	for _, variant := range []string{"spurious", "long-paged", "large-interleaved"} {
		if c.Counter("scripted_sessions_"+variant) == 0 {
			c.Inconclusive("scripted-" + variant + "-never-run")
		}
	}
	if c.Counter("reuse_after_done_histories") == 0 {
		c.Inconclusive("reuse-after-done-never-run")
	}
	if c.Counter("fatal_ending_sessions") == 0 {
		c.Inconclusive("fatal-ending-never-run")
	}
	if c.Counter("undrained_sessions_channel_found_full") == 0 {
		c.Inconclusive("undrained-event-channel-never-full")
	}
	if c.Counter("sock_frames_answered_before_an_older_request") == 0 || c.Counter("max_sock_outstanding_at_client") < 2 {
		c.Inconclusive("sockets-never-answered-out-of-order")
	}
}

func tail(path string, n int) string {
	b, _ := os.ReadFile(path)
	if len(b) > n {
		b = b[len(b)-n:]
	}
	return string(b)
}

// runWorker: "worker sock <sessions>" or "worker race <sessions>".
func runWorker(c *mon.Ctx) {
	if len(c.Args) < 5 {
		c.Fatal("worker: bad arguments %v", c.Args)
	}
	name := c.Args[1]
	n, _ := strconv.Atoi(c.Args[2])
	chunk, _ := strconv.Atoi(c.Args[3])
	chunks, _ := strconv.Atoi(c.Args[4])
	if chunks < 1 {
		chunks = 1
	}
	mine := func(total int) []int { // the indices of this chunk
		var out []int
		for i := chunk; i < total; i += chunks {
			out = append(out, i)
		}
		return out
	}
	if name == "slow" {
		perturbLogs(c.Seed)
		idx := mine(c.Pick(6, 36))
		mon.ParallelN(len(idx), len(idx), func(i int) { runSlowPages(c, idx[i]) })
		return
	}
	h := perturbLogs(c.Seed)
	debug.SetGCPercent(400) // memory is plentiful; long GC cycles on a busy box stall every allocating goroutine
	race := name == "race"
	scale := 100
	base := 0
	if race {
		scale = 25
		base = 1 << 20 // different sessions than the sock worker
		idx := mine(c.Pick(60, 1500))
		mon.ParallelN(8, len(idx), func(i int) { runShimConcurrent(c, idx[i]) })
	} else {
		scale = 70
		idx := mine(c.Pick(300, 9000))
		mon.ParallelN(16, len(idx), func(i int) { runShimConcurrent(c, 1_000_000+idx[i]) })
	}
	par := 32 / chunks
	if race {
		par = 12 / chunks
	}
	if par < 4 {
		par = 4
	}
	sess := mine(n)
	mon.ParallelN(par, len(sess), func(i int) {
		cfg := makeSessCfg(c.Seed, base+sess[i], scale)
		cfg.Race = race
		runSession(c, cfg)
	})
	und := mine(c.Pick(len(sockConfigs)*3, len(sockConfigs)*60))
	if race {
		und = mine(c.Pick(len(sockConfigs), len(sockConfigs)*6))
	}
	mon.ParallelN(par, len(und), func(i int) {
		cfg := makeUndrainedCfg(c.Seed, base+(2<<20)+und[i])
		cfg.Race = race
		runSession(c, cfg)
	})
	// reuse of a caller-chosen id after its request was closed by an overflow (scripted, shim and sockets)
	reuse := mine(c.Pick(240, 12000))
	if race {
		reuse = mine(c.Pick(24, 240))
	}
	mon.ParallelN(par, len(reuse), func(i int) { runReuseAfterDone(c, base+reuse[i]) })
	scr := mine(c.Pick(136, 6800))
	if race {
		scr = mine(c.Pick(16, 160))
	}
	mon.ParallelN(par, len(scr), func(i int) { runScripted(c, base+scr[i]) })
	fat := mine(c.Pick(72, 2400))
	if race {
		fat = mine(c.Pick(12, 120))
	}
	mon.ParallelN(par, len(fat), func(i int) { runFatalEnding(c, base+fat[i]) })
	c.Count("perturb_log_events", int64(h.n.Load()))
	c.Count("perturb_sleeps", h.sleeps.Load())
	c.Count("perturb_yields", h.yields.Load())
	h.mu.Lock()
	c.Count("library_error_level_log_messages_other_than_unknown_stream_id", h.nErrs)
	if len(h.errs) > 0 {
		c.Set(fmt.Sprintf("library_error_log_messages_%s%d", name, chunk), h.errs)
	}
	h.mu.Unlock()
}

type replayDetail struct {
	Session  sessCfg `json:"session"`
	Workload string  `json:"workload"`
	Index    int     `json:"index"`
	Seed     int64   `json:"seed"`
	History  struct {
		Kind  string   `json:"kind"`
		Index int      `json:"index"`
		Case  permCase `json:"case"`
	} `json:"history"`
}

func replay(c *mon.Ctx) {
	var d replayDetail
	if err := c.ReplayDetail(&d); err != nil {
		c.Fatal("replay: %v", err)
	}
	if d.Seed != 0 {
		c.Seed = d.Seed
	}
	switch {
	case d.Workload == "slow-pages":
		perturbLogs(c.Seed)
		runSlowPages(c, d.Index)
	case d.Workload == "scripted":
		perturbLogs(c.Seed)
		for i := 0; i < 5 && c.ViolationCount() == 0; i++ {
			runScripted(c, d.Index)
		}
	case d.Workload == "reuse-after-done":
		runReuseAfterDone(c, d.Index)
	case d.Workload == "fatal-ending":
		perturbLogs(c.Seed)
		for i := 0; i < 5 && c.ViolationCount() == 0; i++ {
			runFatalEnding(c, d.Index)
		}
	case d.Workload == "sock":
		perturbLogs(c.Seed)
		for i := 0; i < 20 && c.ViolationCount() == 0; i++ { // scheduling is not replayable: a few attempts
			scale := d.Session.Scale
			if scale == 0 {
				scale = 100
			}
			if d.Session.Undrained {
				runSession(c, makeUndrainedCfg(c.Seed, d.Index))
			} else {
				runSession(c, makeSessCfg(c.Seed, d.Index, scale))
			}
		}
	case d.Workload == "shim-concurrent":
		perturbLogs(c.Seed)
		for i := 0; i < 20 && c.ViolationCount() == 0; i++ {
			runShimConcurrent(c, d.Index)
		}
	case d.History.Kind == "abort-buffered":
		runAbortBuffered(c, d.History.Index)
	case d.History.Kind == "perm":
		runPermCase(c, d.History.Case)
	case d.History.Kind == "prng":
		runPrngHistory(c, d.History.Index)
	default:
		c.Fatal("replay: unknown detail")
	}
}

var _ = fmt.Sprint
