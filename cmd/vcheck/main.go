// vcheck: one binary, one sub-command per property: vcheck C07 --tier quick [--seed n] [--replay f]
package main

import (
	"fmt"
	"os"

	"verif/internal/mon"
)

func main() {
	if len(os.Args) < 2 {
		fmt.Fprintln(os.Stderr, "usage: vcheck <ID> [--tier quick|thorough] [--seed n] [--replay file]; registered:", mon.Registered())
		os.Exit(2)
	}
	id := os.Args[1]
	run := mon.Lookup(id)
	if run == nil {
		fmt.Fprintf(os.Stderr, "HARNESS-ERROR: no check registered for %s (have %v)\n", id, mon.Registered())
		os.Exit(2)
	}
	c := mon.New(id)
	c.ParseArgs(os.Args[2:])
	run(c)
	c.Finish()
}
