package main

// One blank import per property package; each registers itself with mon.Register in init().
import ()
