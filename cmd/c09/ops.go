package main

import (
	"fmt"
	"strings"

	"github.com/datastax/go-cassandra-native-protocol/frame"
	"github.com/datastax/go-cassandra-native-protocol/message"
	"github.com/datastax/go-cassandra-native-protocol/primitive"
)

// The alphabet of C09 histories.
type opKind uint8

const (
	opSendManaged opKind = iota
	opSendExplicit
	opDeliverFinal
	opDeliverPage
	opDeliverUnknown
	opClose
	nOpKinds
)

// opAwaitFinal (concurrent monitor only): the SENDER reads InFlightRequest.Incoming() until the channel is closed,
// i.e. it observes on the caller side that the final response of its request has arrived.
const opAwaitFinal opKind = nOpKinds

var opNames = [...]string{"sendManaged", "sendExplicit", "deliverFinal", "deliverPage", "deliverUnknown", "close", "awaitFinal"}

func (k opKind) String() string { return opNames[k] }

type op struct {
	Kind opKind
	K    int16 // explicit id / delivered id (unused for sendManaged, close)
	V    uint8 // which kind of response frame a delivery hands over (see finalVariants / pageVariants)
}

func (o op) String() string {
	switch o.Kind {
	case opSendManaged, opClose:
		return o.Kind.String()
	case opSendExplicit:
		return fmt.Sprintf("%s(%d)", o.Kind, o.K)
	case opDeliverPage:
		return fmt.Sprintf("%s(%d,%s)", o.Kind, o.K, pageVariants[int(o.V)%len(pageVariants)])
	}
	return fmt.Sprintf("%s(%d,%s)", o.Kind, o.K, finalVariants[int(o.V)%len(finalVariants)])
}

// "final response" is any response frame that is not a non-final continuous-paging page; the monitors vary it.
var finalVariants = []string{"VOID", "ERROR-Invalid", "SUPPORTED", "ROWS", "ROWS-last-continuous-page", "ERROR-ServerError",
	"ROWS-last-continuous-page-with-paging-state", "ROWS-with-paging-state"}
var pageVariants = []string{"page-1-not-last", "page-7-not-last", "page-1-not-last-with-paging-state", "page-3-not-last-with-paging-state"}

const (
	nFinalVariants = 8
	nPageVariants  = 4
)

// opRec is an operation with its observed result (the form used in violation details / replays).
type opRec struct {
	Op  string `json:"op"`
	K   int16  `json:"k,omitempty"`
	V   uint8  `json:"v,omitempty"`     // response variant index of a delivery
	Fr  string `json:"frame,omitempty"` // its name
	OK  bool   `json:"ok"`
	ID  int16  `json:"id,omitempty"`  // id carried by an accepted send
	Err string `json:"err,omitempty"` // error text of a refused send / failed delivery
	Ph  string `json:"phase,omitempty"`
}

func (r opRec) toOp() (op, bool) {
	for i, n := range opNames {
		if n == r.Op {
			return op{Kind: opKind(i), K: r.K, V: r.V}, true
		}
	}
	return op{}, false
}

// The id used by deliverUnknown: never sent by any history (explicit ids are 1..N, N+1, 100, 32767 at most for
// N=32767 where it is in range; 32766/-5 are avoided there by construction, see unknownIDFor).
func unknownIDFor(n int) int16 {
	if n >= 7777 {
		return -5
	}
	return 7777
}

// error classes (for keys and counters; the verdicts only look at "error or not")
func errClass(err error) string {
	if err == nil {
		return "ok"
	}
	s := err.Error()
	switch {
	case strings.Contains(s, "no stream id available"):
		return "no-stream-id-available"
	case strings.Contains(s, "too many in-flight"):
		return "too-many-in-flight"
	case strings.Contains(s, "already in use"):
		return "already-in-use"
	case strings.Contains(s, "unknown stream id"):
		return "unknown-stream-id"
	case strings.Contains(s, "release failed"):
		return "release-failed"
	case strings.Contains(s, "too many pending"):
		return "too-many-pending"
	case strings.Contains(s, "request closed"):
		return "request-closed"
	case strings.Contains(s, "handler closed"):
		return "handler-closed"
	case strings.Contains(s, "connection closed"):
		return "connection-closed"
	case strings.Contains(s, "failed to enqueue"):
		return "outgoing-queue-full"
	}
	return "other"
}

const protoV = primitive.ProtocolVersion4

func newSendFrame(id int16) *frame.Frame {
	return frame.NewFrame(protoV, id, &message.Options{})
}

func newFinalFrame(id int16, v uint8) *frame.Frame {
	var m message.Message
	switch int(v) % len(finalVariants) {
	case 0:
		m = &message.VoidResult{}
	case 1:
		m = &message.Invalid{ErrorMessage: "c09"}
	case 2:
		m = &message.Supported{Options: map[string][]string{"CQL_VERSION": {"3.0.0"}}}
	case 3:
		m = &message.RowsResult{Metadata: &message.RowsMetadata{}, Data: message.RowSet{}}
	case 4:
		m = &message.RowsResult{Metadata: &message.RowsMetadata{ContinuousPageNumber: 2, LastContinuousPage: true}, Data: message.RowSet{}}
	case 5:
		m = &message.ServerError{ErrorMessage: "c09"}
	case 6:
		// a continuous-paging session ended by its page limit: LAST page, and a paging state to resume from
		m = &message.RowsResult{Metadata: &message.RowsMetadata{ContinuousPageNumber: 3, LastContinuousPage: true, PagingState: []byte{0xca, 0xfe}},
			Data: message.RowSet{}}
	default:
		// ordinary (non-continuous) paging: one response per request, more pages are fetched by new requests
		m = &message.RowsResult{Metadata: &message.RowsMetadata{PagingState: []byte{0xca, 0xfe}}, Data: message.RowSet{}}
	}
	return frame.NewFrame(protoV, id, m)
}

// a NON-final page of a continuous-paging response (see isLastFrame in client/inflight.go)
func newPageFrame(id int16, v uint8) *frame.Frame {
	md := &message.RowsMetadata{ContinuousPageNumber: 1, LastContinuousPage: false}
	switch int(v) % len(pageVariants) {
	case 1:
		md.ContinuousPageNumber = 7
	case 2:
		md.PagingState = []byte{0xbe, 0xef}
	case 3:
		md.ContinuousPageNumber, md.PagingState = 3, []byte{0xbe, 0xef}
	}
	return frame.NewFrame(protoV, id, &message.RowsResult{Metadata: md, Data: message.RowSet{}})
}
